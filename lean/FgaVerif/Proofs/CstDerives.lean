import FgaVerif.Proofs.GParseSound
import FgaVerif.Gen.Grammar
import FgaVerif.Model.CstDoc
/-! Every grammatical typed CST (`Model/Cst.lean`, `Model/CstDoc.lean`) is a derivation tree by the
    grammar regenerated from `OpenFGAParser.g4` (`Gen/Grammar.lean`), in the declarative sense of
    `Proofs/GParseSound.lean` (`Derives`), of exactly its own token sequence (`toksOf`) — and only the
    grammatical ones are (`gramWfDecl`, `gramWfDoc`: decidable; `…_derives_gramWf`).

    Method.  `Fwd toks g k new nls` says: wherever the tokens of the trees `new` stand in `toks`, the rule
    body `g` matches them there, pushing exactly `new` on top of `k` children and setting the label fields
    `nls`; one combinator per `Match` constructor hides the reversed accumulator and the position
    arithmetic.  `Der toks n t` says: wherever the tokens of `t` stand, `t` is a derivation tree of rule `n`
    there (`DerE` for the rules that can match the empty span — typeDefs, conditions,
    conditionExpression — whose start position is that of what follows).  One lemma `der_<rule>` per rule,
    by structural induction on the CST; the rule bodies are the closed terms `Gen.Grammar.r_*`, found in
    `Gen.Grammar.rules` by `rfl`.  Restated with comments in `Props/CstGrammar.lean`. -/
namespace FgaVerif.Proofs.CstDerives
open FgaVerif.Model FgaVerif.Model.Conform FgaVerif.Model.GParse FgaVerif.Proofs.GParseSound
open FgaVerif.Model.Cst FgaVerif.Model.Listener

/-- the grammar of this run -/
abbrev R : List (String × Gram) := FgaVerif.Gen.Grammar.rules

/-! ### the tokens of a tree -/

mutual
  /-- the token sequence of a tree: its terminals in order -/
  def toksOf : Tree → List Tok
    | .rule _ _ _ _ cs => toksOfL cs
    | .tok ty text line col _ => [⟨ty, text, line, col⟩]
  def toksOfL : List Tree → List Tok
    | [] => []
    | c :: cs => toksOf c ++ toksOfL cs
end

@[simp] theorem toksOfL_nil : toksOfL [] = [] := by simp [toksOfL]
@[simp] theorem toksOfL_cons (c : Tree) (cs : List Tree) : toksOfL (c :: cs) = toksOf c ++ toksOfL cs := by
  simp [toksOfL]
@[simp] theorem toksOf_rule (n a b ls cs) : toksOf (.rule n a b ls cs) = toksOfL cs := by simp [toksOf]
@[simp] theorem toksOf_tok (ty text : String) (l c e) : toksOf (.tok ty text l c e) = [⟨ty, text, l, c⟩] := by
  simp [toksOf]
@[simp] theorem toksOf_tokT (ty text : String) : toksOf (tokT ty text) = [⟨ty, text, 0, 0⟩] := by
  simp [tokT]
@[simp] theorem toksOf_ws (s : String) : toksOf (ws s) = [⟨"WHITESPACE", s, 0, 0⟩] := by simp [ws]
@[simp] theorem toksOf_nl (s : String) : toksOf (nl s) = [⟨"NEWLINE", s, 0, 0⟩] := by simp [nl]

@[simp] theorem toksOfL_append (a b : List Tree) : toksOfL (a ++ b) = toksOfL a ++ toksOfL b := by
  induction a with
  | nil => simp
  | cons x xs ih => simp [ih]

/-- `toks` has the tokens `l` from position `p` on -/
def Slice (toks : Array Tok) : Nat → List Tok → Prop
  | _, [] => True
  | p, t :: ts => toks[p]? = some t ∧ Slice toks (p + 1) ts

@[simp] theorem slice_nil (toks : Array Tok) (p : Nat) : Slice toks p [] = True := by simp [Slice]
@[simp] theorem slice_cons (toks : Array Tok) (p : Nat) (t : Tok) (ts : List Tok) :
    Slice toks p (t :: ts) = (toks[p]? = some t ∧ Slice toks (p + 1) ts) := by simp [Slice]

theorem slice_append (toks : Array Tok) (p : Nat) (a b : List Tok) :
    Slice toks p (a ++ b) ↔ Slice toks p a ∧ Slice toks (p + a.length) b := by
  induction a generalizing p with
  | nil => simp
  | cons x xs ih =>
    simp only [List.cons_append, slice_cons, ih, List.length_cons]
    have e : p + 1 + xs.length = p + (xs.length + 1) := by omega
    rw [e]
    exact and_assoc.symm

/-- the usual way of saying it -/
theorem slice_of_drop_take (toks : Array Tok) (p : Nat) (l : List Tok)
    (h : (toks.toList.drop p).take l.length = l) : Slice toks p l := by
  induction l generalizing p with
  | nil => simp
  | cons x xs ih =>
    simp only [slice_cons]
    cases hd : toks.toList.drop p with
    | nil => rw [hd] at h; simp at h
    | cons y ys =>
      rw [hd] at h
      simp only [List.length_cons, List.take_succ_cons, List.cons.injEq] at h
      obtain ⟨rfl, h2⟩ := h
      constructor
      · have : (toks.toList.drop p)[0]? = some y := by rw [hd]; rfl
        rw [List.getElem?_drop] at this
        simpa using this
      · apply ih
        have : toks.toList.drop (p + 1) = ys := by
          rw [← List.drop_drop, hd]; rfl
        rw [this]; exact h2

theorem slice_toArray_aux (pre l : List Tok) : Slice (pre ++ l).toArray pre.length l := by
  induction l generalizing pre with
  | nil => simp
  | cons x xs ih =>
    simp only [slice_cons]
    constructor
    · simp
    · have := ih (pre ++ [x])
      simpa using this

theorem slice_toArray (l : List Tok) : Slice l.toArray 0 l := by
  simpa using slice_toArray_aux [] l

/-! ### forward-style matching

`Fwd toks g k new nls`: wherever the tokens of the trees `new` stand in `toks`, the body `g` matches
them there, pushing exactly `new` (onto `k` children already pushed) and setting the label fields `nls`. -/

def Fwd (toks : Array Tok) (g : Gram) (k : Nat) (new : List Tree) (nls : List (String × Nat)) : Prop :=
  ∀ p, Slice toks p (toksOfL new) → ∀ cs ls, cs.length = k →
    Match R toks g p cs ls (p + (toksOfL new).length) (new.reverse ++ cs) (ls ++ nls)

/-- `t` is a derivation tree of rule `n` wherever its tokens stand in `toks` (and it starts at (0,0)) -/
def Der (toks : Array Tok) (n : String) (t : Tree) : Prop :=
  ∀ p, Slice toks p (toksOf t) →
    Derives R toks n t p (p + (toksOf t).length) ∧ startLC toks p = (0, 0)

/-- the same for a rule that can match the empty span: the position of what follows must be known -/
def DerE (toks : Array Tok) (n : String) (t : Tree) : Prop :=
  ∀ p, Slice toks p (toksOf t) → startLC toks p = (0, 0) →
    Derives R toks n t p (p + (toksOf t).length)

/-- the tokens of these trees start at (0, 0) wherever they stand -/
def StartZ (toks : Array Tok) (ts : List Tree) : Prop :=
  ∀ p, Slice toks p (toksOfL ts) → startLC toks p = (0, 0)

section
variable {toks : Array Tok}

theorem Fwd.tok (ty text : String) {k} : Fwd toks (.tok ty) k [tokT ty text] [] := by
  intro p hs cs ls _
  simp only [toksOfL_cons, toksOf_tokT, toksOfL_nil, List.append_nil, slice_cons, slice_nil, and_true] at hs
  have := Match.tok (rules := R) (cs := cs) (ls := ls) hs rfl
  simpa [tokTree, tokT] using this

theorem Fwd.seqNil {k} : Fwd toks (.seq []) k [] [] := by
  intro p _ cs ls _
  simpa using (Match.seqNil (rules := R) (toks := toks) (p := p) (cs := cs) (ls := ls))

theorem Fwd.seqCons {g gs k a la b lb} (ha : Fwd toks g k a la) (hb : Fwd toks (.seq gs) (k + a.length) b lb) :
    Fwd toks (.seq (g :: gs)) k (a ++ b) (la ++ lb) := by
  intro p hs cs ls hk
  rw [toksOfL_append, slice_append] at hs
  have h1 := ha p hs.1 cs ls hk
  have h2 := hb _ hs.2 (a.reverse ++ cs) (ls ++ la) (by simp [hk]; omega)
  have h := Match.seqCons h1 h2
  have e1 : p + (toksOfL a).length + (toksOfL b).length = p + (toksOfL (a ++ b)).length := by
    simp; omega
  have e2 : b.reverse ++ (a.reverse ++ cs) = (a ++ b).reverse ++ cs := by simp
  have e3 : ls ++ la ++ lb = ls ++ (la ++ lb) := by simp
  rw [e1, e2, e3] at h
  exact h

theorem Fwd.seqOne {g k a la} (h : Fwd toks g k a la) : Fwd toks (.seq [g]) k a la := by
  have := Fwd.seqCons h Fwd.seqNil
  simpa using this

theorem Fwd.alt {g gs k new nls} (hm : g ∈ gs) (h : Fwd toks g k new nls) : Fwd toks (.alt gs) k new nls :=
  fun p hs cs ls hk => Match.alt hm (h p hs cs ls hk)

theorem Fwd.optNone {g k} : Fwd toks (.opt g) k [] [] := by
  intro p _ cs ls _
  simpa using (Match.optNone (rules := R) (toks := toks) (g := g) (p := p) (cs := cs) (ls := ls))

theorem Fwd.optSome {g k new nls} (h : Fwd toks g k new nls) : Fwd toks (.opt g) k new nls :=
  fun p hs cs ls hk => Match.optSome (h p hs cs ls hk)

theorem Fwd.starNil {g k} : Fwd toks (.star g) k [] [] := by
  intro p _ cs ls _
  simpa using (Match.starNil (rules := R) (toks := toks) (g := g) (p := p) (cs := cs) (ls := ls))

theorem Fwd.starCons {g k a la b lb} (ha : Fwd toks g k a la) (hb : Fwd toks (.star g) (k + a.length) b lb) :
    Fwd toks (.star g) k (a ++ b) (la ++ lb) := by
  intro p hs cs ls hk
  rw [toksOfL_append, slice_append] at hs
  have h1 := ha p hs.1 cs ls hk
  have h2 := hb _ hs.2 (a.reverse ++ cs) (ls ++ la) (by simp [hk]; omega)
  have h := Match.starCons h1 h2
  have e1 : p + (toksOfL a).length + (toksOfL b).length = p + (toksOfL (a ++ b)).length := by
    simp; omega
  have e2 : b.reverse ++ (a.reverse ++ cs) = (a ++ b).reverse ++ cs := by simp
  have e3 : ls ++ la ++ lb = ls ++ (la ++ lb) := by simp
  rw [e1, e2, e3] at h
  exact h

theorem Fwd.plus {g k a la b lb} (ha : Fwd toks g k a la) (hb : Fwd toks (.star g) (k + a.length) b lb) :
    Fwd toks (.plus g) k (a ++ b) (la ++ lb) := by
  intro p hs cs ls hk
  rw [toksOfL_append, slice_append] at hs
  have h1 := ha p hs.1 cs ls hk
  have h2 := hb _ hs.2 (a.reverse ++ cs) (ls ++ la) (by simp [hk]; omega)
  have h := Match.plus h1 h2
  have e1 : p + (toksOfL a).length + (toksOfL b).length = p + (toksOfL (a ++ b)).length := by
    simp; omega
  have e2 : b.reverse ++ (a.reverse ++ cs) = (a ++ b).reverse ++ cs := by simp
  have e3 : ls ++ la ++ lb = ls ++ (la ++ lb) := by simp
  rw [e1, e2, e3] at h
  exact h

theorem Fwd.label {l g k new nls} (h : Fwd toks g k new nls) : Fwd toks (.label l g) k new (nls ++ [(l, k)]) := by
  intro p hs cs ls hk
  have := Match.label (l := l) (h p hs cs ls hk)
  rw [hk, List.append_assoc] at this
  exact this

theorem Fwd.rule {n t k} (h : Der toks n t) : Fwd toks (.rule n) k [t] [] := by
  intro p hs cs ls _
  simp only [toksOfL_cons, toksOfL_nil, List.append_nil] at hs ⊢
  have := Match.ofDerives (h p hs).1 cs ls
  simpa using this

/-- a rule that may match the empty span, given where it stands -/
theorem Fwd.ruleAt {n t p} (h : DerE toks n t) (hs : Slice toks p (toksOf t)) (hz : startLC toks p = (0, 0))
    (cs ls) : Match R toks (.rule n) p cs ls (p + (toksOf t).length) (t :: cs) ls :=
  Match.ofDerives (h p hs hz) cs ls

theorem Der.ofFwd {n body children ls} (hb : lookup R n = some body) (h : Fwd toks body 0 children ls)
    (hz : StartZ toks children) : Der toks n (.rule n 0 0 ls children) := by
  intro p hs
  simp only [toksOf_rule] at hs ⊢
  have z := hz p hs
  have hm := h p hs [] [] rfl
  simp only [List.append_nil, List.nil_append] at hm
  have d := Derives.mk hb hm
  rw [z, List.reverse_reverse] at d
  exact ⟨d, z⟩

theorem DerE.ofFwd {n body children ls} (hb : lookup R n = some body) (h : Fwd toks body 0 children ls) :
    DerE toks n (.rule n 0 0 ls children) := by
  intro p hs z
  simp only [toksOf_rule] at hs ⊢
  have hm := h p hs [] [] rfl
  simp only [List.append_nil, List.nil_append] at hm
  have d := Derives.mk hb hm
  rw [z, List.reverse_reverse] at d
  exact d

theorem StartZ.tok (ty text : String) (rest : List Tree) : StartZ toks (tokT ty text :: rest) := by
  intro p hs
  simp only [toksOfL_cons, toksOf_tokT, List.cons_append, List.nil_append, slice_cons] at hs
  simp [startLC, hs.1]

theorem StartZ.der {n t} (h : Der toks n t) (rest : List Tree) : StartZ toks (t :: rest) := by
  intro p hs
  simp only [toksOfL_cons, slice_append] at hs
  exact (h p hs.1).2

end

/-! ### derived combinators -/
section
variable {toks : Array Tok}

theorem Fwd.seqTok (ty text : String) {gs k b lb} (hb : Fwd toks (.seq gs) (k + 1) b lb) :
    Fwd toks (.seq (.tok ty :: gs)) k (tokT ty text :: b) lb :=
  Fwd.seqCons (Fwd.tok ty text) hb

theorem Fwd.seqRule {n t gs k b lb} (h : Der toks n t) (hb : Fwd toks (.seq gs) (k + 1) b lb) :
    Fwd toks (.seq (.rule n :: gs)) k (t :: b) lb :=
  Fwd.seqCons (Fwd.rule h) hb

theorem Fwd.seqLabelRule {l n t gs k b lb} (h : Der toks n t) (hb : Fwd toks (.seq gs) (k + 1) b lb) :
    Fwd toks (.seq (.label l (.rule n) :: gs)) k (t :: b) ((l, k) :: lb) :=
  Fwd.seqCons (Fwd.label (Fwd.rule h)) hb

theorem Fwd.seqLabelTok (l ty text : String) {gs k b lb} (hb : Fwd toks (.seq gs) (k + 1) b lb) :
    Fwd toks (.seq (.label l (.tok ty) :: gs)) k (tokT ty text :: b) ((l, k) :: lb) :=
  Fwd.seqCons (Fwd.label (Fwd.tok ty text)) hb

theorem Fwd.optWs (o : Option String) {k} : Fwd toks (.opt (.tok "WHITESPACE")) k (optWs o) [] := by
  cases o with
  | none => exact Fwd.optNone
  | some s => exact Fwd.optSome (Fwd.tok "WHITESPACE" s)

theorem Fwd.optNl (o : Option String) {k} : Fwd toks (.opt (.tok "NEWLINE")) k (optNl o) [] := by
  cases o with
  | none => exact Fwd.optNone
  | some s => exact Fwd.optSome (Fwd.tok "NEWLINE" s)

theorem Fwd.seqOptWs (o : Option String) {gs k b lb} (hb : Fwd toks (.seq gs) (k + (Cst.optWs o).length) b lb) :
    Fwd toks (.seq (.opt (.tok "WHITESPACE") :: gs)) k (Cst.optWs o ++ b) lb :=
  Fwd.seqCons (Fwd.optWs o) hb

theorem Fwd.seqOptNl (o : Option String) {gs k b lb} (hb : Fwd toks (.seq gs) (k + (Cst.optNl o).length) b lb) :
    Fwd toks (.seq (.opt (.tok "NEWLINE") :: gs)) k (Cst.optNl o ++ b) lb :=
  Fwd.seqCons (Fwd.optNl o) hb

theorem Fwd.starWs (l : List String) : ∀ {k}, Fwd toks (.star (.tok "WHITESPACE")) k (l.map ws) [] := by
  induction l with
  | nil => intro k; exact Fwd.starNil
  | cons x xs ih => intro k; exact Fwd.starCons (Fwd.tok "WHITESPACE" x) ih

theorem Fwd.seqStarWs (l : List String) {gs k b lb} (hb : Fwd toks (.seq gs) (k + (l.map ws).length) b lb) :
    Fwd toks (.seq (.star (.tok "WHITESPACE") :: gs)) k (l.map ws ++ b) lb :=
  Fwd.seqCons (Fwd.starWs l) hb

theorem StartZ.optNl (o : Option String) {rest : List Tree} (h : StartZ toks rest) :
    StartZ toks (optNl o ++ rest) := by
  cases o with
  | none => exact h
  | some s => exact StartZ.tok _ _ _

theorem StartZ.optWs (o : Option String) {rest : List Tree} (h : StartZ toks rest) :
    StartZ toks (optWs o ++ rest) := by
  cases o with
  | none => exact h
  | some s => exact StartZ.tok _ _ _

theorem StartZ.ws (s : String) (rest : List Tree) : StartZ toks (ws s :: rest) := StartZ.tok _ _ _
theorem StartZ.nl (s : String) (rest : List Tree) : StartZ toks (nl s :: rest) := StartZ.tok _ _ _

end

/-! ### the grammatical CSTs: the side conditions under which a CST is a derivation -/

/-- the token types of rule `identifier` -/
def identTys : List String := ["MODEL", "SCHEMA", "TYPE", "RELATION", "IDENTIFIER", "MODULE", "EXTEND"]

/-- an identifier token has a type the rule it goes through allows -/
def gwfIdent (i : Ident) : Bool :=
  if i.viaIdentifier then identTys.contains i.tokenType else i.tokenType == "EXTENDED_IDENTIFIER"

def gwfRestr (r : Restr) : Bool :=
  gwfIdent r.type && (match r.kind with | .userset rel => gwfIdent rel | _ => true)

def gwfDirect (d : Direct) : Bool := gwfRestr d.first && d.rest.all (fun x => gwfRestr x.2.1)

def gwfRw (r : Rw) : Bool :=
  gwfIdent r.computed && (match r.from_ with | some (_, _, ts) => gwfIdent ts | none => true)

/-! ### leaves of the relation-definition fragment -/
section
variable {toks : Array Tok}

theorem der_identifier {ty : String} (text : String) (h : ty ∈ identTys) :
    Der toks "identifier" (.rule "identifier" 0 0 [] [tokT ty text]) :=
  Der.ofFwd (body := Gen.Grammar.r_identifier) rfl
    (Fwd.alt (List.mem_map_of_mem (f := Gram.tok) h) (Fwd.tok ty text)) (StartZ.tok _ _ _)

theorem der_ident (i : Ident) (h : gwfIdent i = true) : Der toks "extended_identifier" i.tree := by
  obtain ⟨v, ty, text⟩ := i
  cases v with
  | true =>
    simp only [gwfIdent, if_true, List.contains_iff_mem] at h
    have d := der_identifier (toks := toks) text h
    exact Der.ofFwd (body := Gen.Grammar.r_extended_identifier) rfl
      (Fwd.alt (List.mem_cons_self) (Fwd.rule d)) (StartZ.der d _)
  | false =>
    simp only [gwfIdent, Bool.false_eq_true, if_false, beq_iff_eq] at h
    subst h
    exact Der.ofFwd (body := Gen.Grammar.r_extended_identifier) rfl
      (Fwd.alt (List.mem_cons_of_mem _ List.mem_cons_self) (Fwd.tok _ _)) (StartZ.tok _ _ _)

theorem der_conditionName (c : String) :
    Der toks "conditionName" (.rule "conditionName" 0 0 [] [tokT "IDENTIFIER" c]) :=
  Der.ofFwd (body := Gen.Grammar.r_conditionName) rfl (Fwd.tok _ _) (StartZ.tok _ _ _)

theorem der_restrBase (r : Restr) (h : gwfRestr r = true) :
    Der toks "relationDefTypeRestrictionBase" r.baseTree := by
  obtain ⟨pre, ty, kind, cond, post⟩ := r
  simp only [gwfRestr, Bool.and_eq_true] at h
  have dt := der_ident (toks := toks) ty h.1
  cases kind with
  | plain =>
    exact Der.ofFwd (body := Gen.Grammar.r_relationDefTypeRestrictionBase) rfl
      (Fwd.seqLabelRule dt (Fwd.seqCons Fwd.optNone Fwd.seqNil)) (StartZ.der dt _)
  | wildcard =>
    exact Der.ofFwd (body := Gen.Grammar.r_relationDefTypeRestrictionBase) rfl
      (Fwd.seqLabelRule dt (Fwd.seqCons (Fwd.optSome (Fwd.alt List.mem_cons_self
        (Fwd.seqTok "COLON" ":" (Fwd.seqLabelTok _ "STAR" "*" Fwd.seqNil)))) Fwd.seqNil)) (StartZ.der dt _)
  | userset rel =>
    have dr := der_ident (toks := toks) rel h.2
    exact Der.ofFwd (body := Gen.Grammar.r_relationDefTypeRestrictionBase) rfl
      (Fwd.seqLabelRule dt (Fwd.seqCons (Fwd.optSome (Fwd.alt (List.mem_cons_of_mem _ List.mem_cons_self)
        (Fwd.seqTok "HASH" "#" (Fwd.seqLabelRule dr Fwd.seqNil)))) Fwd.seqNil)) (StartZ.der dt _)

theorem der_restr (r : Restr) (h : gwfRestr r = true) : Der toks "relationDefTypeRestriction" r.tree := by
  have db := der_restrBase (toks := toks) r h
  obtain ⟨pre, ty, kind, cond, post⟩ := r
  cases cond with
  | none =>
    have d := Der.ofFwd (toks := toks) (n := "relationDefTypeRestriction") (body := Gen.Grammar.r_relationDefTypeRestriction) rfl
      (Fwd.seqOptNl pre (Fwd.seqCons (Fwd.alt List.mem_cons_self (Fwd.rule db)) (Fwd.seqOptNl post Fwd.seqNil)))
      (StartZ.optNl pre (StartZ.der db _))
    simpa [Restr.tree] using d
  | some c =>
    obtain ⟨w1, w2, c⟩ := c
    have d := Der.ofFwd (toks := toks) (n := "relationDefTypeRestriction") (body := Gen.Grammar.r_relationDefTypeRestriction) rfl
      (Fwd.seqOptNl pre (Fwd.seqCons (Fwd.alt (List.mem_cons_of_mem _ List.mem_cons_self)
        (Fwd.seqRule db (Fwd.seqTok "WHITESPACE" w1 (Fwd.seqTok "KEYWORD_WITH" "with" (Fwd.seqTok "WHITESPACE" w2
          (Fwd.seqRule (der_conditionName c) Fwd.seqNil)))))) (Fwd.seqOptNl post Fwd.seqNil)))
      (StartZ.optNl pre (StartZ.der db _))
    simpa [Restr.tree, ws] using d

theorem fwd_restTrees (rest : List (Option String × Restr × Option String))
    (h : rest.all (fun x => gwfRestr x.2.1) = true) : ∀ {k},
    Fwd toks (.star (.seq [.tok "COMMA", .opt (.tok "WHITESPACE"), .rule "relationDefTypeRestriction",
      .opt (.tok "WHITESPACE")])) k (Direct.restTrees rest) [] := by
  induction rest with
  | nil => intro k; exact Fwd.starNil
  | cons x xs ih =>
    obtain ⟨a, r, b⟩ := x
    simp only [List.all_cons, Bool.and_eq_true] at h
    intro k
    have := Fwd.starCons (toks := toks) (k := k)
      (Fwd.seqTok "COMMA" "," (Fwd.seqOptWs a (Fwd.seqRule (der_restr r h.1) (Fwd.seqOptWs b Fwd.seqNil))))
      (ih h.2)
    simpa [Direct.restTrees] using this

theorem der_direct (d : Direct) (h : gwfDirect d = true) : Der toks "relationDefDirectAssignment" d.tree := by
  obtain ⟨w0, first, w1, rest⟩ := d
  simp only [gwfDirect, Bool.and_eq_true] at h
  have d := Der.ofFwd (toks := toks) (n := "relationDefDirectAssignment") (body := Gen.Grammar.r_relationDefDirectAssignment) rfl
    (Fwd.seqTok "LBRACKET" "[" (Fwd.seqOptWs w0 (Fwd.seqRule (der_restr first h.1) (Fwd.seqOptWs w1
      (Fwd.seqCons (fwd_restTrees rest h.2) (Fwd.seqTok "RPRACKET" "]" Fwd.seqNil))))))
    (StartZ.tok _ _ _)
  simpa [Direct.tree] using d

theorem der_rw (r : Rw) (h : gwfRw r = true) : Der toks "relationDefRewrite" r.tree := by
  obtain ⟨c, f⟩ := r
  simp only [gwfRw, Bool.and_eq_true] at h
  have dc := der_ident (toks := toks) c h.1
  cases f with
  | none =>
    exact Der.ofFwd (body := Gen.Grammar.r_relationDefRewrite) rfl
      (Fwd.seqLabelRule dc (Fwd.seqCons Fwd.optNone Fwd.seqNil)) (StartZ.der dc _)
  | some x =>
    obtain ⟨w1, w2, ts⟩ := x
    have dts := der_ident (toks := toks) ts h.2
    exact Der.ofFwd (body := Gen.Grammar.r_relationDefRewrite) rfl
      (Fwd.seqLabelRule dc (Fwd.seqCons (Fwd.optSome (Fwd.seqTok "WHITESPACE" w1 (Fwd.seqTok "FROM" "from"
        (Fwd.seqTok "WHITESPACE" w2 (Fwd.seqLabelRule dts Fwd.seqNil))))) Fwd.seqNil)) (StartZ.der dc _)

theorem der_grouping (r : Rw) (h : gwfRw r = true) : Der toks "relationDefGrouping" r.grouping :=
  Der.ofFwd (body := Gen.Grammar.r_relationDefGrouping) rfl (Fwd.rule (der_rw r h)) (StartZ.der (der_rw r h) _)

end

/-! ### relationDefNoDirect, relationRecurseNoDirect, relationDefPartials -/

def isOne : Items → Bool
  | .one _ _ _ => true
  | .cons _ _ _ _ => false

mutual
  def gwfDefND : DefND → Bool
    | .mk first none => gwfItemND first
    | .mk first (some p) => gwfItemND first && gwfPartials p
  def gwfItemND : ItemND → Bool
    | .rw r => gwfRw r
    | .paren r => gwfRecND r
  def gwfRecND : RecND → Bool
    | .ofDef _ _ d => gwfDefND d
    | .ofRec _ _ x => gwfRecND x
  /-- `but not` takes exactly one operand (`or` / `and` any number) -/
  def gwfPartials : Partials → Bool
    | .mk op items => (op != .butNot || isOne items) && gwfItems items
  def gwfItems : Items → Bool
    | .one _ _ i => gwfItemND i
    | .cons _ _ i rest => gwfItemND i && gwfItems rest
end

/-- `(relationDefGrouping | relationRecurseNoDirect)` -/
def itemAlts : List Gram := [.rule "relationDefGrouping", .rule "relationRecurseNoDirect"]

section
variable {toks : Array Tok}

theorem Fwd.starOfPlus {g k new nls} (h : Fwd toks (.plus g) k new nls) : Fwd toks (.star g) k new nls := by
  intro p hs cs ls hk
  have := h p hs cs ls hk
  generalize p + (toksOfL new).length = q at this ⊢
  generalize new.reverse ++ cs = cs' at this ⊢
  generalize ls ++ nls = ls' at this ⊢
  cases this with
  | plus h1 h2 => exact Match.starCons h1 h2

theorem startZ_items (op : Op) (items : Items) : StartZ toks (Items.trees op items) := by
  cases items with
  | one w1 w2 i => rw [Items.trees]; exact StartZ.ws _ _
  | cons w1 w2 i rest => rw [Items.trees]; exact StartZ.ws _ _

mutual
  theorem der_defND (d : DefND) (h : gwfDefND d = true) : Der toks "relationDefNoDirect" (DefND.tree d) := by
    match d, h with
    | .mk first none, h =>
      simp only [gwfDefND] at h
      obtain ⟨n, hm, dn⟩ := itemND_der first h
      rw [DefND.tree]
      exact Der.ofFwd (body := Gen.Grammar.r_relationDefNoDirect) rfl
        (Fwd.seqCons (Fwd.alt hm (Fwd.rule dn)) (Fwd.seqCons Fwd.optNone Fwd.seqNil)) (StartZ.der dn _)
    | .mk first (some p), h =>
      simp only [gwfDefND, Bool.and_eq_true] at h
      obtain ⟨n, hm, dn⟩ := itemND_der first h.1
      have dp := der_partials p h.2
      rw [DefND.tree]
      exact Der.ofFwd (body := Gen.Grammar.r_relationDefNoDirect) rfl
        (Fwd.seqCons (Fwd.alt hm (Fwd.rule dn)) (Fwd.seqCons (Fwd.optSome (Fwd.rule dp)) Fwd.seqNil))
        (StartZ.der dn _)
  theorem itemND_der (i : ItemND) (h : gwfItemND i = true) :
      ∃ n, Gram.rule n ∈ itemAlts ∧ Der toks n (ItemND.tree i) := by
    match i, h with
    | .rw r, h =>
      simp only [gwfItemND] at h
      exact ⟨_, List.mem_cons_self, by rw [ItemND.tree]; exact der_grouping r h⟩
    | .paren r, h =>
      simp only [gwfItemND] at h
      exact ⟨_, List.mem_cons_of_mem _ List.mem_cons_self, by rw [ItemND.tree]; exact der_recND r h⟩
  theorem der_recND (r : RecND) (h : gwfRecND r = true) : Der toks "relationRecurseNoDirect" (RecND.tree r) := by
    match r, h with
    | .ofDef l rr d, h =>
      simp only [gwfRecND] at h
      have dd := der_defND d h
      have := Der.ofFwd (toks := toks) (n := "relationRecurseNoDirect")
        (body := Gen.Grammar.r_relationRecurseNoDirect) rfl
        (Fwd.seqTok "LPAREN" "(" (Fwd.seqStarWs l (Fwd.seqCons (Fwd.alt List.mem_cons_self (Fwd.rule dd))
          (Fwd.seqStarWs rr (Fwd.seqTok "RPAREN" ")" Fwd.seqNil))))) (StartZ.tok _ _ _)
      simpa [RecND.tree] using this
    | .ofRec l rr x, h =>
      simp only [gwfRecND] at h
      have dd := der_recND x h
      have := Der.ofFwd (toks := toks) (n := "relationRecurseNoDirect")
        (body := Gen.Grammar.r_relationRecurseNoDirect) rfl
        (Fwd.seqTok "LPAREN" "(" (Fwd.seqStarWs l (Fwd.seqCons
          (Fwd.alt (List.mem_cons_of_mem _ List.mem_cons_self) (Fwd.rule dd))
          (Fwd.seqStarWs rr (Fwd.seqTok "RPAREN" ")" Fwd.seqNil))))) (StartZ.tok _ _ _)
      simpa [RecND.tree] using this
  theorem der_partials (p : Partials) (h : gwfPartials p = true) :
      Der toks "relationDefPartials" (Partials.tree p) := by
    match p, h with
    | .mk .or items, h =>
      simp only [gwfPartials, Bool.and_eq_true] at h
      rw [Partials.tree]
      exact Der.ofFwd (body := Gen.Grammar.r_relationDefPartials) rfl
        (Fwd.alt List.mem_cons_self (fwd_items "OR" "or" .or rfl items h.2 0)) (startZ_items _ _)
    | .mk .none items, h =>
      simp only [gwfPartials, Bool.and_eq_true] at h
      rw [Partials.tree]
      exact Der.ofFwd (body := Gen.Grammar.r_relationDefPartials) rfl
        (Fwd.alt List.mem_cons_self (fwd_items "OR" "or" .none rfl items h.2 0)) (startZ_items _ _)
    | .mk .and items, h =>
      simp only [gwfPartials, Bool.and_eq_true] at h
      rw [Partials.tree]
      exact Der.ofFwd (body := Gen.Grammar.r_relationDefPartials) rfl
        (Fwd.alt (List.mem_cons_of_mem _ List.mem_cons_self) (fwd_items "AND" "and" .and rfl items h.2 0))
        (startZ_items _ _)
    | .mk .butNot (.one w1 w2 i), h =>
      simp only [gwfPartials, gwfItems, Bool.and_eq_true] at h
      obtain ⟨n, hm, dn⟩ := itemND_der i h.2
      rw [Partials.tree, Items.trees]
      exact Der.ofFwd (body := Gen.Grammar.r_relationDefPartials) rfl
        (Fwd.alt (List.mem_cons_of_mem _ (List.mem_cons_of_mem _ List.mem_cons_self))
          (Fwd.seqTok "WHITESPACE" w1 (Fwd.seqTok "BUT_NOT" "but not" (Fwd.seqTok "WHITESPACE" w2
            (Fwd.seqCons (Fwd.alt hm (Fwd.rule dn)) Fwd.seqNil)))))
        (StartZ.ws _ _)
    | .mk .butNot (.cons _ _ _ _), h =>
      simp only [gwfPartials, isOne, Bool.and_eq_true, Bool.or_false] at h
      exact absurd h.1 (by decide)
  theorem fwd_items (ty text : String) (op : Op) (hop : opTok op = tokT ty text) (items : Items)
      (h : gwfItems items = true) (k : Nat) :
      Fwd toks (.plus (.seq [.tok "WHITESPACE", .tok ty, .tok "WHITESPACE", .alt itemAlts])) k
        (Items.trees op items) [] := by
    match items, h with
    | .one w1 w2 i, h =>
      simp only [gwfItems] at h
      obtain ⟨n, hm, dn⟩ := itemND_der i h
      rw [Items.trees, hop]
      exact Fwd.plus (Fwd.seqTok "WHITESPACE" w1 (Fwd.seqTok ty text (Fwd.seqTok "WHITESPACE" w2
        (Fwd.seqCons (Fwd.alt hm (Fwd.rule dn)) Fwd.seqNil)))) Fwd.starNil
    | .cons w1 w2 i rest, h =>
      simp only [gwfItems, Bool.and_eq_true] at h
      obtain ⟨n, hm, dn⟩ := itemND_der i h.1
      have hr := fwd_items ty text op hop rest h.2 (k + 4)
      rw [Items.trees, hop]
      exact Fwd.plus (Fwd.seqTok "WHITESPACE" w1 (Fwd.seqTok ty text (Fwd.seqTok "WHITESPACE" w2
        (Fwd.seqCons (Fwd.alt hm (Fwd.rule dn)) Fwd.seqNil)))) (Fwd.starOfPlus hr)
end

end

/-! ### relationDef, relationRecurse, relationDeclaration -/

mutual
  def gwfDef : Def → Bool
    | .mk first none => gwfFirst first
    | .mk first (some p) => gwfFirst first && gwfPartials p
  def gwfFirst : First → Bool
    | .direct d => gwfDirect d
    | .rw r => gwfRw r
    | .recurse r => gwfRec r
  def gwfRec : Rec → Bool
    | .ofDef _ _ d => gwfDef d
    | .ofRecND _ _ x => gwfRecND x
end

/-- **the grammatical relation declarations**: every identifier token has a type its rule allows
    (`identifier`: MODEL, SCHEMA, TYPE, RELATION, IDENTIFIER, MODULE, EXTEND; directly under
    `extended_identifier`: EXTENDED_IDENTIFIER), and `but not` has exactly one operand -/
def gramWfDecl (d : Decl) : Bool := gwfIdent d.name && gwfDef d.body

/-- `(relationDefDirectAssignment | relationDefGrouping | relationRecurse)` -/
def firstAlts : List Gram :=
  [.rule "relationDefDirectAssignment", .rule "relationDefGrouping", .rule "relationRecurse"]

section
variable {toks : Array Tok}

mutual
  theorem der_def (d : Def) (h : gwfDef d = true) : Der toks "relationDef" (Def.tree d) := by
    match d, h with
    | .mk first none, h =>
      simp only [gwfDef] at h
      obtain ⟨n, hm, dn⟩ := first_der first h
      rw [Def.tree]
      exact Der.ofFwd (body := Gen.Grammar.r_relationDef) rfl
        (Fwd.seqCons (Fwd.alt hm (Fwd.rule dn)) (Fwd.seqCons Fwd.optNone Fwd.seqNil)) (StartZ.der dn _)
    | .mk first (some p), h =>
      simp only [gwfDef, Bool.and_eq_true] at h
      obtain ⟨n, hm, dn⟩ := first_der first h.1
      have dp := der_partials (toks := toks) p h.2
      rw [Def.tree]
      exact Der.ofFwd (body := Gen.Grammar.r_relationDef) rfl
        (Fwd.seqCons (Fwd.alt hm (Fwd.rule dn)) (Fwd.seqCons (Fwd.optSome (Fwd.rule dp)) Fwd.seqNil))
        (StartZ.der dn _)
  theorem first_der (f : First) (h : gwfFirst f = true) :
      ∃ n, Gram.rule n ∈ firstAlts ∧ Der toks n (First.tree f) := by
    match f, h with
    | .direct d, h =>
      simp only [gwfFirst] at h
      exact ⟨_, List.mem_cons_self, by rw [First.tree]; exact der_direct d h⟩
    | .rw r, h =>
      simp only [gwfFirst] at h
      exact ⟨_, List.mem_cons_of_mem _ List.mem_cons_self, by rw [First.tree]; exact der_grouping r h⟩
    | .recurse r, h =>
      simp only [gwfFirst] at h
      exact ⟨_, List.mem_cons_of_mem _ (List.mem_cons_of_mem _ List.mem_cons_self),
        by rw [First.tree]; exact der_rec r h⟩
  theorem der_rec (r : Rec) (h : gwfRec r = true) : Der toks "relationRecurse" (Rec.tree r) := by
    match r, h with
    | .ofDef l rr d, h =>
      simp only [gwfRec] at h
      have dd := der_def d h
      have := Der.ofFwd (toks := toks) (n := "relationRecurse") (body := Gen.Grammar.r_relationRecurse) rfl
        (Fwd.seqTok "LPAREN" "(" (Fwd.seqStarWs l (Fwd.seqCons (Fwd.alt List.mem_cons_self (Fwd.rule dd))
          (Fwd.seqStarWs rr (Fwd.seqTok "RPAREN" ")" Fwd.seqNil))))) (StartZ.tok _ _ _)
      simpa [Rec.tree] using this
    | .ofRecND l rr x, h =>
      simp only [gwfRec] at h
      have dd := der_recND (toks := toks) x h
      have := Der.ofFwd (toks := toks) (n := "relationRecurse") (body := Gen.Grammar.r_relationRecurse) rfl
        (Fwd.seqTok "LPAREN" "(" (Fwd.seqStarWs l (Fwd.seqCons
          (Fwd.alt (List.mem_cons_of_mem _ List.mem_cons_self) (Fwd.rule dd))
          (Fwd.seqStarWs rr (Fwd.seqTok "RPAREN" ")" Fwd.seqNil))))) (StartZ.tok _ _ _)
      simpa [Rec.tree] using this
end

theorem der_relationName (i : Ident) (h : gwfIdent i = true) :
    Der toks "relationName" (.rule "relationName" 0 0 [] [i.tree]) :=
  Der.ofFwd (body := Gen.Grammar.r_relationName) rfl (Fwd.rule (der_ident i h)) (StartZ.der (der_ident i h) _)

theorem der_decl (d : Decl) (h : gramWfDecl d = true) : Der toks "relationDeclaration" d.tree := by
  obtain ⟨nl0, w1, name, w2, w3, body⟩ := d
  simp only [gramWfDecl, Bool.and_eq_true] at h
  have := Der.ofFwd (toks := toks) (n := "relationDeclaration") (body := Gen.Grammar.r_relationDeclaration) rfl
    (Fwd.seqCons Fwd.optNone (Fwd.seqTok "NEWLINE" nl0 (Fwd.seqTok "DEFINE" "define" (Fwd.seqTok "WHITESPACE" w1
      (Fwd.seqRule (der_relationName name h.1) (Fwd.seqOptWs w2 (Fwd.seqTok "COLON" ":" (Fwd.seqOptWs w3
        (Fwd.seqRule (der_def body h.2) Fwd.seqNil)))))))))
    (StartZ.tok _ _ _)
  simpa [Decl.tree, nl, ws] using this

end

/-! ### typeDef, typeDefs -/

/-- a grammatical type definition: its name and its declarations are grammatical -/
def gwfTypeDef (t : TypeDefCst) : Bool := gwfIdent t.name && t.decls.all gramWfDecl

section
variable {toks : Array Tok}

/-- a rule that may match the empty span, inside a sequence: what follows it tells where it starts -/
theorem Fwd.seqRuleE {n t gs k b lb} (h : DerE toks n t) (hz : StartZ toks (t :: b))
    (hb : Fwd toks (.seq gs) (k + 1) b lb) : Fwd toks (.seq (.rule n :: gs)) k (t :: b) lb := by
  intro p hs cs ls hk
  have z := hz p hs
  rw [toksOfL_cons, slice_append] at hs
  have h1 := Fwd.ruleAt h hs.1 z cs ls
  have h2 := hb _ hs.2 (t :: cs) ls (by simp [hk])
  have hm := Match.seqCons h1 h2
  have e1 : p + (toksOf t).length + (toksOfL b).length = p + (toksOfL (t :: b)).length := by
    simp; omega
  have e2 : b.reverse ++ t :: cs = (t :: b).reverse ++ cs := by simp
  rw [e1, e2] at hm
  exact hm

theorem fwd_decls (ds : List Decl) (h : ds.all gramWfDecl = true) : ∀ {k},
    Fwd toks (.star (.rule "relationDeclaration")) k (ds.map Decl.tree) [] := by
  induction ds with
  | nil => intro k; exact Fwd.starNil
  | cons d ds ih =>
    simp only [List.all_cons, Bool.and_eq_true] at h
    intro k
    exact Fwd.starCons (Fwd.rule (der_decl d h.1)) (ih h.2)

theorem der_typeDef (t : TypeDefCst) (h : gwfTypeDef t = true) : Der toks "typeDef" t.tree := by
  obtain ⟨nl0, extend, w1, name, rels⟩ := t
  simp only [gwfTypeDef, Bool.and_eq_true] at h
  have dn := der_ident (toks := toks) name h.1
  have h2 := h.2
  cases rels with
  | none =>
    cases extend with
    | none =>
      have := Der.ofFwd (toks := toks) (n := "typeDef") (body := Gen.Grammar.r_typeDef) rfl
        (Fwd.seqCons Fwd.optNone (Fwd.seqTok "NEWLINE" nl0 (Fwd.seqCons Fwd.optNone (Fwd.seqTok "TYPE" "type"
          (Fwd.seqTok "WHITESPACE" w1 (Fwd.seqLabelRule dn (Fwd.seqCons Fwd.optNone Fwd.seqNil)))))))
        (StartZ.tok _ _ _)
      simpa [TypeDefCst.tree, TypeDefCst.children, TypeDefCst.extendTrees, TypeDefCst.relTrees,
        TypeDefCst.nameIdx, nl, ws] using this
    | some we =>
      have := Der.ofFwd (toks := toks) (n := "typeDef") (body := Gen.Grammar.r_typeDef) rfl
        (Fwd.seqCons Fwd.optNone (Fwd.seqTok "NEWLINE" nl0 (Fwd.seqCons
          (Fwd.optSome (Fwd.seqTok "EXTEND" "extend" (Fwd.seqTok "WHITESPACE" we Fwd.seqNil)))
          (Fwd.seqTok "TYPE" "type"
          (Fwd.seqTok "WHITESPACE" w1 (Fwd.seqLabelRule dn (Fwd.seqCons Fwd.optNone Fwd.seqNil)))))))
        (StartZ.tok _ _ _)
      simpa [TypeDefCst.tree, TypeDefCst.children, TypeDefCst.extendTrees, TypeDefCst.relTrees,
        TypeDefCst.nameIdx, nl, ws] using this
  | some r =>
    obtain ⟨n, d, ds⟩ := r
    simp only [TypeDefCst.decls, List.all_cons, Bool.and_eq_true] at h2
    have hrel : ∀ k, Fwd toks (.opt (.seq [.tok "NEWLINE", .tok "RELATIONS", .plus (.rule "relationDeclaration")]))
        k (tokT "NEWLINE" n :: tokT "RELATIONS" "relations" :: (d :: ds).map Decl.tree) [] := fun k =>
      Fwd.optSome (Fwd.seqTok "NEWLINE" n (Fwd.seqTok "RELATIONS" "relations"
        (Fwd.seqOne (Fwd.plus (Fwd.rule (der_decl d h2.1)) (fwd_decls ds h2.2)))))
    cases extend with
    | none =>
      have := Der.ofFwd (toks := toks) (n := "typeDef") (body := Gen.Grammar.r_typeDef) rfl
        (Fwd.seqCons Fwd.optNone (Fwd.seqTok "NEWLINE" nl0 (Fwd.seqCons Fwd.optNone (Fwd.seqTok "TYPE" "type"
          (Fwd.seqTok "WHITESPACE" w1 (Fwd.seqLabelRule dn (Fwd.seqCons (hrel _) Fwd.seqNil)))))))
        (StartZ.tok _ _ _)
      simpa [TypeDefCst.tree, TypeDefCst.children, TypeDefCst.extendTrees, TypeDefCst.relTrees,
        TypeDefCst.nameIdx, nl, ws] using this
    | some we =>
      have := Der.ofFwd (toks := toks) (n := "typeDef") (body := Gen.Grammar.r_typeDef) rfl
        (Fwd.seqCons Fwd.optNone (Fwd.seqTok "NEWLINE" nl0 (Fwd.seqCons
          (Fwd.optSome (Fwd.seqTok "EXTEND" "extend" (Fwd.seqTok "WHITESPACE" we Fwd.seqNil)))
          (Fwd.seqTok "TYPE" "type"
          (Fwd.seqTok "WHITESPACE" w1 (Fwd.seqLabelRule dn (Fwd.seqCons (hrel _) Fwd.seqNil)))))))
        (StartZ.tok _ _ _)
      simpa [TypeDefCst.tree, TypeDefCst.children, TypeDefCst.extendTrees, TypeDefCst.relTrees,
        TypeDefCst.nameIdx, nl, ws] using this

theorem fwd_typeDefs (ts : List TypeDefCst) (h : ts.all gwfTypeDef = true) : ∀ {k},
    Fwd toks (.star (.rule "typeDef")) k (ts.map TypeDefCst.tree) [] := by
  induction ts with
  | nil => intro k; exact Fwd.starNil
  | cons t ts ih =>
    simp only [List.all_cons, Bool.and_eq_true] at h
    intro k
    exact Fwd.starCons (Fwd.rule (der_typeDef t h.1)) (ih h.2)

theorem der_typeDefs (ts : List TypeDefCst) (h : ts.all gwfTypeDef = true) :
    DerE toks "typeDefs" (.rule "typeDefs" 0 0 [] (ts.map TypeDefCst.tree)) :=
  DerE.ofFwd (body := Gen.Grammar.r_typeDefs) rfl (fwd_typeDefs ts h)

theorem startZ_typeDefs (ts : List TypeDefCst) {rest : List Tree} (h : StartZ toks rest) :
    StartZ toks (.rule "typeDefs" 0 0 [] (ts.map TypeDefCst.tree) :: rest) := by
  intro p hs
  cases ts with
  | nil => exact h p (by simpa using hs)
  | cons t ts =>
    simp only [toksOfL_cons, toksOf_rule, List.map_cons, TypeDefCst.tree, TypeDefCst.children, toksOf_nl,
      List.cons_append, List.nil_append, slice_cons] at hs
    simp [startLC, hs.1]

end

/-! ### parameters, conditionExpression, condition, conditions -/

/-- a grammatical condition: no expression token is `RBRACE` (the expression ends at the first one) or
    `EOF` (a `~(…)` set never matches it) -/
def gwfCond (c : CondCst) : Bool := c.expr.all (fun x => x.1 != "RBRACE" && x.1 != "EOF")

section
variable {toks : Array Tok}

theorem Fwd.notTok {tys : List String} (ty text : String) (h1 : ty ≠ "EOF") (h2 : ty ∉ tys) {k} :
    Fwd toks (.notTok tys) k [tokT ty text] [] := by
  intro p hs cs ls _
  simp only [toksOfL_cons, toksOf_tokT, toksOfL_nil, List.append_nil, slice_cons, slice_nil, and_true] at hs
  have := Match.notTok (rules := R) (cs := cs) (ls := ls) hs h1 h2
  simpa [tokTree, tokT] using this

theorem der_parameterName (s : String) :
    Der toks "parameterName" (.rule "parameterName" 0 0 [] [tokT "IDENTIFIER" s]) :=
  Der.ofFwd (body := Gen.Grammar.r_parameterName) rfl (Fwd.tok _ _) (StartZ.tok _ _ _)

theorem der_parameterType (t : ParamTypeCst) : Der toks "parameterType" t.tree := by
  cases t with
  | simple s =>
    exact Der.ofFwd (body := Gen.Grammar.r_parameterType) rfl
      (Fwd.alt List.mem_cons_self (Fwd.tok _ _)) (StartZ.tok _ _ _)
  | container c g =>
    exact Der.ofFwd (body := Gen.Grammar.r_parameterType) rfl
      (Fwd.alt (List.mem_cons_of_mem _ List.mem_cons_self)
        (Fwd.seqTok "CONDITION_PARAM_CONTAINER" c (Fwd.seqTok "LESS" "<" (Fwd.seqTok "CONDITION_PARAM_TYPE" g
          (Fwd.seqTok "GREATER" ">" Fwd.seqNil))))) (StartZ.tok _ _ _)

theorem der_param (q : ParamCst) : Der toks "conditionParameter" q.tree := by
  obtain ⟨nl0, name, w1, w2, ty⟩ := q
  have := Der.ofFwd (toks := toks) (n := "conditionParameter") (body := Gen.Grammar.r_conditionParameter) rfl
    (Fwd.seqOptNl nl0 (Fwd.seqRule (der_parameterName name) (Fwd.seqOptWs w1 (Fwd.seqTok "COLON" ":"
      (Fwd.seqOptWs w2 (Fwd.seqRule (der_parameterType ty) Fwd.seqNil))))))
    (StartZ.optNl nl0 (StartZ.der (der_parameterName name) _))
  simpa [ParamCst.tree] using this

theorem fwd_paramRest (rest : List (Option String × ParamCst × Option String)) : ∀ {k},
    Fwd toks (.star (.seq [.tok "COMMA", .opt (.tok "WHITESPACE"), .rule "conditionParameter",
      .opt (.tok "WHITESPACE")])) k (CondCst.restTrees rest) [] := by
  induction rest with
  | nil => intro k; exact Fwd.starNil
  | cons x xs ih =>
    obtain ⟨a, q, b⟩ := x
    intro k
    have := Fwd.starCons (toks := toks) (k := k)
      (Fwd.seqTok "COMMA" "," (Fwd.seqOptWs a (Fwd.seqRule (der_param q) (Fwd.seqOptWs b Fwd.seqNil)))) ih
    simpa [CondCst.restTrees] using this

theorem fwd_expr (e : List (String × String)) (h : e.all (fun x => x.1 != "RBRACE" && x.1 != "EOF") = true)
    {A : Gram} : ∀ {k}, Fwd toks (.star (.alt [A, .notTok ["RBRACE"]])) k (e.map exprTok) [] := by
  induction e with
  | nil => intro k; exact Fwd.starNil
  | cons x xs ih =>
    simp only [List.all_cons, Bool.and_eq_true, bne_iff_ne, ne_eq] at h
    intro k
    exact Fwd.starCons (Fwd.alt (List.mem_cons_of_mem _ List.mem_cons_self)
      (Fwd.notTok x.1 x.2 h.1.2 (by simpa using h.1.1))) (ih h.2)

theorem der_expr (e : List (String × String)) (h : e.all (fun x => x.1 != "RBRACE" && x.1 != "EOF") = true) :
    DerE toks "conditionExpression" (.rule "conditionExpression" 0 0 [] (e.map exprTok)) :=
  DerE.ofFwd (body := Gen.Grammar.r_conditionExpression) rfl (fwd_expr e h)

theorem startZ_expr (e : List (String × String)) {rest : List Tree} (h : StartZ toks rest) :
    StartZ toks (.rule "conditionExpression" 0 0 [] (e.map exprTok) :: rest) := by
  intro p hs
  cases e with
  | nil => exact h p (by simpa using hs)
  | cons x xs =>
    simp only [toksOfL_cons, toksOf_rule, List.map_cons, exprTok, toksOf_tokT,
      List.cons_append, List.nil_append, slice_cons] at hs
    simp [startLC, hs.1]

theorem der_cond (c : CondCst) (h : gwfCond c = true) : Der toks "condition" c.tree := by
  obtain ⟨nl0, w1, name, w2, w3, first, w4, rest, nl1, w5, nl2, w6, expr, nl3⟩ := c
  simp only [gwfCond] at h
  have := Der.ofFwd (toks := toks) (n := "condition") (body := Gen.Grammar.r_condition) rfl
    (Fwd.seqCons Fwd.optNone (Fwd.seqTok "NEWLINE" nl0 (Fwd.seqTok "CONDITION" "condition"
      (Fwd.seqTok "WHITESPACE" w1 (Fwd.seqRule (der_conditionName name) (Fwd.seqOptWs w2 (Fwd.seqTok "LPAREN" "("
      (Fwd.seqOptWs w3 (Fwd.seqRule (der_param first) (Fwd.seqOptWs w4 (Fwd.seqCons (fwd_paramRest rest)
      (Fwd.seqOptNl nl1 (Fwd.seqTok "RPAREN" ")" (Fwd.seqOptWs w5 (Fwd.seqTok "LBRACE" "{" (Fwd.seqOptNl nl2
      (Fwd.seqOptWs w6 (Fwd.seqRuleE (der_expr expr h)
        (startZ_expr expr (StartZ.optNl nl3 (StartZ.tok "RBRACE" "}" [])))
        (Fwd.seqOptNl nl3 (Fwd.seqTok "RBRACE" "}" Fwd.seqNil))))))))))))))))))))
    (StartZ.tok _ _ _)
  simpa [CondCst.tree, CondCst.exprTree, nl, ws] using this

theorem fwd_conds (cs : List CondCst) (h : cs.all gwfCond = true) : ∀ {k},
    Fwd toks (.star (.rule "condition")) k (cs.map CondCst.tree) [] := by
  induction cs with
  | nil => intro k; exact Fwd.starNil
  | cons c cs ih =>
    simp only [List.all_cons, Bool.and_eq_true] at h
    intro k
    exact Fwd.starCons (Fwd.rule (der_cond c h.1)) (ih h.2)

theorem der_conds (cs : List CondCst) (h : cs.all gwfCond = true) :
    DerE toks "conditions" (.rule "conditions" 0 0 [] (cs.map CondCst.tree)) :=
  DerE.ofFwd (body := Gen.Grammar.r_conditions) rfl (fwd_conds cs h)

theorem startZ_conds (cs : List CondCst) {rest : List Tree} (h : StartZ toks rest) :
    StartZ toks (.rule "conditions" 0 0 [] (cs.map CondCst.tree) :: rest) := by
  intro p hs
  cases cs with
  | nil => exact h p (by simpa using hs)
  | cons c cs =>
    simp only [toksOfL_cons, toksOf_rule, List.map_cons, CondCst.tree, toksOf_nl, List.append_assoc,
      List.cons_append, List.nil_append, slice_cons] at hs
    simp [startLC, hs.1]

end

/-! ### headers, main -/

/-- a grammatical header: the module name token has a type rule `identifier` allows -/
def gwfHeader : HeaderCst → Bool
  | .model _ _ _ _ => true
  | .module _ ty _ _ => identTys.contains ty

/-- **the grammatical documents**: grammatical header, type definitions and conditions -/
def gramWfDoc (d : DocCst) : Bool :=
  gwfHeader d.header && d.types.all gwfTypeDef && d.conds.all gwfCond

/-- `(modelHeader | moduleHeader)` -/
def headerAlts : List Gram := [.rule "modelHeader", .rule "moduleHeader"]

section
variable {toks : Array Tok}

theorem header_der (hd : HeaderCst) (h : gwfHeader hd = true) :
    ∃ n, Gram.rule n ∈ headerAlts ∧ Der toks n hd.tree := by
  cases hd with
  | model nl1 w1 v w2 =>
    refine ⟨_, List.mem_cons_self, ?_⟩
    have := Der.ofFwd (toks := toks) (n := "modelHeader") (body := Gen.Grammar.r_modelHeader) rfl
      (Fwd.seqCons Fwd.optNone (Fwd.seqTok "MODEL" "model" (Fwd.seqTok "NEWLINE" nl1 (Fwd.seqTok "SCHEMA" "schema"
        (Fwd.seqTok "WHITESPACE" w1 (Fwd.seqLabelTok "schemaVersion" "SCHEMA_VERSION" v (Fwd.seqOptWs w2 Fwd.seqNil)))))))
      (StartZ.tok _ _ _)
    simpa [HeaderCst.tree, nl, ws] using this
  | module w1 ty n w2 =>
    refine ⟨_, List.mem_cons_of_mem _ List.mem_cons_self, ?_⟩
    simp only [gwfHeader, List.contains_iff_mem] at h
    have := Der.ofFwd (toks := toks) (n := "moduleHeader") (body := Gen.Grammar.r_moduleHeader) rfl
      (Fwd.seqCons Fwd.optNone (Fwd.seqTok "MODULE" "module" (Fwd.seqTok "WHITESPACE" w1
        (Fwd.seqLabelRule (l := "moduleName") (der_identifier n h) (Fwd.seqOptWs w2 Fwd.seqNil)))))
      (StartZ.tok _ _ _)
    simpa [HeaderCst.tree, nl, ws] using this

theorem der_doc (d : DocCst) (h : gramWfDoc d = true) : Der toks "main" d.tree := by
  obtain ⟨w0, nl0, header, nl1, types, nl2, conds, nl3⟩ := d
  simp only [gramWfDoc, Bool.and_eq_true] at h
  obtain ⟨n, hm, dh⟩ := header_der (toks := toks) header h.1.1
  have zc : StartZ toks (.rule "conditions" 0 0 [] (conds.map CondCst.tree) :: (optNl nl3 ++ [tokT "EOF" "<EOF>"])) :=
    startZ_conds conds (StartZ.optNl nl3 (StartZ.tok _ _ _))
  have := Der.ofFwd (toks := toks) (n := "main") (body := Gen.Grammar.r_main) rfl
    (Fwd.seqOptWs w0 (Fwd.seqOptNl nl0 (Fwd.seqCons (Fwd.alt hm (Fwd.rule dh)) (Fwd.seqOptNl nl1
      (Fwd.seqRuleE (der_typeDefs types h.1.2) (startZ_typeDefs types (StartZ.optNl nl2 zc))
      (Fwd.seqOptNl nl2 (Fwd.seqRuleE (der_conds conds h.2) zc
      (Fwd.seqOptNl nl3 (Fwd.seqTok "EOF" "<EOF>" Fwd.seqNil)))))))))
    (StartZ.optWs w0 (StartZ.optNl nl0 (StartZ.der dh _)))
  simpa [DocCst.tree] using this

end

/-! ### the main theorems -/

/-- **every grammatical relation declaration CST is a derivation tree of `relationDeclaration`** by the
    grammar of this run, wherever its tokens stand in a token array -/
theorem decl_tree_derives (d : Decl) (h : gramWfDecl d = true) (toks : Array Tok) (p : Nat)
    (hslice : (toks.toList.drop p).take (toksOf (Decl.tree d)).length = toksOf (Decl.tree d)) :
    Derives FgaVerif.Gen.Grammar.rules toks "relationDeclaration" (Decl.tree d) p
      (p + (toksOf (Decl.tree d)).length) :=
  (der_decl d h p (slice_of_drop_take _ _ _ hslice)).1

/-- every grammatical type definition CST is a derivation tree of `typeDef` -/
theorem typeDef_tree_derives (t : TypeDefCst) (h : gwfTypeDef t = true) (toks : Array Tok) (p : Nat)
    (hslice : (toks.toList.drop p).take (toksOf t.tree).length = toksOf t.tree) :
    Derives FgaVerif.Gen.Grammar.rules toks "typeDef" t.tree p (p + (toksOf t.tree).length) :=
  (der_typeDef t h p (slice_of_drop_take _ _ _ hslice)).1

/-- every grammatical condition CST is a derivation tree of `condition` -/
theorem cond_tree_derives (c : CondCst) (h : gwfCond c = true) (toks : Array Tok) (p : Nat)
    (hslice : (toks.toList.drop p).take (toksOf c.tree).length = toksOf c.tree) :
    Derives FgaVerif.Gen.Grammar.rules toks "condition" c.tree p (p + (toksOf c.tree).length) :=
  (der_cond c h p (slice_of_drop_take _ _ _ hslice)).1

/-- **every grammatical document CST is a derivation tree of `main`** over exactly its own tokens -/
theorem doc_tree_derives (d : DocCst) (h : gramWfDoc d = true) :
    Derives FgaVerif.Gen.Grammar.rules (toksOf (DocCst.tree d)).toArray "main" (DocCst.tree d) 0
      (toksOf (DocCst.tree d)).length := by
  have := (der_doc d h 0 (slice_toArray _)).1
  simpa using this

/-! ## the side conditions are necessary

A CST whose tree is a derivation tree (over any token array, at any position) is grammatical: `gramWfDecl` /
`gramWfDoc` are exactly the conditions under which the hand-written trees are trees of the grammar. -/

/-- every rule context of the tree is a derivation tree of its rule somewhere in `toks` -/
inductive AllDer (toks : Array Tok) : Tree → Prop
  | tok (ty text l c e) : AllDer toks (.tok ty text l c e)
  | rule {n l c ls cs} (p q : Nat) : Derives R toks n (.rule n l c ls cs) p q → (∀ x ∈ cs, AllDer toks x) →
      AllDer toks (.rule n l c ls cs)

section
variable {toks : Array Tok}

theorem match_allDer {g p cs ls q cs' ls'} (h : Match R toks g p cs ls q cs' ls') :
    ∃ new, cs' = new ++ cs ∧ ∀ x ∈ new, AllDer toks x := by
  induction h with
  | tok _ _ => exact ⟨[_], rfl, by simp [tokTree, AllDer.tok]⟩
  | notTok _ _ _ => exact ⟨[_], rfl, by simp [tokTree, AllDer.tok]⟩
  | rule hb hm ih =>
    obtain ⟨new, e, hall⟩ := ih
    simp only [List.append_nil] at e
    subst e
    exact ⟨[_], rfl, by
      intro x hx
      simp only [List.mem_singleton] at hx
      subst hx
      exact AllDer.rule _ _ (Derives.mk hb hm) (fun y hy => hall y (by simpa using hy))⟩
  | seqNil => exact ⟨[], rfl, by simp⟩
  | seqCons _ _ ih₁ ih₂ =>
    obtain ⟨n₁, e₁, a₁⟩ := ih₁
    obtain ⟨n₂, e₂, a₂⟩ := ih₂
    exact ⟨n₂ ++ n₁, by simp [e₁, e₂], fun x hx => (List.mem_append.1 hx).elim (a₂ x) (a₁ x)⟩
  | alt _ _ ih => exact ih
  | optNone => exact ⟨[], rfl, by simp⟩
  | optSome _ ih => exact ih
  | starNil => exact ⟨[], rfl, by simp⟩
  | starCons _ _ ih₁ ih₂ =>
    obtain ⟨n₁, e₁, a₁⟩ := ih₁
    obtain ⟨n₂, e₂, a₂⟩ := ih₂
    exact ⟨n₂ ++ n₁, by simp [e₁, e₂], fun x hx => (List.mem_append.1 hx).elim (a₂ x) (a₁ x)⟩
  | plus _ _ ih₁ ih₂ =>
    obtain ⟨n₁, e₁, a₁⟩ := ih₁
    obtain ⟨n₂, e₂, a₂⟩ := ih₂
    exact ⟨n₂ ++ n₁, by simp [e₁, e₂], fun x hx => (List.mem_append.1 hx).elim (a₂ x) (a₁ x)⟩
  | label _ ih => exact ih

theorem derives_inv {n t p q} (h : Derives R toks n t p q) :
    ∃ body csRev ls, lookup R n = some body ∧ Match R toks body p [] [] q csRev ls ∧
      t = Tree.rule n (startLC toks p).1 (startLC toks p).2 ls csRev.reverse := by
  cases h with
  | mk hb hm => exact ⟨_, _, _, hb, hm, rfl⟩

theorem derives_allDer {n t p q} (h : Derives R toks n t p q) : AllDer toks t := by
  obtain ⟨body, csRev, ls, hb, hm, rfl⟩ := derives_inv h
  obtain ⟨new, e, hall⟩ := match_allDer hm
  simp only [List.append_nil] at e
  subst e
  exact AllDer.rule _ _ (Derives.mk hb hm) (fun y hy => hall y (by simpa using hy))

theorem AllDer.child {n l c ls cs x} (h : AllDer toks (.rule n l c ls cs)) (hx : x ∈ cs) : AllDer toks x := by
  cases h with
  | rule _ _ _ hall => exact hall x hx

/-- the match of the rule body behind a rule context of a derivation -/
theorem AllDer.body {n l c ls cs} (h : AllDer toks (.rule n l c ls cs)) :
    ∃ body csRev p q, lookup R n = some body ∧ Match R toks body p [] [] q csRev ls ∧ csRev.reverse = cs := by
  cases h with
  | rule p q hd _ =>
    obtain ⟨body, csRev, ls', hb, hm, e⟩ := derives_inv hd
    injection e with _ _ _ e4 e5
    subst e4
    exact ⟨body, csRev, p, q, hb, hm, e5.symm⟩

/-- a choice between token types pushes one token of one of these types -/
theorem match_altToks {tys : List String} {p cs ls q cs' ls'}
    (h : Match R toks (.alt (tys.map Gram.tok)) p cs ls q cs' ls') :
    ∃ t, cs' = tokTree t :: cs ∧ t.ty ∈ tys := by
  cases h with
  | alt hm hg =>
    obtain ⟨ty, hty, rfl⟩ := List.mem_map.1 hm
    cases hg with
    | tok ht he => exact ⟨_, rfl, he ▸ hty⟩

/-- what a `*` pushes, given what its body pushes -/
theorem match_starAll {g : Gram} {P : Tree → Prop}
    (hg : ∀ {p cs ls q cs' ls'}, Match R toks g p cs ls q cs' ls' → ∃ new, cs' = new ++ cs ∧ ∀ x ∈ new, P x)
    {p cs ls q cs' ls'} (h : Match R toks (.star g) p cs ls q cs' ls') :
    ∃ new, cs' = new ++ cs ∧ ∀ x ∈ new, P x := by
  generalize hs : Gram.star g = s at h
  induction h with
  | starNil => exact ⟨[], rfl, by simp⟩
  | starCons h1 _ _ ih₂ =>
    injection hs with hs
    subst hs
    obtain ⟨n₁, e₁, a₁⟩ := hg h1
    obtain ⟨n₂, e₂, a₂⟩ := ih₂ rfl
    exact ⟨n₂ ++ n₁, by simp [e₁, e₂], fun x hx => (List.mem_append.1 hx).elim (a₂ x) (a₁ x)⟩
  | tok _ _ => cases hs
  | notTok _ _ _ => cases hs
  | rule _ _ _ => cases hs
  | seqNil => cases hs
  | seqCons _ _ _ _ => cases hs
  | alt _ _ _ => cases hs
  | optNone => cases hs
  | optSome _ _ => cases hs
  | plus _ _ _ _ => cases hs
  | label _ _ => cases hs

end

/-! ### the four places where the CST is more permissive than the grammar -/

/-- the token types the first alternative of `conditionExpression` lists -/
def exprTys : List String :=
  ["IDENTIFIER", "EQUALS", "NOT_EQUALS", "IN", "LESS", "LESS_EQUALS", "GREATER_EQUALS", "GREATER", "LOGICAL_AND",
   "LOGICAL_OR", "LBRACKET", "RPRACKET", "LBRACE", "LPAREN", "RPAREN", "DOT", "MINUS", "EXCLAM", "QUESTIONMARK",
   "PLUS", "STAR", "SLASH", "PERCENT", "CEL_TRUE", "CEL_FALSE", "NUL", "WHITESPACE", "CEL_COMMENT", "NUM_FLOAT",
   "NUM_INT", "NUM_UINT", "STRING", "BYTES", "NEWLINE", "WHITESPACE"]

section
variable {toks : Array Tok}

theorem nec_identifier {ty text : String} {l c ls} (h : AllDer toks (.rule "identifier" l c ls [tokT ty text])) :
    ty ∈ identTys := by
  obtain ⟨body, csRev, p, q, hb, hm, e⟩ := h.body
  have hl : lookup R "identifier" = some (.alt (identTys.map Gram.tok)) := rfl
  rw [hl] at hb
  injection hb with hb
  subst hb
  obtain ⟨t, e2, ht⟩ := match_altToks hm
  subst e2
  simp only [List.reverse_cons, List.reverse_nil, List.nil_append, tokTree, tokT, List.cons.injEq,
    Tree.tok.injEq, and_true] at e
  rw [← e.1]
  exact ht

theorem nec_ident (i : Ident) (h : AllDer toks i.tree) : gwfIdent i = true := by
  obtain ⟨v, ty, text⟩ := i
  cases v with
  | true =>
    have hc : AllDer toks (.rule "identifier" 0 0 [] [tokT ty text]) := h.child (by simp)
    simpa [gwfIdent] using nec_identifier hc
  | false =>
    have h' : AllDer toks (.rule "extended_identifier" 0 0 [] [tokT ty text]) := h
    obtain ⟨body, csRev, p, q, hb, hm, e⟩ := h'.body
    have hl : lookup R "extended_identifier" = some (.alt [.rule "identifier", .tok "EXTENDED_IDENTIFIER"]) := rfl
    rw [hl] at hb
    injection hb with hb
    subst hb
    cases hm with
    | alt hmem hg =>
      simp only [List.mem_cons, List.not_mem_nil, or_false] at hmem
      rcases hmem with rfl | rfl
      · cases hg with
        | rule _ _ => simp [tokT] at e
      · cases hg with
        | tok ht he =>
          simp only [List.reverse_cons, List.reverse_nil, List.nil_append, tokTree, tokT, List.cons.injEq,
            Tree.tok.injEq, and_true] at e
          simp [gwfIdent, ← e.1, he]

theorem nec_expr (e : List (String × String)) {l c ls}
    (h : AllDer toks (.rule "conditionExpression" l c ls (e.map exprTok))) :
    e.all (fun x => x.1 != "RBRACE" && x.1 != "EOF") = true := by
  obtain ⟨body, csRev, p, q, hb, hm, er⟩ := h.body
  have hl : lookup R "conditionExpression" =
      some (.star (.alt [.alt (exprTys.map Gram.tok), .notTok ["RBRACE"]])) := rfl
  rw [hl] at hb
  injection hb with hb
  subst hb
  have key := match_starAll (toks := toks) (g := .alt [.alt (exprTys.map Gram.tok), .notTok ["RBRACE"]])
    (P := fun x => ∃ t, x = tokTree t ∧ t.ty ≠ "RBRACE" ∧ t.ty ≠ "EOF") (by
      intro p cs ls q cs' ls' hg
      cases hg with
      | alt hmem hg =>
        simp only [List.mem_cons, List.not_mem_nil, or_false] at hmem
        rcases hmem with rfl | rfl
        · obtain ⟨t, e1, ht⟩ := match_altToks hg
          have hall : ∀ ty ∈ exprTys, ty ≠ "RBRACE" ∧ ty ≠ "EOF" := by decide
          exact ⟨[tokTree t], by simp [e1], by
            intro x hx
            simp only [List.mem_singleton] at hx
            exact ⟨t, hx, hall _ ht⟩⟩
        · cases hg with
          | notTok ht h1 h2 =>
            exact ⟨[tokTree _], rfl, by
              intro x hx
              simp only [List.mem_singleton] at hx
              exact ⟨_, hx, by simpa using h2, h1⟩⟩) hm
  obtain ⟨new, e1, hall⟩ := key
  simp only [List.append_nil] at e1
  subst e1
  simp only [List.all_eq_true, Bool.and_eq_true, bne_iff_ne, ne_eq]
  intro x hx
  have hx' : exprTok x ∈ csRev.reverse := by rw [er]; exact List.mem_map_of_mem hx
  obtain ⟨t, et, h1, h2⟩ := hall _ (by simpa using hx')
  simp only [exprTok, tokT, tokTree, Tree.tok.injEq, and_true] at et
  rw [et.1]
  exact ⟨h1, h2⟩

theorem match_seq3 {a b c : String} {g p cs ls q cs' ls'}
    (h : Match R toks (.seq [.tok a, .tok b, .tok c, g]) p cs ls q cs' ls') :
    ∃ t1 t2 t3 p', t2.ty = b ∧ Match R toks (.seq [g]) p' (tokTree t3 :: tokTree t2 :: tokTree t1 :: cs) ls q cs' ls' := by
  cases h with
  | seqCons h1 r1 =>
    cases h1 with
    | tok _ _ =>
      cases r1 with
      | seqCons h2 r2 =>
        cases h2 with
        | tok _ he =>
          cases r2 with
          | seqCons h3 r3 =>
            cases h3 with
            | tok _ _ => exact ⟨_, _, _, _, he, r3⟩

theorem items_length (op : Op) (items : Items) : 4 ≤ (Items.trees op items).length := by
  cases items with
  | one w1 w2 i => simp [Items.trees]
  | cons w1 w2 i rest => simp [Items.trees]

/-- `x but not y but not z` is not a tree of the grammar -/
theorem nec_butNot {l c ls w1 w2 i rest}
    (h : AllDer toks (.rule "relationDefPartials" l c ls (Items.trees .butNot (.cons w1 w2 i rest)))) : False := by
  obtain ⟨body, csRev, p, q, hb, hm, er⟩ := h.body
  have hl : lookup R "relationDefPartials" = some (.alt
      [.plus (.seq [.tok "WHITESPACE", .tok "OR", .tok "WHITESPACE", .alt itemAlts]),
       .plus (.seq [.tok "WHITESPACE", .tok "AND", .tok "WHITESPACE", .alt itemAlts]),
       .seq [.tok "WHITESPACE", .tok "BUT_NOT", .tok "WHITESPACE", .alt itemAlts]]) := rfl
  rw [hl] at hb
  injection hb with hb
  subst hb
  have hsecond : ∀ (t1 t2 t3 : Tok) (A : List Tree), csRev = A ++ [tokTree t3, tokTree t2, tokTree t1] →
      t2.ty = "BUT_NOT" := by
    intro t1 t2 t3 A hA
    rw [hA, Items.trees] at er
    simp only [List.reverse_append, List.reverse_cons, List.reverse_nil, List.nil_append, List.cons_append,
      List.cons.injEq, opTok, tokT, tokTree, Tree.tok.injEq] at er
    exact er.2.1.1
  cases hm with
  | alt hmem hg =>
    simp only [List.mem_cons, List.not_mem_nil, or_false] at hmem
    rcases hmem with rfl | rfl | rfl
    · cases hg with
      | plus h1 h2 =>
        obtain ⟨t1, t2, t3, p', he, h4⟩ := match_seq3 h1
        obtain ⟨_, n1, e1, _⟩ := h4.yield
        obtain ⟨_, n2, e2, _⟩ := h2.yield
        have := hsecond t1 t2 t3 (n2 ++ n1) (by simp [e1, e2])
        rw [he] at this
        exact absurd this (by decide)
    · cases hg with
      | plus h1 h2 =>
        obtain ⟨t1, t2, t3, p', he, h4⟩ := match_seq3 h1
        obtain ⟨_, n1, e1, _⟩ := h4.yield
        obtain ⟨_, n2, e2, _⟩ := h2.yield
        have := hsecond t1 t2 t3 (n2 ++ n1) (by simp [e1, e2])
        rw [he] at this
        exact absurd this (by decide)
    · obtain ⟨t1, t2, t3, p', he, h4⟩ := match_seq3 hg
      cases h4 with
      | seqCons h5 h6 =>
        cases h6 with
        | seqNil =>
          cases h5 with
          | alt hmem hg =>
            simp only [itemAlts, List.mem_cons, List.not_mem_nil, or_false] at hmem
            have hlen : csRev.length = 4 := by
              rcases hmem with rfl | rfl <;> cases hg <;> rfl
            have := congrArg List.length er
            rw [List.length_reverse, hlen, Items.trees] at this
            have h4 := items_length Op.butNot rest
            simp only [List.length_append, List.length_cons, List.length_nil] at this
            omega

end

/-! ### necessity, CST type by CST type -/
section
variable {toks : Array Tok}

theorem nec_restr (r : Restr) (h : AllDer toks r.tree) : gwfRestr r = true := by
  have hb : AllDer toks r.baseTree := h.child (by simp)
  obtain ⟨pre, ty, kind, cond, post⟩ := r
  cases kind with
  | plain =>
    have := nec_ident ty (hb.child (by simp))
    simp [gwfRestr, this]
  | wildcard =>
    have := nec_ident ty (hb.child (by simp))
    simp [gwfRestr, this]
  | userset rel =>
    have h1 := nec_ident ty (hb.child (by simp))
    have h2 := nec_ident rel (hb.child (by simp))
    simp [gwfRestr, h1, h2]

theorem mem_restTrees {x : Option String × Restr × Option String} {rest} (hx : x ∈ rest) :
    x.2.1.tree ∈ Direct.restTrees rest := by
  induction rest with
  | nil => cases hx
  | cons y ys ih =>
    obtain ⟨a, r, b⟩ := y
    rcases List.mem_cons.1 hx with rfl | hx
    · simp [Direct.restTrees]
    · simp [Direct.restTrees, ih hx]

theorem nec_direct (d : Direct) (h : AllDer toks d.tree) : gwfDirect d = true := by
  obtain ⟨w0, first, w1, rest⟩ := d
  have h1 := nec_restr first (h.child (by simp))
  have h2 : ∀ x ∈ rest, gwfRestr x.2.1 = true := fun x hx =>
    nec_restr x.2.1 (h.child (by simp [mem_restTrees hx]))
  simp only [gwfDirect, h1, Bool.true_and, List.all_eq_true]
  exact h2

theorem nec_rw (r : Rw) (h : AllDer toks r.tree) : gwfRw r = true := by
  obtain ⟨c, f⟩ := r
  cases f with
  | none =>
    have := nec_ident c (h.child (by simp))
    simp [gwfRw, this]
  | some x =>
    obtain ⟨w1, w2, ts⟩ := x
    have h1 := nec_ident c (h.child (by simp))
    have h2 := nec_ident ts (h.child (by simp))
    simp [gwfRw, h1, h2]

theorem nec_grouping (r : Rw) (h : AllDer toks r.grouping) : gwfRw r = true :=
  nec_rw r (h.child (by simp))

mutual
  theorem nec_defND (d : DefND) (h : AllDer toks (DefND.tree d)) : gwfDefND d = true := by
    match d, h with
    | .mk first none, h =>
      rw [DefND.tree] at h
      rw [gwfDefND]
      exact nec_itemND first (h.child (by simp))
    | .mk first (some p), h =>
      rw [DefND.tree] at h
      rw [gwfDefND, nec_itemND first (h.child (by simp)), nec_partials p (h.child (by simp))]
      rfl
  theorem nec_itemND (i : ItemND) (h : AllDer toks (ItemND.tree i)) : gwfItemND i = true := by
    match i, h with
    | .rw r, h =>
      rw [ItemND.tree] at h
      rw [gwfItemND]
      exact nec_grouping r h
    | .paren r, h =>
      rw [ItemND.tree] at h
      rw [gwfItemND]
      exact nec_recND r h
  theorem nec_recND (r : RecND) (h : AllDer toks (RecND.tree r)) : gwfRecND r = true := by
    match r, h with
    | .ofDef l rr d, h =>
      rw [RecND.tree] at h
      rw [gwfRecND]
      exact nec_defND d (h.child (by simp))
    | .ofRec l rr x, h =>
      rw [RecND.tree] at h
      rw [gwfRecND]
      exact nec_recND x (h.child (by simp))
  theorem nec_partials (p : Partials) (h : AllDer toks (Partials.tree p)) : gwfPartials p = true := by
    match p, h with
    | .mk op items, h =>
      rw [Partials.tree] at h
      have hi := nec_items op items (fun x hx => h.child hx)
      rw [gwfPartials, hi, Bool.and_true]
      cases op with
      | butNot =>
        cases items with
        | one _ _ _ => rfl
        | cons _ _ _ _ => exact (nec_butNot h).elim
      | none => rfl
      | or => rfl
      | and => rfl
  theorem nec_items (op : Op) (items : Items) (h : ∀ x ∈ Items.trees op items, AllDer toks x) :
      gwfItems items = true := by
    match items, h with
    | .one w1 w2 i, h =>
      rw [gwfItems]
      exact nec_itemND i (h _ (by rw [Items.trees]; simp))
    | .cons w1 w2 i rest, h =>
      rw [gwfItems, nec_itemND i (h _ (by rw [Items.trees]; simp)),
        nec_items op rest (fun x hx => h x (by rw [Items.trees]; simp [hx]))]
      rfl
end

mutual
  theorem nec_def (d : Def) (h : AllDer toks (Def.tree d)) : gwfDef d = true := by
    match d, h with
    | .mk first none, h =>
      rw [Def.tree] at h
      rw [gwfDef]
      exact nec_first first (h.child (by simp))
    | .mk first (some p), h =>
      rw [Def.tree] at h
      rw [gwfDef, nec_first first (h.child (by simp)), nec_partials p (h.child (by simp))]
      rfl
  theorem nec_first (f : First) (h : AllDer toks (First.tree f)) : gwfFirst f = true := by
    match f, h with
    | .direct d, h =>
      rw [First.tree] at h
      rw [gwfFirst]
      exact nec_direct d h
    | .rw r, h =>
      rw [First.tree] at h
      rw [gwfFirst]
      exact nec_grouping r h
    | .recurse r, h =>
      rw [First.tree] at h
      rw [gwfFirst]
      exact nec_rec r h
  theorem nec_rec (r : Rec) (h : AllDer toks (Rec.tree r)) : gwfRec r = true := by
    match r, h with
    | .ofDef l rr d, h =>
      rw [Rec.tree] at h
      rw [gwfRec]
      exact nec_def d (h.child (by simp))
    | .ofRecND l rr x, h =>
      rw [Rec.tree] at h
      rw [gwfRec]
      exact nec_recND x (h.child (by simp))
end

theorem nec_decl (d : Decl) (h : AllDer toks d.tree) : gramWfDecl d = true := by
  obtain ⟨nl0, w1, name, w2, w3, body⟩ := d
  have hn : AllDer toks (.rule "relationName" 0 0 [] [name.tree]) := h.child (by simp)
  have h1 := nec_ident name (hn.child (by simp))
  have h2 := nec_def body (h.child (by simp))
  simp [gramWfDecl, h1, h2]

theorem nec_typeDef (t : TypeDefCst) (h : AllDer toks t.tree) : gwfTypeDef t = true := by
  obtain ⟨nl0, extend, w1, name, rels⟩ := t
  have h1 := nec_ident name (h.child (by simp [TypeDefCst.children]))
  have h2 : ∀ d ∈ TypeDefCst.decls ⟨nl0, extend, w1, name, rels⟩, gramWfDecl d = true := by
    intro d hd
    apply nec_decl d (h.child _)
    cases rels with
    | none => simp [TypeDefCst.decls] at hd
    | some r =>
      obtain ⟨n, d0, ds⟩ := r
      simp only [TypeDefCst.decls] at hd
      simp only [TypeDefCst.children, TypeDefCst.relTrees]
      have : Decl.tree d ∈ (d0 :: ds).map Decl.tree := List.mem_map_of_mem hd
      simp only [List.mem_cons, List.mem_append]
      right; right; right; right; right; right; right
      simpa using this
  simp only [gwfTypeDef, h1, Bool.true_and, List.all_eq_true]
  exact h2

theorem nec_cond (c : CondCst) (h : AllDer toks c.tree) : gwfCond c = true :=
  nec_expr c.expr (h.child (c := 0) (x := c.exprTree) (by simp))

theorem nec_header (hd : HeaderCst) (h : AllDer toks hd.tree) : gwfHeader hd = true := by
  cases hd with
  | model _ _ _ _ => rfl
  | module w1 ty n w2 =>
    have hc : AllDer toks (.rule "identifier" 0 0 [] [tokT ty n]) := h.child (by simp)
    simpa [gwfHeader] using nec_identifier hc

theorem nec_doc (d : DocCst) (h : AllDer toks d.tree) : gramWfDoc d = true := by
  obtain ⟨w0, nl0, header, nl1, types, nl2, conds, nl3⟩ := d
  have h1 := nec_header header (h.child (by simp))
  have ht : AllDer toks (.rule "typeDefs" 0 0 [] (types.map TypeDefCst.tree)) := h.child (by simp)
  have hc : AllDer toks (.rule "conditions" 0 0 [] (conds.map CondCst.tree)) := h.child (by simp)
  have h2 : ∀ t ∈ types, gwfTypeDef t = true := fun t hx => nec_typeDef t (ht.child (List.mem_map_of_mem hx))
  have h3 : ∀ c ∈ conds, gwfCond c = true := fun c hx => nec_cond c (hc.child (List.mem_map_of_mem hx))
  simp only [gramWfDoc, h1, Bool.true_and, Bool.and_eq_true, List.all_eq_true]
  exact ⟨h2, h3⟩

end

/-- **the side condition is necessary**: a relation-declaration CST whose tree is a derivation tree, over any
    token array and span, is grammatical -/
theorem decl_derives_gramWf (d : Decl) (toks : Array Tok) (p q : Nat)
    (h : Derives FgaVerif.Gen.Grammar.rules toks "relationDeclaration" (Decl.tree d) p q) : gramWfDecl d = true :=
  nec_decl d (derives_allDer h)

/-- **the side condition is necessary**: a document CST whose tree is a derivation tree is grammatical -/
theorem doc_derives_gramWf (d : DocCst) (toks : Array Tok) (p q : Nat)
    (h : Derives FgaVerif.Gen.Grammar.rules toks "main" (DocCst.tree d) p q) : gramWfDoc d = true :=
  nec_doc d (derives_allDer h)

/-- **`gramWfDoc` is exactly the condition under which the hand-written tree is a tree of the grammar** -/
theorem doc_tree_derives_iff (d : DocCst) :
    gramWfDoc d = true ↔
      Derives FgaVerif.Gen.Grammar.rules (toksOf (DocCst.tree d)).toArray "main" (DocCst.tree d) 0
        (toksOf (DocCst.tree d)).length :=
  ⟨doc_tree_derives d, doc_derives_gramWf d _ _ _⟩

/-- **`gramWfDecl` is exactly the condition under which the hand-written tree is a tree of the grammar** -/
theorem decl_tree_derives_iff (d : Decl) :
    gramWfDecl d = true ↔
      Derives FgaVerif.Gen.Grammar.rules (toksOf (Decl.tree d)).toArray "relationDeclaration" (Decl.tree d) 0
        (toksOf (Decl.tree d)).length := by
  constructor
  · intro h
    have := (der_decl d h 0 (slice_toArray _)).1
    simpa using this
  · exact decl_derives_gramWf d _ _ _

end FgaVerif.Proofs.CstDerives
