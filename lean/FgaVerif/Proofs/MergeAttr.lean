import FgaVerif.Proofs.MergeValues
/-! Attribution through the merger: the module and file recorded on a collected type are those of the
    file that defined it, whatever extensions are applied afterwards. -/
namespace FgaVerif.Model.Merge
open FgaVerif.Model FgaVerif.Model.Listener

/-- (module, file) recorded on a type definition -/
def tyAttr (t : TypeDef) : Option (String × String) := t.md.map (fun m => (m.module, m.file))

theorem addRelations_attr (file : String) (lines : List (List Char)) (existing : List String) (ext : TypeDef) :
    ∀ (rels : List (String × Userset)) (orig : TypeDef) (errs : List MergeErr) (orig' : TypeDef) (errs' : List MergeErr),
      addRelations file lines existing ext rels orig errs = .ok (orig', errs') → tyAttr orig' = tyAttr orig
  | [], orig, errs, orig', errs', h => by
    simp only [addRelations, Except.ok.injEq, Prod.mk.injEq] at h
    rw [h.1]
  | (name, rel) :: rest, orig, errs, orig', errs', h => by
    simp only [addRelations] at h
    split at h
    · exact addRelations_attr file lines existing ext rest orig _ orig' errs' h
    · split at h
      · cases h
      · rename_i rm _
        split at h
        · cases h
        · rename_i om hom
          have := addRelations_attr file lines existing ext rest _ _ orig' errs' h
          rw [this]
          simp [tyAttr, hom]

theorem addRelations_name (file : String) (lines : List (List Char)) (existing : List String) (ext : TypeDef) :
    ∀ (rels : List (String × Userset)) (orig : TypeDef) (errs : List MergeErr) (orig' : TypeDef) (errs' : List MergeErr),
      addRelations file lines existing ext rels orig errs = .ok (orig', errs') → orig'.name = orig.name
  | [], orig, errs, orig', errs', h => by
    simp only [addRelations, Except.ok.injEq, Prod.mk.injEq] at h
    rw [h.1]
  | (name, rel) :: rest, orig, errs, orig', errs', h => by
    simp only [addRelations] at h
    split at h
    · exact addRelations_name file lines existing ext rest orig _ orig' errs' h
    · split at h
      · cases h
      · split at h
        · cases h
        · have := addRelations_name file lines existing ext rest _ _ orig' errs' h
          rw [this]

theorem updFirst_attr (n : String) (f : TypeDef → TypeDef) (R : List TypeDef)
    (hf : ∀ t ∈ R, t.name = n → (f t).name = t.name ∧ tyAttr (f t) = tyAttr t) :
    (updFirst (fun t => t.name == n) f R).map (fun t => (t.name, tyAttr t)) = R.map (fun t => (t.name, tyAttr t)) := by
  induction R with
  | nil => rfl
  | cons a rest ih =>
    simp only [updFirst]
    split
    · rename_i hp
      have := hf a (by simp) (by simpa using hp)
      simp [this.1, this.2]
    · simp only [List.map_cons]
      rw [ih (fun t ht => hf t (by simp [ht]))]

theorem applyExtension_attr (file : String) (lines : List (List Char)) (ext : TypeDef) (st st' : MState)
    (hR : ∀ t ∈ st.rawTypeDefs, t.md.isSome = true)
    (h : applyExtension file lines ext st = .ok st') :
    st'.rawTypeDefs.map (fun t => (t.name, tyAttr t)) = st.rawTypeDefs.map (fun t => (t.name, tyAttr t)) := by
  unfold applyExtension at h
  cases hidx : st.rawTypeDefs.findIdx? (fun t => t.name == ext.name) with
  | none => simp only [hidx, Except.ok.injEq] at h; subst h; rfl
  | some i =>
    obtain ⟨x, hx⟩ := findIdx?_some_get _ _ _ hidx
    simp only [hidx, hx] at h
    have hxmem : x ∈ st.rawTypeDefs := List.mem_of_getElem? hx
    have hxname : x.name = ext.name := by
      obtain ⟨_, hp, _⟩ := findIdx?_set (fun t => t.name == ext.name) id _ i x hidx hx
      simpa using hp
    split at h
    · -- wholesale adoption of the extension's relations
      simp only [Except.ok.injEq] at h; subst h
      let f : TypeDef → TypeDef := fun o =>
        { o with relations := ext.relations, md := some { (o.md.getD {}) with relations := setRelFiles file (relMetaOf ext) } }
      have hset := (findIdx?_set (fun t => t.name == ext.name) f _ i x hidx hx).1
      show (replaceAt st.rawTypeDefs i (f x)).map _ = _
      unfold replaceAt; rw [hset]
      refine updFirst_attr _ f _ (fun t ht _ => ⟨rfl, ?_⟩)
      have := hR t ht
      cases hm : t.md with
      | none => simp [hm] at this
      | some m => simp [tyAttr, f, hm]
    · split at h
      · cases h
      · rename_i orig' errs hadd
        simp only [Except.ok.injEq] at h; subst h
        have hattr := addRelations_attr file lines _ ext _ x [] orig' errs hadd
        have hnm := addRelations_name file lines _ ext _ x [] orig' errs hadd
        let f : TypeDef → TypeDef := fun _ => orig'
        have hset := (findIdx?_set (fun t => t.name == ext.name) f _ i x hidx hx).1
        show (replaceAt st.rawTypeDefs i (f x)).map _ = _
        unfold replaceAt; rw [hset]
        -- only the first definition named ext.name is replaced, and that is x
        have hfirst : ∀ (R : List TypeDef), R.find? (fun t => t.name == ext.name) = some x →
            (updFirst (fun t => t.name == ext.name) f R).map (fun t => (t.name, tyAttr t)) =
              R.map (fun t => (t.name, tyAttr t)) := by
          intro R
          induction R with
          | nil => intro _; rfl
          | cons a rest ih =>
            intro hfind
            simp only [List.find?_cons] at hfind
            simp only [updFirst]
            by_cases hp : (a.name == ext.name) = true
            · simp only [hp, Option.some.injEq] at hfind
              subst hfind
              simp [hp, f, hnm, hattr]
            · have hp' : (a.name == ext.name) = false := by simpa using hp
              simp only [hp'] at hfind
              simp only [hp', Bool.false_eq_true, if_false, List.map_cons, ih hfind]
        exact hfirst _ (findIdx?_set (fun t => t.name == ext.name) id _ i x hidx hx).2.2

theorem applyExtensions_attr (file : String) (lines : List (List Char)) :
    ∀ (exts : List TypeDef) (st st' : MState), (∀ t ∈ st.rawTypeDefs, t.md.isSome = true) →
      applyExtensions file lines exts st = .ok st' →
      st'.rawTypeDefs.map (fun t => (t.name, tyAttr t)) = st.rawTypeDefs.map (fun t => (t.name, tyAttr t))
  | [], st, st', _, h => by simp only [applyExtensions, Except.ok.injEq] at h; subst h; rfl
  | e :: rest, st, st', hR, h => by
    simp only [applyExtensions] at h
    split at h
    · cases h
    · rename_i st1 h1
      have a1 := applyExtension_attr file lines e st st1 hR h1
      have hR1 : ∀ t ∈ st1.rawTypeDefs, t.md.isSome = true := by
        intro t ht
        have hm : (t.name, tyAttr t) ∈ st1.rawTypeDefs.map (fun t => (t.name, tyAttr t)) := List.mem_map.2 ⟨t, ht, rfl⟩
        rw [a1] at hm
        obtain ⟨t0, ht0, he⟩ := List.mem_map.1 hm
        have := hR t0 ht0
        simp only [Prod.mk.injEq] at he
        unfold tyAttr at he
        cases hm0 : t0.md with
        | none => simp [hm0] at this
        | some m0 =>
          cases hmt : t.md with
          | none => rw [hm0, hmt] at he; simp at he
          | some _ => rfl
      exact (applyExtensions_attr file lines rest st1 st' hR1 h).trans a1

theorem applyAll_attr :
    ∀ (xs : List (String × List TypeDef)) (st st' : MState), (∀ t ∈ st.rawTypeDefs, t.md.isSome = true) →
      applyAll xs st = .ok st' →
      st'.rawTypeDefs.map (fun t => (t.name, tyAttr t)) = st.rawTypeDefs.map (fun t => (t.name, tyAttr t))
  | [], st, st', _, h => by simp only [applyAll, Except.ok.injEq] at h; subst h; rfl
  | (file, exts) :: rest, st, st', hR, h => by
    simp only [applyAll] at h
    split at h
    · cases h
    · rename_i st1 h1
      have a1 := applyExtensions_attr file _ exts st st1 hR h1
      have hR1 : ∀ t ∈ st1.rawTypeDefs, t.md.isSome = true := by
        intro t ht
        have hm : (t.name, tyAttr t) ∈ st1.rawTypeDefs.map (fun t => (t.name, tyAttr t)) := List.mem_map.2 ⟨t, ht, rfl⟩
        rw [a1] at hm
        obtain ⟨t0, ht0, he⟩ := List.mem_map.1 hm
        have := hR t0 ht0
        simp only [Prod.mk.injEq] at he
        unfold tyAttr at he
        cases hm0 : t0.md with
        | none => simp [hm0] at this
        | some m0 =>
          cases hmt : t.md with
          | none => rw [hm0, hmt] at he; simp at he
          | some _ => rfl
      exact (applyAll_attr rest st1 st' hR1 h).trans a1

end FgaVerif.Model.Merge
