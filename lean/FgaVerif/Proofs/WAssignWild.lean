import FgaVerif.Proofs.WAssignPost
/-! Post-conditions of a successful run of the port of `AssignWeights` (`Model/WAssign.lean`) about the
    **wildcard lists** (C11, the clauses about the algorithm), for every graph and every start order.

    * §0 the five writers and the two dependency fix-ups at the level of membership; `cafFinal_wild`: the resolution
      of a cycle reference `n` adds the list of `n` to every dependent edge and to the source of every dependent edge.
    * §1 `assignWeights_node_wild` (N): the list of a node is the union of the lists of its edges — an invariant of
      every state, for every node kind (the strategies never touch a wildcard list).
    * §2 `assignWeights_wild_sound` (R, sound): every listed type is the type of a reachable wildcard node; the
      invariant `SInv` says that placeholder keys and dependencies on `n` only occur where `n` is reachable.
    * §3 `assignWeights_terminal_edge_wild` (E, terminal targets): `[T]` for an edge into `T:*`, `[]` for an edge into
      a type: dependencies are edges into non-terminal nodes only.
    * §4 `assignWeights_edge_wild` (E, other targets): the list of an edge has the same elements as the final list of
      its target.  Invariant `InvW`, carried on top of passes 2 and 4 of `Proofs/WAssignPost.lean`: a dependency of `r`
      on `m` is witnessed by the key `R#m` of `r` (`kc`, converse of `Inv2.i1`), the keys of a finished node contain
      the placeholder keys of its edges (`nc`, converse of `Inv2.i3`), and for a computed edge `r → d`:
      `edgeWild r ⊆ nodeWild d` (`a1`) and `nodeWild d ⊆ edgeWild r ∪ ⋃ {nodeWild m | R#m key of r}` (`a2`);
      when no placeholder is left (`assignWeights_clean`) the two lists have the same elements.
    * §5, §6 `assignWeights_wild_complete` (R, complete; every node kind), `assignWeights_wild_exact`,
      `assignWeights_edgeWild_support`.

    Side conditions.  `NoPHTypes g` (no terminal type named `R#…`) is necessary for §2 and §4 (counterexample in
    `Props/C11.lean`).  `SrcOK g` (every edge is stored under its own source; true of every built graph) is used
    in §4 only for the self-loop case of `calcEdgeWith` (the returned reference `e.src` must be the node in progress);
    it is an artefact of the proof: a randomized search over graphs with arbitrary `src` fields found no violation.
    Before proving §4 the edge and node clauses were tested by `#eval` on random small graphs (3–7 relations, 0–3
    operators, five start orders each, about 88 000 successful runs, most of them with tuple cycles): no violation. -/
set_option linter.unusedSimpArgs false
set_option linter.unusedSectionVars false
set_option linter.unusedVariables false
namespace FgaVerif.Model.WAssign
open FgaVerif.Model FgaVerif.Model.WGraph

/-! ### §0 the writers, as sets -/
theorem isEmpty_eq_true_iff {α : Type} (l : List α) : l.isEmpty = true ↔ l = [] := List.isEmpty_iff

theorem mem_addUnique (xs ys : List String) (T : String) : T ∈ addUnique xs ys ↔ T ∈ xs ∨ T ∈ ys := by
  unfold addUnique
  induction ys generalizing xs with
  | nil => simp
  | cons y ys ih =>
    rw [List.foldl_cons, ih]
    by_cases hc : xs.contains y = true
    · simp only [hc, if_true, List.mem_cons]
      have : y ∈ xs := by simpa using hc
      constructor
      · rintro (h | h)
        · exact Or.inl h
        · exact Or.inr (Or.inr h)
      · rintro (h | h | h)
        · exact Or.inl h
        · exact Or.inl (h ▸ this)
        · exact Or.inr h
    · simp only [hc, Bool.false_eq_true, if_false, List.mem_append, List.mem_cons, List.not_mem_nil, or_false]
      constructor
      · rintro ((h | h) | h)
        · exact Or.inl h
        · exact Or.inr (Or.inl h)
        · exact Or.inr (Or.inr h)
      · rintro (h | h | h)
        · exact Or.inl (Or.inl h)
        · exact Or.inl (Or.inr h)
        · exact Or.inr h

section writers
variable (t nodeID refNode to : String) (r : ERef) (st : AState)

@[simp] theorem addWildcardToEdge_nodeWild : (addWildcardToEdge t r st).nodeWild = st.nodeWild := by
  unfold addWildcardToEdge; simp only; split <;> (try split) <;> rfl
@[simp] theorem addEdgeWildcardsToNode_edgeWild : (addEdgeWildcardsToNode nodeID r st).edgeWild = st.edgeWild := by
  unfold addEdgeWildcardsToNode; simp only; split <;> (try split) <;> rfl
@[simp] theorem calculateEdgeWildcards_nodeWild : (calculateEdgeWildcards to r st).nodeWild = st.nodeWild := by
  unfold calculateEdgeWildcards; split <;> (try simp only) <;> (try split) <;> rfl
@[simp] theorem addReferentialWildcardsToEdge_nodeWild : (addReferentialWildcardsToEdge r refNode st).nodeWild = st.nodeWild := by
  unfold addReferentialWildcardsToEdge; simp only; split <;> (try split) <;> rfl
@[simp] theorem addReferentialWildcardsToNode_edgeWild : (addReferentialWildcardsToNode nodeID refNode st).edgeWild = st.edgeWild := by
  unfold addReferentialWildcardsToNode; simp only; split <;> rfl
@[simp] theorem addDep_nodeWild (n : String) : (addDep n r st).nodeWild = st.nodeWild := rfl
@[simp] theorem addDep_edgeWild (n : String) : (addDep n r st).edgeWild = st.edgeWild := rfl

theorem mem_addWildcardToEdge (r' : ERef) (T : String) :
    T ∈ aget r' (addWildcardToEdge t r st).edgeWild ↔ T ∈ aget r' st.edgeWild ∨ (r' = r ∧ T = t) := by
  unfold addWildcardToEdge
  simp only
  by_cases e : r' = r
  · subst e
    split
    · rename_i h
      rw [List.isEmpty_iff] at h
      simp only [aget_aset_self, h]; simp
    · split
      · rename_i h
        have : t ∈ aget r' st.edgeWild := by simpa using h
        constructor
        · exact Or.inl
        · rintro (h | ⟨_, h⟩)
          · exact h
          · exact h ▸ this
      · simp only [aget_aset_self, List.mem_append, List.mem_singleton]; simp
  · split
    · simp only [aget_aset_ne _ _ _ e]; simp [e]
    · split
      · simp [e]
      · simp only [aget_aset_ne _ _ _ e]; simp [e]

theorem mem_addEdgeWildcardsToNode (N : String) (T : String) :
    T ∈ aget N (addEdgeWildcardsToNode nodeID r st).nodeWild ↔
      T ∈ aget N st.nodeWild ∨ (N = nodeID ∧ T ∈ aget r st.edgeWild) := by
  unfold addEdgeWildcardsToNode
  simp only
  by_cases e : N = nodeID
  · subst e
    split
    · rename_i h
      rw [List.isEmpty_iff] at h
      simp [h]
    · split
      · rename_i h
        rw [List.isEmpty_iff] at h
        simp only [aget_aset_self, h]; simp
      · simp only [aget_aset_self, mem_addUnique]; simp
  · split
    · simp [e]
    · split
      · simp only [aget_aset_ne _ _ _ e]; simp [e]
      · simp only [aget_aset_ne _ _ _ e]; simp [e]

/-- `calculateEdgeWildcards` on an edge that has no wildcards yet copies the list of the target -/
theorem mem_calculateEdgeWildcards (hemp : aget r st.edgeWild = []) (r' : ERef) (T : String) :
    T ∈ aget r' (calculateEdgeWildcards to r st).edgeWild ↔ T ∈ aget r' st.edgeWild ∨ (r' = r ∧ T ∈ aget to st.nodeWild) := by
  unfold calculateEdgeWildcards
  simp only [hemp, List.isEmpty_nil, Bool.not_true, Bool.false_eq_true, if_false]
  by_cases e : r' = r
  · subst e
    split
    · rename_i h
      rw [List.isEmpty_iff] at h
      simp [h, hemp]
    · simp only [aget_aset_self, hemp]; simp
  · split
    · simp [e]
    · simp only [aget_aset_ne _ _ _ e]; simp [e]

/-- in general it can only add wildcards of the target -/
theorem mem_calculateEdgeWildcards_upper (r' : ERef) (T : String)
    (h : T ∈ aget r' (calculateEdgeWildcards to r st).edgeWild) :
    T ∈ aget r' st.edgeWild ∨ (r' = r ∧ T ∈ aget to st.nodeWild) := by
  unfold calculateEdgeWildcards at h
  split at h
  · exact Or.inl h
  · simp only at h
    split at h
    · exact Or.inl h
    · by_cases e : r' = r
      · subst e
        rw [aget_aset_self] at h
        exact Or.inr ⟨rfl, h⟩
      · rw [aget_aset_ne _ _ _ e] at h
        exact Or.inl h

theorem mem_calculateEdgeWildcards_mono (r' : ERef) (T : String) (h : T ∈ aget r' st.edgeWild) :
    T ∈ aget r' (calculateEdgeWildcards to r st).edgeWild := by
  unfold calculateEdgeWildcards
  split
  · exact h
  · rename_i hne
    have hemp : aget r st.edgeWild = [] := by
      cases hh : aget r st.edgeWild with
      | nil => rfl
      | cons a b => rw [hh] at hne; simp at hne
    simp only
    split
    · exact h
    · by_cases e : r' = r
      · subst e; rw [hemp] at h; cases h
      · rw [aget_aset_ne _ _ _ e]; exact h

theorem mem_addReferentialWildcardsToEdge (r' : ERef) (T : String) :
    T ∈ aget r' (addReferentialWildcardsToEdge r refNode st).edgeWild ↔
      T ∈ aget r' st.edgeWild ∨ (r' = r ∧ T ∈ aget refNode st.nodeWild) := by
  unfold addReferentialWildcardsToEdge
  simp only
  by_cases e : r' = r
  · subst e
    split
    · rename_i h
      rw [List.isEmpty_iff] at h
      simp [h]
    · split
      · rename_i h
        rw [List.isEmpty_iff] at h
        simp only [aget_aset_self, h]; simp
      · simp only [aget_aset_self, mem_addUnique]; simp
  · split
    · simp [e]
    · split
      · simp only [aget_aset_ne _ _ _ e]; simp [e]
      · simp only [aget_aset_ne _ _ _ e]; simp [e]

theorem mem_addReferentialWildcardsToNode (N : String) (T : String) :
    T ∈ aget N (addReferentialWildcardsToNode nodeID refNode st).nodeWild ↔
      T ∈ aget N st.nodeWild ∨ (N = nodeID ∧ T ∈ aget refNode st.nodeWild) := by
  unfold addReferentialWildcardsToNode
  simp only
  by_cases e : N = nodeID
  · subst e
    split
    · rename_i h
      rw [List.isEmpty_iff] at h
      simp only [aget_aset_self, h]; simp
    · simp only [aget_aset_self, mem_addUnique]; simp
  · split
    · simp only [aget_aset_ne _ _ _ e]; simp [e]
    · simp only [aget_aset_ne _ _ _ e]; simp [e]
end writers

/-! the fix-ups -/
theorem fixInner_wild (hasRefs : Bool) (r : ERef) (acc : WMap × AState) (kv2 : String × Nat) :
    (fixInner hasRefs r acc kv2).2.nodeWild = acc.2.nodeWild ∧ (fixInner hasRefs r acc kv2).2.edgeWild = acc.2.edgeWild := by
  unfold fixInner
  split
  · simp only; split <;> exact ⟨rfl, rfl⟩
  · exact ⟨rfl, rfl⟩

theorem fixMid_wild (refID : String) (hasRefs : Bool) (r : ERef) (nw : WMap) (acc : WMap × AState) (kv : String × Nat) :
    (fixMid refID hasRefs r nw acc kv).2.nodeWild = acc.2.nodeWild ∧ (fixMid refID hasRefs r nw acc kv).2.edgeWild = acc.2.edgeWild := by
  unfold fixMid
  split
  · refine foldl_inv (fun (a : WMap × AState) => a.2.nodeWild = acc.2.nodeWild ∧ a.2.edgeWild = acc.2.edgeWild)
      _ ?_ nw acc ⟨rfl, rfl⟩
    intro a kv2 ⟨h1, h2⟩
    obtain ⟨g1, g2⟩ := fixInner_wild hasRefs r a kv2
    exact ⟨g1.trans h1, g2.trans h2⟩
  · exact ⟨rfl, rfl⟩

theorem fixEdgeRes_wild (nodeCycle refID : String) (hasRefs : Bool) (st : AState) (r : ERef) :
    (fixEdgeRes nodeCycle refID hasRefs st r).2.nodeWild = st.nodeWild ∧
    (fixEdgeRes nodeCycle refID hasRefs st r).2.edgeWild = st.edgeWild := by
  unfold fixEdgeRes
  refine foldl_inv (fun (a : WMap × AState) => a.2.nodeWild = st.nodeWild ∧ a.2.edgeWild = st.edgeWild)
    _ ?_ _ ([], st) ⟨rfl, rfl⟩
  intro a kv ⟨h1, h2⟩
  obtain ⟨g1, g2⟩ := fixMid_wild refID hasRefs r (aget nodeCycle st.nodeW) a kv
  exact ⟨g1.trans h1, g2.trans h2⟩

theorem fixEdgeStep_nodeWild (nodeCycle refID : String) (hasRefs : Bool) (st : AState) (r : ERef) :
    (fixEdgeStep nodeCycle refID hasRefs st r).nodeWild = st.nodeWild := by
  unfold fixEdgeStep
  rw [addReferentialWildcardsToEdge_nodeWild]
  exact (fixEdgeRes_wild ..).1

theorem mem_fixEdgeStep (nodeCycle refID : String) (hasRefs : Bool) (st : AState) (r r' : ERef) (T : String) :
    T ∈ aget r' (fixEdgeStep nodeCycle refID hasRefs st r).edgeWild ↔
      T ∈ aget r' st.edgeWild ∨ (r' = r ∧ T ∈ aget nodeCycle st.nodeWild) := by
  unfold fixEdgeStep
  rw [mem_addReferentialWildcardsToEdge]
  show T ∈ aget r' (fixEdgeRes nodeCycle refID hasRefs st r).2.edgeWild ∨
      (r' = r ∧ T ∈ aget nodeCycle (fixEdgeRes nodeCycle refID hasRefs st r).2.nodeWild) ↔ _
  rw [(fixEdgeRes_wild ..).1, (fixEdgeRes_wild ..).2]

theorem fixNodeStep_edgeWild (nodeCycle refID : String) (st : AState) (r : ERef) :
    (fixNodeStep nodeCycle refID st r).edgeWild = st.edgeWild := by
  unfold fixNodeStep
  rw [addReferentialWildcardsToNode_edgeWild]

theorem mem_fixNodeStep (nodeCycle refID : String) (st : AState) (r : ERef) (N T : String) :
    T ∈ aget N (fixNodeStep nodeCycle refID st r).nodeWild ↔
      T ∈ aget N st.nodeWild ∨ (N = r.1 ∧ T ∈ aget nodeCycle st.nodeWild) := by
  unfold fixNodeStep
  rw [mem_addReferentialWildcardsToNode]

/-- the edge fix-up adds the wildcards of the resolved node to every dependent edge, and to nothing else -/
theorem fixEdges_fold_wild (nodeCycle refID : String) (hasRefs : Bool) :
    ∀ (D : List ERef) (st : AState),
      (D.foldl (fixEdgeStep nodeCycle refID hasRefs) st).nodeWild = st.nodeWild ∧
      ∀ r' T, T ∈ aget r' (D.foldl (fixEdgeStep nodeCycle refID hasRefs) st).edgeWild ↔
        T ∈ aget r' st.edgeWild ∨ (r' ∈ D ∧ T ∈ aget nodeCycle st.nodeWild)
  | [], st => ⟨rfl, fun r' T => by simp⟩
  | r :: D, st => by
    obtain ⟨h1, h2⟩ := fixEdges_fold_wild nodeCycle refID hasRefs D (fixEdgeStep nodeCycle refID hasRefs st r)
    rw [List.foldl_cons]
    refine ⟨h1.trans (fixEdgeStep_nodeWild ..), ?_⟩
    intro r' T
    rw [h2, mem_fixEdgeStep, fixEdgeStep_nodeWild]
    simp only [List.mem_cons]
    constructor
    · rintro ((h | ⟨h, h'⟩) | ⟨h, h'⟩)
      · exact Or.inl h
      · exact Or.inr ⟨Or.inl h, h'⟩
      · exact Or.inr ⟨Or.inr h, h'⟩
    · rintro (h | ⟨h | h, h'⟩)
      · exact Or.inl (Or.inl h)
      · exact Or.inl (Or.inr ⟨h, h'⟩)
      · exact Or.inr ⟨h, h'⟩

/-- the node fix-up adds the wildcards of the resolved node to the source of every dependent edge -/
theorem fixNodes_fold_wild (nodeCycle refID : String) :
    ∀ (D : List ERef) (st : AState),
      (D.foldl (fixNodeStep nodeCycle refID) st).edgeWild = st.edgeWild ∧
      ∀ N T, T ∈ aget N (D.foldl (fixNodeStep nodeCycle refID) st).nodeWild ↔
        T ∈ aget N st.nodeWild ∨ ((∃ r ∈ D, r.1 = N) ∧ T ∈ aget nodeCycle st.nodeWild)
  | [], st => ⟨rfl, fun N T => by simp⟩
  | r :: D, st => by
    obtain ⟨h1, h2⟩ := fixNodes_fold_wild nodeCycle refID D (fixNodeStep nodeCycle refID st r)
    rw [List.foldl_cons]
    refine ⟨h1.trans (fixNodeStep_edgeWild ..), ?_⟩
    intro N T
    rw [h2, mem_fixNodeStep, mem_fixNodeStep]
    simp only [List.mem_cons]
    constructor
    · rintro ((h | ⟨h, h'⟩) | ⟨⟨r2, hr2, e2⟩, (h' | ⟨_, h'⟩)⟩)
      · exact Or.inl h
      · exact Or.inr ⟨⟨r, Or.inl rfl, h.symm⟩, h'⟩
      · exact Or.inr ⟨⟨r2, Or.inr hr2, e2⟩, h'⟩
      · exact Or.inr ⟨⟨r2, Or.inr hr2, e2⟩, h'⟩
    · rintro (h | ⟨⟨r2, hr2 | hr2, e2⟩, h'⟩)
      · exact Or.inl (Or.inl h)
      · exact Or.inl (Or.inr ⟨by rw [← e2, hr2], h'⟩)
      · exact Or.inr ⟨⟨r2, hr2, e2⟩, Or.inl h'⟩

/-- **the resolution step on the wildcard lists**: with `D` the dependencies of the resolved node `n` and `W` its
    wildcard list, every edge of `D` and the source node of every edge of `D` gain `W`; nothing else changes -/
theorem cafFinal_wild (g : G) (n : String) (st : AState) :
    (∀ r' T, T ∈ aget r' (cafFinal g n st).edgeWild ↔
      T ∈ aget r' st.edgeWild ∨ (r' ∈ aget n st.deps ∧ T ∈ aget n st.nodeWild)) ∧
    (∀ N T, T ∈ aget N (cafFinal g n st).nodeWild ↔
      T ∈ aget N st.nodeWild ∨ ((∃ r ∈ aget n st.deps, r.1 = N) ∧ T ∈ aget n st.nodeWild)) := by
  -- the state after the weight of `n` is written
  obtain ⟨st1, hst1⟩ : ∃ s : AState, s = { st with nodeW := aset n (cafRes g n st).1 st.nodeW } := ⟨_, rfl⟩
  obtain ⟨st2, hst2⟩ : ∃ s, s = fixDependantEdgesWeight n ("R#" ++ n) (!(cafRes g n st).2.isEmpty) st1 := ⟨_, rfl⟩
  obtain ⟨st3, hst3⟩ : ∃ s, s = fixDependantNodesWeight n ("R#" ++ n) st2 := ⟨_, rfl⟩
  have hfin : cafFinal g n st = { st3 with deps := adel n st3.deps } := by
    rw [hst3, hst2, hst1]; rfl
  obtain ⟨hWfrom, hWref, hWrefs⟩ := cafRes_fromEdges g n st
  have hW : ∀ k, Keys (cafRes g n st).1 k → isPH k = true → (!(cafRes g n st).2.isEmpty) = true := by
    intro k hk hp
    have := hWrefs k hk hp
    cases h : (cafRes g n st).2 with
    | nil => exact absurd h this
    | cons a b => rfl
  have h1n : aget n st1.nodeW = (cafRes g n st).1 := by rw [hst1]; exact aget_aset_self ..
  have h1D : st1.deps = st.deps := by rw [hst1]
  have h1NW : st1.nodeWild = st.nodeWild := by rw [hst1]
  have h1EW : st1.edgeWild = st.edgeWild := by rw [hst1]
  have hEF : EdgeFix ("R#" ++ n) (cafRes g n st).1 (aget n st1.deps) st1 st2 := by
    rw [hst2, fixDependantEdgesWeight_eq]
    exact edgeFix_fold n ("R#" ++ n) _ _ hWref hW _ st1 h1n
  have hE := fixEdges_fold_wild n ("R#" ++ n) (!(cafRes g n st).2.isEmpty) (aget n st1.deps) st1
  rw [← fixDependantEdgesWeight_eq, ← hst2] at hE
  have hN := fixNodes_fold_wild n ("R#" ++ n) (aget n st2.deps) st2
  rw [← fixDependantNodesWeight_eq, ← hst3] at hN
  -- the dependency list of `n` itself is not extended by the edge fix-up
  have hD2 : ∀ r', r' ∈ aget n st2.deps ↔ r' ∈ aget n st.deps := by
    intro r'
    constructor
    · intro h
      rcases hEF.new n r' h with h | ⟨h, _⟩
      · rw [h1D] at h; exact h
      · rw [h1D] at h; exact h
    · intro h
      exact hEF.mono n r' (by rw [h1D]; exact h)
  rw [hfin]
  refine ⟨?_, ?_⟩
  · intro r' T
    show T ∈ aget r' st3.edgeWild ↔ _
    rw [hN.1, hE.2, h1EW, h1NW, h1D]
  · intro N T
    show T ∈ aget N st3.nodeWild ↔ _
    rw [hN.2, hE.1, h1NW]
    constructor
    · rintro (h | ⟨⟨r2, hr2, e2⟩, h'⟩)
      · exact Or.inl h
      · exact Or.inr ⟨⟨r2, (hD2 r2).1 hr2, e2⟩, h'⟩
    · rintro (h | ⟨⟨r2, hr2, e2⟩, h'⟩)
      · exact Or.inl h
      · exact Or.inr ⟨⟨r2, (hD2 r2).2 hr2, e2⟩, h'⟩

/-! ### §1 the node clause: a node's list is the union of its edges' lists

    An invariant of every state the computation goes through (whatever the graph, also on failing runs): the
    strategies never touch a wildcard list, `edgeLoop` adds the list of each edge to the node right after
    computing it, and the resolution step adds the same list `W` to the edges of `D` and to their source nodes. -/
def NInv (st : AState) : Prop :=
  ∀ v T, T ∈ aget v st.nodeWild ↔ ∃ r : ERef, r.1 = v ∧ T ∈ aget r st.edgeWild

theorem ninv_init : NInv {} := by
  intro v T
  simp [aget_nil]

theorem NInv.frame {st st' : AState} (h : NInv st) (hn : st'.nodeWild = st.nodeWild) (he : st'.edgeWild = st.edgeWild) :
    NInv st' := by
  intro v T; rw [hn, he]; exact h v T

/-- the list of one edge grows, then it is added to the edge's source node -/
theorem NInv.edge_then_node {st st1 : AState} (h : NInv st) (r : ERef) (nodeID : String) (hr : r.1 = nodeID)
    (hn : st1.nodeWild = st.nodeWild)
    (hmono : ∀ r' T, T ∈ aget r' st.edgeWild → T ∈ aget r' st1.edgeWild)
    (honly : ∀ r' T, T ∈ aget r' st1.edgeWild → T ∈ aget r' st.edgeWild ∨ r' = r) :
    NInv (addEdgeWildcardsToNode nodeID r st1) := by
  intro v T
  rw [mem_addEdgeWildcardsToNode, addEdgeWildcardsToNode_edgeWild, hn]
  constructor
  · rintro (h1 | ⟨h1, h2⟩)
    · obtain ⟨r', hr', hT⟩ := (h v T).1 h1
      exact ⟨r', hr', hmono r' T hT⟩
    · exact ⟨r, by rw [hr, h1], h2⟩
  · rintro ⟨r', hr', hT⟩
    rcases honly r' T hT with h1 | h1
    · exact Or.inl ((h v T).2 ⟨r', hr', h1⟩)
    · subst h1
      exact Or.inr ⟨by rw [← hr', hr], hT⟩

theorem cafFinal_N (g : G) (n : String) (st : AState) (h : NInv st) : NInv (cafFinal g n st) := by
  obtain ⟨hE, hN⟩ := cafFinal_wild g n st
  intro v T
  rw [hN]
  constructor
  · rintro (h1 | ⟨⟨r, hr, e⟩, h2⟩)
    · obtain ⟨r', hr', hT⟩ := (h v T).1 h1
      exact ⟨r', hr', (hE r' T).2 (Or.inl hT)⟩
    · exact ⟨r, e, (hE r T).2 (Or.inr ⟨hr, h2⟩)⟩
  · rintro ⟨r', hr', hT⟩
    rcases (hE r' T).1 hT with h1 | ⟨h1, h2⟩
    · exact Or.inl ((h v T).2 ⟨r', hr', h1⟩)
    · exact Or.inr ⟨⟨r', h1, hr'⟩, h2⟩

theorem strategies_wild (g : G) (nodeID : String) (st : AState) :
    ((maxStrategy g nodeID st).2.nodeWild = st.nodeWild ∧ (maxStrategy g nodeID st).2.edgeWild = st.edgeWild) ∧
    ((mixedStrategy g nodeID st).2.nodeWild = st.nodeWild ∧ (mixedStrategy g nodeID st).2.edgeWild = st.edgeWild) ∧
    ((enforceTypeStrategy g nodeID st).2.nodeWild = st.nodeWild ∧ (enforceTypeStrategy g nodeID st).2.edgeWild = st.edgeWild) := by
  refine ⟨?_, ?_, ?_⟩
  · unfold maxStrategy; split <;> exact ⟨rfl, rfl⟩
  · unfold mixedStrategy; split <;> exact ⟨rfl, rfl⟩
  · unfold enforceTypeStrategy; split
    · exact ⟨rfl, rfl⟩
    · simp only; split <;> exact ⟨rfl, rfl⟩

theorem calcAndFix_N (g : G) (nodeID : String) (st : AState) (h : NInv st) : NInv (calcAndFix g nodeID st).2 := by
  rw [calcAndFix_eq]
  split
  · exact h
  · split
    · exact h
    · split
      · exact h
      · exact cafFinal_N g nodeID st h

theorem fromTheEdges_N (g : G) (nodeID : String) (tcs : List String) (st : AState) (h : NInv st) :
    NInv (fromTheEdges g nodeID tcs st).2 := by
  obtain ⟨hmax', hmix', henf'⟩ := strategies_wild g nodeID st
  have hmax := h.frame hmax'.1 hmax'.2
  have hmix := h.frame hmix'.1 hmix'.2
  have henf := h.frame henf'.1 henf'.2
  have hfix := calcAndFix_N g nodeID st h
  unfold fromTheEdges
  simp only
  split
  · split
    · exact hmax
    · split
      · exact hmax
      · split
        · exact henf
        · split
          · exact hmix
          · exact h
  · split
    · split
      · rename_i e st' heq; rw [heq] at hfix; exact hfix
      · rename_i st' heq; rw [heq] at hfix; exact hfix
    · split
      · exact hmax
      · split
        · split
          · split
            · rename_i e st' heq; rw [heq] at hfix; exact hfix
            · rename_i st' heq; rw [heq] at hfix; exact hfix
          · exact hmax
        · exact h

def RecNW (rec : String → List WEdge → AState → Res) : Prop :=
  ∀ n path st, NInv st → NInv (rec n path st).2

theorem calcEdgeWith_NW (rec : String → List WEdge → AState → Res) (hrec : RecNW rec) (g : G) (r : ERef) (e : WEdge)
    (path : List WEdge) (st : AState) (h : NInv st) : NInv (calcEdgeWith rec g r e path st).2 := by
  unfold calcEdgeWith
  split
  · exact h.frame rfl rfl
  · simp only
    have hr := hrec e.dst (path ++ [e]) st h
    split
    · rename_i tc err st' heq; rw [heq] at hr; exact hr
    · rename_i tc st' heq
      rw [heq] at hr
      simp only at hr
      split
      · split
        · exact hr.frame rfl rfl
        · exact hr
      · simp only
        have h1 : NInv (if (!tc.isEmpty) = true then tc.foldl (fun st n => addDep n r st) st' else st') := by
          split
          · exact foldl_inv NInv (fun st n => addDep n r st) (fun s n hs => hs.frame rfl rfl) tc st' hr
          · exact hr
        have h2 : NInv ((aget e.dst st'.nodeW).foldl (fun (acc : List String × AState) (kv : String × Nat) =>
            if (!(!tc.isEmpty) && kv.1.startsWith "R#") = true then
              (acc.1 ++ [(kv.1.drop 2).toString], addDep (kv.1.drop 2).toString r acc.2)
            else acc) (tc, if (!tc.isEmpty) = true then tc.foldl (fun st n => addDep n r st) st' else st')).2 := by
          refine foldl_inv (fun (acc : List String × AState) => NInv acc.2) _ ?_ _ _ h1
          intro acc kv hacc
          split
          · exact hacc.frame rfl rfl
          · exact hacc
        exact h2.frame rfl rfl

theorem edgeLoop_NW (rec : String → List WEdge → AState → Res) (hrec : RecNW rec) (g : G) (nodeID : String)
    (path : List WEdge) : ∀ (es : List (ERef × WEdge)) (tcs : List String) (st : AState), (∀ p ∈ es, p.1.1 = nodeID) →
      NInv st → NInv (edgeLoop rec g nodeID path es tcs st).2
  | [], _, _, _, h => h
  | (r, e) :: rest, tcs, st, hes, h => by
    have hr1 : r.1 = nodeID := hes (r, e) (List.mem_cons_self ..)
    have hrest : ∀ p ∈ rest, p.1.1 = nodeID := fun p hp => hes p (List.mem_cons_of_mem _ hp)
    unfold edgeLoop
    split
    · exact edgeLoop_NW rec hrec g nodeID path rest tcs st hrest h
    · simp only
      split
      · apply edgeLoop_NW rec hrec g nodeID path rest _ _ hrest
        have h1 : NInv (if (nodeType g e.dst == NodeType.wildcard) = true then
            addEdgeWildcardsToNode nodeID r (addWildcardToEdge
              (if (nodeType g e.dst == NodeType.wildcard) = true then (e.dst.dropEnd 2).toString else e.dst) r st) else st) := by
          split
          · refine h.edge_then_node r nodeID hr1 (by simp) ?_ ?_
            · intro r' T hT
              exact (mem_addWildcardToEdge _ _ _ _ _).2 (Or.inl hT)
            · intro r' T hT
              rcases (mem_addWildcardToEdge _ _ _ _ _).1 hT with h1 | h1
              · exact Or.inl h1
              · exact Or.inr h1.1
          · exact h
        exact h1.frame rfl rfl
      · have hc := calcEdgeWith_NW rec hrec g r e path st h
        have h2 : NInv (addEdgeWildcardsToNode nodeID r (calculateEdgeWildcards e.dst r (calcEdgeWith rec g r e path st).2)) := by
          refine hc.edge_then_node r nodeID hr1 (by simp) ?_ ?_
          · intro r' T hT
            exact mem_calculateEdgeWildcards_mono _ _ _ _ _ hT
          · intro r' T hT
            rcases mem_calculateEdgeWildcards_upper _ _ _ _ _ hT with h1 | h1
            · exact Or.inl h1
            · exact Or.inr h1.1
        split
        · exact h2
        · exact edgeLoop_NW rec hrec g nodeID path rest _ _ hrest h2

theorem mem_refs_fst (g : G) (n : String) (p : ERef × WEdge)
    (hp : p ∈ ((List.range (edgesOf g n).length).zip (edgesOf g n) |>.map (fun (i, e) => ((n, i), e)))) :
    p.1.1 = n := (mem_refs g n p hp).1

theorem calcNode_NW : ∀ (fuel : Nat) (g : G), RecNW (calcNode fuel g)
  | 0, _ => by intro n path st h; simpa [calcNode] using h
  | fuel+1, g => by
    intro n path st h
    unfold calcNode
    split
    · exact h
    · split
      · exact h
      · simp only
        have hl := edgeLoop_NW (calcNode fuel g) (calcNode_NW fuel g) g n path
          ((List.range (edgesOf g n).length).zip (edgesOf g n) |>.map (fun (i, e) => ((n, i), e))) []
          { st with visited := n :: st.visited } (mem_refs_fst g n) (h.frame rfl rfl)
        split
        · rename_i tcs err st' heq; rw [heq] at hl; exact hl
        · rename_i tcs st' heq
          rw [heq] at hl
          exact fromTheEdges_N g n tcs st' hl

theorem go_NW (g : G) : ∀ (ns : List String) (st st' : AState), NInv st →
    assignWeights.go g ns st = .ok st' → NInv st'
  | [], st, st', h, heq => by
    simp only [assignWeights.go] at heq
    cases heq; exact h
  | n :: ns, st, st', h, heq => by
    unfold assignWeights.go at heq
    split at heq
    · exact go_NW g ns st st' h heq
    · have hc := calcNode_NW (g.nodes.length + 1) g n [] st h
      split at heq
      · cases heq
      · rename_i tcs st2 hres
        rw [hres] at hc
        split at heq
        · cases heq
        · exact go_NW g ns st2 st' hc heq

/-- **N. the wildcard list of every node is the union of the lists of its edges** (any node type: the strategies
    for intersections and exclusions do not prune wildcard lists) -/
theorem assignWeights_node_wild (g : G) (order : List String) (st : AState)
    (h : assignWeights g order = .ok st) (v T : String) :
    T ∈ aget v st.nodeWild ↔ ∃ r : ERef, r.1 = v ∧ T ∈ aget r st.edgeWild := by
  unfold assignWeights at h
  split at h
  · cases h
  · exact go_NW g _ {} st ninv_init h v T

/-! ### §2 the reachability reading, sound direction

    **Soundness of the wildcard lists** computed by the port of `AssignWeights` (`Model/WAssign.lean`): after a
    successful run every type `T` in the wildcard list of a node `v` is the type of a wildcard node `T:*`
    reachable from `v` by at least one edge, and every `T` in the list of an edge is the type of a wildcard
    node that is the target of the edge or reachable from it.

    The invariant `SInv` also says that placeholder keys `R#n` and pending dependencies on `n` only occur
    at places from which `n` is reachable: this is what makes the copy of `nodeWild n` by the cycle resolution
    (`cafFinal`) sound. -/

/-- one step along an edge of the graph -/
def EStep (g : G) (a b : String) : Prop := ∃ e ∈ edgesOf g a, e.dst = b
/-- reflexive-transitive closure of `EStep` -/
inductive EPath (g : G) : String → String → Prop
  | refl (a : String) : EPath g a a
  | step {a b c : String} : EStep g a b → EPath g b c → EPath g a c
/-- `w` is the wildcard node `T:*` -/
def IsWild (g : G) (w T : String) : Prop := nodeType g w = .wildcard ∧ (w.dropEnd 2).toString = T
/-- a wildcard node of type `T` is `d` itself or reachable from `d` -/
def WildFrom (g : G) (d T : String) : Prop := ∃ w, EPath g d w ∧ IsWild g w T
/-- a wildcard node of type `T` is reachable from `v` by at least one edge -/
def ReachesWild (g : G) (v T : String) : Prop := ∃ d, EStep g v d ∧ WildFrom g d T

/-! ### paths -/
theorem EPath.trans {g : G} {a b c : String} (h1 : EPath g a b) (h2 : EPath g b c) : EPath g a c := by
  induction h1 with
  | refl _ => exact h2
  | step hs _ ih => exact EPath.step hs (ih h2)

theorem EPath.single {g : G} {a b : String} (h : EStep g a b) : EPath g a b := EPath.step h (EPath.refl b)

theorem ReachesWild.wildFrom {g : G} {v T : String} (h : ReachesWild g v T) : WildFrom g v T := by
  obtain ⟨d, hs, w, hp, hw⟩ := h
  exact ⟨w, EPath.step hs hp, hw⟩

theorem WildFrom.of_path {g : G} {a b T : String} (hp : EPath g a b) (h : WildFrom g b T) : WildFrom g a T := by
  obtain ⟨w, hp', hw⟩ := h
  exact ⟨w, hp.trans hp', hw⟩

theorem step_of_edgeAt {g : G} {r : ERef} {e : WEdge} (h : edgeAt g r = some e) : EStep g r.1 e.dst :=
  ⟨e, List.mem_of_getElem? h, rfl⟩

theorem nodeType_eq_of_beq (a b : NodeType) (h : (a == b) = true) : a = b := by
  cases a <;> cases b <;> first | rfl | exact absurd h (by decide)

/-! ### the invariant -/
structure SInv (g : G) (st : AState) : Prop where
  ke : ∀ (r : ERef) e k, edgeAt g r = some e → Keys (aget r st.edgeW) k → isPH k = true → EPath g e.dst (phNode k)
  kn : ∀ d k, Keys (aget d st.nodeW) k → isPH k = true → EPath g d (phNode k)
  dp : ∀ m (r : ERef), r ∈ aget m st.deps → ∃ e, edgeAt g r = some e ∧ EPath g e.dst m
  wn : ∀ d T, T ∈ aget d st.nodeWild → ReachesWild g d T
  we : ∀ (r : ERef) e T, edgeAt g r = some e → T ∈ aget r st.edgeWild → WildFrom g e.dst T

def RecS (g : G) (rec : String → List WEdge → AState → Res) : Prop :=
  ∀ n path st, SInv g st → ∀ tc st', rec n path st = ((tc, none), st') → SInv g st' ∧ ∀ m ∈ tc, EPath g n m

theorem sinv_init (g : G) : SInv g {} :=
  ⟨fun r e k _ hk => absurd hk (keys_nil k), fun d k hk => absurd hk (keys_nil k), fun m r h => (by cases h),
    fun d T h => (by cases h), fun r e T _ h => (by cases h)⟩

/-- the weights of the edge `r` are written, and dependencies of `r` are added -/
theorem SInv.write_edge {g : G} {s s' : AState} (hI : SInv g s) (r : ERef) (e : WEdge) (w : WMap)
    (he : edgeAt g r = some e)
    (hN : s'.nodeW = s.nodeW) (hE : s'.edgeW = aset r w s.edgeW)
    (hNW : s'.nodeWild = s.nodeWild) (hEW : s'.edgeWild = s.edgeWild)
    (hD : ∀ m r', r' ∈ aget m s'.deps → r' ∈ aget m s.deps ∨ (r' = r ∧ EPath g e.dst m))
    (hw : ∀ k, Keys w k → isPH k = true → EPath g e.dst (phNode k)) : SInv g s' := by
  refine ⟨?_, ?_, ?_, ?_, ?_⟩
  · intro r' e' k he' hk hp
    rw [hE] at hk
    by_cases hr : r' = r
    · subst hr
      rw [aget_aset_self] at hk
      rw [he] at he'
      cases he'
      exact hw k hk hp
    · rw [aget_aset_ne _ _ _ hr] at hk
      exact hI.ke r' e' k he' hk hp
  · intro d k hk hp
    rw [hN] at hk
    exact hI.kn d k hk hp
  · intro m r' hr'
    rcases hD m r' hr' with h | ⟨h1, h2⟩
    · exact hI.dp m r' h
    · subst h1
      exact ⟨e, he, h2⟩
  · intro d T hT
    rw [hNW] at hT
    exact hI.wn d T hT
  · intro r' e' T he' hT
    rw [hEW] at hT
    exact hI.we r' e' T he' hT

/-- the wildcard list of the edge `r` gains wildcards found from its target -/
theorem SInv.edgeWild_upd {g : G} {s s' : AState} (hI : SInv g s) (r : ERef) (e : WEdge) (he : edgeAt g r = some e)
    (hN : s'.nodeW = s.nodeW) (hE : s'.edgeW = s.edgeW) (hD : s'.deps = s.deps) (hNW : s'.nodeWild = s.nodeWild)
    (hEW : ∀ r' T, T ∈ aget r' s'.edgeWild → T ∈ aget r' s.edgeWild ∨ (r' = r ∧ WildFrom g e.dst T)) : SInv g s' := by
  refine ⟨?_, ?_, ?_, ?_, ?_⟩
  · intro r' e' k he' hk hp
    rw [hE] at hk
    exact hI.ke r' e' k he' hk hp
  · intro d k hk hp
    rw [hN] at hk
    exact hI.kn d k hk hp
  · intro m r' hr'
    rw [hD] at hr'
    exact hI.dp m r' hr'
  · intro d T hT
    rw [hNW] at hT
    exact hI.wn d T hT
  · intro r' e' T he' hT
    rcases hEW r' T hT with h | ⟨h1, h2⟩
    · exact hI.we r' e' T he' h
    · subst h1
      rw [he] at he'
      cases he'
      exact h2

theorem SInv.addEdgeWildcardsToNode {g : G} {s : AState} (hI : SInv g s) (nodeID : String) (r : ERef) (e : WEdge)
    (he : edgeAt g r = some e) (hr : r.1 = nodeID) : SInv g (addEdgeWildcardsToNode nodeID r s) := by
  refine ⟨?_, ?_, ?_, ?_, ?_⟩
  · intro r' e' k he' hk hp
    rw [addEdgeWildcardsToNode_edgeW] at hk
    exact hI.ke r' e' k he' hk hp
  · intro d k hk hp
    rw [addEdgeWildcardsToNode_nodeW] at hk
    exact hI.kn d k hk hp
  · intro m r' hr'
    rw [addEdgeWildcardsToNode_deps] at hr'
    exact hI.dp m r' hr'
  · intro d T hT
    rcases (mem_addEdgeWildcardsToNode nodeID r s d T).1 hT with h | ⟨h1, h2⟩
    · exact hI.wn d T h
    · subst h1
      exact ⟨e.dst, hr ▸ step_of_edgeAt he, hI.we r e T he h2⟩
  · intro r' e' T he' hT
    rw [addEdgeWildcardsToNode_edgeWild] at hT
    exact hI.we r' e' T he' hT

/-! ### states that differ by dependencies of one edge -/
structure DepsP (r : ERef) (P : String → Prop) (s s' : AState) : Prop where
  nodeW : s'.nodeW = s.nodeW
  edgeW : s'.edgeW = s.edgeW
  nodeWild : s'.nodeWild = s.nodeWild
  edgeWild : s'.edgeWild = s.edgeWild
  new : ∀ m r', r' ∈ aget m s'.deps → r' ∈ aget m s.deps ∨ (r' = r ∧ P m)

theorem DepsP.refl (r : ERef) (P : String → Prop) (s : AState) : DepsP r P s s :=
  ⟨rfl, rfl, rfl, rfl, fun _ _ h => Or.inl h⟩

theorem DepsP.trans {r : ERef} {P : String → Prop} {a b c : AState} (h1 : DepsP r P a b) (h2 : DepsP r P b c) :
    DepsP r P a c := by
  refine ⟨h2.nodeW.trans h1.nodeW, h2.edgeW.trans h1.edgeW, h2.nodeWild.trans h1.nodeWild,
    h2.edgeWild.trans h1.edgeWild, ?_⟩
  intro m r' h
  rcases h2.new m r' h with h | h
  · exact h1.new m r' h
  · exact Or.inr h

theorem DepsP.addDep (r : ERef) (P : String → Prop) (n : String) (s : AState) (hn : P n) :
    DepsP r P s (addDep n r s) := by
  refine ⟨rfl, rfl, rfl, rfl, ?_⟩
  intro m r' h
  rcases (mem_addDep _ _ _ _ _).1 h with h | ⟨h1, h2⟩
  · exact Or.inl h
  · exact Or.inr ⟨h2, h1 ▸ hn⟩

theorem addDeps_P (r : ERef) (P : String → Prop) (l : List String) (s0 s : AState) (h : DepsP r P s0 s)
    (hl : ∀ n ∈ l, P n) : DepsP r P s0 (l.foldl (fun st n => addDep n r st) s) := by
  refine foldl_inv_mem (fun a => DepsP r P s0 a) _ l s ?_ h
  intro a n hn ha
  exact ha.trans (DepsP.addDep r P n a (hl n hn))

theorem scan_P (r : ERef) (P : String → Prop) (isTC : Bool) (toW : WMap) (s0 : AState)
    (hP : ∀ kv ∈ toW, isPH kv.1 = true → P (phNode kv.1)) (acc : List String × AState)
    (h1 : DepsP r P s0 acc.2) (h2 : ∀ x ∈ acc.1, P x) :
    DepsP r P s0 (toW.foldl (scanStep isTC r) acc).2 ∧ ∀ x ∈ (toW.foldl (scanStep isTC r) acc).1, P x := by
  refine foldl_inv_mem (fun (a : List String × AState) => DepsP r P s0 a.2 ∧ ∀ x ∈ a.1, P x) _ toW acc ?_ ⟨h1, h2⟩
  intro a kv hkv ⟨g1, g2⟩
  unfold scanStep
  split
  · rename_i hc
    have hp : isPH kv.1 = true := by
      simp only [Bool.and_eq_true] at hc; exact hc.2
    refine ⟨g1.trans (DepsP.addDep r P _ _ (hP kv hkv hp)), ?_⟩
    intro x hx
    rcases List.mem_append.1 hx with hx | hx
    · exact g2 x hx
    · simp only [List.mem_singleton] at hx
      subst hx
      exact hP kv hkv hp
  · exact ⟨g1, g2⟩

/-! ### the edge side -/
theorem calcEdgeWith_S (g : G) (rec : String → List WEdge → AState → Res) (hrec : RecS g rec) (r : ERef) (e : WEdge)
    (path : List WEdge) (st : AState) (hI : SInv g st) (he : edgeAt g r = some e)
    (tc : List String) (st' : AState) (h : calcEdgeWith rec g r e path st = ((tc, none), st')) :
    SInv g st' ∧ ∀ m ∈ tc, EPath g e.dst m := by
  rw [calcEdgeWith_eq] at h
  split at h
  · rename_i hse
    have hsd : e.src = e.dst := by simpa using hse
    simp only [Prod.mk.injEq] at h
    obtain ⟨⟨rfl, _⟩, rfl⟩ := h
    refine ⟨hI.write_edge r e [("R#" ++ e.dst, infinite)] he rfl rfl rfl rfl ?_ ?_, ?_⟩
    · intro m r' hm
      rcases (mem_addDep _ _ _ _ _).1 hm with h | ⟨h1, h2⟩
      · exact Or.inl h
      · exact Or.inr ⟨h2, h1 ▸ EPath.refl _⟩
    · intro k ⟨v, hk⟩ hp
      simp only [List.mem_singleton, Prod.mk.injEq] at hk
      obtain ⟨rfl, _⟩ := hk
      rw [phNode_mk]
      exact EPath.refl _
    · intro m hm
      simp only [List.mem_singleton] at hm
      subst hm
      rw [hsd]
      exact EPath.refl _
  · split at h
    · simp at h
    · rename_i tc1 st1 heq
      obtain ⟨hI1, hp1⟩ := hrec e.dst (path ++ [e]) st hI tc1 st1 heq
      split at h
      · split at h
        · simp only [Prod.mk.injEq] at h
          obtain ⟨⟨rfl, _⟩, rfl⟩ := h
          refine ⟨hI1.write_edge r e [("R#" ++ e.dst, infinite)] he rfl rfl rfl rfl ?_ ?_, ?_⟩
          · intro m r' hm
            rcases (mem_addDep _ _ _ _ _).1 hm with h | ⟨h1, h2⟩
            · exact Or.inl h
            · exact Or.inr ⟨h2, h1 ▸ EPath.refl _⟩
          · intro k ⟨v, hk⟩ hp
            simp only [List.mem_singleton, Prod.mk.injEq] at hk
            obtain ⟨rfl, _⟩ := hk
            rw [phNode_mk]
            exact EPath.refl _
          · intro m hm
            rcases List.mem_append.1 hm with hm | hm
            · exact hp1 m hm
            · simp only [List.mem_singleton] at hm
              subst hm
              exact EPath.refl _
        · simp at h
      · rename_i hne
        simp only [Prod.mk.injEq] at h
        obtain ⟨⟨rfl, _⟩, rfl⟩ := h
        have hkeys : ∀ kv ∈ aget e.dst st1.nodeW, isPH kv.1 = true → EPath g e.dst (phNode kv.1) :=
          fun kv hkv hp => hI1.kn e.dst kv.1 ⟨kv.2, hkv⟩ hp
        have hacc0 : DepsP r (EPath g e.dst) st1
            (if (!tc1.isEmpty) = true then tc1.foldl (fun st n => addDep n r st) st1 else st1) := by
          split
          · exact addDeps_P r _ tc1 st1 st1 (DepsP.refl ..) hp1
          · exact DepsP.refl ..
        have hsc := scan_P r (EPath g e.dst) (!tc1.isEmpty) (aget e.dst st1.nodeW) st1 hkeys
          (tc1, if (!tc1.isEmpty) = true then tc1.foldl (fun st n => addDep n r st) st1 else st1) hacc0 hp1
        refine ⟨hI1.write_edge r e (edgeCopy e (aget e.dst st1.nodeW)) he hsc.1.nodeW ?_ hsc.1.nodeWild hsc.1.edgeWild
          hsc.1.new ?_, hsc.2⟩
        · show aset r _ _ = _
          rw [hsc.1.edgeW]
        · intro k hk hp
          obtain ⟨v, hv⟩ := keys_edgeCopy e _ k hk
          exact hkeys (k, v) hv hp

theorem edgeLoop_S (g : G) (hn : NoPHTypes g) (rec : String → List WEdge → AState → Res) (hrec : RecS g rec)
    (nodeID : String) (path : List WEdge) :
    ∀ (es : List (ERef × WEdge)) (tcs : List String) (st : AState), SInv g st → (∀ m ∈ tcs, EPath g nodeID m) →
      (∀ p ∈ es, p.1.1 = nodeID ∧ p.2 ∈ edgesOf g nodeID ∧ edgeAt g p.1 = some p.2) →
      ∀ tcs' st', edgeLoop rec g nodeID path es tcs st = ((tcs', none), st') →
        SInv g st' ∧ ∀ m ∈ tcs', EPath g nodeID m
  | [], tcs, st, hI, hp, _, tcs', st', h => by
    simp only [edgeLoop, Prod.mk.injEq] at h
    obtain ⟨⟨rfl, _⟩, rfl⟩ := h
    exact ⟨hI, hp⟩
  | (r, e) :: rest, tcs, st, hI, hp, hes, tcs', st', h => by
    have hre := hes (r, e) (List.mem_cons_self ..)
    have hrest : ∀ p ∈ rest, p.1.1 = nodeID ∧ p.2 ∈ edgesOf g nodeID ∧ edgeAt g p.1 = some p.2 :=
      fun p hp => hes p (List.mem_cons_of_mem _ hp)
    have hr1 : r.1 = nodeID := hre.1
    have hre2 : edgeAt g r = some e := hre.2.2
    have hstep : EStep g nodeID e.dst := ⟨e, hre.2.1, rfl⟩
    unfold edgeLoop at h
    split at h
    · exact edgeLoop_S g hn rec hrec nodeID path rest tcs st hI hp hrest tcs' st' h
    · simp only at h
      split at h
      · rename_i hterm
        obtain ⟨stW, hstW⟩ : ∃ s : AState, s = (if (nodeType g e.dst == NodeType.wildcard) = true then
            addEdgeWildcardsToNode nodeID r (addWildcardToEdge
              (if (nodeType g e.dst == NodeType.wildcard) = true then (e.dst.dropEnd 2).toString else e.dst) r st) else st) :=
          ⟨_, rfl⟩
        rw [← hstW] at h
        have hIW : SInv g stW := by
          rw [hstW]
          split
          · rename_i hwc
            have hnt : nodeType g e.dst = .wildcard := nodeType_eq_of_beq _ _ hwc
            apply SInv.addEdgeWildcardsToNode _ nodeID r e hre2 hr1
            refine hI.edgeWild_upd r e hre2 (by simp) (by simp) (by simp) (by simp) ?_
            intro r' T hT
            rcases (mem_addWildcardToEdge _ r st r' T).1 hT with h | ⟨h1, h2⟩
            · exact Or.inl h
            · exact Or.inr ⟨h1, e.dst, EPath.refl _, hnt, h2.symm⟩
          · exact hI
        have hI' : SInv g { stW with edgeW := aset r [(termKey g e.dst, 1)] stW.edgeW } := by
          refine hIW.write_edge r e [(termKey g e.dst, 1)] hre2 rfl rfl rfl rfl (fun m r' h => Or.inl h) ?_
          intro k ⟨v, hk⟩ hp
          simp only [List.mem_singleton, Prod.mk.injEq] at hk
          obtain ⟨rfl, _⟩ := hk
          rw [hn nodeID e hre.2.1 hterm] at hp
          cases hp
        exact edgeLoop_S g hn rec hrec nodeID path rest tcs _ hI' hp hrest tcs' st' h
      · split at h
        · simp at h
        · rename_i heq
          obtain ⟨tc, htc⟩ : ∃ t, t = (calcEdgeWith rec g r e path st).1.1 := ⟨_, rfl⟩
          obtain ⟨stC, hstC⟩ : ∃ s, s = (calcEdgeWith rec g r e path st).2 := ⟨_, rfl⟩
          have heq' : calcEdgeWith rec g r e path st = ((tc, none), stC) := by
            rw [htc, hstC]; exact Prod.ext (Prod.ext rfl heq) rfl
          rw [← htc, ← hstC] at h
          obtain ⟨hIC, hPC⟩ := calcEdgeWith_S g rec hrec r e path st hI hre2 tc stC heq'
          have hIC1 : SInv g (calculateEdgeWildcards e.dst r stC) := by
            refine hIC.edgeWild_upd r e hre2 (by simp) (by simp) (by simp) (by simp) ?_
            intro r' T hT
            rcases mem_calculateEdgeWildcards_upper e.dst r stC r' T hT with h | ⟨h1, h2⟩
            · exact Or.inl h
            · exact Or.inr ⟨h1, (hIC.wn e.dst T h2).wildFrom⟩
          have hIC' : SInv g (addEdgeWildcardsToNode nodeID r (calculateEdgeWildcards e.dst r stC)) :=
            hIC1.addEdgeWildcardsToNode nodeID r e hre2 hr1
          refine edgeLoop_S g hn rec hrec nodeID path rest (tcs ++ tc) _ hIC' ?_ hrest tcs' st' h
          intro m hm
          rcases List.mem_append.1 hm with hm | hm
          · exact hp m hm
          · exact EPath.step hstep (hPC m hm)

/-! ### the node side -/
theorem mem_edgeRefs_edgeAt (g : G) (n : String) (r : ERef) (hr : r ∈ edgeRefs g n) :
    ∃ e, edgeAt g r = some e ∧ EStep g n e.dst := by
  unfold edgeRefs at hr
  obtain ⟨i, hi, rfl⟩ := List.mem_map.1 hr
  have hi' : i < (edgesOf g n).length := by simpa using hi
  refine ⟨(edgesOf g n)[i], ?_, ⟨_, List.getElem_mem hi', rfl⟩⟩
  show (edgesOf g n)[i]? = _
  simp [hi']

/-- placeholder keys of the weights a strategy writes for `n` name nodes reachable from `n` -/
theorem fromEdgesW_path {g : G} {n : String} {st : AState} {w : WMap} (hI : SInv g st) (h : FromEdgesW g n st w)
    (k : String) (hk : Keys w k) (hp : isPH k = true) : EPath g n (phNode k) := by
  obtain ⟨v, hv⟩ := hk
  have := h.2 (fun p => isPH p.1 = true → EPath g n (phNode p.1)) ⟨fun _ _ _ h _ => h, fun _ _ h => h⟩ ?_ (k, v) hv
  · exact this hp
  · intro r hr p hpm hph
    obtain ⟨e, he, hs⟩ := mem_edgeRefs_edgeAt g n r hr
    exact EPath.step hs (hI.ke r e p.1 he ⟨p.2, hpm⟩ hph)

/-- the resolution step, on keys and dependencies -/
theorem cafFinal_keys (g : G) (n : String) (stL : AState) :
    (∀ r' k, Keys (aget r' (cafFinal g n stL).edgeW) k →
      Keys (aget r' stL.edgeW) k ∨ (Keys (aget r' stL.edgeW) ("R#" ++ n) ∧ Keys (cafRes g n stL).1 k)) ∧
    (∀ N k, Keys (aget N (cafFinal g n stL).nodeW) k →
      (N = n ∧ Keys (cafRes g n stL).1 k) ∨ (N ≠ n ∧ Keys (aget N stL.nodeW) k) ∨
      (N ≠ n ∧ Keys (aget N stL.nodeW) ("R#" ++ n) ∧ Keys (cafRes g n stL).1 k)) ∧
    (∀ m r, r ∈ aget m (cafFinal g n stL).deps →
      r ∈ aget m stL.deps ∨ (r ∈ aget n stL.deps ∧ ∃ k, Keys (cafRes g n stL).1 k ∧ isPH k = true ∧ m = phNode k)) := by
  obtain ⟨hWfrom, hWref, hWrefs⟩ := cafRes_fromEdges g n stL
  have hW : ∀ k, Keys (cafRes g n stL).1 k → isPH k = true → (!(cafRes g n stL).2.isEmpty) = true := by
    intro k hk hp
    have := hWrefs k hk hp
    cases h : (cafRes g n stL).2 with
    | nil => exact absurd h this
    | cons a b => rfl
  obtain ⟨st1, hst1⟩ : ∃ s : AState, s = { stL with nodeW := aset n (cafRes g n stL).1 stL.nodeW } := ⟨_, rfl⟩
  have h1n : aget n st1.nodeW = (cafRes g n stL).1 := by rw [hst1]; exact aget_aset_self ..
  have h1ne : ∀ N, N ≠ n → aget N st1.nodeW = aget N stL.nodeW := by
    intro N h; rw [hst1]; exact aget_aset_ne _ _ _ h _
  have h1E : st1.edgeW = stL.edgeW := by rw [hst1]
  have h1D : st1.deps = stL.deps := by rw [hst1]
  obtain ⟨st2, hst2⟩ : ∃ s, s = fixDependantEdgesWeight n ("R#" ++ n) (!(cafRes g n stL).2.isEmpty) st1 := ⟨_, rfl⟩
  obtain ⟨st3, hst3⟩ : ∃ s, s = fixDependantNodesWeight n ("R#" ++ n) st2 := ⟨_, rfl⟩
  have hfin : cafFinal g n stL = { st3 with deps := adel n st3.deps } := by
    subst hst3 hst2 hst1; rfl
  have hE : EdgeFix ("R#" ++ n) (cafRes g n stL).1 (aget n st1.deps) st1 st2 := by
    rw [hst2, fixDependantEdgesWeight_eq]
    exact edgeFix_fold n ("R#" ++ n) _ _ hWref hW _ st1 h1n
  have hN : NodeFix ("R#" ++ n) (cafRes g n stL).1 (aget n st2.deps) st2 st3 := by
    rw [hst3, fixDependantNodesWeight_eq]
    refine nodeFix_fold n ("R#" ++ n) _ hWref _ st2 ?_
    intro k hk
    rw [hE.nodeW, h1n] at hk; exact hk
  rw [hfin]
  rw [h1D] at hE
  have hEupper := hE.upper; rw [h1E] at hEupper
  have hEnew := hE.new; rw [h1D] at hEnew
  have n2 : ∀ N, aget N st2.nodeW = aget N st1.nodeW := fun N => by rw [hE.nodeW]
  have e3E : st3.edgeW = st2.edgeW := hN.edgeW
  have e3D : st3.deps = st2.deps := hN.deps
  refine ⟨?_, ?_, ?_⟩
  · intro r' k hk
    simp only [e3E] at hk
    rcases hEupper r' k hk with h | h
    · exact Or.inl h
    · exact Or.inr ⟨h.1, h.2.2⟩
  · intro N k hk
    simp only at hk
    rcases hN.upper N k hk with h | ⟨ha, _, hc⟩
    · rw [n2] at h
      by_cases e : N = n
      · subst e
        rw [h1n] at h
        exact Or.inl ⟨rfl, h⟩
      · rw [h1ne N e] at h
        exact Or.inr (Or.inl ⟨e, h⟩)
    · rw [n2] at ha
      by_cases e : N = n
      · exact Or.inl ⟨e, hc⟩
      · rw [h1ne N e] at ha
        exact Or.inr (Or.inr ⟨e, ha, hc⟩)
  · intro m r hr
    simp only [e3D] at hr
    by_cases e : m = n
    · subst e
      rw [aget_adel_self] at hr
      cases hr
    · rw [aget_adel_ne _ _ e] at hr
      exact hEnew m r hr

theorem cafFinal_S (g : G) (n : String) (stL : AState) (hI : SInv g stL) : SInv g (cafFinal g n stL) := by
  obtain ⟨hke, hkn, hdp⟩ := cafFinal_keys g n stL
  obtain ⟨hwe, hwn⟩ := cafFinal_wild g n stL
  have hWp : ∀ k, Keys (cafRes g n stL).1 k → isPH k = true → EPath g n (phNode k) :=
    fun k hk hp => fromEdgesW_path hI (cafRes_fromEdges g n stL).1 k hk hp
  refine ⟨?_, ?_, ?_, ?_, ?_⟩
  · intro r' e k he hk hp
    rcases hke r' k hk with h | ⟨h1, h2⟩
    · exact hI.ke r' e k he h hp
    · have := hI.ke r' e _ he h1 (isPH_mk n)
      rw [phNode_mk] at this
      exact this.trans (hWp k h2 hp)
  · intro N k hk hp
    rcases hkn N k hk with ⟨h1, h2⟩ | ⟨_, h2⟩ | ⟨_, h2, h3⟩
    · subst h1
      exact hWp k h2 hp
    · exact hI.kn N k h2 hp
    · have := hI.kn N _ h2 (isPH_mk n)
      rw [phNode_mk] at this
      exact this.trans (hWp k h3 hp)
  · intro m r hr
    rcases hdp m r hr with h | ⟨h1, k, hk, hp, hm⟩
    · exact hI.dp m r h
    · obtain ⟨e, he, hpe⟩ := hI.dp n r h1
      exact ⟨e, he, hpe.trans (hm ▸ hWp k hk hp)⟩
  · intro N T hT
    rcases (hwn N T).1 hT with h | ⟨⟨r, hr, hrN⟩, h2⟩
    · exact hI.wn N T h
    · obtain ⟨e, he, hpe⟩ := hI.dp n r hr
      exact ⟨e.dst, hrN ▸ step_of_edgeAt he, WildFrom.of_path hpe (hI.wn n T h2).wildFrom⟩
  · intro r' e T he hT
    rcases (hwe r' T).1 hT with h | ⟨h1, h2⟩
    · exact hI.we r' e T he h
    · obtain ⟨e', he', hpe⟩ := hI.dp n r' h1
      rw [he] at he'
      cases he'
      exact WildFrom.of_path hpe (hI.wn n T h2).wildFrom

theorem SInv.write_node {g : G} {stL : AState} (hI : SInv g stL) (n : String) (w : WMap) (hw : FromEdgesW g n stL w) :
    SInv g { stL with nodeW := aset n w stL.nodeW } := by
  refine ⟨hI.ke, ?_, hI.dp, hI.wn, hI.we⟩
  intro N k hk hp
  by_cases e : N = n
  · subst e
    simp only [aget_aset_self] at hk
    exact fromEdgesW_path hI hw k hk hp
  · simp only [aget_aset_ne _ _ _ e] at hk
    exact hI.kn N k hk hp

theorem refs_S (g : G) (n : String) (p : ERef × WEdge)
    (hp : p ∈ ((List.range (edgesOf g n).length).zip (edgesOf g n) |>.map (fun (i, e) => ((n, i), e)))) :
    p.1.1 = n ∧ p.2 ∈ edgesOf g n ∧ edgeAt g p.1 = some p.2 :=
  ⟨(mem_refs g n p hp).1, (mem_refs g n p hp).2, refs_edgeAt g n p hp⟩

theorem calcNode_S (g : G) (hn : NoPHTypes g) : ∀ (fuel : Nat), RecS g (calcNode fuel g)
  | 0 => by
    intro n path st _ tc st' h
    simp [calcNode] at h
  | fuel+1 => by
    intro n path st hI tc st' h
    unfold calcNode at h
    split at h
    · simp only [Prod.mk.injEq] at h
      obtain ⟨⟨rfl, _⟩, rfl⟩ := h
      exact ⟨hI, fun m hm => by cases hm⟩
    · split at h
      · simp only [Prod.mk.injEq] at h
        obtain ⟨⟨rfl, _⟩, rfl⟩ := h
        exact ⟨hI, fun m hm => by cases hm⟩
      · simp only at h
        have hI0 : SInv g { st with visited := n :: st.visited } := ⟨hI.ke, hI.kn, hI.dp, hI.wn, hI.we⟩
        split at h
        · simp at h
        · rename_i tcs stL heq
          obtain ⟨hIL, hPL⟩ := edgeLoop_S g hn (calcNode fuel g) (calcNode_S g hn fuel) n path _ [] _ hI0
            (fun m hm => by cases hm) (refs_S g n) tcs stL heq
          rcases fromTheEdges_cases g n tcs stL with ⟨t, e, s, hc⟩ | hc | ⟨w, hc, hw⟩ | ⟨hc, _⟩
          · rw [hc] at h; simp at h
          · rw [hc] at h
            simp only [Prod.mk.injEq] at h
            obtain ⟨⟨rfl, _⟩, rfl⟩ := h
            exact ⟨hIL, hPL⟩
          · rw [hc] at h
            simp only [Prod.mk.injEq] at h
            obtain ⟨⟨rfl, _⟩, rfl⟩ := h
            exact ⟨hIL.write_node n w hw, hPL⟩
          · rw [hc] at h
            simp only [Prod.mk.injEq] at h
            obtain ⟨⟨rfl, _⟩, rfl⟩ := h
            exact ⟨cafFinal_S g n stL hIL, fun m hm => hPL m (List.mem_filter.1 hm).1⟩

theorem go_S (g : G) (hn : NoPHTypes g) : ∀ (ns : List String) (st st' : AState), SInv g st →
    assignWeights.go g ns st = .ok st' → SInv g st'
  | [], st, st', hI, heq => by
    simp only [assignWeights.go] at heq
    cases heq; exact hI
  | n :: ns, st, st', hI, heq => by
    unfold assignWeights.go at heq
    split at heq
    · exact go_S g hn ns st st' hI heq
    · split at heq
      · cases heq
      · rename_i tcs st2 hres
        split at heq
        · cases heq
        · obtain ⟨hI2, _⟩ := calcNode_S g hn (g.nodes.length + 1) n [] st hI tcs st2 hres
          exact go_S g hn ns st2 st' hI2 heq

/-- **the wildcard lists are sound**: a type in the list of a node (an edge) is the type of a wildcard node
    reachable from the node by at least one edge (from the target of the edge by any number of edges) -/
theorem assignWeights_wild_sound (g : G) (hn : NoPHTypes g) (order : List String) (st : AState)
    (h : assignWeights g order = .ok st) :
    (∀ v T, T ∈ aget v st.nodeWild → ReachesWild g v T) ∧
    (∀ (r : ERef) e T, edgeAt g r = some e → T ∈ aget r st.edgeWild → WildFrom g e.dst T) := by
  unfold assignWeights at h
  split at h
  · cases h
  · have hI := go_S g hn _ {} st (sinv_init g) h
    exact ⟨hI.wn, hI.we⟩

/-! ### §3 the edge clause, edges into terminal nodes

    The wildcard list of an edge into a *terminal* node after a successful run of the port of `AssignWeights`
    (`Model/WAssign.lean`): an edge into a public restriction `T:*` carries exactly `[T]`, an edge into a plain type
    carries nothing.

    One pass over the computation (`calcEdgeWith` / `edgeLoop` / `calcNode` / `assignWeights.go`) with the invariant
    `TInv`: every dependency entry is an edge into a non-terminal node (so the fix-ups never touch an edge into a
    terminal node), an edge into a terminal node that has no weights yet has no wildcards yet, and one that has
    weights has its final wildcard list.  All steps but the terminal branch of `edgeLoop` are described by the
    relation `TRel` (nothing changes at edges into terminal nodes; new dependencies are edges into non-terminal
    nodes). -/

namespace WildTerm

/-- `r` is an edge of the graph into a non-terminal node -/
def NonTermE (g : G) (r : ERef) : Prop := ∃ e, edgeAt g r = some e ∧ isTerminal (nodeType g e.dst) = false
/-- `r` is an edge of the graph into a terminal node -/
def TermE (g : G) (r : ERef) : Prop := ∃ e, edgeAt g r = some e ∧ isTerminal (nodeType g e.dst) = true

theorem ne_of_nonTerm_term {g : G} {r r' : ERef} (h : NonTermE g r) (h' : TermE g r') : r' ≠ r := by
  rintro rfl
  obtain ⟨e, he, ht⟩ := h
  obtain ⟨e', he', ht'⟩ := h'
  rw [he] at he'
  cases he'
  rw [ht] at ht'
  cases ht'

/-! ### the writers change the wildcard list of one edge only -/
theorem addWildcardToEdge_edgeWild_ne (t : String) (r r' : ERef) (st : AState) (h : r' ≠ r) :
    aget r' (addWildcardToEdge t r st).edgeWild = aget r' st.edgeWild := by
  unfold addWildcardToEdge
  simp only
  split
  · exact aget_aset_ne _ _ _ h _
  · split
    · rfl
    · exact aget_aset_ne _ _ _ h _

theorem addWildcardToEdge_edgeWild_self (t : String) (r : ERef) (st : AState) (h : aget r st.edgeWild = []) :
    aget r (addWildcardToEdge t r st).edgeWild = [t] := by
  unfold addWildcardToEdge
  simp only [h, List.isEmpty_nil, if_true]
  exact aget_aset_self ..

theorem calculateEdgeWildcards_edgeWild_ne (to : String) (r r' : ERef) (st : AState) (h : r' ≠ r) :
    aget r' (calculateEdgeWildcards to r st).edgeWild = aget r' st.edgeWild := by
  unfold calculateEdgeWildcards
  split
  · rfl
  · simp only
    split
    · rfl
    · exact aget_aset_ne _ _ _ h _

theorem addReferentialWildcardsToEdge_edgeWild_ne (r r' : ERef) (refNode : String) (st : AState) (h : r' ≠ r) :
    aget r' (addReferentialWildcardsToEdge r refNode st).edgeWild = aget r' st.edgeWild := by
  unfold addReferentialWildcardsToEdge
  simp only
  split
  · rfl
  · split
    · exact aget_aset_ne _ _ _ h _
    · exact aget_aset_ne _ _ _ h _

/-! ### the invariant and the step relation -/
structure TInv (g : G) (st : AState) : Prop where
  d : ∀ m (r : ERef), r ∈ aget m st.deps → NonTermE g r
  u : ∀ (r : ERef) e, edgeAt g r = some e → isTerminal (nodeType g e.dst) = true → aget r st.edgeW = [] →
        aget r st.edgeWild = []
  w : ∀ (r : ERef) e, edgeAt g r = some e → nodeType g e.dst = .wildcard → aget r st.edgeW ≠ [] →
        aget r st.edgeWild = [(e.dst.dropEnd 2).toString]
  s : ∀ (r : ERef) e, edgeAt g r = some e → nodeType g e.dst = .specificType → aget r st.edgeWild = []

/-- nothing changes at an edge into a terminal node; every new dependency is an edge into a non-terminal node -/
structure TRel (g : G) (st st' : AState) : Prop where
  d : ∀ m (r : ERef), r ∈ aget m st'.deps → r ∈ aget m st.deps ∨ NonTermE g r
  w : ∀ r : ERef, TermE g r → aget r st'.edgeW = aget r st.edgeW
  x : ∀ r : ERef, TermE g r → aget r st'.edgeWild = aget r st.edgeWild

theorem TInv.step {g : G} {st st' : AState} (hI : TInv g st) (hR : TRel g st st') : TInv g st' := by
  refine ⟨?_, ?_, ?_, ?_⟩
  · intro m r h
    rcases hR.d m r h with h | h
    · exact hI.d m r h
    · exact h
  · intro r e he ht hw
    have hte : TermE g r := ⟨e, he, ht⟩
    rw [hR.x r hte]
    rw [hR.w r hte] at hw
    exact hI.u r e he ht hw
  · intro r e he ht hw
    have hte : TermE g r := ⟨e, he, by rw [ht]; rfl⟩
    rw [hR.x r hte]
    rw [hR.w r hte] at hw
    exact hI.w r e he ht hw
  · intro r e he ht
    have hte : TermE g r := ⟨e, he, by rw [ht]; rfl⟩
    rw [hR.x r hte]
    exact hI.s r e he ht

theorem TRel.refl (g : G) (st : AState) : TRel g st st :=
  ⟨fun _ _ h => Or.inl h, fun _ _ => rfl, fun _ _ => rfl⟩

theorem TRel.trans {g : G} {a b c : AState} (h1 : TRel g a b) (h2 : TRel g b c) : TRel g a c := by
  refine ⟨?_, fun r hr => (h2.w r hr).trans (h1.w r hr), fun r hr => (h2.x r hr).trans (h1.x r hr)⟩
  intro m r h
  rcases h2.d m r h with h | h
  · exact h1.d m r h
  · exact Or.inr h

theorem TRel.of_eq {g : G} {st st' : AState} (hd : st'.deps = st.deps) (hw : st'.edgeW = st.edgeW)
    (hx : st'.edgeWild = st.edgeWild) : TRel g st st' :=
  ⟨fun _ _ h => Or.inl (hd ▸ h), fun _ _ => by rw [hw], fun _ _ => by rw [hx]⟩

theorem TRel.addDep (g : G) (n : String) (r : ERef) (st : AState) (hr : NonTermE g r) : TRel g st (addDep n r st) := by
  refine ⟨?_, fun _ _ => rfl, fun _ _ => rfl⟩
  intro m r' h
  rcases (mem_addDep _ _ _ _ _).1 h with h | ⟨_, h⟩
  · exact Or.inl h
  · exact Or.inr (h ▸ hr)

theorem TRel.setEdgeW (g : G) (r : ERef) (w : WMap) (st : AState) (hr : NonTermE g r) :
    TRel g st { st with edgeW := aset r w st.edgeW } := by
  refine ⟨fun _ _ h => Or.inl h, ?_, fun _ _ => rfl⟩
  intro r' hr'
  exact aget_aset_ne _ _ _ (ne_of_nonTerm_term hr hr') _

theorem TRel.calcWild (g : G) (to : String) (r : ERef) (st : AState) (hr : NonTermE g r) :
    TRel g st (calculateEdgeWildcards to r st) := by
  refine ⟨fun _ _ h => Or.inl (by simpa using h), fun _ _ => by simp, ?_⟩
  intro r' hr'
  exact calculateEdgeWildcards_edgeWild_ne _ _ _ _ (ne_of_nonTerm_term hr hr')

theorem addDeps_TRel (g : G) (r : ERef) (hr : NonTermE g r) (st0 : AState) (l : List String) (s : AState)
    (h : TRel g st0 s) : TRel g st0 (l.foldl (fun st n => addDep n r st) s) :=
  foldl_inv (fun s => TRel g st0 s) _ (fun s n hs => hs.trans (TRel.addDep g n r s hr)) l s h

theorem scan_TRel (g : G) (b : Bool) (r : ERef) (hr : NonTermE g r) (st0 : AState) (toW : WMap)
    (acc : List String × AState) (h : TRel g st0 acc.2) : TRel g st0 (toW.foldl (scanStep b r) acc).2 := by
  refine foldl_inv (fun (a : List String × AState) => TRel g st0 a.2) _ ?_ toW acc h
  intro a kv ha
  unfold scanStep
  split
  · exact ha.trans (TRel.addDep g _ r _ hr)
  · exact ha

/-! ### the resolution step -/
theorem fixEdgeStep_edgeWild_ne (nodeCycle refID : String) (hasRefs : Bool) (st : AState) (r r' : ERef) (h : r' ≠ r) :
    aget r' (fixEdgeStep nodeCycle refID hasRefs st r).edgeWild = aget r' st.edgeWild := by
  unfold fixEdgeStep
  rw [addReferentialWildcardsToEdge_edgeWild_ne _ _ _ _ h]
  show aget r' (fixEdgeRes nodeCycle refID hasRefs st r).2.edgeWild = _
  rw [(fixEdgeRes_wild ..).2]

theorem fixEdges_fold_edgeWild_ne (nodeCycle refID : String) (hasRefs : Bool) (r' : ERef) :
    ∀ (D : List ERef) (st : AState), r' ∉ D →
      aget r' (D.foldl (fixEdgeStep nodeCycle refID hasRefs) st).edgeWild = aget r' st.edgeWild
  | [], st, _ => rfl
  | r :: D, st, h => by
    rw [List.foldl_cons, fixEdges_fold_edgeWild_ne nodeCycle refID hasRefs r' D _ (fun hh => h (List.mem_cons_of_mem _ hh)),
      fixEdgeStep_edgeWild_ne _ _ _ _ _ _ (fun e => h (by rw [e]; exact List.mem_cons_self ..))]

/-- the list-equality variant of `cafFinal_wild` for an edge that is not a dependency of the resolved node -/
theorem cafFinal_edgeWild_ne (g : G) (n : String) (st : AState) (r' : ERef) (h : r' ∉ aget n st.deps) :
    aget r' (cafFinal g n st).edgeWild = aget r' st.edgeWild := by
  obtain ⟨st1, hst1⟩ : ∃ s : AState, s = { st with nodeW := aset n (cafRes g n st).1 st.nodeW } := ⟨_, rfl⟩
  obtain ⟨st2, hst2⟩ : ∃ s, s = fixDependantEdgesWeight n ("R#" ++ n) (!(cafRes g n st).2.isEmpty) st1 := ⟨_, rfl⟩
  obtain ⟨st3, hst3⟩ : ∃ s, s = fixDependantNodesWeight n ("R#" ++ n) st2 := ⟨_, rfl⟩
  have hfin : cafFinal g n st = { st3 with deps := adel n st3.deps } := by
    rw [hst3, hst2, hst1]; rfl
  have h1D : st1.deps = st.deps := by rw [hst1]
  have h1EW : st1.edgeWild = st.edgeWild := by rw [hst1]
  have h3 : st3.edgeWild = st2.edgeWild := by
    rw [hst3, fixDependantNodesWeight_eq]
    exact (fixNodes_fold_wild ..).1
  have h2 : aget r' st2.edgeWild = aget r' st1.edgeWild := by
    rw [hst2, fixDependantEdgesWeight_eq]
    exact fixEdges_fold_edgeWild_ne _ _ _ r' _ _ (by rw [h1D]; exact h)
  rw [hfin]
  show aget r' st3.edgeWild = _
  rw [h3, h2, h1EW]

theorem mem_aget_adel (n m : String) (x : List (String × List ERef)) (r : ERef) (h : r ∈ aget m (adel n x)) :
    r ∈ aget m x := by
  by_cases e : m = n
  · subst e
    rw [aget_adel_self] at h
    cases h
  · rw [aget_adel_ne _ _ e] at h
    exact h

theorem cafFinal_TRel (g : G) (n : String) (st : AState) (hI : TInv g st) : TRel g st (cafFinal g n st) := by
  obtain ⟨st1, hst1⟩ : ∃ s : AState, s = { st with nodeW := aset n (cafRes g n st).1 st.nodeW } := ⟨_, rfl⟩
  obtain ⟨st2, hst2⟩ : ∃ s, s = fixDependantEdgesWeight n ("R#" ++ n) (!(cafRes g n st).2.isEmpty) st1 := ⟨_, rfl⟩
  obtain ⟨st3, hst3⟩ : ∃ s, s = fixDependantNodesWeight n ("R#" ++ n) st2 := ⟨_, rfl⟩
  have hfin : cafFinal g n st = { st3 with deps := adel n st3.deps } := by
    rw [hst3, hst2, hst1]; rfl
  obtain ⟨hWfrom, hWref, hWrefs⟩ := cafRes_fromEdges g n st
  have hW : ∀ k, Keys (cafRes g n st).1 k → isPH k = true → (!(cafRes g n st).2.isEmpty) = true := by
    intro k hk hp
    have := hWrefs k hk hp
    cases h : (cafRes g n st).2 with
    | nil => exact absurd h this
    | cons a b => rfl
  have h1n : aget n st1.nodeW = (cafRes g n st).1 := by rw [hst1]; exact aget_aset_self ..
  have h1D : st1.deps = st.deps := by rw [hst1]
  have h1E : st1.edgeW = st.edgeW := by rw [hst1]
  have hEF : EdgeFix ("R#" ++ n) (cafRes g n st).1 (aget n st1.deps) st1 st2 := by
    rw [hst2, fixDependantEdgesWeight_eq]
    exact edgeFix_fold n ("R#" ++ n) _ _ hWref hW _ st1 h1n
  have h3D : st3.deps = st2.deps := by rw [hst3]; exact fixNodes_deps ..
  have h3E : st3.edgeW = st2.edgeW := by rw [hst3]; exact fixNodes_edgeW ..
  have hnot : ∀ r : ERef, TermE g r → r ∉ aget n st.deps := by
    intro r hr hin
    exact ne_of_nonTerm_term (hI.d n r hin) hr rfl
  refine ⟨?_, ?_, ?_⟩
  · intro m r h
    rw [hfin] at h
    have h' : r ∈ aget m st3.deps := mem_aget_adel n m _ r h
    rw [h3D] at h'
    rcases hEF.new m r h' with h'' | ⟨h'', _⟩
    · rw [h1D] at h''; exact Or.inl h''
    · rw [h1D] at h''; exact Or.inr (hI.d n r h'')
  · intro r hr
    rw [hfin]
    show aget r st3.edgeW = _
    rw [h3E, hEF.other r (by rw [h1D]; exact hnot r hr), h1E]
  · intro r hr
    exact cafFinal_edgeWild_ne g n st r (hnot r hr)

/-! ### the terminal branch of `edgeLoop` -/
theorem term_T (g : G) (r : ERef) (e : WEdge) (st st2 : AState) (hI : TInv g st) (he : edgeAt g r = some e)
    (hD : st2.deps = st.deps) (hEself : aget r st2.edgeW ≠ [])
    (hEne : ∀ r', r' ≠ r → aget r' st2.edgeW = aget r' st.edgeW)
    (hXne : ∀ r', r' ≠ r → aget r' st2.edgeWild = aget r' st.edgeWild)
    (hXw : nodeType g e.dst = .wildcard → aget r st2.edgeWild = [(e.dst.dropEnd 2).toString])
    (hXs : nodeType g e.dst = .specificType → aget r st2.edgeWild = []) : TInv g st2 := by
  refine ⟨?_, ?_, ?_, ?_⟩
  · intro m r' h
    rw [hD] at h
    exact hI.d m r' h
  · intro r' e' he' ht hw0
    by_cases eq : r' = r
    · subst eq; exact absurd hw0 hEself
    · rw [hXne r' eq]
      rw [hEne r' eq] at hw0
      exact hI.u r' e' he' ht hw0
  · intro r' e' he' ht hne
    by_cases eq : r' = r
    · subst eq
      rw [he] at he'
      cases he'
      exact hXw ht
    · rw [hXne r' eq]
      rw [hEne r' eq] at hne
      exact hI.w r' e' he' ht hne
  · intro r' e' he' ht
    by_cases eq : r' = r
    · subst eq
      rw [he] at he'
      cases he'
      exact hXs ht
    · rw [hXne r' eq]
      exact hI.s r' e' he' ht

/-! ### the pass -/
def RecT (g : G) (rec : String → List WEdge → AState → Res) : Prop :=
  ∀ n path st, TInv g st → ∀ tc st', rec n path st = ((tc, none), st') → TInv g st'

theorem calcEdgeWith_T (g : G) (rec : String → List WEdge → AState → Res) (hrec : RecT g rec) (r : ERef) (e : WEdge)
    (hr : NonTermE g r) (path : List WEdge) (st : AState) (hI : TInv g st)
    (tc : List String) (st' : AState) (h : calcEdgeWith rec g r e path st = ((tc, none), st')) : TInv g st' := by
  rw [calcEdgeWith_eq] at h
  split at h
  · simp only [Prod.mk.injEq] at h
    obtain ⟨_, rfl⟩ := h
    exact hI.step ((TRel.setEdgeW g r _ st hr).trans (TRel.addDep g _ r _ hr))
  · split at h
    · simp at h
    · rename_i tc1 st1 heq
      have hI1 := hrec e.dst (path ++ [e]) st hI tc1 st1 heq
      split at h
      · split at h
        · simp only [Prod.mk.injEq] at h
          obtain ⟨_, rfl⟩ := h
          exact hI1.step ((TRel.setEdgeW g r _ st1 hr).trans (TRel.addDep g _ r _ hr))
        · simp at h
      · simp only [Prod.mk.injEq] at h
        obtain ⟨_, rfl⟩ := h
        have hinit : TRel g st1 (if (!tc1.isEmpty) = true then tc1.foldl (fun st n => addDep n r st) st1 else st1) := by
          split
          · exact addDeps_TRel g r hr st1 tc1 st1 (TRel.refl g st1)
          · exact TRel.refl g st1
        have hscan := scan_TRel g (!tc1.isEmpty) r hr st1 (aget e.dst st1.nodeW)
          (tc1, if (!tc1.isEmpty) = true then tc1.foldl (fun st n => addDep n r st) st1 else st1) hinit
        exact hI1.step (hscan.trans (TRel.setEdgeW g r _ _ hr))

theorem edgeLoop_T (g : G) (rec : String → List WEdge → AState → Res) (hrec : RecT g rec) (nodeID : String)
    (path : List WEdge) : ∀ (es : List (ERef × WEdge)) (tcs : List String) (st : AState), TInv g st →
      (∀ p ∈ es, edgeAt g p.1 = some p.2) →
      ∀ tcs' st', edgeLoop rec g nodeID path es tcs st = ((tcs', none), st') → TInv g st'
  | [], tcs, st, hI, _, tcs', st', h => by
    simp only [edgeLoop, Prod.mk.injEq] at h
    obtain ⟨_, rfl⟩ := h
    exact hI
  | (r, e) :: rest, tcs, st, hI, hes, tcs', st', h => by
    have hre : edgeAt g r = some e := hes (r, e) (List.mem_cons_self ..)
    have hrest : ∀ p ∈ rest, edgeAt g p.1 = some p.2 := fun p hp => hes p (List.mem_cons_of_mem _ hp)
    unfold edgeLoop at h
    split at h
    · exact edgeLoop_T g rec hrec nodeID path rest tcs st hI hrest tcs' st' h
    · rename_i hemp
      have hempty : aget r st.edgeW = [] := by
        cases hh : aget r st.edgeW with
        | nil => rfl
        | cons a b => rw [hh] at hemp; simp at hemp
      simp only at h
      split at h
      · rename_i hterm
        have hX0 : aget r st.edgeWild = [] := hI.u r e hre hterm hempty
        by_cases hwc : nodeType g e.dst = .wildcard
        · have hb : (nodeType g e.dst == NodeType.wildcard) = true := by rw [hwc]; rfl
          simp only [hb, if_true] at h
          refine edgeLoop_T g rec hrec nodeID path rest tcs _ ?_ hrest tcs' st' h
          refine term_T g r e st _ hI hre ?_ ?_ ?_ ?_ ?_ ?_
          · simp
          · show aget r (aset r _ _) ≠ []
            rw [aget_aset_self]
            simp
          · intro r' hne
            show aget r' (aset r _ _) = _
            rw [aget_aset_ne _ _ _ hne]
            simp
          · intro r' hne
            show aget r' (addEdgeWildcardsToNode nodeID r (addWildcardToEdge _ r st)).edgeWild = _
            rw [addEdgeWildcardsToNode_edgeWild, addWildcardToEdge_edgeWild_ne _ _ _ _ hne]
          · intro _
            show aget r (addEdgeWildcardsToNode nodeID r (addWildcardToEdge _ r st)).edgeWild = _
            rw [addEdgeWildcardsToNode_edgeWild, addWildcardToEdge_edgeWild_self _ _ _ hX0]
          · intro hs
            rw [hs] at hwc
            cases hwc
        · have hb : (nodeType g e.dst == NodeType.wildcard) = false := by
            cases hnt : nodeType g e.dst <;> first | rfl | exact absurd hnt hwc
          simp only [hb, Bool.false_eq_true, if_false] at h
          refine edgeLoop_T g rec hrec nodeID path rest tcs _ ?_ hrest tcs' st' h
          refine term_T g r e st _ hI hre rfl ?_ ?_ ?_ ?_ ?_
          · show aget r (aset r _ _) ≠ []
            rw [aget_aset_self]
            simp
          · intro r' hne
            show aget r' (aset r _ _) = _
            rw [aget_aset_ne _ _ _ hne]
          · intro r' hne
            rfl
          · intro hw'
            exact absurd hw' hwc
          · intro _
            exact hX0
      · rename_i hterm
        have hnt : isTerminal (nodeType g e.dst) = false := by
          cases hh : isTerminal (nodeType g e.dst) with
          | false => rfl
          | true => exact absurd hh hterm
        have hr : NonTermE g r := ⟨e, hre, hnt⟩
        split at h
        · simp at h
        · rename_i heq
          obtain ⟨tc, htc⟩ : ∃ t, t = (calcEdgeWith rec g r e path st).1.1 := ⟨_, rfl⟩
          obtain ⟨stC, hstC⟩ : ∃ s, s = (calcEdgeWith rec g r e path st).2 := ⟨_, rfl⟩
          have heq' : calcEdgeWith rec g r e path st = ((tc, none), stC) := by
            rw [htc, hstC]; exact Prod.ext (Prod.ext rfl heq) rfl
          rw [← htc, ← hstC] at h
          have hIC := calcEdgeWith_T g rec hrec r e hr path st hI tc stC heq'
          have hIC' : TInv g (addEdgeWildcardsToNode nodeID r (calculateEdgeWildcards e.dst r stC)) :=
            hIC.step ((TRel.calcWild g e.dst r stC hr).trans (TRel.of_eq (by simp) (by simp) (by simp)))
          exact edgeLoop_T g rec hrec nodeID path rest (tcs ++ tc) _ hIC' hrest tcs' st' h

theorem calcNode_T (g : G) : ∀ (fuel : Nat), RecT g (calcNode fuel g)
  | 0 => by
    intro n path st _ tc st' h
    simp [calcNode] at h
  | fuel+1 => by
    intro n path st hI tc st' h
    unfold calcNode at h
    split at h
    · simp only [Prod.mk.injEq] at h
      obtain ⟨_, rfl⟩ := h
      exact hI
    · split at h
      · simp only [Prod.mk.injEq] at h
        obtain ⟨_, rfl⟩ := h
        exact hI
      · simp only at h
        have hI0 : TInv g { st with visited := n :: st.visited } := ⟨hI.d, hI.u, hI.w, hI.s⟩
        split at h
        · simp at h
        · rename_i tcs stL heq
          have hIL := edgeLoop_T g (calcNode fuel g) (calcNode_T g fuel) n path _ [] _ hI0 (refs_edgeAt g n) tcs stL heq
          rcases fromTheEdges_cases g n tcs stL with ⟨t, e, s, hc⟩ | hc | ⟨w, hc, hw⟩ | ⟨hc, _⟩
          · rw [hc] at h; simp at h
          · rw [hc] at h
            simp only [Prod.mk.injEq] at h
            obtain ⟨_, rfl⟩ := h
            exact hIL
          · rw [hc] at h
            simp only [Prod.mk.injEq] at h
            obtain ⟨_, rfl⟩ := h
            exact ⟨hIL.d, hIL.u, hIL.w, hIL.s⟩
          · rw [hc] at h
            simp only [Prod.mk.injEq] at h
            obtain ⟨_, rfl⟩ := h
            exact hIL.step (cafFinal_TRel g n stL hIL)

theorem tinv_init (g : G) : TInv g {} :=
  ⟨fun m r h => (by cases h), fun _ _ _ _ _ => rfl, fun _ _ _ _ h => absurd rfl h, fun _ _ _ _ => rfl⟩

theorem go_T (g : G) : ∀ (ns : List String) (st st' : AState), TInv g st →
    assignWeights.go g ns st = .ok st' → TInv g st'
  | [], st, st', hI, heq => by
    simp only [assignWeights.go] at heq
    cases heq; exact hI
  | n :: ns, st, st', hI, heq => by
    unfold assignWeights.go at heq
    split at heq
    · exact go_T g ns st st' hI heq
    · split at heq
      · cases heq
      · rename_i tcs st2 hres
        split at heq
        · cases heq
        · exact go_T g ns st2 st' (calcNode_T g (g.nodes.length + 1) n [] st hI tcs st2 hres) heq

theorem assignWeights_TInv (g : G) (order : List String) (st : AState) (h : assignWeights g order = .ok st) :
    TInv g st := by
  unfold assignWeights at h
  split at h
  · cases h
  · exact go_T g _ {} st (tinv_init g) h

end WildTerm

open WildTerm in
/-- edges into a public restriction `T:*` carry exactly `[T]`, edges into a plain type carry no wildcard -/
theorem assignWeights_terminal_edge_wild (g : G) (order : List String) (st : AState)
    (h : assignWeights g order = .ok st) (v : String) (hv : v ∈ st.visited) (i : Nat) (e : WEdge)
    (he : (edgesOf g v)[i]? = some e) :
    (nodeType g e.dst = .wildcard → aget (v, i) st.edgeWild = [(e.dst.dropEnd 2).toString]) ∧
    (nodeType g e.dst = .specificType → aget (v, i) st.edgeWild = []) := by
  have hI := assignWeights_TInv g order st h
  have hr : (v, i) ∈ edgeRefs g v := by
    unfold edgeRefs
    refine List.mem_map.2 ⟨i, ?_, rfl⟩
    rw [List.mem_range]
    exact (List.getElem?_eq_some_iff.1 he).1
  have hne : aget (v, i) st.edgeW ≠ [] := (assignWeights_nonempty g order st h).2.2.2 v hv (v, i) hr
  exact ⟨fun hw => hI.w (v, i) e he hw hne, fun hs => hI.s (v, i) e he hs⟩

/-! ### §4 the edge clause: definitions -/

/-- every edge is stored under its own source (true of every graph the builder produces) -/
def SrcOK (g : G) : Prop := ∀ (r : ERef) e, edgeAt g r = some e → e.src = r.1

def srcOKB (g : G) : Bool := g.edges.all (fun p => p.2.all (fun e => e.src == p.1))

theorem srcOKB_sound (g : G) (h : srcOKB g = true) : SrcOK g := by
  intro r e he
  unfold edgeAt edgesOf at he
  split at he
  · rename_i k es hf
    have hmem := List.mem_of_find?_eq_some hf
    have hk : k = r.1 := by simpa using List.find?_some hf
    unfold srcOKB at h
    rw [List.all_eq_true] at h
    have h1 := h _ hmem
    simp only at h1
    rw [List.all_eq_true] at h1
    have h2 := h1 e (List.mem_of_getElem? he)
    rw [← hk]
    simpa using h2
  · simp at he

/-- The invariant of the edge clause.  `kc`: a dependency of `r` on `m` is witnessed by the placeholder key `R#m` in
    the weights of `r` (converse of `Inv2.i1`); `dv`: only visited nodes have dependencies; `nc`: once a node has
    weights, every placeholder key of its edges is a key of the node (converse of `Inv2.i3`); `re`: only real edges
    have weights; `u`: an edge without weights has no wildcards; `a1`/`a2`: for a computed edge `r` into a relation or
    operator `d`: the wildcards of `r` are wildcards of `d`, and every wildcard of `d` is one of `r` or one of a node
    whose placeholder `r` still carries (and will receive at the resolution).  `ex`: edges exempt from `a2`
    (the edge whose weights have just been written, before its wildcards are computed). -/
structure InvW (g : G) (ex : List ERef) (st : AState) : Prop where
  kc : ∀ m (r : ERef), r ∈ aget m st.deps → Keys (aget r st.edgeW) ("R#" ++ m)
  dv : ∀ m (r : ERef), r ∈ aget m st.deps → m ∈ st.visited
  nc : ∀ (r : ERef) k, Keys (aget r st.edgeW) k → isPH k = true → aget r.1 st.nodeW ≠ [] → Keys (aget r.1 st.nodeW) k
  re : ∀ r : ERef, aget r st.edgeW ≠ [] → r ∈ edgeRefs g r.1
  u : ∀ r : ERef, aget r st.edgeW = [] → aget r st.edgeWild = []
  a1 : ∀ (r : ERef) e, edgeAt g r = some e → isTerminal (nodeType g e.dst) = false → aget r st.edgeW ≠ [] →
    ∀ T, T ∈ aget r st.edgeWild → T ∈ aget e.dst st.nodeWild
  a2 : ∀ (r : ERef) e, r ∉ ex → edgeAt g r = some e → isTerminal (nodeType g e.dst) = false → aget r st.edgeW ≠ [] →
    ∀ T, T ∈ aget e.dst st.nodeWild →
      T ∈ aget r st.edgeWild ∨ ∃ m, Keys (aget r st.edgeW) ("R#" ++ m) ∧ T ∈ aget m st.nodeWild

/-- dependencies on nodes that were already visited are kept by a call -/
structure RelW (st st' : AState) : Prop where
  dm : ∀ m ∈ st.visited, ∀ r : ERef, r ∈ aget m st.deps → r ∈ aget m st'.deps

theorem RelW.refl (st : AState) : RelW st st := ⟨fun _ _ _ h => h⟩

theorem RelW.trans {a b c : AState} (h1 : RelW a b) (h2 : RelW b c) (vm : ∀ v ∈ a.visited, v ∈ b.visited) : RelW a c :=
  ⟨fun m hm r hr => h2.dm m (vm m hm) r (h1.dm m hm r hr)⟩

/-- the recursion hypothesis: a successful call preserves the invariant; every node of the returned list of open
    cycle references is visited; a non-terminal node is visited afterwards; and if the node was fresh, every
    returned reference `m` is recorded as a dependency of one of the node's own edges, and the list is empty if
    the node got no weights -/
def RecW (g : G) (rec : String → List WEdge → AState → Res) : Prop :=
  ∀ n path st, Inv2 st → InvD g st → InvW g [] st → ∀ tc st', rec n path st = ((tc, none), st') →
    InvW g [] st' ∧ RelW st st' ∧ (∀ m ∈ tc, m ∈ st'.visited) ∧
    (isTerminal (nodeType g n) = false → n ∈ st'.visited) ∧
    (n ∉ st.visited → (∀ m ∈ tc, ∃ r : ERef, r.1 = n ∧ r ∈ aget m st'.deps) ∧ (aget n st'.nodeW = [] → tc = []))

/-! ### §4a the edge clause: the resolution step

    The edge clause of the wildcard invariant (`InvW`) through `fromTheEdges`: a refined case split
    (`fromTheEdges_casesW`) and the resolution step (`cafFinal_W`). -/

/-! ### Lemma 1: refined outcomes of `fromTheEdges` -/

/-- `maxStrategy_spec`, plus: the written map has every key of every edge -/
theorem maxStrategy_specW (g : G) (nodeID : String) (st : AState) :
    (∃ e, maxStrategy g nodeID st = (some e, st)) ∨
    ∃ w, maxStrategy g nodeID st = (none, { st with nodeW := aset nodeID w st.nodeW }) ∧ FromEdgesW g nodeID st w ∧
      ∀ r ∈ edgeRefs g nodeID, ∀ k, Keys (aget r st.edgeW) k → Keys w k := by
  unfold maxStrategy
  split
  · exact Or.inl ⟨_, rfl⟩
  · refine Or.inr ⟨_, rfl, ⟨?_, ?_⟩, ?_⟩
    · refine foldl_inv SortedM _ ?_ _ _ sortedM_nil
      intro acc r hacc
      refine foldl_inv SortedM _ ?_ _ _ hacc
      intro a p ha
      exact sortedM_wsetMax _ _ _ ha
    · intro Q hQ hE
      refine foldl_inv_mem (AllQ Q) _ _ _ ?_ (allQ_nil Q)
      intro acc r hr hacc
      refine foldl_inv_mem (AllQ Q) _ _ _ ?_ hacc
      intro a p hp ha
      exact allQ_wsetMax hQ.max p.1 p.2 ha (hE r hr p hp)
    · intro r hr k hk
      refine foldl_mem_post (fun (r : ERef) (a : WMap) => ∀ k, Keys (aget r st.edgeW) k → Keys a k) _ ?_ ?_ _ _ r hr k hk
      · intro s x k ⟨v, hv⟩
        exact foldl_mem_post (fun (kv : String × Nat) (a : WMap) => Keys a kv.1) _
          (fun a kv => keys_wsetMax_self kv.1 kv.2 a)
          (fun a kv y hy => keys_wsetMax_of kv.1 kv.2 a y.1 hy) _ s (k, v) hv
      · intro s x y hy k hk
        exact foldl_inv (fun (a : WMap) => Keys a k) _ (fun a kv ha => keys_wsetMax_of kv.1 kv.2 a k ha) _ _ (hy k hk)

/-- the four possible outcomes of `fromTheEdges`, refined -/
theorem fromTheEdges_casesW (g : G) (n : String) (tcs : List String) (st : AState) :
    (∃ tc e st', fromTheEdges g n tcs st = ((tc, some e), st')) ∨
    (fromTheEdges g n tcs st = ((tcs, none), st) ∧ tcs = []) ∨
    (∃ w, fromTheEdges g n tcs st = ((tcs, none), { st with nodeW := aset n w st.nodeW }) ∧ FromEdgesW g n st w ∧
      (tcs = [] ∨ ∀ r ∈ edgeRefs g n, ∀ k, Keys (aget r st.edgeW) k → Keys w k)) ∨
    (fromTheEdges g n tcs st = ((tcs.filter (· != n), none), cafFinal g n st) ∧ (cafRes g n st).1 ≠ []) := by
  have hmax := maxStrategy_specW g n st
  have hmix := mixedStrategy_spec g n st
  have henf := enforceTypeStrategy_spec g n st
  have hmaxC : ∀ (tcs : List String), (∃ tc e st', ((tcs, (maxStrategy g n st).1), (maxStrategy g n st).2) = ((tc, some e), st')) ∨
      (((tcs, (maxStrategy g n st).1), (maxStrategy g n st).2) = ((tcs, none), st) ∧ tcs = []) ∨
      (∃ w, ((tcs, (maxStrategy g n st).1), (maxStrategy g n st).2) = ((tcs, none), { st with nodeW := aset n w st.nodeW }) ∧
        FromEdgesW g n st w ∧ (tcs = [] ∨ ∀ r ∈ edgeRefs g n, ∀ k, Keys (aget r st.edgeW) k → Keys w k)) ∨
      (((tcs, (maxStrategy g n st).1), (maxStrategy g n st).2) = ((tcs.filter (· != n), none), cafFinal g n st) ∧
        (cafRes g n st).1 ≠ []) := by
    intro tcs
    rcases hmax with ⟨e, he⟩ | ⟨w, hw, hf, hl⟩
    · rw [he]; exact Or.inl ⟨_, _, _, rfl⟩
    · rw [hw]; exact Or.inr (Or.inr (Or.inl ⟨w, rfl, hf, Or.inr hl⟩))
  have hcafC : (∃ e, calcAndFix g n st = (some e, st)) ∨
      (calcAndFix g n st = (none, cafFinal g n st) ∧ (cafRes g n st).1 ≠ []) := by
    rw [calcAndFix_eq]
    split
    · exact Or.inl ⟨_, rfl⟩
    · split
      · exact Or.inl ⟨_, rfl⟩
      · split
        · exact Or.inl ⟨_, rfl⟩
        · rename_i hne
          refine Or.inr ⟨rfl, ?_⟩
          intro h; rw [h] at hne; simp at hne
  have hcaf : (∃ tc e st', (match calcAndFix g n st with
        | (some e, st) => ((tcs, some e), st)
        | (none, st) => ((tcs.filter (· != n), none), st)) = ((tc, some e), st')) ∨
      ((match calcAndFix g n st with
        | (some e, st) => ((tcs, some e), st)
        | (none, st) => ((tcs.filter (· != n), none), st)) = ((tcs.filter (· != n), none), cafFinal g n st) ∧
        (cafRes g n st).1 ≠ []) := by
    rcases hcafC with ⟨e, he⟩ | ⟨he, hne⟩
    · rw [he]; exact Or.inl ⟨_, _, _, rfl⟩
    · rw [he]; exact Or.inr ⟨rfl, hne⟩
  unfold fromTheEdges
  simp only
  split
  · rename_i hemp
    have htcs : tcs = [] := List.isEmpty_iff.1 hemp
    split
    · exact hmaxC tcs
    · split
      · exact hmaxC tcs
      · split
        · rcases henf with ⟨e, he⟩ | ⟨w, hw, hf, _⟩
          · rw [he]; exact Or.inl ⟨_, _, _, rfl⟩
          · rw [hw]; exact Or.inr (Or.inr (Or.inl ⟨w, rfl, hf, Or.inl htcs⟩))
        · split
          · rcases hmix with ⟨e, he⟩ | ⟨w, hw, hf⟩
            · rw [he]; exact Or.inl ⟨_, _, _, rfl⟩
            · rw [hw]; exact Or.inr (Or.inr (Or.inl ⟨w, rfl, hf, Or.inl htcs⟩))
          · exact Or.inr (Or.inl ⟨rfl, htcs⟩)
  · split
    · rcases hcaf with h | h
      · exact Or.inl h
      · exact Or.inr (Or.inr (Or.inr h))
    · split
      · exact hmaxC tcs
      · split
        · split
          · rcases hcaf with h | h
            · exact Or.inl h
            · exact Or.inr (Or.inr (Or.inr h))
          · exact hmaxC tcs
        · exact Or.inl ⟨_, _, _, rfl⟩

/-! ### Lemma 2: the resolution step preserves `InvW` -/

theorem optMax_isSomeW (a b : Option Nat) : (optMax a b).isSome = true ↔ a.isSome = true ∨ b.isSome = true := by
  cases a <;> cases b <;> simp [optMax]

/-- the keys of the rebuilt map -/
theorem substL_isSome (refID : String) (W old : WMap) (k : String) :
    (substL refID W old k).isSome = true ↔ (k ≠ refID ∧ Keys old k) ∨ (Keys old refID ∧ Keys W k) := by
  unfold substL
  rw [optMax_isSomeW]
  constructor
  · rintro (h | h)
    · by_cases e : k = refID
      · rw [if_pos e] at h; cases h
      · rw [if_neg e] at h; exact Or.inl ⟨e, (wget_isSome_iff_keys _ _).1 h⟩
    · by_cases e2 : (wget refID old).isSome = true
      · rw [if_pos e2] at h
        exact Or.inr ⟨(wget_isSome_iff_keys _ _).1 e2, (wget_isSome_iff_keys _ _).1 h⟩
      · rw [if_neg e2] at h; cases h
  · rintro (⟨e, h⟩ | ⟨h1, h2⟩)
    · left; rw [if_neg e]; exact (wget_isSome_iff_keys _ _).2 h
    · right; rw [if_pos ((wget_isSome_iff_keys _ _).2 h1)]; exact (wget_isSome_iff_keys _ _).2 h2

theorem cafStep_keys_mono (refID : String) (acc : WMap × List String) (kv : String × Nat) (k : String)
    (h : Keys acc.1 k) : Keys (cafStep refID acc kv).1 k := by
  unfold cafStep
  split
  · exact h
  · exact keys_wset_of _ _ _ _ h

theorem cafStep_keys_self (refID : String) (acc : WMap × List String) (kv : String × Nat) (hne : kv.1 ≠ refID) :
    Keys (cafStep refID acc kv).1 kv.1 := by
  unfold cafStep
  split
  · rename_i he
    exact absurd (by simpa using he) hne
  · exact ⟨_, wset_self ..⟩

/-- the resolved map has every key of every edge of the node, except the node's own placeholder -/
theorem cafRes_lower (g : G) (n : String) (st : AState) :
    ∀ r ∈ edgeRefs g n, ∀ k, Keys (aget r st.edgeW) k → k ≠ "R#" ++ n → Keys (cafRes g n st).1 k := by
  intro r hr k hk hne
  unfold cafRes
  refine foldl_mem_post (fun (r : ERef) (a : WMap × List String) =>
      ∀ k, Keys (aget r st.edgeW) k → k ≠ "R#" ++ n → Keys a.1 k) _ ?_ ?_ _ _ r hr k hk hne
  · intro s x k ⟨v, hv⟩ hne
    exact foldl_mem_post (fun (kv : String × Nat) (a : WMap × List String) => kv.1 ≠ "R#" ++ n → Keys a.1 kv.1) _
      (fun a kv h => cafStep_keys_self _ a kv h)
      (fun a kv y hy h => cafStep_keys_mono _ a kv _ (hy h)) _ s (k, v) hv hne
  · intro s x y hy k hk hne
    exact foldl_inv (fun (a : WMap × List String) => Keys a.1 k) _
      (fun a kv ha => cafStep_keys_mono _ a kv k ha) _ _ (hy k hk hne)

/-- key-level description of the resolution step `st' = cafFinal g n stL`, with `W` the resolved map of `n` -/
structure CafK (n : String) (W : WMap) (stL st' : AState) : Prop where
  vis : st'.visited = stL.visited
  depsn : aget n st'.deps = []
  deps_new : ∀ m, m ≠ n → ∀ r : ERef, r ∈ aget m st'.deps →
    r ∈ aget m stL.deps ∨ (r ∈ aget n stL.deps ∧ ∃ k, Keys W k ∧ isPH k = true ∧ m = phNode k)
  deps_mono : ∀ m, m ≠ n → ∀ r : ERef, r ∈ aget m stL.deps → r ∈ aget m st'.deps
  eupper : ∀ (r' : ERef) k, Keys (aget r' st'.edgeW) k →
    Keys (aget r' stL.edgeW) k ∨ (Keys (aget r' stL.edgeW) ("R#" ++ n) ∧ r' ∈ aget n stL.deps ∧ Keys W k)
  enoref : ∀ r' : ERef, ¬ Keys (aget r' st'.edgeW) ("R#" ++ n)
  elower : ∀ (r' : ERef) k, Keys (aget r' stL.edgeW) k → k ≠ "R#" ++ n → Keys (aget r' st'.edgeW) k
  elowerW : ∀ r' ∈ aget n stL.deps, Keys (aget r' stL.edgeW) ("R#" ++ n) → ∀ k, Keys W k → Keys (aget r' st'.edgeW) k
  nn : ∀ k, Keys W k → Keys (aget n st'.nodeW) k
  nl1 : ∀ N, N ≠ n → ∀ k, k ≠ "R#" ++ n → Keys (aget N stL.nodeW) k → Keys (aget N st'.nodeW) k
  nl2 : ∀ N, N ≠ n → (∃ r ∈ aget n stL.deps, r.1 = N) → Keys (aget N stL.nodeW) ("R#" ++ n) →
    ∀ k, Keys W k → Keys (aget N st'.nodeW) k

theorem cafFinal_K (g : G) (n : String) (stL : AState) (hI : Inv2 stL) (hS : SortedSt stL) :
    CafK n (cafRes g n stL).1 stL (cafFinal g n stL) := by
  obtain ⟨hWfrom, hWref, hWrefs⟩ := cafRes_fromEdges g n stL
  obtain ⟨hWs, hWinfQ⟩ := cafRes_sorted_inf g n stL
  have hWhr : ∀ k, Keys (cafRes g n stL).1 k → isPH k = true → (!(cafRes g n stL).2.isEmpty) = true := by
    intro k hk hp
    have := hWrefs k hk hp
    cases h : (cafRes g n stL).2 with
    | nil => exact absurd h this
    | cons a b => rfl
  have hWrefN : wget ("R#" ++ n) (cafRes g n stL).1 = none := by
    cases h : wget ("R#" ++ n) (cafRes g n stL).1 with
    | none => rfl
    | some v => exact absurd ⟨v, wget_some_mem _ _ _ h⟩ hWref
  obtain ⟨st1, hst1⟩ : ∃ s : AState, s = { stL with nodeW := aset n (cafRes g n stL).1 stL.nodeW } := ⟨_, rfl⟩
  have h1n : aget n st1.nodeW = (cafRes g n stL).1 := by rw [hst1]; exact aget_aset_self ..
  have h1ne : ∀ N, N ≠ n → aget N st1.nodeW = aget N stL.nodeW := by
    intro N h; rw [hst1]; exact aget_aset_ne _ _ _ h _
  have h1E : st1.edgeW = stL.edgeW := by rw [hst1]
  have h1D : st1.deps = stL.deps := by rw [hst1]
  have h1V : st1.visited = stL.visited := by rw [hst1]
  obtain ⟨st2, hst2⟩ : ∃ s, s = fixDependantEdgesWeight n ("R#" ++ n) (!(cafRes g n stL).2.isEmpty) st1 := ⟨_, rfl⟩
  obtain ⟨st3, hst3⟩ : ∃ s, s = fixDependantNodesWeight n ("R#" ++ n) st2 := ⟨_, rfl⟩
  have hfin : cafFinal g n stL = { st3 with deps := adel n st3.deps } := by
    subst hst3 hst2 hst1; rfl
  have hE : EdgeFix ("R#" ++ n) (cafRes g n stL).1 (aget n st1.deps) st1 st2 := by
    rw [hst2, fixDependantEdgesWeight_eq]
    exact edgeFix_fold n ("R#" ++ n) _ _ hWref hWhr _ st1 h1n
  rw [h1D] at hE
  have hEupper := hE.upper; rw [h1E] at hEupper
  have hElower := hE.lower; rw [h1E] at hElower
  have hElowerW := hE.lowerW; rw [h1E] at hElowerW
  have hEother := hE.other; rw [h1E] at hEother
  have hEmono := hE.mono; rw [h1D] at hEmono
  have hEnew := hE.new; rw [h1D] at hEnew
  have hphn : phNode ("R#" ++ n) = n := phNode_mk n
  have noRefE : ∀ r', ¬ Keys (aget r' st2.edgeW) ("R#" ++ n) := by
    intro r' hk
    by_cases hd : r' ∈ aget n stL.deps
    · exact hE.gone r' hd hk
    · rw [hEother r' hd] at hk
      have := hI.i1 r' _ hk (isPH_mk n)
      rw [hphn] at this
      exact hd this
  have s1N : ∀ N : String, SortedM (aget N st1.nodeW) := by
    intro N
    by_cases e : N = n
    · subst e; rw [h1n]; exact hWs
    · rw [h1ne N e]; exact hS.2 N
  obtain ⟨fn1, fn2⟩ := nodeFixF n ("R#" ++ n) (cafRes g n stL).1 hWrefN (aget n st2.deps) st2
    (by rw [hE.nodeW, h1n]; exact fun _ => rfl) (by rw [hE.nodeW]; exact s1N)
  rw [← fixDependantNodesWeight_eq, ← hst3] at fn1 fn2
  rw [hE.nodeW] at fn2
  have e3E : st3.edgeW = st2.edgeW := hst3 ▸ fixNodes_edgeW ..
  have e3D : st3.deps = st2.deps := hst3 ▸ fixNodes_deps ..
  have e3V : st3.visited = stL.visited := by
    rw [hst3, fixNodes_visited, hst2, fixEdges_visited, hst1]
  -- node side, lower bounds
  have NL1 : ∀ N k, k ≠ "R#" ++ n → Keys (aget N st1.nodeW) k → Keys (aget N st3.nodeW) k := by
    intro N k hk h
    apply (wget_isSome_iff_keys _ _).1
    rw [fn2 N k]
    split
    · exact (substL_isSome _ _ _ _).2 (Or.inl ⟨hk, h⟩)
    · exact (wget_isSome_iff_keys _ _).2 h
  have NL2 : ∀ N k, (∃ r ∈ aget n st2.deps, r.1 = N) → Keys (aget N st1.nodeW) ("R#" ++ n) →
      Keys (cafRes g n stL).1 k → Keys (aget N st3.nodeW) k := by
    intro N k hd h hk
    apply (wget_isSome_iff_keys _ _).1
    rw [fn2 N k, if_pos hd]
    exact (substL_isSome _ _ _ _).2 (Or.inr ⟨h, hk⟩)
  rw [hfin]
  refine ⟨e3V, aget_adel_self n _, ?_, ?_, ?_, ?_, ?_, ?_, ?_, ?_, ?_⟩
  · intro m hm r hr
    have hr' : r ∈ aget m (adel n st3.deps) := hr
    rw [aget_adel_ne _ _ hm, e3D] at hr'
    exact hEnew m r hr'
  · intro m hm r hr
    show r ∈ aget m (adel n st3.deps)
    rw [aget_adel_ne _ _ hm, e3D]
    exact hEmono m r hr
  · intro r' k hk
    have hk' : Keys (aget r' st3.edgeW) k := hk
    rw [e3E] at hk'
    exact hEupper r' k hk'
  · intro r' hk
    have hk' : Keys (aget r' st3.edgeW) ("R#" ++ n) := hk
    rw [e3E] at hk'
    exact noRefE r' hk'
  · intro r' k hk hne
    show Keys (aget r' st3.edgeW) k
    rw [e3E]
    exact hElower r' k hk hne
  · intro r' hd hk k hkW
    show Keys (aget r' st3.edgeW) k
    rw [e3E]
    exact hElowerW r' hd hk k hkW
  · intro k hk
    show Keys (aget n st3.nodeW) k
    exact NL1 n k (fun e => hWref (e ▸ hk)) (by rw [h1n]; exact hk)
  · intro N hN k hk h
    show Keys (aget N st3.nodeW) k
    exact NL1 N k hk (by rw [h1ne N hN]; exact h)
  · intro N hN hd h k hk
    show Keys (aget N st3.nodeW) k
    obtain ⟨r, hr, hrN⟩ := hd
    exact NL2 N k ⟨r, hEmono _ _ hr, hrN⟩ (by rw [h1ne N hN]; exact h) hk

/-- **the resolution step preserves the invariant of the edge clause** -/
theorem cafFinal_W (g : G) (hn : NoPHTypes g) (n : String) (stL : AState) (hI : Inv2 stL) (hD : InvD g stL)
    (hW : InvW g [] stL) (hnil : aget n stL.nodeW = []) (hne : (cafRes g n stL).1 ≠ []) :
    InvW g [] (cafFinal g n stL) ∧
    (∀ m, m ≠ n → ∀ r : ERef, r ∈ aget m stL.deps → r ∈ aget m (cafFinal g n stL).deps) ∧
    aget n (cafFinal g n stL).nodeW ≠ [] := by
  have K := cafFinal_K g n stL hI hD.sorted
  obtain ⟨hWfrom, hWref, hWrefs⟩ := cafRes_fromEdges g n stL
  obtain ⟨hwE, hwN⟩ := cafFinal_wild g n stL
  have hnnil : ∀ N, N ≠ n → aget N (cafFinal g n stL).nodeW ≠ [] → aget N stL.nodeW ≠ [] :=
    fun N hN h h0 => h ((cafFinal_D g hn n stL hI hD hnil).2.2 N hN h0)
  have hphn : phNode ("R#" ++ n) = n := phNode_mk n
  have enn : ∀ r : ERef, aget r (cafFinal g n stL).edgeW ≠ [] → aget r stL.edgeW ≠ [] := by
    intro r hr
    obtain ⟨k, hk⟩ := keys_of_ne_nil _ hr
    rcases K.eupper r k hk with h | h
    · exact ne_nil_of_keys h
    · exact ne_nil_of_keys h.1
  refine ⟨⟨?_, ?_, ?_, ?_, ?_, ?_, ?_⟩, fun m hm r hr => K.deps_mono m hm r hr, ?_⟩
  · -- kc
    intro m r hr
    by_cases e : m = n
    · subst e; rw [K.depsn] at hr; cases hr
    · rcases K.deps_new m e r hr with h | ⟨hd, k, hk, hp, hm⟩
      · exact K.elower r _ (hW.kc m r h) (fun h' => e (mk_inj h'))
      · have hk' : k = "R#" ++ m := by rw [hm]; exact eq_mk_of_isPH k hp
        rw [← hk']
        exact K.elowerW r hd (hW.kc n r hd) k hk
  · -- dv
    intro m r hr
    rw [K.vis]
    by_cases e : m = n
    · subst e; rw [K.depsn] at hr; cases hr
    · rcases K.deps_new m e r hr with h | ⟨hd, k, hk, hp, hm⟩
      · exact hW.dv m r h
      · obtain ⟨r0, hr0, hk0⟩ := fromEdgesW_keys hWfrom k hk
        have := hI.i1 r0 k hk0 hp
        rw [hm]
        exact hW.dv _ r0 this
  · -- nc
    intro r k hk hp hnn
    have hkne : k ≠ "R#" ++ n := fun e => K.enoref r (e ▸ hk)
    by_cases e : r.1 = n
    · rw [e]
      apply K.nn
      rcases K.eupper r k hk with h | ⟨_, _, h⟩
      · have hre := hW.re r (ne_nil_of_keys h)
        rw [e] at hre
        exact cafRes_lower g n stL r hre k h hkne
      · exact h
    · have hL := hnnil r.1 e hnn
      rcases K.eupper r k hk with h | ⟨h1, hd, hk'⟩
      · exact K.nl1 r.1 e k hkne (hW.nc r k h hp hL)
      · exact K.nl2 r.1 e ⟨r, hd, rfl⟩ (hW.nc r _ h1 (isPH_mk n) hL) k hk'
  · -- re
    intro r hr
    exact hW.re r (enn r hr)
  · -- u
    intro r hr
    have hL : aget r stL.edgeW = [] := by
      apply nil_of_no_keys
      intro k hk
      by_cases e : k = "R#" ++ n
      · subst e
        have hd := hI.i1 r _ hk (isPH_mk n)
        rw [hphn] at hd
        obtain ⟨k', hk'⟩ := keys_of_ne_nil _ hne
        have := K.elowerW r hd hk k' hk'
        rw [hr] at this
        exact keys_nil _ this
      · have := K.elower r k hk e
        rw [hr] at this
        exact keys_nil _ this
    have hnd : r ∉ aget n stL.deps := by
      intro hd
      have := hW.kc n r hd
      rw [hL] at this
      exact keys_nil _ this
    apply List.eq_nil_iff_forall_not_mem.2
    intro T hT
    rcases (hwE r T).1 hT with h | ⟨h, _⟩
    · rw [hW.u r hL] at h; cases h
    · exact hnd h
  · -- a1
    intro r e he hterm hne' T hT
    have hLne := enn r hne'
    rcases (hwE r T).1 hT with h | ⟨hd, hTW⟩
    · exact (hwN e.dst T).2 (Or.inl (hW.a1 r e he hterm hLne T h))
    · have hk := hW.kc n r hd
      have h1 := (wget_isSome_iff_keys _ _).2 hk
      rcases hD.rule r e he hterm hLne with hok | hraw
      · rw [hok] at h1
        have h2 : (wget ("R#" ++ n) (aget e.dst stL.nodeW)).isSome = true := by simpa using h1
        have hkN := (wget_isSome_iff_keys _ _).1 h2
        obtain ⟨r0, hr0, hk0⟩ := hI.i3 e.dst _ hkN (isPH_mk n)
        have hd0 := hI.i1 r0 _ hk0 (isPH_mk n)
        rw [hphn] at hd0
        exact (hwN e.dst T).2 (Or.inr ⟨⟨r0, hd0, hr0⟩, hTW⟩)
      · rw [hraw] at h1
        by_cases ee : "R#" ++ n = "R#" ++ e.dst
        · have : n = e.dst := mk_inj ee
          exact (hwN e.dst T).2 (Or.inl (this ▸ hTW))
        · rw [if_neg ee] at h1; cases h1
  · -- a2
    intro r e _ he hterm hne' T hT
    have hLne := enn r hne'
    rcases (hwN e.dst T).1 hT with h | ⟨⟨r', hd', hr'⟩, hTW⟩
    · rcases hW.a2 r e (by simp) he hterm hLne T h with h | ⟨m, hkm, hTm⟩
      · exact Or.inl ((hwE r T).2 (Or.inl h))
      · by_cases em : m = n
        · subst em
          have hd := hI.i1 r _ hkm (isPH_mk m)
          rw [phNode_mk] at hd
          exact Or.inl ((hwE r T).2 (Or.inr ⟨hd, hTm⟩))
        · exact Or.inr ⟨m, K.elower r _ hkm (fun h' => em (mk_inj h')), (hwN m T).2 (Or.inl hTm)⟩
    · rcases hD.rule r e he hterm hLne with hok | hraw
      · have hdn : aget e.dst stL.nodeW ≠ [] := by
          intro h0
          apply hLne
          apply nil_of_wget_none
          intro k
          rw [hok k, h0]; rfl
        have edn : e.dst ≠ n := fun h' => hdn (h' ▸ hnil)
        have hk' := hW.kc n r' hd'
        have hkN : Keys (aget e.dst stL.nodeW) ("R#" ++ n) := by
          have := hW.nc r' _ hk' (isPH_mk n) (by rw [hr']; exact hdn)
          rw [hr'] at this
          exact this
        have hkr : Keys (aget r stL.edgeW) ("R#" ++ n) := by
          apply (wget_isSome_iff_keys _ _).1
          rw [hok]
          have := (wget_isSome_iff_keys _ _).2 hkN
          simpa using this
        have hd := hI.i1 r _ hkr (isPH_mk n)
        rw [hphn] at hd
        exact Or.inl ((hwE r T).2 (Or.inr ⟨hd, hTW⟩))
      · have hkr : Keys (aget r stL.edgeW) ("R#" ++ e.dst) := by
          apply (wget_isSome_iff_keys _ _).1
          rw [hraw, if_pos rfl]; rfl
        by_cases edn : e.dst = n
        · have hd := hI.i1 r _ hkr (isPH_mk _)
          rw [phNode_mk, edn] at hd
          exact Or.inl ((hwE r T).2 (Or.inr ⟨hd, hTW⟩))
        · exact Or.inr ⟨e.dst, K.elower r _ hkr (fun h' => edn (mk_inj h')), hT⟩
  · -- the node has weights
    obtain ⟨k, hk⟩ := keys_of_ne_nil _ hne
    exact ne_nil_of_keys (K.nn k hk)

/-! ### §4b the edge clause: the depth-first pass

    The edge clause of the wildcard post-condition (pass 5 over `calcEdgeWith` / `edgeLoop` / `calcNode` /
    `assignWeights.go`, on top of passes 2 and 4): after a successful assignment the wildcard list of every computed
    edge into a relation or operator equals, as a set, the wildcard list of its target. -/

/-! ### small facts -/
theorem keys_edgeCopy_iff (e : WEdge) (w : WMap) (k : String) : Keys (edgeCopy e w) k ↔ Keys w k := by
  rw [← wget_isSome_iff_keys, ← wget_isSome_iff_keys, wget_edgeCopy]
  cases wget k w <;> rfl

theorem same_edge {g : G} {r : ERef} {e e' : WEdge} (he : edgeAt g r = some e) (he' : edgeAt g r = some e') : e' = e :=
  Option.some.inj (he'.symm.trans he)

theorem mem_edgeRefs_of_edgeAt (g : G) (r : ERef) (e : WEdge) (he : edgeAt g r = some e) : r ∈ edgeRefs g r.1 := by
  unfold edgeRefs
  refine List.mem_map.2 ⟨r.2, ?_, rfl⟩
  rw [List.mem_range]
  exact (List.getElem?_eq_some_iff.1 he).1

theorem edgeRefs_fst (g : G) (n : String) (r : ERef) (hr : r ∈ edgeRefs g n) : r.1 = n := by
  unfold edgeRefs at hr
  obtain ⟨i, _, rfl⟩ := List.mem_map.1 hr
  rfl

theorem eq_nil_of_isEmpty {α : Type} {l : List α} (h : l.isEmpty = true) : l = [] := List.isEmpty_iff.1 h

theorem ne_nil_of_not_isEmpty {α : Type} {l : List α} (h : ¬ l.isEmpty = true) : l ≠ [] :=
  fun e => h (List.isEmpty_iff.2 e)

theorem eq_nil_of_no_mem {α : Type} {l : List α} (h : ∀ x, x ∉ l) : l = [] := by
  cases l with
  | nil => rfl
  | cons a b => exact absurd (List.mem_cons_self ..) (h a)

/-- a computed edge into a node without weights holds the placeholder of that node -/
theorem raw_of_nil (g : G) (st : AState) (hD : InvD g st) (r : ERef) (e : WEdge) (he : edgeAt g r = some e)
    (hnt : isTerminal (nodeType g e.dst) = false) (hne : aget r st.edgeW ≠ []) (hnil : aget e.dst st.nodeW = []) :
    Keys (aget r st.edgeW) ("R#" ++ e.dst) := by
  rcases hD.rule r e he hnt hne with hok | hraw
  · exfalso
    apply hne
    apply nil_of_wget_none
    intro k
    rw [hok k, hnil]; rfl
  · rw [← wget_isSome_iff_keys, hraw ("R#" ++ e.dst)]
    simp

/-! ### the dependency folds of `calcEdgeWith` -/
theorem addDeps_W (r : ERef) : ∀ (l : List String) (s : AState),
    (l.foldl (fun st n => addDep n r st) s).nodeWild = s.nodeWild ∧
    (l.foldl (fun st n => addDep n r st) s).edgeWild = s.edgeWild ∧
    ∀ m r', r' ∈ aget m (l.foldl (fun st n => addDep n r st) s).deps → r' ∈ aget m s.deps ∨ (r' = r ∧ m ∈ l)
  | [], s => ⟨rfl, rfl, fun _ _ h => Or.inl h⟩
  | x :: l, s => by
    obtain ⟨h1, h2, h3⟩ := addDeps_W r l (addDep x r s)
    rw [List.foldl_cons]
    refine ⟨h1, h2, ?_⟩
    intro m r' h
    rcases h3 m r' h with h | ⟨h, h'⟩
    · rcases (mem_addDep _ _ _ _ _).1 h with h | ⟨h, h'⟩
      · exact Or.inl h
      · exact Or.inr ⟨h', h ▸ List.mem_cons_self ..⟩
    · exact Or.inr ⟨h, List.mem_cons_of_mem _ h'⟩

theorem scan_false_W (r : ERef) : ∀ (toW : WMap) (acc : List String × AState),
    (toW.foldl (scanStep false r) acc).2.nodeWild = acc.2.nodeWild ∧
    (toW.foldl (scanStep false r) acc).2.edgeWild = acc.2.edgeWild ∧
    (∀ x ∈ (toW.foldl (scanStep false r) acc).1, x ∈ acc.1 ∨ ∃ kv ∈ toW, isPH kv.1 = true ∧ x = phNode kv.1) ∧
    (∀ m r', r' ∈ aget m (toW.foldl (scanStep false r) acc).2.deps →
      r' ∈ aget m acc.2.deps ∨ (r' = r ∧ ∃ kv ∈ toW, isPH kv.1 = true ∧ m = phNode kv.1))
  | [], acc => ⟨rfl, rfl, fun _ h => Or.inl h, fun _ _ h => Or.inl h⟩
  | kv :: rest, acc => by
    obtain ⟨h1, h2, h3, h4⟩ := scan_false_W r rest (scanStep false r acc kv)
    simp only [List.foldl_cons]
    by_cases hp : isPH kv.1 = true
    · have hstep : scanStep false r acc kv = (acc.1 ++ [phNode kv.1], addDep (phNode kv.1) r acc.2) := by
        unfold scanStep
        rw [show kv.1.startsWith "R#" = true from hp]
        rfl
      rw [hstep] at h1 h2 h3 h4 ⊢
      refine ⟨h1, h2, ?_, ?_⟩
      · intro x hx
        rcases h3 x hx with h | ⟨kv', hkv', hp', hx'⟩
        · rcases List.mem_append.1 h with h | h
          · exact Or.inl h
          · simp only [List.mem_singleton] at h
            exact Or.inr ⟨kv, List.mem_cons_self .., hp, h⟩
        · exact Or.inr ⟨kv', List.mem_cons_of_mem _ hkv', hp', hx'⟩
      · intro m r' h
        rcases h4 m r' h with h | ⟨h, kv', hkv', hp', hx'⟩
        · rcases (mem_addDep _ _ _ _ _).1 h with h | ⟨h, h'⟩
          · exact Or.inl h
          · exact Or.inr ⟨h', kv, List.mem_cons_self .., hp, h⟩
        · exact Or.inr ⟨h, kv', List.mem_cons_of_mem _ hkv', hp', hx'⟩
    · have hstep : scanStep false r acc kv = acc := by
        unfold scanStep
        have : kv.1.startsWith "R#" = false := by simpa using hp
        rw [this]
        simp
      rw [hstep] at h1 h2 h3 h4 ⊢
      refine ⟨h1, h2, ?_, ?_⟩
      · intro x hx
        rcases h3 x hx with h | ⟨kv', hkv', hp', hx'⟩
        · exact Or.inl h
        · exact Or.inr ⟨kv', List.mem_cons_of_mem _ hkv', hp', hx'⟩
      · intro m r' h
        rcases h4 m r' h with h | ⟨h, kv', hkv', hp', hx'⟩
        · exact Or.inl h
        · exact Or.inr ⟨h, kv', List.mem_cons_of_mem _ hkv', hp', hx'⟩

/-! ### writing the weights of an edge -/
/-- writing the weights `w` of the not yet computed edge `r` (node `r.1` in progress), after recording its
    dependencies on the nodes of `M` -/
theorem write_edge_W (g : G) (st stD st' : AState) (r : ERef) (w : WMap) (M : String → Prop) (hW : InvW g [] st)
    (hempty : aget r st.edgeW = []) (hnil : aget r.1 st.nodeW = []) (hre : r ∈ edgeRefs g r.1)
    (hN : stD.nodeW = st.nodeW) (hE : stD.edgeW = st.edgeW) (hV : stD.visited = st.visited)
    (hNW : stD.nodeWild = st.nodeWild) (hEW : stD.edgeWild = st.edgeWild)
    (hmono : ∀ m r', r' ∈ aget m st.deps → r' ∈ aget m stD.deps)
    (hnew : ∀ m r', r' ∈ aget m stD.deps → r' ∈ aget m st.deps ∨ (r' = r ∧ M m))
    (hms : ∀ m, M m → m ∈ st.visited ∧ Keys w ("R#" ++ m))
    (hN' : st'.nodeW = stD.nodeW) (hE' : st'.edgeW = aset r w stD.edgeW) (hV' : st'.visited = stD.visited)
    (hD' : st'.deps = stD.deps) (hNW' : st'.nodeWild = stD.nodeWild) (hEW' : st'.edgeWild = stD.edgeWild) :
    InvW g [r] st' ∧ RelW st st' ∧ aget r st'.edgeWild = [] ∧ aget r.1 st'.nodeW = [] ∧ aget r st'.edgeW = w := by
  have hself : aget r st'.edgeW = w := by rw [hE', aget_aset_self]
  have hne : ∀ r', r' ≠ r → aget r' st'.edgeW = aget r' st.edgeW := by
    intro r' h; rw [hE', aget_aset_ne _ _ _ h, hE]
  have eN : st'.nodeW = st.nodeW := hN'.trans hN
  have eV : st'.visited = st.visited := hV'.trans hV
  have eNW : st'.nodeWild = st.nodeWild := hNW'.trans hNW
  have eEW : st'.edgeWild = st.edgeWild := hEW'.trans hEW
  have hwr : aget r st'.edgeWild = [] := by rw [eEW]; exact hW.u r hempty
  have hnr : aget r.1 st'.nodeW = [] := by rw [eN]; exact hnil
  refine ⟨⟨?_, ?_, ?_, ?_, ?_, ?_, ?_⟩, ⟨?_⟩, hwr, hnr, hself⟩
  · intro m r' hr'
    rw [hD'] at hr'
    rcases hnew m r' hr' with h | ⟨h, hm⟩
    · have hk := hW.kc m r' h
      have e : r' ≠ r := by
        intro e; subst e; rw [hempty] at hk; exact keys_nil _ hk
      rw [hne r' e]; exact hk
    · subst h; rw [hself]; exact (hms m hm).2
  · intro m r' hr'
    rw [hD'] at hr'
    rw [eV]
    rcases hnew m r' hr' with h | ⟨_, hm⟩
    · exact hW.dv m r' h
    · exact (hms m hm).1
  · intro r' k hk hp hnn
    by_cases e : r' = r
    · subst e; exact absurd hnr hnn
    · rw [hne r' e] at hk
      rw [eN] at hnn ⊢
      exact hW.nc r' k hk hp hnn
  · intro r' hnn
    by_cases e : r' = r
    · subst e; exact hre
    · rw [hne r' e] at hnn; exact hW.re r' hnn
  · intro r' hnn
    by_cases e : r' = r
    · subst e; exact hwr
    · rw [hne r' e] at hnn; rw [eEW]; exact hW.u r' hnn
  · intro r' e' he' hnt hnn T hT
    by_cases e : r' = r
    · subst e; rw [hwr] at hT; cases hT
    · rw [hne r' e] at hnn
      rw [eEW] at hT
      rw [eNW]
      exact hW.a1 r' e' he' hnt hnn T hT
  · intro r' e' hex he' hnt hnn T hT
    have e : r' ≠ r := fun e => hex (by simp [e])
    rw [hne r' e] at hnn ⊢
    rw [eNW] at hT ⊢
    rw [eEW]
    exact hW.a2 r' e' (by simp) he' hnt hnn T hT
  · intro m _ r' hr'
    rw [hD']; exact hmono m r' hr'

/-! ### `calcEdgeWith` -/
theorem calcEdgeWith_W (g : G) (hs : SrcOK g) (rec : String → List WEdge → AState → Res) (hrecB : RecB rec)
    (hrecD : RecD g rec) (hrecW : RecW g rec) (r : ERef) (e : WEdge) (path : List WEdge) (st : AState) (hI : Inv2 st)
    (hD : InvD g st) (hW : InvW g [] st) (he : edgeAt g r = some e) (hnt : isTerminal (nodeType g e.dst) = false)
    (hempty : aget r st.edgeW = []) (hv : r.1 ∈ st.visited) (hnil : aget r.1 st.nodeW = [])
    (tc : List String) (st' : AState) (h : calcEdgeWith rec g r e path st = ((tc, none), st')) :
    InvW g [r] st' ∧ RelW st st' ∧ (∀ m ∈ tc, m ∈ st'.visited) ∧ (∀ m ∈ tc, r ∈ aget m st'.deps) ∧
    aget r st'.edgeWild = [] ∧ aget r.1 st'.nodeW = [] ∧ aget r st'.edgeW ≠ [] := by
  have hre := mem_edgeRefs_of_edgeAt g r e he
  have hsrc : e.src = r.1 := hs r e he
  rw [calcEdgeWith_eq] at h
  split at h
  · rename_i hse
    have hsd : e.src = e.dst := by simpa using hse
    simp only [Prod.mk.injEq] at h
    obtain ⟨⟨rfl, _⟩, rfl⟩ := h
    obtain ⟨a, b, c, d, f⟩ := write_edge_W g st (addDep e.dst r st)
      (addDep e.dst r { st with edgeW := aset r [("R#" ++ e.dst, infinite)] st.edgeW })
      r [("R#" ++ e.dst, infinite)] (fun m => m = e.dst) hW hempty hnil hre rfl rfl rfl rfl rfl
      (fun m r' h => (mem_addDep _ _ _ _ _).2 (Or.inl h))
      (fun m r' h => by
        rcases (mem_addDep _ _ _ _ _).1 h with h | ⟨h, h'⟩
        · exact Or.inl h
        · exact Or.inr ⟨h', h⟩)
      (fun m hm => by
        subst hm
        exact ⟨hsd ▸ hsrc ▸ hv, infinite, List.mem_singleton.2 rfl⟩)
      rfl rfl rfl rfl rfl rfl
    refine ⟨a, b, ?_, ?_, c, d, by rw [f]; simp⟩
    · intro m hm
      simp only [List.mem_singleton] at hm
      subst hm
      show e.src ∈ st.visited
      rw [hsrc]; exact hv
    · intro m hm
      simp only [List.mem_singleton] at hm
      subst hm
      exact (mem_addDep _ _ _ _ _).2 (Or.inr ⟨hsd, rfl⟩)
  · split at h
    · simp at h
    · rename_i tc1 st1 heq
      obtain ⟨hI1, hR1, hvis1⟩ := hrecB e.dst (path ++ [e]) st hI tc1 st1 heq
      obtain ⟨hD1, hRD1⟩ := hrecD e.dst (path ++ [e]) st hI hD tc1 st1 heq
      obtain ⟨hW1, hRW1, hv1, hdst1, hfr1⟩ := hrecW e.dst (path ++ [e]) st hI hD hW tc1 st1 heq
      have hempty1 : aget r st1.edgeW = [] := hR1.ee r hv (by simp) hempty
      have hrv1 : r.1 ∈ st1.visited := hR1.vm _ hv
      have hnil1 : aget r.1 st1.nodeW = [] := hRD1.en r.1 hv hnil
      have hdv1 : e.dst ∈ st1.visited := hdst1 hnt
      split at h
      · rename_i hemp
        have hdnil : aget e.dst st1.nodeW = [] := eq_nil_of_isEmpty hemp
        have htc1 : tc1 = [] := by
          by_cases hdv : e.dst ∈ st.visited
          · exact hvis1 hdv
          · exact (hfr1 hdv).2 hdnil
        split at h
        · simp only [Prod.mk.injEq] at h
          obtain ⟨⟨rfl, _⟩, rfl⟩ := h
          subst htc1
          obtain ⟨a, b, c, d, f⟩ := write_edge_W g st1 (addDep e.dst r st1)
            (addDep e.dst r { st1 with edgeW := aset r [("R#" ++ e.dst, infinite)] st1.edgeW })
            r [("R#" ++ e.dst, infinite)] (fun m => m = e.dst) hW1 hempty1 hnil1 hre rfl rfl rfl rfl rfl
            (fun m r' h => (mem_addDep _ _ _ _ _).2 (Or.inl h))
            (fun m r' h => by
              rcases (mem_addDep _ _ _ _ _).1 h with h | ⟨h, h'⟩
              · exact Or.inl h
              · exact Or.inr ⟨h', h⟩)
            (fun m hm => by
              subst hm
              exact ⟨hdv1, infinite, List.mem_singleton.2 rfl⟩)
            rfl rfl rfl rfl rfl rfl
          refine ⟨a, hRW1.trans b hR1.vm, ?_, ?_, c, d, by rw [f]; simp⟩
          · intro m hm
            simp only [List.nil_append, List.mem_singleton] at hm
            subst hm
            exact hdv1
          · intro m hm
            simp only [List.nil_append, List.mem_singleton] at hm
            subst hm
            exact (mem_addDep _ _ _ _ _).2 (Or.inr ⟨rfl, rfl⟩)
        · simp at h
      · rename_i hne
        have htoW : aget e.dst st1.nodeW ≠ [] := ne_nil_of_not_isEmpty hne
        simp only [Prod.mk.injEq] at h
        obtain ⟨⟨rfl, _⟩, rfl⟩ := h
        cases htc : tc1 with
        | nil =>
          subst htc
          simp only [List.isEmpty_nil, Bool.not_true, Bool.false_eq_true, if_false]
          obtain ⟨s1, s2, s3⟩ := scan_false r (aget e.dst st1.nodeW) ([], st1)
          obtain ⟨t1, t2, t3, t4⟩ := scan_false_W r (aget e.dst st1.nodeW) ([], st1)
          obtain ⟨sc, hsc⟩ : ∃ s, s = (aget e.dst st1.nodeW).foldl (scanStep false r) ([], st1) := ⟨_, rfl⟩
          rw [← hsc] at s1 s2 s3 t1 t2 t3 t4 ⊢
          -- a placeholder key of the target names a visited node
          have hkv : ∀ kv ∈ aget e.dst st1.nodeW, isPH kv.1 = true → phNode kv.1 ∈ st1.visited := by
            intro kv hkv hp
            obtain ⟨r0, _, hk0⟩ := hI1.i3 e.dst kv.1 ⟨kv.2, hkv⟩ hp
            exact hW1.dv _ r0 (hI1.i1 r0 kv.1 hk0 hp)
          obtain ⟨a, b, c, d, f⟩ := write_edge_W g st1 sc.2
            { sc.2 with edgeW := aset r (edgeCopy e (aget e.dst st1.nodeW)) sc.2.edgeW }
            r (edgeCopy e (aget e.dst st1.nodeW))
            (fun m => ∃ kv ∈ aget e.dst st1.nodeW, isPH kv.1 = true ∧ m = phNode kv.1)
            hW1 hempty1 hnil1 hre s1.nodeW s1.edgeW s1.visited t1 t2 s1.mono t4
            (fun m hm => by
              obtain ⟨kv, hkv', hp, rfl⟩ := hm
              refine ⟨hkv kv hkv' hp, ?_⟩
              rw [← eq_mk_of_isPH kv.1 hp, keys_edgeCopy_iff]
              exact ⟨kv.2, hkv'⟩)
            rfl rfl rfl rfl rfl rfl
          refine ⟨a, hRW1.trans b hR1.vm, ?_, ?_, c, d, by rw [f]; exact edgeCopy_ne e _ htoW⟩
          · intro m hm
            show m ∈ sc.2.visited
            rw [s1.visited]
            rcases t3 m hm with h | ⟨kv, hkv', hp, rfl⟩
            · cases h
            · exact hkv kv hkv' hp
          · intro m hm
            show r ∈ aget m sc.2.deps
            rcases t3 m hm with h | ⟨kv, hkv', hp, rfl⟩
            · cases h
            · exact (s3 kv hkv' hp).2
        | cons x xs =>
          rw [← htc]
          have hne1 : (!tc1.isEmpty) = true := by rw [htc]; rfl
          simp only [hne1, if_true, scan_true]
          obtain ⟨a1, a2⟩ := addDeps_ext r tc1 st1
          obtain ⟨b1, b2, b3⟩ := addDeps_W r tc1 st1
          have hdnv : e.dst ∉ st.visited := by
            intro hdv
            have := hvis1 hdv
            rw [htc] at this; cases this
          obtain ⟨hfr, _⟩ := hfr1 hdnv
          obtain ⟨a, b, c, d, f⟩ := write_edge_W g st1 (tc1.foldl (fun st n => addDep n r st) st1)
            { (tc1.foldl (fun st n => addDep n r st) st1) with
              edgeW := aset r (edgeCopy e (aget e.dst st1.nodeW)) (tc1.foldl (fun st n => addDep n r st) st1).edgeW }
            r (edgeCopy e (aget e.dst st1.nodeW)) (fun m => m ∈ tc1)
            hW1 hempty1 hnil1 hre a1.nodeW a1.edgeW a1.visited b1 b2 a1.mono b3
            (fun m hm => by
              refine ⟨hv1 m hm, ?_⟩
              obtain ⟨r0, hr0, hd0⟩ := hfr m hm
              have hk0 := hW1.kc m r0 hd0
              rw [keys_edgeCopy_iff, ← hr0]
              exact hW1.nc r0 _ hk0 (isPH_mk m) (by rw [hr0]; exact htoW))
            rfl rfl rfl rfl rfl rfl
          refine ⟨a, hRW1.trans b hR1.vm, ?_, ?_, c, d, by rw [f]; exact edgeCopy_ne e _ htoW⟩
          · intro m hm
            show m ∈ (tc1.foldl (fun st n => addDep n r st) st1).visited
            rw [a1.visited]; exact hv1 m hm
          · intro m hm
            exact a2 m hm

/-! ### the wildcards of the edge just computed -/
theorem after_edge_W (g : G) (stC : AState) (r : ERef) (e : WEdge) (nodeID : String)
    (he : edgeAt g r = some e) (hnt : isTerminal (nodeType g e.dst) = false) (hDC : InvD g stC)
    (hWC : InvW g [r] stC) (hwild : aget r stC.edgeWild = []) (hnilC : aget nodeID stC.nodeW = [])
    (hne : aget r stC.edgeW ≠ []) :
    InvW g [] (addEdgeWildcardsToNode nodeID r (calculateEdgeWildcards e.dst r stC)) := by
  have hEW : ∀ r' T, T ∈ aget r' (addEdgeWildcardsToNode nodeID r (calculateEdgeWildcards e.dst r stC)).edgeWild ↔
      T ∈ aget r' stC.edgeWild ∨ (r' = r ∧ T ∈ aget e.dst stC.nodeWild) := by
    intro r' T
    rw [addEdgeWildcardsToNode_edgeWild]
    exact mem_calculateEdgeWildcards e.dst r stC hwild r' T
  have hNW : ∀ N T, T ∈ aget N (addEdgeWildcardsToNode nodeID r (calculateEdgeWildcards e.dst r stC)).nodeWild ↔
      T ∈ aget N stC.nodeWild ∨ (N = nodeID ∧ (T ∈ aget r stC.edgeWild ∨ T ∈ aget e.dst stC.nodeWild)) := by
    intro N T
    rw [mem_addEdgeWildcardsToNode, calculateEdgeWildcards_nodeWild, mem_calculateEdgeWildcards e.dst r stC hwild r T]
    simp
  refine ⟨?_, ?_, ?_, ?_, ?_, ?_, ?_⟩
  · simp only [addEdgeWildcardsToNode_deps, calculateEdgeWildcards_deps, addEdgeWildcardsToNode_edgeW,
      calculateEdgeWildcards_edgeW]
    exact hWC.kc
  · simp only [addEdgeWildcardsToNode_deps, calculateEdgeWildcards_deps, addEdgeWildcardsToNode_visited,
      calculateEdgeWildcards_visited]
    exact hWC.dv
  · simp only [addEdgeWildcardsToNode_nodeW, calculateEdgeWildcards_nodeW, addEdgeWildcardsToNode_edgeW,
      calculateEdgeWildcards_edgeW]
    exact hWC.nc
  · simp only [addEdgeWildcardsToNode_edgeW, calculateEdgeWildcards_edgeW]
    exact hWC.re
  · intro r' hnn
    simp only [addEdgeWildcardsToNode_edgeW, calculateEdgeWildcards_edgeW] at hnn
    apply eq_nil_of_no_mem
    intro T hT
    rcases (hEW r' T).1 hT with h | ⟨h, _⟩
    · rw [hWC.u r' hnn] at h; cases h
    · subst h; exact hne hnn
  · intro r' e' he' hnt' hnn T hT
    simp only [addEdgeWildcardsToNode_edgeW, calculateEdgeWildcards_edgeW] at hnn
    rw [hNW]
    rcases (hEW r' T).1 hT with h | ⟨h, h'⟩
    · exact Or.inl (hWC.a1 r' e' he' hnt' hnn T h)
    · subst h
      have := same_edge he he'; subst this
      exact Or.inl h'
  · intro r' e' _ he' hnt' hnn T hT
    simp only [addEdgeWildcardsToNode_edgeW, calculateEdgeWildcards_edgeW] at hnn ⊢
    by_cases er : r' = r
    · subst er
      have := same_edge he he'; subst this
      left
      rw [hEW]
      rcases (hNW _ T).1 hT with h | ⟨_, h | h⟩
      · exact Or.inr ⟨rfl, h⟩
      · exact Or.inl h
      · exact Or.inr ⟨rfl, h⟩
    · rcases (hNW _ T).1 hT with h | ⟨hd, h⟩
      · rcases hWC.a2 r' e' (by simp [er]) he' hnt' hnn T h with h | ⟨m, hk, hm⟩
        · exact Or.inl ((hEW r' T).2 (Or.inl h))
        · exact Or.inr ⟨m, hk, (hNW m T).2 (Or.inl hm)⟩
      · right
        refine ⟨nodeID, ?_, (hNW nodeID T).2 (Or.inr ⟨rfl, h⟩)⟩
        rw [← hd]
        exact raw_of_nil g stC hDC r' e' he' hnt' hnn (by rw [hd]; exact hnilC)

/-- an edge into a terminal type -/
theorem term_edge_W (g : G) (st stW st' : AState) (r : ERef) (e : WEdge) (nodeID : String) (w : WMap) (hr1 : r.1 = nodeID)
    (he : edgeAt g r = some e) (hterm : isTerminal (nodeType g e.dst) = true)
    (hD : InvD g st) (hW : InvW g [] st) (hempty : aget r st.edgeW = []) (hnil : aget nodeID st.nodeW = [])
    (hw : w ≠ [])
    (cN : stW.nodeW = st.nodeW) (cE : stW.edgeW = st.edgeW) (cV : stW.visited = st.visited) (cD : stW.deps = st.deps)
    (cEW : ∀ r', r' ≠ r → ∀ T, T ∈ aget r' stW.edgeWild ↔ T ∈ aget r' st.edgeWild)
    (cNW : ∀ N T, T ∈ aget N st.nodeWild → T ∈ aget N stW.nodeWild)
    (cNW' : ∀ N T, T ∈ aget N stW.nodeWild → T ∈ aget N st.nodeWild ∨ N = nodeID)
    (hN' : st'.nodeW = stW.nodeW) (hE' : st'.edgeW = aset r w stW.edgeW) (hV' : st'.visited = stW.visited)
    (hD' : st'.deps = stW.deps) (hNW' : st'.nodeWild = stW.nodeWild) (hEW' : st'.edgeWild = stW.edgeWild) :
    InvW g [] st' ∧ RelW st st' := by
  have hself : aget r st'.edgeW = w := by rw [hE', aget_aset_self]
  have hne : ∀ r', r' ≠ r → aget r' st'.edgeW = aget r' st.edgeW := by
    intro r' h; rw [hE', aget_aset_ne _ _ _ h, cE]
  have eN : st'.nodeW = st.nodeW := hN'.trans cN
  have eV : st'.visited = st.visited := hV'.trans cV
  have eD : st'.deps = st.deps := hD'.trans cD
  have notr : ∀ r' e', edgeAt g r' = some e' → isTerminal (nodeType g e'.dst) = false → r' ≠ r := by
    intro r' e' he' hnt er
    subst er
    have := same_edge he he'; subst this
    rw [hterm] at hnt; cases hnt
  refine ⟨⟨?_, ?_, ?_, ?_, ?_, ?_, ?_⟩, ⟨?_⟩⟩
  · intro m r' hr'
    rw [eD] at hr'
    have hk := hW.kc m r' hr'
    have er : r' ≠ r := by
      intro er; subst er; rw [hempty] at hk; exact keys_nil _ hk
    rw [hne r' er]; exact hk
  · intro m r' hr'
    rw [eD] at hr'; rw [eV]; exact hW.dv m r' hr'
  · intro r' k hk hp hnn
    by_cases er : r' = r
    · subst er
      rw [eN, hr1] at hnn
      exact absurd hnil hnn
    · rw [hne r' er] at hk
      rw [eN] at hnn ⊢
      exact hW.nc r' k hk hp hnn
  · intro r' hnn
    by_cases er : r' = r
    · subst er; exact mem_edgeRefs_of_edgeAt g r' e he
    · rw [hne r' er] at hnn; exact hW.re r' hnn
  · intro r' hnn
    by_cases er : r' = r
    · subst er; rw [hself] at hnn; exact absurd hnn hw
    · rw [hne r' er] at hnn
      apply eq_nil_of_no_mem
      intro T hT
      rw [hEW', cEW r' er, hW.u r' hnn] at hT
      cases hT
  · intro r' e' he' hnt hnn T hT
    have er := notr r' e' he' hnt
    rw [hne r' er] at hnn
    rw [hEW', cEW r' er] at hT
    rw [hNW']
    exact cNW _ T (hW.a1 r' e' he' hnt hnn T hT)
  · intro r' e' _ he' hnt hnn T hT
    have er := notr r' e' he' hnt
    rw [hne r' er] at hnn ⊢
    rw [hNW'] at hT ⊢
    rw [hEW', cEW r' er]
    rcases cNW' _ T hT with h | hd
    · rcases hW.a2 r' e' (by simp) he' hnt hnn T h with h | ⟨m, hk, hm⟩
      · exact Or.inl h
      · exact Or.inr ⟨m, hk, cNW m T hm⟩
    · right
      refine ⟨nodeID, ?_, hd ▸ hT⟩
      rw [← hd]
      exact raw_of_nil g st hD r' e' he' hnt hnn (by rw [hd]; exact hnil)
  · intro m _ r' hr'
    rw [eD]; exact hr'

theorem termW_frame (b : Bool) (ul nodeID : String) (r : ERef) (st stW : AState)
    (hstW : stW = if b = true then addEdgeWildcardsToNode nodeID r (addWildcardToEdge ul r st) else st) :
    (∀ r', r' ≠ r → ∀ T, T ∈ aget r' stW.edgeWild ↔ T ∈ aget r' st.edgeWild) ∧
    (∀ N T, T ∈ aget N st.nodeWild → T ∈ aget N stW.nodeWild) ∧
    (∀ N T, T ∈ aget N stW.nodeWild → T ∈ aget N st.nodeWild ∨ N = nodeID) := by
  cases b with
  | false =>
    simp only [Bool.false_eq_true, if_false] at hstW
    subst hstW
    exact ⟨fun _ _ _ => Iff.rfl, fun _ _ h => h, fun _ _ h => Or.inl h⟩
  | true =>
    simp only [if_true] at hstW
    subst hstW
    refine ⟨?_, ?_, ?_⟩
    · intro r' er T
      rw [addEdgeWildcardsToNode_edgeWild, mem_addWildcardToEdge]
      simp [er]
    · intro N T h
      rw [mem_addEdgeWildcardsToNode, addWildcardToEdge_nodeWild]
      exact Or.inl h
    · intro N T h
      rw [mem_addEdgeWildcardsToNode, addWildcardToEdge_nodeWild] at h
      rcases h with h | ⟨h, _⟩
      · exact Or.inl h
      · exact Or.inr h

/-! ### the loop over the edges of a node -/
theorem edgeLoop_W (g : G) (hn : NoPHTypes g) (hs : SrcOK g) (rec : String → List WEdge → AState → Res) (hrecB : RecB rec)
    (hrecD : RecD g rec) (hrecW : RecW g rec) (nodeID : String) (path : List WEdge) :
    ∀ (es : List (ERef × WEdge)) (tcs : List String) (st : AState),
      Inv2 st → InvD g st → InvW g [] st → nodeID ∈ st.visited → aget nodeID st.nodeW = [] →
      (∀ p ∈ es, p.1.1 = nodeID ∧ p.2 ∈ edgesOf g nodeID) → (∀ p ∈ es, edgeAt g p.1 = some p.2) →
      (∀ m ∈ tcs, m ∈ st.visited ∧ ∃ r : ERef, r.1 = nodeID ∧ r ∈ aget m st.deps) →
      ∀ tcs' st', edgeLoop rec g nodeID path es tcs st = ((tcs', none), st') →
        InvW g [] st' ∧ RelW st st' ∧ (∀ m ∈ tcs', m ∈ st'.visited ∧ ∃ r : ERef, r.1 = nodeID ∧ r ∈ aget m st'.deps)
  | [], tcs, st, _, _, hW, _, _, _, _, htcs, tcs', st', h => by
    simp only [edgeLoop, Prod.mk.injEq] at h
    obtain ⟨⟨rfl, _⟩, rfl⟩ := h
    exact ⟨hW, RelW.refl _, htcs⟩
  | (r, e) :: rest, tcs, st, hI, hD, hW, hv, hnil, hes, hat, htcs, tcs', st', h => by
    have hre := hes (r, e) (List.mem_cons_self ..)
    have hrest : ∀ p ∈ rest, p.1.1 = nodeID ∧ p.2 ∈ edgesOf g nodeID := fun p hp => hes p (List.mem_cons_of_mem _ hp)
    have hatr : ∀ p ∈ rest, edgeAt g p.1 = some p.2 := fun p hp => hat p (List.mem_cons_of_mem _ hp)
    have he : edgeAt g r = some e := hat (r, e) (List.mem_cons_self ..)
    have hr1 : r.1 = nodeID := hre.1
    unfold edgeLoop at h
    split at h
    · exact edgeLoop_W g hn hs rec hrecB hrecD hrecW nodeID path rest tcs st hI hD hW hv hnil hrest hatr htcs tcs' st' h
    · rename_i hemp
      have hempty : aget r st.edgeW = [] := by
        cases hh : aget r st.edgeW with
        | nil => rfl
        | cons a b => rw [hh] at hemp; simp at hemp
      simp only at h
      split at h
      · rename_i hterm
        obtain ⟨stW, hstW⟩ : ∃ s : AState, s = (if (nodeType g e.dst == NodeType.wildcard) = true then
            addEdgeWildcardsToNode nodeID r (addWildcardToEdge
              (if (nodeType g e.dst == NodeType.wildcard) = true then (e.dst.dropEnd 2).toString else e.dst) r st) else st) :=
          ⟨_, rfl⟩
        rw [← hstW] at h
        have cN : stW.nodeW = st.nodeW := by rw [hstW]; split <;> simp
        have cE : stW.edgeW = st.edgeW := by rw [hstW]; split <;> simp
        have cV : stW.visited = st.visited := by rw [hstW]; split <;> simp
        have cD : stW.deps = st.deps := by rw [hstW]; split <;> simp
        obtain ⟨cEW, cNW, cNW'⟩ := termW_frame _ _ nodeID r st stW hstW
        have hw := write_edge st stW { stW with edgeW := aset r [(termKey g e.dst, 1)] stW.edgeW } r [(termKey g e.dst, 1)] []
          hI hempty (hr1 ▸ hv) cN cE cV (fun m r' h => cD ▸ h) (fun m r' h => Or.inl (cD ▸ h))
          (fun p hp => Or.inl ⟨p, cD ▸ hp, rfl⟩) (by
            intro k ⟨v, hk⟩ hp
            simp only [List.mem_singleton, Prod.mk.injEq] at hk
            obtain ⟨rfl, _⟩ := hk
            rw [hn nodeID e hre.2 hterm] at hp
            cases hp) rfl rfl rfl rfl
        obtain ⟨a, b⟩ := write_edge_D g st { stW with edgeW := aset r [(termKey g e.dst, 1)] stW.edgeW } r e
          [(termKey g e.dst, 1)] [] hD cN (by show aset r _ stW.edgeW = _; rw [cE]) he (sortedM_single _ _) (fun _ => rfl)
          (fun ht => by rw [hterm] at ht; cases ht)
        obtain ⟨c, d⟩ := term_edge_W g st stW { stW with edgeW := aset r [(termKey g e.dst, 1)] stW.edgeW } r e nodeID
          [(termKey g e.dst, 1)] hr1 he hterm hD hW hempty hnil (by simp) cN cE cV cD cEW cNW cNW' rfl rfl rfl rfl rfl rfl
        have hv' : nodeID ∈ ({ stW with edgeW := aset r [(termKey g e.dst, 1)] stW.edgeW } : AState).visited := by
          show nodeID ∈ stW.visited
          rw [cV]; exact hv
        have hnil' : aget nodeID ({ stW with edgeW := aset r [(termKey g e.dst, 1)] stW.edgeW } : AState).nodeW = [] := by
          show aget nodeID stW.nodeW = []
          rw [cN]; exact hnil
        have htcs' : ∀ m ∈ tcs, m ∈ ({ stW with edgeW := aset r [(termKey g e.dst, 1)] stW.edgeW } : AState).visited ∧
            ∃ r0 : ERef, r0.1 = nodeID ∧
              r0 ∈ aget m ({ stW with edgeW := aset r [(termKey g e.dst, 1)] stW.edgeW } : AState).deps := by
          intro m hm
          show m ∈ stW.visited ∧ ∃ r0 : ERef, r0.1 = nodeID ∧ r0 ∈ aget m stW.deps
          rw [cV, cD]; exact htcs m hm
        obtain ⟨i1, i2, i3⟩ := edgeLoop_W g hn hs rec hrecB hrecD hrecW nodeID path rest tcs _ hw.1 a c hv' hnil' hrest hatr
          htcs' tcs' st' h
        exact ⟨i1, d.trans i2 hw.2.vm, i3⟩
      · rename_i hterm
        have hnt : isTerminal (nodeType g e.dst) = false := by simpa using hterm
        split at h
        · simp at h
        · rename_i heq
          obtain ⟨tc, htc⟩ : ∃ t, t = (calcEdgeWith rec g r e path st).1.1 := ⟨_, rfl⟩
          obtain ⟨stC, hstC⟩ : ∃ s, s = (calcEdgeWith rec g r e path st).2 := ⟨_, rfl⟩
          have heq' : calcEdgeWith rec g r e path st = ((tc, none), stC) := by
            rw [htc, hstC]; exact Prod.ext (Prod.ext rfl heq) rfl
          rw [← htc, ← hstC] at h
          obtain ⟨hIC, hRC⟩ := calcEdgeWith_B g rec hrecB r e path st hI hempty (hr1 ▸ hv) tc stC heq'
          obtain ⟨hDC, hRDC⟩ := calcEdgeWith_D g rec hrecB hrecD r e path st hI hD he hnt tc stC heq'
          obtain ⟨hWC, hRWC, htcv, htcd, hwildC, hnilC, hneC⟩ := calcEdgeWith_W g hs rec hrecB hrecD hrecW r e path st hI hD hW
            he hnt hempty (hr1 ▸ hv) (hr1 ▸ hnil) tc stC heq'
          rw [hr1] at hnilC
          have hIC' : Inv2 (addEdgeWildcardsToNode nodeID r (calculateEdgeWildcards e.dst r stC)) :=
            hIC.of_core (by simp) (by simp) (by simp) (by simp)
          have hDC' : InvD g (addEdgeWildcardsToNode nodeID r (calculateEdgeWildcards e.dst r stC)) :=
            hDC.of_core (by simp) (by simp)
          have hWC' : InvW g [] (addEdgeWildcardsToNode nodeID r (calculateEdgeWildcards e.dst r stC)) :=
            after_edge_W g stC r e nodeID he hnt hDC hWC hwildC hnilC hneC
          have hRWC' : RelW st (addEdgeWildcardsToNode nodeID r (calculateEdgeWildcards e.dst r stC)) := by
            refine ⟨?_⟩
            simp only [addEdgeWildcardsToNode_deps, calculateEdgeWildcards_deps]
            exact hRWC.dm
          have hv' : nodeID ∈ (addEdgeWildcardsToNode nodeID r (calculateEdgeWildcards e.dst r stC)).visited := by
            simp only [addEdgeWildcardsToNode_visited, calculateEdgeWildcards_visited]
            exact hRC.vm _ hv
          have hvm : ∀ v ∈ st.visited, v ∈ (addEdgeWildcardsToNode nodeID r (calculateEdgeWildcards e.dst r stC)).visited := by
            intro v hvv
            simp only [addEdgeWildcardsToNode_visited, calculateEdgeWildcards_visited]
            exact hRC.vm _ hvv
          have hnil' : aget nodeID (addEdgeWildcardsToNode nodeID r (calculateEdgeWildcards e.dst r stC)).nodeW = [] := by
            simp only [addEdgeWildcardsToNode_nodeW, calculateEdgeWildcards_nodeW]
            exact hnilC
          have htcs' : ∀ m ∈ tcs ++ tc, m ∈ (addEdgeWildcardsToNode nodeID r (calculateEdgeWildcards e.dst r stC)).visited ∧
              ∃ r0 : ERef, r0.1 = nodeID ∧
                r0 ∈ aget m (addEdgeWildcardsToNode nodeID r (calculateEdgeWildcards e.dst r stC)).deps := by
            intro m hm
            simp only [addEdgeWildcardsToNode_visited, calculateEdgeWildcards_visited, addEdgeWildcardsToNode_deps,
              calculateEdgeWildcards_deps]
            rcases List.mem_append.1 hm with hm | hm
            · obtain ⟨h1, r0, h2, h3⟩ := htcs m hm
              exact ⟨hRC.vm _ h1, r0, h2, hRWC.dm m h1 r0 h3⟩
            · exact ⟨htcv m hm, r, hr1, htcd m hm⟩
          obtain ⟨j1, j2, j3⟩ := edgeLoop_W g hn hs rec hrecB hrecD hrecW nodeID path rest (tcs ++ tc) _ hIC' hDC' hWC' hv' hnil'
            hrest hatr htcs' tcs' st' h
          exact ⟨j1, hRWC'.trans j2 hvm, j3⟩

/-! ### `calcNode` -/
theorem calcNode_W (g : G) (hn : NoPHTypes g) (hs : SrcOK g) : ∀ (fuel : Nat), RecW g (calcNode fuel g)
  | 0 => by
    intro n path st _ _ _ tc st' h
    simp [calcNode] at h
  | fuel+1 => by
    intro n path st hI hD hW tc st' h
    unfold calcNode at h
    split at h
    · rename_i hc
      have hnv : n ∈ st.visited := List.contains_iff_mem.1 hc
      simp only [Prod.mk.injEq] at h
      obtain ⟨⟨rfl, _⟩, rfl⟩ := h
      exact ⟨hW, RelW.refl _, fun _ hm => (by cases hm), fun _ => hnv, fun hf => absurd hnv hf⟩
    · split at h
      · rename_i hc hterm
        simp only [Prod.mk.injEq] at h
        obtain ⟨⟨rfl, _⟩, rfl⟩ := h
        exact ⟨hW, RelW.refl _, fun _ hm => (by cases hm), fun hnt => (by rw [hterm] at hnt; cases hnt),
          fun _ => ⟨fun _ hm => (by cases hm), fun _ => rfl⟩⟩
      · rename_i hc _
        have hfresh : n ∉ st.visited := fun hh => hc (List.contains_iff_mem.2 hh)
        have hnil0 : aget n st.nodeW = [] := by
          cases hh : aget n st.nodeW with
          | nil => rfl
          | cons a b => exact absurd (hI.v2 n (by rw [hh]; simp)) hfresh
        simp only at h
        have hI0 : Inv2 { st with visited := n :: st.visited } :=
          ⟨hI.i1, hI.i3, fun r hr => List.mem_cons_of_mem _ (hI.v1 r hr), fun N hN => List.mem_cons_of_mem _ (hI.v2 N hN),
            fun m r hr => List.mem_cons_of_mem _ (hI.v3 m r hr)⟩
        have hD0 : InvD g { st with visited := n :: st.visited } := hD.of_core rfl rfl
        have hW0 : InvW g [] { st with visited := n :: st.visited } :=
          ⟨hW.kc, fun m r hr => List.mem_cons_of_mem _ (hW.dv m r hr), hW.nc, hW.re, hW.u, hW.a1, hW.a2⟩
        split at h
        · simp at h
        · rename_i tcs stL heq
          obtain ⟨hIL, hRL, _⟩ := edgeLoop_B g hn (calcNode fuel g) (calcNode_B g hn fuel) n path _ [] _ hI0
            (List.mem_cons_self ..) (mem_refs g n) tcs stL heq
          obtain ⟨hDL, hRDL⟩ := edgeLoop_D g hn (calcNode fuel g) (calcNode_B g hn fuel) (calcNode_D g hn fuel) n path _ [] _ hI0 hD0
            (List.mem_cons_self ..) (mem_refs g n) (refs_edgeAt g n) tcs stL heq
          obtain ⟨hWL, hRWL, htL⟩ := edgeLoop_W g hn hs (calcNode fuel g) (calcNode_B g hn fuel) (calcNode_D g hn fuel)
            (calcNode_W g hn hs fuel) n path _ [] _ hI0 hD0 hW0 (List.mem_cons_self ..) hnil0 (mem_refs g n) (refs_edgeAt g n)
            (fun m hm => by cases hm) tcs stL heq
          have hnilL : aget n stL.nodeW = [] := hRDL.en n (List.mem_cons_self ..) hnil0
          have hR : Rel2 [] st stL tcs :=
            ⟨hRL.ce, hRL.cn, hRL.cd, fun v hv => hRL.vm v (List.mem_cons_of_mem _ hv),
              fun r hr _ he => hRL.ee r (List.mem_cons_of_mem _ hr) (by
                intro hx; simp at hx; exact hfresh (hx ▸ hr)) he⟩
          have hnv : n ∈ stL.visited := hRL.vm n (List.mem_cons_self ..)
          have hRW : RelW st stL := ⟨fun m hm r hr => hRWL.dm m (List.mem_cons_of_mem _ hm) r hr⟩
          rcases fromTheEdges_casesW g n tcs stL with ⟨t, e, s, hcs⟩ | ⟨hcs, ht⟩ | ⟨w, hcs, hw, hlow⟩ | ⟨hcs, hne⟩
          · rw [hcs] at h; simp at h
          · rw [hcs] at h
            simp only [Prod.mk.injEq] at h
            obtain ⟨⟨rfl, _⟩, rfl⟩ := h
            exact ⟨hWL, hRW, fun m hm => (htL m hm).1, fun _ => hnv, fun _ => ⟨fun m hm => (htL m hm).2, fun _ => ht⟩⟩
          · -- the weights of `n` are written
            have hnc : ∀ (r : ERef) k, Keys (aget r stL.edgeW) k → isPH k = true → aget r.1 (aset n w stL.nodeW) ≠ [] →
                Keys (aget r.1 (aset n w stL.nodeW)) k := by
              intro r k hk hp hnn
              by_cases er : r.1 = n
              · rw [er, aget_aset_self]
                rcases hlow with ht | hlow
                · rcases hR.ce r k hk hp with h | h
                  · exact absurd (er ▸ hI.v1 r (ne_nil_of_keys h)) hfresh
                  · rw [ht] at h; cases h
                · exact hlow r (er ▸ hWL.re r (ne_nil_of_keys hk)) k hk
              · rw [aget_aset_ne _ _ _ er] at hnn ⊢
                exact hWL.nc r k hk hp hnn
            have hlast : aget n (aset n w stL.nodeW) = [] → tcs = [] := by
              intro hwnil
              rw [aget_aset_self] at hwnil
              rcases hlow with ht | hlow
              · exact ht
              · cases htc : tcs with
                | nil => rfl
                | cons m ms =>
                  obtain ⟨_, r0, hr0, hd0⟩ := htL m (by rw [htc]; exact List.mem_cons_self ..)
                  have hk0 := hWL.kc m r0 hd0
                  have := hlow r0 (hr0 ▸ hWL.re r0 (ne_nil_of_keys hk0)) _ hk0
                  rw [hwnil] at this
                  exact absurd this (keys_nil _)
            rw [hcs] at h
            simp only [Prod.mk.injEq] at h
            obtain ⟨⟨rfl, _⟩, rfl⟩ := h
            exact ⟨⟨hWL.kc, hWL.dv, hnc, hWL.re, hWL.u, hWL.a1, hWL.a2⟩, ⟨hRW.dm⟩, fun m hm => (htL m hm).1, fun _ => hnv,
              fun _ => ⟨fun m hm => (htL m hm).2, hlast⟩⟩
          · -- the resolution of the cycle through `n`
            obtain ⟨c1, c2, c3⟩ := cafFinal_W g hn n stL hIL hDL hWL hnilL hne
            rw [hcs] at h
            simp only [Prod.mk.injEq] at h
            obtain ⟨⟨rfl, _⟩, rfl⟩ := h
            refine ⟨c1, ⟨?_⟩, ?_, ?_, ?_⟩
            · intro m hm r hr
              exact c2 m (fun e => hfresh (e ▸ hm)) r (hRW.dm m hm r hr)
            · intro m hm
              rw [cafFinal_visited]
              exact (htL m (List.mem_filter.1 hm).1).1
            · intro _
              rw [cafFinal_visited]; exact hnv
            · intro _
              refine ⟨?_, fun h => absurd h c3⟩
              intro m hm
              obtain ⟨hm1, hm2⟩ := List.mem_filter.1 hm
              have hmn : m ≠ n := by simpa using hm2
              obtain ⟨_, r0, hr0, hd0⟩ := htL m hm1
              exact ⟨r0, hr0, c2 m hmn r0 hd0⟩

/-! ### the driver -/
theorem invW_init (g : G) : InvW g [] {} :=
  ⟨fun m r h => (by cases h), fun m r h => (by cases h), fun r k hk => absurd hk (keys_nil k), fun r h => absurd rfl h,
    fun r _ => rfl, fun r e _ _ h => absurd rfl h, fun r e _ _ _ h => absurd rfl h⟩

theorem go_W (g : G) (hn : NoPHTypes g) (hs : SrcOK g) : ∀ (ns : List String) (st st' : AState), Inv2 st → InvD g st →
    InvW g [] st → assignWeights.go g ns st = .ok st' → InvW g [] st'
  | [], st, st', _, _, hW, heq => by
    simp only [assignWeights.go] at heq
    cases heq; exact hW
  | n :: ns, st, st', hI, hD, hW, heq => by
    unfold assignWeights.go at heq
    split at heq
    · exact go_W g hn hs ns st st' hI hD hW heq
    · split at heq
      · cases heq
      · rename_i tcs st2 hres
        split at heq
        · cases heq
        · obtain ⟨hI2, _, _⟩ := calcNode_B g hn (g.nodes.length + 1) n [] st hI tcs st2 hres
          obtain ⟨hD2, _⟩ := calcNode_D g hn (g.nodes.length + 1) n [] st hI hD tcs st2 hres
          obtain ⟨hW2, _⟩ := calcNode_W g hn hs (g.nodes.length + 1) n [] st hI hD hW tcs st2 hres
          exact go_W g hn hs ns st2 st' hI2 hD2 hW2 heq

/-- **the edge clause**: after a successful assignment, the wildcard list of every edge of a visited node that ends
    in a relation or an operator is, as a set, the wildcard list of its target -/
theorem assignWeights_edge_wild (g : G) (hn : NoPHTypes g) (hs : SrcOK g) (order : List String) (st : AState)
    (h : assignWeights g order = .ok st) (v : String) (hv : v ∈ st.visited) (i : Nat) (e : WEdge)
    (he : (edgesOf g v)[i]? = some e) (hnt : isTerminal (nodeType g e.dst) = false) :
    ∀ T, T ∈ aget (v, i) st.edgeWild ↔ T ∈ aget e.dst st.nodeWild := by
  have hclean := assignWeights_clean g hn order st h
  have hr : (v, i) ∈ edgeRefs g v := by
    unfold edgeRefs
    refine List.mem_map.2 ⟨i, ?_, rfl⟩
    rw [List.mem_range]
    exact (List.getElem?_eq_some_iff.1 he).1
  have hne : aget (v, i) st.edgeW ≠ [] := (assignWeights_nonempty g order st h).2.2.2 v hv (v, i) hr
  have hat : edgeAt g (v, i) = some e := he
  have hW : InvW g [] st := by
    unfold assignWeights at h
    split at h
    · cases h
    · exact go_W g hn hs _ {} st inv2_init (invD_init g) (invW_init g) h
  intro T
  constructor
  · exact hW.a1 (v, i) e hat hnt hne T
  · intro hT
    rcases hW.a2 (v, i) e (by simp) hat hnt hne T hT with h1 | ⟨m, hk, _⟩
    · exact h1
    · have := hclean.edge (v, i) _ hk
      rw [isPH_mk] at this
      cases this

/-! ### §5 the reachability reading, complete direction -/

/-- a wildcard node of type `T` is reached from `v` along edges, every intermediate node being a relation or an
    operator (terminal nodes are never entered by the algorithm; in a built graph they have no edges) -/
inductive WildPath (g : G) : String → String → Prop
  | direct {v w T : String} : EStep g v w → IsWild g w T → WildPath g v T
  | via {v d T : String} : EStep g v d → isTerminal (nodeType g d) = false → WildPath g d T → WildPath g v T

/-- terminal nodes (types and `T:*`) have no outgoing edges -/
def TermSink (g : G) : Prop := ∀ n, isTerminal (nodeType g n) = true → edgesOf g n = []

def termSinkB (g : G) : Bool := g.edges.all (fun p => !(isTerminal (nodeType g p.1)) || p.2.isEmpty)

theorem termSinkB_sound (g : G) (h : termSinkB g = true) : TermSink g := by
  intro n hn
  unfold edgesOf
  split
  · rename_i k es hf
    have hmem := List.mem_of_find?_eq_some hf
    have hk : k = n := by simpa using List.find?_some hf
    unfold termSinkB at h
    rw [List.all_eq_true] at h
    have h1 := h _ hmem
    simp only [hk, hn, Bool.not_true, Bool.false_or] at h1
    exact List.isEmpty_iff.1 h1
  · rfl

theorem wildPath_of_reaches (g : G) (hts : TermSink g) (v T : String) (h : ReachesWild g v T) : WildPath g v T := by
  obtain ⟨d, hs, w, hp, hw⟩ := h
  induction hp generalizing v with
  | refl a => exact WildPath.direct hs hw
  | step hs' hp' ih =>
    rename_i a b c
    have hnt : isTerminal (nodeType g a) = false := by
      cases hh : isTerminal (nodeType g a) with
      | false => rfl
      | true =>
        obtain ⟨e, he, _⟩ := hs'
        rw [hts a hh] at he
        cases he
    exact WildPath.via hs hnt (ih a hs' hw)

theorem reaches_of_wildPath (g : G) (v T : String) (h : WildPath g v T) : ReachesWild g v T := by
  induction h with
  | direct hs hw => exact ⟨_, hs, _, EPath.refl _, hw⟩
  | via hs _ _ ih => exact ⟨_, hs, ih.wildFrom⟩

theorem exists_index_of_step {g : G} {v d : String} (h : EStep g v d) :
    ∃ (i : Nat) (e : WEdge), (edgesOf g v)[i]? = some e ∧ e.dst = d := by
  obtain ⟨e, he, hd⟩ := h
  obtain ⟨i, hi⟩ := List.getElem?_of_mem he
  exact ⟨i, e, hi, hd⟩

/-- the induction on paths, from the three clauses -/
theorem complete_of_clauses (g : G) (st : AState)
    (hN : ∀ v T, T ∈ aget v st.nodeWild ↔ ∃ r : ERef, r.1 = v ∧ T ∈ aget r st.edgeWild)
    (hT : ∀ v ∈ st.visited, ∀ i e, (edgesOf g v)[i]? = some e → nodeType g e.dst = .wildcard →
      aget (v, i) st.edgeWild = [(e.dst.dropEnd 2).toString])
    (hE : ∀ v ∈ st.visited, ∀ i e, (edgesOf g v)[i]? = some e → isTerminal (nodeType g e.dst) = false →
      ∀ T, T ∈ aget (v, i) st.edgeWild ↔ T ∈ aget e.dst st.nodeWild)
    (hV : ∀ d, isTerminal (nodeType g d) = false → d ∈ st.visited)
    (v T : String) (hp : WildPath g v T) (hv : v ∈ st.visited) : T ∈ aget v st.nodeWild := by
  induction hp with
  | direct hs hw =>
    rename_i v w T
    obtain ⟨i, e, hi, hd⟩ := exists_index_of_step hs
    subst hd
    refine (hN v T).2 ⟨(v, i), rfl, ?_⟩
    rw [hT v hv i e hi hw.1, hw.2]
    simp
  | via hs hnt hp' ih =>
    rename_i v d T
    obtain ⟨i, e, hi, hd⟩ := exists_index_of_step hs
    subst hd
    refine (hN v T).2 ⟨(v, i), rfl, ?_⟩
    exact (hE v hv i e hi hnt T).2 (ih (hV _ hnt))

/-- a node that is not terminal is a node of the graph -/
theorem mem_nodes_of_nonterminal (g : G) (d : String) (h : isTerminal (nodeType g d) = false) :
    ∃ n ∈ g.nodes, n.uniqueLabel = d := by
  unfold nodeType at h
  cases hh : g.node? d with
  | none => rw [hh] at h; exact absurd h (by decide)
  | some n =>
    unfold G.node? at hh
    exact ⟨n, List.mem_of_find?_eq_some hh, by simpa using List.find?_some hh⟩

/-! ### §6 the clauses together -/

/-- the invariant of the edge clause holds in the final state -/
theorem assignWeights_invW (g : G) (hn : NoPHTypes g) (hs : SrcOK g) (order : List String) (st : AState)
    (h : assignWeights g order = .ok st) : InvW g [] st := by
  unfold assignWeights at h
  split at h
  · cases h
  · exact go_W g hn hs _ {} st inv2_init (invD_init g) (invW_init g) h

/-- only edges of the graph (an index below the number of edges of the node) carry wildcards, and only edges with
    weights do: the `i` of the node clause is a real edge -/
theorem assignWeights_edgeWild_support (g : G) (hn : NoPHTypes g) (hs : SrcOK g) (order : List String) (st : AState)
    (h : assignWeights g order = .ok st) (v : String) (i : Nat) (hne : aget (v, i) st.edgeWild ≠ []) :
    i < (edgesOf g v).length ∧ aget (v, i) st.edgeW ≠ [] := by
  have hW := assignWeights_invW g hn hs order st h
  have hw : aget (v, i) st.edgeW ≠ [] := fun hh => hne (hW.u (v, i) hh)
  refine ⟨?_, hw⟩
  have := hW.re (v, i) hw
  unfold edgeRefs at this
  obtain ⟨j, hj, he⟩ := List.mem_map.1 this
  simp only [Prod.mk.injEq, true_and] at he
  subst he
  exact List.mem_range.1 hj

/-- **R (complete).** every wildcard node `T:*` that can be reached from a visited node through relations and operators
    is listed — for every node kind: the intersection and exclusion strategies do not prune wildcard lists -/
theorem assignWeights_wild_complete (g : G) (hn : NoPHTypes g) (hs : SrcOK g) (order : List String) (st : AState)
    (h : assignWeights g order = .ok st) (v : String) (hv : v ∈ st.visited) (T : String) (hp : WildPath g v T) :
    T ∈ aget v st.nodeWild := by
  refine complete_of_clauses g st (assignWeights_node_wild g order st h)
    (fun v hv i e he hw => (assignWeights_terminal_edge_wild g order st h v hv i e he).1 hw)
    (fun v hv i e he hnt => assignWeights_edge_wild g hn hs order st h v hv i e he hnt) ?_ v T hp hv
  intro d hd
  obtain ⟨n, hmem, rfl⟩ := mem_nodes_of_nonterminal g d hd
  exact (assignWeights_visited g order st h).1 n hmem hd

/-- **R (exact).** on a graph whose terminal nodes have no outgoing edges, the wildcard list of a visited node is exactly
    the set of types `T` such that a wildcard node `T:*` is reachable by following edges -/
theorem assignWeights_wild_exact (g : G) (hn : NoPHTypes g) (hs : SrcOK g) (hts : TermSink g) (order : List String)
    (st : AState) (h : assignWeights g order = .ok st) (v : String) (hv : v ∈ st.visited) (T : String) :
    T ∈ aget v st.nodeWild ↔ ReachesWild g v T :=
  ⟨fun hT => (assignWeights_wild_sound g hn order st h).1 v T hT,
    fun hr => assignWeights_wild_complete g hn hs order st h v hv T (wildPath_of_reaches g hts v T hr)⟩

end FgaVerif.Model.WAssign
