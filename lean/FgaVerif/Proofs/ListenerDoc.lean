import FgaVerif.Model.CstDoc
import FgaVerif.Proofs.Listener
import FgaVerif.Proofs.ListenerErrors
import FgaVerif.Proofs.AList
import FgaVerif.Proofs.ErasePos
/-! The listener port computes, for every typed CST of a **whole document** (`Model/CstDoc.lean`)
    that is well formed, exactly the model the document denotes — whatever its layout.  Built on
    `walk_decl` (`Proofs/Listener.lean`). -/
namespace FgaVerif.Model.Cst
open FgaVerif.Model FgaVerif.Model.Listener

/-! ### small facts -/

theorem nodupB_cons (x : String) (xs : List String) :
    nodupB (x :: xs) = true ↔ (∀ y ∈ xs, (y == x) = false) ∧ nodupB xs = true := by
  simp only [nodupB, Bool.and_eq_true, Bool.not_eq_true', List.contains_eq_mem, decide_eq_false_iff_not]
  constructor
  · rintro ⟨h1, h2⟩
    refine ⟨fun y hy => ?_, h2⟩
    have : y ≠ x := fun e => h1 (e ▸ hy)
    simpa using this
  · rintro ⟨h1, h2⟩
    refine ⟨fun hx => ?_, h2⟩
    have := h1 x hx
    simp at this

theorem insert_ne_nil (k : String) (v : α) (m : List (String × α)) : AList.insert k v m ≠ [] := by
  cases m with
  | nil => simp [AList.insert]
  | cons kv rest =>
    obtain ⟨k', v'⟩ := kv
    simp only [AList.insert]
    split
    · simp
    · split <;> simp

theorem isTok_ident (ty : String) (i : Ident) : Tree.isTok ty i.tree = false := by
  unfold Ident.tree; split <;> rfl
theorem isTok_decl (ty : String) (d : Decl) : Tree.isTok ty (Decl.tree d) = false := rfl
theorem isTok_tokT (ty a b : String) : Tree.isTok ty (tokT a b) = (a == ty) := rfl
theorem isTok_nl (ty s : String) : Tree.isTok ty (nl s) = ("NEWLINE" == ty) := rfl

/-! ### typeDef -/

theorem typeDef_label (t : TypeDefCst) : t.tree.label? "typeName" = some t.name.tree := by
  obtain ⟨nl0, ext, w1, name, rels⟩ := t
  cases ext <;>
    simp [TypeDefCst.tree, TypeDefCst.nameIdx, TypeDefCst.children, TypeDefCst.extendTrees, Tree.label?, Tree.labels,
      Tree.findLabel, Tree.children]

theorem find_extend_decls (ds : List Decl) : (ds.map Decl.tree).find? (Tree.isTok "EXTEND") = none := by
  rw [List.find?_eq_none]
  intro x hx
  obtain ⟨d, _, rfl⟩ := List.mem_map.1 hx
  simp [isTok_decl]

theorem typeDef_extend (t : TypeDefCst) : (t.tree.childTok? "EXTEND").isSome = t.extend.isSome := by
  obtain ⟨nl0, ext, w1, name, rels⟩ := t
  cases ext with
  | some w =>
    simp [TypeDefCst.tree, TypeDefCst.children, TypeDefCst.extendTrees, Tree.childTok?, Tree.children, List.find?,
      isTok_nl, isTok_tokT]
  | none =>
    cases rels with
    | none =>
      simp [TypeDefCst.tree, TypeDefCst.children, TypeDefCst.extendTrees, TypeDefCst.relTrees, Tree.childTok?,
        Tree.children, List.find?, isTok_nl, isTok_tokT, isTok_ws, isTok_ident]
    | some r =>
      obtain ⟨n, d, ds⟩ := r
      simp [TypeDefCst.tree, TypeDefCst.children, TypeDefCst.extendTrees, TypeDefCst.relTrees, Tree.childTok?,
        Tree.children, List.find?, isTok_nl, isTok_tokT, isTok_ws, isTok_ident, isTok_decl]


/-- a fresh relation name: the declaration is recorded and nothing is logged -/
theorem walk_decl_fresh (pe) (d : Decl) (hd : d.body.wf = true) (st : LState) (td : TypeDef) (m : TypeMeta)
    (htd : st.currentTypeDef = some td) (hm : td.md = some m)
    (hfresh : AList.contains d.name.text td.relations = false) :
    walk pe (Decl.tree d) st =
      .ok { st with currentTypeDef := some (declTypeDef pe d st td m), currentRelation := none,
                    rewriteStack := some [] } := by
  rw [walk_decl pe d hd st td m htd hm]
  simp [declResult, hfresh, inRel, declTypeDef]

/-- the module recorded on a relation: the module name for the relations of an `extend`ed type in
    a module file -/
def relModuleOf (pe : Option Bool) (st : LState) : String :=
  if st.isModular && pe.getD false then st.moduleName else ""

/-- the type definition under construction: name, relations so far, relation metadata so far, module -/
def tdOf (name : String) (r : List (String × Userset)) (m : List (String × RelMeta)) (tm : String) : TypeDef :=
  { name := name, relations := r, md := some { relations := m, module := tm } }

theorem relsFrom_cons (d : DeclContent) (ds) (acc) :
    relsFrom (d :: ds) acc = relsFrom ds (AList.insert d.name d.den acc) := rfl
theorem metasFrom_cons (rm : String) (d : DeclContent) (ds) (acc) :
    metasFrom rm (d :: ds) acc = metasFrom rm ds (AList.insert d.name (d.relMeta rm) acc) := rfl

/-- walking one or more declarations with pairwise distinct, fresh names -/
theorem walkL_decls (pe) (ds : List Decl) : ∀ (d : Decl) (st : LState) (name : String) (r : List (String × Userset))
    (m : List (String × RelMeta)) (tm : String),
    st.currentTypeDef = some (tdOf name r m tm) →
    (∀ x ∈ d :: ds, x.body.wf = true) →
    (∀ x ∈ d :: ds, AList.contains x.name.text r = false) →
    nodupB ((d :: ds).map (fun x => x.name.text)) = true →
    walkL pe ((d :: ds).map Decl.tree) st =
      .ok { st with
        currentTypeDef := some (tdOf name (relsFrom ((d :: ds).map Decl.content) r)
          (metasFrom (relModuleOf pe st) ((d :: ds).map Decl.content) m) tm),
        currentRelation := none, rewriteStack := some [] } := by
  induction ds with
  | nil =>
    intro d st name r m tm htd hwf hfresh _
    have h1 := walk_decl_fresh pe d (hwf d (by simp)) st _ _ htd rfl (hfresh d (by simp))
    simp only [List.map_cons, List.map_nil, walkL, h1]
    simp [declTypeDef, tdOf, relsFrom, metasFrom, Decl.content, DeclContent.relMeta, relModuleOf, tiAfter]
  | cons d2 ds ih =>
    intro d st name r m tm htd hwf hfresh hnd
    have h1 := walk_decl_fresh pe d (hwf d (by simp)) st _ _ htd rfl (hfresh d (by simp))
    rw [List.map_cons, walkL, h1]
    simp only
    rw [List.map_cons, nodupB_cons] at hnd
    have hstep : declTypeDef pe d st (tdOf name r m tm) { relations := m, module := tm } =
        tdOf name (AList.insert d.name.text (Def.den d.body) r)
          (AList.insert d.name.text ((Decl.content d).relMeta (relModuleOf pe st)) m) tm := by
      simp [declTypeDef, tdOf, Decl.content, DeclContent.relMeta, relModuleOf, tiAfter]
    rw [ih d2 _ name _ _ tm (by rw [hstep]) (fun x hx => hwf x (List.mem_cons_of_mem _ hx))
      (fun x hx => by
        rw [AList.contains_insert, hfresh x (List.mem_cons_of_mem _ hx), Bool.or_false]
        exact hnd.1 _ (List.mem_map.2 ⟨x, hx, rfl⟩)) hnd.2]
    simp [relsFrom_cons, metasFrom_cons, Decl.content, relModuleOf]


/-- well-formedness of one type definition: bodies, non-empty name, distinct relation names -/
def TypeDefCst.wf (t : TypeDefCst) : Bool := t.bodiesWf && t.content.wf

/-- the state after walking a type definition -/
def typeDefResult (t : TypeDefCst) (st : LState) : LState :=
  { st with
    types := st.types ++ [t.content.den st.isModular st.moduleName],
    currentTypeDef := none,
    currentRelation := if t.rels.isSome then none else st.currentRelation,
    rewriteStack := if t.rels.isSome then some [] else st.rewriteStack,
    typeDefExtensions :=
      if t.extend.isSome && st.isModular then st.typeDefExtensions.map (AList.insert t.name.text st.types.length)
      else st.typeDefExtensions }

theorem walk_typeDef_unfold (pe) (t : TypeDefCst) (st : LState) :
    walk pe t.tree st =
      (match enterTypeDef t.tree st with
       | .error p => .error p
       | .ok st1 =>
         match walkL (some t.extend.isSome) t.children st1 with
         | .error p => .error p
         | .ok st2 => exitTypeDef t.tree st2) := by
  have hx := typeDef_extend t
  unfold TypeDefCst.tree at hx ⊢
  rw [walk_rule_eq]
  simp only [enter_typeDef, exit_typeDef, childPe, hx, beq_self_eq_true, if_true]
  rfl

theorem walkL_extendTrees (pe) (t : TypeDefCst) (st : LState) : walkL pe t.extendTrees st = .ok st := by
  unfold TypeDefCst.extendTrees
  cases t.extend <;> simp [walkL]

/-- the children of a typeDef node: only the declarations act -/
theorem walkL_typeDef_children (pe) (t : TypeDefCst) (st : LState) (tm : String)
    (htd : st.currentTypeDef = some (tdOf t.name.text [] [] tm)) (hwf : t.wf = true) :
    walkL pe t.children st =
      .ok (if t.rels.isSome then
            { st with
              currentTypeDef := some (tdOf t.name.text (relsFrom t.content.decls [])
                (metasFrom (relModuleOf pe st) t.content.decls []) tm),
              currentRelation := none, rewriteStack := some [] }
           else st) := by
  obtain ⟨nl0, ext, w1, name, rels⟩ := t
  simp only [TypeDefCst.wf, TypeDefCst.bodiesWf, TypeContent.wf, TypeDefCst.content, TypeDefCst.decls,
    Bool.and_eq_true, List.all_eq_true] at hwf
  simp only [TypeDefCst.children, walkL, walk_nl, walkL_append, walkL_extendTrees, walk_tokT, walk_ws, walk_ident]
  cases rels with
  | none => simp [TypeDefCst.relTrees, walkL]
  | some x =>
    obtain ⟨n, d, ds⟩ := x
    simp only [TypeDefCst.relTrees, walkL, walk_nl, walk_tokT]
    rw [walkL_decls pe ds d st name.text [] [] tm htd (fun x hx => hwf.1 x hx) (fun _ _ => rfl)
      (by simpa [List.map_map, Decl.content, Function.comp_def] using hwf.2.2)]
    simp [TypeDefCst.content, TypeDefCst.decls]


theorem metasFrom_ne_nil (rm : String) (ds : List DeclContent) (acc : List (String × RelMeta))
    (h : ds ≠ [] ∨ acc ≠ []) : metasFrom rm ds acc ≠ [] := by
  induction ds generalizing acc with
  | nil => simpa [metasFrom] using h
  | cons d ds ih => rw [metasFrom_cons]; exact ih _ (Or.inr (insert_ne_nil _ _ _))

theorem enterTypeDef_typeDef (t : TypeDefCst) (st : LState)
    (hext : t.extend.isSome = true → st.isModular = true) :
    enterTypeDef t.tree st =
      .ok { st with currentTypeDef := some (tdOf t.name.text [] [] (if st.isModular then st.moduleName else "")) } := by
  unfold enterTypeDef
  rw [typeDef_label, typeDef_extend]
  cases he : t.extend.isSome
  · simp [tdOf]
  · have := hext he
    simp [this, tdOf]

/-- **walk_typeDef.**  Walking the parse tree of a well-formed type definition (distinct relation
    names, non-empty type name, well-formed bodies) — an `extend` one only in a module file in which
    the type is not yet extended — appends exactly the denoted type definition to `types`, records
    the extension, logs nothing and leaves `currentTypeDef` empty. -/
theorem walk_typeDef (pe) (t : TypeDefCst) (st : LState) (hwf : t.wf = true)
    (hext : t.extend.isSome = true → st.isModular = true ∧
      ∃ exts, st.typeDefExtensions = some exts ∧ AList.contains t.name.text exts = false) :
    walk pe t.tree st = .ok (typeDefResult t st) := by
  rw [walk_typeDef_unfold, enterTypeDef_typeDef t st (fun h => (hext h).1)]
  simp only
  rw [walkL_typeDef_children _ t _ _ rfl hwf]
  simp only
  have hname : (t.name.text == "") = false := by
    simp only [TypeDefCst.wf, TypeContent.wf, TypeDefCst.content, Bool.and_eq_true] at hwf
    simpa using hwf.2.1
  unfold exitTypeDef
  rw [typeDef_extend]
  obtain ⟨nl0, ext, w1, name, rels⟩ := t
  cases rels with
  | none =>
    cases ext with
    | none =>
      cases hmod : st.isModular <;>
        simp [typeDefResult, tdOf, hname, TypeDefCst.content, TypeDefCst.decls, TypeContent.den, relsFrom, metasFrom,
          hmod]
    | some w =>
      obtain ⟨hmod, exts, hexts, hc⟩ := hext rfl
      simp only at hc
      simp [typeDefResult, tdOf, hname, TypeDefCst.content, TypeDefCst.decls, TypeContent.den, relsFrom, metasFrom,
          hmod, hexts, hc]
  | some x =>
    obtain ⟨n, d, ds⟩ := x
    cases ext with
    | none =>
      cases hmod : st.isModular <;>
        simp [typeDefResult, tdOf, hname, TypeDefCst.content, TypeDefCst.decls, TypeContent.den,
          hmod, relModuleOf]
      exact metasFrom_ne_nil _ _ _ (Or.inl (by simp))
    | some w =>
      obtain ⟨hmod, exts, hexts, hc⟩ := hext rfl
      simp only at hc
      simp [typeDefResult, tdOf, hname, TypeDefCst.content, TypeDefCst.decls, TypeContent.den,
          hmod, hexts, hc, relModuleOf]


/-! ### typeDef: the general case, with the errors the listener logs

    No hypothesis on the relation names or on `extend`: the walk still succeeds and records the
    denoted type definition (a repeated relation name overwrites, as the Go map write does), and the
    error log grows by exactly `typeDefErrs`. -/

def extendErr : SynErr := ⟨0, 0, "extend can only be used in a modular model"⟩
def twiceErr (name : String) : SynErr := ⟨0, 0, s!"'{name}' is already extended in file."⟩
def dupRelErr (name tname : String) : SynErr := ⟨0, 0, s!"'{name}' is already defined in '{tname}'"⟩

/-- one "already defined" error per declaration whose name was declared before in the type -/
def declErrs (tname : String) : List DeclContent → List (String × Userset) → List SynErr
  | [], _ => []
  | d :: ds, r =>
    (if AList.contains d.name r then [dupRelErr d.name tname] else []) ++
      declErrs tname ds (AList.insert d.name d.den r)

theorem ident_startPos (i : Ident) : i.tree.startPos = (0, 0) := by
  unfold Ident.tree; split <;> rfl

theorem declResult_eq (pe) (d : Decl) (st : LState) (td : TypeDef) (m : TypeMeta) :
    declResult pe d st td m =
      { st with currentTypeDef := some (declTypeDef pe d st td m), currentRelation := none,
                rewriteStack := some [],
                errors := st.errors ++
                  (if AList.contains d.name.text td.relations then [dupRelErr d.name.text td.name] else []) } := by
  cases hc : AList.contains d.name.text td.relations <;>
    simp [declResult, hc, inRel, declTypeDef, notify, dupRelErr, Tree.startPos]

theorem walkL_decls_gen (pe) (ds : List Decl) : ∀ (d : Decl) (st : LState) (name : String)
    (r : List (String × Userset)) (m : List (String × RelMeta)) (tm : String),
    st.currentTypeDef = some (tdOf name r m tm) →
    (∀ x ∈ d :: ds, x.body.wf = true) →
    walkL pe ((d :: ds).map Decl.tree) st =
      .ok { st with
        currentTypeDef := some (tdOf name (relsFrom ((d :: ds).map Decl.content) r)
          (metasFrom (relModuleOf pe st) ((d :: ds).map Decl.content) m) tm),
        currentRelation := none, rewriteStack := some [],
        errors := st.errors ++ declErrs name ((d :: ds).map Decl.content) r } := by
  induction ds with
  | nil =>
    intro d st name r m tm htd hwf
    have h1 := walk_decl pe d (hwf d (by simp)) st _ _ htd rfl
    simp only [List.map_cons, List.map_nil, walkL, h1, declResult_eq]
    simp [declTypeDef, tdOf, relsFrom, metasFrom, Decl.content, DeclContent.relMeta, relModuleOf, tiAfter, declErrs]
    rfl
  | cons d2 ds ih =>
    intro d st name r m tm htd hwf
    have h1 := walk_decl pe d (hwf d (by simp)) st _ _ htd rfl
    rw [List.map_cons, walkL, h1, declResult_eq]
    simp only
    have hstep : declTypeDef pe d st (tdOf name r m tm) { relations := m, module := tm } =
        tdOf name (AList.insert d.name.text (Def.den d.body) r)
          (AList.insert d.name.text ((Decl.content d).relMeta (relModuleOf pe st)) m) tm := by
      simp [declTypeDef, tdOf, Decl.content, DeclContent.relMeta, relModuleOf, tiAfter]
    rw [ih d2 _ name _ _ tm (by rw [hstep]) (fun x hx => hwf x (List.mem_cons_of_mem _ hx))]
    simp [relsFrom_cons, metasFrom_cons, Decl.content, relModuleOf, declErrs, tdOf]
    rfl

theorem walkL_typeDef_children_gen (pe) (t : TypeDefCst) (st : LState) (tm : String)
    (htd : st.currentTypeDef = some (tdOf t.name.text [] [] tm)) (hwf : t.bodiesWf = true) :
    walkL pe t.children st =
      .ok (if t.rels.isSome then
            { st with
              currentTypeDef := some (tdOf t.name.text (relsFrom t.content.decls [])
                (metasFrom (relModuleOf pe st) t.content.decls []) tm),
              currentRelation := none, rewriteStack := some [],
              errors := st.errors ++ declErrs t.name.text t.content.decls [] }
           else st) := by
  obtain ⟨nl0, ext, w1, name, rels⟩ := t
  simp only [TypeDefCst.bodiesWf, TypeDefCst.decls, List.all_eq_true] at hwf
  simp only [TypeDefCst.children, walkL, walk_nl, walkL_append, walkL_extendTrees, walk_tokT, walk_ws, walk_ident]
  cases rels with
  | none => simp [TypeDefCst.relTrees, walkL]
  | some x =>
    obtain ⟨n, d, ds⟩ := x
    simp only [TypeDefCst.relTrees, walkL, walk_nl, walk_tokT]
    rw [walkL_decls_gen pe ds d st name.text [] [] tm htd (fun x hx => hwf x hx)]
    simp [TypeDefCst.content, TypeDefCst.decls]

theorem enterTypeDef_typeDef_gen (t : TypeDefCst) (st : LState) :
    enterTypeDef t.tree st =
      .ok { st with
        currentTypeDef := some (tdOf t.name.text [] [] (if st.isModular then st.moduleName else "")),
        errors := st.errors ++ (if t.extend.isSome && !st.isModular then [extendErr] else []) } := by
  unfold enterTypeDef
  rw [typeDef_label, typeDef_extend]
  cases he : t.extend.isSome <;> cases hm : st.isModular <;>
    simp [tdOf, notify, extendErr, ident_startPos, hm]

/-- is the type already in the extension map -/
def alreadyExtended (t : TypeDefCst) (st : LState) : Bool :=
  match st.typeDefExtensions with
  | some e => AList.contains t.name.text e
  | none => false

/-- the errors the walk of a type definition logs -/
def typeDefErrs (t : TypeDefCst) (st : LState) : List SynErr :=
  (if t.extend.isSome && !st.isModular then [extendErr] else []) ++
  declErrs t.name.text t.content.decls [] ++
  (if t.extend.isSome && st.isModular && alreadyExtended t st then [twiceErr t.name.text] else [])

/-- the state after walking a type definition, errors included -/
def typeDefResultG (t : TypeDefCst) (st : LState) : LState :=
  { st with
    types := st.types ++ [t.content.den st.isModular st.moduleName],
    currentTypeDef := none,
    currentRelation := if t.rels.isSome then none else st.currentRelation,
    rewriteStack := if t.rels.isSome then some [] else st.rewriteStack,
    typeDefExtensions :=
      if t.extend.isSome && st.isModular && !alreadyExtended t st
      then st.typeDefExtensions.map (AList.insert t.name.text st.types.length)
      else st.typeDefExtensions,
    errors := st.errors ++ typeDefErrs t st }

/-- **walk_typeDef, general.**  Bodies well formed, non-empty type name, and (so that the Go code
    does not write to a nil map) an extension map present where `extend` is used in a module file:
    the walk succeeds, appends exactly the denoted type definition and logs exactly `typeDefErrs` —
    `extend` outside a module, relation names declared twice, a type extended twice. -/
theorem walk_typeDef_gen (pe) (t : TypeDefCst) (st : LState) (hb : t.bodiesWf = true)
    (hname : (t.name.text == "") = false)
    (hmap : t.extend.isSome = true → st.isModular = true → st.typeDefExtensions.isSome = true) :
    walk pe t.tree st = .ok (typeDefResultG t st) := by
  rw [walk_typeDef_unfold, enterTypeDef_typeDef_gen t st]
  simp only
  rw [walkL_typeDef_children_gen _ t _ _ rfl hb]
  simp only
  unfold exitTypeDef
  rw [typeDef_extend]
  have hlabel := typeDef_label t
  obtain ⟨nl0, ext, w1, name, rels⟩ := t
  simp only at hname hmap
  cases rels with
  | none =>
    cases ext with
    | none =>
      cases hmod : st.isModular <;>
        simp [typeDefResultG, typeDefErrs, tdOf, hname, TypeDefCst.content, TypeDefCst.decls, TypeContent.den, relsFrom,
          metasFrom, hmod, declErrs]
    | some w =>
      cases hmod : st.isModular
      · simp [typeDefResultG, typeDefErrs, tdOf, hname, TypeDefCst.content, TypeDefCst.decls, TypeContent.den, relsFrom,
          hmod, declErrs]
      · have := hmap rfl hmod
        cases hx : st.typeDefExtensions with
        | none => simp [hx] at this
        | some exts =>
          cases hc : AList.contains name.text exts <;>
            simp [typeDefResultG, typeDefErrs, tdOf, hname, TypeDefCst.content, TypeDefCst.decls, TypeContent.den,
              relsFrom, metasFrom, hmod, declErrs, hx, hc, alreadyExtended, hlabel, notify, twiceErr, ident_startPos]
  | some x =>
    obtain ⟨n, d, ds⟩ := x
    have hne : ∀ rm, metasFrom rm (d.content :: ds.map Decl.content) [] ≠ [] :=
      fun rm => metasFrom_ne_nil _ _ _ (Or.inl (by simp))
    cases ext with
    | none =>
      cases hmod : st.isModular <;>
        simp [typeDefResultG, typeDefErrs, tdOf, hname, TypeDefCst.content, TypeDefCst.decls, TypeContent.den,
          hmod, relModuleOf, hne]
    | some w =>
      cases hmod : st.isModular
      · simp [typeDefResultG, typeDefErrs, tdOf, hname, TypeDefCst.content, TypeDefCst.decls, TypeContent.den,
          hmod, relModuleOf, hne]
      · have := hmap rfl hmod
        cases hx : st.typeDefExtensions with
        | none => simp [hx] at this
        | some exts =>
          cases hc : AList.contains name.text exts <;>
            simp [typeDefResultG, typeDefErrs, tdOf, hname, TypeDefCst.content, TypeDefCst.decls, TypeContent.den,
              hmod, hx, hc, alreadyExtended, hlabel, notify, twiceErr, ident_startPos, relModuleOf]

/-! ### typeDefs -/

/-- the state after walking a list of type definitions -/
def typesResult (ts : List TypeDefCst) (st : LState) : LState := ts.foldl (fun s t => typeDefResult t s) st

/-- names of the `extend`ed types -/
def extNames (ts : List TypeDefCst) : List String := ((ts.map TypeDefCst.content).filter (·.extend)).map (·.name)

/-- the side condition of `walk_typeDef` for a list: `extend` only in a module file, on types not yet
    extended -/
def ExtOk (ts : List TypeDefCst) (st : LState) : Prop :=
  ∀ t ∈ ts, t.extend.isSome = true → st.isModular = true ∧
    ∃ exts, st.typeDefExtensions = some exts ∧ AList.contains t.name.text exts = false

theorem walkL_typeDefs (pe) (ts : List TypeDefCst) : ∀ (st : LState), (∀ t ∈ ts, t.wf = true) → ExtOk ts st →
    nodupB (extNames ts) = true →
    walkL pe (ts.map TypeDefCst.tree) st = .ok (typesResult ts st) := by
  induction ts with
  | nil => intro st _ _ _; rfl
  | cons t ts ih =>
    intro st hwf hext hnd
    rw [List.map_cons, walkL, walk_typeDef pe t st (hwf t (by simp)) (hext t (by simp))]
    simp only [typesResult, List.foldl_cons]
    refine ih _ (fun x hx => hwf x (List.mem_cons_of_mem _ hx)) ?_ ?_
    · intro x hx hxe
      obtain ⟨hmod, exts, hexts, hc⟩ := hext x (List.mem_cons_of_mem _ hx) hxe
      refine ⟨hmod, ?_⟩
      cases hte : t.extend.isSome
      · exact ⟨exts, by simp [typeDefResult, hte, hexts], hc⟩
      · refine ⟨AList.insert t.name.text st.types.length exts, by simp [typeDefResult, hte, hexts, hmod], ?_⟩
        rw [AList.contains_insert, hc, Bool.or_false]
        have hnd' : nodupB (t.name.text :: extNames ts) = true := by
          simpa [extNames, TypeDefCst.content, hte] using hnd
        rw [nodupB_cons] at hnd'
        refine hnd'.1 _ ?_
        simp only [extNames, List.mem_map, List.mem_filter]
        exact ⟨x.content, ⟨⟨x, hx, rfl⟩, by simpa [TypeDefCst.content] using hxe⟩, rfl⟩
    · cases hte : t.extend.isSome
      · simpa [extNames, TypeDefCst.content, hte] using hnd
      · have hnd' : nodupB (t.name.text :: extNames ts) = true := by
          simpa [extNames, TypeDefCst.content, hte] using hnd
        rw [nodupB_cons] at hnd'
        exact hnd'.2

theorem extsFrom_cons (t : TypeContent) (ts) (idx acc) :
    extsFrom (t :: ts) idx acc = extsFrom ts (idx + 1) (if t.extend then AList.insert t.name idx acc else acc) := rfl

/-- what the walk over the type definitions leaves in the fields the transform reads -/
theorem typesResult_proj (ts : List TypeDefCst) : ∀ (st : LState),
    (typesResult ts st).types = st.types ++ ts.map (fun t => t.content.den st.isModular st.moduleName) ∧
    (typesResult ts st).isModular = st.isModular ∧ (typesResult ts st).moduleName = st.moduleName ∧
    (typesResult ts st).schema = st.schema ∧ (typesResult ts st).conds = st.conds ∧
    (typesResult ts st).errors = st.errors ∧ (typesResult ts st).currentCondition = st.currentCondition ∧
    (typesResult ts st).typeDefExtensions =
      (if st.isModular then st.typeDefExtensions.map (extsFrom (ts.map TypeDefCst.content) st.types.length)
       else st.typeDefExtensions) := by
  induction ts with
  | nil => intro st; simp [typesResult, extsFrom]
  | cons t ts ih =>
    intro st
    have := ih (typeDefResult t st)
    simp only [typesResult, List.foldl_cons] at this ⊢
    obtain ⟨h1, h2, h3, h4, h5, h6, h7, h8⟩ := this
    refine ⟨?_, ?_, ?_, ?_, ?_, ?_, ?_, ?_⟩
    · rw [h1]; simp [typeDefResult]
    · rw [h2]; rfl
    · rw [h3]; rfl
    · rw [h4]; rfl
    · rw [h5]; rfl
    · rw [h6]; rfl
    · rw [h7]; rfl
    · rw [h8]
      cases hm : st.isModular <;> cases he : t.extend.isSome <;> cases hx : st.typeDefExtensions <;>
        simp [typeDefResult, hm, he, hx, extsFrom_cons, TypeDefCst.content]


/-! ### conditions -/

theorem walk_parameterName (pe) (s : String) (st : LState) :
    walk pe (.rule "parameterName" 0 0 [] [tokT "IDENTIFIER" s]) st = .ok st := by
  rw [walk_rule _ _ (by decide)]; simp [enterRule, exitRule, walkL]

theorem walk_conditionName (pe) (s : String) (st : LState) :
    walk pe (.rule "conditionName" 0 0 [] [tokT "IDENTIFIER" s]) st = .ok st := by
  rw [walk_rule _ _ (by decide)]; simp [enterRule, exitRule, walkL]

theorem walk_paramType (pe) (ty : ParamTypeCst) (st : LState) : walk pe ty.tree st = .ok st := by
  cases ty <;> (unfold ParamTypeCst.tree; rw [walk_rule _ _ (by decide)]; simp [enterRule, exitRule, walkL])

theorem isRule_paramType (ty : ParamTypeCst) : Tree.isRule "parameterType" ty.tree = true := by
  cases ty <;> rfl
theorem isRule_paramType_pn (ty : ParamTypeCst) : Tree.isRule "parameterName" ty.tree = false := by
  cases ty <;> rfl

theorem isRule_rule (n m : String) (a b : Nat) (c) (d) : Tree.isRule n (.rule m a b c d) = (m == n) := rfl
theorem isRule_tokT (n a b : String) : Tree.isRule n (tokT a b) = false := rfl
theorem isRule_ws (n a : String) : Tree.isRule n (ws a) = false := rfl
theorem isRule_nl (n a : String) : Tree.isRule n (nl a) = false := rfl

theorem param_pn (p : ParamCst) :
    p.tree.childRule? "parameterName" = some (.rule "parameterName" 0 0 [] [tokT "IDENTIFIER" p.name]) := by
  obtain ⟨nl0, name, w1, w2, ty⟩ := p
  cases nl0 <;>
    simp [ParamCst.tree, Tree.childRule?, Tree.children, optNl, isRule_nl, isRule_rule, List.find?]

theorem param_pt (p : ParamCst) : p.tree.childRule? "parameterType" = some p.ty.tree := by
  obtain ⟨nl0, name, w1, w2, ty⟩ := p
  cases nl0 <;> cases w1 <;> cases w2 <;>
    simp [ParamCst.tree, Tree.childRule?, Tree.children, optNl, optWs, isRule_nl, isRule_ws, isRule_tokT, isRule_rule,
      List.find?, isRule_paramType]

theorem walk_param (pe) (p : ParamCst) (st : LState) (c : Condition) (hc : st.currentCondition = some c)
    (hf : AList.contains p.name c.params = false) :
    walk pe p.tree st =
      .ok { st with currentCondition := some { c with params := AList.insert p.name p.ty.den c.params } } := by
  have hpn := param_pn p
  have hpt := param_pt p
  unfold ParamCst.tree at hpn hpt ⊢
  rw [walk_rule _ _ (by decide)]
  simp only [enter_conditionParameter, exit_conditionParameter, walkL_append, walkL, walkL_optNl, walkL_optWs,
    walk_parameterName, walk_tokT, walk_paramType]
  unfold exitConditionParameter
  rw [hpn, hpt]
  simp only [hc, Tree.text, Tree.textL, tokT, String.append_empty, hf, Bool.false_eq_true, if_false]
  cases p.ty <;>
    simp [ParamTypeCst.tree, ParamTypeCst.den, Tree.childTok?, Tree.children, tokT, Tree.isTok, List.find?, Tree.text,
      Tree.textL]


theorem paramsFrom_cons (x : String × CondParam) (ps) (acc) :
    paramsFrom (x :: ps) acc = paramsFrom ps (AList.insert x.1 x.2 acc) := rfl

/-- the `(COMMA WS? conditionParameter WS?)*` tail: fresh, pairwise distinct names are inserted in order -/
theorem walkL_restParams (pe) (rest : List (Option String × ParamCst × Option String)) :
    ∀ (st : LState) (c : Condition), st.currentCondition = some c →
    (∀ x ∈ rest, AList.contains x.2.1.name c.params = false) →
    nodupB (rest.map (fun x => x.2.1.name)) = true →
    walkL pe (CondCst.restTrees rest) st =
      .ok { st with
        currentCondition := some { c with params := paramsFrom (rest.map (fun x => x.2.1.content)) c.params } } := by
  induction rest with
  | nil =>
    intro st c hc _ _
    cases st; cases c
    simp_all [CondCst.restTrees, walkL, paramsFrom]
  | cons x more ih =>
    intro st c hc hf hnd
    obtain ⟨a, q, b⟩ := x
    rw [List.map_cons, nodupB_cons] at hnd
    simp only [CondCst.restTrees, walkL_append, walkL, walk_tokT, walkL_optWs,
      walk_param pe q st c hc (hf (a, q, b) (by simp))]
    rw [ih _ _ rfl (fun y hy => by
        simp only
        rw [AList.contains_insert, hf y (List.mem_cons_of_mem _ hy), Bool.or_false]
        exact hnd.1 _ (List.mem_map.2 ⟨y, hy, rfl⟩)) hnd.2]
    simp [paramsFrom_cons, ParamCst.content]

theorem walkL_exprToks (pe) (xs : List (String × String)) (st : LState) : walkL pe (xs.map exprTok) st = .ok st := by
  induction xs with
  | nil => rfl
  | cons x xs ih => simp [walkL, exprTok, ih]

theorem textL_exprToks (xs : List (String × String)) : Tree.textL (xs.map exprTok) = exprText xs := by
  induction xs with
  | nil => rfl
  | cons x xs ih => simp [Tree.textL, exprText, exprTok, tokT, Tree.text, ih]

theorem walk_exprTree (pe) (c : CondCst) (st : LState) (cc : Condition) (hc : st.currentCondition = some cc) :
    walk pe c.exprTree st =
      .ok { st with currentCondition := some { cc with expr := trimRightWs (exprText c.expr) } } := by
  unfold CondCst.exprTree
  rw [walk_rule _ _ (by decide)]
  simp [enterRule, exitRule, walkL_exprToks, exitConditionExpression, hc, Tree.text, textL_exprToks]

theorem cond_name_find (c : CondCst) :
    c.tree.childRule? "conditionName" = some (.rule "conditionName" 0 0 [] [tokT "IDENTIFIER" c.name]) := by
  simp [CondCst.tree, Tree.childRule?, Tree.children, isRule_nl, isRule_ws, isRule_tokT, isRule_rule, List.find?]

/-- the state after walking a condition -/
def condResult (c : CondCst) (st : LState) : LState :=
  { st with conds := AList.insert c.name (c.content.den st.isModular st.moduleName) st.conds,
            currentCondition := none }

/-- a listener state in which a condition is being walked -/
def inCond (base : LState) (cc : Condition) : LState := { base with currentCondition := some cc }

theorem walk_param_in (pe) (p : ParamCst) (base : LState) (c : Condition)
    (hf : AList.contains p.name c.params = false) :
    walk pe p.tree (inCond base c) =
      .ok (inCond base { c with params := AList.insert p.name p.ty.den c.params }) := by
  rw [walk_param pe p (inCond base c) c rfl hf]; rfl

theorem walkL_restParams_in (pe) (rest : List (Option String × ParamCst × Option String)) (base : LState)
    (c : Condition) (hf : ∀ x ∈ rest, AList.contains x.2.1.name c.params = false)
    (hnd : nodupB (rest.map (fun x => x.2.1.name)) = true) :
    walkL pe (CondCst.restTrees rest) (inCond base c) =
      .ok (inCond base { c with params := paramsFrom (rest.map (fun x => x.2.1.content)) c.params }) := by
  rw [walkL_restParams pe rest (inCond base c) c rfl hf hnd]; rfl

theorem walk_exprTree_in (pe) (c : CondCst) (base : LState) (cc : Condition) :
    walk pe c.exprTree (inCond base cc) = .ok (inCond base { cc with expr := trimRightWs (exprText c.expr) }) := by
  rw [walk_exprTree pe c (inCond base cc) cc rfl]; rfl

theorem enterCondition_cond (c : CondCst) (st : LState) (hnew : AList.contains c.name st.conds = false) :
    enterCondition c.tree st =
      .ok (inCond st { name := c.name, expr := "", params := [],
                       md := if st.isModular then some { module := st.moduleName } else none }) := by
  unfold enterCondition
  rw [cond_name_find]
  simp [Tree.text, Tree.textL, tokT, hnew, inCond]

theorem exitCondition_in (base : LState) (cc : Condition) :
    exitCondition (inCond base cc) = .ok { base with conds := AList.insert cc.name cc base.conds, currentCondition := none } := by
  simp [exitCondition, inCond]

/-- **walk_condition.**  Walking the parse tree of a condition whose name is new and whose parameter
    names are pairwise distinct records exactly the denoted condition (parameters inserted in order,
    expression text right-trimmed, module metadata in a module file) and logs nothing. -/
theorem walk_condition (pe) (c : CondCst) (st : LState) (hnew : AList.contains c.name st.conds = false)
    (hwf : c.content.wf = true) :
    walk pe c.tree st = .ok (condResult c st) := by
  have henter := enterCondition_cond c st hnew
  simp only [CondContent.wf, CondCst.content, CondCst.paramList, List.map_cons, List.map_map] at hwf
  rw [nodupB_cons] at hwf
  unfold CondCst.tree at henter ⊢
  rw [walk_rule _ _ (by decide)]
  simp only [enter_condition, exit_condition, henter]
  simp only [walkL_append, walkL, walk_nl, walk_ws, walk_tokT, walk_conditionName, walkL_optWs, walkL_optNl]
  rw [walk_param_in none c.first _ _ (by rfl)]
  simp only
  rw [walkL_restParams_in none c.rest _ _ (fun x hx => by
      simp only
      rw [AList.contains_insert]
      simp only [AList.contains, AList.find?, Option.isSome_none, Bool.or_false]
      exact hwf.1 _ (List.mem_map.2 ⟨x, hx, rfl⟩))
    (by simpa [Function.comp_def, ParamCst.content] using hwf.2)]
  simp only [walk_exprTree_in, exitCondition_in]
  simp [condResult, CondCst.content, CondContent.den, CondCst.paramList, paramsFrom_cons, ParamCst.content,
    Function.comp_def]


/-! ### condition: the general case, with the errors the listener logs -/

def dupCondErr (name : String) : SynErr := ⟨0, 0, s!"condition '{name}' is already defined in the model"⟩
def dupParamErr (p cname : String) : SynErr :=
  ⟨0, 0, s!"parameter '{p}' is already defined in the condition '{cname}'"⟩

/-- one "already defined" error per parameter whose name occurred before in the condition -/
def paramErrs (cname : String) : List (String × CondParam) → List (String × CondParam) → List SynErr
  | [], _ => []
  | p :: ps, acc =>
    (if AList.contains p.1 acc then [dupParamErr p.1 cname] else []) ++ paramErrs cname ps (AList.insert p.1 p.2 acc)

/-- a state in which a condition is being walked, with errors logged since `base` -/
def inCondE (base : LState) (cc : Condition) (es : List SynErr) : LState :=
  { base with currentCondition := some cc, errors := base.errors ++ es }

theorem walk_param_gen (pe) (p : ParamCst) (st : LState) (c : Condition) (hc : st.currentCondition = some c) :
    walk pe p.tree st =
      .ok { st with
        currentCondition := some { c with params := AList.insert p.name p.ty.den c.params },
        errors := st.errors ++ (if AList.contains p.name c.params then [dupParamErr p.name c.name] else []) } := by
  have hpn := param_pn p
  have hpt := param_pt p
  unfold ParamCst.tree at hpn hpt ⊢
  rw [walk_rule _ _ (by decide)]
  simp only [enter_conditionParameter, exit_conditionParameter, walkL_append, walkL, walkL_optNl, walkL_optWs,
    walk_parameterName, walk_tokT, walk_paramType]
  unfold exitConditionParameter
  rw [hpn, hpt]
  simp only [hc, Tree.text, Tree.textL, tokT, String.append_empty]
  cases hf : AList.contains p.name c.params <;> cases p.ty <;>
    simp [ParamTypeCst.tree, ParamTypeCst.den, Tree.childTok?, Tree.children, tokT, Tree.isTok, List.find?, Tree.text,
      Tree.textL, notify, hc, dupParamErr, Tree.startPos]

theorem walk_param_inE (pe) (p : ParamCst) (base : LState) (c : Condition) (es : List SynErr) :
    walk pe p.tree (inCondE base c es) =
      .ok (inCondE base { c with params := AList.insert p.name p.ty.den c.params }
        (es ++ (if AList.contains p.name c.params then [dupParamErr p.name c.name] else []))) := by
  rw [walk_param_gen pe p (inCondE base c es) c rfl]
  simp [inCondE, List.append_assoc]

theorem walkL_restParams_inE (pe) (rest : List (Option String × ParamCst × Option String)) :
    ∀ (base : LState) (c : Condition) (es : List SynErr),
    walkL pe (CondCst.restTrees rest) (inCondE base c es) =
      .ok (inCondE base { c with params := paramsFrom (rest.map (fun x => x.2.1.content)) c.params }
        (es ++ paramErrs c.name (rest.map (fun x => x.2.1.content)) c.params)) := by
  induction rest with
  | nil => intro base c es; simp [CondCst.restTrees, walkL, paramsFrom, paramErrs]
  | cons x more ih =>
    intro base c es
    obtain ⟨a, q, b⟩ := x
    simp only [CondCst.restTrees, walkL_append, walkL, walk_tokT, walkL_optWs, walk_param_inE]
    rw [ih]
    simp [paramsFrom_cons, ParamCst.content, paramErrs, List.append_assoc]

theorem walk_exprTree_inE (pe) (c : CondCst) (base : LState) (cc : Condition) (es : List SynErr) :
    walk pe c.exprTree (inCondE base cc es) =
      .ok (inCondE base { cc with expr := trimRightWs (exprText c.expr) } es) := by
  rw [walk_exprTree pe c (inCondE base cc es) cc rfl]; rfl

theorem enterCondition_cond_gen (c : CondCst) (st : LState) :
    enterCondition c.tree st =
      .ok (inCondE st { name := c.name, expr := "", params := [],
                        md := if st.isModular then some { module := st.moduleName } else none }
        (if AList.contains c.name st.conds then [dupCondErr c.name] else [])) := by
  unfold enterCondition
  rw [cond_name_find]
  cases hc : AList.contains c.name st.conds <;>
    simp [Tree.text, Tree.textL, tokT, hc, inCondE, notify, dupCondErr, Tree.startPos]

theorem exitCondition_inE (base : LState) (cc : Condition) (es : List SynErr) :
    exitCondition (inCondE base cc es) =
      .ok { base with conds := AList.insert cc.name cc base.conds, currentCondition := none,
                      errors := base.errors ++ es } := by
  simp [exitCondition, inCondE]

/-- the errors the walk of a condition logs -/
def condErrs (c : CondCst) (st : LState) : List SynErr :=
  (if AList.contains c.name st.conds then [dupCondErr c.name] else []) ++ paramErrs c.name c.content.params []

/-- **walk_condition, general.**  No hypothesis at all: the walk of the parse tree of a condition
    succeeds, records the denoted condition under its name (replacing an earlier one of that name,
    a repeated parameter overwriting the earlier one, as the Go map writes do) and logs exactly
    `condErrs` — the condition name already taken, parameter names repeated. -/
theorem walk_condition_gen (pe) (c : CondCst) (st : LState) :
    walk pe c.tree st = .ok { condResult c st with errors := st.errors ++ condErrs c st } := by
  have henter := enterCondition_cond_gen c st
  unfold CondCst.tree at henter ⊢
  rw [walk_rule _ _ (by decide)]
  simp only [enter_condition, exit_condition, henter]
  simp only [walkL_append, walkL, walk_nl, walk_ws, walk_tokT, walk_conditionName, walkL_optWs, walkL_optNl,
    walk_param_inE, walkL_restParams_inE, walk_exprTree_inE, exitCondition_inE]
  simp [condResult, condErrs, CondCst.content, CondContent.den, CondCst.paramList, paramsFrom_cons, ParamCst.content,
    Function.comp_def, paramErrs, AList.contains, AList.find?]

/-- the state after walking a list of conditions -/
def condsResult (cs : List CondCst) (st : LState) : LState := cs.foldl (fun s c => condResult c s) st

theorem walkL_conds (pe) (cs : List CondCst) : ∀ (st : LState), (∀ c ∈ cs, c.content.wf = true) →
    (∀ c ∈ cs, AList.contains c.name st.conds = false) → nodupB (cs.map (·.name)) = true →
    walkL pe (cs.map CondCst.tree) st = .ok (condsResult cs st) := by
  induction cs with
  | nil => intro st _ _ _; rfl
  | cons c cs ih =>
    intro st hwf hnew hnd
    rw [List.map_cons, nodupB_cons] at hnd
    rw [List.map_cons, walkL, walk_condition pe c st (hnew c (by simp)) (hwf c (by simp))]
    simp only [condsResult, List.foldl_cons]
    refine ih _ (fun x hx => hwf x (List.mem_cons_of_mem _ hx)) (fun x hx => ?_) hnd.2
    simp only [condResult]
    rw [AList.contains_insert, hnew x (List.mem_cons_of_mem _ hx), Bool.or_false]
    exact hnd.1 _ (List.mem_map.2 ⟨x, hx, rfl⟩)

theorem condsFrom_cons (modular : Bool) (modName : String) (c : CondContent) (cs) (acc) :
    condsFrom modular modName (c :: cs) acc =
      condsFrom modular modName cs (AList.insert c.name (c.den modular modName) acc) := rfl

/-- what the walk over the conditions leaves in the fields the transform reads -/
theorem condsResult_proj (cs : List CondCst) : ∀ (st : LState),
    (condsResult cs st).conds = condsFrom st.isModular st.moduleName (cs.map CondCst.content) st.conds ∧
    (condsResult cs st).types = st.types ∧ (condsResult cs st).isModular = st.isModular ∧
    (condsResult cs st).moduleName = st.moduleName ∧ (condsResult cs st).schema = st.schema ∧
    (condsResult cs st).errors = st.errors ∧ (condsResult cs st).typeDefExtensions = st.typeDefExtensions := by
  induction cs with
  | nil => intro st; simp [condsResult, condsFrom]
  | cons c cs ih =>
    intro st
    have := ih (condResult c st)
    simp only [condsResult, List.foldl_cons] at this ⊢
    obtain ⟨h1, h2, h3, h4, h5, h6, h7⟩ := this
    refine ⟨?_, ?_, ?_, ?_, ?_, ?_, ?_⟩
    · rw [h1]; simp [condResult, condsFrom_cons, CondCst.content]
    · rw [h2]; rfl
    · rw [h3]; rfl
    · rw [h4]; rfl
    · rw [h5]; rfl
    · rw [h6]; rfl
    · rw [h7]; rfl

/-! ### headers and the whole document -/

/-- the state after the header -/
def headerResult : HeaderCst → LState → LState
  | .model _ _ v _, st => { st with schema := v }
  | .module _ _ n _, st => { st with isModular := true, typeDefExtensions := some [], moduleName := n }

theorem walk_header (pe) (h : HeaderCst) (st : LState) : walk pe h.tree st = .ok (headerResult h st) := by
  cases h with
  | model nl1 w1 v w2 =>
    unfold HeaderCst.tree
    rw [walk_rule _ _ (by decide)]
    cases w2 <;>
      simp [enterRule, exitRule, walkL, optWs, exitModelHeader, Tree.label?, Tree.labels, Tree.findLabel, Tree.children,
        headerResult, tokT, Tree.text, ws, nl, walk]
  | module w1 ty n w2 =>
    unfold HeaderCst.tree
    rw [walk_rule _ _ (by decide)]
    cases w2 <;>
      simp [enterRule, exitRule, walkL, optWs, exitModuleHeader, Tree.label?, Tree.labels, Tree.findLabel, Tree.children,
        headerResult, tokT, Tree.text, Tree.textL, ws, walk]

/-- `enterConditions` -/
def clearConds (st : LState) : LState := { st with conds := [] }

/-- the state at the end of the walk of a document, from the initial state -/
def docResult (d : DocCst) : LState :=
  condsResult d.conds (clearConds (typesResult d.types (headerResult d.header {})))

theorem walk_typeDefs_rule (pe) (ts : List Tree) (st : LState) :
    walk pe (.rule "typeDefs" 0 0 [] ts) st = walkL none ts st := by
  rw [walk_rule _ _ (by decide), enterRule_no_callback _ _ _ (by decide)]
  simp only [exitRule_no_callback _ _ _ _ (show callbackRules.contains "typeDefs" = false by decide)]
  cases walkL none ts st <;> rfl

theorem walk_conditions_rule (pe) (ts : List Tree) (st : LState) :
    walk pe (.rule "conditions" 0 0 [] ts) st = walkL none ts (clearConds st) := by
  have h1 : ∀ c s, enterRule "conditions" c s = enterConditions s := by intro c s; simp [enterRule]
  have h2 : ∀ c s, exitRule "conditions" c pe s = .ok s := by intro c s; simp [exitRule]
  rw [walk_rule _ _ (by decide), h1]
  simp only [h2, enterConditions]
  show (match walkL none ts (clearConds st) with | .error p => Except.error p | .ok st2 => Except.ok st2) = _
  cases walkL none ts (clearConds st) <;> rfl

theorem filter_extend_nil (ts : List TypeContent) (h : ts.all (fun t => !t.extend) = true) :
    ts.filter (·.extend) = [] := by
  rw [List.filter_eq_nil_iff]
  intro t ht
  have := (List.all_eq_true.1 h) t ht
  simpa using this

/-- **walk_doc.**  The walk of the parse tree of a well-formed document, from the initial state. -/
theorem walk_doc (d : DocCst) (hwf : d.wfB = true) : walk none d.tree {} = .ok (docResult d) := by
  simp only [DocCst.wfB, DocContent.wf, DocCst.content, Bool.and_eq_true, List.all_eq_true, List.all_map,
    List.map_map] at hwf
  obtain ⟨hbodies, ⟨⟨htypes, hconds⟩, hcn⟩, hext⟩ := hwf
  unfold DocCst.tree
  rw [walk_rule _ _ (by decide)]
  have hmain : enterRule "main" (Tree.rule "main" 0 0 []
      (optWs d.w0 ++ optNl d.nl0 ++ [d.header.tree] ++ optNl d.nl1 ++
        [.rule "typeDefs" 0 0 [] (d.types.map TypeDefCst.tree)] ++ optNl d.nl2 ++
        [.rule "conditions" 0 0 [] (d.conds.map CondCst.tree)] ++ optNl d.nl3 ++ [tokT "EOF" "<EOF>"])) {} = .ok {} := by
    simp [enterRule, enterMain]
  rw [hmain]
  simp only [walkL_append, walkL, walkL_optWs, walkL_optNl, walk_header, walk_typeDefs_rule, walk_conditions_rule,
    walk_tokT]
  have hT : ∀ t ∈ d.types, t.wf = true := fun t ht => by
    have := htypes t ht
    simp only [Function.comp] at this
    simp [TypeDefCst.wf, hbodies t ht, this]
  have hE : ExtOk d.types (headerResult d.header {}) ∧ nodupB (extNames d.types) = true := by
    cases hh : d.header with
    | model nl1 w1 v w2 =>
      rw [hh] at hext
      simp only [HeaderCst.content, HeaderContent.isModular, Bool.false_eq_true, if_false] at hext
      constructor
      · intro t ht hte
        have := (List.all_eq_true.1 hext) t ht
        simp [TypeDefCst.content, hte] at this
      · have : (d.types.map TypeDefCst.content).filter (·.extend) = [] :=
          filter_extend_nil _ (by simpa [List.all_map] using hext)
        simp [extNames, this, nodupB]
    | module w1 ty n w2 =>
      rw [hh] at hext
      simp only [HeaderCst.content, HeaderContent.isModular, if_true] at hext
      exact ⟨fun t _ _ => ⟨rfl, [], rfl, rfl⟩, hext⟩
  rw [walkL_typeDefs none d.types _ hT hE.1 hE.2]
  simp only
  rw [walkL_conds none d.conds _ (fun c hc => hconds c hc) (fun _ _ => rfl)
    (by simpa [Function.comp_def, CondCst.content] using hcn)]
  simp only
  simp [exitRule, docResult]


theorem headerResult_proj (h : HeaderCst) :
    (headerResult h {}).schema = h.content.schema ∧ (headerResult h {}).isModular = h.content.isModular ∧
    (headerResult h {}).moduleName = h.content.moduleName ∧ (headerResult h {}).types = [] ∧
    (headerResult h {}).errors = [] ∧
    (headerResult h {}).typeDefExtensions = (if h.content.isModular then some [] else none) := by
  cases h <;> simp [headerResult, HeaderCst.content, HeaderContent.schema, HeaderContent.isModular,
    HeaderContent.moduleName]

/-- the final state of the walk holds exactly the denoted model, and an empty error log -/
theorem docResult_fields (d : DocCst) :
    (docResult d).errors = [] ∧
    ({ schema := (docResult d).schema, types := (docResult d).types, conds := (docResult d).conds } : Model) =
      (DocCst.den d).1 ∧
    (docResult d).typeDefExtensions = (DocCst.den d).2 := by
  obtain ⟨c1, c2, _, _, c5, c6, c7⟩ :=
    condsResult_proj d.conds (clearConds (typesResult d.types (headerResult d.header {})))
  obtain ⟨t1, t2, t3, t4, _, t6, _, t8⟩ := typesResult_proj d.types (headerResult d.header {})
  obtain ⟨e1, e2, e3, e4, e5, e6⟩ := headerResult_proj d.header
  have k1 : ∀ s : LState, (clearConds s).conds = [] := fun _ => rfl
  have k2 : ∀ s : LState, (clearConds s).types = s.types := fun _ => rfl
  have k3 : ∀ s : LState, (clearConds s).isModular = s.isModular := fun _ => rfl
  have k4 : ∀ s : LState, (clearConds s).moduleName = s.moduleName := fun _ => rfl
  have k5 : ∀ s : LState, (clearConds s).schema = s.schema := fun _ => rfl
  have k6 : ∀ s : LState, (clearConds s).errors = s.errors := fun _ => rfl
  have k7 : ∀ s : LState, (clearConds s).typeDefExtensions = s.typeDefExtensions := fun _ => rfl
  simp only [docResult, c1, c2, c5, c6, c7, k1, k2, k3, k4, k5, k6, k7, t1, t2, t3, t4, t6, t8,
    e1, e2, e3, e4, e5, e6]
  cases hm : d.header.content.isModular <;>
    simp [DocCst.den, DocContent.den, DocCst.content, hm, List.map_map, Function.comp_def]

/-- **transform_doc.**  For every well-formed document — whatever its layout — the listener returns
    exactly the denoted model (and extension map), without error. -/
theorem transform_doc (d : DocCst) (hwf : d.wfB = true) :
    transform [] d.tree = .ok (DocCst.den d).1 (DocCst.den d).2 := by
  unfold transform
  have h0 : ({ errors := [] } : LState) = {} := rfl
  rw [h0, walk_doc d hwf]
  obtain ⟨h1, h2, h3⟩ := docResult_fields d
  simp only [h1, h2, h3, List.isEmpty_nil, if_true]

/-- **real parse trees**: a tree `t` with ANTLR's line/column positions whose position-erased form
    is the tree of a well-formed document yields the denoted model as well (positions are only
    ever read into the error log, and nothing is logged) -/
theorem transform_real_doc (t : Tree) (d : DocCst) (hwf : d.wfB = true) (ht : erasePos t = d.tree) :
    transform [] t = .ok (DocCst.den d).1 (DocCst.den d).2 := by
  have hs := walk_strip none t {} {} rfl
  rw [ht, walk_doc d hwf] at hs
  obtain ⟨st', hw, hst⟩ := stripR_ok_inv hs
  obtain ⟨h1, h2, h3⟩ := docResult_fields d
  have hsch : st'.schema = (docResult d).schema :=
    show (stripSt st').schema = (stripSt (docResult d)).schema from congrArg LState.schema hst
  have hty : st'.types = (docResult d).types :=
    show (stripSt st').types = (stripSt (docResult d)).types from congrArg LState.types hst
  have hco : st'.conds = (docResult d).conds :=
    show (stripSt st').conds = (stripSt (docResult d)).conds from congrArg LState.conds hst
  have hex : st'.typeDefExtensions = (docResult d).typeDefExtensions :=
    show (stripSt st').typeDefExtensions = (stripSt (docResult d)).typeDefExtensions from congrArg LState.typeDefExtensions hst
  have her : st'.errors = [] := by
    have := congrArg LState.errors hst
    simp only [stripSt, h1, List.map_nil, List.map_eq_nil_iff] at this
    exact this
  unfold transform
  have h0 : ({ errors := [] } : LState) = {} := rfl
  rw [h0, hw]
  simp only [her, hsch, hty, hco, hex, h2, h3, List.isEmpty_nil, if_true]

/-- the abstract content determines the result -/
theorem doc_layout_invariant (d1 d2 : DocCst) (h1 : d1.wfB = true) (h2 : d2.wfB = true)
    (hc : d1.content = d2.content) : transform [] d1.tree = transform [] d2.tree := by
  rw [transform_doc d1 h1, transform_doc d2 h2, DocCst.den, DocCst.den, hc]


/-! ### whole documents, general: the exact error log, and `wfB` as the acceptance condition -/

/-- the state after walking a condition, errors included -/
def condResultG (c : CondCst) (st : LState) : LState :=
  { condResult c st with errors := st.errors ++ condErrs c st }

def typesResultG (ts : List TypeDefCst) (st : LState) : LState := ts.foldl (fun s t => typeDefResultG t s) st
def condsResultG (cs : List CondCst) (st : LState) : LState := cs.foldl (fun s c => condResultG c s) st

/-- the state at the end of the walk of any document, from the initial state -/
def docResultG (d : DocCst) : LState :=
  condsResultG d.conds (clearConds (typesResultG d.types (headerResult d.header {})))

/-- the part of well-formedness that the grammar guarantees: declaration bodies well formed
    (a `relationDefPartials` node has an operator token), type names non-empty -/
def TypeDefCst.gramOk (t : TypeDefCst) : Bool := t.bodiesWf && t.name.text != ""
def DocCst.gramOk (d : DocCst) : Bool := d.types.all TypeDefCst.gramOk

theorem walkL_typeDefs_gen (pe) (ts : List TypeDefCst) : ∀ (st : LState), (∀ t ∈ ts, t.gramOk = true) →
    (st.isModular = true → st.typeDefExtensions.isSome = true) →
    walkL pe (ts.map TypeDefCst.tree) st = .ok (typesResultG ts st) := by
  induction ts with
  | nil => intro st _ _; rfl
  | cons t ts ih =>
    intro st hg hmap
    have hgt := hg t (by simp)
    simp only [TypeDefCst.gramOk, Bool.and_eq_true, bne_iff_ne, ne_eq] at hgt
    rw [List.map_cons, walkL, walk_typeDef_gen pe t st hgt.1 (by simpa using hgt.2) (fun _ h => hmap h)]
    simp only [typesResultG, List.foldl_cons]
    refine ih _ (fun x hx => hg x (List.mem_cons_of_mem _ hx)) ?_
    intro hm
    have hm' : st.isModular = true := hm
    have := hmap hm'
    simp only [typeDefResultG]
    split
    · cases hx : st.typeDefExtensions <;> simp_all
    · exact this

theorem walkL_conds_gen (pe) (cs : List CondCst) : ∀ (st : LState),
    walkL pe (cs.map CondCst.tree) st = .ok (condsResultG cs st) := by
  induction cs with
  | nil => intro st; rfl
  | cons c cs ih =>
    intro st
    rw [List.map_cons, walkL, walk_condition_gen pe c st]
    simp only [condsResultG, List.foldl_cons]
    exact ih _

theorem headerResult_map (h : HeaderCst) :
    (headerResult h {}).isModular = true → (headerResult h {}).typeDefExtensions.isSome = true := by
  cases h <;> simp [headerResult]

/-- **walk_doc, general**: the walk of the parse tree of any grammatical document succeeds (no Go
    panic) and ends in `docResultG d` -/
theorem walk_doc_gen (d : DocCst) (hg : d.gramOk = true) : walk none d.tree {} = .ok (docResultG d) := by
  simp only [DocCst.gramOk, List.all_eq_true] at hg
  unfold DocCst.tree
  rw [walk_rule _ _ (by decide)]
  have hmain : enterRule "main" (Tree.rule "main" 0 0 []
      (optWs d.w0 ++ optNl d.nl0 ++ [d.header.tree] ++ optNl d.nl1 ++
        [.rule "typeDefs" 0 0 [] (d.types.map TypeDefCst.tree)] ++ optNl d.nl2 ++
        [.rule "conditions" 0 0 [] (d.conds.map CondCst.tree)] ++ optNl d.nl3 ++ [tokT "EOF" "<EOF>"])) {} = .ok {} := by
    simp [enterRule, enterMain]
  rw [hmain]
  simp only [walkL_append, walkL, walkL_optWs, walkL_optNl, walk_header, walk_typeDefs_rule, walk_conditions_rule,
    walk_tokT]
  rw [walkL_typeDefs_gen none d.types _ hg (headerResult_map d.header)]
  simp only
  rw [walkL_conds_gen none d.conds _]
  simp [exitRule, docResultG]

/-- **transform_doc, general**: the outcome for any grammatical document — the model held by
    `docResultG d` if its error log is empty, else that log -/
theorem transform_doc_gen (d : DocCst) (hg : d.gramOk = true) :
    transform [] d.tree =
      (if (docResultG d).errors.isEmpty
       then .ok { schema := (docResultG d).schema, types := (docResultG d).types, conds := (docResultG d).conds }
              (docResultG d).typeDefExtensions
       else .errors (docResultG d).errors) := by
  unfold transform
  have h0 : ({ errors := [] } : LState) = {} := rfl
  rw [h0, walk_doc_gen d hg]


/-! #### an empty log means the document is well formed -/

theorem append_nil_iff {α} (a b : List α) : a ++ b = [] ↔ a = [] ∧ b = [] := List.append_eq_nil_iff

theorem ite_singleton_nil (b : Bool) (e : SynErr) : (if b = true then [e] else []) = [] ↔ b = false := by
  cases b <;> simp

theorem declErrs_nil (tn : String) (ds : List DeclContent) : ∀ (r : List (String × Userset)),
    declErrs tn ds r = [] →
      (∀ d ∈ ds, AList.contains d.name r = false) ∧ nodupB (ds.map (·.name)) = true := by
  induction ds with
  | nil => intro r _; simp [nodupB]
  | cons d ds ih =>
    intro r h
    simp only [declErrs, append_nil_iff, ite_singleton_nil] at h
    obtain ⟨hfresh, hnd⟩ := ih _ h.2
    have hsplit : ∀ x ∈ ds, (x.name == d.name) = false ∧ AList.contains x.name r = false := fun x hx => by
      have := hfresh x hx
      rw [AList.contains_insert, Bool.or_eq_false_iff] at this
      exact this
    refine ⟨fun x hx => ?_, ?_⟩
    · rcases List.mem_cons.1 hx with rfl | hx
      · exact h.1
      · exact (hsplit x hx).2
    · rw [List.map_cons, nodupB_cons]
      refine ⟨fun y hy => ?_, hnd⟩
      obtain ⟨x, hx, rfl⟩ := List.mem_map.1 hy
      exact (hsplit x hx).1

theorem paramErrs_nil (cn : String) (ps : List (String × CondParam)) : ∀ (acc : List (String × CondParam)),
    paramErrs cn ps acc = [] →
      (∀ p ∈ ps, AList.contains p.1 acc = false) ∧ nodupB (ps.map (·.1)) = true := by
  induction ps with
  | nil => intro r _; simp [nodupB]
  | cons d ds ih =>
    intro r h
    simp only [paramErrs, append_nil_iff, ite_singleton_nil] at h
    obtain ⟨hfresh, hnd⟩ := ih _ h.2
    have hsplit : ∀ x ∈ ds, (x.1 == d.1) = false ∧ AList.contains x.1 r = false := fun x hx => by
      have := hfresh x hx
      rw [AList.contains_insert, Bool.or_eq_false_iff] at this
      exact this
    refine ⟨fun x hx => ?_, ?_⟩
    · rcases List.mem_cons.1 hx with rfl | hx
      · exact h.1
      · exact (hsplit x hx).2
    · rw [List.map_cons, nodupB_cons]
      refine ⟨fun y hy => ?_, hnd⟩
      obtain ⟨x, hx, rfl⟩ := List.mem_map.1 hy
      exact (hsplit x hx).1

theorem condsG_noerr (cs : List CondCst) : ∀ (st : LState), (condsResultG cs st).errors = [] →
    st.errors = [] ∧ (∀ c ∈ cs, AList.contains c.name st.conds = false) ∧
      nodupB (cs.map (·.name)) = true ∧ ∀ c ∈ cs, c.content.wf = true := by
  induction cs with
  | nil => intro st h; exact ⟨h, by simp, rfl, by simp⟩
  | cons c cs ih =>
    intro st h
    simp only [condsResultG, List.foldl_cons] at h
    obtain ⟨h0, hfresh, hnd, hwf⟩ := ih _ h
    simp only [condResultG, condErrs, append_nil_iff, ite_singleton_nil] at h0
    obtain ⟨he, hc, hp⟩ := h0
    have hsplit : ∀ x ∈ cs, (x.name == c.name) = false ∧ AList.contains x.name st.conds = false := fun x hx => by
      have := hfresh x hx
      simp only [condResultG, condResult] at this
      rw [AList.contains_insert, Bool.or_eq_false_iff] at this
      exact this
    refine ⟨he, fun x hx => ?_, ?_, fun x hx => ?_⟩
    · rcases List.mem_cons.1 hx with rfl | hx
      · exact hc
      · exact (hsplit x hx).2
    · rw [List.map_cons, nodupB_cons]
      refine ⟨fun y hy => ?_, hnd⟩
      obtain ⟨x, hx, rfl⟩ := List.mem_map.1 hy
      exact (hsplit x hx).1
    · rcases List.mem_cons.1 hx with rfl | hx
      · exact (paramErrs_nil _ _ _ hp).2
      · exact hwf x hx

theorem typesG_noerr (ts : List TypeDefCst) : ∀ (st : LState), (typesResultG ts st).errors = [] →
    st.errors = [] ∧ (∀ t ∈ ts, nodupB (t.content.decls.map (·.name)) = true) ∧
    (st.isModular = false → ∀ t ∈ ts, t.extend.isSome = false) ∧
    (st.isModular = true → ∀ exts, st.typeDefExtensions = some exts →
      (∀ t ∈ ts, t.extend.isSome = true → AList.contains t.name.text exts = false) ∧
      nodupB (extNames ts) = true) := by
  induction ts with
  | nil => intro st h; exact ⟨h, by simp, by simp, fun _ _ _ => ⟨by simp, rfl⟩⟩
  | cons t ts ih =>
    intro st h
    simp only [typesResultG, List.foldl_cons] at h
    obtain ⟨h0, hdecl, hnm, hm⟩ := ih _ h
    have h0' : st.errors = [] ∧ typeDefErrs t st = [] := by
      simpa [typeDefResultG, append_nil_iff] using h0
    obtain ⟨he, hte⟩ := h0'
    simp only [typeDefErrs, append_nil_iff, ite_singleton_nil] at hte
    obtain ⟨⟨hx1, hx2⟩, hx3⟩ := hte
    refine ⟨he, fun x hx => ?_, fun hmod x hx => ?_, fun hmod exts hexts => ?_⟩
    · rcases List.mem_cons.1 hx with rfl | hx
      · exact (declErrs_nil _ _ _ hx2).2
      · exact hdecl x hx
    · rcases List.mem_cons.1 hx with rfl | hx
      · simpa [hmod] using hx1
      · exact hnm (by simpa [typeDefResultG] using hmod) x hx
    · have hmod' : (typeDefResultG t st).isModular = true := by simpa [typeDefResultG] using hmod
      cases hte : t.extend.isSome
      · -- not an extension: the map is unchanged
        have hmap' : (typeDefResultG t st).typeDefExtensions = some exts := by
          simp [typeDefResultG, hte, hexts]
        obtain ⟨hf, hn⟩ := hm hmod' exts hmap'
        refine ⟨fun x hx hxe => ?_, by simpa [extNames, TypeDefCst.content, hte] using hn⟩
        rcases List.mem_cons.1 hx with rfl | hx
        · rw [hte] at hxe; cases hxe
        · exact hf x hx hxe
      · have hnot : AList.contains t.name.text exts = false := by
          simpa [hte, hmod, alreadyExtended, hexts] using hx3
        have hmap' : (typeDefResultG t st).typeDefExtensions =
            some (AList.insert t.name.text st.types.length exts) := by
          simp [typeDefResultG, hte, hexts, hmod, alreadyExtended, hnot]
        obtain ⟨hf, hn⟩ := hm hmod' _ hmap'
        have hsplit : ∀ x ∈ ts, x.extend.isSome = true →
            (x.name.text == t.name.text) = false ∧ AList.contains x.name.text exts = false := fun x hx hxe => by
          have := hf x hx hxe
          rw [AList.contains_insert, Bool.or_eq_false_iff] at this
          exact this
        refine ⟨fun x hx hxe => ?_, ?_⟩
        · rcases List.mem_cons.1 hx with rfl | hx
          · exact hnot
          · exact (hsplit x hx hxe).2
        · have : extNames (t :: ts) = t.name.text :: extNames ts := by
            simp [extNames, TypeDefCst.content, hte]
          rw [this, nodupB_cons]
          refine ⟨fun y hy => ?_, hn⟩
          simp only [extNames, List.mem_map, List.mem_filter] at hy
          obtain ⟨tc, ⟨⟨x, hx, rfl⟩, hxe⟩, rfl⟩ := hy
          exact (hsplit x hx (by simpa [TypeDefCst.content] using hxe)).1


/-- an empty error log at the end of the walk means the document is well formed -/
theorem docG_noerr (d : DocCst) (hg : d.gramOk = true) (h : (docResultG d).errors = []) : d.wfB = true := by
  simp only [DocCst.gramOk, List.all_eq_true, TypeDefCst.gramOk, Bool.and_eq_true, bne_iff_ne, ne_eq] at hg
  obtain ⟨h3, _, hcn, hcw⟩ := condsG_noerr d.conds _ h
  have h3' : (typesResultG d.types (headerResult d.header {})).errors = [] := h3
  obtain ⟨_, hdecl, hnm, hm⟩ := typesG_noerr d.types _ h3'
  obtain ⟨_, e2, _, _, _, e6⟩ := headerResult_proj d.header
  simp only [DocCst.wfB, DocContent.wf, DocCst.content, Bool.and_eq_true, List.all_eq_true, List.all_map,
    List.map_map]
  refine ⟨fun t ht => (hg t ht).1, ⟨⟨fun t ht => ?_, fun c hc => hcw c hc⟩, ?_⟩, ?_⟩
  · have hn := (hg t ht).2
    have := hdecl t ht
    simp only [Function.comp, TypeContent.wf, Bool.and_eq_true, bne_iff_ne, ne_eq]
    exact ⟨by simpa [TypeDefCst.content] using hn, this⟩
  · simpa [Function.comp_def, CondCst.content] using hcn
  · cases hmod : d.header.content.isModular
    · simp only [Bool.false_eq_true, if_false, List.all_eq_true]
      intro t ht
      have := hnm (by rw [e2, hmod]) t ht
      simp [Function.comp, TypeDefCst.content, this]
    · simp only [if_true]
      exact (hm (by rw [e2, hmod]) [] (by rw [e6, hmod]; rfl)).2

/-- **`wfB` is exactly the acceptance condition.**  For a grammatical document (bodies with
    operator tokens, non-empty type names — what the parser guarantees), the listener returns a model
    if and only if the document is well formed; and then it is the denoted model. -/
theorem transform_doc_ok_iff (d : DocCst) (hg : d.gramOk = true) :
    (∃ m x, transform [] d.tree = .ok m x) ↔ d.wfB = true := by
  constructor
  · rintro ⟨m, x, h⟩
    rw [transform_doc_gen d hg] at h
    split at h
    · rename_i he
      exact docG_noerr d hg (by simpa using he)
    · cases h
  · intro hwf
    exact ⟨_, _, transform_doc d hwf⟩

/-- an ill-formed grammatical document is rejected with the (non-empty) error log of `docResultG` -/
theorem transform_doc_rejects (d : DocCst) (hg : d.gramOk = true) (hwf : d.wfB = false) :
    transform [] d.tree = .errors (docResultG d).errors ∧ (docResultG d).errors ≠ [] := by
  have hne : (docResultG d).errors ≠ [] := fun h => by
    have := docG_noerr d hg h
    rw [hwf] at this; cases this
  rw [transform_doc_gen d hg]
  have : (docResultG d).errors.isEmpty = false := by
    cases he : (docResultG d).errors with
    | nil => exact absurd he hne
    | cons a l => rfl
  simp [this, hne]

theorem wfB_gramOk (d : DocCst) (h : d.wfB = true) : d.gramOk = true := by
  simp only [DocCst.wfB, DocContent.wf, DocCst.content, Bool.and_eq_true, List.all_eq_true, List.all_map] at h
  obtain ⟨hb, ⟨⟨ht, _⟩, _⟩, _⟩ := h
  simp only [DocCst.gramOk, List.all_eq_true, TypeDefCst.gramOk, Bool.and_eq_true]
  intro t htm
  refine ⟨hb t htm, ?_⟩
  have := ht t htm
  simp only [Function.comp, TypeContent.wf, Bool.and_eq_true] at this
  simpa [TypeDefCst.content] using this.1

end FgaVerif.Model.Cst
