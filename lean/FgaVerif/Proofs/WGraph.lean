import FgaVerif.Model.WGraph
import FgaVerif.Proofs.Sort
/-! Lemmas about the construction half of the weighted graph (`Model/WGraph.lean`): the edge list of a
    source node under `AddEdge` / `UpsertEdge` / `HasEdge`, and the invariant they maintain. -/
namespace FgaVerif.Model.WGraph

instance : LawfulBEq EdgeType where
  eq_of_beq := by intro a b; cases a <;> cases b <;> first | (intro _; rfl) | (intro h; cases h)
  rfl := by intro a; cases a <;> rfl

/-- direct and tuple-to-userset edges: the ones that are de-duplicated -/
def hop (e : WEdge) : Bool := e.etype == .direct || e.etype == .ttu

def key (e : WEdge) : String × EdgeType × String := (e.dst, e.etype, e.tupleset)

theorem sameEdge_iff (e : WEdge) (dst : String) (t : EdgeType) (ts : String) :
    sameEdge e dst t ts = true ↔ key e = (dst, t, ts) := by
  simp [sameEdge, key, Bool.and_eq_true]
  constructor
  · rintro ⟨⟨a, b⟩, c⟩; exact ⟨a, b, c⟩
  · rintro ⟨a, b, c⟩; exact ⟨⟨a, b⟩, c⟩

/-! ### the association list of edges -/

def lookupE (l : List (String × List WEdge)) (src : String) : List WEdge :=
  match l.find? (·.1 == src) with
  | some (_, es) => es
  | none => []

def replaceE (l : List (String × List WEdge)) (src : String) (es : List WEdge) : List (String × List WEdge) :=
  l.map (fun (k, v) => if k == src then (k, es) else (k, v))

theorem lookupE_replaceE_same (l : List (String × List WEdge)) (src : String) (es : List WEdge)
    (h : l.any (·.1 == src) = true) : lookupE (replaceE l src es) src = es := by
  induction l with
  | nil => simp at h
  | cons kv rest ih =>
    obtain ⟨k, v⟩ := kv
    by_cases hk : k = src
    · subst hk; simp [lookupE, replaceE]
    · have hk' : (k == src) = false := by simpa using hk
      simp only [List.any_cons, hk', Bool.false_or] at h
      have := ih h
      simp only [lookupE, replaceE, List.map_cons, hk', Bool.false_eq_true, if_false, List.find?_cons] at this ⊢
      exact this

theorem lookupE_replaceE_other (l : List (String × List WEdge)) (src src' : String) (es : List WEdge)
    (h : src' ≠ src) : lookupE (replaceE l src es) src' = lookupE l src' := by
  induction l with
  | nil => rfl
  | cons kv rest ih =>
    obtain ⟨k, v⟩ := kv
    by_cases hk : k = src
    · subst hk
      have h1 : (k == src') = false := by simpa using (fun e => h e.symm)
      simp only [lookupE, replaceE, List.map_cons, beq_self_eq_true, if_true, List.find?_cons, h1] at ih ⊢
      exact ih
    · have hk' : (k == src) = false := by simpa using hk
      by_cases hk2 : k = src'
      · subst hk2
        simp only [lookupE, replaceE, List.map_cons, hk', Bool.false_eq_true, if_false, List.find?_cons, beq_self_eq_true]
      · have h2 : (k == src') = false := by simpa using hk2
        simp only [lookupE, replaceE, List.map_cons, hk', Bool.false_eq_true, if_false, List.find?_cons, h2] at ih ⊢
        exact ih

theorem lookupE_append_same (l : List (String × List WEdge)) (src : String) (es : List WEdge)
    (h : ¬ l.any (·.1 == src) = true) : lookupE (l ++ [(src, es)]) src = es := by
  induction l with
  | nil => simp [lookupE]
  | cons kv rest ih =>
    obtain ⟨k, v⟩ := kv
    simp only [List.any_cons, Bool.or_eq_true, not_or] at h
    have hk' : (k == src) = false := by simpa using h.1
    have := ih h.2
    simp only [lookupE, List.cons_append, List.find?_cons, hk'] at this ⊢
    exact this

theorem lookupE_append_other (l : List (String × List WEdge)) (src src' : String) (es : List WEdge)
    (h : src' ≠ src) : lookupE (l ++ [(src, es)]) src' = lookupE l src' := by
  induction l with
  | nil =>
    have h1 : (src == src') = false := by simpa using (fun e => h e.symm)
    simp [lookupE, h1]
  | cons kv rest ih =>
    obtain ⟨k, v⟩ := kv
    by_cases hk2 : k = src'
    · subst hk2; simp [lookupE]
    · have h2 : (k == src') = false := by simpa using hk2
      simp only [lookupE, List.cons_append, List.find?_cons, h2] at ih ⊢
      exact ih

theorem edgesOf_eq (g : G) (src : String) : edgesOf g src = lookupE g.edges src := rfl

theorem edgesOf_setEdges_same (g : G) (src : String) (es : List WEdge) :
    edgesOf (setEdges g src es) src = es := by
  unfold setEdges
  split
  · rename_i h; exact lookupE_replaceE_same g.edges src es h
  · rename_i h; exact lookupE_append_same g.edges src es h

theorem edgesOf_setEdges_other (g : G) (src src' : String) (es : List WEdge) (h : src' ≠ src) :
    edgesOf (setEdges g src es) src' = edgesOf g src' := by
  unfold setEdges
  split
  · exact lookupE_replaceE_other g.edges src src' es h
  · exact lookupE_append_other g.edges src src' es h

theorem nodes_setEdges (g : G) (src : String) (es : List WEdge) : (setEdges g src es).nodes = g.nodes := by
  unfold setEdges; split <;> rfl

theorem edgesOf_getOrAddNode (g : G) (ul label : String) (t : NodeType) (src : String) :
    edgesOf (getOrAddNode g ul label t).1 src = edgesOf g src := by
  unfold getOrAddNode; split <;> rfl

/-! ### `UpsertEdge` on the list of edges of one source -/

/-- what `UpsertEdge` does to the edge list of its source node -/
def upsertL (es : List WEdge) (src dst : String) (t : EdgeType) (ts cond : String) : List WEdge :=
  let cond := if cond == "" then "none" else cond
  if es.any (fun e => sameEdge e dst t ts) then upsertEdge.upd dst t ts cond es
  else es ++ [⟨src, dst, t, ts, [cond]⟩]

theorem edgesOf_upsert_same (g : G) (src dst : String) (t : EdgeType) (ts cond : String) :
    edgesOf (upsertEdge g src dst t ts cond) src = upsertL (edgesOf g src) src dst t ts cond := by
  unfold upsertEdge upsertL
  simp only
  split <;> exact edgesOf_setEdges_same _ _ _

theorem edgesOf_upsert_other (g : G) (src src' dst : String) (t : EdgeType) (ts cond : String) (h : src' ≠ src) :
    edgesOf (upsertEdge g src dst t ts cond) src' = edgesOf g src' := by
  unfold upsertEdge
  simp only
  split <;> exact edgesOf_setEdges_other _ _ _ _ h

theorem nodes_upsert (g : G) (src dst : String) (t : EdgeType) (ts cond : String) :
    (upsertEdge g src dst t ts cond).nodes = g.nodes := by
  unfold upsertEdge
  simp only
  split <;> exact nodes_setEdges _ _ _

theorem upd_keys (dst : String) (t : EdgeType) (ts cond : String) (es : List WEdge) :
    (upsertEdge.upd dst t ts cond es).map key = es.map key := by
  induction es with
  | nil => simp [upsertEdge.upd]
  | cons e rest ih =>
    simp only [upsertEdge.upd]
    split
    · split <;> simp [key]
    · simp [ih]

theorem upd_hops (dst : String) (t : EdgeType) (ts cond : String) (es : List WEdge) :
    (upsertEdge.upd dst t ts cond es).map (fun e => (hop e, key e)) = es.map (fun e => (hop e, key e)) := by
  induction es with
  | nil => simp [upsertEdge.upd]
  | cons e rest ih =>
    simp only [upsertEdge.upd]
    split
    · split <;> simp [key, hop]
    · simp [ih]

/-- every edge after the update is an old edge, possibly with `cond` appended to its conditions -/
theorem upd_mem (dst : String) (t : EdgeType) (ts cond : String) (es : List WEdge) (e' : WEdge)
    (h : e' ∈ upsertEdge.upd dst t ts cond es) :
    ∃ e ∈ es, e'.src = e.src ∧ key e' = key e ∧
      (e'.conditions = e.conditions ∨ (cond ∉ e.conditions ∧ e'.conditions = e.conditions ++ [cond] ∧ key e = (dst, t, ts))) := by
  induction es with
  | nil => simp [upsertEdge.upd] at h
  | cons e rest ih =>
    simp only [upsertEdge.upd] at h
    split at h
    · rename_i hs
      rcases List.mem_cons.1 h with rfl | h
      · split
        · exact ⟨e, by simp, rfl, rfl, Or.inl rfl⟩
        · rename_i hc
          refine ⟨e, by simp, rfl, rfl, Or.inr ⟨by simpa using hc, rfl, (sameEdge_iff _ _ _ _).1 hs⟩⟩
      · exact ⟨e', by simp [h], rfl, rfl, Or.inl rfl⟩
    · rcases List.mem_cons.1 h with rfl | h
      · exact ⟨e', by simp, rfl, rfl, Or.inl rfl⟩
      · obtain ⟨e0, he0, r⟩ := ih h
        exact ⟨e0, by simp [he0], r⟩

/-- old edges survive the update, with their conditions kept as a prefix -/
theorem upd_keeps (dst : String) (t : EdgeType) (ts cond : String) (es : List WEdge) (e : WEdge) (h : e ∈ es) :
    ∃ e' ∈ upsertEdge.upd dst t ts cond es, e'.src = e.src ∧ key e' = key e ∧ e.conditions <+: e'.conditions := by
  induction es with
  | nil => simp at h
  | cons a rest ih =>
    simp only [upsertEdge.upd]
    rcases List.mem_cons.1 h with rfl | h
    · split
      · split
        · exact ⟨e, by simp, rfl, rfl, List.prefix_refl _⟩
        · exact ⟨{ e with conditions := e.conditions ++ [cond] }, by simp, rfl, rfl, List.prefix_append _ _⟩
      · exact ⟨e, by simp, rfl, rfl, List.prefix_refl _⟩
    · split
      · exact ⟨e, by simp [h], rfl, rfl, List.prefix_refl _⟩
      · obtain ⟨e', he', r⟩ := ih h
        exact ⟨e', by simp [he'], r⟩

/-- if an edge with the key exists, after the update one carries the condition -/
theorem upd_has (dst : String) (t : EdgeType) (ts cond : String) (es : List WEdge)
    (h : es.any (fun e => sameEdge e dst t ts) = true) :
    ∃ e' ∈ upsertEdge.upd dst t ts cond es, key e' = (dst, t, ts) ∧ cond ∈ e'.conditions := by
  induction es with
  | nil => simp at h
  | cons a rest ih =>
    simp only [upsertEdge.upd]
    split
    · rename_i hs
      split
      · rename_i hc
        exact ⟨a, by simp, (sameEdge_iff _ _ _ _).1 hs, by simpa using hc⟩
      · exact ⟨{ a with conditions := a.conditions ++ [cond] }, by simp, (sameEdge_iff _ _ _ _).1 hs, by simp⟩
    · rename_i hs
      have : rest.any (fun e => sameEdge e dst t ts) = true := by
        simpa [List.any_cons, hs] using h
      obtain ⟨e', he', r⟩ := ih this
      exact ⟨e', by simp [he'], r⟩

/-! ### the invariant of one edge list -/

/-- no two de-duplicated (direct / TTU) edges of one source share target, kind and tupleset; no
    edge lists a condition twice; no edge has an empty condition list; every edge knows its source -/
structure EdgesOk (src : String) (es : List WEdge) : Prop where
  keys : ((es.filter hop).map key).Nodup
  conds : ∀ e ∈ es, e.conditions.Nodup
  nonempty : ∀ e ∈ es, e.conditions ≠ []
  noBlank : ∀ e ∈ es, "" ∉ e.conditions
  src_eq : ∀ e ∈ es, e.src = src

theorem filter_hop_upd (dst : String) (t : EdgeType) (ts cond : String) (es : List WEdge) :
    ((upsertEdge.upd dst t ts cond es).filter hop).map key = (es.filter hop).map key := by
  induction es with
  | nil => simp [upsertEdge.upd]
  | cons e rest ih =>
    simp only [upsertEdge.upd]
    split
    · split
      · rfl
      · simp only [List.filter_cons]
        have : hop { e with conditions := e.conditions ++ [cond] } = hop e := rfl
        rw [this]
        split <;> simp [key]
    · simp only [List.filter_cons]
      split <;> simp [ih]

theorem EdgesOk.nil (src : String) : EdgesOk src [] :=
  ⟨by simp, by simp, by simp, by simp, by simp⟩

theorem EdgesOk.upsert {src : String} {es : List WEdge} (h : EdgesOk src es)
    (dst : String) (t : EdgeType) (ts cond : String) :
    EdgesOk src (upsertL es src dst t ts cond) := by
  unfold upsertL
  simp only
  have hc0 : (if cond == "" then "none" else cond) ≠ "" := by
    split
    · decide
    · rename_i hne; simpa using hne
  generalize (if cond == "" then "none" else cond) = c at hc0
  split
  · refine ⟨?_, ?_, ?_, ?_, ?_⟩
    · rw [filter_hop_upd]; exact h.keys
    · intro e' he'
      obtain ⟨e, he, _, _, hc⟩ := upd_mem _ _ _ _ _ _ he'
      rcases hc with hc | ⟨hn, hc, _⟩
      · rw [hc]; exact h.conds e he
      · rw [hc]
        exact List.nodup_append.2 ⟨h.conds e he, by simp, by
          intro a ha b hb; simp at hb; subst hb; intro e; exact hn (e ▸ ha)⟩
    · intro e' he'
      obtain ⟨e, he, _, _, hc⟩ := upd_mem _ _ _ _ _ _ he'
      rcases hc with hc | ⟨_, hc, _⟩
      · rw [hc]; exact h.nonempty e he
      · rw [hc]; simp
    · intro e' he'
      obtain ⟨e, he, _, _, hc⟩ := upd_mem _ _ _ _ _ _ he'
      rcases hc with hc | ⟨_, hc, _⟩
      · rw [hc]; exact h.noBlank e he
      · rw [hc]; intro hm
        rcases List.mem_append.1 hm with hm | hm
        · exact h.noBlank e he hm
        · simp at hm; exact hc0 hm
    · intro e' he'
      obtain ⟨e, he, hs, _, _⟩ := upd_mem _ _ _ _ _ _ he'
      rw [hs]; exact h.src_eq e he
  · rename_i hany
    have hnone : ∀ e ∈ es, key e ≠ (dst, t, ts) := by
      intro e he hk
      apply hany
      exact List.any_eq_true.2 ⟨e, he, (sameEdge_iff _ _ _ _).2 hk⟩
    refine ⟨?_, ?_, ?_, ?_, ?_⟩
    · rw [List.filter_append, List.map_append]
      refine List.nodup_append.2 ⟨h.keys, ?_, ?_⟩
      · simp only [List.filter_cons, List.filter_nil]; split <;> simp
      · intro a ha b hb
        simp only [List.filter_cons, List.filter_nil] at hb
        split at hb
        · simp only [List.map_cons, List.map_nil, List.mem_singleton] at hb
          subst hb
          obtain ⟨e, he, rfl⟩ := List.mem_map.1 ha
          exact hnone e (List.mem_filter.1 he).1
        · simp at hb
    · intro e he
      rcases List.mem_append.1 he with he | he
      · exact h.conds e he
      · simp at he; subst he; simp
    · intro e he
      rcases List.mem_append.1 he with he | he
      · exact h.nonempty e he
      · simp at he; subst he; simp
    · intro e he
      rcases List.mem_append.1 he with he | he
      · exact h.noBlank e he
      · simp at he; subst he; simpa using fun e => hc0 e
    · intro e he
      rcases List.mem_append.1 he with he | he
      · exact h.src_eq e he
      · simp at he; subst he; rfl

/-- after `UpsertEdge` an edge with the key exists and carries the (normalised) condition -/
theorem upsertL_has (es : List WEdge) (src dst : String) (t : EdgeType) (ts cond : String) :
    ∃ e ∈ upsertL es src dst t ts cond, key e = (dst, t, ts) ∧ (if cond == "" then "none" else cond) ∈ e.conditions := by
  unfold upsertL
  simp only
  split
  · rename_i h; exact upd_has _ _ _ _ _ h
  · exact ⟨⟨src, dst, t, ts, [if cond == "" then "none" else cond]⟩, by simp, rfl, by simp⟩

/-- old edges survive `UpsertEdge`; their conditions stay a prefix of the new ones -/
theorem upsertL_keeps (es : List WEdge) (src dst : String) (t : EdgeType) (ts cond : String) (e : WEdge) (h : e ∈ es) :
    ∃ e' ∈ upsertL es src dst t ts cond, e'.src = e.src ∧ key e' = key e ∧ e.conditions <+: e'.conditions := by
  unfold upsertL
  simp only
  split
  · exact upd_keeps _ _ _ _ _ _ h
  · exact ⟨e, by simp [h], rfl, rfl, List.prefix_refl _⟩

/-- provenance: every edge after `UpsertEdge` is an old edge (conditions possibly extended by the
    new one, and only if it has the key) or the new edge -/
theorem upsertL_mem (es : List WEdge) (src dst : String) (t : EdgeType) (ts cond : String) (e' : WEdge)
    (h : e' ∈ upsertL es src dst t ts cond) :
    (∃ e ∈ es, key e' = key e ∧ ∀ c ∈ e'.conditions, c ∈ e.conditions ∨ (c = (if cond == "" then "none" else cond) ∧ key e = (dst, t, ts))) ∨
    (key e' = (dst, t, ts) ∧ e'.conditions = [if cond == "" then "none" else cond]) := by
  unfold upsertL at h
  simp only at h
  split at h
  · obtain ⟨e, he, _, hk, hc⟩ := upd_mem _ _ _ _ _ _ h
    refine Or.inl ⟨e, he, hk, ?_⟩
    intro c hcm
    rcases hc with hc | ⟨_, hc, hk2⟩
    · exact Or.inl (hc ▸ hcm)
    · rw [hc] at hcm
      rcases List.mem_append.1 hcm with hcm | hcm
      · exact Or.inl hcm
      · simp only [List.mem_singleton] at hcm; exact Or.inr ⟨hcm, hk2⟩
  · rcases List.mem_append.1 h with h | h
    · exact Or.inl ⟨e', h, rfl, fun c hc => Or.inl hc⟩
    · simp only [List.mem_singleton] at h; subst h; exact Or.inr ⟨rfl, rfl⟩

end FgaVerif.Model.WGraph

namespace FgaVerif.Model.WGraph

/-! ### graph-level invariant and the append-only relation between successive graphs -/

structure Inv (g : G) : Prop where
  labels : (g.nodes.map (·.uniqueLabel)).Nodup
  edges : ∀ src, EdgesOk src (edgesOf g src)

/-- `g'` extends `g`: node list and, per source, the sequence of edge keys only grow at the end -/
structure Ext (g g' : G) : Prop where
  nodes : g.nodes <+: g'.nodes
  keys : ∀ src, (edgesOf g src).map key <+: (edgesOf g' src).map key
  conds : ∀ src, ∀ e ∈ edgesOf g src, ∃ e' ∈ edgesOf g' src, key e' = key e ∧ e.conditions <+: e'.conditions

structure Step (g g' : G) : Prop where
  inv : Inv g → Inv g'
  ext : Ext g g'

theorem Ext.refl (g : G) : Ext g g :=
  ⟨List.prefix_refl _, fun _ => List.prefix_refl _, fun _ e he => ⟨e, he, rfl, List.prefix_refl _⟩⟩

theorem Ext.trans {a b c : G} (h1 : Ext a b) (h2 : Ext b c) : Ext a c :=
  ⟨h1.nodes.trans h2.nodes, fun s => (h1.keys s).trans (h2.keys s), by
    intro s e he
    obtain ⟨e1, he1, hk1, hp1⟩ := h1.conds s e he
    obtain ⟨e2, he2, hk2, hp2⟩ := h2.conds s e1 he1
    exact ⟨e2, he2, hk2.trans hk1, hp1.trans hp2⟩⟩

theorem Step.refl (g : G) : Step g g := ⟨id, Ext.refl g⟩
theorem Step.trans {a b c : G} (h1 : Step a b) (h2 : Step b c) : Step a c :=
  ⟨fun h => h2.inv (h1.inv h), h1.ext.trans h2.ext⟩

theorem Inv.empty : Inv {} := ⟨by simp, fun s => by simpa [edgesOf] using EdgesOk.nil s⟩

theorem node?_none {g : G} {ul : String} (h : g.node? ul = none) : ul ∉ g.nodes.map (·.uniqueLabel) := by
  unfold G.node? at h
  rw [List.find?_eq_none] at h
  intro hm
  obtain ⟨n, hn, rfl⟩ := List.mem_map.1 hm
  exact h n hn (by simp)

theorem getOrAddNode_label (g : G) (ul label : String) (t : NodeType) :
    (getOrAddNode g ul label t).2.uniqueLabel = ul := by
  unfold getOrAddNode
  split
  · rename_i n h
    unfold G.node? at h
    have := List.find?_some h
    simpa using this
  · rfl

theorem getOrAddNode_step (g : G) (ul label : String) (t : NodeType) : Step g (getOrAddNode g ul label t).1 := by
  unfold getOrAddNode
  split
  · exact Step.refl g
  · rename_i h
    refine ⟨fun hi => ⟨?_, fun s => hi.edges s⟩, ⟨List.prefix_append _ _, fun s => List.prefix_refl _, fun s e he => ⟨e, he, rfl, List.prefix_refl _⟩⟩⟩
    simp only [List.map_append, List.map_cons, List.map_nil]
    exact List.nodup_append.2 ⟨hi.labels, by simp, by
      intro a ha b hb; simp at hb; subst hb; intro e; exact node?_none h (e ▸ ha)⟩

theorem getOrAddNode_mem (g : G) (ul label : String) (t : NodeType) :
    ul ∈ (getOrAddNode g ul label t).1.nodes.map (·.uniqueLabel) := by
  unfold getOrAddNode
  split
  · rename_i n h
    unfold G.node? at h
    have h1 := List.find?_some h
    have h2 := List.mem_of_find?_eq_some h
    exact List.mem_map.2 ⟨n, h2, by simpa using h1⟩
  · simp

/-- `AddEdge` with a kind that is not de-duplicated (rewrite / computed) -/
theorem addEdge_step (g : G) (src dst : String) (t : EdgeType) (ts : String)
    (ht : (t == .direct || t == .ttu) = false) : Step g (addEdge g src dst t ts) := by
  unfold addEdge
  refine ⟨fun hi => ⟨by rw [nodes_setEdges]; exact hi.labels, ?_⟩, ⟨by rw [nodes_setEdges]; exact List.prefix_refl _, ?_, ?_⟩⟩
  · intro s
    by_cases hs : s = src
    · subst hs
      rw [edgesOf_setEdges_same]
      have h := hi.edges s
      refine ⟨?_, ?_, ?_, ?_, ?_⟩
      · have : hop (⟨s, dst, t, ts, ["none"]⟩ : WEdge) = false := ht
        simpa [List.filter_append, List.filter_cons, this] using h.keys
      · intro e he
        rcases List.mem_append.1 he with he | he
        · exact h.conds e he
        · simp at he; subst he; simp
      · intro e he
        rcases List.mem_append.1 he with he | he
        · exact h.nonempty e he
        · simp at he; subst he; simp
      · intro e he
        rcases List.mem_append.1 he with he | he
        · exact h.noBlank e he
        · simp at he; subst he; simp
      · intro e he
        rcases List.mem_append.1 he with he | he
        · exact h.src_eq e he
        · simp at he; subst he; rfl
    · rw [edgesOf_setEdges_other _ _ _ _ hs]; exact hi.edges s
  · intro s
    by_cases hs : s = src
    · subst hs; rw [edgesOf_setEdges_same]; simp
    · rw [edgesOf_setEdges_other _ _ _ _ hs]; exact List.prefix_refl _
  · intro s e he
    by_cases hs : s = src
    · subst hs; rw [edgesOf_setEdges_same]; exact ⟨e, by simp [he], rfl, List.prefix_refl _⟩
    · rw [edgesOf_setEdges_other _ _ _ _ hs]; exact ⟨e, he, rfl, List.prefix_refl _⟩

theorem upsertL_keys_prefix (es : List WEdge) (src dst : String) (t : EdgeType) (ts cond : String) :
    es.map key <+: (upsertL es src dst t ts cond).map key := by
  unfold upsertL
  simp only
  split
  · rw [upd_keys]; exact List.prefix_refl _
  · simp

theorem upsertEdge_step (g : G) (src dst : String) (t : EdgeType) (ts cond : String) :
    Step g (upsertEdge g src dst t ts cond) := by
  refine ⟨fun hi => ⟨by rw [nodes_upsert]; exact hi.labels, ?_⟩, ⟨by rw [nodes_upsert]; exact List.prefix_refl _, ?_, ?_⟩⟩
  · intro s
    by_cases hs : s = src
    · subst hs; rw [edgesOf_upsert_same]; exact (hi.edges s).upsert dst t ts cond
    · rw [edgesOf_upsert_other _ _ _ _ _ _ _ hs]; exact hi.edges s
  · intro s
    by_cases hs : s = src
    · subst hs; rw [edgesOf_upsert_same]; exact upsertL_keys_prefix _ _ _ _ _ _
    · rw [edgesOf_upsert_other _ _ _ _ _ _ _ hs]; exact List.prefix_refl _
  · intro s e he
    by_cases hs : s = src
    · subst hs; rw [edgesOf_upsert_same]
      obtain ⟨e', he', _, hk, hp⟩ := upsertL_keeps _ s dst t ts cond e he
      exact ⟨e', he', hk, hp⟩
    · rw [edgesOf_upsert_other _ _ _ _ _ _ _ hs]; exact ⟨e, he, rfl, List.prefix_refl _⟩

/-- target label of a type restriction, as `parseThis` computes it -/
def refLabel (r : RelRef) : String :=
  if !r.wildcard && r.rel == "" then r.type
  else if r.wildcard then r.type ++ ":*"
  else r.type ++ "#" ++ r.rel

def normCond (c : String) : String := if c == "" then "none" else c

/-- one iteration of `parseThis` -/
def thisStep (parent : String) (r : RelRef) (g : G) : G :=
  let p :=
    if !r.wildcard && r.rel == "" then getOrAddNode g r.type r.type .specificType
    else if r.wildcard then getOrAddNode g (r.type ++ ":*") (r.type ++ ":*") .wildcard
    else getOrAddNode g (r.type ++ "#" ++ r.rel) (r.type ++ "#" ++ r.rel) .typeAndRelation
  upsertEdge p.1 parent p.2.uniqueLabel .direct "" r.cond

def refType (r : RelRef) : NodeType :=
  if !r.wildcard && r.rel == "" then .specificType
  else if r.wildcard then .wildcard
  else .typeAndRelation

theorem thisStep_eq (parent : String) (r : RelRef) (g : G) :
    thisStep parent r g =
      upsertEdge (getOrAddNode g (refLabel r) (refLabel r) (refType r)).1 parent (refLabel r) .direct "" r.cond := by
  unfold thisStep refLabel refType
  simp only
  split
  · rw [getOrAddNode_label]
  · split <;> rw [getOrAddNode_label]

theorem parseThisRefs_cons (parent : String) (r : RelRef) (rest : List RelRef) (g : G) :
    parseThisRefs parent (r :: rest) g = parseThisRefs parent rest (thisStep parent r g) := by
  simp only [parseThisRefs, thisStep]

theorem thisStep_step (parent : String) (r : RelRef) (g : G) : Step g (thisStep parent r g) := by
  rw [thisStep_eq]
  exact (getOrAddNode_step _ _ _ _).trans (upsertEdge_step _ _ _ _ _ _)

/-- after one iteration the restriction has its direct edge, carrying its condition, and its node -/
theorem thisStep_has (parent : String) (r : RelRef) (g : G) :
    (∃ e ∈ edgesOf (thisStep parent r g) parent, key e = (refLabel r, .direct, "") ∧ normCond r.cond ∈ e.conditions) ∧
    refLabel r ∈ (thisStep parent r g).nodes.map (·.uniqueLabel) := by
  rw [thisStep_eq, edgesOf_upsert_same, nodes_upsert]
  exact ⟨upsertL_has _ _ _ _ _ _, getOrAddNode_mem _ _ _ _⟩

/-- provenance of one iteration: every edge of `parent` afterwards is an old edge (conditions extended
    at most by this restriction's, and only on the edge to this restriction's target) or the new edge -/
theorem thisStep_mem (parent : String) (r : RelRef) (g : G) (e' : WEdge) (h : e' ∈ edgesOf (thisStep parent r g) parent) :
    (∃ e ∈ edgesOf g parent, key e' = key e ∧
        ∀ c ∈ e'.conditions, c ∈ e.conditions ∨ (c = normCond r.cond ∧ key e = (refLabel r, .direct, ""))) ∨
    (key e' = (refLabel r, .direct, "") ∧ e'.conditions = [normCond r.cond]) := by
  rw [thisStep_eq, edgesOf_upsert_same, edgesOf_getOrAddNode] at h
  exact upsertL_mem _ _ _ _ _ _ _ h

theorem parseThisRefs_step (parent : String) (refs : List RelRef) (g : G) : Step g (parseThisRefs parent refs g) := by
  induction refs generalizing g with
  | nil => exact Step.refl g
  | cons r rest ih => rw [parseThisRefs_cons]; exact (thisStep_step parent r g).trans (ih _)

end FgaVerif.Model.WGraph

namespace FgaVerif.Model.WGraph

/-- every restriction of a direct assignment ends up with a direct edge that carries its condition -/
theorem parseThisRefs_complete (parent : String) (refs : List RelRef) (g : G) :
    ∀ r ∈ refs, ∃ e ∈ edgesOf (parseThisRefs parent refs g) parent,
      key e = (refLabel r, .direct, "") ∧ normCond r.cond ∈ e.conditions := by
  induction refs generalizing g with
  | nil => intro r hr; simp at hr
  | cons r0 rest ih =>
    intro r hr
    rw [parseThisRefs_cons]
    rcases List.mem_cons.1 hr with rfl | hr
    · obtain ⟨e, he, hk, hc⟩ := (thisStep_has parent r g).1
      obtain ⟨e', he', hk', hp⟩ := (parseThisRefs_step parent rest (thisStep parent r g)).ext.conds parent e he
      exact ⟨e', he', hk'.trans hk, hp.subset hc⟩
    · exact ih _ r hr

/-- nothing is invented: an edge of `parent` after `parseThis` is an old edge or points to the target
    of a restriction, and each of its conditions is old or the condition of a restriction with that target -/
theorem parseThisRefs_sound (parent : String) (refs : List RelRef) (g : G) :
    ∀ e' ∈ edgesOf (parseThisRefs parent refs g) parent,
      ((∃ e ∈ edgesOf g parent, key e' = key e ∧ ∀ c ∈ e'.conditions, c ∈ e.conditions ∨
          ∃ r ∈ refs, c = normCond r.cond ∧ key e' = (refLabel r, .direct, "")) ∨
       ((∃ r ∈ refs, key e' = (refLabel r, .direct, "")) ∧
          ∀ c ∈ e'.conditions, ∃ r ∈ refs, c = normCond r.cond ∧ key e' = (refLabel r, .direct, ""))) := by
  induction refs generalizing g with
  | nil => intro e' he'; exact Or.inl ⟨e', he', rfl, fun c hc => Or.inl hc⟩
  | cons r0 rest ih =>
    intro e' he'
    rw [parseThisRefs_cons] at he'
    rcases ih _ e' he' with ⟨e1, he1, hk1, hc1⟩ | ⟨⟨r, hr, hk⟩, hc⟩
    · rcases thisStep_mem parent r0 g e1 he1 with ⟨e, he, hk, hc⟩ | ⟨hk, hc⟩
      · refine Or.inl ⟨e, he, hk1.trans hk, ?_⟩
        intro c hcm
        rcases hc1 c hcm with h | ⟨r, hr, h1, h2⟩
        · rcases hc c h with h | ⟨h1, h2⟩
          · exact Or.inl h
          · exact Or.inr ⟨r0, by simp, h1, (hk1.trans hk).trans h2⟩
        · exact Or.inr ⟨r, by simp [hr], h1, h2⟩
      · refine Or.inr ⟨⟨r0, by simp, hk1.trans hk⟩, ?_⟩
        intro c hcm
        rcases hc1 c hcm with h | ⟨r, hr, h1, h2⟩
        · rw [hc] at h; simp at h
          exact ⟨r0, by simp, h, hk1.trans hk⟩
        · exact ⟨r, by simp [hr], h1, h2⟩
    · exact Or.inr ⟨⟨r, by simp [hr], hk⟩, fun c hcm => by
        obtain ⟨r', hr', h⟩ := hc c hcm
        exact ⟨r', by simp [hr'], h⟩⟩

/-! ### tuple-to-userset -/

def ttuStep (td : TypeDef) (parent ts cu : String) (r : RelRef) (g : G) : G :=
  let p := getOrAddNode g (r.type ++ "#" ++ cu) (r.type ++ "#" ++ cu) .typeAndRelation
  if hasEdge p.1 parent p.2.uniqueLabel .ttu (td.name ++ "#" ++ ts) then p.1
  else upsertEdge p.1 parent p.2.uniqueLabel .ttu (td.name ++ "#" ++ ts) r.cond

theorem parseTTURefs_cons (m : Model) (td : TypeDef) (parent ts cu : String) (r : RelRef) (rest : List RelRef) (g : G) :
    parseTTURefs m td parent ts cu (r :: rest) g =
      if !typeAndRelationExists m r.type cu then .error (.missingRelation r.type cu)
      else parseTTURefs m td parent ts cu rest (ttuStep td parent ts cu r g) := by
  simp only [parseTTURefs, ttuStep]

theorem ttuStep_step (td : TypeDef) (parent ts cu : String) (r : RelRef) (g : G) :
    Step g (ttuStep td parent ts cu r g) := by
  unfold ttuStep
  simp only
  split
  · exact getOrAddNode_step _ _ _ _
  · exact (getOrAddNode_step _ _ _ _).trans (upsertEdge_step _ _ _ _ _ _)

theorem ttuStep_has (td : TypeDef) (parent ts cu : String) (r : RelRef) (g : G) :
    ∃ e ∈ edgesOf (ttuStep td parent ts cu r g) parent, key e = (r.type ++ "#" ++ cu, .ttu, td.name ++ "#" ++ ts) := by
  unfold ttuStep
  simp only
  split
  · rename_i h
    unfold hasEdge at h
    obtain ⟨e, he, hs⟩ := List.any_eq_true.1 h
    rw [getOrAddNode_label] at hs
    exact ⟨e, he, (sameEdge_iff _ _ _ _).1 hs⟩
  · rw [edgesOf_upsert_same, getOrAddNode_label]
    obtain ⟨e, he, hk, _⟩ := upsertL_has (edgesOf (getOrAddNode g (r.type ++ "#" ++ cu) (r.type ++ "#" ++ cu) .typeAndRelation).1 parent)
      parent (r.type ++ "#" ++ cu) .ttu (td.name ++ "#" ++ ts) r.cond
    exact ⟨e, he, hk⟩

theorem parseTTURefs_step (m : Model) (td : TypeDef) (parent ts cu : String) (refs : List RelRef) (g g' : G)
    (h : parseTTURefs m td parent ts cu refs g = .ok g') : Step g g' := by
  induction refs generalizing g with
  | nil => simp only [parseTTURefs, Except.ok.injEq] at h; subst h; exact Step.refl g
  | cons r rest ih =>
    rw [parseTTURefs_cons] at h
    split at h
    · cases h
    · exact (ttuStep_step td parent ts cu r g).trans (ih _ h)

/-- one TTU edge per parent type of the tupleset, labelled `type#tupleset`; every parent type has the
    computed relation -/
theorem parseTTURefs_complete (m : Model) (td : TypeDef) (parent ts cu : String) (refs : List RelRef) (g g' : G)
    (h : parseTTURefs m td parent ts cu refs g = .ok g') :
    ∀ r ∈ refs, typeAndRelationExists m r.type cu = true ∧
      ∃ e ∈ edgesOf g' parent, key e = (r.type ++ "#" ++ cu, .ttu, td.name ++ "#" ++ ts) := by
  induction refs generalizing g with
  | nil => intro r hr; simp at hr
  | cons r0 rest ih =>
    intro r hr
    rw [parseTTURefs_cons] at h
    split at h
    · cases h
    · rename_i hex
      rcases List.mem_cons.1 hr with rfl | hr
      · refine ⟨by simpa using hex, ?_⟩
        obtain ⟨e, he, hk⟩ := ttuStep_has td parent ts cu r g
        obtain ⟨e', he', hk', _⟩ := (parseTTURefs_step m td parent ts cu rest _ g' h).ext.conds parent e he
        exact ⟨e', he', hk'.trans hk⟩
      · exact ih _ h r hr

/-! ### operators and the recursion over the rewrite -/

theorem mkOp_step (g : G) (parent op : String) : Step g (mkOp g parent op).1 := by
  unfold mkOp
  simp only
  have h0 : Step g { g with opCount := g.opCount + 1 } :=
    ⟨fun hi => ⟨hi.labels, hi.edges⟩, ⟨List.prefix_refl _, fun _ => List.prefix_refl _, fun _ e he => ⟨e, he, rfl, List.prefix_refl _⟩⟩⟩
  exact h0.trans ((getOrAddNode_step _ _ _ _).trans (addEdge_step _ _ _ _ _ rfl))

/-- the operator node is appended as the last edge of its parent: a rewrite edge, unconditioned -/
theorem mkOp_edge (g : G) (parent op : String) :
    edgesOf (mkOp g parent op).1 parent =
      edgesOf g parent ++ [⟨parent, (mkOp g parent op).2, .rewrite, "", ["none"]⟩] := by
  unfold mkOp addEdge
  simp only
  rw [edgesOf_setEdges_same, edgesOf_getOrAddNode]
  rfl

mutual
  theorem parseRewrite_step (m : Model) (td : TypeDef) (rel : String) :
      ∀ (u : Userset) (parent : String) (pr : Bool) (g g' : G),
        parseRewrite m td rel parent pr u g = .ok g' → Step g g'
    | .this, parent, pr, g, g', h => by
      simp only [parseRewrite] at h
      split at h
      · simp only [Except.ok.injEq] at h; subst h; exact parseThisRefs_step _ _ _
      · simp only [Except.ok.injEq] at h; subst h; exact Step.refl g
    | .computed r, parent, pr, g, g', h => by
      simp only [parseRewrite, Except.ok.injEq] at h
      subst h
      refine (getOrAddNode_step _ _ _ _).trans (addEdge_step _ _ _ _ _ ?_)
      split <;> rfl
    | .ttu ts cu, parent, pr, g, g', h => by
      simp only [parseRewrite] at h
      split at h
      · cases h
      · split at h
        · cases h
        · exact parseTTURefs_step _ _ _ _ _ _ _ _ h
    | .union cs, parent, pr, g, g', h => by
      simp only [parseRewrite] at h
      exact (mkOp_step g parent "union").trans (parseChildren_step m td rel cs _ _ _ h)
    | .inter cs, parent, pr, g, g', h => by
      simp only [parseRewrite] at h
      exact (mkOp_step g parent "intersection").trans (parseChildren_step m td rel cs _ _ _ h)
    | .diff b s, parent, pr, g, g', h => by
      simp only [parseRewrite] at h
      split at h
      · cases h
      · rename_i g1 hb
        exact (mkOp_step g parent "exclusion").trans
          ((parseRewrite_step m td rel b _ _ _ _ hb).trans (parseRewrite_step m td rel s _ _ _ _ h))
    | .nil, parent, pr, g, g', h => by
      simp only [parseRewrite, Except.ok.injEq] at h
      subst h; exact mkOp_step g parent ""
  theorem parseChildren_step (m : Model) (td : TypeDef) (rel : String) :
      ∀ (cs : List Userset) (parent : String) (g g' : G),
        parseChildren m td rel parent cs g = .ok g' → Step g g'
    | [], parent, g, g', h => by
      simp only [parseChildren, Except.ok.injEq] at h; subst h; exact Step.refl g
    | c :: cs, parent, g, g', h => by
      simp only [parseChildren] at h
      split at h
      · cases h
      · rename_i g1 hc
        exact (parseRewrite_step m td rel c _ _ _ _ hc).trans (parseChildren_step m td rel cs _ _ _ h)
end

theorem buildRelations_step (m : Model) (td : TypeDef) (rels : List (String × Userset)) (g g' : G)
    (h : buildRelations m td rels g = .ok g') : Step g g' := by
  induction rels generalizing g with
  | nil => simp only [buildRelations, Except.ok.injEq] at h; subst h; exact Step.refl g
  | cons ru rest ih =>
    obtain ⟨rel, u⟩ := ru
    simp only [buildRelations] at h
    split at h
    · cases h
    · rename_i g1 hr
      exact (getOrAddNode_step _ _ _ _).trans ((parseRewrite_step m td rel u _ _ _ _ hr).trans (ih _ h))

theorem buildTypes_step (m : Model) (tds : List TypeDef) (g g' : G)
    (h : buildTypes m tds g = .ok g') : Step g g' := by
  induction tds generalizing g with
  | nil => simp only [buildTypes, Except.ok.injEq] at h; subst h; exact Step.refl g
  | cons td rest ih =>
    simp only [buildTypes] at h
    split at h
    · cases h
    · rename_i g1 hr
      exact (getOrAddNode_step _ _ _ _).trans ((buildRelations_step m td _ _ _ hr).trans (ih _ h))

theorem build_inv (m : Model) (g : G) (h : build m = .ok g) : Inv g :=
  (buildTypes_step m _ _ _ h).inv Inv.empty


/-! ### every type and every defined relation has its node -/

theorem Ext.label_mono {g g' : G} (h : Ext g g') (l : String) (hl : l ∈ g.nodes.map (·.uniqueLabel)) :
    l ∈ g'.nodes.map (·.uniqueLabel) := by
  obtain ⟨n, hn, rfl⟩ := List.mem_map.1 hl
  exact List.mem_map.2 ⟨n, h.nodes.subset hn, rfl⟩

theorem buildRelations_labels (m : Model) (td : TypeDef) (rels : List (String × Userset)) (g g' : G)
    (h : buildRelations m td rels g = .ok g') :
    ∀ ru ∈ rels, (td.name ++ "#" ++ ru.1) ∈ g'.nodes.map (·.uniqueLabel) := by
  induction rels generalizing g with
  | nil => intro ru hru; simp at hru
  | cons ru rest ih =>
    obtain ⟨rel, u⟩ := ru
    simp only [buildRelations] at h
    split at h
    · cases h
    · rename_i g1 hr
      intro x hx
      rcases List.mem_cons.1 hx with rfl | hx
      · have h0 := getOrAddNode_mem g (td.name ++ "#" ++ rel) (td.name ++ "#" ++ rel) .typeAndRelation
        have e1 := (parseRewrite_step m td rel u _ _ _ _ hr).ext
        have e2 := (buildRelations_step m td rest _ _ h).ext
        exact e2.label_mono _ (e1.label_mono _ h0)
      · exact ih _ h x hx

theorem buildTypes_labels (m : Model) (tds : List TypeDef) (g g' : G) (h : buildTypes m tds g = .ok g') :
    ∀ td ∈ tds, td.name ∈ g'.nodes.map (·.uniqueLabel) ∧
      ∀ ru ∈ td.relations, (td.name ++ "#" ++ ru.1) ∈ g'.nodes.map (·.uniqueLabel) := by
  induction tds generalizing g with
  | nil => intro td htd; simp at htd
  | cons a rest ih =>
    simp only [buildTypes] at h
    split at h
    · cases h
    · rename_i g1 hr
      intro td htd
      rcases List.mem_cons.1 htd with rfl | htd
      · have h0 := getOrAddNode_mem g td.name td.name .specificType
        have e1 := (buildRelations_step m td _ _ _ hr).ext
        have e2 := (buildTypes_step m rest _ _ h).ext
        refine ⟨e2.label_mono _ (e1.label_mono _ h0), ?_⟩
        intro ru hru
        exact e2.label_mono _ (buildRelations_labels m td _ _ _ hr ru hru)
      · exact ih _ h td htd

theorem build_labels (m : Model) (g : G) (h : build m = .ok g) :
    ∀ td ∈ m.types, td.name ∈ g.nodes.map (·.uniqueLabel) ∧
      ∀ ru ∈ td.relations, (td.name ++ "#" ++ ru.1) ∈ g.nodes.map (·.uniqueLabel) := by
  intro td htd
  unfold build at h
  exact buildTypes_labels m _ _ _ h td ((FgaVerif.insertionSort_perm _ _).mem_iff.2 htd)

end FgaVerif.Model.WGraph
