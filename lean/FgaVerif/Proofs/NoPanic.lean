import FgaVerif.Model.Scoped
/-! The walk of a scoped tree cannot panic: an invariant on the listener state, indexed by the mode
    (inside a type definition / relation declaration / condition), is carried through every callback. -/
namespace FgaVerif.Model.Listener
open FgaVerif.Model

structure SInv (m : Mode) (st : LState) : Prop where
  ext : st.isModular = true → st.typeDefExtensions.isSome = true
  stale : m.inType = false → ∀ td, st.currentTypeDef = some td → td.name = ""
  ty : m.inType = true → ∃ td, st.currentTypeDef = some td ∧ td.md.isSome = true
  rel : m.inRel = true → st.currentRelation.isSome = true ∧ st.rewriteStack.isSome = true
  cond : m.inCond = true → st.currentCondition.isSome = true

/-- `st'` differs from `st` at most in the log, the collected model, and in the contents (not the
    presence) of the current relation / condition -/
structure Same (st st' : LState) : Prop where
  isModular : st'.isModular = st.isModular
  exts : st'.typeDefExtensions = st.typeDefExtensions
  td : st'.currentTypeDef = st.currentTypeDef
  stack : st'.rewriteStack = st.rewriteStack
  rel : st.currentRelation.isSome = true → st'.currentRelation.isSome = true
  cond : st.currentCondition.isSome = true → st'.currentCondition.isSome = true

theorem Same.refl (st : LState) : Same st st := ⟨rfl, rfl, rfl, rfl, id, id⟩

theorem Same.trans {a b c : LState} (h1 : Same a b) (h2 : Same b c) : Same a c :=
  ⟨h2.isModular.trans h1.isModular, h2.exts.trans h1.exts, h2.td.trans h1.td, h2.stack.trans h1.stack,
   fun h => h2.rel (h1.rel h), fun h => h2.cond (h1.cond h)⟩

theorem SInv.same {m : Mode} {st st' : LState} (h : SInv m st) (s : Same st st') : SInv m st' :=
  ⟨fun hm => by rw [s.exts]; exact h.ext (s.isModular ▸ hm),
   fun hm td htd => h.stale hm td (s.td ▸ htd),
   fun hm => by rw [s.td]; exact h.ty hm,
   fun hm => ⟨s.rel (h.rel hm).1, by rw [s.stack]; exact (h.rel hm).2⟩,
   fun hm => s.cond (h.cond hm)⟩

theorem same_notify (st : LState) (msg : String) (t : Tree) : Same st (notify st msg t) :=
  ⟨rfl, rfl, rfl, rfl, id, id⟩

/-- result of a callback that keeps the frame -/
def KeepsFrame (st : LState) (r : R) : Prop := ∃ st', r = .ok st' ∧ Same st st'

theorem keeps_ok (st : LState) : KeepsFrame st (.ok st) := ⟨st, rfl, Same.refl st⟩

theorem keeps_withRelation (st : LState) (what : String) (f : Relation → Relation)
    (h : st.currentRelation.isSome = true) : KeepsFrame st (withRelation st what f) := by
  unfold withRelation
  cases hc : st.currentRelation with
  | none => simp [hc] at h
  | some cr => exact ⟨_, rfl, ⟨rfl, rfl, rfl, rfl, fun _ => rfl, id⟩⟩

/-! ### callbacks that keep the frame -/

theorem keeps_enterMain (st : LState) : KeepsFrame st (enterMain st) := ⟨_, rfl, ⟨rfl, rfl, rfl, rfl, id, id⟩⟩
theorem keeps_enterConditions (st : LState) : KeepsFrame st (enterConditions st) := ⟨_, rfl, ⟨rfl, rfl, rfl, rfl, id, id⟩⟩

theorem keeps_exitModelHeader (c : Tree) (st : LState) : KeepsFrame st (exitModelHeader c st) := by
  unfold exitModelHeader
  split
  · exact ⟨_, rfl, ⟨rfl, rfl, rfl, rfl, id, id⟩⟩
  · exact keeps_ok st

theorem keeps_enterDirect (st : LState) (h : st.currentRelation.isSome = true) :
    KeepsFrame st (enterRelationDefDirectAssignment st) := keeps_withRelation st _ _ h
theorem keeps_exitDirect (st : LState) (h : st.currentRelation.isSome = true) :
    KeepsFrame st (exitRelationDefDirectAssignment st) := keeps_withRelation st _ _ h

theorem keeps_exitRestriction (c : Tree) (st : LState)
    (h : hasRule c "relationDefTypeRestrictionBase" = true → st.currentRelation.isSome = true) :
    KeepsFrame st (exitRelationDefTypeRestriction c st) := by
  unfold exitRelationDefTypeRestriction
  split
  · exact keeps_ok st
  · rename_i base hb
    exact keeps_withRelation st _ _ (h (by simp [hasRule, hb]))

theorem keeps_exitRewrite (c : Tree) (st : LState) (hl : hasLabel c "rewriteComputedusersetName" = true)
    (h : st.currentRelation.isSome = true) : KeepsFrame st (exitRelationDefRewrite c st) := by
  unfold exitRelationDefRewrite
  split
  · rename_i hn; simp [hasLabel, hn] at hl
  · exact keeps_withRelation st _ _ h

theorem keeps_exitRelationRecurse (st : LState) : KeepsFrame st (exitRelationRecurse st) := by
  unfold exitRelationRecurse
  split
  · exact keeps_ok st
  · split
    · exact ⟨_, rfl, ⟨rfl, rfl, rfl, rfl, fun _ => rfl, id⟩⟩
    · exact keeps_ok st

theorem keeps_enterPartials (c : Tree) (st : LState) (h : hasOp c = true → st.currentRelation.isSome = true) :
    KeepsFrame st (enterRelationDefPartials c st) := by
  unfold enterRelationDefPartials
  simp only
  split
  · exact keeps_ok st
  · rename_i o ho
    refine keeps_withRelation st _ _ (h ?_)
    unfold hasOp
    by_cases h1 : (c.childToks "OR").isEmpty = true
    · by_cases h2 : (c.childToks "AND").isEmpty = true
      · by_cases h3 : (c.childTok? "BUT_NOT").isSome = true
        · simp [h3]
        · simp [h1, h2, h3] at ho
      · simp [h2]
    · simp [h1]

theorem keeps_exitConditionParameter (c : Tree) (st : LState)
    (h : (hasRule c "parameterName" && hasRule c "parameterType") = true → st.currentCondition.isSome = true) :
    KeepsFrame st (exitConditionParameter c st) := by
  unfold exitConditionParameter
  split
  · rename_i pn pt hpn hpt
    have hc := h (by simp [hasRule, hpn, hpt])
    cases hcc : st.currentCondition with
    | none => simp [hcc] at hc
    | some cnd =>
      simp only
      by_cases hcont : AList.contains pn.text cnd.params = true
      · simp only [hcont, if_true, notify, hcc]
        exact ⟨_, rfl, ⟨rfl, rfl, rfl, rfl, id, fun _ => rfl⟩⟩
      · simp only [hcont, Bool.false_eq_true, if_false, hcc]
        exact ⟨_, rfl, ⟨rfl, rfl, rfl, rfl, id, fun _ => rfl⟩⟩
  · exact keeps_ok st

theorem keeps_exitConditionExpression (c : Tree) (st : LState) (h : st.currentCondition.isSome = true) :
    KeepsFrame st (exitConditionExpression c st) := by
  unfold exitConditionExpression
  cases hcc : st.currentCondition with
  | none => simp [hcc] at h
  | some cnd => exact ⟨_, rfl, ⟨rfl, rfl, rfl, rfl, id, fun _ => rfl⟩⟩

/-! ### the module header: both fields are set together -/

theorem sinv_exitModuleHeader (c : Tree) (m : Mode) (st : LState) (h : SInv m st) :
    ∃ st', exitModuleHeader c st = .ok st' ∧ SInv m st' ∧ st'.rewriteStack = st.rewriteStack := by
  unfold exitModuleHeader
  simp only
  split
  · exact ⟨_, rfl, ⟨fun _ => rfl, h.stale, h.ty, h.rel, h.cond⟩, rfl⟩
  · exact ⟨_, rfl, ⟨fun _ => rfl, h.stale, h.ty, h.rel, h.cond⟩, rfl⟩

/-! ### conditions -/

theorem sinv_enterCondition (c : Tree) (m : Mode) (st : LState) (h : SInv m st) :
    ∃ st', enterCondition c st = .ok st' ∧ SInv (childMode "condition" c m) st' ∧ st'.rewriteStack = st.rewriteStack := by
  unfold enterCondition
  cases hcn : c.childRule? "conditionName" with
  | none =>
    refine ⟨st, rfl, ?_, rfl⟩
    have : childMode "condition" c m = m := by simp [childMode, hasRule, hcn]
    rw [this]; exact h
  | some cn =>
    have hm : childMode "condition" c m = { m with inCond := true } := by simp [childMode, hasRule, hcn]
    rw [hm]
    simp only
    split
    · exact ⟨_, rfl, ⟨h.ext, h.stale, h.ty, h.rel, fun _ => rfl⟩, rfl⟩
    · exact ⟨_, rfl, ⟨h.ext, h.stale, h.ty, h.rel, fun _ => rfl⟩, rfl⟩

theorem sinv_exitCondition (c : Tree) (m : Mode) (st : LState) (hm : m.inCond = false)
    (h : SInv (childMode "condition" c m) st) :
    ∃ st', exitCondition st = .ok st' ∧ SInv m st' ∧ st'.rewriteStack = st.rewriteStack := by
  have key : SInv m { st with currentCondition := none } ∧ SInv m st := by
    unfold childMode at h
    simp only at h
    split at h
    · exact ⟨⟨h.ext, h.stale, h.ty, h.rel, fun hc => by simp [hm] at hc⟩,
             ⟨h.ext, h.stale, h.ty, h.rel, fun hc => by simp [hm] at hc⟩⟩
    · exact ⟨⟨h.ext, h.stale, h.ty, h.rel, fun hc => by simp [hm] at hc⟩, h⟩
  unfold exitCondition
  split
  · refine ⟨_, rfl, ?_, rfl⟩
    exact ⟨key.1.ext, key.1.stale, key.1.ty, key.1.rel, fun hc => by simp [hm] at hc⟩
  · exact ⟨st, rfl, key.2, rfl⟩

/-! ### type definitions -/

theorem sinv_enterTypeDef (c : Tree) (m : Mode) (st : LState) (hm : m.inType = false) (h : SInv m st) :
    ∃ st', enterTypeDef c st = .ok st' ∧ SInv (childMode "typeDef" c m) st' ∧ st'.rewriteStack = st.rewriteStack := by
  unfold enterTypeDef
  cases hl : c.label? "typeName" with
  | none =>
    refine ⟨st, rfl, ?_, rfl⟩
    have : childMode "typeDef" c m = m := by simp [childMode, hasLabel, hl]
    rw [this]; exact h
  | some tn =>
    have hcm : childMode "typeDef" c m = { m with inType := true } := by simp [childMode, hasLabel, hl]
    rw [hcm]
    simp only
    split
    · exact ⟨_, rfl, ⟨h.ext, fun hc => by simp at hc, fun _ => ⟨_, rfl, rfl⟩, h.rel, h.cond⟩, rfl⟩
    · exact ⟨_, rfl, ⟨h.ext, fun hc => by simp at hc, fun _ => ⟨_, rfl, rfl⟩, h.rel, h.cond⟩, rfl⟩

theorem sinv_exitTypeDef (c : Tree) (m : Mode) (st : LState) (hm : m.inType = false) (hr : m.inRel = false)
    (h : SInv (childMode "typeDef" c m) st) :
    ∃ st', exitTypeDef c st = .ok st' ∧ SInv m st' ∧ st'.rewriteStack = st.rewriteStack := by
  -- facts that hold in either child mode
  have hext := h.ext
  have hrel : m.inRel = true → st.currentRelation.isSome = true ∧ st.rewriteStack.isSome = true := by
    intro hc; simp [hr] at hc
  have hcond : m.inCond = true → st.currentCondition.isSome = true := by
    intro hc
    unfold childMode at h; simp only at h
    split at h
    · exact h.cond hc
    · exact h.cond hc
  have hlabel : ∀ td, st.currentTypeDef = some td → td.name ≠ "" → (c.label? "typeName").isSome = true := by
    intro td htd hne
    unfold childMode at h; simp only at h
    split at h
    · rename_i hl; exact hl
    · exact absurd (h.stale hm td htd) hne
  have mk : ∀ st' : LState, (st'.isModular = true → st'.typeDefExtensions.isSome = true) →
      (∀ td, st'.currentTypeDef = some td → td.name = "") →
      st'.currentRelation = st.currentRelation → st'.rewriteStack = st.rewriteStack →
      st'.currentCondition = st.currentCondition → SInv m st' := by
    intro st' a b c1 c2 c3
    exact ⟨a, fun _ => b, fun hc => by simp [hm] at hc, fun hc => by rw [c1, c2]; exact hrel hc,
      fun hc => by rw [c3]; exact hcond hc⟩
  unfold exitTypeDef
  cases htd : st.currentTypeDef with
  | none => exact ⟨st, rfl, mk st hext (by simp [htd]) rfl rfl rfl, rfl⟩
  | some td =>
    simp only
    by_cases hname : (td.name == "") = true
    · simp only [hname, if_true]
      refine ⟨st, rfl, mk st hext ?_ rfl rfl rfl, rfl⟩
      intro td' htd'
      rw [htd] at htd'; cases htd'
      simpa using hname
    · simp only [hname, Bool.false_eq_true, if_false]
      have hne : td.name ≠ "" := by simpa using hname
      repeat' split
      all_goals first
        | (refine ⟨_, rfl, mk _ ?_ ?_ rfl rfl rfl, rfl⟩ <;> simp_all [notify]; done)
        | (exfalso; have := hlabel td htd hne; simp_all; done)
        | (exfalso; simp_all; done)

/-! ### relation declarations -/

theorem sinv_enterRelationDeclaration (c : Tree) (m : Mode) (st : LState) (h : SInv m st) :
    ∃ st', enterRelationDeclaration st = .ok st' ∧ SInv (childMode "relationDeclaration" c m) st' :=
  ⟨_, rfl, ⟨h.ext, h.stale, h.ty, fun _ => ⟨rfl, rfl⟩, h.cond⟩⟩

theorem sinv_exitRelationDeclaration (c : Tree) (pe : Option Bool) (m : Mode) (st : LState) (hr : m.inRel = false)
    (hn : hasRule c "relationName" = true → m.inType = true)
    (h : SInv (childMode "relationDeclaration" c m) st) :
    ∃ st', exitRelationDeclaration c pe st = .ok st' ∧ SInv m st' := by
  have hcr : st.currentRelation.isSome = true := (h.rel rfl).1
  have base : ∀ st' : LState, st'.isModular = st.isModular → st'.typeDefExtensions = st.typeDefExtensions →
      st'.currentTypeDef = st.currentTypeDef → st'.currentCondition = st.currentCondition → SInv m st' := by
    intro st' a b c1 c2
    exact ⟨fun hm => by rw [b]; exact h.ext (a ▸ hm), fun hm td htd => h.stale hm td (c1 ▸ htd),
      fun hm => by rw [c1]; exact h.ty hm, fun hc => by simp [hr] at hc, fun hc => by rw [c2]; exact h.cond hc⟩
  unfold exitRelationDeclaration
  cases hrn : c.childRule? "relationName" with
  | none => exact ⟨st, rfl, base st rfl rfl rfl rfl⟩
  | some rn =>
    simp only
    have hty := hn (by simp [hasRule, hrn])
    obtain ⟨td, htd, hmd⟩ := h.ty hty
    cases hc : st.currentRelation with
    | none => simp [hc] at hcr
    | some cr =>
      simp only
      cases hpe : parseExpression cr.rewrites cr.operator with
      | none => exact ⟨_, rfl, base _ rfl rfl rfl rfl⟩
      | some relationDef =>
        simp only [htd]
        cases hmdd : td.md with
        | none => simp [hmdd] at hmd
        | some md =>
          by_cases hex : AList.contains rn.text td.relations = true
          · simp only [hex, if_true, notify, htd, hmdd]
            refine ⟨_, rfl, ?_⟩
            exact ⟨h.ext, fun hm => by simp [hm] at hty, fun _ => ⟨_, rfl, rfl⟩, fun hc => by simp [hr] at hc, h.cond⟩
          · simp only [hex, Bool.false_eq_true, if_false, htd, hmdd]
            refine ⟨_, rfl, ?_⟩
            exact ⟨h.ext, fun hm => by simp [hm] at hty, fun _ => ⟨_, rfl, rfl⟩, fun hc => by simp [hr] at hc, h.cond⟩

/-! ### parenthesised sub-expressions: the rewrite stack -/

theorem sinv_enterRecurseNoDirect (m : Mode) (st : LState) (hr : m.inRel = true) (h : SInv m st) :
    ∃ st' x s, enterRelationRecurseNoDirect st = .ok st' ∧ SInv m st' ∧
      st.rewriteStack = some s ∧ st'.rewriteStack = some (x :: s) := by
  obtain ⟨h1, h2⟩ := h.rel hr
  unfold enterRelationRecurseNoDirect
  cases hs : st.rewriteStack with
  | none => simp [hs] at h2
  | some s =>
    simp only
    cases hc : st.currentRelation with
    | none => simp [hc] at h1
    | some cr =>
      exact ⟨_, ⟨cr.rewrites, cr.operator⟩, s, rfl,
        ⟨h.ext, h.stale, h.ty, fun _ => ⟨rfl, rfl⟩, h.cond⟩, rfl, rfl⟩

theorem sinv_exitRecurseNoDirect (m : Mode) (st : LState) (x : StackRel) (s : List StackRel)
    (hr : m.inRel = true) (h : SInv m st) (hs : st.rewriteStack = some (x :: s)) :
    ∃ st', exitRelationRecurseNoDirect st = .ok st' ∧ SInv m st' ∧ st'.rewriteStack = some s := by
  obtain ⟨h1, _⟩ := h.rel hr
  unfold exitRelationRecurseNoDirect
  cases hc : st.currentRelation with
  | none => simp [hc] at h1
  | some cr =>
    simp only [hs]
    split
    · exact ⟨_, rfl, ⟨h.ext, h.stale, h.ty, fun _ => ⟨rfl, rfl⟩, h.cond⟩, rfl⟩
    · refine ⟨_, rfl, ⟨h.ext, h.stale, h.ty, fun _ => ⟨?_, rfl⟩, h.cond⟩, rfl⟩
      simp [hc]


/-! ### the rules whose callbacks keep the frame -/

def special (name : String) : Prop :=
  name = "typeDef" ∨ name = "relationDeclaration" ∨ name = "condition" ∨ name = "relationRecurseNoDirect"

theorem childMode_generic (name : String) (c : Tree) (m : Mode) (h : ¬ special name) : childMode name c m = m := by
  unfold special at h
  unfold childMode
  split
  · exact absurd (Or.inl rfl) h
  · exact absurd (Or.inr (Or.inl rfl)) h
  · exact absurd (Or.inr (Or.inr (Or.inl rfl))) h
  · rfl

theorem enter_generic (name : String) (c : Tree) (m : Mode) (st : LState) (hsp : ¬ special name)
    (hok : nodeOk name c m = true) (hI : SInv m st) : KeepsFrame st (enterRule name c st) := by
  unfold special at hsp
  revert hsp hok
  unfold enterRule
  split
  · intro _ _; exact keeps_enterMain st
  · intro hsp _; exact absurd (Or.inl rfl) hsp
  · intro _ _; exact keeps_enterConditions st
  · intro hsp _; exact absurd (Or.inr (Or.inr (Or.inl rfl))) hsp
  · intro hsp _; exact absurd (Or.inr (Or.inl rfl)) hsp
  · intro _ hok
    have : m.inRel = true := by simpa [nodeOk] using hok
    exact keeps_enterDirect st (hI.rel this).1
  · intro hsp _; exact absurd (Or.inr (Or.inr (Or.inr rfl))) hsp
  · intro _ hok
    refine keeps_enterPartials c st (fun ho => ?_)
    have : m.inRel = true := by simpa [nodeOk, ho] using hok
    exact (hI.rel this).1
  · intro _ _; exact keeps_ok st

theorem exit_generic (name : String) (c : Tree) (pe : Option Bool) (m : Mode) (st : LState) (hsp : ¬ special name)
    (hok : nodeOk name c m = true) (hI : SInv m st) :
    ∃ st', exitRule name c pe st = .ok st' ∧ SInv m st' ∧ st'.rewriteStack = st.rewriteStack := by
  have fromKeeps : ∀ r, KeepsFrame st r → ∃ st', r = .ok st' ∧ SInv m st' ∧ st'.rewriteStack = st.rewriteStack := by
    rintro r ⟨st', e, s⟩; exact ⟨st', e, hI.same s, s.stack⟩
  unfold special at hsp
  revert hsp hok
  unfold exitRule
  split
  · intro _ _; exact sinv_exitModuleHeader c m st hI
  · intro _ _; exact fromKeeps _ (keeps_exitModelHeader c st)
  · intro _ hok
    refine fromKeeps _ (keeps_exitConditionParameter c st (fun hb => ?_))
    have : m.inCond = true := by simpa [nodeOk, hb] using hok
    exact hI.cond this
  · intro _ hok
    have : m.inCond = true := by simpa [nodeOk] using hok
    exact fromKeeps _ (keeps_exitConditionExpression c st (hI.cond this))
  · intro hsp _; exact absurd (Or.inr (Or.inr (Or.inl rfl))) hsp
  · intro hsp _; exact absurd (Or.inl rfl) hsp
  · intro hsp _; exact absurd (Or.inr (Or.inl rfl)) hsp
  · intro _ hok
    have : m.inRel = true := by simpa [nodeOk] using hok
    exact fromKeeps _ (keeps_exitDirect st (hI.rel this).1)
  · intro _ hok
    refine fromKeeps _ (keeps_exitRestriction c st (fun hb => ?_))
    have : m.inRel = true := by simpa [nodeOk, hb] using hok
    exact (hI.rel this).1
  · intro _ hok
    have h2 : hasLabel c "rewriteComputedusersetName" = true ∧ m.inRel = true := by simpa [nodeOk] using hok
    exact fromKeeps _ (keeps_exitRewrite c st h2.1 (hI.rel h2.2).1)
  · intro _ _; exact fromKeeps _ (keeps_exitRelationRecurse st)
  · intro hsp _; exact absurd (Or.inr (Or.inr (Or.inr rfl))) hsp
  · intro _ _; exact fromKeeps _ (keeps_ok st)

/-! ### the walk -/

/-- the walk ends without panic, the invariant holds again, and inside a relation declaration the
    rewrite stack is what it was -/
def Post (m : Mode) (st : LState) (r : R) : Prop :=
  ∃ st', r = .ok st' ∧ SInv m st' ∧ (m.inRel = true → st'.rewriteStack = st.rewriteStack)

mutual
  theorem walk_scoped (pe : Option Bool) :
      (t : Tree) → ∀ (m : Mode) (st : LState), wellScoped m t = true → SInv m st → Post m st (walk pe t st)
    | .tok _ _ _ _ _ => fun m st _ hI => ⟨st, by simp [walk], hI, fun _ => rfl⟩
    | .rule name sl sc ls cs => by
      intro m st hs hI
      rw [wellScoped] at hs
      simp only [Bool.and_eq_true] at hs
      obtain ⟨hok, hcs⟩ := hs
      rw [walk]
      simp only
      generalize (if (name == "typeDef") = true then some ((Tree.rule name sl sc ls cs).childTok? "EXTEND").isSome
        else none) = pe'
      by_cases h1 : name = "typeDef"
      · subst h1
        have hm : m.inType = false ∧ m.inRel = false := by simpa [nodeOk] using hok
        obtain ⟨st1, e1, I1, _⟩ := sinv_enterTypeDef (.rule "typeDef" sl sc ls cs) m st hm.1 hI
        have he : enterRule "typeDef" (.rule "typeDef" sl sc ls cs) st = enterTypeDef (.rule "typeDef" sl sc ls cs) st := by
          simp [enterRule]
        rw [he, e1]
        obtain ⟨st2, e2, I2, _⟩ := walkL_scoped pe' cs _ st1 hcs I1
        simp only [e2]
        have hx : exitRule "typeDef" (.rule "typeDef" sl sc ls cs) pe st2 = exitTypeDef (.rule "typeDef" sl sc ls cs) st2 := by
          simp [exitRule]
        obtain ⟨st3, e3, I3, _⟩ := sinv_exitTypeDef (.rule "typeDef" sl sc ls cs) m st2 hm.1 hm.2 I2
        rw [hx, e3]
        exact ⟨st3, rfl, I3, fun hr => by simp [hm.2] at hr⟩
      · by_cases h2 : name = "relationDeclaration"
        · subst h2
          have hm : m.inRel = false ∧ (hasRule (.rule "relationDeclaration" sl sc ls cs) "relationName" = true → m.inType = true) := by
            have := hok
            simp only [nodeOk, Bool.and_eq_true, Bool.not_eq_true', Bool.or_eq_true] at this
            refine ⟨this.1, fun hh => ?_⟩
            rcases this.2 with h | h
            · rw [hh] at h; cases h
            · exact h
          obtain ⟨st1, e1, I1⟩ := sinv_enterRelationDeclaration (.rule "relationDeclaration" sl sc ls cs) m st hI
          have he : enterRule "relationDeclaration" (.rule "relationDeclaration" sl sc ls cs) st = enterRelationDeclaration st := by
            simp [enterRule]
          rw [he, e1]
          obtain ⟨st2, e2, I2, _⟩ := walkL_scoped pe' cs _ st1 hcs I1
          simp only [e2]
          have hx : exitRule "relationDeclaration" (.rule "relationDeclaration" sl sc ls cs) pe st2 =
              exitRelationDeclaration (.rule "relationDeclaration" sl sc ls cs) pe st2 := by simp [exitRule]
          obtain ⟨st3, e3, I3⟩ := sinv_exitRelationDeclaration (.rule "relationDeclaration" sl sc ls cs) pe m st2 hm.1 hm.2 I2
          rw [hx, e3]
          exact ⟨st3, rfl, I3, fun hr => by simp [hm.1] at hr⟩
        · by_cases h3 : name = "condition"
          · subst h3
            have hm : m.inCond = false := by simpa [nodeOk] using hok
            obtain ⟨st1, e1, I1, s1⟩ := sinv_enterCondition (.rule "condition" sl sc ls cs) m st hI
            have he : enterRule "condition" (.rule "condition" sl sc ls cs) st = enterCondition (.rule "condition" sl sc ls cs) st := by
              simp [enterRule]
            rw [he, e1]
            obtain ⟨st2, e2, I2, s2⟩ := walkL_scoped pe' cs _ st1 hcs I1
            simp only [e2]
            have hx : exitRule "condition" (.rule "condition" sl sc ls cs) pe st2 = exitCondition st2 := by simp [exitRule]
            obtain ⟨st3, e3, I3, s3⟩ := sinv_exitCondition (.rule "condition" sl sc ls cs) m st2 hm I2
            rw [hx, e3]
            refine ⟨st3, rfl, I3, fun hr => ?_⟩
            have hcr : (childMode "condition" (.rule "condition" sl sc ls cs) m).inRel = true := by
              unfold childMode; simp only; split <;> exact hr
            rw [s3, s2 hcr, s1]
          · by_cases h4 : name = "relationRecurseNoDirect"
            · subst h4
              have hm : m.inRel = true := by simpa [nodeOk] using hok
              obtain ⟨st1, x, s, e1, I1, s0, s1⟩ := sinv_enterRecurseNoDirect m st hm hI
              have he : enterRule "relationRecurseNoDirect" (.rule "relationRecurseNoDirect" sl sc ls cs) st = enterRelationRecurseNoDirect st := by
                simp [enterRule]
              rw [he, e1]
              have hcm : childMode "relationRecurseNoDirect" (.rule "relationRecurseNoDirect" sl sc ls cs) m = m := by
                simp [childMode]
              rw [hcm] at hcs
              obtain ⟨st2, e2, I2, s2⟩ := walkL_scoped pe' cs m st1 hcs I1
              simp only [e2]
              have hx : exitRule "relationRecurseNoDirect" (.rule "relationRecurseNoDirect" sl sc ls cs) pe st2 = exitRelationRecurseNoDirect st2 := by
                simp [exitRule]
              obtain ⟨st3, e3, I3, s3⟩ := sinv_exitRecurseNoDirect m st2 x s hm I2 (by rw [s2 hm, s1])
              rw [hx, e3]
              exact ⟨st3, rfl, I3, fun _ => by rw [s3, s0]⟩
            · have hsp : ¬ special name := by
                unfold special; rintro (h | h | h | h)
                · exact h1 h
                · exact h2 h
                · exact h3 h
                · exact h4 h
              obtain ⟨st1, e1, sm1⟩ := enter_generic name (.rule name sl sc ls cs) m st hsp hok hI
              rw [e1]
              rw [childMode_generic name _ m hsp] at hcs
              obtain ⟨st2, e2, I2, s2⟩ := walkL_scoped pe' cs m st1 hcs (hI.same sm1)
              simp only [e2]
              obtain ⟨st3, e3, I3, s3⟩ := exit_generic name (.rule name sl sc ls cs) pe m st2 hsp hok I2
              rw [e3]
              exact ⟨st3, rfl, I3, fun hr => by rw [s3, s2 hr, sm1.stack]⟩
  theorem walkL_scoped (pe : Option Bool) :
      (ts : List Tree) → ∀ (m : Mode) (st : LState), wellScopedL m ts = true → SInv m st → Post m st (walkL pe ts st)
    | [] => fun m st _ hI => ⟨st, by simp [walkL], hI, fun _ => rfl⟩
    | t :: ts => by
      intro m st hs hI
      rw [wellScopedL] at hs
      simp only [Bool.and_eq_true] at hs
      obtain ⟨st1, e1, I1, s1⟩ := walk_scoped pe t m st hs.1 hI
      obtain ⟨st2, e2, I2, s2⟩ := walkL_scoped pe ts m st1 hs.2 I1
      refine ⟨st2, ?_, I2, fun hr => by rw [s2 hr, s1 hr]⟩
      simp only [walkL, e1, e2]
end

end FgaVerif.Model.Listener
