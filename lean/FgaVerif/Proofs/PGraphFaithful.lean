import FgaVerif.Proofs.PGraphBuild
/-! Faithfulness of the plain graph port (`Model/PGraph.lean`) to the model it is built from:
    label lookup (`GetNodeByLabel` = `G.find?`, a lookup by *unique* label) and the lines each construct of a
    rewrite yields.  See `Props/C17.lean` for the statements. -/
namespace FgaVerif.Model.PGraph
open FgaVerif.Model

/-! ## 1. unique labels are unique, ids are positions (every built graph, no hypothesis) -/

structure WF (g : G) : Prop where
  ids : ∀ (i : Nat) (h : i < g.nodes.length), (g.nodes[i]).id = i
  uniq : g.nodes.Pairwise (fun a b => a.uniqueLabel ≠ b.uniqueLabel)

/-- `g'` extends `g`: nodes, lines are only appended, the operator counter only grows, well-formedness is kept -/
structure Ext (g g' : G) : Prop where
  nodes : g.nodes <+: g'.nodes
  lines : g.lines <+: g'.lines
  ops : g.opCount ≤ g'.opCount
  wf : WF g → WF g'

theorem Ext.refl (g : G) : Ext g g := ⟨List.prefix_refl _, List.prefix_refl _, Nat.le_refl _, id⟩
theorem Ext.trans {a b c : G} (h1 : Ext a b) (h2 : Ext b c) : Ext a c :=
  ⟨h1.nodes.trans h2.nodes, h1.lines.trans h2.lines, Nat.le_trans h1.ops h2.ops, fun h => h2.wf (h1.wf h)⟩

theorem getOrAddNode_ext (g : G) (ul l : String) (t : NodeType) : Ext g (getOrAddNode g ul l t).1 := by
  unfold getOrAddNode
  split
  · exact Ext.refl g
  · rename_i hnone
    refine ⟨List.prefix_append _ _, List.prefix_refl _, Nat.le_refl _, ?_⟩
    intro hw
    refine ⟨?_, ?_⟩
    · intro i hi
      simp only [List.length_append, List.length_cons, List.length_nil] at hi
      by_cases h : i < g.nodes.length
      · simp only [List.getElem_append_left h]; exact hw.ids i h
      · have : i = g.nodes.length := by omega
        subst this; simp
    · simp only [List.pairwise_append, List.pairwise_cons, List.Pairwise.nil, and_true, List.mem_cons,
        List.not_mem_nil, or_false, forall_eq]
      refine ⟨hw.uniq, by simp, ?_⟩
      intro a ha
      have := List.find?_eq_none.1 hnone a ha
      simpa using this

theorem addEdge_ext (g : G) (s d : PNode) (t : EdgeType) (ts : String) : Ext g (addEdge g s d t ts) :=
  ⟨List.prefix_refl _, List.prefix_append _ _, Nat.le_refl _, fun h => ⟨h.ids, h.uniq⟩⟩

theorem upsertEdge_ext (g : G) (s d : PNode) (t : EdgeType) (ts : String) : Ext g (upsertEdge g s d t ts) := by
  unfold upsertEdge; split
  · exact Ext.refl g
  · exact addEdge_ext ..

theorem parseThisRefs_ext (parent : PNode) : ∀ (refs : List RelRef) (cur : Option PNode) (g : G),
    Ext g (parseThisRefs parent refs cur g)
  | [], _, g => Ext.refl g
  | r :: rest, cur, g => by
    simp only [parseThisRefs]
    have step1 : ∃ g1 cur1, (if (!r.wildcard && r.rel == "") = true then
          ((getOrAddNode g r.type r.type NodeType.specificType).1, some (getOrAddNode g r.type r.type NodeType.specificType).2)
        else (g, cur)) = (g1, cur1) ∧ Ext g g1 := by
      split
      · exact ⟨_, _, rfl, getOrAddNode_ext ..⟩
      · exact ⟨g, cur, rfl, Ext.refl g⟩
    obtain ⟨g1, cur1, e1, s1⟩ := step1
    simp only [e1]
    have step2 : ∃ g2 cur2, (if r.wildcard = true then
          ((getOrAddNode g1 (r.type ++ ":*") (r.type ++ ":*") NodeType.wildcard).1,
            some (getOrAddNode g1 (r.type ++ ":*") (r.type ++ ":*") NodeType.wildcard).2)
        else (g1, cur1)) = (g2, cur2) ∧ Ext g1 g2 := by
      split
      · exact ⟨_, _, rfl, getOrAddNode_ext ..⟩
      · exact ⟨g1, cur1, rfl, Ext.refl g1⟩
    obtain ⟨g2, cur2, e2, s2⟩ := step2
    simp only [e2]
    have step3 : ∃ g3 cur3, (if (r.rel != "") = true then
          ((getOrAddNode g2 (r.type ++ "#" ++ r.rel) (r.type ++ "#" ++ r.rel) NodeType.typeAndRelation).1,
            some (getOrAddNode g2 (r.type ++ "#" ++ r.rel) (r.type ++ "#" ++ r.rel) NodeType.typeAndRelation).2)
        else (g2, cur2)) = (g3, cur3) ∧ Ext g2 g3 := by
      split
      · exact ⟨_, _, rfl, getOrAddNode_ext ..⟩
      · exact ⟨g2, cur2, rfl, Ext.refl g2⟩
    obtain ⟨g3, cur3, e3, s3⟩ := step3
    simp only [e3]
    have s123 : Ext g g3 := s1.trans (s2.trans s3)
    cases cur3 with
    | none => exact s123.trans (parseThisRefs_ext parent rest none g3)
    | some c => exact s123.trans ((upsertEdge_ext g3 c parent .direct "").trans (parseThisRefs_ext parent rest (some c) _))

theorem parseTTURefs_ext (m : Model) (td : TypeDef) (parent : PNode) (ts cu : String) :
    ∀ (refs : List RelRef) (g : G), Ext g (parseTTURefs m td parent ts cu refs g)
  | [], g => Ext.refl g
  | r :: rest, g => by
    simp only [parseTTURefs]
    split
    · exact parseTTURefs_ext m td parent ts cu rest g
    · have a := getOrAddNode_ext g (r.type ++ "#" ++ cu) (r.type ++ "#" ++ cu) .typeAndRelation
      split
      · exact a.trans (parseTTURefs_ext m td parent ts cu rest _)
      · exact a.trans ((upsertEdge_ext ..).trans (parseTTURefs_ext m td parent ts cu rest _))

theorem mkOp_ext (g : G) (parent : PNode) (op : String) : Ext g (mkOp g parent op).1 := by
  unfold mkOp
  simp only
  have h0 : Ext g { g with opCount := g.opCount + 1 } :=
    ⟨List.prefix_refl _, List.prefix_refl _, Nat.le_succ _, fun h => ⟨h.ids, h.uniq⟩⟩
  exact h0.trans ((getOrAddNode_ext ..).trans (addEdge_ext ..))

mutual
  theorem checkRewrite_ext (m : Model) (td : TypeDef) (rel : String) :
      ∀ (u : Userset) (parent : PNode) (g : G), Ext g (checkRewrite m td rel parent u g)
    | .this, parent, g => by
      simp only [checkRewrite]
      split
      · exact parseThisRefs_ext ..
      · exact Ext.refl g
    | .computed r, parent, g => by
      simp only [checkRewrite]
      exact (getOrAddNode_ext ..).trans (addEdge_ext ..)
    | .ttu ts cu, parent, g => by
      simp only [checkRewrite]
      exact parseTTURefs_ext ..
    | .union cs, parent, g => by
      simp only [checkRewrite]
      exact (mkOp_ext g parent "union").trans (checkChildren_ext m td rel cs _ _)
    | .inter cs, parent, g => by
      simp only [checkRewrite]
      exact (mkOp_ext g parent "intersection").trans (checkChildren_ext m td rel cs _ _)
    | .diff b s, parent, g => by
      simp only [checkRewrite]
      exact (mkOp_ext g parent "exclusion").trans ((checkRewrite_ext m td rel b _ _).trans (checkRewrite_ext m td rel s _ _))
    | .nil, parent, g => by
      simp only [checkRewrite]
      exact mkOp_ext g parent ""
  theorem checkChildren_ext (m : Model) (td : TypeDef) (rel : String) :
      ∀ (cs : List Userset) (parent : PNode) (g : G), Ext g (checkChildren m td rel parent cs g)
    | [], parent, g => by simp only [checkChildren]; exact Ext.refl g
    | c :: cs, parent, g => by
      simp only [checkChildren]
      exact (checkRewrite_ext m td rel c parent g).trans (checkChildren_ext m td rel cs parent _)
end

theorem buildRelations_ext (m : Model) (td : TypeDef) : ∀ (rels : List (String × Userset)) (g : G),
    Ext g (buildRelations m td rels g)
  | [], g => Ext.refl g
  | (rel, u) :: rest, g => by
    simp only [buildRelations]
    exact (getOrAddNode_ext ..).trans ((checkRewrite_ext ..).trans (buildRelations_ext m td rest _))

theorem buildTypes_ext (m : Model) : ∀ (tds : List TypeDef) (g : G), Ext g (buildTypes m tds g)
  | [], g => Ext.refl g
  | td :: rest, g => by
    simp only [buildTypes]
    exact (getOrAddNode_ext ..).trans ((buildRelations_ext ..).trans (buildTypes_ext m rest _))

theorem build_wf (m : Model) : WF (build m) :=
  (buildTypes_ext m _ {}).wf ⟨by intro i h; simp at h, by simp⟩

/-! ## 2. labels: the syntactic kind of a unique label -/

def sepc (c : Char) : Bool := c == '#' || c == ':'
/-- no `#` and no `:` -/
def plain (s : String) : Bool := s.toList.all (fun c => !sepc c)

def firstSep : List Char → Option (Char × List Char)
  | [] => none
  | c :: cs => if sepc c then some (c, cs) else firstSep cs

/-- the kind of node a unique label can belong to -/
def classify (s : String) : NodeType :=
  match firstSep s.toList with
  | none => .specificType
  | some (c, rest) => if c == '#' then .typeAndRelation else if rest == ['*'] then .wildcard else .operator

theorem firstSep_append (pre rest : List Char) (h : pre.all (fun c => !sepc c) = true) :
    firstSep (pre ++ rest) = firstSep rest := by
  induction pre with
  | nil => rfl
  | cons c cs ih =>
    simp only [List.all_cons, Bool.and_eq_true, Bool.not_eq_true'] at h
    simp only [List.cons_append, firstSep, h.1, Bool.false_eq_true, if_false]
    exact ih h.2

theorem firstSep_plain (s : String) (h : plain s = true) : firstSep s.toList = none := by
  have := firstSep_append s.toList [] h
  simpa [firstSep] using this

theorem firstSep_hash (T r : String) (h : plain T = true) :
    firstSep (T ++ "#" ++ r).toList = some ('#', r.toList) := by
  have : (T ++ "#" ++ r).toList = T.toList ++ ('#' :: r.toList) := by
    simp [String.toList_append]
  rw [this, firstSep_append _ _ h]; rfl

theorem firstSep_colon (T r : String) (h : plain T = true) :
    firstSep (T ++ ":" ++ r).toList = some (':', r.toList) := by
  have : (T ++ ":" ++ r).toList = T.toList ++ (':' :: r.toList) := by
    simp [String.toList_append]
  rw [this, firstSep_append _ _ h]; rfl

theorem classify_plain (T : String) (h : plain T = true) : classify T = .specificType := by
  simp [classify, firstSep_plain T h]

theorem classify_rel (T r : String) (h : plain T = true) : classify (T ++ "#" ++ r) = .typeAndRelation := by
  unfold classify; rw [firstSep_hash T r h]; rfl

theorem classify_wild (T : String) (h : plain T = true) : classify (T ++ ":*") = .wildcard := by
  have : T ++ ":*" = T ++ ":" ++ "*" := by
    apply String.ext; simp [String.toList_append]
  rw [this]
  unfold classify; rw [firstSep_colon T "*" h]; rfl

theorem toString_toList (k : Nat) : (toString k).toList = Nat.toDigits 10 k := by
  rw [Nat.toString_eq_repr, Nat.toList_repr]

theorem toString_ne_star (k : Nat) : (toString k).toList ≠ ['*'] := by
  intro h
  rw [toString_toList] at h
  have : '*' ∈ Nat.toDigits 10 k := by rw [h]; simp
  have := Nat.isDigit_of_mem_toDigits (by decide) (by decide) this
  revert this; decide

theorem toString_nat_inj (a b : Nat) (h : (toString a).toList = (toString b).toList) : a = b := by
  rw [toString_toList, toString_toList] at h
  have := congrArg (fun l => Nat.ofDigitChars 10 l 0) h
  simpa [Nat.ofDigitChars_ten_toDigits] using this

theorem classify_op (op : String) (k : Nat) (h : plain op = true) :
    classify (op ++ ":" ++ toString k) = .operator := by
  unfold classify; rw [firstSep_colon op _ h]
  have := toString_ne_star k
  simp only [beq_iff_eq, this, if_false]
  rfl

def opNames : List String := ["union", "intersection", "exclusion", ""]
theorem opNames_plain (op : String) (h : op ∈ opNames) : plain op = true := by
  simp only [opNames, List.mem_cons, List.not_mem_nil, or_false] at h
  rcases h with rfl | rfl | rfl | rfl <;> decide

theorem op_label_inj (op op' : String) (k k' : Nat) (h : plain op = true) (h' : plain op' = true)
    (e : op ++ ":" ++ toString k = op' ++ ":" ++ toString k') : k = k' := by
  have e1 := firstSep_colon op (toString k) h
  rw [e, firstSep_colon op' _ h'] at e1
  simp only [Option.some.injEq, Prod.mk.injEq, true_and] at e1
  exact (toString_nat_inj _ _ e1).symm

/-! ## 3. what the nodes stand for -/

mutual
  /-- the computed-userset leaves of a rewrite, left to right -/
  def compLeaves : Userset → List String
    | .this => []
    | .computed x => [x]
    | .ttu _ _ => []
    | .union cs => compLeavesL cs
    | .inter cs => compLeavesL cs
    | .diff b s => compLeaves b ++ compLeaves s
    | .nil => []
  def compLeavesL : List Userset → List String
    | [] => []
    | c :: cs => compLeaves c ++ compLeavesL cs
end

/-- `r` is a restriction ("directly related user type") of some relation of some type of the model -/
def IsRestr (m : Model) (r : RelRef) : Prop :=
  ∃ td ∈ m.types, ∃ rel rm, relMeta td rel = some rm ∧ r ∈ rm.restr

/-- the label `ul` of a node of kind `t` comes from the model -/
def Prov (m : Model) (ul : String) : NodeType → Prop
  | .specificType => (∃ td ∈ m.types, ul = td.name) ∨
      (∃ r, IsRestr m r ∧ r.wildcard = false ∧ r.rel = "" ∧ ul = r.type)
  | .wildcard => ∃ r, IsRestr m r ∧ r.wildcard = true ∧ ul = r.type ++ ":*"
  | .typeAndRelation =>
      (∃ td ∈ m.types, ∃ rel u, (rel, u) ∈ td.relations ∧ ul = td.name ++ "#" ++ rel) ∨
      (∃ r, IsRestr m r ∧ r.rel ≠ "" ∧ ul = r.type ++ "#" ++ r.rel) ∨
      (∃ td ∈ m.types, ∃ rel u, (rel, u) ∈ td.relations ∧ ∃ x ∈ compLeaves u, ul = td.name ++ "#" ++ x)
  | .operator => True

/-- well-formedness of names: no type name and no restriction type contains `#` or `:` -/
def NamesOk (m : Model) : Bool :=
  m.types.all fun td => plain td.name &&
    match td.md with
    | none => true
    | some md => md.relations.all fun p => p.2.restr.all fun r => plain r.type

theorem AList.find?_mem {α : Type} (k : String) : ∀ (l : List (String × α)) (v : α), AList.find? k l = some v → (k, v) ∈ l
  | [], v, h => by simp [AList.find?] at h
  | (k', v') :: rest, v, h => by
    simp only [AList.find?] at h
    split at h
    · rename_i hk
      have : k = k' := by simpa using hk
      subst this
      simp only [Option.some.injEq] at h; subst h; simp
    · exact List.mem_cons_of_mem _ (AList.find?_mem k rest v h)

theorem namesOk_type (m : Model) (hm : NamesOk m = true) (td : TypeDef) (h : td ∈ m.types) : plain td.name = true := by
  have := List.all_eq_true.1 hm td h
  simp only [Bool.and_eq_true] at this
  exact this.1

theorem namesOk_restr (m : Model) (hm : NamesOk m = true) (r : RelRef) (h : IsRestr m r) : plain r.type = true := by
  obtain ⟨td, htd, rel, rm, hrm, hr⟩ := h
  have := List.all_eq_true.1 hm td htd
  simp only [Bool.and_eq_true] at this
  have h2 := this.2
  unfold relMeta at hrm
  cases hmd : td.md with
  | none => rw [hmd] at hrm; simp at hrm
  | some md =>
    rw [hmd] at hrm h2
    simp only at hrm h2
    have hmem := AList.find?_mem rel md.relations rm hrm
    have := List.all_eq_true.1 h2 (rel, rm) hmem
    exact List.all_eq_true.1 this r hr

/-- the invariant on a node: its kind is the syntactic kind of its unique label; a non-operator node is
    labelled by its unique label and comes from the model; an operator node has unique label `<operator>:<k>`
    with `k` below the operator counter -/
def Good (m : Model) (oc : Nat) (n : PNode) : Prop :=
  n.ntype = classify n.uniqueLabel ∧
  (n.ntype ≠ .operator → n.label = n.uniqueLabel ∧ Prov m n.uniqueLabel n.ntype) ∧
  (n.ntype = .operator → ∃ k, k < oc ∧ n.label ∈ opNames ∧ n.uniqueLabel = n.label ++ ":" ++ toString k)

def Inv (m : Model) (g : G) : Prop := ∀ n ∈ g.nodes, Good m g.opCount n

theorem Good.mono {m : Model} {a b : Nat} {n : PNode} (h : Good m a n) (hab : a ≤ b) : Good m b n :=
  ⟨h.1, h.2.1, fun ho => by obtain ⟨k, hk, r⟩ := h.2.2 ho; exact ⟨k, Nat.lt_of_lt_of_le hk hab, r⟩⟩

theorem find?_some {g : G} {ul : String} {n : PNode} (h : g.find? ul = some n) : n ∈ g.nodes ∧ n.uniqueLabel = ul := by
  unfold G.find? at h
  refine ⟨List.mem_of_find?_eq_some h, ?_⟩
  have := List.find?_some h
  simpa using this

theorem find?_mono {g g' : G} (e : Ext g g') {ul : String} {n : PNode} (h : g.find? ul = some n) : g'.find? ul = some n := by
  obtain ⟨extra, he⟩ := e.nodes
  unfold G.find? at *
  rw [← he, List.find?_append, h]; rfl

@[simp] theorem getOrAddNode_lines (g : G) (ul l : String) (t : NodeType) : (getOrAddNode g ul l t).1.lines = g.lines := by
  unfold getOrAddNode; split <;> rfl
@[simp] theorem getOrAddNode_opCount (g : G) (ul l : String) (t : NodeType) : (getOrAddNode g ul l t).1.opCount = g.opCount := by
  unfold getOrAddNode; split <;> rfl

theorem getOrAddNode_find (g : G) (ul l : String) (t : NodeType) :
    (getOrAddNode g ul l t).1.find? ul = some (getOrAddNode g ul l t).2 := by
  unfold getOrAddNode
  split
  · rename_i n h; exact h
  · rename_i h
    simp only [G.find?] at h ⊢
    rw [List.find?_append, h]; simp

/-- adding (or finding) a non-operator node whose label has the right syntactic kind -/
theorem getOrAddNode_inv (m : Model) (g : G) (ul : String) (t : NodeType) (hi : Inv m g) (ht : t ≠ .operator)
    (hc : classify ul = t) (hp : Prov m ul t) :
    Inv m (getOrAddNode g ul ul t).1 ∧ (getOrAddNode g ul ul t).2.ntype = t := by
  unfold getOrAddNode
  split
  · rename_i n h
    obtain ⟨hn, hu⟩ := find?_some h
    refine ⟨hi, ?_⟩
    rw [(hi n hn).1, hu, hc]
  · refine ⟨?_, rfl⟩
    intro n hn
    rcases List.mem_append.1 hn with h | h
    · exact hi n h
    · simp only [List.mem_cons, List.not_mem_nil, or_false] at h
      subst h
      exact ⟨hc.symm, fun _ => ⟨rfl, hp⟩, fun h => absurd h ht⟩

/-! ## 4. lines -/

def HasLine (g : G) (s d : PNode) (t : EdgeType) (ts : String) : Prop :=
  ∃ l ∈ g.lines, l.src = s.id ∧ l.dst = d.id ∧ l.etype = t ∧ l.tupleset = ts

theorem HasLine.mono {g g' : G} (e : Ext g g') {s d : PNode} {t : EdgeType} {ts : String} (h : HasLine g s d t ts) :
    HasLine g' s d t ts := by
  obtain ⟨l, hl, r⟩ := h
  exact ⟨l, e.lines.subset hl, r⟩

theorem etype_beq (a b : EdgeType) : (a == b) = true ↔ a = b := by
  cases a <;> cases b <;> decide
theorem ntype_beq (a b : NodeType) : (a == b) = true ↔ a = b := by
  cases a <;> cases b <;> decide

theorem hasEdge_hasLine (g : G) (s d : PNode) (t : EdgeType) (ts : String) (h : hasEdge g s d t ts = true) :
    HasLine g s d t ts := by
  unfold hasEdge at h
  obtain ⟨l, hl, hh⟩ := List.any_eq_true.1 h
  simp only [Bool.and_eq_true, beq_iff_eq] at hh
  exact ⟨l, hl, hh.1.1.1, hh.1.1.2, (etype_beq _ _).1 hh.1.2, hh.2⟩

theorem addEdge_hasLine (g : G) (s d : PNode) (t : EdgeType) (ts : String) : HasLine (addEdge g s d t ts) s d t ts :=
  ⟨⟨s.id, d.id, nextLineId g s.id d.id, t, ts⟩, by simp [addEdge], rfl, rfl, rfl, rfl⟩

theorem upsertEdge_hasLine (g : G) (s d : PNode) (t : EdgeType) (ts : String) : HasLine (upsertEdge g s d t ts) s d t ts := by
  unfold upsertEdge
  split
  · rename_i h; exact hasEdge_hasLine g s d t ts h
  · exact addEdge_hasLine ..

theorem addEdge_inv (m : Model) (g : G) (s d : PNode) (t : EdgeType) (ts : String) (h : Inv m g) : Inv m (addEdge g s d t ts) := h
theorem upsertEdge_inv (m : Model) (g : G) (s d : PNode) (t : EdgeType) (ts : String) (h : Inv m g) :
    Inv m (upsertEdge g s d t ts) := by
  unfold upsertEdge; split
  · exact h
  · exact h

/-! ## 5. what a rewrite draws -/

/-- the unique label of the node a restriction is drawn from (`parseThis`: the last of the three cases wins) -/
def refLabel (r : RelRef) : String :=
  if r.rel != "" then r.type ++ "#" ++ r.rel else if r.wildcard then r.type ++ ":*" else r.type
def refKind (r : RelRef) : NodeType :=
  if r.rel != "" then .typeAndRelation else if r.wildcard then .wildcard else .specificType

/-- the restrictions of relation `rel` of `td` (none without metadata) -/
def restrOf (td : TypeDef) (rel : String) : List RelRef :=
  match relMeta td rel with
  | some rm => rm.restr
  | none => []

/-- `o` is an operator node for `op`, found under its unique label `op:<k>` -/
def OpNode (g : G) (o : PNode) (op : String) : Prop :=
  g.find? o.uniqueLabel = some o ∧ o.ntype = .operator ∧ o.label = op ∧
    ∃ k, k < g.opCount ∧ o.uniqueLabel = op ++ ":" ++ toString k

theorem OpNode.mono {g g' : G} (e : Ext g g') {o : PNode} {op : String} (h : OpNode g o op) : OpNode g' o op := by
  obtain ⟨a, b, c, k, hk, d⟩ := h
  exact ⟨find?_mono e a, b, c, k, Nat.lt_of_lt_of_le hk e.ops, d⟩

mutual
  /-- the rewrite `u` of relation `rel` of `td` is drawn in `g`, hanging off node `p` -/
  def Drawn (m : Model) (td : TypeDef) (rel : String) (g : G) : Userset → PNode → Prop
    | .this, p => ∀ r ∈ restrOf td rel, ∃ n, g.find? (refLabel r) = some n ∧ n.ntype = refKind r ∧ HasLine g n p .direct ""
    | .computed x, p => ∃ n, g.find? (td.name ++ "#" ++ x) = some n ∧ n.ntype = .typeAndRelation ∧
        HasLine g n p (if p.ntype = .typeAndRelation then .computed else .rewrite) ""
    | .ttu ts x, p => ∀ r ∈ restrOf td ts, typeAndRelationExists m r.type x = true →
        ∃ n, g.find? (r.type ++ "#" ++ x) = some n ∧ n.ntype = .typeAndRelation ∧
          HasLine g n p .ttu (td.name ++ "#" ++ ts)
    | .union cs, p => ∃ o, OpNode g o "union" ∧ HasLine g o p .rewrite "" ∧ DrawnAll m td rel g cs o
    | .inter cs, p => ∃ o, OpNode g o "intersection" ∧ HasLine g o p .rewrite "" ∧ DrawnAll m td rel g cs o
    | .diff b s, p => ∃ o, OpNode g o "exclusion" ∧ HasLine g o p .rewrite "" ∧
        Drawn m td rel g b o ∧ Drawn m td rel g s o
    | .nil, p => ∃ o, OpNode g o "" ∧ HasLine g o p .rewrite ""
  def DrawnAll (m : Model) (td : TypeDef) (rel : String) (g : G) : List Userset → PNode → Prop
    | [], _ => True
    | c :: cs, p => Drawn m td rel g c p ∧ DrawnAll m td rel g cs p
end

mutual
  theorem Drawn.mono {m : Model} {td : TypeDef} {rel : String} {g g' : G} (e : Ext g g') :
      ∀ (u : Userset) (p : PNode), Drawn m td rel g u p → Drawn m td rel g' u p
    | .this, p, h => by
      simp only [Drawn] at h ⊢
      intro r hr
      obtain ⟨n, a, b, c⟩ := h r hr
      exact ⟨n, find?_mono e a, b, c.mono e⟩
    | .computed x, p, h => by
      simp only [Drawn] at h ⊢
      obtain ⟨n, a, b, c⟩ := h
      exact ⟨n, find?_mono e a, b, c.mono e⟩
    | .ttu ts x, p, h => by
      simp only [Drawn] at h ⊢
      intro r hr hx
      obtain ⟨n, a, b, c⟩ := h r hr hx
      exact ⟨n, find?_mono e a, b, c.mono e⟩
    | .union cs, p, h => by
      simp only [Drawn] at h ⊢
      obtain ⟨o, a, b, c⟩ := h
      exact ⟨o, a.mono e, b.mono e, DrawnAll.mono e cs o c⟩
    | .inter cs, p, h => by
      simp only [Drawn] at h ⊢
      obtain ⟨o, a, b, c⟩ := h
      exact ⟨o, a.mono e, b.mono e, DrawnAll.mono e cs o c⟩
    | .diff b s, p, h => by
      simp only [Drawn] at h ⊢
      obtain ⟨o, a, b', c, d⟩ := h
      exact ⟨o, a.mono e, b'.mono e, Drawn.mono e b o c, Drawn.mono e s o d⟩
    | .nil, p, h => by
      simp only [Drawn] at h ⊢
      obtain ⟨o, a, b⟩ := h
      exact ⟨o, a.mono e, b.mono e⟩
  theorem DrawnAll.mono {m : Model} {td : TypeDef} {rel : String} {g g' : G} (e : Ext g g') :
      ∀ (cs : List Userset) (p : PNode), DrawnAll m td rel g cs p → DrawnAll m td rel g' cs p
    | [], _, _ => by simp only [DrawnAll]
    | c :: cs, p, h => by
      simp only [DrawnAll] at h ⊢
      exact ⟨Drawn.mono e c p h.1, DrawnAll.mono e cs p h.2⟩
end

theorem parseThisRefs_cons (parent : PNode) (r : RelRef) (rest : List RelRef) (cur : Option PNode) (g : G) :
    parseThisRefs parent (r :: rest) cur g =
      parseThisRefs parent rest
        (some (getOrAddNode (if r.wildcard && r.rel != "" then (getOrAddNode g (r.type ++ ":*") (r.type ++ ":*") .wildcard).1 else g)
          (refLabel r) (refLabel r) (refKind r)).2)
        (upsertEdge
          (getOrAddNode (if r.wildcard && r.rel != "" then (getOrAddNode g (r.type ++ ":*") (r.type ++ ":*") .wildcard).1 else g)
            (refLabel r) (refLabel r) (refKind r)).1
          (getOrAddNode (if r.wildcard && r.rel != "" then (getOrAddNode g (r.type ++ ":*") (r.type ++ ":*") .wildcard).1 else g)
            (refLabel r) (refLabel r) (refKind r)).2 parent .direct "") := by
  simp only [parseThisRefs, refLabel, refKind]
  cases hw : r.wildcard <;> by_cases hr : r.rel = "" <;> simp [hr]

theorem ref_classify (m : Model) (hm : NamesOk m = true) (r : RelRef) (h : IsRestr m r) :
    classify (refLabel r) = refKind r ∧ refKind r ≠ .operator ∧ Prov m (refLabel r) (refKind r) := by
  have hp := namesOk_restr m hm r h
  unfold refLabel refKind
  by_cases hr : r.rel = ""
  · cases hw : r.wildcard
    · simp only [hr, bne_self_eq_false, Bool.false_eq_true, if_false]
      exact ⟨classify_plain _ hp, by decide, Or.inr ⟨r, h, hw, hr, rfl⟩⟩
    · simp only [hr, bne_self_eq_false, Bool.false_eq_true, if_false, if_true]
      exact ⟨classify_wild _ hp, by decide, ⟨r, h, hw, rfl⟩⟩
  · have : (r.rel != "") = true := by simpa using hr
    simp only [this, if_true]
    exact ⟨classify_rel _ _ hp, by decide, Or.inr (Or.inl ⟨r, h, hr, rfl⟩)⟩

theorem parseThisRefs_spec (m : Model) (hm : NamesOk m = true) (parent : PNode) :
    ∀ (refs : List RelRef) (cur : Option PNode) (g : G), Inv m g → (∀ r ∈ refs, IsRestr m r) →
      Inv m (parseThisRefs parent refs cur g) ∧
      ∀ r ∈ refs, ∃ n, (parseThisRefs parent refs cur g).find? (refLabel r) = some n ∧ n.ntype = refKind r ∧
        HasLine (parseThisRefs parent refs cur g) n parent .direct ""
  | [], _, g, hi, _ => ⟨hi, by intro r hr; cases hr⟩
  | r :: rest, cur, g, hi, hr => by
    rw [parseThisRefs_cons]
    have hR := hr r (List.mem_cons_self ..)
    have hpl := namesOk_restr m hm r hR
    generalize hg0 : (if (r.wildcard && r.rel != "") = true then
      (getOrAddNode g (r.type ++ ":*") (r.type ++ ":*") NodeType.wildcard).1 else g) = g0
    have hi0 : Inv m g0 := by
      subst hg0
      split
      · rename_i hc
        simp only [Bool.and_eq_true] at hc
        exact (getOrAddNode_inv m g _ .wildcard hi (by decide) (classify_wild _ hpl) ⟨r, hR, hc.1, rfl⟩).1
      · exact hi
    obtain ⟨hc, hno, hpv⟩ := ref_classify m hm r hR
    obtain ⟨hi1, hk⟩ := getOrAddNode_inv m g0 (refLabel r) (refKind r) hi0 hno hc hpv
    have hf := getOrAddNode_find g0 (refLabel r) (refLabel r) (refKind r)
    generalize getOrAddNode g0 (refLabel r) (refLabel r) (refKind r) = p at hi1 hk hf ⊢
    have hi2 := upsertEdge_inv m p.1 p.2 parent .direct "" hi1
    have e2 := upsertEdge_ext p.1 p.2 parent .direct ""
    have hl := upsertEdge_hasLine p.1 p.2 parent .direct ""
    have e3 := parseThisRefs_ext parent rest (some p.2) (upsertEdge p.1 p.2 parent .direct "")
    obtain ⟨hi3, hrest⟩ := parseThisRefs_spec m hm parent rest (some p.2) _ hi2
      (fun r' h' => hr r' (List.mem_cons_of_mem _ h'))
    refine ⟨hi3, ?_⟩
    intro r' hr'
    rcases List.mem_cons.1 hr' with rfl | h'
    · exact ⟨p.2, find?_mono (e2.trans e3) hf, hk, hl.mono e3⟩
    · exact hrest r' h'

theorem exists_prov (m : Model) (T x : String) (h : typeAndRelationExists m T x = true) :
    ∃ td ∈ m.types, td.name = T ∧ ∃ u, (x, u) ∈ td.relations := by
  unfold typeAndRelationExists at h
  obtain ⟨td, htd, hh⟩ := List.any_eq_true.1 h
  simp only [Bool.and_eq_true, beq_iff_eq] at hh
  refine ⟨td, htd, hh.1, ?_⟩
  have := hh.2
  unfold AList.contains at this
  cases hf : AList.find? x td.relations with
  | none => rw [hf] at this; simp at this
  | some u => exact ⟨u, AList.find?_mem x _ u hf⟩

theorem parseTTURefs_spec (m : Model) (hm : NamesOk m = true) (td : TypeDef) (parent : PNode) (ts cu : String) :
    ∀ (refs : List RelRef) (g : G), Inv m g →
      Inv m (parseTTURefs m td parent ts cu refs g) ∧
      ∀ r ∈ refs, typeAndRelationExists m r.type cu = true →
        ∃ n, (parseTTURefs m td parent ts cu refs g).find? (r.type ++ "#" ++ cu) = some n ∧ n.ntype = .typeAndRelation ∧
          HasLine (parseTTURefs m td parent ts cu refs g) n parent .ttu (td.name ++ "#" ++ ts)
  | [], g, hi => ⟨hi, by intro r hr; cases hr⟩
  | r :: rest, g, hi => by
    simp only [parseTTURefs]
    split
    · rename_i hne
      obtain ⟨a, b⟩ := parseTTURefs_spec m hm td parent ts cu rest g hi
      refine ⟨a, ?_⟩
      intro r' hr' hx
      rcases List.mem_cons.1 hr' with rfl | h'
      · rw [hx] at hne; simp at hne
      · exact b r' h' hx
    · rename_i hex
      have hex : typeAndRelationExists m r.type cu = true := by simpa using hex
      obtain ⟨td', htd', hname, u, hu⟩ := exists_prov m r.type cu hex
      have hpl : plain r.type = true := hname ▸ namesOk_type m hm td' htd'
      obtain ⟨hi1, hk⟩ := getOrAddNode_inv m g (r.type ++ "#" ++ cu) .typeAndRelation hi (by decide)
        (classify_rel _ _ hpl) (Or.inl ⟨td', htd', cu, u, hu, by rw [hname]⟩)
      have hf := getOrAddNode_find g (r.type ++ "#" ++ cu) (r.type ++ "#" ++ cu) .typeAndRelation
      have e1 := getOrAddNode_ext g (r.type ++ "#" ++ cu) (r.type ++ "#" ++ cu) .typeAndRelation
      generalize getOrAddNode g (r.type ++ "#" ++ cu) (r.type ++ "#" ++ cu) .typeAndRelation = p at hi1 hk hf e1 ⊢
      split
      · rename_i hhas
        have hl := hasEdge_hasLine _ _ _ _ _ hhas
        obtain ⟨a, b⟩ := parseTTURefs_spec m hm td parent ts cu rest p.1 hi1
        have e3 := parseTTURefs_ext m td parent ts cu rest p.1
        refine ⟨a, ?_⟩
        intro r' hr' hx
        rcases List.mem_cons.1 hr' with rfl | h'
        · exact ⟨p.2, find?_mono e3 hf, hk, hl.mono e3⟩
        · exact b r' h' hx
      · have hl := upsertEdge_hasLine p.1 p.2 parent .ttu (td.name ++ "#" ++ ts)
        have e2 := upsertEdge_ext p.1 p.2 parent .ttu (td.name ++ "#" ++ ts)
        obtain ⟨a, b⟩ := parseTTURefs_spec m hm td parent ts cu rest _ (upsertEdge_inv m p.1 p.2 parent .ttu _ hi1)
        have e3 := parseTTURefs_ext m td parent ts cu rest (upsertEdge p.1 p.2 parent .ttu (td.name ++ "#" ++ ts))
        refine ⟨a, ?_⟩
        intro r' hr' hx
        rcases List.mem_cons.1 hr' with rfl | h'
        · exact ⟨p.2, find?_mono (e2.trans e3) hf, hk, hl.mono e3⟩
        · exact b r' h' hx

/-- the operator label is fresh: no node of an invariant graph carries `op:<opCount>` -/
theorem op_label_fresh (m : Model) (g : G) (hi : Inv m g) (op : String) (hop : op ∈ opNames) :
    g.find? (op ++ ":" ++ toString g.opCount) = none := by
  cases hf : g.find? (op ++ ":" ++ toString g.opCount) with
  | none => rfl
  | some n =>
    exfalso
    obtain ⟨hn, hu⟩ := find?_some hf
    obtain ⟨h1, _, h3⟩ := hi n hn
    rw [hu, classify_op op _ (opNames_plain op hop)] at h1
    obtain ⟨k, hk, hl, he⟩ := h3 h1
    rw [hu] at he
    have := op_label_inj _ _ _ _ (opNames_plain op hop) (opNames_plain _ hl) he
    omega

theorem mkOp_spec (m : Model) (g : G) (parent : PNode) (op : String) (hi : Inv m g) (hop : op ∈ opNames) :
    Inv m (mkOp g parent op).1 ∧ OpNode (mkOp g parent op).1 (mkOp g parent op).2 op ∧
      HasLine (mkOp g parent op).1 (mkOp g parent op).2 parent .rewrite "" ∧
      (mkOp g parent op).2 ∉ g.nodes := by
  have hfresh := op_label_fresh m g hi op hop
  have hfresh' : ({ g with opCount := g.opCount + 1 } : G).find? (op ++ ":" ++ toString g.opCount) = none := hfresh
  unfold mkOp
  simp only
  unfold getOrAddNode
  simp only [hfresh']
  refine ⟨?_, ⟨?_, rfl, rfl, g.opCount, ?_, rfl⟩, addEdge_hasLine .., ?_⟩
  · intro n hn
    simp only [addEdge] at hn ⊢
    rcases List.mem_append.1 hn with h | h
    · exact (hi n h).mono (Nat.le_succ _)
    · simp only [List.mem_cons, List.not_mem_nil, or_false] at h
      subst h
      refine ⟨(classify_op op _ (opNames_plain op hop)).symm, fun h => absurd rfl h, fun _ => ⟨g.opCount, Nat.lt_succ_self _, hop, rfl⟩⟩
  · simp only [addEdge, G.find?] at hfresh ⊢
    rw [List.find?_append, hfresh]; simp
  · simp [addEdge]
  · intro hmem
    have := List.find?_eq_none.1 hfresh _ hmem
    simp at this

mutual
  theorem checkRewrite_spec (m : Model) (hm : NamesOk m = true) (td : TypeDef) (htd : td ∈ m.types) (rel : String) :
      ∀ (u : Userset) (parent : PNode) (g : G), Inv m g →
        (∀ x ∈ compLeaves u, Prov m (td.name ++ "#" ++ x) .typeAndRelation) →
        Inv m (checkRewrite m td rel parent u g) ∧ Drawn m td rel (checkRewrite m td rel parent u g) u parent
    | .this, parent, g, hi, _ => by
      simp only [checkRewrite, Drawn, restrOf]
      cases hrm : relMeta td rel with
      | none => exact ⟨hi, by intro r hr; cases hr⟩
      | some rm =>
        exact parseThisRefs_spec m hm parent rm.restr none g hi (fun r hr => ⟨td, htd, rel, rm, hrm, hr⟩)
    | .computed x, parent, g, hi, hc => by
      simp only [checkRewrite, Drawn]
      have hpl := namesOk_type m hm td htd
      obtain ⟨hi1, hk⟩ := getOrAddNode_inv m g (td.name ++ "#" ++ x) .typeAndRelation hi (by decide)
        (classify_rel _ _ hpl) (hc x (by simp [compLeaves]))
      have hf := getOrAddNode_find g (td.name ++ "#" ++ x) (td.name ++ "#" ++ x) .typeAndRelation
      generalize getOrAddNode g (td.name ++ "#" ++ x) (td.name ++ "#" ++ x) .typeAndRelation = p at hi1 hk hf ⊢
      refine ⟨addEdge_inv m _ _ _ _ _ hi1, p.2, find?_mono (addEdge_ext ..) hf, hk, ?_⟩
      have : (if (parent.ntype == NodeType.typeAndRelation && p.2.ntype == NodeType.typeAndRelation) = true then EdgeType.computed
          else EdgeType.rewrite) = (if parent.ntype = .typeAndRelation then EdgeType.computed else .rewrite) := by
        rw [hk]
        by_cases hp : parent.ntype = .typeAndRelation
        · simp [hp, (ntype_beq _ _).2 rfl]
        · have : (parent.ntype == NodeType.typeAndRelation) = false := by
            cases h : parent.ntype == NodeType.typeAndRelation
            · rfl
            · exact absurd ((ntype_beq _ _).1 h) hp
          simp [hp, this]
      rw [this]
      exact addEdge_hasLine ..
    | .ttu ts cu, parent, g, hi, _ => by
      simp only [checkRewrite, Drawn, restrOf]
      exact parseTTURefs_spec m hm td parent ts cu _ g hi
    | .union cs, parent, g, hi, hc => by
      simp only [checkRewrite, Drawn]
      obtain ⟨hi1, ho, hl, _⟩ := mkOp_spec m g parent "union" hi (by simp [opNames])
      generalize mkOp g parent "union" = p at hi1 ho hl ⊢
      obtain ⟨hi2, hd⟩ := checkChildren_spec m hm td htd rel cs p.2 p.1 hi1 (by simpa [compLeaves] using hc)
      have e := checkChildren_ext m td rel cs p.2 p.1
      exact ⟨hi2, p.2, ho.mono e, hl.mono e, hd⟩
    | .inter cs, parent, g, hi, hc => by
      simp only [checkRewrite, Drawn]
      obtain ⟨hi1, ho, hl, _⟩ := mkOp_spec m g parent "intersection" hi (by simp [opNames])
      generalize mkOp g parent "intersection" = p at hi1 ho hl ⊢
      obtain ⟨hi2, hd⟩ := checkChildren_spec m hm td htd rel cs p.2 p.1 hi1 (by simpa [compLeaves] using hc)
      have e := checkChildren_ext m td rel cs p.2 p.1
      exact ⟨hi2, p.2, ho.mono e, hl.mono e, hd⟩
    | .diff b s, parent, g, hi, hc => by
      simp only [checkRewrite, Drawn]
      obtain ⟨hi1, ho, hl, _⟩ := mkOp_spec m g parent "exclusion" hi (by simp [opNames])
      generalize mkOp g parent "exclusion" = p at hi1 ho hl ⊢
      simp only [compLeaves, List.mem_append] at hc
      obtain ⟨hi2, hd2⟩ := checkRewrite_spec m hm td htd rel b p.2 p.1 hi1 (fun x hx => hc x (Or.inl hx))
      have e2 := checkRewrite_ext m td rel b p.2 p.1
      obtain ⟨hi3, hd3⟩ := checkRewrite_spec m hm td htd rel s p.2 _ hi2 (fun x hx => hc x (Or.inr hx))
      have e3 := checkRewrite_ext m td rel s p.2 (checkRewrite m td rel p.2 b p.1)
      exact ⟨hi3, p.2, ho.mono (e2.trans e3), hl.mono (e2.trans e3), Drawn.mono e3 b p.2 hd2, hd3⟩
    | .nil, parent, g, hi, _ => by
      simp only [checkRewrite, Drawn]
      obtain ⟨hi1, ho, hl, _⟩ := mkOp_spec m g parent "" hi (by simp [opNames])
      exact ⟨hi1, _, ho, hl⟩
  theorem checkChildren_spec (m : Model) (hm : NamesOk m = true) (td : TypeDef) (htd : td ∈ m.types) (rel : String) :
      ∀ (cs : List Userset) (parent : PNode) (g : G), Inv m g →
        (∀ x ∈ compLeavesL cs, Prov m (td.name ++ "#" ++ x) .typeAndRelation) →
        Inv m (checkChildren m td rel parent cs g) ∧ DrawnAll m td rel (checkChildren m td rel parent cs g) cs parent
    | [], parent, g, hi, _ => by simp only [checkChildren, DrawnAll]; exact ⟨hi, trivial⟩
    | c :: cs, parent, g, hi, hc => by
      simp only [checkChildren, DrawnAll]
      simp only [compLeavesL, List.mem_append] at hc
      obtain ⟨hi1, hd1⟩ := checkRewrite_spec m hm td htd rel c parent g hi (fun x hx => hc x (Or.inl hx))
      obtain ⟨hi2, hd2⟩ := checkChildren_spec m hm td htd rel cs parent _ hi1 (fun x hx => hc x (Or.inr hx))
      have e := checkChildren_ext m td rel cs parent (checkRewrite m td rel parent c g)
      exact ⟨hi2, Drawn.mono e c parent hd1, hd2⟩
end

/-- relation `rel` of `td`, defined by `u`, is drawn in `g`: its node is found under `td.name#rel`, is a
    relation node, and the rewrite hangs off it -/
def RelDrawn (m : Model) (td : TypeDef) (g : G) (rel : String) (u : Userset) : Prop :=
  ∃ p, g.find? (td.name ++ "#" ++ rel) = some p ∧ p.ntype = .typeAndRelation ∧ Drawn m td rel g u p

theorem RelDrawn.mono {m : Model} {td : TypeDef} {g g' : G} (e : Ext g g') {rel : String} {u : Userset}
    (h : RelDrawn m td g rel u) : RelDrawn m td g' rel u := by
  obtain ⟨p, a, b, c⟩ := h
  exact ⟨p, find?_mono e a, b, Drawn.mono e u p c⟩

theorem buildRelations_spec (m : Model) (hm : NamesOk m = true) (td : TypeDef) (htd : td ∈ m.types) :
    ∀ (rels : List (String × Userset)) (g : G), Inv m g → (∀ p ∈ rels, p ∈ td.relations) →
      Inv m (buildRelations m td rels g) ∧ ∀ p ∈ rels, RelDrawn m td (buildRelations m td rels g) p.1 p.2
  | [], g, hi, _ => ⟨hi, by intro p hp; cases hp⟩
  | (rel, u) :: rest, g, hi, hsub => by
    simp only [buildRelations]
    have hpl := namesOk_type m hm td htd
    have hmem := hsub (rel, u) (List.mem_cons_self ..)
    obtain ⟨hi1, hk⟩ := getOrAddNode_inv m g (td.name ++ "#" ++ rel) .typeAndRelation hi (by decide)
      (classify_rel _ _ hpl) (Or.inl ⟨td, htd, rel, u, hmem, rfl⟩)
    have hf := getOrAddNode_find g (td.name ++ "#" ++ rel) (td.name ++ "#" ++ rel) .typeAndRelation
    generalize getOrAddNode g (td.name ++ "#" ++ rel) (td.name ++ "#" ++ rel) .typeAndRelation = p at hi1 hk hf ⊢
    obtain ⟨hi2, hd⟩ := checkRewrite_spec m hm td htd rel u p.2 p.1 hi1
      (fun x hx => Or.inr (Or.inr ⟨td, htd, rel, u, hmem, x, hx, rfl⟩))
    have e2 := checkRewrite_ext m td rel u p.2 p.1
    obtain ⟨hi3, hrest⟩ := buildRelations_spec m hm td htd rest _ hi2 (fun q hq => hsub q (List.mem_cons_of_mem _ hq))
    have e3 := buildRelations_ext m td rest (checkRewrite m td rel p.2 u p.1)
    refine ⟨hi3, ?_⟩
    intro q hq
    rcases List.mem_cons.1 hq with rfl | h'
    · exact ⟨p.2, find?_mono (e2.trans e3) hf, hk, Drawn.mono e3 u p.2 hd⟩
    · exact hrest q h'

/-- type `td` is drawn in `g` -/
def TypeDrawn (m : Model) (g : G) (td : TypeDef) : Prop :=
  (∃ n, g.find? td.name = some n ∧ n.ntype = .specificType) ∧ ∀ p ∈ td.relations, RelDrawn m td g p.1 p.2

theorem buildTypes_spec (m : Model) (hm : NamesOk m = true) :
    ∀ (tds : List TypeDef) (g : G), Inv m g → (∀ td ∈ tds, td ∈ m.types) →
      Inv m (buildTypes m tds g) ∧ ∀ td ∈ tds, TypeDrawn m (buildTypes m tds g) td
  | [], g, hi, _ => ⟨hi, by intro p hp; cases hp⟩
  | td :: rest, g, hi, hsub => by
    simp only [buildTypes]
    have htd := hsub td (List.mem_cons_self ..)
    have hpl := namesOk_type m hm td htd
    obtain ⟨hi1, hk⟩ := getOrAddNode_inv m g td.name .specificType hi (by decide) (classify_plain _ hpl)
      (Or.inl ⟨td, htd, rfl⟩)
    have hf := getOrAddNode_find g td.name td.name .specificType
    generalize getOrAddNode g td.name td.name .specificType = p at hi1 hk hf ⊢
    obtain ⟨hi2, hd⟩ := buildRelations_spec m hm td htd td.relations p.1 hi1 (fun _ h => h)
    have e2 := buildRelations_ext m td td.relations p.1
    obtain ⟨hi3, hrest⟩ := buildTypes_spec m hm rest _ hi2 (fun q hq => hsub q (List.mem_cons_of_mem _ hq))
    have e3 := buildTypes_ext m rest (buildRelations m td td.relations p.1)
    refine ⟨hi3, ?_⟩
    intro q hq
    rcases List.mem_cons.1 hq with rfl | h'
    · exact ⟨⟨p.2, find?_mono (e2.trans e3) hf, hk⟩, fun r hr => (hd r hr).mono e3⟩
    · exact hrest q h'

theorem build_spec (m : Model) (hm : NamesOk m = true) :
    Inv m (build m) ∧ ∀ td ∈ m.types, TypeDrawn m (build m) td := by
  have hperm := insertionSort_perm (fun (a b : TypeDef) => decide (a.name ≤ b.name)) m.types
  obtain ⟨a, b⟩ := buildTypes_spec m hm (insertionSort (fun a b => a.name ≤ b.name) m.types) {}
    (by intro n hn; cases hn) (fun td h => hperm.mem_iff.1 h)
  exact ⟨a, fun td h => b td (hperm.mem_iff.2 h)⟩

/-! ## 6. occurrences of a construct inside a rewrite -/

/-- `Occ u v top`: `v` occurs in the rewrite `u` (as the whole rewrite iff `top`) -/
inductive Occ : Userset → Userset → Bool → Prop
  | here (u : Userset) : Occ u u true
  | union {cs : List Userset} {c v : Userset} {b : Bool} : c ∈ cs → Occ c v b → Occ (.union cs) v false
  | inter {cs : List Userset} {c v : Userset} {b : Bool} : c ∈ cs → Occ c v b → Occ (.inter cs) v false
  | diffBase {b s v : Userset} {t : Bool} : Occ b v t → Occ (.diff b s) v false
  | diffSub {b s v : Userset} {t : Bool} : Occ s v t → Occ (.diff b s) v false

/-- a chain of rewrite lines from `a` up to `b` -/
inductive RewritePath (g : G) : PNode → PNode → Prop
  | refl (a : PNode) : RewritePath g a a
  | step {a b c : PNode} : HasLine g a b .rewrite "" → RewritePath g b c → RewritePath g a c

theorem RewritePath.snoc {g : G} {a b c : PNode} (h : RewritePath g a b) (l : HasLine g b c .rewrite "") :
    RewritePath g a c := by
  induction h with
  | refl a => exact .step l (.refl c)
  | step l' _ ih => exact .step l' (ih l)

theorem drawnAll_mem {m : Model} {td : TypeDef} {rel : String} {g : G} :
    ∀ (cs : List Userset) (p : PNode), DrawnAll m td rel g cs p → ∀ c ∈ cs, Drawn m td rel g c p
  | [], _, _, c, hc => by cases hc
  | c' :: cs, p, h, c, hc => by
    simp only [DrawnAll] at h
    rcases List.mem_cons.1 hc with rfl | h'
    · exact h.1
    · exact drawnAll_mem cs p h.2 c h'

/-- where an occurrence hangs: off `p` itself at top level, else off an operator node from which rewrite lines
    lead up to `p` -/
structure HangsOff (g : G) (p : PNode) (top : Bool) (q : PNode) : Prop where
  atTop : top = true → q = p
  nested : top = false → ∃ op ∈ opNames, OpNode g q op
  path : RewritePath g q p

theorem drawn_occ {m : Model} {td : TypeDef} {rel : String} {g : G} {u v : Userset} {top : Bool} (ho : Occ u v top) :
    ∀ p, Drawn m td rel g u p → ∃ q, Drawn m td rel g v q ∧ HangsOff g p top q := by
  induction ho with
  | here u => intro p h; exact ⟨p, h, ⟨fun _ => rfl, fun h => (by cases h), .refl p⟩⟩
  | @union cs c v b hc _ ih =>
    intro p h
    simp only [Drawn] at h
    obtain ⟨o, hop, hl, hall⟩ := h
    obtain ⟨q, hq, ⟨h1, h2, h3⟩⟩ := ih o (drawnAll_mem cs o hall c hc)
    refine ⟨q, hq, ⟨fun h => (by cases h), fun _ => ?_, h3.snoc hl⟩⟩
    cases b with
    | true => rw [h1 rfl]; exact ⟨"union", by simp [opNames], hop⟩
    | false => exact h2 rfl
  | @inter cs c v b hc _ ih =>
    intro p h
    simp only [Drawn] at h
    obtain ⟨o, hop, hl, hall⟩ := h
    obtain ⟨q, hq, ⟨h1, h2, h3⟩⟩ := ih o (drawnAll_mem cs o hall c hc)
    refine ⟨q, hq, ⟨fun h => (by cases h), fun _ => ?_, h3.snoc hl⟩⟩
    cases b with
    | true => rw [h1 rfl]; exact ⟨"intersection", by simp [opNames], hop⟩
    | false => exact h2 rfl
  | @diffBase b s v t _ ih =>
    intro p h
    simp only [Drawn] at h
    obtain ⟨o, hop, hl, hb, _⟩ := h
    obtain ⟨q, hq, ⟨h1, h2, h3⟩⟩ := ih o hb
    refine ⟨q, hq, ⟨fun h => (by cases h), fun _ => ?_, h3.snoc hl⟩⟩
    cases t with
    | true => rw [h1 rfl]; exact ⟨"exclusion", by simp [opNames], hop⟩
    | false => exact h2 rfl
  | @diffSub b s v t _ ih =>
    intro p h
    simp only [Drawn] at h
    obtain ⟨o, hop, hl, _, hs⟩ := h
    obtain ⟨q, hq, ⟨h1, h2, h3⟩⟩ := ih o hs
    refine ⟨q, hq, ⟨fun h => (by cases h), fun _ => ?_, h3.snoc hl⟩⟩
    cases t with
    | true => rw [h1 rfl]; exact ⟨"exclusion", by simp [opNames], hop⟩
    | false => exact h2 rfl

/-! ## 7. the statements about built graphs -/

/-- in a well-formed graph lookup by unique label is a function onto the nodes -/
theorem find?_iff (g : G) (hw : WF g) (l : String) (n : PNode) :
    g.find? l = some n ↔ n ∈ g.nodes ∧ n.uniqueLabel = l := by
  constructor
  · exact find?_some
  · rintro ⟨hn, rfl⟩
    cases hf : g.find? n.uniqueLabel with
    | none =>
      have := List.find?_eq_none.1 hf n hn
      simp at this
    | some n' =>
      obtain ⟨hn', hu⟩ := find?_some hf
      -- two nodes with the same unique label are the same node
      have hp := hw.uniq
      by_cases hne : n' = n
      · rw [hne]
      · exfalso
        obtain ⟨i, hi, rfl⟩ := List.getElem_of_mem hn
        obtain ⟨j, hj, rfl⟩ := List.getElem_of_mem hn'
        have hij : i ≠ j := by intro h; subst h; exact hne rfl
        rcases Nat.lt_or_gt_of_ne hij with h | h
        · exact List.pairwise_iff_getElem.1 hp i j hi hj h hu.symm
        · exact List.pairwise_iff_getElem.1 hp j i hj hi h hu

/-- the relation node and the node `q` an occurrence hangs off -/
def ParentOf (g : G) (td : TypeDef) (rel : String) (top : Bool) (q : PNode) : Prop :=
  ∃ p, g.find? (td.name ++ "#" ++ rel) = some p ∧ p.ntype = .typeAndRelation ∧ HangsOff g p top q

theorem build_occ (m : Model) (hm : NamesOk m = true) (td : TypeDef) (htd : td ∈ m.types) (rel : String) (u : Userset)
    (hr : (rel, u) ∈ td.relations) (v : Userset) (top : Bool) (ho : Occ u v top) :
    ∃ q, ParentOf (build m) td rel top q ∧ Drawn m td rel (build m) v q := by
  obtain ⟨p, hp, hk, hd⟩ := ((build_spec m hm).2 td htd).2 (rel, u) hr
  obtain ⟨q, hq, hh⟩ := drawn_occ ho p hd
  exact ⟨q, ⟨p, hp, hk, hh⟩, hq⟩

theorem parentOf_ntype {g : G} {td : TypeDef} {rel : String} {top : Bool} {q : PNode}
    (h : ParentOf g td rel top q) : q.ntype = if top then .typeAndRelation else .operator := by
  obtain ⟨p, _, hk, ⟨h1, h2, _⟩⟩ := h
  cases top with
  | true => rw [h1 rfl]; exact hk
  | false => obtain ⟨op, _, ho⟩ := h2 rfl; exact ho.2.1

def isOperator : Userset → Bool
  | .union _ | .inter _ | .diff _ _ | .nil => true
  | _ => false

/-- a non-operator node is labelled by its unique label -/
theorem inv_label {m : Model} {g : G} (hi : Inv m g) {l : String} {n : PNode} (h : g.find? l = some n)
    (hk : n.ntype ≠ .operator) : n.label = l := by
  obtain ⟨hn, hu⟩ := find?_some h
  rw [← hu]; exact ((hi n hn).2.1 hk).1

theorem build_lookup_type (m : Model) (hm : NamesOk m = true) (td : TypeDef) (htd : td ∈ m.types) :
    ∃ n, (build m).find? td.name = some n ∧ n.ntype = .specificType ∧ n.label = td.name := by
  obtain ⟨hi, hd⟩ := build_spec m hm
  obtain ⟨n, hn, hk⟩ := (hd td htd).1
  exact ⟨n, hn, hk, inv_label hi hn (by rw [hk]; decide)⟩

theorem build_lookup_relation (m : Model) (hm : NamesOk m = true) (td : TypeDef) (htd : td ∈ m.types)
    (rel : String) (u : Userset) (hr : (rel, u) ∈ td.relations) :
    ∃ n, (build m).find? (td.name ++ "#" ++ rel) = some n ∧ n.ntype = .typeAndRelation ∧
      n.label = td.name ++ "#" ++ rel := by
  obtain ⟨hi, hd⟩ := build_spec m hm
  obtain ⟨n, hn, hk, _⟩ := (hd td htd).2 (rel, u) hr
  exact ⟨n, hn, hk, inv_label hi hn (by rw [hk]; decide)⟩

theorem refKind_ne_operator (r : RelRef) : refKind r ≠ .operator := by
  unfold refKind; split
  · decide
  · split <;> decide

/-- B(i) -/
theorem build_direct (m : Model) (hm : NamesOk m = true) (td : TypeDef) (htd : td ∈ m.types) (rel : String)
    (u : Userset) (hr : (rel, u) ∈ td.relations) (top : Bool) (ho : Occ u .this top) :
    ∃ q, ParentOf (build m) td rel top q ∧ ∀ r ∈ restrOf td rel,
      ∃ n, (build m).find? (refLabel r) = some n ∧ n.ntype = refKind r ∧ n.label = refLabel r ∧
        HasLine (build m) n q .direct "" := by
  obtain ⟨q, hq, hd⟩ := build_occ m hm td htd rel u hr _ top ho
  simp only [Drawn] at hd
  refine ⟨q, hq, fun r hr' => ?_⟩
  obtain ⟨n, a, b, c⟩ := hd r hr'
  exact ⟨n, a, b, inv_label (build_spec m hm).1 a (by rw [b]; exact refKind_ne_operator r), c⟩

/-- B(ii) -/
theorem build_computed (m : Model) (hm : NamesOk m = true) (td : TypeDef) (htd : td ∈ m.types) (rel : String)
    (u : Userset) (hr : (rel, u) ∈ td.relations) (x : String) (top : Bool) (ho : Occ u (.computed x) top) :
    ∃ q n, ParentOf (build m) td rel top q ∧ (build m).find? (td.name ++ "#" ++ x) = some n ∧
      n.ntype = .typeAndRelation ∧ HasLine (build m) n q (if top then .computed else .rewrite) "" := by
  obtain ⟨q, hq, hd⟩ := build_occ m hm td htd rel u hr _ top ho
  simp only [Drawn] at hd
  obtain ⟨n, a, b, c⟩ := hd
  refine ⟨q, n, hq, a, b, ?_⟩
  rw [parentOf_ntype hq] at c
  cases top <;> simpa using c

/-- B(iii) -/
theorem build_ttu (m : Model) (hm : NamesOk m = true) (td : TypeDef) (htd : td ∈ m.types) (rel : String)
    (u : Userset) (hr : (rel, u) ∈ td.relations) (ts x : String) (top : Bool) (ho : Occ u (.ttu ts x) top) :
    ∃ q, ParentOf (build m) td rel top q ∧ ∀ r ∈ restrOf td ts, typeAndRelationExists m r.type x = true →
      ∃ n, (build m).find? (r.type ++ "#" ++ x) = some n ∧ n.ntype = .typeAndRelation ∧
        HasLine (build m) n q .ttu (td.name ++ "#" ++ ts) := by
  obtain ⟨q, hq, hd⟩ := build_occ m hm td htd rel u hr _ top ho
  simp only [Drawn] at hd
  exact ⟨q, hq, hd⟩

/-- B(iv) -/
theorem build_operator (m : Model) (hm : NamesOk m = true) (td : TypeDef) (htd : td ∈ m.types) (rel : String)
    (u : Userset) (hr : (rel, u) ∈ td.relations) (v : Userset) (hv : isOperator v = true) (top : Bool)
    (ho : Occ u v top) :
    ∃ q o, ParentOf (build m) td rel top q ∧ OpNode (build m) o (opLabel v) ∧ HasLine (build m) o q .rewrite "" := by
  obtain ⟨q, hq, hd⟩ := build_occ m hm td htd rel u hr _ top ho
  cases v with
  | this => simp [isOperator] at hv
  | computed _ => simp [isOperator] at hv
  | ttu _ _ => simp [isOperator] at hv
  | union cs => simp only [Drawn] at hd; obtain ⟨o, a, b, _⟩ := hd; exact ⟨q, o, hq, a, b⟩
  | inter cs => simp only [Drawn] at hd; obtain ⟨o, a, b, _⟩ := hd; exact ⟨q, o, hq, a, b⟩
  | diff b s => simp only [Drawn] at hd; obtain ⟨o, a, b, _⟩ := hd; exact ⟨q, o, hq, a, b⟩
  | nil => simp only [Drawn] at hd; obtain ⟨o, a, b⟩ := hd; exact ⟨q, o, hq, a, b⟩

/-- A(iii): what lookup can find -/
theorem build_lookup_sound (m : Model) (hm : NamesOk m = true) (l : String) (n : PNode)
    (h : (build m).find? l = some n) :
    n.uniqueLabel = l ∧ n.ntype = classify l ∧
    (n.ntype ≠ .operator → n.label = l ∧ Prov m l n.ntype) ∧
    (n.ntype = .operator → ∃ k, k < (build m).opCount ∧ n.label ∈ opNames ∧ l = n.label ++ ":" ++ toString k) := by
  obtain ⟨hn, hu⟩ := find?_some h
  obtain ⟨a, b, c⟩ := (build_spec m hm).1 n hn
  rw [hu] at a b c
  exact ⟨hu, a, b, c⟩

/-- the display label of an operator finds no operator node (only a type of that name, if any) -/
theorem build_lookup_plain (m : Model) (hm : NamesOk m = true) (l : String) (hl : plain l = true) (n : PNode)
    (h : (build m).find? l = some n) : n.ntype = .specificType ∧ n.label = l := by
  obtain ⟨_, a, b, _⟩ := build_lookup_sound m hm l n h
  rw [classify_plain l hl] at a
  exact ⟨a, (b (by rw [a]; decide)).1⟩

/-! ## 8. multiplicity of the lines out of relation nodes that are rewrite or computed lines -/

def isRC : EdgeType → Bool
  | .rewrite | .computed => true
  | _ => false

def isRelNode : NodeType → Bool
  | .typeAndRelation => true
  | _ => false

/-- the source of the line is a relation node -/
def srcIsRel (ns : List PNode) (l : PLine) : Bool :=
  match ns[l.src]? with
  | some n => isRelNode n.ntype
  | none => false

/-- the number of rewrite or computed lines whose source is a relation node -/
def relRC (g : G) : Nat := (g.lines.filter (fun l => isRC l.etype && srcIsRel g.nodes l)).length

theorem srcIsRel_append (ns extra : List PNode) (l : PLine) (h : l.src < ns.length) :
    srcIsRel (ns ++ extra) l = srcIsRel ns l := by
  unfold srcIsRel; rw [List.getElem?_append_left h]

/-- more nodes, same lines -/
theorem relRC_nodes (g g' : G) (hn : g.nodes <+: g'.nodes) (hl : g'.lines = g.lines) (hv : LinesValid g) :
    relRC g' = relRC g := by
  obtain ⟨extra, he⟩ := hn
  unfold relRC
  rw [hl, ← he]
  congr 1
  apply List.filter_congr
  intro l hmem
  rw [srcIsRel_append _ _ _ (hv l hmem).1]

theorem getOrAddNode_relRC (g : G) (ul l : String) (t : NodeType) (hv : LinesValid g) :
    relRC (getOrAddNode g ul l t).1 = relRC g :=
  relRC_nodes g _ (getOrAddNode_ext g ul l t).nodes (getOrAddNode_lines g ul l t) hv

theorem wf_getElem? (g : G) (hw : WF g) (s : PNode) (hs : s ∈ g.nodes) : g.nodes[s.id]? = some s := by
  obtain ⟨i, hi, rfl⟩ := List.getElem_of_mem hs
  rw [hw.ids i hi]
  exact List.getElem?_eq_getElem hi

theorem addEdge_relRC (g : G) (hw : WF g) (s d : PNode) (t : EdgeType) (ts : String) (hs : s ∈ g.nodes) :
    relRC (addEdge g s d t ts) = relRC g + (if isRC t && isRelNode s.ntype then 1 else 0) := by
  unfold relRC addEdge
  simp only [List.filter_append, List.length_append]
  congr 1
  simp only [List.filter_cons, List.filter_nil, srcIsRel, wf_getElem? g hw s hs]
  split <;> rfl

theorem upsertEdge_relRC (g : G) (hw : WF g) (s d : PNode) (t : EdgeType) (ts : String) (hs : s ∈ g.nodes)
    (ht : isRC t = false) : relRC (upsertEdge g s d t ts) = relRC g := by
  unfold upsertEdge; split
  · rfl
  · rw [addEdge_relRC g hw s d t ts hs, ht]; rfl

/-- the three invariants together -/
structure All (m : Model) (g : G) : Prop where
  inv : Inv m g
  wf : WF g
  b : BInv g

theorem All.step {m : Model} {g g' : G} (h : All m g) (e : Ext g g') (s : BStep g g') (i : Inv m g') : All m g' :=
  ⟨i, e.wf h.wf, s.inv h.b⟩

theorem parseThisRefs_relRC (parent : PNode) : ∀ (refs : List RelRef) (cur : Option PNode) (g : G),
    WF g → BInv g → parent ∈ g.nodes → relRC (parseThisRefs parent refs cur g) = relRC g
  | [], _, g, _, _, _ => rfl
  | r :: rest, cur, g, hw, hb, hp => by
    rw [parseThisRefs_cons]
    generalize hg0 : (if (r.wildcard && r.rel != "") = true then
      (getOrAddNode g (r.type ++ ":*") (r.type ++ ":*") NodeType.wildcard).1 else g) = g0
    have h0 : WF g0 ∧ BInv g0 ∧ g.nodes <+: g0.nodes ∧ relRC g0 = relRC g := by
      subst hg0
      split
      · exact ⟨(getOrAddNode_ext ..).wf hw, (getOrAddNode_bstep ..).1.inv hb, (getOrAddNode_ext ..).nodes,
          getOrAddNode_relRC _ _ _ _ hb.lines⟩
      · exact ⟨hw, hb, List.prefix_refl _, rfl⟩
    obtain ⟨hw0, hb0, hn0, hc0⟩ := h0
    have e1 := getOrAddNode_ext g0 (refLabel r) (refLabel r) (refKind r)
    have s1 := getOrAddNode_bstep g0 (refLabel r) (refLabel r) (refKind r)
    have c1 := getOrAddNode_relRC g0 (refLabel r) (refLabel r) (refKind r) hb0.lines
    generalize getOrAddNode g0 (refLabel r) (refLabel r) (refKind r) = p at e1 s1 c1 ⊢
    have hp1 : parent ∈ p.1.nodes := e1.nodes.subset (hn0.subset hp)
    have hw1 := e1.wf hw0
    have hb1 := s1.1.inv hb0
    have e2 := upsertEdge_ext p.1 p.2 parent .direct ""
    have s2 := upsertEdge_bstep p.1 p.2 parent .direct "" s1.2 hp1
    have c2 := upsertEdge_relRC p.1 hw1 p.2 parent .direct "" s1.2 rfl
    rw [parseThisRefs_relRC parent rest (some p.2) _ (e2.wf hw1) (s2.inv hb1) (e2.nodes.subset hp1), c2, c1, hc0]

theorem parseTTURefs_relRC (m : Model) (td : TypeDef) (parent : PNode) (ts cu : String) :
    ∀ (refs : List RelRef) (g : G), WF g → BInv g → parent ∈ g.nodes →
      relRC (parseTTURefs m td parent ts cu refs g) = relRC g
  | [], g, _, _, _ => rfl
  | r :: rest, g, hw, hb, hp => by
    simp only [parseTTURefs]
    split
    · exact parseTTURefs_relRC m td parent ts cu rest g hw hb hp
    · have e1 := getOrAddNode_ext g (r.type ++ "#" ++ cu) (r.type ++ "#" ++ cu) .typeAndRelation
      have s1 := getOrAddNode_bstep g (r.type ++ "#" ++ cu) (r.type ++ "#" ++ cu) .typeAndRelation
      have c1 := getOrAddNode_relRC g (r.type ++ "#" ++ cu) (r.type ++ "#" ++ cu) .typeAndRelation hb.lines
      generalize getOrAddNode g (r.type ++ "#" ++ cu) (r.type ++ "#" ++ cu) .typeAndRelation = p at e1 s1 c1 ⊢
      have hp1 : parent ∈ p.1.nodes := e1.nodes.subset hp
      have hw1 := e1.wf hw
      have hb1 := s1.1.inv hb
      split
      · rw [parseTTURefs_relRC m td parent ts cu rest p.1 hw1 hb1 hp1, c1]
      · have e2 := upsertEdge_ext p.1 p.2 parent .ttu (td.name ++ "#" ++ ts)
        have s2 := upsertEdge_bstep p.1 p.2 parent .ttu (td.name ++ "#" ++ ts) s1.2 hp1
        have c2 := upsertEdge_relRC p.1 hw1 p.2 parent .ttu (td.name ++ "#" ++ ts) s1.2 rfl
        rw [parseTTURefs_relRC m td parent ts cu rest _ (e2.wf hw1) (s2.inv hb1) (e2.nodes.subset hp1), c2, c1]

theorem mkOp_relRC (m : Model) (g : G) (parent : PNode) (op : String) (ha : All m g) (hop : op ∈ opNames) :
    relRC (mkOp g parent op).1 = relRC g := by
  have hfresh := op_label_fresh m g ha.inv op hop
  have hfresh' : ({ g with opCount := g.opCount + 1 } : G).find? (op ++ ":" ++ toString g.opCount) = none := hfresh
  unfold mkOp
  simp only
  unfold getOrAddNode
  simp only [hfresh']
  unfold relRC addEdge
  simp only [List.filter_append, List.length_append]
  have h1 : List.filter (fun l => isRC l.etype && srcIsRel (g.nodes ++ [⟨g.nodes.length, op, .operator, op ++ ":" ++ toString g.opCount⟩]) l) g.lines
      = List.filter (fun l => isRC l.etype && srcIsRel g.nodes l) g.lines := by
    apply List.filter_congr
    intro l hmem
    rw [srcIsRel_append _ _ _ (ha.b.lines l hmem).1]
  rw [h1]
  simp [srcIsRel, isRelNode]

theorem isRC_et (a b : Bool) : isRC (if (a && b) = true then EdgeType.computed else EdgeType.rewrite) = true := by
  split <;> rfl

mutual
  theorem checkRewrite_relRC (m : Model) (hm : NamesOk m = true) (td : TypeDef) (htd : td ∈ m.types) (rel : String) :
      ∀ (u : Userset) (parent : PNode) (g : G), All m g → parent ∈ g.nodes →
        (∀ x ∈ compLeaves u, Prov m (td.name ++ "#" ++ x) .typeAndRelation) →
        relRC (checkRewrite m td rel parent u g) = relRC g + (compLeaves u).length
    | .this, parent, g, ha, hp, _ => by
      simp only [checkRewrite, compLeaves, List.length_nil, Nat.add_zero]
      split
      · exact parseThisRefs_relRC parent _ none g ha.wf ha.b hp
      · rfl
    | .computed x, parent, g, ha, hp, hc => by
      simp only [checkRewrite, compLeaves, List.length_cons, List.length_nil]
      have hpl := namesOk_type m hm td htd
      obtain ⟨hi1, hk⟩ := getOrAddNode_inv m g (td.name ++ "#" ++ x) .typeAndRelation ha.inv (by decide)
        (classify_rel _ _ hpl) (hc x (by simp [compLeaves]))
      have e1 := getOrAddNode_ext g (td.name ++ "#" ++ x) (td.name ++ "#" ++ x) .typeAndRelation
      have s1 := getOrAddNode_bstep g (td.name ++ "#" ++ x) (td.name ++ "#" ++ x) .typeAndRelation
      have c1 := getOrAddNode_relRC g (td.name ++ "#" ++ x) (td.name ++ "#" ++ x) .typeAndRelation ha.b.lines
      generalize getOrAddNode g (td.name ++ "#" ++ x) (td.name ++ "#" ++ x) .typeAndRelation = p at hi1 hk e1 s1 c1 ⊢
      rw [addEdge_relRC p.1 (e1.wf ha.wf) p.2 parent _ "" s1.2, c1, isRC_et, hk]
      rfl
    | .ttu ts cu, parent, g, ha, hp, _ => by
      simp only [checkRewrite, compLeaves, List.length_nil, Nat.add_zero]
      exact parseTTURefs_relRC m td parent ts cu _ g ha.wf ha.b hp
    | .union cs, parent, g, ha, hp, hc => by
      simp only [checkRewrite, compLeaves]
      have hop : "union" ∈ opNames := by simp [opNames]
      have c1 := mkOp_relRC m g parent "union" ha hop
      have s1 := mkOp_bstep g parent "union" hp
      have a1 := ha.step (mkOp_ext g parent "union") s1.1 (mkOp_spec m g parent "union" ha.inv hop).1
      generalize mkOp g parent "union" = p at c1 s1 a1 ⊢
      rw [checkChildren_relRC m hm td htd rel cs p.2 p.1 a1 s1.2 (by simpa [compLeaves] using hc), c1]
    | .inter cs, parent, g, ha, hp, hc => by
      simp only [checkRewrite, compLeaves]
      have hop : "intersection" ∈ opNames := by simp [opNames]
      have c1 := mkOp_relRC m g parent "intersection" ha hop
      have s1 := mkOp_bstep g parent "intersection" hp
      have a1 := ha.step (mkOp_ext g parent "intersection") s1.1 (mkOp_spec m g parent "intersection" ha.inv hop).1
      generalize mkOp g parent "intersection" = p at c1 s1 a1 ⊢
      rw [checkChildren_relRC m hm td htd rel cs p.2 p.1 a1 s1.2 (by simpa [compLeaves] using hc), c1]
    | .diff b s, parent, g, ha, hp, hc => by
      simp only [checkRewrite, compLeaves, List.length_append]
      have hop : "exclusion" ∈ opNames := by simp [opNames]
      have c1 := mkOp_relRC m g parent "exclusion" ha hop
      have s1 := mkOp_bstep g parent "exclusion" hp
      have a1 := ha.step (mkOp_ext g parent "exclusion") s1.1 (mkOp_spec m g parent "exclusion" ha.inv hop).1
      generalize mkOp g parent "exclusion" = p at c1 s1 a1 ⊢
      simp only [compLeaves, List.mem_append] at hc
      have hcb := fun x hx => hc x (Or.inl hx)
      have hcs := fun x hx => hc x (Or.inr hx)
      have e2 := checkRewrite_ext m td rel b p.2 p.1
      have s2 := checkRewrite_bstep m td rel b p.2 p.1 s1.2
      have a2 := a1.step e2 s2 (checkRewrite_spec m hm td htd rel b p.2 p.1 a1.inv hcb).1
      rw [checkRewrite_relRC m hm td htd rel s p.2 _ a2 (e2.nodes.subset s1.2) hcs,
        checkRewrite_relRC m hm td htd rel b p.2 p.1 a1 s1.2 hcb, c1, Nat.add_assoc]
    | .nil, parent, g, ha, _, _ => by
      simp only [checkRewrite, compLeaves, List.length_nil, Nat.add_zero]
      exact mkOp_relRC m g parent "" ha (by simp [opNames])
  theorem checkChildren_relRC (m : Model) (hm : NamesOk m = true) (td : TypeDef) (htd : td ∈ m.types) (rel : String) :
      ∀ (cs : List Userset) (parent : PNode) (g : G), All m g → parent ∈ g.nodes →
        (∀ x ∈ compLeavesL cs, Prov m (td.name ++ "#" ++ x) .typeAndRelation) →
        relRC (checkChildren m td rel parent cs g) = relRC g + (compLeavesL cs).length
    | [], parent, g, _, _, _ => by simp only [checkChildren, compLeavesL, List.length_nil, Nat.add_zero]
    | c :: cs, parent, g, ha, hp, hc => by
      simp only [checkChildren, compLeavesL, List.length_append]
      simp only [compLeavesL, List.mem_append] at hc
      have hcc := fun x hx => hc x (Or.inl hx)
      have e1 := checkRewrite_ext m td rel c parent g
      have s1 := checkRewrite_bstep m td rel c parent g hp
      have a1 := ha.step e1 s1 (checkRewrite_spec m hm td htd rel c parent g ha.inv hcc).1
      rw [checkChildren_relRC m hm td htd rel cs parent _ a1 (e1.nodes.subset hp) (fun x hx => hc x (Or.inr hx)),
        checkRewrite_relRC m hm td htd rel c parent g ha hp hcc, Nat.add_assoc]
end

/-- the computed-userset leaves of all rewrites of a type -/
def typeLeaves (td : TypeDef) : Nat := (td.relations.map (fun p => (compLeaves p.2).length)).sum
def modelLeaves (m : Model) : Nat := (m.types.map typeLeaves).sum

theorem buildRelations_relRC (m : Model) (hm : NamesOk m = true) (td : TypeDef) (htd : td ∈ m.types) :
    ∀ (rels : List (String × Userset)) (g : G), All m g → (∀ p ∈ rels, p ∈ td.relations) →
      All m (buildRelations m td rels g) ∧
      relRC (buildRelations m td rels g) = relRC g + (rels.map (fun p => (compLeaves p.2).length)).sum
  | [], g, ha, _ => ⟨ha, rfl⟩
  | (rel, u) :: rest, g, ha, hsub => by
    simp only [buildRelations, List.map_cons, List.sum_cons]
    have hpl := namesOk_type m hm td htd
    have hmem := hsub (rel, u) (List.mem_cons_self ..)
    obtain ⟨hi1, _⟩ := getOrAddNode_inv m g (td.name ++ "#" ++ rel) .typeAndRelation ha.inv (by decide)
      (classify_rel _ _ hpl) (Or.inl ⟨td, htd, rel, u, hmem, rfl⟩)
    have e1 := getOrAddNode_ext g (td.name ++ "#" ++ rel) (td.name ++ "#" ++ rel) .typeAndRelation
    have s1 := getOrAddNode_bstep g (td.name ++ "#" ++ rel) (td.name ++ "#" ++ rel) .typeAndRelation
    have c1 := getOrAddNode_relRC g (td.name ++ "#" ++ rel) (td.name ++ "#" ++ rel) .typeAndRelation ha.b.lines
    generalize getOrAddNode g (td.name ++ "#" ++ rel) (td.name ++ "#" ++ rel) .typeAndRelation = p at hi1 e1 s1 c1 ⊢
    have a1 := ha.step e1 s1.1 hi1
    have hcu : ∀ x ∈ compLeaves u, Prov m (td.name ++ "#" ++ x) .typeAndRelation :=
      fun x hx => Or.inr (Or.inr ⟨td, htd, rel, u, hmem, x, hx, rfl⟩)
    have c2 := checkRewrite_relRC m hm td htd rel u p.2 p.1 a1 s1.2 hcu
    have a2 := a1.step (checkRewrite_ext m td rel u p.2 p.1) (checkRewrite_bstep m td rel u p.2 p.1 s1.2)
      (checkRewrite_spec m hm td htd rel u p.2 p.1 a1.inv hcu).1
    obtain ⟨a3, c3⟩ := buildRelations_relRC m hm td htd rest _ a2 (fun q hq => hsub q (List.mem_cons_of_mem _ hq))
    exact ⟨a3, by rw [c3, c2, c1, Nat.add_assoc]⟩

theorem buildTypes_relRC (m : Model) (hm : NamesOk m = true) :
    ∀ (tds : List TypeDef) (g : G), All m g → (∀ td ∈ tds, td ∈ m.types) →
      relRC (buildTypes m tds g) = relRC g + (tds.map typeLeaves).sum
  | [], g, _, _ => rfl
  | td :: rest, g, ha, hsub => by
    simp only [buildTypes, List.map_cons, List.sum_cons]
    have htd := hsub td (List.mem_cons_self ..)
    have hpl := namesOk_type m hm td htd
    obtain ⟨hi1, _⟩ := getOrAddNode_inv m g td.name .specificType ha.inv (by decide) (classify_plain _ hpl)
      (Or.inl ⟨td, htd, rfl⟩)
    have e1 := getOrAddNode_ext g td.name td.name .specificType
    have s1 := getOrAddNode_bstep g td.name td.name .specificType
    have c1 := getOrAddNode_relRC g td.name td.name .specificType ha.b.lines
    generalize getOrAddNode g td.name td.name .specificType = p at hi1 e1 s1 c1 ⊢
    have a1 := ha.step e1 s1.1 hi1
    obtain ⟨a2, c2⟩ := buildRelations_relRC m hm td htd td.relations p.1 a1 (fun _ h => h)
    rw [buildTypes_relRC m hm rest _ a2 (fun q hq => hsub q (List.mem_cons_of_mem _ hq)), c2, c1, Nat.add_assoc]
    rfl

/-- **B(v)** -/
theorem build_relRC (m : Model) (hm : NamesOk m = true) : relRC (build m) = modelLeaves m := by
  have hperm := insertionSort_perm (fun (a b : TypeDef) => decide (a.name ≤ b.name)) m.types
  have h := buildTypes_relRC m hm (insertionSort (fun a b => a.name ≤ b.name) m.types) {}
    ⟨(by intro n hn; cases hn), ⟨(by intro i h; simp at h), (by simp)⟩, ⟨(by simp), (by intro l hl; simp at hl)⟩⟩
    (fun td h => hperm.mem_iff.1 h)
  unfold build modelLeaves
  rw [h, (hperm.map typeLeaves).sum_nat]
  simp [relRC]

/-! ## 9. every line is typed as the constructs dictate: drawn towards relation and operator nodes -/

/-- a node kind lines may point to -/
def IsTarget (t : NodeType) : Prop := t = .typeAndRelation ∨ t = .operator

/-- what the kind of a line says about its tupleset label and the kinds of its end nodes -/
def KindOk (m : Model) : EdgeType → String → NodeType → NodeType → Prop
  | .direct, ts, s, d => ts = "" ∧ s ≠ .operator ∧ IsTarget d
  | .computed, ts, s, d => ts = "" ∧ s = .typeAndRelation ∧ d = .typeAndRelation
  | .rewrite, ts, s, d => ts = "" ∧ ((s = .operator ∧ IsTarget d) ∨ (s = .typeAndRelation ∧ d = .operator))
  | .ttu, ts, s, d => s = .typeAndRelation ∧ IsTarget d ∧ ∃ td ∈ m.types, ∃ t, ts = td.name ++ "#" ++ t

def LineOk (m : Model) (ns : List PNode) (l : PLine) : Prop :=
  ∃ s d, ns[l.src]? = some s ∧ ns[l.dst]? = some d ∧ KindOk m l.etype l.tupleset s.ntype d.ntype

def LT (m : Model) (g : G) : Prop := ∀ l ∈ g.lines, LineOk m g.nodes l

theorem getElem?_prefix {ns ns' : List PNode} (h : ns <+: ns') {i : Nat} {s : PNode} (hs : ns[i]? = some s) :
    ns'[i]? = some s := by
  obtain ⟨extra, rfl⟩ := h
  have hi : i < ns.length := by
    rcases Nat.lt_or_ge i ns.length with h | h
    · exact h
    · rw [List.getElem?_eq_none h] at hs; cases hs
  rw [List.getElem?_append_left hi]; exact hs

theorem LineOk.mono {m : Model} {ns ns' : List PNode} (h : ns <+: ns') {l : PLine} (hl : LineOk m ns l) :
    LineOk m ns' l := by
  obtain ⟨s, d, a, b, c⟩ := hl
  exact ⟨s, d, getElem?_prefix h a, getElem?_prefix h b, c⟩

theorem LT.nodes {m : Model} {g g' : G} (h : LT m g) (hn : g.nodes <+: g'.nodes) (hl : g'.lines = g.lines) : LT m g' := by
  intro l hmem
  rw [hl] at hmem
  exact (h l hmem).mono hn

theorem getOrAddNode_LT {m : Model} (g : G) (ul l : String) (t : NodeType) (h : LT m g) :
    LT m (getOrAddNode g ul l t).1 :=
  h.nodes (getOrAddNode_ext g ul l t).nodes (getOrAddNode_lines g ul l t)

theorem addEdge_LT {m : Model} (g : G) (hw : WF g) (s d : PNode) (t : EdgeType) (ts : String) (h : LT m g)
    (hs : s ∈ g.nodes) (hd : d ∈ g.nodes) (hk : KindOk m t ts s.ntype d.ntype) : LT m (addEdge g s d t ts) := by
  intro l hmem
  unfold addEdge at hmem
  rcases List.mem_append.1 hmem with h' | h'
  · exact h l h'
  · simp only [List.mem_cons, List.not_mem_nil, or_false] at h'
    subst h'
    exact ⟨s, d, wf_getElem? g hw s hs, wf_getElem? g hw d hd, hk⟩

theorem upsertEdge_LT {m : Model} (g : G) (hw : WF g) (s d : PNode) (t : EdgeType) (ts : String) (h : LT m g)
    (hs : s ∈ g.nodes) (hd : d ∈ g.nodes) (hk : KindOk m t ts s.ntype d.ntype) : LT m (upsertEdge g s d t ts) := by
  unfold upsertEdge; split
  · exact h
  · exact addEdge_LT g hw s d t ts h hs hd hk

theorem parseThisRefs_LT (m : Model) (hm : NamesOk m = true) (parent : PNode) (hpt : IsTarget parent.ntype) :
    ∀ (refs : List RelRef) (cur : Option PNode) (g : G), All m g → LT m g → parent ∈ g.nodes →
      (∀ r ∈ refs, IsRestr m r) → LT m (parseThisRefs parent refs cur g)
  | [], _, g, _, h, _, _ => h
  | r :: rest, cur, g, ha, h, hp, hr => by
    rw [parseThisRefs_cons]
    have hR := hr r (List.mem_cons_self ..)
    have hpl := namesOk_restr m hm r hR
    generalize hg0 : (if (r.wildcard && r.rel != "") = true then
      (getOrAddNode g (r.type ++ ":*") (r.type ++ ":*") NodeType.wildcard).1 else g) = g0
    have h0 : All m g0 ∧ LT m g0 ∧ g.nodes <+: g0.nodes := by
      subst hg0
      split
      · rename_i hc
        simp only [Bool.and_eq_true] at hc
        exact ⟨ha.step (getOrAddNode_ext ..) (getOrAddNode_bstep ..).1
          (getOrAddNode_inv m g _ .wildcard ha.inv (by decide) (classify_wild _ hpl) ⟨r, hR, hc.1, rfl⟩).1,
          getOrAddNode_LT _ _ _ _ h, (getOrAddNode_ext ..).nodes⟩
      · exact ⟨ha, h, List.prefix_refl _⟩
    obtain ⟨ha0, h0', hn0⟩ := h0
    obtain ⟨hc, hno, hpv⟩ := ref_classify m hm r hR
    obtain ⟨hi1, hk⟩ := getOrAddNode_inv m g0 (refLabel r) (refKind r) ha0.inv hno hc hpv
    have e1 := getOrAddNode_ext g0 (refLabel r) (refLabel r) (refKind r)
    have s1 := getOrAddNode_bstep g0 (refLabel r) (refLabel r) (refKind r)
    have l1 := getOrAddNode_LT (m := m) g0 (refLabel r) (refLabel r) (refKind r) h0'
    generalize getOrAddNode g0 (refLabel r) (refLabel r) (refKind r) = p at hi1 hk e1 s1 l1 ⊢
    have a1 := ha0.step e1 s1.1 hi1
    have hp1 : parent ∈ p.1.nodes := e1.nodes.subset (hn0.subset hp)
    have e2 := upsertEdge_ext p.1 p.2 parent .direct ""
    have s2 := upsertEdge_bstep p.1 p.2 parent .direct "" s1.2 hp1
    have l2 := upsertEdge_LT p.1 a1.wf p.2 parent .direct "" l1 s1.2 hp1 ⟨rfl, by rw [hk]; exact hno, hpt⟩
    exact parseThisRefs_LT m hm parent hpt rest (some p.2) _ (a1.step e2 s2 (upsertEdge_inv m _ _ _ _ _ hi1)) l2
      (e2.nodes.subset hp1) (fun r' h' => hr r' (List.mem_cons_of_mem _ h'))

theorem parseTTURefs_LT (m : Model) (hm : NamesOk m = true) (td : TypeDef) (htd : td ∈ m.types) (parent : PNode)
    (hpt : IsTarget parent.ntype) (ts cu : String) :
    ∀ (refs : List RelRef) (g : G), All m g → LT m g → parent ∈ g.nodes →
      LT m (parseTTURefs m td parent ts cu refs g)
  | [], g, _, h, _ => h
  | r :: rest, g, ha, h, hp => by
    simp only [parseTTURefs]
    split
    · exact parseTTURefs_LT m hm td htd parent hpt ts cu rest g ha h hp
    · rename_i hex
      have hex : typeAndRelationExists m r.type cu = true := by simpa using hex
      obtain ⟨td', htd', hname, u, hu⟩ := exists_prov m r.type cu hex
      have hpl : plain r.type = true := hname ▸ namesOk_type m hm td' htd'
      obtain ⟨hi1, hk⟩ := getOrAddNode_inv m g (r.type ++ "#" ++ cu) .typeAndRelation ha.inv (by decide)
        (classify_rel _ _ hpl) (Or.inl ⟨td', htd', cu, u, hu, by rw [hname]⟩)
      have e1 := getOrAddNode_ext g (r.type ++ "#" ++ cu) (r.type ++ "#" ++ cu) .typeAndRelation
      have s1 := getOrAddNode_bstep g (r.type ++ "#" ++ cu) (r.type ++ "#" ++ cu) .typeAndRelation
      have l1 := getOrAddNode_LT (m := m) g (r.type ++ "#" ++ cu) (r.type ++ "#" ++ cu) .typeAndRelation h
      generalize getOrAddNode g (r.type ++ "#" ++ cu) (r.type ++ "#" ++ cu) .typeAndRelation = p at hi1 hk e1 s1 l1 ⊢
      have a1 := ha.step e1 s1.1 hi1
      have hp1 : parent ∈ p.1.nodes := e1.nodes.subset hp
      split
      · exact parseTTURefs_LT m hm td htd parent hpt ts cu rest p.1 a1 l1 hp1
      · have e2 := upsertEdge_ext p.1 p.2 parent .ttu (td.name ++ "#" ++ ts)
        have s2 := upsertEdge_bstep p.1 p.2 parent .ttu (td.name ++ "#" ++ ts) s1.2 hp1
        have l2 := upsertEdge_LT p.1 a1.wf p.2 parent .ttu (td.name ++ "#" ++ ts) l1 s1.2 hp1
          ⟨hk, hpt, td, htd, ts, rfl⟩
        exact parseTTURefs_LT m hm td htd parent hpt ts cu rest _ (a1.step e2 s2 (upsertEdge_inv m _ _ _ _ _ hi1)) l2
          (e2.nodes.subset hp1)

theorem mkOp_LT (m : Model) (g : G) (parent : PNode) (op : String) (ha : All m g) (h : LT m g) (hop : op ∈ opNames)
    (hp : parent ∈ g.nodes) (hpt : IsTarget parent.ntype) : LT m (mkOp g parent op).1 := by
  have hspec := mkOp_spec m g parent op ha.inv hop
  have hb := mkOp_bstep g parent op hp
  have hfresh := op_label_fresh m g ha.inv op hop
  have hfresh' : ({ g with opCount := g.opCount + 1 } : G).find? (op ++ ":" ++ toString g.opCount) = none := hfresh
  revert hspec hb
  unfold mkOp
  simp only
  intro hspec hb
  have e1 := getOrAddNode_ext { g with opCount := g.opCount + 1 } (op ++ ":" ++ toString g.opCount) op .operator
  have hw1 : WF (getOrAddNode { g with opCount := g.opCount + 1 } (op ++ ":" ++ toString g.opCount) op .operator).1 :=
    e1.wf ⟨ha.wf.ids, ha.wf.uniq⟩
  have l1 : LT m (getOrAddNode { g with opCount := g.opCount + 1 } (op ++ ":" ++ toString g.opCount) op .operator).1 :=
    getOrAddNode_LT _ _ _ _ (show LT m { g with opCount := g.opCount + 1 } from h)
  refine addEdge_LT _ hw1 _ parent .rewrite "" l1 hb.2 (e1.nodes.subset hp) ⟨rfl, Or.inl ⟨?_, hpt⟩⟩
  exact hspec.2.1.2.1

theorem computed_kindOk (m : Model) (pt : NodeType) (hpt : IsTarget pt) :
    KindOk m (if (pt == NodeType.typeAndRelation && NodeType.typeAndRelation == NodeType.typeAndRelation) = true
      then EdgeType.computed else EdgeType.rewrite) "" .typeAndRelation pt := by
  rcases hpt with h | h <;> subst h
  · exact ⟨rfl, rfl, rfl⟩
  · exact ⟨rfl, Or.inr ⟨rfl, rfl⟩⟩

mutual
  theorem checkRewrite_LT (m : Model) (hm : NamesOk m = true) (td : TypeDef) (htd : td ∈ m.types) (rel : String) :
      ∀ (u : Userset) (parent : PNode) (g : G), All m g → LT m g → parent ∈ g.nodes → IsTarget parent.ntype →
        (∀ x ∈ compLeaves u, Prov m (td.name ++ "#" ++ x) .typeAndRelation) →
        LT m (checkRewrite m td rel parent u g)
    | .this, parent, g, ha, h, hp, hpt, _ => by
      simp only [checkRewrite]
      cases hrm : relMeta td rel with
      | none => exact h
      | some rm =>
        exact parseThisRefs_LT m hm parent hpt rm.restr none g ha h hp (fun r hr => ⟨td, htd, rel, rm, hrm, hr⟩)
    | .computed x, parent, g, ha, h, hp, hpt, hc => by
      simp only [checkRewrite]
      have hpl := namesOk_type m hm td htd
      obtain ⟨hi1, hk⟩ := getOrAddNode_inv m g (td.name ++ "#" ++ x) .typeAndRelation ha.inv (by decide)
        (classify_rel _ _ hpl) (hc x (by simp [compLeaves]))
      have e1 := getOrAddNode_ext g (td.name ++ "#" ++ x) (td.name ++ "#" ++ x) .typeAndRelation
      have s1 := getOrAddNode_bstep g (td.name ++ "#" ++ x) (td.name ++ "#" ++ x) .typeAndRelation
      have l1 := getOrAddNode_LT (m := m) g (td.name ++ "#" ++ x) (td.name ++ "#" ++ x) .typeAndRelation h
      generalize getOrAddNode g (td.name ++ "#" ++ x) (td.name ++ "#" ++ x) .typeAndRelation = p at hi1 hk e1 s1 l1 ⊢
      refine addEdge_LT p.1 (e1.wf ha.wf) p.2 parent _ "" l1 s1.2 (e1.nodes.subset hp) ?_
      rw [hk]
      exact computed_kindOk m parent.ntype hpt
    | .ttu ts cu, parent, g, ha, h, hp, hpt, _ => by
      simp only [checkRewrite]
      exact parseTTURefs_LT m hm td htd parent hpt ts cu _ g ha h hp
    | .union cs, parent, g, ha, h, hp, hpt, hc => by
      simp only [checkRewrite]
      have hop : "union" ∈ opNames := by simp [opNames]
      have l1 := mkOp_LT m g parent "union" ha h hop hp hpt
      have s1 := mkOp_bstep g parent "union" hp
      have sp := mkOp_spec m g parent "union" ha.inv hop
      have a1 := ha.step (mkOp_ext g parent "union") s1.1 sp.1
      have ht : IsTarget (mkOp g parent "union").2.ntype := Or.inr sp.2.1.2.1
      generalize mkOp g parent "union" = p at l1 s1 a1 ht ⊢
      exact checkChildren_LT m hm td htd rel cs p.2 p.1 a1 l1 s1.2 ht (by simpa [compLeaves] using hc)
    | .inter cs, parent, g, ha, h, hp, hpt, hc => by
      simp only [checkRewrite]
      have hop : "intersection" ∈ opNames := by simp [opNames]
      have l1 := mkOp_LT m g parent "intersection" ha h hop hp hpt
      have s1 := mkOp_bstep g parent "intersection" hp
      have sp := mkOp_spec m g parent "intersection" ha.inv hop
      have a1 := ha.step (mkOp_ext g parent "intersection") s1.1 sp.1
      have ht : IsTarget (mkOp g parent "intersection").2.ntype := Or.inr sp.2.1.2.1
      generalize mkOp g parent "intersection" = p at l1 s1 a1 ht ⊢
      exact checkChildren_LT m hm td htd rel cs p.2 p.1 a1 l1 s1.2 ht (by simpa [compLeaves] using hc)
    | .diff b s, parent, g, ha, h, hp, hpt, hc => by
      simp only [checkRewrite]
      have hop : "exclusion" ∈ opNames := by simp [opNames]
      have l1 := mkOp_LT m g parent "exclusion" ha h hop hp hpt
      have s1 := mkOp_bstep g parent "exclusion" hp
      have sp := mkOp_spec m g parent "exclusion" ha.inv hop
      have a1 := ha.step (mkOp_ext g parent "exclusion") s1.1 sp.1
      have ht : IsTarget (mkOp g parent "exclusion").2.ntype := Or.inr sp.2.1.2.1
      generalize mkOp g parent "exclusion" = p at l1 s1 a1 ht ⊢
      simp only [compLeaves, List.mem_append] at hc
      have hcb := fun x hx => hc x (Or.inl hx)
      have hcs := fun x hx => hc x (Or.inr hx)
      have e2 := checkRewrite_ext m td rel b p.2 p.1
      have s2 := checkRewrite_bstep m td rel b p.2 p.1 s1.2
      have a2 := a1.step e2 s2 (checkRewrite_spec m hm td htd rel b p.2 p.1 a1.inv hcb).1
      have l2 := checkRewrite_LT m hm td htd rel b p.2 p.1 a1 l1 s1.2 ht hcb
      exact checkRewrite_LT m hm td htd rel s p.2 _ a2 l2 (e2.nodes.subset s1.2) ht hcs
    | .nil, parent, g, ha, h, hp, hpt, _ => by
      simp only [checkRewrite]
      exact mkOp_LT m g parent "" ha h (by simp [opNames]) hp hpt
  theorem checkChildren_LT (m : Model) (hm : NamesOk m = true) (td : TypeDef) (htd : td ∈ m.types) (rel : String) :
      ∀ (cs : List Userset) (parent : PNode) (g : G), All m g → LT m g → parent ∈ g.nodes → IsTarget parent.ntype →
        (∀ x ∈ compLeavesL cs, Prov m (td.name ++ "#" ++ x) .typeAndRelation) →
        LT m (checkChildren m td rel parent cs g)
    | [], parent, g, _, h, _, _, _ => by simp only [checkChildren]; exact h
    | c :: cs, parent, g, ha, h, hp, hpt, hc => by
      simp only [checkChildren]
      simp only [compLeavesL, List.mem_append] at hc
      have hcc := fun x hx => hc x (Or.inl hx)
      have e1 := checkRewrite_ext m td rel c parent g
      have s1 := checkRewrite_bstep m td rel c parent g hp
      have a1 := ha.step e1 s1 (checkRewrite_spec m hm td htd rel c parent g ha.inv hcc).1
      have l1 := checkRewrite_LT m hm td htd rel c parent g ha h hp hpt hcc
      exact checkChildren_LT m hm td htd rel cs parent _ a1 l1 (e1.nodes.subset hp) hpt (fun x hx => hc x (Or.inr hx))
end

theorem buildRelations_LT (m : Model) (hm : NamesOk m = true) (td : TypeDef) (htd : td ∈ m.types) :
    ∀ (rels : List (String × Userset)) (g : G), All m g → LT m g → (∀ p ∈ rels, p ∈ td.relations) →
      All m (buildRelations m td rels g) ∧ LT m (buildRelations m td rels g)
  | [], g, ha, h, _ => ⟨ha, h⟩
  | (rel, u) :: rest, g, ha, h, hsub => by
    simp only [buildRelations]
    have hpl := namesOk_type m hm td htd
    have hmem := hsub (rel, u) (List.mem_cons_self ..)
    obtain ⟨hi1, hk⟩ := getOrAddNode_inv m g (td.name ++ "#" ++ rel) .typeAndRelation ha.inv (by decide)
      (classify_rel _ _ hpl) (Or.inl ⟨td, htd, rel, u, hmem, rfl⟩)
    have e1 := getOrAddNode_ext g (td.name ++ "#" ++ rel) (td.name ++ "#" ++ rel) .typeAndRelation
    have s1 := getOrAddNode_bstep g (td.name ++ "#" ++ rel) (td.name ++ "#" ++ rel) .typeAndRelation
    have l1 := getOrAddNode_LT (m := m) g (td.name ++ "#" ++ rel) (td.name ++ "#" ++ rel) .typeAndRelation h
    generalize getOrAddNode g (td.name ++ "#" ++ rel) (td.name ++ "#" ++ rel) .typeAndRelation = p at hi1 hk e1 s1 l1 ⊢
    have a1 := ha.step e1 s1.1 hi1
    have hcu : ∀ x ∈ compLeaves u, Prov m (td.name ++ "#" ++ x) .typeAndRelation :=
      fun x hx => Or.inr (Or.inr ⟨td, htd, rel, u, hmem, x, hx, rfl⟩)
    have l2 := checkRewrite_LT m hm td htd rel u p.2 p.1 a1 l1 s1.2 (Or.inl hk) hcu
    have a2 := a1.step (checkRewrite_ext m td rel u p.2 p.1) (checkRewrite_bstep m td rel u p.2 p.1 s1.2)
      (checkRewrite_spec m hm td htd rel u p.2 p.1 a1.inv hcu).1
    exact buildRelations_LT m hm td htd rest _ a2 l2 (fun q hq => hsub q (List.mem_cons_of_mem _ hq))

theorem buildTypes_LT (m : Model) (hm : NamesOk m = true) :
    ∀ (tds : List TypeDef) (g : G), All m g → LT m g → (∀ td ∈ tds, td ∈ m.types) → LT m (buildTypes m tds g)
  | [], g, _, h, _ => h
  | td :: rest, g, ha, h, hsub => by
    simp only [buildTypes]
    have htd := hsub td (List.mem_cons_self ..)
    have hpl := namesOk_type m hm td htd
    obtain ⟨hi1, _⟩ := getOrAddNode_inv m g td.name .specificType ha.inv (by decide) (classify_plain _ hpl)
      (Or.inl ⟨td, htd, rfl⟩)
    have e1 := getOrAddNode_ext g td.name td.name .specificType
    have s1 := getOrAddNode_bstep g td.name td.name .specificType
    have l1 := getOrAddNode_LT (m := m) g td.name td.name .specificType h
    generalize getOrAddNode g td.name td.name .specificType = p at hi1 e1 s1 l1 ⊢
    have a1 := ha.step e1 s1.1 hi1
    obtain ⟨a2, l2⟩ := buildRelations_LT m hm td htd td.relations p.1 a1 l1 (fun _ h => h)
    exact buildTypes_LT m hm rest _ a2 l2 (fun q hq => hsub q (List.mem_cons_of_mem _ hq))

/-- every line of a built graph is typed as its kind dictates -/
theorem build_LT (m : Model) (hm : NamesOk m = true) : LT m (build m) := by
  have hperm := insertionSort_perm (fun (a b : TypeDef) => decide (a.name ≤ b.name)) m.types
  exact buildTypes_LT m hm (insertionSort (fun a b => a.name ≤ b.name) m.types) {}
    ⟨(by intro n hn; cases hn), ⟨(by intro i h; simp at h), (by simp)⟩, ⟨(by simp), (by intro l hl; simp at hl)⟩⟩
    (by intro l hl; cases hl) (fun td h => hperm.mem_iff.1 h)

end FgaVerif.Model.PGraph
