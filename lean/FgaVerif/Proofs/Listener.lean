import FgaVerif.Model.Cst
/-! The listener port computes, for every typed CST of a relation definition — whatever its
    layout (texts of the WHITESPACE/NEWLINE tokens, optional ones present or absent) and however
    many redundant parentheses it has — exactly the denotation of the CST. -/
namespace FgaVerif.Model.Cst
open FgaVerif.Model FgaVerif.Model.Listener

/-- a listener state in which a relation declaration is being walked -/
def inRel (base : LState) (cr : Relation) (S : List StackRel) : LState :=
  { base with currentRelation := some cr, rewriteStack := some S }

@[simp] theorem walk_tokT (pe) (a b : String) (st : LState) : walk pe (tokT a b) st = .ok st := by
  simp [walk, tokT]
@[simp] theorem walk_ws (pe) (s : String) (st : LState) : walk pe (ws s) st = .ok st := by simp [ws]
@[simp] theorem walk_nl (pe) (s : String) (st : LState) : walk pe (nl s) st = .ok st := by simp [nl]

theorem walkL_append (pe) (xs ys : List Tree) (st : LState) :
    walkL pe (xs ++ ys) st = (match walkL pe xs st with | .error p => .error p | .ok st1 => walkL pe ys st1) := by
  induction xs generalizing st with
  | nil => simp [walkL]
  | cons x xs ih =>
    simp only [List.cons_append, walkL]
    cases walk pe x st with
    | error p => rfl
    | ok st1 => exact ih st1

@[simp] theorem walkL_wsList (pe) (l : List String) (st : LState) : walkL pe (l.map ws) st = .ok st := by
  induction l generalizing st with
  | nil => simp [walkL]
  | cons x xs ih => simp [walkL, ih]

@[simp] theorem walkL_optWs (pe) (o : Option String) (st : LState) : walkL pe (optWs o) st = .ok st := by
  cases o <;> simp [optWs, walkL]
@[simp] theorem walkL_optNl (pe) (o : Option String) (st : LState) : walkL pe (optNl o) st = .ok st := by
  cases o <;> simp [optNl, walkL]

@[simp] theorem ident_text (i : Ident) : i.tree.text = i.text := by
  unfold Ident.tree
  split <;> simp [Tree.text, Tree.textL, tokT]

@[simp] theorem walk_ident (pe) (i : Ident) (st : LState) : walk pe i.tree st = .ok st := by
  unfold Ident.tree
  split <;> simp [walk, walkL, enterRule, exitRule]

/-! ### leaves -/

theorem walk_rw (pe) (r : Rw) (base : LState) (cr : Relation) (S : List StackRel) :
    walk pe r.grouping (inRel base cr S) = .ok (inRel base { cr with rewrites := cr.rewrites ++ [r.den] } S) := by
  unfold Rw.grouping Rw.tree Rw.den
  cases hf : r.from_ with
  | none =>
    simp [walk, walkL, enterRule, exitRule, exitRelationDefRewrite, Tree.label?, Tree.labels, Tree.findLabel,
      Tree.children, withRelation, inRel]
  | some x =>
    obtain ⟨w1, w2, ts⟩ := x
    simp [walk, walkL, enterRule, exitRule, exitRelationDefRewrite, Tree.label?, Tree.labels, Tree.findLabel,
      Tree.children, withRelation, inRel]

theorem restr_cond_children (r : Restr) :
    (match r.cond with
      | none => ([] : List Tree)
      | some (w1, w2, c) => [ws w1, tokT "KEYWORD_WITH" "with", ws w2, .rule "conditionName" 0 0 [] [tokT "IDENTIFIER" c]]) =
    (match r.cond with
      | none => []
      | some (w1, w2, c) => [ws w1, tokT "KEYWORD_WITH" "with", ws w2, .rule "conditionName" 0 0 [] [tokT "IDENTIFIER" c]]) := rfl

theorem walk_restr (pe) (r : Restr) (base : LState) (cr : Relation) (S : List StackRel) :
    walk pe r.tree (inRel base cr S) = .ok (inRel base { cr with typeInfo := cr.typeInfo ++ [r.den] } S) := by
  obtain ⟨pre, ty, kind, cond, post⟩ := r
  cases pre <;> cases post <;> cases cond <;> cases kind <;>
    simp [Restr.tree, Restr.baseTree, Restr.den, walk, walkL, enterRule, exitRule, exitRelationDefTypeRestriction,
      Tree.childRule?, Tree.children, Tree.isRule, Tree.label?, Tree.labels, Tree.findLabel, optNl, nl, ws, tokT,
      withRelation, inRel, Tree.text, Tree.textL, List.find?]

theorem walkL_restTrees (pe) (rest : List (Option String × Restr × Option String)) (base : LState) (cr : Relation)
    (S : List StackRel) :
    walkL pe (Direct.restTrees rest) (inRel base cr S) =
      .ok (inRel base { cr with typeInfo := cr.typeInfo ++ rest.map (fun x => x.2.1.den) } S) := by
  induction rest generalizing cr with
  | nil => simp [Direct.restTrees, walkL]
  | cons x more ih =>
    obtain ⟨a, r, b⟩ := x
    simp only [Direct.restTrees, walkL_append, walkL, walk_tokT, walkL_optWs, walk_restr]
    rw [ih]
    simp

theorem walk_direct (pe) (d : Direct) (base : LState) (cr : Relation) (S : List StackRel) :
    walk pe d.tree (inRel base cr S) =
      .ok (inRel base { cr with typeInfo := d.den, rewrites := cr.rewrites ++ [.this] } S) := by
  unfold Direct.tree
  simp only [walk, enterRule, enterRelationDefDirectAssignment, withRelation, inRel]
  have h0 : ({ base with currentRelation := some { cr with typeInfo := [] }, rewriteStack := some S } : LState) =
      inRel base { cr with typeInfo := [] } S := rfl
  simp only [h0, walkL_append, walkL, walk_tokT, walkL_optWs, walk_restr, walkL_restTrees]
  simp [exitRule, exitRelationDefDirectAssignment, withRelation, inRel, Direct.den]

/-! ### the no-direct fragment (relationDefNoDirect, relationRecurseNoDirect, partials) -/

/-- grammatical partials carry a real operator token -/
def opOk : Op → Bool
  | .none => false
  | _ => true

mutual
  def DefND.wf : DefND → Bool
    | .mk first none => ItemND.wf first
    | .mk first (some p) => ItemND.wf first && Partials.wf p
  def ItemND.wf : ItemND → Bool
    | .rw _ => true
    | .paren r => RecND.wf r
  def RecND.wf : RecND → Bool
    | .ofDef _ _ d => DefND.wf d
    | .ofRec _ _ x => RecND.wf x
  def Partials.wf : Partials → Bool
    | .mk op items => opOk op && Items.wf items
  def Items.wf : Items → Bool
    | .one _ _ i => ItemND.wf i
    | .cons _ _ i rest => ItemND.wf i && Items.wf rest
end

/-- the operands a definition contributes at its own nesting level, and the operator it leaves -/
def DefND.ops : DefND → List Userset
  | .mk first none => [ItemND.den first]
  | .mk first (some (.mk _ items)) => ItemND.den first :: Items.dens items

def DefND.opOf : DefND → Op → Op
  | .mk _ none, o => o
  | .mk _ (some (.mk op _)), _ => op

theorem items_dens_ne_nil (items : Items) : Items.dens items ≠ [] := by
  cases items <;> simp [Items.dens]

theorem pe_combine (op : Op) (h : opOk op = true) (x : Userset) (ys : List Userset) (hy : ys ≠ []) :
    parseExpression (x :: ys) op = some (combine op (x :: ys)) := by
  cases ys with
  | nil => exact absurd rfl hy
  | cons y rest => cases op <;> simp_all [parseExpression, combine, opOk]

theorem pe_opsND (d : DefND) (hd : d.wf = true) (o : Op) :
    parseExpression d.ops (d.opOf o) = some (DefND.den d) := by
  cases d with
  | mk first p =>
    cases p with
    | none => simp [DefND.ops, DefND.opOf, parseExpression, DefND.den]
    | some p =>
      cases p with
      | mk op items =>
        simp only [DefND.wf, Partials.wf, Bool.and_eq_true] at hd
        simp only [DefND.ops, DefND.opOf, DefND.den]
        exact pe_combine op hd.2.1 _ _ (items_dens_ne_nil items)

theorem itemND_isTok (ty : String) (i : ItemND) : Tree.isTok ty (ItemND.tree i) = false := by
  cases i with
  | rw r => simp [ItemND.tree, Rw.grouping, Tree.isTok]
  | paren r => cases r <;> simp [ItemND.tree, RecND.tree, Tree.isTok]

def opTokType : Op → String
  | .or => "OR" | .and => "AND" | .butNot => "BUT_NOT" | .none => "OR"

theorem isTok_ws (ty s : String) : Tree.isTok ty (ws s) = ("WHITESPACE" == ty) := by
  simp [ws, tokT, Tree.isTok]

theorem isTok_opTok (ty : String) (op : Op) : Tree.isTok ty (opTok op) = (opTokType op == ty) := by
  cases op <;> simp [opTok, tokT, Tree.isTok, opTokType]

/-- among the children of a relationDefPartials node, the tokens of a non-whitespace type `ty`
    are exactly the operator tokens -/
theorem filter_items (ty : String) (hty : ("WHITESPACE" == ty) = false) (op : Op) : (items : Items) →
    ((Items.trees op items).filter (Tree.isTok ty)).isEmpty = !(opTokType op == ty)
  | .one w1 w2 i => by
    simp only [Items.trees, List.filter_cons, List.filter_nil, isTok_ws, isTok_opTok, itemND_isTok, hty]
    cases opTokType op == ty <;> simp
  | .cons w1 w2 i rest => by
    have ih := filter_items ty hty op rest
    simp only [Items.trees, List.filter_append, List.filter_cons, List.filter_nil, isTok_ws, isTok_opTok,
      itemND_isTok, hty]
    cases h : opTokType op == ty
    · simpa [h] using ih
    · simp

theorem find_butnot_items (op : Op) (items : Items) :
    ((Items.trees op items).find? (Tree.isTok "BUT_NOT")).isSome = (opTokType op == "BUT_NOT") := by
  have := filter_items "BUT_NOT" (by decide) op items
  cases h : opTokType op == "BUT_NOT"
  · simp only [h, Bool.not_false, List.isEmpty_iff, List.filter_eq_nil_iff] at this
    cases hf : (Items.trees op items).find? (Tree.isTok "BUT_NOT") with
    | none => rfl
    | some x =>
      have hx := List.find?_some hf
      have hm := List.mem_of_find?_eq_some hf
      exact absurd hx (this x hm)
  · simp only [h, Bool.not_true, List.isEmpty_eq_false_iff_exists_mem] at this
    obtain ⟨x, hx⟩ := this
    rw [List.mem_filter] at hx
    cases hf : (Items.trees op items).find? (Tree.isTok "BUT_NOT") with
    | some y => rfl
    | none =>
      rw [List.find?_eq_none] at hf
      exact absurd hx.2 (hf x hx.1)

theorem enter_partials (op : Op) (hop : opOk op = true) (items : Items) (base : LState) (cr : Relation)
    (S : List StackRel) :
    enterRelationDefPartials (.rule "relationDefPartials" 0 0 [] (Items.trees op items)) (inRel base cr S) =
      .ok (inRel base { cr with operator := op } S) := by
  have hOr := filter_items "OR" (by decide) op items
  have hAnd := filter_items "AND" (by decide) op items
  have hBn := find_butnot_items op items
  unfold enterRelationDefPartials
  simp only [Tree.childToks, Tree.childTok?, Tree.children, hOr, hAnd, hBn]
  cases op <;> simp_all [opTokType, opOk, withRelation, inRel]

/-- the walker passes "is my parent an `extend` typeDef" down only below typeDef nodes -/
theorem walk_rule (pe) (name : String) (hn : (name == "typeDef") = false) (ls) (cs : List Tree) (st : LState) :
    walk pe (.rule name 0 0 ls cs) st =
      (match enterRule name (.rule name 0 0 ls cs) st with
       | .error p => .error p
       | .ok st1 =>
         match walkL none cs st1 with
         | .error p => .error p
         | .ok st2 => exitRule name (.rule name 0 0 ls cs) pe st2) := by
  rw [walk]
  simp only [hn, Bool.false_eq_true, if_false]
  rfl

/-! dispatch facts for the rules of a relation definition (string matches decided once, here) -/
theorem enter_defND (c st) : enterRule "relationDefNoDirect" c st = .ok st := by simp [enterRule]
theorem exit_defND (c pe st) : exitRule "relationDefNoDirect" c pe st = .ok st := by simp [exitRule]
theorem enter_def (c st) : enterRule "relationDef" c st = .ok st := by simp [enterRule]
theorem exit_def (c pe st) : exitRule "relationDef" c pe st = .ok st := by simp [exitRule]
theorem enter_recND (c st) : enterRule "relationRecurseNoDirect" c st = enterRelationRecurseNoDirect st := by
  simp [enterRule]
theorem exit_recND (c pe st) : exitRule "relationRecurseNoDirect" c pe st = exitRelationRecurseNoDirect st := by
  simp [exitRule]
theorem enter_rec (c st) : enterRule "relationRecurse" c st = .ok st := by simp [enterRule]
theorem exit_rec (c pe st) : exitRule "relationRecurse" c pe st = exitRelationRecurse st := by simp [exitRule]
theorem enter_partials_rule (c st) : enterRule "relationDefPartials" c st = enterRelationDefPartials c st := by
  simp [enterRule]
theorem exit_partials_rule (c pe st) : exitRule "relationDefPartials" c pe st = .ok st := by simp [exitRule]

def Partials.op : Partials → Op
  | .mk op _ => op
def Partials.items : Partials → Items
  | .mk _ items => items

mutual
  theorem walk_defND (pe) (d : DefND) (hd : d.wf = true) (base : LState) (cr : Relation) (S : List StackRel) :
      walk pe (DefND.tree d) (inRel base cr S) =
        .ok (inRel base { cr with rewrites := cr.rewrites ++ d.ops, operator := d.opOf cr.operator } S) := by
    match d, hd with
    | .mk first none, hd =>
      simp only [DefND.wf] at hd
      rw [DefND.tree, walk_rule _ _ (by decide)]
      simp only [enter_defND, exit_defND, walkL, walk_itemND none first hd, DefND.ops, DefND.opOf]
    | .mk first (some (.mk op items)), hd =>
      simp only [DefND.wf, Partials.wf, Bool.and_eq_true] at hd
      rw [DefND.tree, walk_rule _ _ (by decide)]
      simp only [enter_defND, exit_defND, walkL, walk_itemND none first hd.1,
        walk_partials none (.mk op items) (by simp [Partials.wf, hd.2.1, hd.2.2]), DefND.ops, DefND.opOf,
        Partials.op, Partials.items]
      simp [inRel]
  theorem walk_itemND (pe) (i : ItemND) (hi : i.wf = true) (base : LState) (cr : Relation) (S : List StackRel) :
      walk pe (ItemND.tree i) (inRel base cr S) =
        .ok (inRel base { cr with rewrites := cr.rewrites ++ [ItemND.den i] } S) := by
    match i, hi with
    | .rw r, _ => simpa [ItemND.tree, ItemND.den] using walk_rw pe r base cr S
    | .paren r, hi =>
      simp only [ItemND.wf] at hi
      simpa [ItemND.tree, ItemND.den] using walk_recND pe r hi base cr S
  theorem walk_recND (pe) (r : RecND) (hr : r.wf = true) (base : LState) (cr : Relation) (S : List StackRel) :
      walk pe (RecND.tree r) (inRel base cr S) =
        .ok (inRel base { cr with rewrites := cr.rewrites ++ [RecND.den r] } S) := by
    have hpush : enterRelationRecurseNoDirect (inRel base cr S) =
        .ok (inRel base { cr with rewrites := [] } (⟨cr.rewrites, cr.operator⟩ :: S)) := by
      simp [enterRelationRecurseNoDirect, inRel]
    match r, hr with
    | .ofDef l rr d, hr =>
      simp only [RecND.wf] at hr
      rw [RecND.tree, walk_rule _ _ (by decide)]
      simp only [enter_recND, exit_recND, hpush, walkL_append, walkL, walk_tokT, walkL_wsList, walk_defND none d hr]
      simp [exitRelationRecurseNoDirect, inRel, pe_opsND d hr, RecND.den]
    | .ofRec l rr x, hr =>
      simp only [RecND.wf] at hr
      rw [RecND.tree, walk_rule _ _ (by decide)]
      simp only [enter_recND, exit_recND, hpush, walkL_append, walkL, walk_tokT, walkL_wsList, walk_recND none x hr]
      simp [exitRelationRecurseNoDirect, inRel, parseExpression, RecND.den]
  theorem walk_partials (pe) (p : Partials) (hp : p.wf = true)
      (base : LState) (cr : Relation) (S : List StackRel) :
      walk pe (Partials.tree p) (inRel base cr S) =
        .ok (inRel base { cr with operator := p.op, rewrites := cr.rewrites ++ Items.dens p.items } S) := by
    match p, hp with
    | .mk op items, hp =>
      simp only [Partials.wf, Bool.and_eq_true] at hp
      rw [Partials.tree, walk_rule _ _ (by decide)]
      simp only [enter_partials_rule, exit_partials_rule, enter_partials op hp.1 items base cr S,
        walkL_items none op items hp.2, Partials.op, Partials.items]
  theorem walkL_items (pe) (op : Op) (items : Items) (hi : items.wf = true) (base : LState) (cr : Relation)
      (S : List StackRel) :
      walkL pe (Items.trees op items) (inRel base cr S) =
        .ok (inRel base { cr with rewrites := cr.rewrites ++ Items.dens items } S) := by
    have hop : ∀ st, walk pe (opTok op) st = .ok st := by intro st; cases op <;> simp [opTok]
    match items, hi with
    | .one w1 w2 i, hi =>
      simp only [Items.wf] at hi
      simp only [Items.trees, walkL, walk_ws, hop, walk_itemND pe i hi, Items.dens]
    | .cons w1 w2 i rest, hi =>
      simp only [Items.wf, Bool.and_eq_true] at hi
      simp only [Items.trees, walkL_append, walkL, walk_ws, hop, walk_itemND pe i hi.1, Items.dens,
        walkL_items pe op rest hi.2]
      simp [inRel]
end

/-! ### the full fragment (relationDef, relationRecurse, direct assignment) -/

mutual
  def Def.wf : Def → Bool
    | .mk first none => First.wf first
    | .mk first (some p) => First.wf first && Partials.wf p
  def First.wf : First → Bool
    | .direct _ => true
    | .rw _ => true
    | .recurse r => Rec.wf r
  def Rec.wf : Rec → Bool
    | .ofDef _ _ d => Def.wf d
    | .ofRecND _ _ x => RecND.wf x
end

mutual
  /-- the operator left in `currentRelation` after the walk (a first-position parenthesis does
      not restore it; this never matters because exactly one rewrite is left) -/
  def Def.opOf : Def → Op → Op
    | .mk first none, o => First.opAfter first o
    | .mk _ (some (.mk op _)), _ => op
  def First.opAfter : First → Op → Op
    | .direct _, o => o
    | .rw _, o => o
    | .recurse r, o => Rec.opAfter r o
  def Rec.opAfter : Rec → Op → Op
    | .ofDef _ _ d, o => Def.opOf d o
    | .ofRecND _ _ _, o => o
end

def Def.ops : Def → List Userset
  | .mk first none => [First.den first]
  | .mk first (some (.mk _ items)) => First.den first :: Items.dens items

def tiAfter (r : Option (List RelRef)) (ti : List RelRef) : List RelRef := r.getD ti

theorem pe_ops (d : Def) (hd : d.wf = true) (o : Op) : parseExpression d.ops (d.opOf o) = some (Def.den d) := by
  cases d with
  | mk first p =>
    cases p with
    | none => simp [Def.ops, parseExpression, Def.den]
    | some p =>
      cases p with
      | mk op items =>
        simp only [Def.wf, Partials.wf, Bool.and_eq_true] at hd
        simp only [Def.ops, Def.opOf, Def.den]
        exact pe_combine op hd.2.1 _ _ (items_dens_ne_nil items)

mutual
  theorem walk_def (pe) (d : Def) (hd : d.wf = true) (base : LState) (o : Op) (ti : List RelRef) (S : List StackRel) :
      walk pe (Def.tree d) (inRel base ⟨[], o, ti⟩ S) =
        .ok (inRel base ⟨d.ops, d.opOf o, tiAfter (Def.restr d) ti⟩ S) := by
    match d, hd with
    | .mk first none, hd =>
      simp only [Def.wf] at hd
      rw [Def.tree, walk_rule _ _ (by decide)]
      simp only [enter_def, exit_def, walkL, walk_first none first hd, Def.ops, Def.opOf, Def.restr]
    | .mk first (some (.mk op items)), hd =>
      simp only [Def.wf, Partials.wf, Bool.and_eq_true] at hd
      rw [Def.tree, walk_rule _ _ (by decide)]
      simp only [enter_def, exit_def, walkL, walk_first none first hd.1,
        walk_partials none (.mk op items) (by simp [Partials.wf, hd.2.1, hd.2.2]), Def.ops, Def.opOf, Def.restr,
        Partials.op, Partials.items]
      simp [inRel]
  theorem walk_first (pe) (f : First) (hf : f.wf = true) (base : LState) (o : Op) (ti : List RelRef)
      (S : List StackRel) :
      walk pe (First.tree f) (inRel base ⟨[], o, ti⟩ S) =
        .ok (inRel base ⟨[First.den f], First.opAfter f o, tiAfter (First.restr f) ti⟩ S) := by
    match f, hf with
    | .direct d, _ =>
      simpa [First.tree, First.den, First.opAfter, First.restr, tiAfter] using walk_direct pe d base ⟨[], o, ti⟩ S
    | .rw r, _ =>
      simpa [First.tree, First.den, First.opAfter, First.restr, tiAfter] using walk_rw pe r base ⟨[], o, ti⟩ S
    | .recurse r, hf =>
      simp only [First.wf] at hf
      simpa [First.tree, First.den, First.opAfter, First.restr] using walk_rec pe r hf base o ti S
  theorem walk_rec (pe) (r : Rec) (hr : r.wf = true) (base : LState) (o : Op) (ti : List RelRef) (S : List StackRel) :
      walk pe (Rec.tree r) (inRel base ⟨[], o, ti⟩ S) =
        .ok (inRel base ⟨[Rec.den r], Rec.opAfter r o, tiAfter (Rec.restr r) ti⟩ S) := by
    match r, hr with
    | .ofDef l rr d, hr =>
      simp only [Rec.wf] at hr
      rw [Rec.tree, walk_rule _ _ (by decide)]
      simp only [enter_rec, exit_rec, walkL_append, walkL, walk_tokT, walkL_wsList, walk_def none d hr]
      simp [exitRelationRecurse, inRel, pe_ops d hr, Rec.den, Rec.opAfter, Rec.restr]
    | .ofRecND l rr x, hr =>
      simp only [Rec.wf] at hr
      rw [Rec.tree, walk_rule _ _ (by decide)]
      simp only [enter_rec, exit_rec, walkL_append, walkL, walk_tokT, walkL_wsList,
        walk_recND none x hr base ⟨[], o, ti⟩ S]
      simp [exitRelationRecurse, inRel, parseExpression, Rec.den, Rec.opAfter, Rec.restr, tiAfter]
end

/-! ### relationDeclaration -/

theorem enter_decl (c st) : enterRule "relationDeclaration" c st = enterRelationDeclaration st := by simp [enterRule]
theorem exit_decl (c pe st) : exitRule "relationDeclaration" c pe st = exitRelationDeclaration c pe st := by
  simp [exitRule]
theorem walk_relationName (pe) (i : Ident) (st : LState) :
    walk pe (.rule "relationName" 0 0 [] [i.tree]) st = .ok st := by
  rw [walk_rule _ _ (by decide)]
  simp [enterRule, exitRule, walkL]

/-- the state after walking a relation declaration, given the state before it -/
def declResult (pe : Option Bool) (d : Decl) (st : LState) (td : TypeDef) (m : TypeMeta) : LState :=
  let name := d.name.text
  let ti := tiAfter (Def.restr d.body) []
  let st2 := inRel st ⟨d.body.ops, d.body.opOf .none, ti⟩ []
  let st3 := if AList.contains name td.relations
    then notify st2 s!"'{name}' is already defined in '{td.name}'" (.rule "relationName" 0 0 [] [d.name.tree])
    else st2
  let rm : RelMeta := { restr := ti, module := if st.isModular && pe.getD false then st.moduleName else "" }
  { st3 with
    currentTypeDef := some { td with relations := AList.insert name (Def.den d.body) td.relations,
                                     md := some { m with relations := AList.insert name rm m.relations } },
    currentRelation := none }

/-- the type definition under construction after the declaration -/
def declTypeDef (pe : Option Bool) (d : Decl) (st : LState) (td : TypeDef) (m : TypeMeta) : TypeDef :=
  let ti := tiAfter (Def.restr d.body) []
  let rm : RelMeta := { restr := ti, module := if st.isModular && pe.getD false then st.moduleName else "" }
  { td with relations := AList.insert d.name.text (Def.den d.body) td.relations,
            md := some { m with relations := AList.insert d.name.text rm m.relations } }

theorem declResult_typeDef (pe d st td m) :
    (declResult pe d st td m).currentTypeDef = some (declTypeDef pe d st td m) := by
  simp only [declResult, declTypeDef]

theorem declResult_types (pe d st td m) : (declResult pe d st td m).types = st.types := by
  simp only [declResult]; split <;> rfl
theorem declResult_conds (pe d st td m) : (declResult pe d st td m).conds = st.conds := by
  simp only [declResult]; split <;> rfl
theorem declResult_currentRelation (pe d st td m) : (declResult pe d st td m).currentRelation = none := by
  simp only [declResult]

/-- the error log grows by exactly one entry iff the relation is already defined in the type -/
theorem declResult_errors (pe d st td m) :
    (declResult pe d st td m).errors =
      st.errors ++ (if AList.contains d.name.text td.relations
        then [⟨0, 0, s!"'{d.name.text}' is already defined in '{td.name}'"⟩] else []) := by
  simp only [declResult]
  split <;> simp [notify, inRel, Tree.startPos]

theorem decl_children_find (d : Decl) :
    (Tree.childRule? (Decl.tree d) "relationName") = some (.rule "relationName" 0 0 [] [d.name.tree]) := by
  simp [Decl.tree, Tree.childRule?, Tree.children, Tree.isRule, nl, ws, tokT, List.find?]

/-- **The listener denotes every relation declaration.**  Whatever the layout (token texts,
    optional whitespace, line breaks inside type restrictions) and the parenthesisation, walking
    the parse tree of a declaration inside a type records exactly the denotation of its CST. -/
theorem walk_decl (pe) (d : Decl) (hd : d.body.wf = true) (st : LState) (td : TypeDef) (m : TypeMeta)
    (htd : st.currentTypeDef = some td) (hm : td.md = some m) :
    walk pe (Decl.tree d) st = .ok (declResult pe d st td m) := by
  have hfind := decl_children_find d
  have henter : enterRelationDeclaration st = .ok (inRel st ⟨[], .none, []⟩ []) := rfl
  rw [Decl.tree] at hfind ⊢
  rw [walk_rule _ _ (by decide)]
  simp only [enter_decl, exit_decl, henter, walkL_append, walkL, walk_nl, walk_tokT, walk_ws, walk_relationName,
    walkL_optWs, walk_def none d.body hd]
  unfold exitRelationDeclaration
  simp only [hfind]
  cases hc : AList.contains d.name.text td.relations <;>
    simp [inRel, pe_ops d.body hd, htd, hm, hc, declResult, Tree.text, Tree.textL, notify]

end FgaVerif.Model.Cst
