import FgaVerif.Model.Ast
/-! Facts about the key-sorted association lists that model Go maps. -/
namespace FgaVerif.Model.AList

theorem find?_insert_self (k : String) (v : α) (m : List (String × α)) : find? k (insert k v m) = some v := by
  induction m with
  | nil => simp [insert, find?]
  | cons kv rest ih =>
    obtain ⟨k', v'⟩ := kv
    simp only [insert]
    split
    · simp [find?]
    · split
      · simp [find?]
      · rename_i h _
        simp only [find?, h]
        simpa using ih

theorem find?_insert_other (k k2 : String) (h : (k2 == k) = false) (v : α) (m : List (String × α)) :
    find? k2 (insert k v m) = find? k2 m := by
  induction m with
  | nil => simp [insert, find?, h]
  | cons kv rest ih =>
    obtain ⟨k', v'⟩ := kv
    simp only [insert]
    split
    · rename_i hk
      have hk' : k = k' := by simpa using hk
      subst hk'
      simp [find?, h]
    · split
      · simp [find?, h]
      · simp only [find?]
        split
        · rfl
        · exact ih

theorem contains_insert_self (k : String) (v : α) (m : List (String × α)) : contains k (insert k v m) = true := by
  simp [contains, find?_insert_self]

/-- inserting never loses another key -/
theorem contains_insert_of_contains (k k2 : String) (v : α) (m : List (String × α)) (h : contains k2 m = true) :
    contains k2 (insert k v m) = true := by
  cases hk : k2 == k with
  | true =>
    have : k2 = k := by simpa using hk
    subst this
    exact contains_insert_self _ _ _
  | false => simpa [contains, find?_insert_other k k2 hk v m] using h

end FgaVerif.Model.AList
