import FgaVerif.Model.Ast
/-! Facts about the key-sorted association lists that model Go maps. -/
namespace FgaVerif.Model.AList

theorem find?_insert_self (k : String) (v : α) (m : List (String × α)) : find? k (insert k v m) = some v := by
  induction m with
  | nil => simp [insert, find?]
  | cons kv rest ih =>
    obtain ⟨k', v'⟩ := kv
    simp only [insert]
    split
    · simp [find?]
    · split
      · simp [find?]
      · rename_i h _
        simp only [find?, h]
        simpa using ih

theorem find?_insert_other (k k2 : String) (h : (k2 == k) = false) (v : α) (m : List (String × α)) :
    find? k2 (insert k v m) = find? k2 m := by
  induction m with
  | nil => simp [insert, find?, h]
  | cons kv rest ih =>
    obtain ⟨k', v'⟩ := kv
    simp only [insert]
    split
    · rename_i hk
      have hk' : k = k' := by simpa using hk
      subst hk'
      simp [find?, h]
    · split
      · simp [find?, h]
      · simp only [find?]
        split
        · rfl
        · exact ih

theorem contains_insert_self (k : String) (v : α) (m : List (String × α)) : contains k (insert k v m) = true := by
  simp [contains, find?_insert_self]

/-- inserting never loses another key -/
theorem contains_insert_of_contains (k k2 : String) (v : α) (m : List (String × α)) (h : contains k2 m = true) :
    contains k2 (insert k v m) = true := by
  cases hk : k2 == k with
  | true =>
    have : k2 = k := by simpa using hk
    subst this
    exact contains_insert_self _ _ _
  | false => simpa [contains, find?_insert_other k k2 hk v m] using h


theorem contains_insert (x k : String) (v : α) (m : List (String × α)) :
    contains x (insert k v m) = (x == k || contains x m) := by
  cases hk : x == k with
  | true =>
    have : x = k := by simpa using hk
    subst this
    simp [contains_insert_self]
  | false => simp [contains, find?_insert_other k x hk v m]

theorem contains_eq_keys (x : String) (m : List (String × α)) :
    contains x m = (keys m).contains x := by
  induction m with
  | nil => simp [contains, find?, keys]
  | cons kv rest ih =>
    obtain ⟨k, v⟩ := kv
    simp only [contains, find?, keys, List.map_cons, List.contains_cons] at ih ⊢
    by_cases hx : x = k
    · subst hx; simp
    · have : (x == k) = false := by simpa using hx
      simp only [this, Bool.false_eq_true, if_false, Bool.false_or]
      exact ih

theorem mem_keys_iff_contains (x : String) (m : List (String × α)) : x ∈ keys m ↔ contains x m = true := by
  rw [contains_eq_keys]; simp

theorem mem_keys_insert (x k : String) (v : α) (m : List (String × α)) :
    x ∈ keys (insert k v m) ↔ x = k ∨ x ∈ keys m := by
  rw [mem_keys_iff_contains, contains_insert, mem_keys_iff_contains]
  simp

/-- keys strictly increasing -/
def SortedKeys (m : List (String × α)) : Prop := m.Pairwise (fun a b => a.1 < b.1)

theorem sortedKeys_insert (k : String) (v : α) (m : List (String × α)) (h : SortedKeys m) :
    SortedKeys (insert k v m) := by
  induction m with
  | nil => simp [insert, SortedKeys]
  | cons kv rest ih =>
    obtain ⟨k', v'⟩ := kv
    unfold SortedKeys at h ih ⊢
    rw [List.pairwise_cons] at h
    simp only [insert]
    split
    · rename_i hk
      have : k = k' := by simpa using hk
      subst this
      exact List.pairwise_cons.2 ⟨h.1, h.2⟩
    · split
      · rename_i hlt
        refine List.pairwise_cons.2 ⟨?_, List.pairwise_cons.2 ⟨h.1, h.2⟩⟩
        intro b hb
        rcases List.mem_cons.1 hb with rfl | hb
        · exact hlt
        · exact String.lt_trans hlt (h.1 b hb)
      · rename_i hne hnlt
        refine List.pairwise_cons.2 ⟨?_, ih h.2⟩
        intro b hb
        have hbk : b.1 ∈ keys (insert k v rest) := List.mem_map.2 ⟨b, hb, rfl⟩
        rcases (mem_keys_insert _ _ _ _).1 hbk with hbk | hbk
        · rw [hbk]
          have hne' : k ≠ k' := by simpa using hne
          exact Decidable.byContradiction (fun hc =>
            hne' (String.le_antisymm (String.not_lt.1 hc) (String.not_lt.1 hnlt)))
        · obtain ⟨b', hb', hb1⟩ := List.mem_map.1 hbk
          rw [← hb1]; exact h.1 b' hb'

theorem find?_none_of_lt (k : String) (m : List (String × α)) (h : ∀ b ∈ m, k < b.1) : find? k m = none := by
  induction m with
  | nil => rfl
  | cons kv rest ih =>
    obtain ⟨k', v'⟩ := kv
    have hlt : k < k' := h (k', v') (by simp)
    have hne : (k == k') = false := by
      have : k ≠ k' := fun e => String.lt_irrefl k' (e ▸ hlt)
      simpa using this
    simp only [find?, hne, Bool.false_eq_true, if_false]
    exact ih (fun b hb => h b (by simp [hb]))

/-- appending one element to the entry of `k` (creating it if absent) appends it to the multiset of
    all values -/
theorem flatMap_insert_append (k : String) (x : β) (m : List (String × List β)) (h : SortedKeys m) :
    ((insert k ((find? k m).getD [] ++ [x]) m).flatMap (·.2)).Perm (m.flatMap (·.2) ++ [x]) := by
  induction m with
  | nil => simp [insert, find?]
  | cons kv rest ih =>
    obtain ⟨k', v'⟩ := kv
    unfold SortedKeys at h
    rw [List.pairwise_cons] at h
    simp only [insert, find?]
    split
    · simp only [List.flatMap_cons, Option.getD_some]
      -- (v' ++ [x]) ++ rest ~ (v' ++ rest) ++ [x]
      rw [List.append_assoc, List.append_assoc]
      exact List.Perm.append_left _ List.perm_append_comm
    · split
      · rename_i hne hlt
        have hnone : find? k rest = none :=
          find?_none_of_lt k rest (fun b hb => String.lt_trans hlt (h.1 b hb))
        simp only [hnone, Option.getD_none, List.nil_append, List.flatMap_cons]
        exact List.perm_append_comm (l₁ := [x])
      · simp only [List.flatMap_cons]
        rw [List.append_assoc]
        exact List.Perm.append_left _ (ih h.2)

end FgaVerif.Model.AList
