import FgaVerif.Proofs.Merge
/-! Conservation of the rewrites through the second loop of the merger: what a relation name is bound
    to in a collected type after the extensions have been applied. -/
namespace FgaVerif.Model.Merge
open FgaVerif.Model FgaVerif.Model.Listener

/-- an association list with distinct keys binds `k` to `v` exactly when the pair is in it -/
theorem find?_eq_some_iff_mem (m : List (String × α)) (h : (AList.keys m).Nodup) (k : String) (v : α) :
    AList.find? k m = some v ↔ (k, v) ∈ m := by
  induction m with
  | nil => simp [AList.find?]
  | cons kv rest ih =>
    obtain ⟨k', v'⟩ := kv
    simp only [AList.keys, List.map_cons, List.nodup_cons] at h
    simp only [AList.find?, List.mem_cons, Prod.mk.injEq]
    by_cases hk : (k == k') = true
    · have : k = k' := by simpa using hk
      subst this
      simp only [beq_self_eq_true, if_true, Option.some.injEq, true_and]
      constructor
      · intro h1; exact Or.inl h1.symm
      · rintro (h1 | h1)
        · exact h1.symm
        · exact absurd (List.mem_map.2 ⟨(k, v), h1, rfl⟩) h.1
    · have hk' : (k == k') = false := by simpa using hk
      have hne : k ≠ k' := by simpa using hk'
      simp only [hk', Bool.false_eq_true, if_false]
      rw [ih h.2]
      constructor
      · intro h1; exact Or.inr h1
      · rintro (⟨h1, _⟩ | h1)
        · exact absurd h1 hne
        · exact h1

theorem find?_insert (k k2 : String) (v : α) (m : List (String × α)) :
    AList.find? k2 (AList.insert k v m) = if k2 == k then some v else AList.find? k2 m := by
  by_cases h : (k2 == k) = true
  · have : k2 = k := by simpa using h
    subst this
    simp [AList.find?_insert_self]
  · have h' : (k2 == k) = false := by simpa using h
    simp [h', AList.find?_insert_other k k2 h' v m]

/-- values after `addRelations`: a new name is bound to the extension's rewrite, an old name keeps its
    rewrite -/
theorem addRelations_values (file : String) (lines : List (List Char)) (existing : List String) (ext : TypeDef) :
    ∀ (rels : List (String × Userset)) (orig : TypeDef) (errs : List MergeErr),
      (∀ kv ∈ rels, (AList.find? kv.1 (relMetaOf ext)).isSome = true) → orig.md.isSome = true →
      (rels.map (·.1)).Nodup →
      ∃ orig' E, addRelations file lines existing ext rels orig errs = .ok (orig', errs ++ E) ∧
        ∀ k, AList.find? k orig'.relations =
          (if k ∈ rels.map (·.1) ∧ k ∉ existing then AList.find? k rels else AList.find? k orig.relations)
  | [], orig, errs, _, _, _ => ⟨orig, [], by simp [addRelations], fun k => by simp⟩
  | (name, rel) :: rest, orig, errs, hwf, hmd, hnd => by
    simp only [List.map_cons, List.nodup_cons] at hnd
    simp only [addRelations]
    by_cases hc : existing.contains name = true
    · simp only [hc, if_true]
      obtain ⟨orig', E, h1, h2⟩ := addRelations_values file lines existing ext rest orig
        (errs ++ [.mod ("relation " ++ name ++ " already exists on type " ++ ext.name) file
          (constructLineAndColumnData lines (lineWithPrefix ("define " ++ name) lines) name)])
        (fun kv hkv => hwf kv (by simp [hkv])) hmd hnd.2
      refine ⟨orig', (.mod ("relation " ++ name ++ " already exists on type " ++ ext.name) file
          (constructLineAndColumnData lines (lineWithPrefix ("define " ++ name) lines) name)) :: E, by rw [h1]; simp, ?_⟩
      intro k
      rw [h2 k]
      simp only [List.map_cons, List.mem_cons, AList.find?]
      by_cases hk : k = name
      · subst hk
        have hex : k ∈ existing := by simpa using hc
        have hnr : k ∉ rest.map (·.1) := hnd.1
        simp [hex, hnr]
      · have hk' : (k == name) = false := by simpa using hk
        simp only [hk', Bool.false_eq_true, if_false, hk, false_or]
    · have hc' : existing.contains name = false := by simpa using hc
      simp only [hc', Bool.false_eq_true, if_false]
      have hw := hwf (name, rel) (by simp)
      simp only at hw
      cases hrm : AList.find? name (relMetaOf ext) with
      | none => simp [hrm] at hw
      | some rm =>
        simp only
        cases hom : orig.md with
        | none => simp [hom] at hmd
        | some om =>
          simp only
          obtain ⟨orig', E, h1, h2⟩ := addRelations_values file lines existing ext rest
            { orig with relations := AList.insert name rel orig.relations,
                        md := some { om with relations := AList.insert name { rm with file := file } om.relations } }
            errs (fun kv hkv => hwf kv (by simp [hkv])) rfl hnd.2
          refine ⟨orig', E, h1, ?_⟩
          intro k
          rw [h2 k]
          simp only [List.map_cons, List.mem_cons, AList.find?, find?_insert]
          by_cases hk : k = name
          · subst hk
            have hnex : k ∉ existing := by simpa using hc'
            have hnr : k ∉ rest.map (·.1) := hnd.1
            simp [hnex, hnr]
          · have hk' : (k == name) = false := by simpa using hk
            simp only [hk', Bool.false_eq_true, if_false, hk, false_or]


/-- the rewrite currently bound to relation `k` of the collected type `n` -/
def valNow (R : List TypeDef) (n k : String) : Option Userset :=
  match R.find? (fun t => t.name == n) with
  | some t => AList.find? k t.relations
  | none => none

theorem find?_updFirst_same (n : String) (f : TypeDef → TypeDef) (hf : ∀ t, t.name = n → (f t).name = t.name)
    (R : List TypeDef) (orig : TypeDef) (h : R.find? (fun t => t.name == n) = some orig) :
    (updFirst (fun t => t.name == n) f R).find? (fun t => t.name == n) = some (f orig) := by
  induction R with
  | nil => simp at h
  | cons a rest ih =>
    simp only [List.find?_cons] at h
    simp only [updFirst]
    by_cases hp : (a.name == n) = true
    · simp only [hp, Option.some.injEq] at h; subst h
      have ha : a.name = n := by simpa using hp
      simp [hp, hf a ha, ha]
    · have hp' : (a.name == n) = false := by simpa using hp
      simp only [hp'] at h
      simp only [hp', Bool.false_eq_true, if_false, List.find?_cons]
      exact ih h

theorem find?_updFirst_other (n n' : String) (hne : n' ≠ n) (f : TypeDef → TypeDef)
    (hf : ∀ t, t.name = n → (f t).name = t.name) (R : List TypeDef) :
    (updFirst (fun t => t.name == n) f R).find? (fun t => t.name == n') = R.find? (fun t => t.name == n') := by
  induction R with
  | nil => rfl
  | cons a rest ih =>
    simp only [updFirst]
    by_cases hp : (a.name == n) = true
    · have ha : a.name = n := by simpa using hp
      have h1 : (a.name == n') = false := by simpa [ha] using (fun e => hne e.symm)
      have h2 : ((f a).name == n') = false := by rw [hf a ha]; exact h1
      simp [hp, List.find?_cons, h1, h2]
    · have hp' : (a.name == n) = false := by simpa using hp
      simp only [hp', Bool.false_eq_true, if_false, List.find?_cons]
      by_cases hq : (a.name == n') = true
      · simp [hq]
      · have hq' : (a.name == n') = false := by simpa using hq
        simp only [hq']
        exact ih

theorem find?_none_of_not_mem_keys (k : String) (m : List (String × α)) (h : k ∉ AList.keys m) :
    AList.find? k m = none := by
  cases hf : AList.find? k m with
  | none => rfl
  | some v =>
    have : AList.contains k m = true := by simp [AList.contains, hf]
    exact absurd ((AList.mem_keys_iff_contains k m).2 this) h

/-- values after one extension that raised no error: the extension's relations are bound to the
    extension's rewrites, everything else is as before -/
theorem applyExtension_values (file : String) (lines : List (List Char)) (ext : TypeDef) (st : MState)
    (hR : ∀ t ∈ st.rawTypeDefs, t.md.isSome = true) (hwf : ExtWF ext) (hnd : (AList.keys ext.relations).Nodup)
    (hname : ext.name ∈ st.rawTypeDefs.map (·.name))
    (hclean : ∀ k ∈ AList.keys ext.relations, k ∉ curKeys st.rawTypeDefs ext.name) :
    ∃ st', applyExtension file lines ext st = .ok st' ∧
      ∀ n k, valNow st'.rawTypeDefs n k =
        if n = ext.name ∧ k ∈ AList.keys ext.relations then AList.find? k ext.relations
        else valNow st.rawTypeDefs n k := by
  unfold applyExtension
  cases hidx : st.rawTypeDefs.findIdx? (fun t => t.name == ext.name) with
  | none =>
    exact absurd hname (find?_none_not_mem _ _ (findIdx?_none_find? _ _ hidx))
  | some i =>
    obtain ⟨x, hx⟩ := findIdx?_some_get _ _ _ hidx
    simp only [hx]
    have hxmem : x ∈ st.rawTypeDefs := List.mem_of_getElem? hx
    have hfind : st.rawTypeDefs.find? (fun t => t.name == ext.name) = some x :=
      (findIdx?_set (fun t => t.name == ext.name) id _ i x hidx hx).2.2
    have hxname : x.name = ext.name := by
      obtain ⟨_, hp, _⟩ := findIdx?_set (fun t => t.name == ext.name) id _ i x hidx hx
      simpa using hp
    have hcur : curKeys st.rawTypeDefs ext.name = AList.keys x.relations := by simp [curKeys, hfind]
    by_cases hemp : x.relations.isEmpty = true
    · simp only [hemp, if_true]
      let f : TypeDef → TypeDef := fun o =>
        { o with relations := ext.relations, md := some { (o.md.getD {}) with relations := setRelFiles file (relMetaOf ext) } }
      have hset := (findIdx?_set (fun t => t.name == ext.name) f _ i x hidx hx).1
      have hf : ∀ t, t.name = ext.name → (f t).name = t.name := fun t _ => rfl
      refine ⟨_, rfl, ?_⟩
      intro n k
      show valNow (replaceAt st.rawTypeDefs i (f x)) n k = _
      unfold replaceAt; rw [hset]
      have hxe : x.relations = [] := by simpa using hemp
      by_cases hn : n = ext.name
      · subst hn
        unfold valNow
        rw [find?_updFirst_same _ f hf _ x hfind, hfind]
        simp only [true_and, hxe]
        show AList.find? k ext.relations = _
        by_cases hk : k ∈ AList.keys ext.relations
        · simp [hk]
        · simp [hk, find?_none_of_not_mem_keys k _ hk, AList.find?]
      · unfold valNow
        rw [find?_updFirst_other _ n hn f hf]
        simp [hn]
    · simp only [hemp, Bool.false_eq_true, if_false]
      have hndr : (ext.relations.map (·.1)).Nodup := hnd
      obtain ⟨orig', E, h1, h2⟩ := addRelations_values file lines (AList.keys x.relations) ext ext.relations x []
        hwf (hR x hxmem) hndr
      obtain ⟨orig'', E', h1', _, h3, _, _⟩ := addRelations_spec file lines (AList.keys x.relations) ext ext.relations x []
        hwf (hR x hxmem)
      have heq : orig'' = orig' := by
        rw [h1] at h1'
        simp only [Except.ok.injEq, Prod.mk.injEq] at h1'
        exact h1'.1.symm
      subst heq
      rw [h1]
      simp only [List.nil_append]
      let f : TypeDef → TypeDef := fun _ => orig''
      have hset := (findIdx?_set (fun t => t.name == ext.name) f _ i x hidx hx).1
      have hf : ∀ t, t.name = ext.name → (f t).name = t.name := fun t ht => by
        show orig''.name = t.name; rw [h3, hxname, ht]
      refine ⟨_, rfl, ?_⟩
      intro n k
      show valNow (replaceAt st.rawTypeDefs i (f x)) n k = _
      unfold replaceAt; rw [hset]
      by_cases hn : n = ext.name
      · subst hn
        unfold valNow
        rw [find?_updFirst_same _ f hf _ x hfind, hfind]
        show AList.find? k orig''.relations = _
        rw [h2 k]
        simp only [true_and]
        by_cases hk : k ∈ AList.keys ext.relations
        · have hk1 : k ∈ ext.relations.map (·.1) := hk
          have hk2 : k ∉ AList.keys x.relations := by rw [← hcur]; exact hclean k hk
          simp [hk, hk1, hk2]
        · have hk1 : k ∉ ext.relations.map (·.1) := hk
          simp [hk, hk1]
      · unfold valNow
        rw [find?_updFirst_other _ n hn f hf]
        simp [hn]


/-- the bindings after one extension -/
def stepVals (e : TypeDef) (V : String → String → Option Userset) : String → String → Option Userset :=
  fun n k => if n = e.name ∧ k ∈ AList.keys e.relations then AList.find? k e.relations else V n k

/-- the bindings after a list of extensions -/
def valsAfter : List TypeDef → (String → String → Option Userset) → String → String → Option Userset
  | [], V => V
  | e :: rest, V => valsAfter rest (stepVals e V)

theorem valsAfter_congr (es : List TypeDef) (V V' : String → String → Option Userset) (h : ∀ n k, V n k = V' n k) :
    ∀ n k, valsAfter es V n k = valsAfter es V' n k := by
  induction es generalizing V V' with
  | nil => exact h
  | cons e rest ih =>
    intro n k
    exact ih _ _ (fun n k => by simp only [stepVals, h n k]) n k

theorem valsAfter_append (a b : List TypeDef) (V : String → String → Option Userset) :
    valsAfter (a ++ b) V = valsAfter b (valsAfter a V) := by
  induction a generalizing V with
  | nil => rfl
  | cons e rest ih => simp only [List.cons_append, valsAfter, ih]

theorem applyExtensions_values (file : String) (lines : List (List Char)) :
    ∀ (exts : List TypeDef) (st : MState) (K : String → String → Prop),
      (∀ t ∈ st.rawTypeDefs, t.md.isSome = true) →
      (∀ e ∈ exts, ExtWF e ∧ (AList.keys e.relations).Nodup) →
      (∀ n k, k ∈ curKeys st.rawTypeDefs n ↔ K n k) →
      extsClean (st.rawTypeDefs.map (·.name)) exts K →
      ∃ st', applyExtensions file lines exts st = .ok st' ∧
        (∀ n k, valNow st'.rawTypeDefs n k = valsAfter exts (valNow st.rawTypeDefs) n k) ∧
        (∀ t ∈ st'.rawTypeDefs, t.md.isSome = true) ∧
        st'.rawTypeDefs.map (·.name) = st.rawTypeDefs.map (·.name) ∧
        st'.extended = st.extended ∧ st'.moduleFiles = st.moduleFiles ∧
        (∀ n k, k ∈ curKeys st'.rawTypeDefs n ↔ keysAfter exts K n k)
  | [], st, K, hR, _, hK, _ =>
    ⟨st, rfl, fun _ _ => rfl, hR, rfl, rfl, rfl, fun n k => by simp [keysAfter, hK]⟩
  | e :: rest, st, K, hR, hwf, hK, hcl => by
    simp only [extsClean] at hcl
    obtain ⟨⟨hn, hclk⟩, hrest⟩ := hcl
    have hclean : ∀ k ∈ AList.keys e.relations, k ∉ curKeys st.rawTypeDefs e.name :=
      fun k hk hc => hclk k hk ((hK _ _).1 hc)
    obtain ⟨st1, E1, h1, _, _, h4, h5, h6, h7, h8, h9⟩ :=
      applyExtension_spec file lines e st hR (hwf e (by simp)).1
    have hE1 : E1 = [] := h8.2 ⟨hn, hclean⟩
    obtain ⟨st1', g1, g2⟩ := applyExtension_values file lines e st hR (hwf e (by simp)).1 (hwf e (by simp)).2 hn hclean
    have : st1' = st1 := by rw [h1] at g1; simp only [Except.ok.injEq] at g1; exact g1.symm
    subst this
    have hK1 : ∀ n k, k ∈ curKeys st1'.rawTypeDefs n ↔ (K n k ∨ (n = e.name ∧ k ∈ AList.keys e.relations)) := by
      intro n k; rw [h9 hE1 n k, hK n k]
    obtain ⟨st2, f1, f2, f3, f4, f5, f6, f7⟩ := applyExtensions_values file lines rest st1' _ h7
      (fun e' he' => hwf e' (by simp [he'])) hK1 (by rw [h6]; exact hrest)
    refine ⟨st2, by simp only [applyExtensions, h1, f1], ?_, f3, f4.trans h6, f5.trans h4, f6.trans h5, ?_⟩
    · intro n k
      rw [f2 n k]
      simp only [valsAfter]
      exact valsAfter_congr rest _ _ (fun n k => by simp only [stepVals, g2 n k]) n k
    · intro n k
      rw [f7 n k]
      simp only [keysAfter, List.mem_cons, exists_eq_or_imp]
      constructor
      · rintro ((h | h) | h)
        · exact Or.inl h
        · exact Or.inr (Or.inl h)
        · exact Or.inr (Or.inr h)
      · rintro (h | h | h)
        · exact Or.inl (Or.inl h)
        · exact Or.inl (Or.inr h)
        · exact Or.inr h

theorem applyAll_values :
    ∀ (xs : List (String × List TypeDef)) (st : MState) (K : String → String → Prop),
      (∀ t ∈ st.rawTypeDefs, t.md.isSome = true) →
      (∀ x ∈ xs, ∀ e ∈ x.2, ExtWF e ∧ (AList.keys e.relations).Nodup) →
      (∀ n k, k ∈ curKeys st.rawTypeDefs n ↔ K n k) →
      extsClean (st.rawTypeDefs.map (·.name)) (xs.flatMap (·.2)) K →
      ∃ st', applyAll xs st = .ok st' ∧
        ∀ n k, valNow st'.rawTypeDefs n k = valsAfter (xs.flatMap (·.2)) (valNow st.rawTypeDefs) n k
  | [], st, K, _, _, _, _ => ⟨st, rfl, fun _ _ => rfl⟩
  | (file, exts) :: rest, st, K, hR, hwf, hK, hcl => by
    simp only [List.flatMap_cons] at hcl
    rw [extsClean_append] at hcl
    obtain ⟨st1, f1, f2, f3, f4, f5, f6, f7⟩ := applyExtensions_values file ((AList.find? file st.moduleFiles).getD []) exts st K hR
      (fun e he => hwf (file, exts) (by simp) e he) hK hcl.1
    obtain ⟨st2, g1, g2⟩ := applyAll_values rest st1 (keysAfter exts K) f3
      (fun x hx => hwf x (by simp [hx])) f7 (by rw [f4]; exact hcl.2)
    refine ⟨st2, by simp only [applyAll, f1, g1], ?_⟩
    intro n k
    rw [g2 n k]
    simp only [List.flatMap_cons, valsAfter_append]
    exact valsAfter_congr _ _ _ f2 n k


theorem find?_isSome_iff_mem_keys (k : String) (m : List (String × α)) :
    (AList.find? k m).isSome = true ↔ k ∈ AList.keys m := by
  rw [AList.mem_keys_iff_contains]; rfl

/-- with no clash, a relation is bound after the extensions to what it was bound to before, or to what
    the one extension that declares it binds it to -/
theorem valsAfter_some_iff (names : List String) :
    ∀ (es : List TypeDef) (K : String → String → Prop) (V : String → String → Option Userset),
      (∀ n k, K n k ↔ (V n k).isSome = true) → extsClean names es K →
      ∀ n k v, valsAfter es V n k = some v ↔
        (V n k = some v ∨ ∃ e ∈ es, e.name = n ∧ AList.find? k e.relations = some v)
  | [], K, V, _, _, n, k, v => by simp [valsAfter]
  | e :: rest, K, V, hKV, hcl, n, k, v => by
    simp only [extsClean] at hcl
    obtain ⟨⟨_, hclk⟩, hrest⟩ := hcl
    have hKV1 : ∀ n k, (K n k ∨ (n = e.name ∧ k ∈ AList.keys e.relations)) ↔ (stepVals e V n k).isSome = true := by
      intro n k
      unfold stepVals
      by_cases hc : n = e.name ∧ k ∈ AList.keys e.relations
      · simp only [hc, and_self, if_true, or_true, true_iff]
        exact (find?_isSome_iff_mem_keys k _).2 hc.2
      · simp only [hc, if_false, or_false]
        exact hKV n k
    rw [valsAfter, valsAfter_some_iff names rest _ _ hKV1 hrest n k v]
    simp only [List.mem_cons, exists_eq_or_imp]
    unfold stepVals
    by_cases hc : n = e.name ∧ k ∈ AList.keys e.relations
    · simp only [hc, and_self, if_true]
      have hVnone : V n k = none := by
        have := hclk k hc.2
        rw [← hc.1, hKV n k] at this
        cases hv : V n k with
        | none => rfl
        | some _ => simp [hv] at this
      have hVnone' : V e.name k = none := hc.1 ▸ hVnone
      constructor
      · rintro (h | h)
        · exact Or.inr (Or.inl ⟨trivial, h⟩)
        · exact Or.inr (Or.inr h)
      · rintro (h | h | h)
        · rw [hVnone'] at h; cases h
        · exact Or.inl h.2
        · exact Or.inr h
    · simp only [hc, if_false]
      constructor
      · rintro (h | h)
        · exact Or.inl h
        · exact Or.inr (Or.inr h)
      · rintro (h | ⟨hn, hf⟩ | h)
        · exact Or.inl h
        · exfalso
          apply hc
          refine ⟨hn.symm, (find?_isSome_iff_mem_keys k _).1 (by simp [hf])⟩
        · exact Or.inr h

end FgaVerif.Model.Merge
