import FgaVerif.Proofs.Weights
/-! Completeness of the fuelled breadth-first search of the specification: with fuel at least
    `|work| + |U| - |seen|` for a universe `U` that contains everything the search can see, the search
    ends with an empty work list, and then its result contains everything reachable. -/
namespace FgaVerif.Spec.Weights

/-- the invariant of the search -/
structure SearchInv (g : SGraph) (hopOk : Bool) (U seen work : List String) : Prop where
  nodup : seen.Nodup
  sub : seen ⊆ U
  work_sub : work ⊆ seen
  closed : ∀ x ∈ seen, x ∉ work → ∀ y, Succ g hopOk x y → y ∈ seen

/-- the universe is closed under successors -/
def UClosed (g : SGraph) (hopOk : Bool) (U : List String) : Prop := ∀ x ∈ U, ∀ y, Succ g hopOk x y → y ∈ U

theorem reachFrom_complete (g : SGraph) (hopOk : Bool) (U : List String) (hU : UClosed g hopOk U) :
    ∀ (fuel : Nat) (seen work : List String), SearchInv g hopOk U seen work → work.Nodup →
      work.length + U.length - seen.length ≤ fuel →
      ∀ x ∈ reachFrom g hopOk fuel seen work, ∀ y, Succ g hopOk x y → y ∈ reachFrom g hopOk fuel seen work
  | 0, seen, work, inv, _, hf => by
    -- no fuel left: the work list must be empty
    have hlen : seen.length ≤ U.length := inv.nodup.length_le_of_subset inv.sub
    have hw : work = [] := by
      cases work with
      | nil => rfl
      | cons a as => simp only [List.length_cons] at hf; omega
    subst hw
    simp only [reachFrom]
    intro x hx y hy
    exact inv.closed x hx (by simp) y hy
  | fuel+1, seen, [], inv, _, _ => by
    simp only [reachFrom]
    intro x hx y hy
    exact inv.closed x hx (by simp) y hy
  | fuel+1, seen, n :: rest, inv, hwn, hf => by
    simp only [reachFrom]
    have hn_seen : n ∈ seen := inv.work_sub (by simp)
    have hnew_nodup : (((succsAll g n hopOk).filter (fun x => !seen.contains x)).eraseDups).Nodup :=
      nodup_eraseDups _ _ (Nat.le_refl _)
    have hnew_not_seen : ∀ x ∈ ((succsAll g n hopOk).filter (fun x => !seen.contains x)).eraseDups, x ∉ seen := by
      intro x hx
      have := List.mem_eraseDups.1 hx
      have := (List.mem_filter.1 this).2
      simpa using this
    have hnew_succ : ∀ x ∈ ((succsAll g n hopOk).filter (fun x => !seen.contains x)).eraseDups, Succ g hopOk n x := by
      intro x hx
      exact (List.mem_filter.1 (List.mem_eraseDups.1 hx)).1
    generalize hnew : ((succsAll g n hopOk).filter (fun x => !seen.contains x)).eraseDups = new at *
    have hrest_nodup : rest.Nodup := (List.nodup_cons.1 hwn).2
    have hn_not_rest : n ∉ rest := (List.nodup_cons.1 hwn).1
    apply reachFrom_complete g hopOk U hU fuel (seen ++ new) (rest ++ new)
    · refine ⟨?_, ?_, ?_, ?_⟩
      · exact List.nodup_append.2 ⟨inv.nodup, hnew_nodup, fun a ha b hb hab => hnew_not_seen b hb (hab ▸ ha)⟩
      · intro x hx
        rcases List.mem_append.1 hx with h | h
        · exact inv.sub h
        · exact hU n (inv.sub hn_seen) x (hnew_succ x h)
      · intro x hx
        rcases List.mem_append.1 hx with h | h
        · exact List.mem_append.2 (Or.inl (inv.work_sub (by simp [h])))
        · exact List.mem_append.2 (Or.inr h)
      · intro x hx hxw y hy
        rcases List.mem_append.1 hx with h | h
        · by_cases hxn : x = n
          · subst hxn
            -- the successors of n are seen or new
            by_cases hys : y ∈ seen
            · exact List.mem_append.2 (Or.inl hys)
            · refine List.mem_append.2 (Or.inr ?_)
              rw [← hnew]
              exact List.mem_eraseDups.2 (List.mem_filter.2 ⟨hy, by simpa using hys⟩)
          · have : x ∉ n :: rest := by
              intro hm
              rcases List.mem_cons.1 hm with h1 | h1
              · exact hxn h1
              · exact hxw (List.mem_append.2 (Or.inl h1))
            exact List.mem_append.2 (Or.inl (inv.closed x h this y hy))
        · exact absurd (List.mem_append.2 (Or.inr h)) hxw
    · refine List.nodup_append.2 ⟨hrest_nodup, hnew_nodup, ?_⟩
      intro a ha b hb hab
      exact hnew_not_seen b hb (hab ▸ inv.work_sub (by simp [ha]))
    · have hlen : seen.length ≤ U.length := inv.nodup.length_le_of_subset inv.sub
      have hlen2 : (seen ++ new).length ≤ U.length := by
        refine (List.nodup_append.2 ⟨inv.nodup, hnew_nodup, fun a ha b hb hab => hnew_not_seen b hb (hab ▸ ha)⟩).length_le_of_subset ?_
        intro x hx
        rcases List.mem_append.1 hx with h | h
        · exact inv.sub h
        · exact hU n (inv.sub hn_seen) x (hnew_succ x h)
      simp only [List.length_append, List.length_cons] at hf hlen2 ⊢
      omega

/-- the result contains the initial `seen` list -/
theorem reachFrom_mono (g : SGraph) (hopOk : Bool) : ∀ (fuel : Nat) (seen work : List String),
    ∀ x ∈ seen, x ∈ reachFrom g hopOk fuel seen work
  | 0, seen, work, x, hx => by simpa [reachFrom] using hx
  | fuel+1, seen, [], x, hx => by simpa [reachFrom] using hx
  | fuel+1, seen, n :: rest, x, hx => by
    simp only [reachFrom]
    exact reachFrom_mono g hopOk fuel _ _ x (List.mem_append.2 (Or.inl hx))

/-- every reference to a node goes to a node of the graph -/
def Closed (g : SGraph) : Prop :=
  ∀ nd ∈ g, ∀ e ∈ nd.edges, ∀ x, e.dst = .node x → x ∈ g.map (·.name)

theorem closed_of_closedB (g : SGraph) (h : closedB g = true) : Closed g := by
  intro nd hnd e he x hx
  have h1 := List.all_eq_true.1 h nd hnd
  have h2 := List.all_eq_true.1 h1 e he
  simp only [hx] at h2
  simpa using h2

theorem succ_in_names (g : SGraph) (hc : Closed g) (hopOk : Bool) (x y : String) (h : Succ g hopOk x y) :
    y ∈ g.map (·.name) := by
  unfold Succ succsAll at h
  split at h
  · simp at h
  · rename_i nd hnd
    obtain ⟨e, he, hy⟩ := List.mem_filterMap.1 h
    have hmem := List.mem_of_find?_eq_some hnd
    split at hy
    · rename_i z hz
      split at hy
      · simp only [Option.some.injEq] at hy; subst hy; exact hc nd hmem e he _ hz
      · cases hy
    · cases hy

/-- **completeness of the reachability search from one root** on a closed graph -/
theorem reach_complete (g : SGraph) (hc : Closed g) (hopOk : Bool) (n : String) (x : String)
    (h : Reach g hopOk n x) : x ∈ reachFrom g hopOk (g.length + 1) [n] [n] := by
  let U := n :: g.map (·.name)
  have hU : UClosed g hopOk U := by
    intro a _ b hab
    exact List.mem_cons_of_mem _ (succ_in_names g hc hopOk a b hab)
  have inv : SearchInv g hopOk U [n] [n] :=
    ⟨by simp, by intro a ha; simp at ha; subst ha; simp [U], by simp, by intro a ha hna; simp at ha; subst ha; simp at hna⟩
  have hclosed := reachFrom_complete g hopOk U hU (g.length + 1) [n] [n] inv (by simp)
    (by simp [U])
  induction h with
  | refl => exact reachFrom_mono g hopOk _ _ _ n (by simp)
  | step _ hs ih => exact hclosed _ ih _ hs

/-- completeness from several roots that are nodes of the graph -/
theorem reach_complete_roots (g : SGraph) (hc : Closed g) (hopOk : Bool) (roots : List String)
    (hnd : roots.Nodup) (hsub : roots ⊆ g.map (·.name)) (r x : String) (hr : r ∈ roots)
    (h : Reach g hopOk r x) : x ∈ reachFrom g hopOk (g.length + 1) roots roots := by
  let U := g.map (·.name)
  have hU : UClosed g hopOk U := fun a _ b hab => succ_in_names g hc hopOk a b hab
  have inv : SearchInv g hopOk U roots roots :=
    ⟨hnd, hsub, fun _ h => h, fun a ha hna => absurd ha hna⟩
  have hclosed := reachFrom_complete g hopOk U hU (g.length + 1) roots roots inv hnd (by simp [U])
  induction h with
  | refl => exact reachFrom_mono g hopOk _ _ _ r hr
  | step _ hs ih => exact hclosed _ ih _ hs

/-- **the cycle test is complete**: a walk of at least one edge from `n` back to `n` is reported -/
theorem onCycle_complete (g : SGraph) (hc : Closed g) (hopOk : Bool) (n s : String)
    (hs : Succ g hopOk n s) (hr : Reach g hopOk s n) : onCycle g hopOk n = true := by
  unfold onCycle
  simp only
  have hmem : s ∈ (succsAll g n hopOk).eraseDups := List.mem_eraseDups.2 hs
  have hsub : (succsAll g n hopOk).eraseDups ⊆ g.map (·.name) := by
    intro a ha
    exact succ_in_names g hc hopOk n a (List.mem_eraseDups.1 ha)
  have := reach_complete_roots g hc hopOk _ (nodup_eraseDups _ _ (Nat.le_refl _)) hsub s n hmem hr
  simpa using this

/-- **every reachable public restriction is listed** -/
theorem wildTargets_complete (g : SGraph) (hc : Closed g) (n t : String) (x : String)
    (hr : Reach g true n x) (hw : HasWildcardEdge g x t) : t ∈ wildTargets g n := by
  unfold wildTargets
  simp only
  refine (FgaVerif.insertionSort_perm _ _).mem_iff.2 (List.mem_eraseDups.2 ?_)
  refine List.mem_flatMap.2 ⟨x, reach_complete g hc true n x hr, ?_⟩
  obtain ⟨nd, hnd, e, he, hd⟩ := hw
  simp only [hnd]
  exact List.mem_filterMap.2 ⟨e, he, by simp [hd]⟩

end FgaVerif.Spec.Weights
