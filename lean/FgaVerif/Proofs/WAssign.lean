import FgaVerif.Model.WAssign
/-! An invariant of the port of `AssignWeights`: **no wildcard list, of a node or of an edge, ever
    contains a duplicate** (C11), whatever the graph, the start order and the point the computation has
    reached.  Every function that writes a wildcard list either copies a list that has the property or
    appends an element it has just tested to be absent. -/
namespace FgaVerif.Model.WAssign
open FgaVerif.Model FgaVerif.Model.WGraph

def AllP {κ α : Type} (P : α → Prop) (m : List (κ × α)) : Prop := ∀ p ∈ m, P p.2

theorem aget_allP {κ α : Type} [BEq κ] [Inhabited α] {P : α → Prop} (hd : P default) {m : List (κ × α)}
    (h : AllP P m) (k : κ) : P (aget k m) := by
  unfold aget
  split
  · rename_i k' v hf
    exact h _ (List.mem_of_find?_eq_some hf)
  · exact hd

theorem aset_allP {κ α : Type} [BEq κ] {P : α → Prop} (k : κ) (v : α) (hv : P v) :
    ∀ (m : List (κ × α)), AllP P m → AllP P (aset k v m)
  | [], _ => by
    intro p hp
    simp only [aset, List.mem_singleton] at hp
    subst hp; exact hv
  | (k', v') :: rest, h => by
    unfold aset
    split
    · intro p hp
      rcases List.mem_cons.1 hp with rfl | hp
      · exact hv
      · exact h p (List.mem_cons_of_mem _ hp)
    · intro p hp
      rcases List.mem_cons.1 hp with rfl | hp
      · exact h _ (List.mem_cons_self ..)
      · exact aset_allP k v hv rest (fun q hq => h q (List.mem_cons_of_mem _ hq)) p hp

theorem foldl_inv {σ β : Type} (P : σ → Prop) (f : σ → β → σ) (hf : ∀ s x, P s → P (f s x)) :
    ∀ (l : List β) (s : σ), P s → P (l.foldl f s)
  | [], _, h => h
  | x :: xs, s, h => foldl_inv P f hf xs (f s x) (hf s x h)

theorem addUnique_nodup (xs ys : List String) (h : xs.Nodup) : (addUnique xs ys).Nodup := by
  unfold addUnique
  refine foldl_inv (fun acc => acc.Nodup) _ ?_ ys xs h
  intro acc y hacc
  by_cases hc : acc.contains y = true
  · simp only [hc, if_true]; exact hacc
  · simp only [hc, Bool.false_eq_true, if_false]
    have hn : y ∉ acc := by simpa using hc
    rw [List.nodup_append]
    refine ⟨hacc, by simp, ?_⟩
    intro a ha b hb
    simp only [List.mem_singleton] at hb
    subst hb
    exact fun e => hn (e ▸ ha)

/-- the invariant -/
structure WildNodup (st : AState) : Prop where
  node : AllP List.Nodup st.nodeWild
  edge : AllP List.Nodup st.edgeWild

theorem nodup_default : (default : List String).Nodup := List.nodup_nil

theorem wildNodup_init : WildNodup {} := by
  constructor <;> (intro p hp; cases hp)

/-- a state change that leaves both wildcard tables alone -/
theorem WildNodup.frame {st st' : AState} (h : WildNodup st) (hn : st'.nodeWild = st.nodeWild)
    (he : st'.edgeWild = st.edgeWild) : WildNodup st' := ⟨hn ▸ h.node, he ▸ h.edge⟩

theorem addWildcardToEdge_inv (t : String) (r : ERef) (st : AState) (h : WildNodup st) :
    WildNodup (addWildcardToEdge t r st) := by
  unfold addWildcardToEdge
  simp only
  split
  · exact ⟨h.node, aset_allP r [t] (by simp) _ h.edge⟩
  · split
    · exact h
    · rename_i hne hc
      refine ⟨h.node, aset_allP r _ ?_ _ h.edge⟩
      have hcur := aget_allP nodup_default h.edge r
      have hn : t ∉ aget r st.edgeWild := by simpa using hc
      rw [List.nodup_append]
      refine ⟨hcur, by simp, ?_⟩
      intro a ha b hb
      simp only [List.mem_singleton] at hb
      subst hb
      exact fun e => hn (e ▸ ha)

theorem addEdgeWildcardsToNode_inv (nodeID : String) (r : ERef) (st : AState) (h : WildNodup st) :
    WildNodup (addEdgeWildcardsToNode nodeID r st) := by
  unfold addEdgeWildcardsToNode
  simp only
  have hew := aget_allP nodup_default h.edge r
  have hnw := aget_allP nodup_default h.node nodeID
  split
  · exact h
  · split
    · exact ⟨aset_allP nodeID _ hew _ h.node, h.edge⟩
    · exact ⟨aset_allP nodeID _ (addUnique_nodup _ _ hnw) _ h.node, h.edge⟩

theorem calculateEdgeWildcards_inv (to : String) (r : ERef) (st : AState) (h : WildNodup st) :
    WildNodup (calculateEdgeWildcards to r st) := by
  unfold calculateEdgeWildcards
  have hnw := aget_allP nodup_default h.node to
  split
  · exact h
  · simp only
    split
    · exact h
    · exact ⟨h.node, aset_allP r _ hnw _ h.edge⟩

theorem addReferentialWildcardsToEdge_inv (r : ERef) (refNode : String) (st : AState) (h : WildNodup st) :
    WildNodup (addReferentialWildcardsToEdge r refNode st) := by
  unfold addReferentialWildcardsToEdge
  simp only
  have hrw := aget_allP nodup_default h.node refNode
  have hew := aget_allP nodup_default h.edge r
  split
  · exact h
  · split
    · exact ⟨h.node, aset_allP r _ hrw _ h.edge⟩
    · exact ⟨h.node, aset_allP r _ (addUnique_nodup _ _ hew) _ h.edge⟩

theorem addReferentialWildcardsToNode_inv (nodeID refNode : String) (st : AState) (h : WildNodup st) :
    WildNodup (addReferentialWildcardsToNode nodeID refNode st) := by
  unfold addReferentialWildcardsToNode
  simp only
  have hrw := aget_allP nodup_default h.node refNode
  have hnw := aget_allP nodup_default h.node nodeID
  split
  · exact ⟨aset_allP nodeID _ hrw _ h.node, h.edge⟩
  · exact ⟨aset_allP nodeID _ (addUnique_nodup _ _ hnw) _ h.node, h.edge⟩

theorem addDep_inv (n : String) (r : ERef) (st : AState) (h : WildNodup st) : WildNodup (addDep n r st) :=
  h.frame rfl rfl

/-! ### the strategies only write weights -/
theorem maxStrategy_inv (g : G) (nodeID : String) (st : AState) (h : WildNodup st) :
    WildNodup (maxStrategy g nodeID st).2 := by
  unfold maxStrategy
  split
  · exact h
  · exact h.frame rfl rfl

theorem mixedStrategy_inv (g : G) (nodeID : String) (st : AState) (h : WildNodup st) :
    WildNodup (mixedStrategy g nodeID st).2 := by
  unfold mixedStrategy
  split
  · exact h
  · exact h.frame rfl rfl

theorem enforceTypeStrategy_inv (g : G) (nodeID : String) (st : AState) (h : WildNodup st) :
    WildNodup (enforceTypeStrategy g nodeID st).2 := by
  unfold enforceTypeStrategy
  split
  · exact h
  · simp only
    split
    · exact h
    · exact h.frame rfl rfl

theorem fixDependantEdgesWeight_inv (nodeCycle refID : String) (hasRefs : Bool) (st : AState) (h : WildNodup st) :
    WildNodup (fixDependantEdgesWeight nodeCycle refID hasRefs st) := by
  unfold fixDependantEdgesWeight
  refine foldl_inv WildNodup _ ?_ _ st h
  intro st r hst
  simp only
  apply addReferentialWildcardsToEdge_inv
  -- the inner folds thread the state through `addDep` only
  have inner : WildNodup ((aget r st.edgeW).foldl (fun (acc : WMap × AState) (kv : String × Nat) =>
      if kv.1 == refID then
        (aget nodeCycle st.nodeW).foldl (fun (acc : WMap × AState) (kv2 : String × Nat) =>
          match wget kv2.1 acc.1 with
          | none =>
            (wset kv2.1 kv2.2 acc.1, if hasRefs && kv2.1.startsWith "R#" then addDep (kv2.1.drop 2).toString r acc.2 else acc.2)
          | some v0 => (wset kv2.1 (Nat.max v0 kv2.2) acc.1, acc.2)) (acc.1, acc.2)
      else (wsetMax kv.1 kv.2 acc.1, acc.2)) ([], st)).2 := by
    refine foldl_inv (fun (acc : WMap × AState) => WildNodup acc.2) _ ?_ _ ([], st) hst
    intro acc kv hacc
    split
    · refine foldl_inv (fun (acc : WMap × AState) => WildNodup acc.2) _ ?_ _ (acc.1, acc.2) hacc
      intro acc2 kv2 hacc2
      split
      · simp only
        split
        · exact addDep_inv _ _ _ hacc2
        · exact hacc2
      · exact hacc2
    · exact hacc
  exact inner.frame rfl rfl

theorem fixDependantNodesWeight_inv (nodeCycle refID : String) (st : AState) (h : WildNodup st) :
    WildNodup (fixDependantNodesWeight nodeCycle refID st) := by
  unfold fixDependantNodesWeight
  refine foldl_inv WildNodup _ ?_ _ st h
  intro st r hst
  simp only
  apply addReferentialWildcardsToNode_inv
  exact hst.frame rfl rfl

theorem calcAndFix_inv (g : G) (nodeID : String) (st : AState) (h : WildNodup st) :
    WildNodup (calcAndFix g nodeID st).2 := by
  unfold calcAndFix
  simp only
  split
  · exact h
  · split
    · exact h
    · split
      · exact h
      · simp only
        have key : ∀ (w : WMap) (b : Bool),
            WildNodup { (fixDependantNodesWeight nodeID ("R#" ++ nodeID)
                (fixDependantEdgesWeight nodeID ("R#" ++ nodeID) b { st with nodeW := aset nodeID w st.nodeW })) with
              deps := adel nodeID (fixDependantNodesWeight nodeID ("R#" ++ nodeID)
                (fixDependantEdgesWeight nodeID ("R#" ++ nodeID) b { st with nodeW := aset nodeID w st.nodeW })).deps } := by
          intro w b
          have h1 : WildNodup { st with nodeW := aset nodeID w st.nodeW } := h.frame rfl rfl
          have h2 := fixDependantEdgesWeight_inv nodeID ("R#" ++ nodeID) b _ h1
          have h3 := fixDependantNodesWeight_inv nodeID ("R#" ++ nodeID) _ h2
          exact h3.frame rfl rfl
        exact key _ _

theorem fromTheEdges_inv (g : G) (nodeID : String) (tcs : List String) (st : AState) (h : WildNodup st) :
    WildNodup (fromTheEdges g nodeID tcs st).2 := by
  have hmax := maxStrategy_inv g nodeID st h
  have henf := enforceTypeStrategy_inv g nodeID st h
  have hmix := mixedStrategy_inv g nodeID st h
  have hfix := calcAndFix_inv g nodeID st h
  unfold fromTheEdges
  simp only
  split
  · split
    · exact hmax
    · split
      · exact hmax
      · split
        · exact henf
        · split
          · exact hmix
          · exact h
  · split
    · split
      · rename_i e st' heq; rw [heq] at hfix; exact hfix
      · rename_i st' heq; rw [heq] at hfix; exact hfix
    · split
      · exact hmax
      · split
        · split
          · split
            · rename_i e st' heq; rw [heq] at hfix; exact hfix
            · rename_i st' heq; rw [heq] at hfix; exact hfix
          · exact hmax
        · exact h

/-! ### the recursion -/

/-- the recursive call preserves the invariant -/
def RecInv (rec : String → List WEdge → AState → Res) : Prop :=
  ∀ n path st, WildNodup st → WildNodup (rec n path st).2

theorem calcEdgeWith_inv (rec : String → List WEdge → AState → Res) (hrec : RecInv rec) (g : G) (r : ERef) (e : WEdge)
    (path : List WEdge) (st : AState) (h : WildNodup st) : WildNodup (calcEdgeWith rec g r e path st).2 := by
  unfold calcEdgeWith
  split
  · exact addDep_inv _ _ _ (h.frame rfl rfl)
  · simp only
    have hr := hrec e.dst (path ++ [e]) st h
    split
    · rename_i tc err st' heq; rw [heq] at hr; exact hr
    · rename_i tc st' heq
      rw [heq] at hr
      simp only at hr
      split
      · split
        · exact addDep_inv _ _ _ (hr.frame rfl rfl)
        · exact hr
      · simp only
        -- dependencies are added (state changes through `addDep` only), then the edge weights are written
        have h1 : WildNodup (if (!tc.isEmpty) = true then tc.foldl (fun st n => addDep n r st) st' else st') := by
          split
          · exact foldl_inv WildNodup _ (fun s n hs => addDep_inv n r s hs) tc st' hr
          · exact hr
        have h2 : WildNodup ((aget e.dst st'.nodeW).foldl (fun (acc : List String × AState) (kv : String × Nat) =>
            if (!(!tc.isEmpty) && kv.1.startsWith "R#") = true then
              (acc.1 ++ [(kv.1.drop 2).toString], addDep (kv.1.drop 2).toString r acc.2)
            else acc) (tc, if (!tc.isEmpty) = true then tc.foldl (fun st n => addDep n r st) st' else st')).2 := by
          refine foldl_inv (fun (acc : List String × AState) => WildNodup acc.2) _ ?_ _ _ h1
          intro acc kv hacc
          split
          · exact addDep_inv _ _ _ hacc
          · exact hacc
        exact h2.frame rfl rfl

theorem edgeLoop_inv (rec : String → List WEdge → AState → Res) (hrec : RecInv rec) (g : G) (nodeID : String)
    (path : List WEdge) : ∀ (es : List (ERef × WEdge)) (tcs : List String) (st : AState), WildNodup st →
      WildNodup (edgeLoop rec g nodeID path es tcs st).2
  | [], _, _, h => h
  | (r, e) :: rest, tcs, st, h => by
    unfold edgeLoop
    split
    · exact edgeLoop_inv rec hrec g nodeID path rest tcs st h
    · simp only
      split
      · apply edgeLoop_inv rec hrec g nodeID path rest
        have h1 : WildNodup (if (nodeType g e.dst == NodeType.wildcard) = true then
            addEdgeWildcardsToNode nodeID r (addWildcardToEdge
              (if (nodeType g e.dst == NodeType.wildcard) = true then (e.dst.dropEnd 2).toString else e.dst) r st) else st) := by
          split
          · exact addEdgeWildcardsToNode_inv _ _ _ (addWildcardToEdge_inv _ _ _ h)
          · exact h
        exact h1.frame rfl rfl
      · have hc := calcEdgeWith_inv rec hrec g r e path st h
        have h2 := addEdgeWildcardsToNode_inv nodeID r _ (calculateEdgeWildcards_inv e.dst r _ hc)
        split
        · exact h2
        · exact edgeLoop_inv rec hrec g nodeID path rest _ _ h2

theorem calcNode_inv : ∀ (fuel : Nat) (g : G), RecInv (calcNode fuel g)
  | 0, _ => by intro n path st h; simpa [calcNode] using h
  | fuel+1, g => by
    intro n path st h
    unfold calcNode
    split
    · exact h
    · split
      · exact h
      · simp only
        have hl := edgeLoop_inv (calcNode fuel g) (calcNode_inv fuel g) g n path
          ((List.range (edgesOf g n).length).zip (edgesOf g n) |>.map (fun (i, e) => ((n, i), e))) []
          { st with visited := n :: st.visited } (h.frame rfl rfl)
        split
        · rename_i tcs err st' heq; rw [heq] at hl; exact hl
        · rename_i tcs st' heq
          rw [heq] at hl
          exact fromTheEdges_inv g n tcs st' hl

theorem assignWeights_go_inv (g : G) : ∀ (ns : List String) (st st' : AState), WildNodup st →
    assignWeights.go g ns st = .ok st' → WildNodup st'
  | [], st, st', h, heq => by
    simp only [assignWeights.go] at heq
    cases heq; exact h
  | n :: ns, st, st', h, heq => by
    unfold assignWeights.go at heq
    split at heq
    · exact assignWeights_go_inv g ns st st' h heq
    · have hc := calcNode_inv (g.nodes.length + 1) g n [] st h
      split at heq
      · cases heq
      · rename_i tcs st2 hres
        rw [hres] at hc
        split at heq
        · cases heq
        · exact assignWeights_go_inv g ns st2 st' hc heq

/-- **no wildcard list of the result contains a duplicate** -/
theorem assignWeights_wildNodup (g : G) (order : List String) (st : AState)
    (h : assignWeights g order = .ok st) : WildNodup st := by
  unfold assignWeights at h
  split at h
  · cases h
  · exact assignWeights_go_inv g _ {} st wildNodup_init h

end FgaVerif.Model.WAssign
