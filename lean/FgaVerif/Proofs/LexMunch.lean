import FgaVerif.Model.LexSim
import FgaVerif.Proofs.LexDriver
/-! What the matcher of the lexer model computes (`LexSim.matchOne` / `execLoop`, the port of
    `LexerATNSimulator.execATN` + `failOrAccept`): **maximal munch with rule priority**, stated in terms of
    the sequence of configuration sets (`startSet`, then `reachSet` once per character).

    * `setAt sim s0 input k` — the configuration set after the first `k` characters (`s0` is what the port
      keeps for the mode: `startSet sim mode`, or `none` when the closure fuel ran out); the run *stops* at
      the first empty reach set or at the end of the input (`Reach.stopped`), and is *out of fuel* as soon
      as one `reachSet` is (`Reach.nofuel`).  The pruning of the port (`skipAlt`, the non-greedy flag) is
      inside `reachSet`, which is used as is.
    * `acceptAt sim s0 input k` — the (rule, actions) of the **first** configuration in a rule stop state
      of that set (`firstStop`): what the port records as `prevAccept` at position `k`.
    * `runLen sim s0 input` — the number of characters consumed before the run stopped.

    All statements are about an arbitrary `Sim`. -/
namespace FgaVerif.Model.LexSim.LexMunch
open FgaVerif.Model.LexSim

/-- the state of the simulation at a position of the input -/
inductive Reach where
  /-- the simulation reaches the position, with this set of configurations -/
  | set (cs : Array Config)
  /-- the simulation stopped before the position: an empty reach set, or the end of the input -/
  | stopped
  /-- the closure fuel ran out at or before the position -/
  | nofuel
  deriving Repr, Inhabited

/-- the set `k` characters after `cur` -/
def setFrom (sim : Sim) : Array Config → List Char → Nat → Reach
  | cur, _, 0 => .set cur
  | _, [], _+1 => .stopped
  | cur, ch :: rest, k+1 =>
    match reachSet sim ch.toNat cur.toList #[] none with
    | none => .nofuel
    | some r => if r.isEmpty then .stopped else setFrom sim r rest k

/-- the number of characters consumed from `cur` before the run stops -/
def runFrom (sim : Sim) : Array Config → List Char → Nat
  | _, [] => 0
  | cur, ch :: rest =>
    match reachSet sim ch.toNat cur.toList #[] none with
    | none => 0
    | some r => if r.isEmpty then 0 else 1 + runFrom sim r rest

/-- the configuration set after the first `k` characters of `input` -/
def setAt (sim : Sim) (s0 : Option (Array Config)) (input : List Char) (k : Nat) : Reach :=
  match s0 with
  | none => .nofuel
  | some s => setFrom sim s input k

/-- the number of characters the run consumes -/
def runLen (sim : Sim) (s0 : Option (Array Config)) (input : List Char) : Nat :=
  match s0 with
  | none => 0
  | some s => runFrom sim s input

/-- the first stop configuration of a position (rule priority: the sets are ordered) -/
def stopOf (sim : Sim) : Reach → Option Config
  | .set cs => firstStop sim cs
  | _ => none

/-- what the port records as `prevAccept` at position `k`: rule and lexer actions -/
def acceptAt (sim : Sim) (s0 : Option (Array Config)) (input : List Char) (k : Nat) : Option (Nat × List Nat) :=
  (stopOf sim (setAt sim s0 input k)).map fun c => ((stateOf sim c.state).rule, c.acts)

/-- the same for a mode of the automaton, from its start set -/
def setAtMode (sim : Sim) (mode : Nat) (input : List Char) (k : Nat) : Reach := setAt sim (startSet sim mode) input k
def acceptAtMode (sim : Sim) (mode : Nat) (input : List Char) (k : Nat) : Option (Nat × List Nat) :=
  acceptAt sim (startSet sim mode) input k

/-! ### the sequence of sets: `startSet`, then one `reachSet` per character -/

theorem setFrom_zero (sim : Sim) (cur : Array Config) (input : List Char) : setFrom sim cur input 0 = .set cur := by
  cases input <;> rfl

theorem setFrom_nil_succ (sim : Sim) (cur : Array Config) (k : Nat) : setFrom sim cur [] (k+1) = .stopped := rfl

theorem setFrom_cons_succ (sim : Sim) (cur r : Array Config) (ch : Char) (rest : List Char) (k : Nat)
    (hr : reachSet sim ch.toNat cur.toList #[] none = some r) (hne : r.isEmpty = false) :
    setFrom sim cur (ch :: rest) (k+1) = setFrom sim r rest k := by
  simp [setFrom, hr, hne]

theorem setFrom_cons_empty (sim : Sim) (cur r : Array Config) (ch : Char) (rest : List Char) (k : Nat)
    (hr : reachSet sim ch.toNat cur.toList #[] none = some r) (he : r.isEmpty = true) :
    setFrom sim cur (ch :: rest) (k+1) = .stopped := by
  simp [setFrom, hr, he]

theorem setFrom_cons_nofuel (sim : Sim) (cur : Array Config) (ch : Char) (rest : List Char) (k : Nat)
    (hr : reachSet sim ch.toNat cur.toList #[] none = none) :
    setFrom sim cur (ch :: rest) (k+1) = .nofuel := by
  simp [setFrom, hr]

/-- one more character: the set at `k+1` is `reachSet` of the set at `k` on character `k` -/
theorem setFrom_succ (sim : Sim) : ∀ (input : List Char) (cur : Array Config) (k : Nat),
    setFrom sim cur input (k+1) =
      match setFrom sim cur input k with
      | .set cs =>
        match input[k]? with
        | none => .stopped
        | some ch =>
          match reachSet sim ch.toNat cs.toList #[] none with
          | none => .nofuel
          | some r => if r.isEmpty then .stopped else .set r
      | .stopped => .stopped
      | .nofuel => .nofuel := by
  intro input
  induction input with
  | nil =>
    intro cur k
    cases k <;> simp [setFrom]
  | cons ch rest ih =>
    intro cur k
    cases k with
    | zero =>
      simp only [setFrom_zero, List.getElem?_cons_zero]
      cases hr : reachSet sim ch.toNat cur.toList #[] none with
      | none => simp [setFrom, hr]
      | some r =>
        cases he : r.isEmpty with
        | true => simp [setFrom, hr, he]
        | false => simp [setFrom, hr, he, setFrom_zero]
    | succ k =>
      cases hr : reachSet sim ch.toNat cur.toList #[] none with
      | none => simp [setFrom, hr]
      | some r =>
        cases he : r.isEmpty with
        | true => simp [setFrom, hr, he]
        | false =>
          rw [setFrom_cons_succ sim cur r ch rest (k+1) hr he, setFrom_cons_succ sim cur r ch rest k hr he, ih]
          simp

/-- position `k` is reached exactly when `k ≤ runFrom` -/
theorem setFrom_set_iff (sim : Sim) : ∀ (input : List Char) (cur : Array Config) (k : Nat),
    (∃ cs, setFrom sim cur input k = .set cs) ↔ k ≤ runFrom sim cur input := by
  intro input
  induction input with
  | nil =>
    intro cur k
    cases k <;> simp [setFrom, runFrom]
  | cons ch rest ih =>
    intro cur k
    cases k with
    | zero => simp [setFrom_zero]
    | succ k =>
      cases hr : reachSet sim ch.toNat cur.toList #[] none with
      | none => simp [setFrom, runFrom, hr]
      | some r =>
        cases he : r.isEmpty with
        | true => simp [setFrom, runFrom, hr, he]
        | false =>
          rw [setFrom_cons_succ sim cur r ch rest k hr he, ih]
          simp only [runFrom, hr, he, Bool.false_eq_true, if_false]
          omega

theorem runFrom_le_length (sim : Sim) : ∀ (input : List Char) (cur : Array Config),
    runFrom sim cur input ≤ input.length := by
  intro input
  induction input with
  | nil => intro cur; simp [runFrom]
  | cons ch rest ih =>
    intro cur
    simp only [runFrom, List.length_cons]
    split
    · omega
    · split
      · omega
      · have := ih ‹_›; omega

/-- the sets reached after at least one character are not empty -/
theorem setFrom_nonempty (sim : Sim) : ∀ (input : List Char) (cur : Array Config) (k : Nat) (cs : Array Config),
    setFrom sim cur input (k+1) = .set cs → cs.isEmpty = false := by
  intro input
  induction input with
  | nil => intro cur k cs h; simp [setFrom] at h
  | cons ch rest ih =>
    intro cur k cs h
    cases hr : reachSet sim ch.toNat cur.toList #[] none with
    | none => simp [setFrom, hr] at h
    | some r =>
      cases he : r.isEmpty with
      | true => simp [setFrom, hr, he] at h
      | false =>
        rw [setFrom_cons_succ sim cur r ch rest k hr he] at h
        cases k with
        | zero => rw [setFrom_zero] at h; cases h; exact he
        | succ k => exact ih r k cs h

/-- a stop configuration at relative position `j` means that position is reached -/
theorem stopOf_some_le (sim : Sim) (input : List Char) (cur : Array Config) (j : Nat) (cfg : Config)
    (h : stopOf sim (setFrom sim cur input j) = some cfg) : j ≤ runFrom sim cur input := by
  rw [← setFrom_set_iff]
  cases hs : setFrom sim cur input j with
  | set cs => exact ⟨cs, rfl⟩
  | stopped => rw [hs] at h; simp [stopOf] at h
  | nofuel => rw [hs] at h; simp [stopOf] at h

/-! ### `execLoop`, with its accumulators -/

/-- an accept of `execLoop`: no fuel problem anywhere, and either the last position (at least one
    character further) with a stop configuration, or the `prev` it was given when there is none -/
theorem execLoop_accept (sim : Sim) : ∀ (input : List Char) (cur : Array Config) (consumed : Nat)
    (prev : Option (Nat × Config)) (len rule : Nat) (acts : List Nat),
    execLoop sim input cur consumed prev = .accept len rule acts →
    (∀ j, setFrom sim cur input j ≠ .nofuel) ∧
    ((∃ j cfg, 1 ≤ j ∧ len = consumed + j ∧ stopOf sim (setFrom sim cur input j) = some cfg ∧
        rule = (stateOf sim cfg.state).rule ∧ acts = cfg.acts ∧
        ∀ j', j < j' → stopOf sim (setFrom sim cur input j') = none) ∨
     (∃ cfg, prev = some (len, cfg) ∧ rule = (stateOf sim cfg.state).rule ∧ acts = cfg.acts ∧
        ∀ j', 1 ≤ j' → stopOf sim (setFrom sim cur input j') = none)) := by
  intro input
  induction input with
  | nil =>
    intro cur consumed prev len rule acts h
    refine ⟨fun j => by cases j <;> simp [setFrom], ?_⟩
    cases prev with
    | none =>
      simp only [execLoop] at h
      split at h <;> cases h
    | some p =>
      obtain ⟨l, cfg⟩ := p
      simp only [execLoop, MatchRes.accept.injEq] at h
      obtain ⟨rfl, rfl, rfl⟩ := h
      refine Or.inr ⟨cfg, rfl, rfl, rfl, ?_⟩
      intro j' hj'
      cases j' with
      | zero => omega
      | succ j' => simp [setFrom, stopOf]
  | cons ch rest ih =>
    intro cur consumed prev len rule acts h
    cases hr : reachSet sim ch.toNat cur.toList #[] none with
    | none => simp [execLoop, hr] at h
    | some r =>
      cases he : r.isEmpty with
      | true =>
        refine ⟨fun j => by cases j <;> simp [setFrom, hr, he], ?_⟩
        cases prev with
        | none => simp [execLoop, hr, he] at h
        | some p =>
          obtain ⟨l, cfg⟩ := p
          simp only [execLoop, hr, he, if_true, MatchRes.accept.injEq] at h
          obtain ⟨rfl, rfl, rfl⟩ := h
          refine Or.inr ⟨cfg, rfl, rfl, rfl, ?_⟩
          intro j' hj'
          cases j' with
          | zero => omega
          | succ j' => simp [setFrom, hr, he, stopOf]
      | false =>
        simp only [execLoop, hr, he, Bool.false_eq_true, if_false] at h
        obtain ⟨hnf, hcase⟩ := ih r (consumed + 1) _ len rule acts h
        refine ⟨?_, ?_⟩
        · intro j
          cases j with
          | zero => simp [setFrom_zero]
          | succ j => rw [setFrom_cons_succ sim cur r ch rest j hr he]; exact hnf j
        · rcases hcase with ⟨j, cfg, hj, hlen, hstop, hrule, hacts, hlater⟩ | ⟨cfg, hprev, hrule, hacts, hlater⟩
          · refine Or.inl ⟨j + 1, cfg, by omega, by omega, ?_, hrule, hacts, ?_⟩
            · rw [setFrom_cons_succ sim cur r ch rest j hr he]; exact hstop
            · intro j' hj'
              cases j' with
              | zero => omega
              | succ j' =>
                rw [setFrom_cons_succ sim cur r ch rest j' hr he]
                exact hlater j' (by omega)
          · cases hfs : firstStop sim r with
            | some c =>
              simp only [hfs, Option.some.injEq, Prod.mk.injEq] at hprev
              obtain ⟨rfl, rfl⟩ := hprev
              refine Or.inl ⟨1, c, Nat.le_refl 1, rfl, ?_, hrule, hacts, ?_⟩
              · rw [setFrom_cons_succ sim cur r ch rest 0 hr he, setFrom_zero]; exact hfs
              · intro j' hj'
                cases j' with
                | zero => omega
                | succ j' =>
                  rw [setFrom_cons_succ sim cur r ch rest j' hr he]
                  exact hlater j' (by omega)
            | none =>
              simp only [hfs] at hprev
              refine Or.inr ⟨cfg, hprev, hrule, hacts, ?_⟩
              intro j' hj'
              cases j' with
              | zero => omega
              | succ j' =>
                rw [setFrom_cons_succ sim cur r ch rest j' hr he]
                cases j' with
                | zero => rw [setFrom_zero]; exact hfs
                | succ j'' => exact hlater (j'' + 1) (by omega)

/-- a failure of `execLoop`: no fuel problem, nothing recorded before, no stop configuration at any
    later position, and the count is that of the characters consumed -/
theorem execLoop_fail (sim : Sim) : ∀ (input : List Char) (cur : Array Config) (consumed : Nat)
    (prev : Option (Nat × Config)) (n : Nat),
    execLoop sim input cur consumed prev = .fail n →
    (∀ j, setFrom sim cur input j ≠ .nofuel) ∧ prev = none ∧ n = consumed + runFrom sim cur input ∧
    (∀ j, 1 ≤ j → stopOf sim (setFrom sim cur input j) = none) ∧ (input ≠ [] ∨ consumed ≠ 0) := by
  intro input
  induction input with
  | nil =>
    intro cur consumed prev n h
    refine ⟨fun j => by cases j <;> simp [setFrom], ?_⟩
    cases prev with
    | some p => simp [execLoop] at h
    | none =>
      simp only [execLoop] at h
      split at h
      · cases h
      · rename_i hc
        simp only [MatchRes.fail.injEq] at h
        refine ⟨rfl, by simp [runFrom, h], ?_, Or.inr (by simpa using hc)⟩
        intro j hj
        cases j with
        | zero => omega
        | succ j => simp [setFrom, stopOf]
  | cons ch rest ih =>
    intro cur consumed prev n h
    cases hr : reachSet sim ch.toNat cur.toList #[] none with
    | none => simp [execLoop, hr] at h
    | some r =>
      cases he : r.isEmpty with
      | true =>
        refine ⟨fun j => by cases j <;> simp [setFrom, hr, he], ?_⟩
        cases prev with
        | some p => simp [execLoop, hr, he] at h
        | none =>
          simp only [execLoop, hr, he, if_true, MatchRes.fail.injEq] at h
          refine ⟨rfl, by simp [runFrom, hr, he, h], ?_, Or.inl (by simp)⟩
          intro j hj
          cases j with
          | zero => omega
          | succ j => simp [setFrom, hr, he, stopOf]
      | false =>
        simp only [execLoop, hr, he, Bool.false_eq_true, if_false] at h
        obtain ⟨hnf, hprev, hn, hlater, _⟩ := ih r (consumed + 1) _ n h
        cases hfs : firstStop sim r with
        | some c => simp [hfs] at hprev
        | none =>
          simp only [hfs] at hprev
          refine ⟨?_, hprev, ?_, ?_, Or.inl (by simp)⟩
          · intro j
            cases j with
            | zero => simp [setFrom_zero]
            | succ j => rw [setFrom_cons_succ sim cur r ch rest j hr he]; exact hnf j
          · simp only [runFrom, hr, he, Bool.false_eq_true, if_false]; omega
          · intro j hj
            cases j with
            | zero => omega
            | succ j =>
              rw [setFrom_cons_succ sim cur r ch rest j hr he]
              cases j with
              | zero => rw [setFrom_zero]; exact hfs
              | succ j' => exact hlater (j' + 1) (by omega)

/-- `.eof` comes only from an empty input with nothing consumed and nothing recorded -/
theorem execLoop_eof (sim : Sim) : ∀ (input : List Char) (cur : Array Config) (consumed : Nat)
    (prev : Option (Nat × Config)),
    execLoop sim input cur consumed prev = .eof → input = [] ∧ consumed = 0 ∧ prev = none := by
  intro input
  induction input with
  | nil =>
    intro cur consumed prev h
    cases prev with
    | some p => simp [execLoop] at h
    | none =>
      simp only [execLoop] at h
      split at h
      · rename_i hc; exact ⟨rfl, by simpa using hc, rfl⟩
      · cases h
  | cons ch rest ih =>
    intro cur consumed prev h
    cases hr : reachSet sim ch.toNat cur.toList #[] none with
    | none => simp [execLoop, hr] at h
    | some r =>
      cases he : r.isEmpty with
      | true =>
        cases prev with
        | some p => simp [execLoop, hr, he] at h
        | none => simp [execLoop, hr, he] at h
      | false =>
        simp only [execLoop, hr, he, Bool.false_eq_true, if_false] at h
        have := ih r (consumed + 1) _ h
        omega

/-- `.stuck` comes only from a `reachSet` that ran out of closure fuel, at a position of the input -/
theorem execLoop_stuck (sim : Sim) : ∀ (input : List Char) (cur : Array Config) (consumed : Nat)
    (prev : Option (Nat × Config)),
    execLoop sim input cur consumed prev = .stuck →
    ∃ j, 1 ≤ j ∧ j ≤ input.length ∧ setFrom sim cur input j = .nofuel := by
  intro input
  induction input with
  | nil =>
    intro cur consumed prev h
    cases prev with
    | some p => simp [execLoop] at h
    | none =>
      simp only [execLoop] at h
      split at h <;> cases h
  | cons ch rest ih =>
    intro cur consumed prev h
    cases hr : reachSet sim ch.toNat cur.toList #[] none with
    | none => exact ⟨1, Nat.le_refl 1, by simp, by simp [setFrom, hr]⟩
    | some r =>
      cases he : r.isEmpty with
      | true =>
        cases prev with
        | some p => simp [execLoop, hr, he] at h
        | none => simp [execLoop, hr, he] at h
      | false =>
        simp only [execLoop, hr, he, Bool.false_eq_true, if_false] at h
        obtain ⟨j, hj1, hj2, hj3⟩ := ih r (consumed + 1) _ h
        refine ⟨j + 1, by omega, by simp; omega, ?_⟩
        rw [setFrom_cons_succ sim cur r ch rest j hr he]; exact hj3


/-! ### `matchOne` -/

/-- `matchOne` is `execLoop` from the start set, with the start set's own stop configuration recorded
    (`execATN`: "allow zero-length tokens") -/
theorem matchOne_eq (sim : Sim) (starts : Array (Option (Array Config))) (mode : Nat) (input : List Char)
    (s : Array Config) (hs : starts.getD mode none = some s) :
    matchOne sim starts mode input = execLoop sim input s 0 ((firstStop sim s).map fun c => (0, c)) := by
  simp only [matchOne, hs]
  cases firstStop sim s <;> rfl

theorem matchOne_none (sim : Sim) (starts : Array (Option (Array Config))) (mode : Nat) (input : List Char)
    (hs : starts.getD mode none = none) : matchOne sim starts mode input = .stuck := by
  simp [matchOne, hs]

theorem acceptAt_of_stop (sim : Sim) (s : Array Config) (input : List Char) (k : Nat) (cfg : Config)
    (h : stopOf sim (setFrom sim s input k) = some cfg) :
    acceptAt sim (some s) input k = some ((stateOf sim cfg.state).rule, cfg.acts) := by
  simp [acceptAt, setAt, h]

theorem acceptAt_of_none (sim : Sim) (s : Array Config) (input : List Char) (k : Nat)
    (h : stopOf sim (setFrom sim s input k) = none) : acceptAt sim (some s) input k = none := by
  simp [acceptAt, setAt, h]

/-- position `k` is reached by the run iff `k ≤ runLen` (when there is a start set) -/
theorem setAt_set_iff (sim : Sim) (s : Array Config) (input : List Char) (k : Nat) :
    (∃ cs, setAt sim (some s) input k = .set cs) ↔ k ≤ runLen sim (some s) input :=
  setFrom_set_iff sim input s k

theorem runLen_le_length (sim : Sim) (s0 : Option (Array Config)) (input : List Char) :
    runLen sim s0 input ≤ input.length := by
  cases s0 with
  | none => simp [runLen]
  | some s => exact runFrom_le_length sim input s

/-- an accept is recorded only at positions the run reaches -/
theorem acceptAt_some_le (sim : Sim) (s0 : Option (Array Config)) (input : List Char) (k : Nat) (x : Nat × List Nat)
    (h : acceptAt sim s0 input k = some x) : k ≤ runLen sim s0 input := by
  cases s0 with
  | none => simp [acceptAt, setAt, stopOf] at h
  | some s =>
    simp only [acceptAt, setAt, Option.map_eq_some_iff] at h
    obtain ⟨cfg, hc, _⟩ := h
    exact stopOf_some_le sim input s k cfg hc

/-- **maximal munch**: an accepted length is the *last* position of the run at which some rule accepts -/
theorem matchOne_accept (sim : Sim) (starts : Array (Option (Array Config))) (mode : Nat) (input : List Char)
    (len rule : Nat) (acts : List Nat) (h : matchOne sim starts mode input = .accept len rule acts) :
    (∀ k, setAt sim (starts.getD mode none) input k ≠ .nofuel) ∧
    acceptAt sim (starts.getD mode none) input len = some (rule, acts) ∧
    (∀ k, len < k → acceptAt sim (starts.getD mode none) input k = none) ∧
    len ≤ runLen sim (starts.getD mode none) input ∧ len ≤ input.length := by
  cases hs : starts.getD mode none with
  | none => rw [matchOne_none sim starts mode input hs] at h; cases h
  | some s =>
    rw [matchOne_eq sim starts mode input s hs] at h
    obtain ⟨hnf, hcase⟩ := execLoop_accept sim input s 0 _ len rule acts h
    have key : acceptAt sim (some s) input len = some (rule, acts) ∧
        (∀ k, len < k → acceptAt sim (some s) input k = none) := by
      rcases hcase with ⟨j, cfg, hj, hlen, hstop, hrule, hacts, hlater⟩ | ⟨cfg, hprev, hrule, hacts, hlater⟩
      · have : len = j := by omega
        subst this
        refine ⟨?_, fun k hk => acceptAt_of_none sim s input k (hlater k hk)⟩
        rw [acceptAt_of_stop sim s input len cfg hstop, hrule, hacts]
      · cases hfs : firstStop sim s with
        | none => simp [hfs] at hprev
        | some c =>
          simp only [hfs, Option.map_some, Option.some.injEq, Prod.mk.injEq] at hprev
          obtain ⟨rfl, rfl⟩ := hprev
          refine ⟨?_, fun k hk => acceptAt_of_none sim s input k (hlater k hk)⟩
          rw [acceptAt_of_stop sim s input 0 c (by rw [setFrom_zero]; exact hfs), hrule, hacts]
    have hle := acceptAt_some_le sim (some s) input len _ key.1
    exact ⟨hnf, key.1, key.2, hle, Nat.le_trans hle (runLen_le_length sim _ input)⟩

/-- a failure: no rule accepts at any position, and the count is that of the characters consumed -/
theorem matchOne_fail (sim : Sim) (starts : Array (Option (Array Config))) (mode : Nat) (input : List Char)
    (n : Nat) (h : matchOne sim starts mode input = .fail n) :
    (∀ k, setAt sim (starts.getD mode none) input k ≠ .nofuel) ∧
    (∀ k, acceptAt sim (starts.getD mode none) input k = none) ∧
    n = runLen sim (starts.getD mode none) input ∧ n ≤ input.length ∧ input ≠ [] := by
  cases hs : starts.getD mode none with
  | none => rw [matchOne_none sim starts mode input hs] at h; cases h
  | some s =>
    rw [matchOne_eq sim starts mode input s hs] at h
    obtain ⟨hnf, hprev, hn, hlater, hne⟩ := execLoop_fail sim input s 0 _ n h
    have hfs : firstStop sim s = none := by
      cases hfs : firstStop sim s with
      | none => rfl
      | some c => simp [hfs] at hprev
    have hn' : n = runLen sim (some s) input := by simp only [runLen]; omega
    refine ⟨hnf, ?_, hn', hn' ▸ runLen_le_length sim _ input, by simpa using hne⟩
    intro k
    cases k with
    | zero => exact acceptAt_of_none sim s input 0 (by rw [setFrom_zero]; exact hfs)
    | succ k => exact acceptAt_of_none sim s input (k+1) (hlater (k+1) (by omega))

/-- `.eof`: exactly the empty input, from a start set without a stop configuration -/
theorem matchOne_eof_iff (sim : Sim) (starts : Array (Option (Array Config))) (mode : Nat) (input : List Char) :
    matchOne sim starts mode input = .eof ↔
      input = [] ∧ ∃ s, starts.getD mode none = some s ∧ firstStop sim s = none := by
  constructor
  · intro h
    cases hs : starts.getD mode none with
    | none => rw [matchOne_none sim starts mode input hs] at h; cases h
    | some s =>
      rw [matchOne_eq sim starts mode input s hs] at h
      obtain ⟨hi, _, hp⟩ := execLoop_eof sim input s 0 _ h
      refine ⟨hi, s, rfl, ?_⟩
      cases hfs : firstStop sim s with
      | none => rfl
      | some c => simp [hfs] at hp
  · rintro ⟨rfl, s, hs, hfs⟩
    rw [matchOne_eq sim starts mode [] s hs, hfs]
    simp [execLoop]

/-- on the empty input the answer is `.eof`, a zero-length accept, or `.stuck` for want of a start set -/
theorem matchOne_nil (sim : Sim) (starts : Array (Option (Array Config))) (mode : Nat) :
    matchOne sim starts mode [] =
      match starts.getD mode none with
      | none => .stuck
      | some s =>
        match firstStop sim s with
        | some cfg => .accept 0 (stateOf sim cfg.state).rule cfg.acts
        | none => .eof := by
  cases hs : starts.getD mode none with
  | none => simp [matchOne, hs]
  | some s =>
    rw [matchOne_eq sim starts mode [] s hs]
    cases hfs : firstStop sim s <;> simp [execLoop, hfs]

/-- `.stuck` only for want of closure fuel: in the start set or in a `reachSet` at a position of the input -/
theorem matchOne_stuck (sim : Sim) (starts : Array (Option (Array Config))) (mode : Nat) (input : List Char)
    (h : matchOne sim starts mode input = .stuck) :
    ∃ k, k ≤ input.length ∧ setAt sim (starts.getD mode none) input k = .nofuel := by
  cases hs : starts.getD mode none with
  | none => exact ⟨0, Nat.zero_le _, rfl⟩
  | some s =>
    rw [matchOne_eq sim starts mode input s hs] at h
    obtain ⟨j, _, hj, hnf⟩ := execLoop_stuck sim input s 0 _ h
    exact ⟨j, hj, hnf⟩

/-- every answer but `.stuck` means the closure fuel never ran out -/
theorem matchOne_not_stuck (sim : Sim) (starts : Array (Option (Array Config))) (mode : Nat) (input : List Char)
    (h : matchOne sim starts mode input ≠ .stuck) :
    ∀ k, setAt sim (starts.getD mode none) input k ≠ .nofuel := by
  cases hm : matchOne sim starts mode input with
  | stuck => exact absurd hm h
  | accept len rule acts => exact (matchOne_accept sim starts mode input len rule acts hm).1
  | fail n => exact (matchOne_fail sim starts mode input n hm).1
  | eof =>
    obtain ⟨rfl, s, hs, _⟩ := (matchOne_eof_iff sim starts mode input).1 hm
    intro k
    rw [hs]
    cases k <;> simp [setAt, setFrom]

theorem matchOne_stuck_iff (sim : Sim) (starts : Array (Option (Array Config))) (mode : Nat) (input : List Char) :
    matchOne sim starts mode input = .stuck ↔
      ∃ k, k ≤ input.length ∧ setAt sim (starts.getD mode none) input k = .nofuel := by
  constructor
  · exact matchOne_stuck sim starts mode input
  · rintro ⟨k, _, hk⟩
    apply Classical.byContradiction
    intro hne
    exact matchOne_not_stuck sim starts mode input hne k hk

/-- **the accept, characterised**: `matchOne` answers `.accept len rule acts` exactly when the fuel
    never runs out, `(rule, acts)` is what is recorded at `len`, and nothing is recorded later -/
theorem matchOne_accept_iff (sim : Sim) (starts : Array (Option (Array Config))) (mode : Nat) (input : List Char)
    (len rule : Nat) (acts : List Nat) :
    matchOne sim starts mode input = .accept len rule acts ↔
      (∀ k, setAt sim (starts.getD mode none) input k ≠ .nofuel) ∧
      acceptAt sim (starts.getD mode none) input len = some (rule, acts) ∧
      (∀ k, len < k → acceptAt sim (starts.getD mode none) input k = none) := by
  constructor
  · intro h
    obtain ⟨h1, h2, h3, _⟩ := matchOne_accept sim starts mode input len rule acts h
    exact ⟨h1, h2, h3⟩
  · rintro ⟨hnf, hat, hlater⟩
    cases hm : matchOne sim starts mode input with
    | stuck =>
      obtain ⟨k, _, hk⟩ := matchOne_stuck sim starts mode input hm
      exact absurd hk (hnf k)
    | eof =>
      obtain ⟨rfl, s, hs, hfs⟩ := (matchOne_eof_iff sim starts mode input).1 hm
      rw [hs] at hat
      cases len <;> simp [acceptAt, setAt, setFrom, stopOf, hfs] at hat
    | fail n =>
      have := (matchOne_fail sim starts mode input n hm).2.1 len
      rw [this] at hat; cases hat
    | accept len' rule' acts' =>
      obtain ⟨_, hat', hlater', _⟩ := matchOne_accept sim starts mode input len' rule' acts' hm
      have hlen : len' = len := by
        rcases Nat.lt_trichotomy len' len with hlt | heq | hgt
        · rw [hlater' len hlt] at hat; cases hat
        · exact heq
        · rw [hlater len' hgt] at hat'; cases hat'
      subst hlen
      rw [hat] at hat'
      simp only [Option.some.injEq, Prod.mk.injEq] at hat'
      rw [hat'.1, hat'.2]

/-- **the failure, characterised** -/
theorem matchOne_fail_iff (sim : Sim) (starts : Array (Option (Array Config))) (mode : Nat) (input : List Char)
    (n : Nat) :
    matchOne sim starts mode input = .fail n ↔
      (∀ k, setAt sim (starts.getD mode none) input k ≠ .nofuel) ∧
      (∀ k, acceptAt sim (starts.getD mode none) input k = none) ∧
      n = runLen sim (starts.getD mode none) input ∧ input ≠ [] := by
  constructor
  · intro h
    obtain ⟨h1, h2, h3, _, h5⟩ := matchOne_fail sim starts mode input n h
    exact ⟨h1, h2, h3, h5⟩
  · rintro ⟨hnf, hnone, hn, hne⟩
    cases hm : matchOne sim starts mode input with
    | stuck =>
      obtain ⟨k, _, hk⟩ := matchOne_stuck sim starts mode input hm
      exact absurd hk (hnf k)
    | eof => exact absurd ((matchOne_eof_iff sim starts mode input).1 hm).1 hne
    | fail n' => rw [(matchOne_fail sim starts mode input n' hm).2.2.1, hn]
    | accept len rule acts =>
      have := (matchOne_accept sim starts mode input len rule acts hm).2.1
      rw [hnone len] at this; cases this


/-! ### rule priority: the first stop configuration of an ordered set -/

/-- a configuration in a rule stop state -/
def isStop (sim : Sim) (c : Config) : Bool := (stateOf sim c.state).ty == 7

/-- `firstStop` is the first configuration, in the order of the set, that is in a rule stop state -/
theorem firstStop_eq_some_iff (sim : Sim) (cs : Array Config) (cfg : Config) :
    firstStop sim cs = some cfg ↔
      isStop sim cfg = true ∧ ∃ pre post, cs.toList = pre ++ cfg :: post ∧ ∀ c ∈ pre, isStop sim c = false := by
  unfold firstStop
  rw [List.find?_eq_some_iff_append]
  simp [isStop]

theorem firstStop_eq_none_iff (sim : Sim) (cs : Array Config) :
    firstStop sim cs = none ↔ ∀ c ∈ cs.toList, isStop sim c = false := by
  unfold firstStop
  rw [List.find?_eq_none]
  simp [isStop]

/-- **rule priority**: what is recorded at position `k` is the rule (and the actions) of the first
    configuration of the ordered set that is in a rule stop state; every configuration before it is not -/
theorem acceptAt_eq_some_iff (sim : Sim) (s0 : Option (Array Config)) (input : List Char) (k : Nat)
    (rule : Nat) (acts : List Nat) :
    acceptAt sim s0 input k = some (rule, acts) ↔
      ∃ cs pre cfg post, setAt sim s0 input k = .set cs ∧ cs.toList = pre ++ cfg :: post ∧
        isStop sim cfg = true ∧ (∀ c ∈ pre, isStop sim c = false) ∧
        rule = (stateOf sim cfg.state).rule ∧ acts = cfg.acts := by
  constructor
  · intro h
    simp only [acceptAt, Option.map_eq_some_iff, Prod.mk.injEq] at h
    obtain ⟨cfg, hstop, hr, ha⟩ := h
    cases hs : setAt sim s0 input k with
    | set cs =>
      rw [hs] at hstop
      simp only [stopOf] at hstop
      obtain ⟨h1, pre, post, h2, h3⟩ := (firstStop_eq_some_iff sim cs cfg).1 hstop
      exact ⟨cs, pre, cfg, post, rfl, h2, h1, h3, hr.symm, ha.symm⟩
    | stopped => rw [hs] at hstop; simp [stopOf] at hstop
    | nofuel => rw [hs] at hstop; simp [stopOf] at hstop
  · rintro ⟨cs, pre, cfg, post, hs, h2, h1, h3, hr, ha⟩
    have := (firstStop_eq_some_iff sim cs cfg).2 ⟨h1, pre, post, h2, h3⟩
    simp [acceptAt, hs, stopOf, this, hr, ha]

/-- nothing is recorded at `k` iff the position is not reached or its set has no stop configuration -/
theorem acceptAt_eq_none_iff (sim : Sim) (s0 : Option (Array Config)) (input : List Char) (k : Nat) :
    acceptAt sim s0 input k = none ↔
      ∀ cs, setAt sim s0 input k = .set cs → ∀ c ∈ cs.toList, isStop sim c = false := by
  simp only [acceptAt, Option.map_eq_none_iff]
  cases hs : setAt sim s0 input k with
  | set cs =>
    simp only [stopOf, firstStop_eq_none_iff, Reach.set.injEq]
    constructor
    · intro h cs' hcs; subst hcs; exact h
    · intro h; exact h cs rfl
  | stopped => simp [stopOf]
  | nofuel => simp [stopOf]

/-! ### the sets are ordered by alternative -/

/-- ordered by alternative number (not strictly) -/
def AltSorted (l : List Config) : Prop := l.Pairwise fun a b => a.alt ≤ b.alt

theorem addConfig_toList (cs : Array Config) (c : Config) :
    ∃ extra, (addConfig cs c).toList = cs.toList ++ extra ∧ ∀ x ∈ extra, x = c := by
  unfold addConfig
  split
  · exact ⟨[], by simp, by simp⟩
  · exact ⟨[c], by simp, by simp⟩

theorem epsTarget_alt (sim : Sim) (cfg : Config) (t : Trans) (c : Config) (h : epsTarget sim cfg t = some c) :
    c.alt = cfg.alt := by
  unfold epsTarget at h
  split at h
  · cases h; rfl
  · split at h <;> (cases h; rfl)
  · cases h; rfl
  · cases h

/-- `closure` only appends to the set, and only configurations of the alternative it was started for -/
theorem closure_extends (sim : Sim) : ∀ (f : Nat),
    (∀ (cfg : Config) (cs : Array Config) (reached : Bool) (res : Array Config × Bool),
      closure sim f cfg cs reached = some res →
      ∃ extra, res.1.toList = cs.toList ++ extra ∧ ∀ x ∈ extra, x.alt = cfg.alt) ∧
    (∀ (cfg : Config) (ts : List Trans) (cs : Array Config) (reached : Bool) (res : Array Config × Bool),
      closureTrans sim f cfg ts cs reached = some res →
      ∃ extra, res.1.toList = cs.toList ++ extra ∧ ∀ x ∈ extra, x.alt = cfg.alt) := by
  intro f
  induction f with
  | zero => exact ⟨fun _ _ _ _ h => by simp [closure] at h, fun _ _ _ _ _ h => by simp [closureTrans] at h⟩
  | succ f ih =>
    obtain ⟨ihc, iht⟩ := ih
    constructor
    · intro cfg cs reached res h
      rw [closure.eq_2] at h
      split at h
      · split at h
        · cases h
          obtain ⟨extra, he, hx⟩ := addConfig_toList cs cfg
          exact ⟨extra, he, fun x hxm => by rw [hx x hxm]⟩
        · have := ihc _ _ _ _ h
          exact this
      · simp only at h
        obtain ⟨extra, he, hx⟩ := iht _ _ _ _ _ h
        split at he
        · split at he
          · obtain ⟨e0, he0, hx0⟩ := addConfig_toList cs cfg
            refine ⟨e0 ++ extra, by rw [he, he0, List.append_assoc], ?_⟩
            intro x hxm
            rcases List.mem_append.1 hxm with hm | hm
            · rw [hx0 x hm]
            · exact hx x hm
          · exact ⟨extra, he, hx⟩
        · exact ⟨extra, he, hx⟩
    · intro cfg ts cs reached res h
      cases ts with
      | nil => rw [closureTrans.eq_2] at h; cases h; exact ⟨[], by simp, by simp⟩
      | cons t ts =>
        rw [closureTrans.eq_3] at h
        split at h
        · exact iht _ _ _ _ _ h
        · rename_i c hc
          split at h
          · cases h
          · rename_i cs' r' hcl
            obtain ⟨e1, he1, hx1⟩ := ihc _ _ _ _ hcl
            obtain ⟨e2, he2, hx2⟩ := iht _ _ _ _ _ h
            refine ⟨e1 ++ e2, by rw [he2, he1, List.append_assoc], ?_⟩
            intro x hxm
            rcases List.mem_append.1 hxm with hm | hm
            · rw [hx1 x hm, epsTarget_alt sim cfg t c hc]
            · exact hx2 x hm

theorem altSorted_append (l extra : List Config) (a : Nat) (hl : AltSorted l) (hle : ∀ x ∈ l, x.alt ≤ a)
    (he : ∀ x ∈ extra, x.alt = a) : AltSorted (l ++ extra) := by
  unfold AltSorted
  rw [List.pairwise_append]
  refine ⟨hl, ?_, ?_⟩
  · rw [List.pairwise_iff_forall_sublist]
    intro x y hxy
    have hx := he x (hxy.subset (by simp))
    have hy := he y (hxy.subset (by simp))
    omega
  · intro x hx y hy
    have := hle x hx
    have := he y hy
    omega

/-- `computeStartState`: alternative `i+1` for the `i`-th transition of the mode's start state, in order -/
theorem startSet_go_sorted (sim : Sim) : ∀ (ts : List Trans) (i : Nat) (cs res : Array Config),
    startSet.go sim ts i cs = some res → AltSorted cs.toList → (∀ x ∈ cs.toList, x.alt ≤ i) →
    AltSorted res.toList := by
  intro ts
  induction ts with
  | nil => intro i cs res h hs _; simp only [startSet.go, Option.some.injEq] at h; subst h; exact hs
  | cons t ts ih =>
    intro i cs res h hs hle
    rw [startSet.go.eq_2] at h
    split at h
    · cases h
    · rename_i cs' r' hcl
      obtain ⟨extra, he, hx⟩ := (closure_extends sim closureFuel).1 _ _ _ _ hcl
      simp only at he hx
      refine ih (i + 1) cs' res h ?_ ?_
      · rw [he]; exact altSorted_append _ _ (i + 1) hs (fun x hxm => Nat.le_succ_of_le (hle x hxm)) hx
      · intro x hxm
        rw [he] at hxm
        rcases List.mem_append.1 hxm with hm | hm
        · exact Nat.le_succ_of_le (hle x hm)
        · exact Nat.le_of_eq (hx x hm)

theorem startSet_sorted (sim : Sim) (mode : Nat) (s : Array Config) (h : startSet sim mode = some s) :
    AltSorted s.toList :=
  startSet_go_sorted sim _ 0 #[] s h (by simp [AltSorted]) (by simp)

theorem reachTrans_extends (sim : Sim) (cfg : Config) (c : Nat) (ra : Bool) : ∀ (ts : List Trans)
    (reach : Array Config) (skip : Option Nat) (res : Array Config × Option Nat),
    reachTrans sim cfg c ra ts reach skip = some res →
    ∃ extra, res.1.toList = reach.toList ++ extra ∧ ∀ x ∈ extra, x.alt = cfg.alt := by
  intro ts
  induction ts with
  | nil => intro reach skip res h; simp only [reachTrans, Option.some.injEq] at h; subst h; exact ⟨[], by simp, by simp⟩
  | cons t ts ih =>
    intro reach skip res h
    simp only [reachTrans] at h
    split at h
    · split at h
      · cases h
      · rename_i reach' r hcl
        obtain ⟨e1, he1, hx1⟩ := (closure_extends sim closureFuel).1 _ _ _ _ hcl
        obtain ⟨e2, he2, hx2⟩ := ih _ _ _ h
        simp only at he1 hx1
        refine ⟨e1 ++ e2, by rw [he2, he1, List.append_assoc], ?_⟩
        intro x hxm
        rcases List.mem_append.1 hxm with hm | hm
        · exact hx1 x hm
        · exact hx2 x hm
    · exact ih _ _ _ h

/-- `getReachableConfigSet` keeps the order of the alternatives -/
theorem reachSet_sorted (sim : Sim) (c : Nat) : ∀ (cur : List Config) (reach : Array Config) (skip : Option Nat)
    (res : Array Config), reachSet sim c cur reach skip = some res → AltSorted cur → AltSorted reach.toList →
    (∀ r ∈ reach.toList, ∀ x ∈ cur, r.alt ≤ x.alt) → AltSorted res.toList := by
  intro cur
  induction cur with
  | nil => intro reach skip res h _ hr _; simp only [reachSet, Option.some.injEq] at h; subst h; exact hr
  | cons cfg rest ih =>
    intro reach skip res h hcur hr hle
    have hrest : AltSorted rest := (List.pairwise_cons.1 hcur).2
    have hcfg : ∀ x ∈ rest, cfg.alt ≤ x.alt := (List.pairwise_cons.1 hcur).1
    simp only [reachSet] at h
    split at h
    · exact ih reach skip res h hrest hr (fun r hrm x hxm => hle r hrm x (List.mem_cons_of_mem _ hxm))
    · split at h
      · cases h
      · rename_i reach' skip' hrt
        obtain ⟨extra, he, hx⟩ := reachTrans_extends sim cfg c _ _ _ _ _ hrt
        simp only at he
        refine ih reach' skip' res h hrest ?_ ?_
        · rw [he]
          exact altSorted_append _ _ cfg.alt hr (fun r hrm => hle r hrm cfg (List.mem_cons_self)) hx
        · intro r hrm x hxm
          rw [he] at hrm
          rcases List.mem_append.1 hrm with hm | hm
          · exact hle r hm x (List.mem_cons_of_mem _ hxm)
          · rw [hx r hm]; exact hcfg x hxm

/-- every set of the run is ordered by alternative when the first one is -/
theorem setFrom_sorted (sim : Sim) : ∀ (input : List Char) (cur : Array Config) (k : Nat) (cs : Array Config),
    AltSorted cur.toList → setFrom sim cur input k = .set cs → AltSorted cs.toList := by
  intro input
  induction input with
  | nil =>
    intro cur k cs hcur h
    cases k with
    | zero => simp only [setFrom, Reach.set.injEq] at h; subst h; exact hcur
    | succ k => simp [setFrom] at h
  | cons ch rest ih =>
    intro cur k cs hcur h
    cases k with
    | zero => simp only [setFrom, Reach.set.injEq] at h; subst h; exact hcur
    | succ k =>
      cases hr : reachSet sim ch.toNat cur.toList #[] none with
      | none => simp [setFrom, hr] at h
      | some r =>
        cases he : r.isEmpty with
        | true => simp [setFrom, hr, he] at h
        | false =>
          rw [setFrom_cons_succ sim cur r ch rest k hr he] at h
          exact ih r k cs (reachSet_sorted sim _ _ _ _ _ hr hcur (by simp [AltSorted]) (by simp)) h

/-- the sets of a mode of the automaton are ordered by alternative -/
theorem setAtMode_sorted (sim : Sim) (mode : Nat) (input : List Char) (k : Nat) (cs : Array Config)
    (h : setAtMode sim mode input k = .set cs) : AltSorted cs.toList := by
  unfold setAtMode setAt at h
  cases hs : startSet sim mode with
  | none => rw [hs] at h; cases h
  | some s =>
    rw [hs] at h
    exact setFrom_sorted sim input s k cs (startSet_sorted sim mode s hs) h

/-- **rule priority, by alternative**: in a set ordered by alternative the first stop configuration is
    one of the smallest alternative among the stop configurations -/
theorem firstStop_min_alt (sim : Sim) (cs : Array Config) (cfg : Config) (hs : AltSorted cs.toList)
    (h : firstStop sim cs = some cfg) : ∀ c ∈ cs.toList, isStop sim c = true → cfg.alt ≤ c.alt := by
  obtain ⟨_, pre, post, hsplit, hpre⟩ := (firstStop_eq_some_iff sim cs cfg).1 h
  intro c hc hstop
  rw [hsplit] at hc hs
  rcases List.mem_append.1 hc with hm | hm
  · rw [hpre c hm] at hstop; cases hstop
  · rcases List.mem_cons.1 hm with rfl | hm'
    · exact Nat.le_refl _
    · have := (List.pairwise_append.1 hs).2.1
      exact (List.pairwise_cons.1 this).1 c hm'


/-! ### zero-length accepts -/

/-- a zero-length accept comes from a stop configuration of the *start* set (`execATN`: "allow zero-length
    tokens"), when nothing accepts later -/
theorem matchOne_accept_zero (sim : Sim) (starts : Array (Option (Array Config))) (mode : Nat) (input : List Char)
    (rule : Nat) (acts : List Nat) (h : matchOne sim starts mode input = .accept 0 rule acts) :
    ∃ s cfg, starts.getD mode none = some s ∧ firstStop sim s = some cfg ∧
      rule = (stateOf sim cfg.state).rule ∧ acts = cfg.acts := by
  have hat := (matchOne_accept sim starts mode input 0 rule acts h).2.1
  cases hs : starts.getD mode none with
  | none => rw [hs] at hat; simp [acceptAt, setAt, stopOf] at hat
  | some s =>
    rw [hs] at hat
    simp only [acceptAt, setAt, setFrom_zero, stopOf, Option.map_eq_some_iff, Prod.mk.injEq] at hat
    obtain ⟨cfg, h1, h2, h3⟩ := hat
    exact ⟨s, cfg, rfl, h1, h2.symm, h3.symm⟩

/-- no stop configuration in the start set: every accepted token has at least one character -/
theorem matchOne_accept_pos (sim : Sim) (starts : Array (Option (Array Config))) (mode : Nat) (input : List Char)
    (len rule : Nat) (acts : List Nat) (h : matchOne sim starts mode input = .accept len rule acts)
    (hno : ∀ s, starts.getD mode none = some s → firstStop sim s = none) : 0 < len := by
  cases len with
  | succ n => exact Nat.succ_pos n
  | zero =>
    obtain ⟨s, cfg, hs, hfs, _⟩ := matchOne_accept_zero sim starts mode input rule acts h
    rw [hno s hs] at hfs; cases hfs

/-! ### the matcher inside the token loop -/

/-- the start sets `lexAll` computes once -/
def startsOf (sim : Sim) : Array (Option (Array Config)) :=
  (List.range sim.modeStart.size).toArray.map (startSet sim)

theorem lexAll_eq (sim : Sim) (text : List Char) :
    lexAll sim text = lexLoop (matchOne sim (startsOf sim)) sim.ruleTokenType sim.actions (text.length + 2) {} (1, 0) text := rfl

/-- for a mode of the automaton they are `startSet`; for a mode it does not have there is none (`.stuck`) -/
theorem startsOf_getD (sim : Sim) (mode : Nat) :
    (startsOf sim).getD mode none = if mode < sim.modeStart.size then startSet sim mode else none := by
  unfold startsOf
  by_cases h : mode < sim.modeStart.size
  · simp [Array.getD, h]
  · simp [Array.getD, h]

variable (matcher : Nat → List Char → MatchRes) (rtt : Array Nat) (actions : Array (Nat × Nat × Nat))

/-- what the token loop does with a failure: `consumed + 1` characters (as many as are left) become the
    text of one token recognition error, and the loop goes on after them -/
theorem lexLoop_fail_step (f : Nat) (st : LexState) (pos : Nat × Nat) (c : Char) (cs : List Char) (n : Nat)
    (h : matcher st.mode (c :: cs) = .fail n) :
    lexLoop matcher rtt actions (f+1) st pos (c :: cs) =
      .err ((c :: cs).take (n+1)) pos.1 pos.2 ::
        lexLoop matcher rtt actions f st (advanceL pos ((c :: cs).take (n+1))) ((c :: cs).drop (n+1)) := by
  simp [lexLoop, h]

/-- what the token loop does with a zero-length accept: it stops (the runtime emits an empty token
    without consuming anything) -/
theorem lexLoop_accept_zero_step (f : Nat) (st : LexState) (pos : Nat × Nat) (c : Char) (cs : List Char)
    (rule : Nat) (as : List Nat) (h : matcher st.mode (c :: cs) = .accept 0 rule as) :
    lexLoop matcher rtt actions (f+1) st pos (c :: cs) = [.abort "empty match"] := by
  simp [lexLoop, h]

/-- what the token loop does with an accept of at least one character: the first `len` characters are the
    text of the token (unless a lexer action aborts), and the loop goes on after them -/
theorem lexLoop_accept_step (f : Nat) (st : LexState) (pos : Nat × Nat) (c : Char) (cs : List Char)
    (len rule : Nat) (as : List Nat) (h : matcher st.mode (c :: cs) = .accept len rule as) (hl : 0 < len)
    (hab : (runActions actions as { ty := -100, channel := 0, st := st, abort := none }).abort = none) :
    ∃ ty ch, lexLoop matcher rtt actions (f+1) st pos (c :: cs) =
        .tok { ty := ty, text := (c :: cs).take len, line := pos.1, col := pos.2, channel := ch } ::
          lexLoop matcher rtt actions f
            (runActions actions as { ty := -100, channel := 0, st := st, abort := none }).st
            (advanceL pos ((c :: cs).take len)) ((c :: cs).drop len) := by
  have hl' : (len == 0) = false := by simp; omega
  simp only [lexLoop, h, hl', hab, Bool.false_eq_true, if_false]
  exact ⟨_, _, rfl⟩

/-- **the text of a token recognition error**: the characters the run consumed and the one it could not
    consume (if there is one); no rule accepts at any position inside -/
theorem lexLoop_error_text (sim : Sim) (starts : Array (Option (Array Config))) (f : Nat) (st : LexState)
    (pos : Nat × Nat) (c : Char) (cs : List Char) (n : Nat)
    (h : matchOne sim starts st.mode (c :: cs) = .fail n) :
    n = runLen sim (starts.getD st.mode none) (c :: cs) ∧
    (∀ k, acceptAt sim (starts.getD st.mode none) (c :: cs) k = none) ∧
    (lexLoop (matchOne sim starts) rtt actions (f+1) st pos (c :: cs)).head? =
      some (.err ((c :: cs).take (n+1)) pos.1 pos.2) ∧
    ((c :: cs).take (n+1)).length = min (n+1) (cs.length + 1) ∧ 1 ≤ ((c :: cs).take (n+1)).length := by
  obtain ⟨_, hnone, hn, _, _⟩ := matchOne_fail sim starts st.mode (c :: cs) n h
  refine ⟨hn, hnone, ?_, by simp, by simp⟩
  rw [lexLoop_fail_step (matchOne sim starts) rtt actions f st pos c cs n h]
  rfl

/-! ### closure fuel -/

/-- more fuel does not change an answer of `closure` -/
theorem closure_fuel_succ (sim : Sim) : ∀ (f : Nat),
    (∀ (cfg : Config) (cs : Array Config) (reached : Bool) (res : Array Config × Bool),
      closure sim f cfg cs reached = some res → closure sim (f+1) cfg cs reached = some res) ∧
    (∀ (cfg : Config) (ts : List Trans) (cs : Array Config) (reached : Bool) (res : Array Config × Bool),
      closureTrans sim f cfg ts cs reached = some res → closureTrans sim (f+1) cfg ts cs reached = some res) := by
  intro f
  induction f with
  | zero => exact ⟨fun _ _ _ _ h => by simp [closure] at h, fun _ _ _ _ _ h => by simp [closureTrans] at h⟩
  | succ f ih =>
    obtain ⟨ihc, iht⟩ := ih
    constructor
    · intro cfg cs reached res h
      rw [closure.eq_2] at h
      rw [closure.eq_2]
      split
      · rename_i hty
        rw [if_pos hty] at h
        split
        · rename_i hctx; rw [hctx] at h; exact h
        · rename_i ret rest hctx; rw [hctx] at h; exact ihc _ _ _ _ h
      · rename_i hty
        rw [if_neg hty] at h
        exact iht _ _ _ _ _ h
    · intro cfg ts cs reached res h
      cases ts with
      | nil => rw [closureTrans.eq_2] at h; rw [closureTrans.eq_2]; exact h
      | cons t ts =>
        rw [closureTrans.eq_3] at h
        rw [closureTrans.eq_3]
        cases he : epsTarget sim cfg t with
        | none => rw [he] at h; exact iht _ _ _ _ _ h
        | some c =>
          rw [he] at h
          simp only at h ⊢
          cases hc : closure sim f c cs reached with
          | none => rw [hc] at h; cases h
          | some p =>
            obtain ⟨cs', r'⟩ := p
            rw [hc] at h
            rw [ihc _ _ _ _ hc]
            exact iht _ _ _ _ _ h

/-- `closure` answers `none` only for want of fuel: an answer obtained with some fuel is the answer with
    any larger fuel -/
theorem closure_fuel_mono (sim : Sim) (f g : Nat) (hfg : f ≤ g) (cfg : Config) (cs : Array Config) (reached : Bool)
    (res : Array Config × Bool) (h : closure sim f cfg cs reached = some res) :
    closure sim g cfg cs reached = some res := by
  induction hfg with
  | refl => exact h
  | step _ ih => exact (closure_fuel_succ sim _).1 _ _ _ _ ih


/-! ### the alternatives are those of the mode's start state -/

theorem startSet_go_alts (sim : Sim) : ∀ (ts : List Trans) (i : Nat) (cs res : Array Config),
    startSet.go sim ts i cs = some res →
    ∀ x ∈ res.toList, x ∈ cs.toList ∨ (i < x.alt ∧ x.alt ≤ i + ts.length) := by
  intro ts
  induction ts with
  | nil => intro i cs res h x hx; simp only [startSet.go, Option.some.injEq] at h; subst h; exact Or.inl hx
  | cons t ts ih =>
    intro i cs res h x hx
    rw [startSet.go.eq_2] at h
    split at h
    · cases h
    · rename_i cs' r' hcl
      obtain ⟨extra, he, hxe⟩ := (closure_extends sim closureFuel).1 _ _ _ _ hcl
      simp only at he hxe
      rcases ih (i + 1) cs' res h x hx with hm | ⟨h1, h2⟩
      · rw [he] at hm
        rcases List.mem_append.1 hm with hm | hm
        · exact Or.inl hm
        · refine Or.inr ⟨?_, ?_⟩
          · rw [hxe x hm]; omega
          · rw [hxe x hm]; simp only [List.length_cons]; omega
      · refine Or.inr ⟨by omega, ?_⟩
        simp only [List.length_cons]; omega

/-- the configurations of a start set carry the number (from 1) of a transition of the mode's start state -/
theorem startSet_alts (sim : Sim) (mode : Nat) (s : Array Config) (h : startSet sim mode = some s) :
    ∀ x ∈ s.toList, 1 ≤ x.alt ∧ x.alt ≤ (stateOf sim (sim.modeStart.getD mode 0)).trans.size := by
  intro x hx
  rcases startSet_go_alts sim _ 0 #[] s h x hx with hm | ⟨h1, h2⟩
  · simp at hm
  · refine ⟨h1, ?_⟩
    simpa using h2

theorem reachSet_alts (sim : Sim) (c : Nat) : ∀ (cur : List Config) (reach : Array Config) (skip : Option Nat)
    (res : Array Config), reachSet sim c cur reach skip = some res →
    ∀ x ∈ res.toList, x ∈ reach.toList ∨ ∃ c0 ∈ cur, x.alt = c0.alt := by
  intro cur
  induction cur with
  | nil => intro reach skip res h x hx; simp only [reachSet, Option.some.injEq] at h; subst h; exact Or.inl hx
  | cons cfg rest ih =>
    intro reach skip res h x hx
    simp only [reachSet] at h
    split at h
    · rcases ih reach skip res h x hx with hm | ⟨c0, hc0, hx0⟩
      · exact Or.inl hm
      · exact Or.inr ⟨c0, List.mem_cons_of_mem _ hc0, hx0⟩
    · split at h
      · cases h
      · rename_i reach' skip' hrt
        obtain ⟨extra, he, hxe⟩ := reachTrans_extends sim cfg c _ _ _ _ _ hrt
        simp only at he
        rcases ih reach' skip' res h x hx with hm | ⟨c0, hc0, hx0⟩
        · rw [he] at hm
          rcases List.mem_append.1 hm with hm | hm
          · exact Or.inl hm
          · exact Or.inr ⟨cfg, List.mem_cons_self, hxe x hm⟩
        · exact Or.inr ⟨c0, List.mem_cons_of_mem _ hc0, hx0⟩

/-- no new alternative appears during the run -/
theorem setFrom_alts (sim : Sim) : ∀ (input : List Char) (cur : Array Config) (k : Nat) (cs : Array Config),
    setFrom sim cur input k = .set cs → ∀ x ∈ cs.toList, ∃ c0 ∈ cur.toList, x.alt = c0.alt := by
  intro input
  induction input with
  | nil =>
    intro cur k cs h x hx
    cases k with
    | zero => simp only [setFrom, Reach.set.injEq] at h; subst h; exact ⟨x, hx, rfl⟩
    | succ k => simp [setFrom] at h
  | cons ch rest ih =>
    intro cur k cs h x hx
    cases k with
    | zero => simp only [setFrom, Reach.set.injEq] at h; subst h; exact ⟨x, hx, rfl⟩
    | succ k =>
      cases hr : reachSet sim ch.toNat cur.toList #[] none with
      | none => simp [setFrom, hr] at h
      | some r =>
        cases he : r.isEmpty with
        | true => simp [setFrom, hr, he] at h
        | false =>
          rw [setFrom_cons_succ sim cur r ch rest k hr he] at h
          obtain ⟨c1, hc1, hx1⟩ := ih r k cs h x hx
          rcases reachSet_alts sim _ _ _ _ _ hr c1 hc1 with hm | ⟨c0, hc0, hx0⟩
          · simp at hm
          · exact ⟨c0, hc0, by rw [hx1, hx0]⟩

/-- every configuration of every set of a mode carries the number (from 1) of a transition of the mode's
    start state — of a rule of the mode, in grammar order -/
theorem setAtMode_alts (sim : Sim) (mode : Nat) (input : List Char) (k : Nat) (cs : Array Config)
    (h : setAtMode sim mode input k = .set cs) :
    ∀ x ∈ cs.toList, 1 ≤ x.alt ∧ x.alt ≤ (stateOf sim (sim.modeStart.getD mode 0)).trans.size := by
  unfold setAtMode setAt at h
  cases hs : startSet sim mode with
  | none => rw [hs] at h; cases h
  | some s =>
    rw [hs] at h
    intro x hx
    obtain ⟨c0, hc0, hx0⟩ := setFrom_alts sim input s k cs h x hx
    rw [hx0]
    exact startSet_alts sim mode s hs c0 hc0

/-! ### `.stuck` cannot be excluded for an arbitrary automaton

    An automaton with an epsilon cycle makes `closure` recurse for ever (the runtime's `closure` has no
    visited check either); the port answers `none` **whatever the fuel**, so no lower bound on the fuel excludes
    `.stuck`.  `loopSim`: the mode start state goes to state 1, which has an epsilon transition to itself. -/

def mkEps (t : Nat) : Trans := { kind := 1, target := t, follow := 0, a1 := 0, a2 := 0, a3 := 0, set := [] }

def loopSim : Sim where
  states := #[{ ty := 6, epsOnly := true, trans := #[mkEps 1] }, { ty := 1, epsOnly := true, trans := #[mkEps 1] }]
  modeStart := #[0]
  ruleTokenType := #[1]
  actions := #[]
  unsupported := false

theorem loopSim_closure_none : ∀ (f : Nat),
    (∀ (cfg : Config) (cs : Array Config) (r : Bool), cfg.state = 1 → closure loopSim f cfg cs r = none) ∧
    (∀ (cfg : Config) (cs : Array Config) (r : Bool), cfg.state = 1 →
      closureTrans loopSim f cfg [mkEps 1] cs r = none) := by
  intro f
  induction f with
  | zero => exact ⟨fun _ _ _ _ => by simp [closure], fun _ _ _ _ => by simp [closureTrans]⟩
  | succ f ih =>
    obtain ⟨ihc, iht⟩ := ih
    constructor
    · intro cfg cs r hst
      rw [closure.eq_2, hst]
      have h1 : stateOf loopSim 1 = { ty := 1, epsOnly := true, trans := #[mkEps 1] } := rfl
      simp only [h1]
      exact iht cfg cs r hst
    · intro cfg cs r hst
      rw [closureTrans.eq_3]
      have he : epsTarget loopSim cfg (mkEps 1) = some { cfg with state := 1, ng := ngTarget loopSim cfg 1 } := rfl
      rw [he]
      simp only
      rw [ihc _ cs r rfl]

theorem loopSim_startSet : startSet loopSim 0 = none := by
  have hp : startSet loopSim 0 = startSet.go loopSim [mkEps 1] 0 #[] := rfl
  rw [hp, startSet.go.eq_2, (loopSim_closure_none closureFuel).1 _ _ _ rfl]

/-- the counterexample: with the fuel the definitions pass (and with any other) the answer is `.stuck` -/
theorem loopSim_stuck (input : List Char) : matchOne loopSim (startsOf loopSim) 0 input = .stuck := by
  apply matchOne_none
  rw [startsOf_getD]
  simp only [loopSim_startSet]
  split <;> rfl


/-! ### the pruning after a stop configuration (`skipAlt`), as `reachSet` does it -/

/-- once an alternative has reached a rule stop state in this reach set (`skip = some alt`), the later
    configurations of that alternative that passed through a non-greedy decision are dropped -/
theorem reachSet_skips_nongreedy (sim : Sim) (c : Nat) (cfg : Config) (rest : List Config) (reach : Array Config)
    (hng : cfg.ng = true) :
    reachSet sim c (cfg :: rest) reach (some cfg.alt) = reachSet sim c rest reach (some cfg.alt) := by
  simp [reachSet, hng]

/-! ### hand-built automata for the `example`s of `Props/C16.lean` -/

def mkAtom (c : Char) (t : Nat) : Trans := { kind := 5, target := t, follow := 0, a1 := c.toNat, a2 := 0, a3 := 0, set := [] }
def mkRange (a b : Char) (t : Nat) : Trans := { kind := 2, target := t, follow := 0, a1 := a.toNat, a2 := b.toNat, a3 := 0, set := [] }
def mkAction (i : Nat) (t : Nat) : Trans := { kind := 6, target := t, follow := 0, a1 := 0, a2 := i, a3 := 0, set := [] }

/-- the automaton of
    `IF : 'if' ;  ID : [a-z]+ ;  WS : ' ' -> skip ;  ARROW : '->' ;`
    (rules 0 to 3, token types 1 to 4), laid out as the ANTLR tool does: a tokens start state with one
    epsilon transition per rule, in grammar order; rule start states; a loop for `+`; rule stop states -/
def toySim : Sim where
  states := #[
    { ty := 6, rule := 0, epsOnly := true, trans := #[mkEps 1, mkEps 5, mkEps 9, mkEps 13] },  -- 0 tokens start
    { ty := 2, rule := 0, epsOnly := true, trans := #[mkEps 2] },                -- 1 IF: rule start
    { ty := 1, rule := 0, trans := #[mkAtom 'i' 3] },                            -- 2
    { ty := 1, rule := 0, trans := #[mkAtom 'f' 4] },                            -- 3
    { ty := 1, rule := 0, epsOnly := true, trans := #[mkEps 17] },               -- 4
    { ty := 2, rule := 1, epsOnly := true, trans := #[mkEps 6] },                -- 5 ID: rule start
    { ty := 1, rule := 1, trans := #[mkRange 'a' 'z' 7] },                       -- 6
    { ty := 1, rule := 1, epsOnly := true, trans := #[mkEps 6, mkEps 8] },       -- 7 loop back / exit
    { ty := 1, rule := 1, epsOnly := true, trans := #[mkEps 18] },               -- 8
    { ty := 2, rule := 2, epsOnly := true, trans := #[mkEps 10] },               -- 9 WS: rule start
    { ty := 1, rule := 2, trans := #[mkAtom ' ' 11] },                           -- 10
    { ty := 1, rule := 2, epsOnly := true, trans := #[mkAction 0 12] },          -- 11 -> skip
    { ty := 1, rule := 2, epsOnly := true, trans := #[mkEps 19] },               -- 12
    { ty := 2, rule := 3, epsOnly := true, trans := #[mkEps 14] },               -- 13 ARROW: rule start
    { ty := 1, rule := 3, trans := #[mkAtom '-' 15] },                           -- 14
    { ty := 1, rule := 3, trans := #[mkAtom '>' 16] },                           -- 15
    { ty := 1, rule := 3, epsOnly := true, trans := #[mkEps 20] },               -- 16
    { ty := 7, rule := 0 },                                                      -- 17 IF stop
    { ty := 7, rule := 1 },                                                      -- 18 ID stop
    { ty := 7, rule := 2 },                                                      -- 19 WS stop
    { ty := 7, rule := 3 } ]                                                     -- 20 ARROW stop
  modeStart := #[0]
  ruleTokenType := #[1, 2, 3, 4]
  actions := #[(6, 0, 0)]
  unsupported := false

/-- the automaton of `AS : 'a'* ;` — a rule that matches the empty string: the start set itself contains
    a stop configuration -/
def emptySim : Sim where
  states := #[
    { ty := 6, rule := 0, epsOnly := true, trans := #[mkEps 1] },                -- 0 tokens start
    { ty := 2, rule := 0, epsOnly := true, trans := #[mkEps 2] },                -- 1 rule start
    { ty := 1, rule := 0, epsOnly := true, trans := #[mkEps 3, mkEps 4] },       -- 2 loop entry: enter / exit
    { ty := 1, rule := 0, trans := #[mkAtom 'a' 2] },                            -- 3
    { ty := 1, rule := 0, epsOnly := true, trans := #[mkEps 5] },                -- 4
    { ty := 7, rule := 0 } ]                                                     -- 5 stop
  modeStart := #[0]
  ruleTokenType := #[1]
  actions := #[]
  unsupported := false

def mkWild (t : Nat) : Trans := { kind := 9, target := t, follow := 0, a1 := 0, a2 := 0, a3 := 0, set := [] }

/-- the automaton of `Q : '"' .*? '"' ;` (`ng = true`: the loop entry is a non-greedy decision, its exit
    branch comes first) or of `Q : '"' .* '"' ;` (`ng = false`) -/
def quoteSim (ng : Bool) : Sim where
  states := #[
    { ty := 6, rule := 0, epsOnly := true, trans := #[mkEps 1] },                -- 0 tokens start
    { ty := 2, rule := 0, epsOnly := true, trans := #[mkEps 2] },                -- 1 rule start
    { ty := 1, rule := 0, trans := #[mkAtom '"' 3] },                            -- 2
    { ty := 1, rule := 0, epsOnly := true, trans := #[mkEps 4] },                -- 3
    { ty := 10, rule := 0, nonGreedy := ng, epsOnly := true,                     -- 4 star loop entry
      trans := if ng then #[mkEps 8, mkEps 5] else #[mkEps 5, mkEps 8] },
    { ty := 5, rule := 0, epsOnly := true, trans := #[mkEps 6] },                -- 5 star block start
    { ty := 1, rule := 0, trans := #[mkWild 7] },                                -- 6
    { ty := 9, rule := 0, epsOnly := true, trans := #[mkEps 4] },                -- 7 loop back
    { ty := 12, rule := 0, epsOnly := true, trans := #[mkEps 9] },               -- 8 loop end
    { ty := 1, rule := 0, trans := #[mkAtom '"' 10] },                           -- 9
    { ty := 1, rule := 0, epsOnly := true, trans := #[mkEps 11] },               -- 10
    { ty := 7, rule := 0 } ]                                                     -- 11 stop
  modeStart := #[0]
  ruleTokenType := #[1]
  actions := #[]
  unsupported := false

/-- the alternatives of the stop configurations of a position, in the order of the set -/
def stopAlts (sim : Sim) : Reach → List Nat
  | .set cs => (cs.toList.filter (isStop sim)).map (·.alt)
  | _ => []

end FgaVerif.Model.LexSim.LexMunch
