import FgaVerif.Proofs.WMap
/-! Pointwise reading of the three weight strategies of `Spec/Weights.lean`: for one key `T`, what the
    value of a node is in terms of the values its edges contribute.  Two facts per strategy:
    *extract* (a value that is present was contributed by one of the edges, and the key condition of
    the strategy held) and *dominate* (when the key condition holds the key is present with a value
    that is at least every contributed one). -/
namespace FgaVerif.Spec.Weights

theorem lookupW_map (g : String × Nat → String × Nat) (hg : ∀ p, (g p).1 = p.1) (k : String) :
    ∀ (w : WMap), lookupW k (w.map g) = (lookupW k w).map (fun v => (g (k, v)).2)
  | [] => rfl
  | (k', v') :: rest => by
    have ih := lookupW_map g hg k rest
    have h1 := hg (k', v')
    rcases hgp : g (k', v') with ⟨a, b⟩
    rw [hgp] at h1
    simp only at h1
    subst h1
    simp only [List.map_cons, hgp, lookupW]
    by_cases hk : (k == a) = true
    · have : k = a := by simpa using hk
      subst this
      simp [hgp]
    · have hk' : (k == a) = false := by simpa using hk
      simp only [hk', Bool.false_eq_true, if_false]
      exact ih

/-! ### union -/

theorem total_sorted (k : String) : ∀ (cs : List WMap), (∀ c ∈ cs, SortedW c) →
    total k cs = cs.foldr (fun c acc => optMax (lookupW k c) acc) none
  | [], _ => rfl
  | c :: cs, h => by
    simp only [total, List.foldr_cons]
    rw [allMax_eq_lookupW k c (h c (by simp)), total_sorted k cs (fun c hc => h c (by simp [hc]))]

theorem optMax_some_left (a : Nat) (b : Option Nat) : ∃ v, optMax (some a) b = some v ∧ a ≤ v ∧ (∀ u, b = some u → u ≤ v) := by
  cases b with
  | none => exact ⟨a, rfl, Nat.le_refl _, by intro u h; cases h⟩
  | some b => exact ⟨Nat.max a b, rfl, Nat.le_max_left _ _, by intro u h; cases h; exact Nat.le_max_right _ _⟩

theorem optMax_eq_some {a b : Option Nat} {v : Nat} (h : optMax a b = some v) : a = some v ∨ b = some v := by
  cases a with
  | none => right; simpa [optMax] using h
  | some x =>
    cases b with
    | none => left; simpa [optMax] using h
    | some y =>
      simp only [optMax, Option.some.injEq] at h
      have hd : Nat.max x y = if x ≤ y then y else x := (Nat.max_def : max x y = _)
      by_cases hh : x ≤ y
      · right; rw [← h, hd]; simp [hh]
      · left; rw [← h, hd]; simp [hh]

theorem optMax_ge_right (a : Option Nat) (b : Nat) : ∃ v, optMax a (some b) = some v ∧ b ≤ v ∧ (∀ u, a = some u → u ≤ v) := by
  rw [optMax_comm]; exact optMax_some_left b a

/-- the running maximum over the lookups of a list of maps -/
def lookups (k : String) (cs : List WMap) : Option Nat := cs.foldr (fun c acc => optMax (lookupW k c) acc) none

theorem lookups_extract (k : String) : ∀ (cs : List WMap) (v : Nat), lookups k cs = some v → ∃ c ∈ cs, lookupW k c = some v
  | [], v, h => by simp [lookups] at h
  | c :: cs, v, h => by
    simp only [lookups, List.foldr_cons] at h
    rcases optMax_eq_some h with h1 | h1
    · exact ⟨c, by simp, h1⟩
    · obtain ⟨c', hc', hv⟩ := lookups_extract k cs v h1
      exact ⟨c', by simp [hc'], hv⟩

theorem lookups_dominate (k : String) : ∀ (cs : List WMap) (c : WMap) (u : Nat), c ∈ cs → lookupW k c = some u →
    ∃ v, lookups k cs = some v ∧ u ≤ v
  | [], c, u, h, _ => by simp at h
  | c0 :: cs, c, u, h, hu => by
    simp only [lookups, List.foldr_cons]
    rcases List.mem_cons.1 h with rfl | h
    · rw [hu]
      obtain ⟨v, hv, hle, _⟩ := optMax_some_left u (List.foldr (fun c acc => optMax (lookupW k c) acc) none cs)
      exact ⟨v, hv, hle⟩
    · obtain ⟨v0, hv0, hle0⟩ := lookups_dominate k cs c u h hu
      simp only [lookups] at hv0
      rw [hv0]
      obtain ⟨v, hv, hle, _⟩ := optMax_ge_right (lookupW k c0) v0
      exact ⟨v, hv, Nat.le_trans hle0 hle⟩

theorem lookups_none (k : String) : ∀ (cs : List WMap), lookups k cs = none → ∀ c ∈ cs, lookupW k c = none
  | [], _, c, h => by simp at h
  | c0 :: cs, h0, c, h => by
    simp only [lookups, List.foldr_cons] at h0
    have h1 : lookupW k c0 = none := by
      cases hc : lookupW k c0 with
      | none => rfl
      | some x => rw [hc] at h0; obtain ⟨v, hv, _⟩ := optMax_some_left x (List.foldr (fun c acc => optMax (lookupW k c) acc) none cs); rw [hv] at h0; cases h0
    have h2 : lookups k cs = none := by
      rw [h1] at h0; simpa [optMax, lookups] using h0
    rcases List.mem_cons.1 h with rfl | h
    · exact h1
    · exact lookups_none k cs h2 c h

theorem lookupW_unionAll (k : String) (cs : List WMap) (hs : ∀ c ∈ cs, SortedW c) :
    lookupW k (cs.foldl unionMax []) = lookups k cs := by
  rw [lookupW_foldl_unionMax cs [] sortedW_nil k, total_sorted k cs hs]
  simp [lookupW, optMax, lookups]

/-! ### intersection -/

theorem both_eq_some {a b : Option Nat} {v : Nat} (h : both a b = some v) :
    ∃ x y, a = some x ∧ b = some y ∧ v = Nat.max x y := by
  cases a <;> cases b <;> simp [both] at h
  exact ⟨_, _, rfl, rfl, h.symm⟩

theorem max_eq_or (x y : Nat) : Nat.max x y = x ∨ Nat.max x y = y := by
  have hd : Nat.max x y = if x ≤ y then y else x := (Nat.max_def : max x y = _)
  rw [hd]; by_cases h : x ≤ y <;> simp [h]

theorem interTotal_extract (k : String) : ∀ (cs : List WMap) (v : Nat), interTotal k cs = some (some v) →
    (∀ c ∈ cs, (lookupW k c).isSome = true) ∧ ∃ c ∈ cs, lookupW k c = some v
  | [], v, h => by simp [interTotal] at h
  | c :: cs, v, h => by
    simp only [interTotal] at h
    cases hr : interTotal k cs with
    | none =>
      rw [hr] at h
      simp only [Option.some.injEq] at h
      have hnil : cs = [] := by
        cases cs with
        | nil => rfl
        | cons d ds => simp only [interTotal] at hr; split at hr <;> cases hr
      subst hnil
      refine ⟨?_, c, by simp, h⟩
      intro c' hc'; simp at hc'; subst hc'; simp [h]
    | some r =>
      rw [hr] at h
      simp only [Option.some.injEq] at h
      obtain ⟨x, y, hx, hy, hv⟩ := both_eq_some h
      subst hy
      obtain ⟨hall, c', hc', hcv⟩ := interTotal_extract k cs y hr
      refine ⟨?_, ?_⟩
      · intro d hd
        rcases List.mem_cons.1 hd with rfl | hd
        · simp [hx]
        · exact hall d hd
      · rcases max_eq_or x y with hm | hm
        · exact ⟨c, by simp, by rw [hx, hv, hm]⟩
        · exact ⟨c', by simp [hc'], by rw [hcv, hv, hm]⟩

theorem interTotal_dominate (k : String) : ∀ (cs : List WMap), cs ≠ [] → (∀ c ∈ cs, (lookupW k c).isSome = true) →
    ∃ v, interTotal k cs = some (some v) ∧ ∀ c ∈ cs, ∀ u, lookupW k c = some u → u ≤ v
  | [], h, _ => absurd rfl h
  | c :: cs, _, hall => by
    obtain ⟨x, hx⟩ := Option.isSome_iff_exists.1 (hall c (by simp))
    cases cs with
    | nil =>
      refine ⟨x, by simp [interTotal, hx], ?_⟩
      intro c' hc' u hu
      simp at hc'; subst hc'; rw [hx] at hu; cases hu; exact Nat.le_refl _
    | cons d ds =>
      obtain ⟨y, hy, hdom⟩ := interTotal_dominate k (d :: ds) (by simp) (fun c' hc' => hall c' (by simp [hc']))
      refine ⟨Nat.max x y, ?_, ?_⟩
      · show interTotal k (c :: d :: ds) = _
        rw [interTotal, hy]; simp [hx, both]
      · intro c' hc' u hu
        rcases List.mem_cons.1 hc' with rfl | hc'
        · rw [hx] at hu; cases hu; exact Nat.le_max_left _ _
        · exact Nat.le_trans (hdom c' hc' u hu) (Nat.le_max_right _ _)

theorem interCombine_extract (k : String) (cs : List WMap) (v : Nat) (h : lookupW k (interCombine cs) = some v) :
    cs ≠ [] ∧ (∀ c ∈ cs, (lookupW k c).isSome = true) ∧ ∃ c ∈ cs, lookupW k c = some v := by
  cases cs with
  | nil => simp [interCombine, lookupW] at h
  | cons w ws =>
    have := lookupW_interCombine k w ws
    rw [h] at this
    obtain ⟨h1, h2⟩ := interTotal_extract k (w :: ws) v this.symm
    exact ⟨by simp, h1, h2⟩

theorem interCombine_dominate (k : String) (cs : List WMap) (hne : cs ≠ []) (hall : ∀ c ∈ cs, (lookupW k c).isSome = true) :
    ∃ v, lookupW k (interCombine cs) = some v ∧ ∀ c ∈ cs, ∀ u, lookupW k c = some u → u ≤ v := by
  cases cs with
  | nil => exact absurd rfl hne
  | cons w ws =>
    obtain ⟨v, hv, hdom⟩ := interTotal_dominate k (w :: ws) hne hall
    have := lookupW_interCombine k w ws
    rw [hv] at this
    exact ⟨v, Option.some.inj this, hdom⟩

/-! ### exclusion -/

theorem filter_false (l : WMap) : l.filter (fun _ => false) = [] := by
  induction l with
  | nil => rfl
  | cons x xs ih => simp only [List.filter_cons, Bool.false_eq_true, if_false, ih]

theorem lookupW_diffCombine (k : String) (c1 c2 : WMap) (cs : List WMap) (hs : ∀ c ∈ c1 :: c2 :: cs, SortedW c) :
    lookupW k (diffCombine (c1 :: c2 :: cs)) =
      (lookups k (c1 :: c2 :: cs).dropLast).map (fun v =>
        match lookupW k ((c1 :: c2 :: cs).getLast?.getD []) with | some v' => Nat.max v v' | none => v) := by
  unfold diffCombine
  simp only
  rw [lookupW_map]
  · rw [lookupW_unionAll k _ (fun c hc => hs c (List.dropLast_subset _ hc))]
    rfl
  · intro p; rfl

theorem diffCombine_extract (k : String) (cs : List WMap) (hs : ∀ c ∈ cs, SortedW c) (v : Nat)
    (h : lookupW k (diffCombine cs) = some v) :
    2 ≤ cs.length ∧ (∃ c ∈ cs.dropLast, (lookupW k c).isSome = true) ∧ ∃ c ∈ cs, lookupW k c = some v := by
  match cs, hs, h with
  | [], _, h => simp [diffCombine, lookupW] at h
  | [b], _, h => simp [diffCombine, filter_false, lookupW] at h
  | c1 :: c2 :: cs, hs, h =>
    rw [lookupW_diffCombine k c1 c2 cs hs] at h
    cases hb : lookups k (c1 :: c2 :: cs).dropLast with
    | none => rw [hb] at h; cases h
    | some vb =>
      rw [hb] at h
      simp only [Option.map_some, Option.some.injEq] at h
      obtain ⟨cb, hcb, hvb⟩ := lookups_extract k _ vb hb
      refine ⟨by simp, ⟨cb, hcb, by simp [hvb]⟩, ?_⟩
      split at h
      · rename_i v' hv'
        rcases max_eq_or vb v' with hm | hm
        · exact ⟨cb, List.dropLast_subset _ hcb, by rw [hvb, ← h, hm]⟩
        · have hlast : (c1 :: c2 :: cs).getLast?.getD [] ∈ c1 :: c2 :: cs := by
            cases hl : (c1 :: c2 :: cs).getLast? with
            | none => simp at hl
            | some l => simpa using List.mem_of_getLast? hl
          exact ⟨_, hlast, by rw [hv', ← h, hm]⟩
      · exact ⟨cb, List.dropLast_subset _ hcb, by rw [hvb, h]⟩

theorem diffCombine_dominate (k : String) (cs : List WMap) (hs : ∀ c ∈ cs, SortedW c) (h2 : 2 ≤ cs.length)
    (hb : ∃ c ∈ cs.dropLast, (lookupW k c).isSome = true) :
    ∃ v, lookupW k (diffCombine cs) = some v ∧ ∀ c ∈ cs, ∀ u, lookupW k c = some u → u ≤ v := by
  match cs, hs, h2, hb with
  | [], _, h2, _ => simp at h2
  | [b], _, h2, _ => simp at h2
  | c1 :: c2 :: cs, hs, _, ⟨cb, hcb, hsome⟩ =>
    obtain ⟨ub, hub⟩ := Option.isSome_iff_exists.1 hsome
    obtain ⟨vb, hvb, _⟩ := lookups_dominate k _ cb ub hcb hub
    rw [lookupW_diffCombine k c1 c2 cs hs, hvb]
    simp only [Option.map_some]
    refine ⟨_, rfl, ?_⟩
    intro c hc u hu
    -- c is in the base or is the last one
    have hsplit : c ∈ (c1 :: c2 :: cs).dropLast ∨ (c1 :: c2 :: cs).getLast?.getD [] = c := by
      have hne : (c1 :: c2 :: cs) ≠ [] := by simp
      have := List.dropLast_concat_getLast hne
      rw [← this] at hc
      rcases List.mem_append.1 hc with h | h
      · exact Or.inl h
      · right
        simp only [List.mem_singleton] at h
        rw [List.getLast?_eq_some_getLast hne]; simp [h]
    rcases hsplit with hbase | hlast
    · obtain ⟨v1, hv1, hle⟩ := lookups_dominate k _ c u hbase hu
      rw [hvb] at hv1; cases hv1
      split
      · exact Nat.le_trans hle (Nat.le_max_left _ _)
      · exact hle
    · rw [hlast, hu]
      exact Nat.le_max_right _ _

end FgaVerif.Spec.Weights
