import FgaVerif.Model.PGraph
import FgaVerif.Proofs.PGraphReach
/-! The cycle enumeration of the plain graph port (`allCycles`, the stand-in for gonum's
    `topo.DirectedCyclesIn`) lists exactly the simple cycles of the graph, each once per smallest
    node, written from its smallest node; and what the two cycle flags (`cycleFlags`) therefore say. -/
namespace FgaVerif.Model.PGraph

/-! ### simple cycles, declaratively -/

/-- some line of `g` goes from `a` to `b` (the direction `succs` / `succSet` follow) -/
def Line (g : G) (a b : Nat) : Prop := ∃ l ∈ g.lines, l.src = a ∧ l.dst = b

/-- `a :: l` is a walk: each node is joined to the next by a line -/
def Walk (g : G) : Nat → List Nat → Prop
  | _, [] => True
  | a, b :: rest => Line g a b ∧ Walk g b rest

/-- `c` is a simple cycle of `g`, written as its node list with the start repeated at the end
    (`[s, x₁, …, xₖ, s]`): consecutive nodes are joined by a line, and no node occurs twice except the
    start at both ends.  `k = 0` is a self loop `[s, s]`; a cycle over two or more nodes has
    `c.length > 2`. -/
def IsCycle (g : G) (c : List Nat) : Prop :=
  ∃ s mid, c = s :: (mid ++ [s]) ∧ (s :: mid).Nodup ∧ Walk g s (mid ++ [s])

/-- a simple cycle written from its smallest node -/
def IsMinCycle (g : G) (c : List Nat) : Prop :=
  ∃ s mid, c = s :: (mid ++ [s]) ∧ (s :: mid).Nodup ∧ Walk g s (mid ++ [s]) ∧ ∀ x ∈ mid, s < x

theorem IsMinCycle.isCycle {g : G} {c : List Nat} (h : IsMinCycle g c) : IsCycle g c := by
  obtain ⟨s, mid, hc, hn, hw, _⟩ := h
  exact ⟨s, mid, hc, hn, hw⟩

theorem mem_succSet (g : G) (a b : Nat) : b ∈ succSet g a ↔ Line g a b := by
  unfold succSet
  rw [List.mem_eraseDups]
  exact succ_iff_line g a b

theorem walk_append (g : G) : ∀ (l1 : List Nat) (a b : Nat) (l2 : List Nat),
    Walk g a (l1 ++ b :: l2) ↔ Walk g a (l1 ++ [b]) ∧ Walk g b l2
  | [], a, b, l2 => by simp [Walk]
  | x :: l1, a, b, l2 => by
    simp only [List.cons_append, Walk]
    rw [walk_append g l1 x b l2]
    exact and_assoc.symm

theorem walk_nodes_lt (g : G) (hv : LinesValid g) : ∀ (l : List Nat) (a : Nat), Walk g a l →
    ∀ x ∈ l, x < g.nodes.length
  | [], _, _, x, hx => by simp at hx
  | b :: rest, a, hw, x, hx => by
    obtain ⟨⟨l, hl, _, hd⟩, hw2⟩ := hw
    rcases List.mem_cons.1 hx with h | h
    · subst h; exact hd ▸ (hv l hl).2
    · exact walk_nodes_lt g hv rest b hw2 x h

/-- on a graph whose lines connect existing nodes, every node of a cycle exists -/
theorem cycle_nodes_lt (g : G) (hv : LinesValid g) (c : List Nat) (h : IsCycle g c) :
    ∀ x ∈ c, x < g.nodes.length := by
  obtain ⟨s, mid, rfl, _, hw⟩ := h
  have := walk_nodes_lt g hv _ s hw
  intro x hx
  rcases List.mem_cons.1 hx with h | h
  · subst h; exact this x (by simp)
  · exact this x h

/-! ### the enumeration -/

theorem mem_cyclesVia (g : G) (s fuel : Nat) (path : List Nat) : ∀ (ws : List Nat) (c : List Nat),
    c ∈ cyclesVia g s fuel path ws ↔
      ∃ w ∈ ws, (w = s ∧ c = (s :: path).reverse) ∨
        (w ≠ s ∧ s < w ∧ w ∉ path ∧ c ∈ cyclesFrom g s fuel (w :: path) w)
  | [], c => by simp [cyclesVia]
  | w :: ws, c => by
    rw [cyclesVia.eq_2, List.mem_append, mem_cyclesVia g s fuel path ws c]
    simp only [List.mem_cons, or_and_right, exists_or, exists_eq_left]
    refine or_congr ?_ Iff.rfl
    by_cases h1 : w = s
    · subst h1; simp
    · by_cases h2 : w ∈ path
      · simp [h1, h2]
      · by_cases h3 : s < w
        · simp [h1, h2, h3]
        · simp [h1, h2, h3]

theorem cyclesFrom_sound (g : G) (s : Nat) : ∀ (fuel : Nat) (path : List Nat) (cur : Nat) (c : List Nat),
    path.Nodup → c ∈ cyclesFrom g s fuel path cur →
    ∃ ext, c = path.reverse ++ ext ++ [s] ∧ (∀ x ∈ ext, s < x) ∧ (ext.reverse ++ path).Nodup ∧
      Walk g cur (ext ++ [s])
  | 0, path, cur, c, _, h => by simp [cyclesFrom] at h
  | fuel+1, path, cur, c, hn, h => by
    rw [cyclesFrom.eq_2, mem_cyclesVia] at h
    obtain ⟨w, hw, h⟩ := h
    have hl : Line g cur w := (mem_succSet g cur w).1 hw
    rcases h with ⟨rfl, rfl⟩ | ⟨_, hsw, hwp, hc⟩
    · exact ⟨[], by simp, by simp, by simpa using hn, by simpa [Walk] using hl⟩
    · obtain ⟨ext, rfl, hgt, hnd, hwalk⟩ :=
        cyclesFrom_sound g s fuel (w :: path) w c (List.nodup_cons.2 ⟨hwp, hn⟩) hc
      refine ⟨w :: ext, by simp, ?_, ?_, ?_⟩
      · intro x hx
        rcases List.mem_cons.1 hx with h | h
        · subst h; exact hsw
        · exact hgt x h
      · simpa [List.reverse_cons, List.append_assoc] using hnd
      · exact ⟨hl, hwalk⟩

/-- **soundness**: every listed cycle is a simple cycle of the graph, written from its smallest node,
    and that node is a node of the graph -/
theorem allCycles_sound_min (g : G) (c : List Nat) (h : c ∈ allCycles g) :
    IsMinCycle g c ∧ ∃ s, c.head? = some s ∧ s < g.nodes.length := by
  unfold allCycles at h
  obtain ⟨s, hs, hc⟩ := List.mem_flatMap.1 h
  obtain ⟨ext, rfl, hgt, hnd, hw⟩ := cyclesFrom_sound g s _ [s] s c (by simp) hc
  refine ⟨⟨s, ext, by simp, ?_, hw, hgt⟩, s, by simp, List.mem_range.1 hs⟩
  rw [List.nodup_append] at hnd
  refine List.nodup_cons.2 ⟨fun hm => Nat.lt_irrefl _ (hgt s hm), ?_⟩
  exact (List.reverse_perm ext).nodup_iff.1 hnd.1

theorem allCycles_sound (g : G) (c : List Nat) (h : c ∈ allCycles g) : IsCycle g c :=
  (allCycles_sound_min g c h).1.isCycle

theorem cyclesFrom_complete (g : G) (s : Nat) : ∀ (ext : List Nat) (fuel : Nat) (path : List Nat) (cur : Nat),
    ext.length < fuel → (∀ x ∈ ext, s < x) → ext.Nodup → (∀ x ∈ ext, x ∉ path) → Walk g cur (ext ++ [s]) →
    path.reverse ++ ext ++ [s] ∈ cyclesFrom g s fuel path cur
  | [], 0, _, _, hf, _, _, _, _ => by simp at hf
  | [], fuel+1, path, cur, _, _, _, _, hw => by
    rw [cyclesFrom.eq_2, mem_cyclesVia]
    exact ⟨s, (mem_succSet g cur s).2 hw.1, Or.inl ⟨rfl, by simp⟩⟩
  | w :: ext, 0, _, _, hf, _, _, _, _ => by simp at hf
  | w :: ext, fuel+1, path, cur, hf, hgt, hnd, hdis, hw => by
    rw [cyclesFrom.eq_2, mem_cyclesVia]
    have hsw : s < w := hgt w (by simp)
    obtain ⟨hwe, hnd2⟩ := List.nodup_cons.1 hnd
    refine ⟨w, (mem_succSet g cur w).2 hw.1, Or.inr ⟨by omega, hsw, hdis w (by simp), ?_⟩⟩
    have := cyclesFrom_complete g s ext fuel (w :: path) w
      (by simp only [List.length_cons] at hf; omega)
      (fun x hx => hgt x (by simp [hx])) hnd2
      (by
        intro x hx hm
        rcases List.mem_cons.1 hm with h | h
        · subst h; exact hwe hx
        · exact hdis x (by simp [hx]) h)
      hw.2
    simpa [List.reverse_cons, List.append_assoc] using this

/-- a duplicate-free list of numbers below `n` has at most `n` elements -/
theorem nodup_lt_length_le (l : List Nat) (n : Nat) (hn : l.Nodup) (hl : ∀ x ∈ l, x < n) : l.length ≤ n := by
  have := hn.length_le_of_subset (l₂ := List.range n) (fun x hx => List.mem_range.2 (hl x hx))
  simpa using this

/-- **completeness**: on a graph whose lines connect existing nodes, every simple cycle written from its
    smallest node is listed (the fuel `|nodes| + 1` suffices: a simple path has at most `|nodes|`
    distinct nodes) -/
theorem allCycles_complete_min (g : G) (hv : LinesValid g) (c : List Nat) (h : IsMinCycle g c) :
    c ∈ allCycles g := by
  obtain ⟨s, mid, rfl, hnd, hw, hgt⟩ := h
  have hlt := walk_nodes_lt g hv _ s hw
  have hs : s < g.nodes.length := hlt s (by simp)
  have hlen : (s :: mid).length ≤ g.nodes.length :=
    nodup_lt_length_le _ _ hnd (by
      intro x hx
      rcases List.mem_cons.1 hx with h | h
      · subst h; exact hs
      · exact hlt x (by simp [h]))
  obtain ⟨hsm, hnd2⟩ := List.nodup_cons.1 hnd
  unfold allCycles
  refine List.mem_flatMap.2 ⟨s, List.mem_range.2 hs, ?_⟩
  have := cyclesFrom_complete g s mid (g.nodes.length + 1) [s] s
    (by simp only [List.length_cons] at hlen; omega) hgt hnd2
    (by intro x hx hm; simp at hm; subst hm; exact hsm hx) hw
  simpa using this

theorem mem_allCycles_iff (g : G) (hv : LinesValid g) (c : List Nat) : c ∈ allCycles g ↔ IsMinCycle g c :=
  ⟨fun h => (allCycles_sound_min g c h).1, allCycles_complete_min g hv c⟩

/-! ### rotating a cycle to its smallest node -/

theorem exists_min_mem : ∀ (l : List Nat), l ≠ [] → ∃ m ∈ l, ∀ x ∈ l, m ≤ x
  | [], h => absurd rfl h
  | [a], _ => ⟨a, by simp, by simp⟩
  | a :: b :: rest, _ => by
    obtain ⟨m, hm, hmin⟩ := exists_min_mem (b :: rest) (by simp)
    by_cases h : a ≤ m
    · refine ⟨a, by simp, ?_⟩
      intro x hx
      rcases List.mem_cons.1 hx with h1 | h1
      · omega
      · exact Nat.le_trans h (hmin x h1)
    · refine ⟨m, List.mem_cons_of_mem _ hm, ?_⟩
      intro x hx
      rcases List.mem_cons.1 hx with h1 | h1
      · omega
      · exact hmin x h1

theorem mem_close (s : Nat) (mid : List Nat) (x : Nat) : x ∈ s :: (mid ++ [s]) ↔ x ∈ s :: mid := by
  simp only [List.mem_cons, List.mem_append, List.not_mem_nil, or_false]
  constructor
  · rintro (h | h | h)
    · exact Or.inl h
    · exact Or.inr h
    · exact Or.inl h
  · rintro (h | h)
    · exact Or.inl h
    · exact Or.inr (Or.inl h)

/-- every simple cycle has a rotation written from its smallest node: the node list without the
    closing repetition is cut in two and the halves are swapped -/
theorem exists_min_rotation (g : G) (c : List Nat) (h : IsCycle g c) :
    ∃ c', IsMinCycle g c' ∧
      (∃ pre post, c.dropLast = pre ++ post ∧ c'.dropLast = post ++ pre) ∧
      c'.length = c.length ∧ ∀ x, x ∈ c' ↔ x ∈ c := by
  obtain ⟨s, mid, rfl, hnd, hw⟩ := h
  obtain ⟨m, hm, hmin⟩ := exists_min_mem (s :: mid) (by simp)
  obtain ⟨pre, post, hsplit⟩ := List.append_of_mem hm
  have hperm : (s :: mid).Perm (m :: (post ++ pre)) := by
    rw [hsplit]
    exact List.perm_middle.trans (List.Perm.cons _ List.perm_append_comm)
  have hnd' : (m :: (post ++ pre)).Nodup := hperm.nodup_iff.1 hnd
  have hlt : ∀ x ∈ post ++ pre, m < x := by
    intro x hx
    have h1 : m ≤ x := hmin x (hperm.mem_iff.2 (List.mem_cons_of_mem _ hx))
    have h2 : x ≠ m := fun e => (List.nodup_cons.1 hnd').1 (e ▸ hx)
    omega
  have hdl : (s :: (mid ++ [s])).dropLast = s :: mid := by
    rw [← List.cons_append, List.dropLast_concat]
  have hdl' : (m :: ((post ++ pre) ++ [m])).dropLast = m :: (post ++ pre) := by
    rw [← List.cons_append, List.dropLast_concat]
  have hwalk : Walk g m ((post ++ pre) ++ [m]) := by
    cases pre with
    | nil =>
      simp only [List.nil_append, List.cons.injEq] at hsplit
      obtain ⟨rfl, rfl⟩ := hsplit
      simpa using hw
    | cons s' pre' =>
      simp only [List.cons_append, List.cons.injEq] at hsplit
      obtain ⟨rfl, rfl⟩ := hsplit
      rw [List.append_assoc, List.cons_append, walk_append] at hw
      rw [List.append_assoc, List.cons_append, walk_append]
      exact ⟨hw.2, hw.1⟩
  refine ⟨m :: ((post ++ pre) ++ [m]), ⟨m, post ++ pre, rfl, hnd', hwalk, hlt⟩, ?_, ?_, ?_⟩
  · refine ⟨pre, m :: post, ?_, ?_⟩
    · rw [hdl, hsplit]
    · rw [hdl']; simp
  · have := hperm.length_eq
    simp only [List.length_cons, List.length_append, List.length_nil] at this ⊢
    omega
  · intro x
    rw [mem_close, mem_close]
    exact hperm.mem_iff.symm

/-- **completeness, any rotation**: on a graph whose lines connect existing nodes, every simple cycle,
    written from any of its nodes, is listed in its rotation that starts at the smallest node -/
theorem allCycles_complete (g : G) (hv : LinesValid g) (c : List Nat) (h : IsCycle g c) :
    ∃ c' ∈ allCycles g, IsMinCycle g c' ∧
      (∃ pre post, c.dropLast = pre ++ post ∧ c'.dropLast = post ++ pre) ∧
      c'.length = c.length ∧ ∀ x, x ∈ c' ↔ x ∈ c := by
  obtain ⟨c', hmin, hrot, hlen, hmem⟩ := exists_min_rotation g c h
  exact ⟨c', allCycles_complete_min g hv c' hmin, hmin, hrot, hlen, hmem⟩

/-- the graph has a simple cycle over two or more nodes iff one is listed -/
theorem proper_cycle_iff_listed (g : G) (hv : LinesValid g) :
    (∃ c, IsCycle g c ∧ c.length > 2) ↔ ∃ c' ∈ allCycles g, c'.length > 2 := by
  constructor
  · rintro ⟨c, hc, hl⟩
    obtain ⟨c', hc', _, _, hlen, _⟩ := allCycles_complete g hv c hc
    exact ⟨c', hc', by omega⟩
  · rintro ⟨c', hc', hl⟩
    exact ⟨c', allCycles_sound g c' hc', hl⟩

/-- a graph whose lines all go strictly down some rank has no cycle at all -/
theorem no_cycle_of_rank (g : G) (f : Nat → Nat) (h : ∀ l ∈ g.lines, f l.dst < f l.src) :
    ∀ c, ¬ IsCycle g c := by
  have hwalk : ∀ (l : List Nat) (a : Nat), Walk g a l → ∀ x ∈ l, f x < f a := by
    intro l
    induction l with
    | nil => intro a _ x hx; simp at hx
    | cons b rest ih =>
      intro a hw x hx
      obtain ⟨⟨l, hl, hs, hd⟩, hw2⟩ := hw
      have hba : f b < f a := by have := h l hl; rwa [hs, hd] at this
      rcases List.mem_cons.1 hx with e | e
      · subst e; exact hba
      · exact Nat.lt_trans (ih b hw2 x e) hba
  rintro c ⟨s, mid, _, _, hw⟩
  exact Nat.lt_irrefl _ (hwalk _ s hw s (by simp))

/-! ### the two flags -/

/-- every line from `a` to `b` (there may be none, or several in parallel) is a computed-userset line -/
def OnlyComputed (g : G) (a b : Nat) : Prop := ∀ l ∈ g.lines, l.src = a → l.dst = b → l.etype = .computed

theorem etype_bne_computed (e : EdgeType) : (e != EdgeType.computed) = false ↔ e = .computed := by
  cases e <;> decide

theorem hasNonComputedBetween_eq_false (g : G) (a b : Nat) :
    hasNonComputedBetween g a b = false ↔ OnlyComputed g a b := by
  unfold hasNonComputedBetween OnlyComputed
  rw [List.any_eq_false]
  constructor
  · intro h l hl hs hd
    have := h l hl
    rw [Bool.not_eq_true] at this
    simp only [hs, hd, beq_self_eq_true, Bool.true_and] at this
    exact (etype_bne_computed _).1 this
  · intro h l hl
    rw [Bool.not_eq_true]
    by_cases hs : l.src = a
    · by_cases hd : l.dst = b
      · simp only [hs, hd, beq_self_eq_true, Bool.true_and]
        exact (etype_bne_computed _).2 (h l hl hs hd)
      · simp [hd]
    · simp [hs]

/-- the classification of a node list looks at every line from an earlier to a later position of the
    list (so for `[s, x₁, …, xₖ, s]`: the lines of the cycle, the lines between `s` and any `xᵢ` in both
    directions, and the forward chords `xᵢ → xⱼ`, `i < j`), all parallel lines included -/
theorem nodeList_eq_false (g : G) : ∀ (c : List Nat),
    nodeListHasNonComputedEdge g c = false ↔ c.Pairwise (OnlyComputed g)
  | [] => by simp [nodeListHasNonComputedEdge]
  | a :: rest => by
    rw [nodeListHasNonComputedEdge, Bool.or_eq_false_iff, nodeList_eq_false g rest, List.pairwise_cons,
      List.any_eq_false]
    refine and_congr ?_ Iff.rfl
    constructor
    · intro h b hb
      exact (hasNonComputedBetween_eq_false g a b).1 (by simpa using h b hb)
    · intro h b hb
      simpa using (hasNonComputedBetween_eq_false g a b).2 (h b hb)

theorem nodeList_eq_true (g : G) (c : List Nat) :
    nodeListHasNonComputedEdge g c = true ↔ ¬ c.Pairwise (OnlyComputed g) := by
  rw [← nodeList_eq_false]
  cases nodeListHasNonComputedEdge g c <;> simp

theorem hasSelfLoop_iff (g : G) : hasSelfLoop g = true ↔ ∃ a, Line g a a := by
  unfold hasSelfLoop Line
  rw [List.any_eq_true]
  constructor
  · rintro ⟨l, hl, h⟩
    exact ⟨l.src, l, hl, rfl, (by simpa using h : l.src = l.dst).symm⟩
  · rintro ⟨a, l, hl, h1, h2⟩
    exact ⟨l, hl, by simp [h1, h2]⟩

/-- a self loop is the cycle `[s, s]` -/
theorem self_loop_cycle (g : G) (a : Nat) : Line g a a ↔ IsCycle g [a, a] := by
  constructor
  · intro h
    exact ⟨a, [], rfl, by simp, by simpa [Walk] using h⟩
  · rintro ⟨s, mid, hc, _, hw⟩
    cases mid with
    | nil =>
      simp only [List.nil_append, List.cons.injEq, and_true] at hc
      obtain ⟨rfl, _⟩ := hc
      simpa [Walk] using hw
    | cons x rest =>
      simp only [List.cons_append, List.cons.injEq] at hc
      have := congrArg List.length hc.2.2
      simp at this

theorem cycleFlags_eq (g : G) (hs : hasSelfLoop g = false) :
    cycleFlags g = some
      (((allCycles g).filter (fun c => c.length > 2)).any (fun c => !nodeListHasNonComputedEdge g c),
       ((allCycles g).filter (fun c => c.length > 2)).any (nodeListHasNonComputedEdge g)) := by
  simp [cycleFlags, hs]

/-- the flags are undefined exactly on graphs with a self loop -/
theorem cycleFlags_none_iff (g : G) : cycleFlags g = none ↔ hasSelfLoop g = true := by
  cases hs : hasSelfLoop g <;> simp [cycleFlags, hs]

theorem cycleFlags_some (g : G) (p : Bool × Bool) (h : cycleFlags g = some p) : hasSelfLoop g = false := by
  cases hs : hasSelfLoop g
  · rfl
  · rw [(cycleFlags_none_iff g).2 hs] at h; cases h

/-- the flags in terms of the listed cycles -/
theorem flags_listed (g : G) (t r : Bool) (h : cycleFlags g = some (t, r)) :
    (t = true ↔ ∃ c ∈ allCycles g, c.length > 2 ∧ c.Pairwise (OnlyComputed g)) ∧
    (r = true ↔ ∃ c ∈ allCycles g, c.length > 2 ∧ ¬ c.Pairwise (OnlyComputed g)) := by
  have hs := cycleFlags_some g _ h
  rw [cycleFlags_eq g hs] at h
  simp only [Option.some.injEq, Prod.mk.injEq] at h
  rw [← h.1, ← h.2, List.any_eq_true, List.any_eq_true]
  constructor
  · constructor
    · rintro ⟨c, hc, hn⟩
      obtain ⟨hc1, hc2⟩ := List.mem_filter.1 hc
      exact ⟨c, hc1, by simpa using hc2, (nodeList_eq_false g c).1 (by simpa using hn)⟩
    · rintro ⟨c, hc, hl, hp⟩
      exact ⟨c, List.mem_filter.2 ⟨hc, by simpa using hl⟩, by simpa using (nodeList_eq_false g c).2 hp⟩
  · constructor
    · rintro ⟨c, hc, hn⟩
      obtain ⟨hc1, hc2⟩ := List.mem_filter.1 hc
      exact ⟨c, hc1, by simpa using hc2, (nodeList_eq_true g c).1 hn⟩
    · rintro ⟨c, hc, hl, hp⟩
      exact ⟨c, List.mem_filter.2 ⟨hc, by simpa using hl⟩, (nodeList_eq_true g c).2 hp⟩

/-- **what the flags say**, on a graph whose lines connect existing nodes: the compile-time flag is set
    iff some simple cycle over two or more nodes, written from its smallest node, has only computed
    lines from earlier to later positions; the runtime flag iff some such cycle has another line -/
theorem flags_exact (g : G) (hv : LinesValid g) (t r : Bool) (h : cycleFlags g = some (t, r)) :
    (t = true ↔ ∃ c, IsMinCycle g c ∧ c.length > 2 ∧ c.Pairwise (OnlyComputed g)) ∧
    (r = true ↔ ∃ c, IsMinCycle g c ∧ c.length > 2 ∧ ¬ c.Pairwise (OnlyComputed g)) := by
  have := flags_listed g t r h
  simp only [mem_allCycles_iff g hv] at this
  exact this

/-- the "only if" halves need no hypothesis on the graph -/
theorem compile_flag_sound (g : G) (r : Bool) (h : cycleFlags g = some (true, r)) :
    ∃ c, IsMinCycle g c ∧ c.length > 2 ∧ c.Pairwise (OnlyComputed g) := by
  obtain ⟨c, hc, h1, h2⟩ := (flags_listed g true r h).1.1 rfl
  exact ⟨c, (allCycles_sound_min g c hc).1, h1, h2⟩

theorem runtime_flag_sound (g : G) (t : Bool) (h : cycleFlags g = some (t, true)) :
    ∃ c, IsMinCycle g c ∧ c.length > 2 ∧ ¬ c.Pairwise (OnlyComputed g) := by
  obtain ⟨c, hc, h1, h2⟩ := (flags_listed g t true h).2.1 rfl
  exact ⟨c, (allCycles_sound_min g c hc).1, h1, h2⟩

/-- **no cycle, no flag**: without self loops and without simple cycles over two or more nodes both
    flags are false -/
theorem no_cycle_no_flags (g : G) (hs : hasSelfLoop g = false) (h : ¬ ∃ c, IsCycle g c ∧ c.length > 2) :
    cycleFlags g = some (false, false) := by
  have hempty : (allCycles g).filter (fun c => c.length > 2) = [] := by
    rw [List.filter_eq_nil_iff]
    intro c hc hl
    exact h ⟨c, allCycles_sound g c hc, by simpa using hl⟩
  rw [cycleFlags_eq g hs, hempty]
  rfl

/-- an acyclic graph (no simple cycle at all, self loops included) reports no cycle -/
theorem acyclic_no_flags (g : G) (h : ∀ c, ¬ IsCycle g c) : cycleFlags g = some (false, false) := by
  refine no_cycle_no_flags g ?_ (fun ⟨c, hc, _⟩ => h c hc)
  cases hs : hasSelfLoop g
  · rfl
  · obtain ⟨a, ha⟩ := (hasSelfLoop_iff g).1 hs
    exact absurd ((self_loop_cycle g a).1 ha) (h _)

/-- conversely, when both flags are false the graph has no simple cycle over two or more nodes -/
theorem no_flags_no_cycle (g : G) (hv : LinesValid g) (h : cycleFlags g = some (false, false)) :
    ¬ ∃ c, IsCycle g c ∧ c.length > 2 := by
  rintro ⟨c, hc, hl⟩
  obtain ⟨c', hmin, _, hlen, _⟩ := exists_min_rotation g c hc
  have hex := flags_exact g hv false false h
  by_cases hp : c'.Pairwise (OnlyComputed g)
  · exact absurd (hex.1.2 ⟨c', hmin, by omega, hp⟩) (by simp)
  · exact absurd (hex.2.2 ⟨c', hmin, by omega, hp⟩) (by simp)

/-- **a cycle of pure computed usersets is reported at compile time**: if some simple cycle over two or
    more nodes (written from any of its nodes) is such that every line of the graph between two of its
    nodes is a computed line, the compile-time flag is set -/
theorem computed_cycle_flagged (g : G) (hv : LinesValid g) (hs : hasSelfLoop g = false) (c : List Nat)
    (hc : IsCycle g c) (hl : c.length > 2)
    (hcomp : ∀ l ∈ g.lines, l.src ∈ c → l.dst ∈ c → l.etype = .computed) :
    ∃ r, cycleFlags g = some (true, r) := by
  obtain ⟨c', hmin, _, hlen, hmem⟩ := exists_min_rotation g c hc
  have hp : c'.Pairwise (OnlyComputed g) := by
    apply List.pairwise_of_forall_mem_list
    intro a ha b hb l hl hsrc hdst
    exact hcomp l hl (hsrc ▸ (hmem a).1 ha) (hdst ▸ (hmem b).1 hb)
  have heq := cycleFlags_eq g hs
  generalize ((allCycles g).filter (fun c => c.length > 2)).any (fun c => !nodeListHasNonComputedEdge g c) = t at heq
  generalize ((allCycles g).filter (fun c => c.length > 2)).any (nodeListHasNonComputedEdge g) = r at heq
  have := (flags_exact g hv t r heq).1.2 ⟨c', hmin, by omega, hp⟩
  subst this
  exact ⟨r, heq⟩

/-- `a :: l` is a walk along computed lines only: each step has a line, and every (parallel) line of the
    step is a computed line -/
def ComputedWalk (g : G) : Nat → List Nat → Prop
  | _, [] => True
  | a, b :: rest => (Line g a b ∧ OnlyComputed g a b) ∧ ComputedWalk g b rest

theorem computedWalk_of_pairwise (g : G) : ∀ (l : List Nat) (a : Nat), Walk g a l →
    (a :: l).Pairwise (OnlyComputed g) → ComputedWalk g a l
  | [], _, _, _ => trivial
  | b :: rest, a, hw, hp => by
    obtain ⟨h1, h2⟩ := List.pairwise_cons.1 hp
    exact ⟨⟨hw.1, h1 b (by simp)⟩, computedWalk_of_pairwise g rest b hw.2 h2⟩

/-- the compile-time flag is only set when a cycle over two or more nodes runs along computed lines only -/
theorem compile_flag_computed_walk (g : G) (r : Bool) (h : cycleFlags g = some (true, r)) :
    ∃ s mid, mid ≠ [] ∧ (s :: mid).Nodup ∧ ComputedWalk g s (mid ++ [s]) := by
  obtain ⟨c, ⟨s, mid, rfl, hnd, hw, _⟩, hl, hp⟩ := compile_flag_sound g r h
  refine ⟨s, mid, ?_, hnd, computedWalk_of_pairwise g _ s hw hp⟩
  rintro rfl
  simp at hl

end FgaVerif.Model.PGraph
