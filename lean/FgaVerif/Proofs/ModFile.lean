import FgaVerif.Model.ModFile
/-! Helper lemmas for C15: the executable byte-string tests are the standard list relations. -/
namespace FgaVerif.Model.ModFile

theorem isPrefixB_iff (p s : Bytes) : isPrefixB p s = true ↔ p <+: s := by
  induction p generalizing s with
  | nil => simp [isPrefixB]
  | cons a p ih =>
    cases s with
    | nil => simp [isPrefixB]
    | cons c s =>
      simp only [isPrefixB, Bool.and_eq_true, beq_iff_eq, ih]
      constructor
      · rintro ⟨rfl, h⟩
        exact (List.cons_prefix_cons).2 ⟨rfl, h⟩
      · intro h
        have := (List.cons_prefix_cons).1 h
        exact ⟨this.1, this.2⟩

theorem containsB_iff (p s : Bytes) : containsB p s = true ↔ p <:+: s := by
  induction s with
  | nil =>
    simp only [containsB, List.isEmpty_iff]
    constructor
    · rintro rfl; exact List.nil_infix
    · intro h; exact List.eq_nil_of_infix_nil h
  | cons c s ih =>
    simp only [containsB, Bool.or_eq_true, isPrefixB_iff, ih]
    constructor
    · rintro (h | h)
      · exact h.isInfix
      · exact h.trans (List.infix_cons (List.infix_refl s))
    · intro h
      rcases List.infix_cons_iff.1 h with h | h
      · exact Or.inl h
      · exact Or.inr h

theorem hasSuffixB_iff (suf s : Bytes) : hasSuffixB suf s = true ↔ suf <:+ s := by
  unfold hasSuffixB
  rw [isPrefixB_iff, List.reverse_prefix]

theorem normalize_no_backslash (s : Bytes) : (92 : UInt8) ∉ normalize s := by
  unfold normalize
  intro h
  rw [List.mem_map] at h
  obtain ⟨c, _, hc⟩ := h
  by_cases h92 : c = 92
  · subst h92; simp at hc
  · have : (c == 92) = false := by simpa using h92
    simp only [this] at hc
    exact h92 (by simpa using hc)

theorem normalize_id (s : Bytes) (h : (92 : UInt8) ∉ s) : normalize s = s := by
  unfold normalize
  induction s with
  | nil => rfl
  | cons c s ih =>
    have hc : c ≠ 92 := fun e => h (by simp [e])
    have hs : (92 : UInt8) ∉ s := fun e => h (by simp [e])
    have ih' := ih hs
    simp only [List.map_cons, ih']
    have : (c == 92) = false := by simpa using hc
    simp [this]

theorem queryUnescape_cons_plain (c : UInt8) (s : Bytes) (h37 : c ≠ 37) (h43 : c ≠ 43) :
    queryUnescape (c :: s) = (queryUnescape s).map (c :: ·) := by
  rw [queryUnescape.eq_def]
  split
  · rename_i heq; cases heq
  · rename_i heq; cases heq; exact absurd rfl h37
  · rename_i heq; cases heq; exact absurd rfl h37
  · rename_i heq; cases heq; exact absurd rfl h43
  · rename_i heq; cases heq; rfl

theorem queryUnescape_id (s : Bytes) (h37 : (37 : UInt8) ∉ s) (h43 : (43 : UInt8) ∉ s) :
    queryUnescape s = some s := by
  induction s with
  | nil => rfl
  | cons c s ih =>
    have hc37 : c ≠ 37 := fun e => h37 (by simp [e])
    have hc43 : c ≠ 43 := fun e => h43 (by simp [e])
    have ih' := ih (fun e => h37 (by simp [e])) (fun e => h43 (by simp [e]))
    rw [queryUnescape_cons_plain c s hc37 hc43, ih']
    rfl

end FgaVerif.Model.ModFile
