import FgaVerif.Proofs.MergeValues
/-! Attribution of *relations* through the merger: the relation metadata (module, file, type
    restrictions) that relation `k` of type `n` carries in the result is the one its declaration
    carried — of the base definition unchanged, of an extension with the extending file's name
    recorded. -/
namespace FgaVerif.Model.Merge
open FgaVerif.Model FgaVerif.Model.Listener

def withFile (file : String) (rm : RelMeta) : RelMeta := { rm with file := file }

/-- the relation metadata currently recorded for relation `k` of the collected type `n` -/
def metaNow (R : List TypeDef) (n k : String) : Option RelMeta :=
  match R.find? (fun t => t.name == n) with
  | some t => AList.find? k (relMetaOf t)
  | none => none

theorem find?_setRelFiles (file : String) (k : String) : ∀ (m : List (String × RelMeta)),
    AList.find? k (setRelFiles file m) = (AList.find? k m).map (withFile file)
  | [] => rfl
  | (k', v) :: rest => by
    have ih := find?_setRelFiles file k rest
    unfold setRelFiles at ih ⊢
    simp only [List.map_cons, AList.find?]
    by_cases hk : (k == k') = true
    · simp [hk, withFile]
    · have hk' : (k == k') = false := by simpa using hk
      simp only [hk', Bool.false_eq_true, if_false]
      exact ih

/-- relation metadata after `addRelations`: a new name gets the extension's metadata with the file
    recorded, an old name keeps its metadata -/
theorem addRelations_meta (file : String) (lines : List (List Char)) (existing : List String) (ext : TypeDef) :
    ∀ (rels : List (String × Userset)) (orig : TypeDef) (errs : List MergeErr),
      (∀ kv ∈ rels, (AList.find? kv.1 (relMetaOf ext)).isSome = true) → orig.md.isSome = true →
      (rels.map (·.1)).Nodup →
      ∃ orig' E, addRelations file lines existing ext rels orig errs = .ok (orig', errs ++ E) ∧
        ∀ k, AList.find? k (relMetaOf orig') =
          (if k ∈ rels.map (·.1) ∧ k ∉ existing then (AList.find? k (relMetaOf ext)).map (withFile file)
           else AList.find? k (relMetaOf orig))
  | [], orig, errs, _, _, _ => ⟨orig, [], by simp [addRelations], fun k => by simp⟩
  | (name, rel) :: rest, orig, errs, hwf, hmd, hnd => by
    simp only [List.map_cons, List.nodup_cons] at hnd
    simp only [addRelations]
    by_cases hc : existing.contains name = true
    · simp only [hc, if_true]
      obtain ⟨orig', E, h1, h2⟩ := addRelations_meta file lines existing ext rest orig
        (errs ++ [.mod ("relation " ++ name ++ " already exists on type " ++ ext.name) file
          (constructLineAndColumnData lines (lineWithPrefix ("define " ++ name) lines) name)])
        (fun kv hkv => hwf kv (by simp [hkv])) hmd hnd.2
      refine ⟨orig', (.mod ("relation " ++ name ++ " already exists on type " ++ ext.name) file
          (constructLineAndColumnData lines (lineWithPrefix ("define " ++ name) lines) name)) :: E, by rw [h1]; simp, ?_⟩
      intro k
      rw [h2 k]
      simp only [List.map_cons, List.mem_cons]
      by_cases hk : k = name
      · subst hk
        have hex : k ∈ existing := by simpa using hc
        have hnr : k ∉ rest.map (·.1) := hnd.1
        simp [hex, hnr]
      · simp only [hk, false_or]
    · have hc' : existing.contains name = false := by simpa using hc
      simp only [hc', Bool.false_eq_true, if_false]
      have hw := hwf (name, rel) (by simp)
      simp only at hw
      cases hrm : AList.find? name (relMetaOf ext) with
      | none => simp [hrm] at hw
      | some rm =>
        simp only
        cases hom : orig.md with
        | none => simp [hom] at hmd
        | some om =>
          simp only
          obtain ⟨orig', E, h1, h2⟩ := addRelations_meta file lines existing ext rest
            { orig with relations := AList.insert name rel orig.relations,
                        md := some { om with relations := AList.insert name { rm with file := file } om.relations } }
            errs (fun kv hkv => hwf kv (by simp [hkv])) rfl hnd.2
          refine ⟨orig', E, h1, ?_⟩
          intro k
          rw [h2 k]
          have hrel : relMetaOf orig = om.relations := by simp [relMetaOf, hom]
          have hnew : relMetaOf { orig with relations := AList.insert name rel orig.relations, md := some { om with relations := AList.insert name { rm with file := file } om.relations } } = AList.insert name { rm with file := file } om.relations := rfl
          rw [hnew, hrel, find?_insert]
          simp only [List.map_cons, List.mem_cons]
          by_cases hk : k = name
          · subst hk
            have hnex : k ∉ existing := by simpa using hc'
            have hnr : k ∉ rest.map (·.1) := hnd.1
            simp [hnex, hnr, hrm, withFile]
          · have hk' : (k == name) = false := by simpa using hk
            simp only [hk', Bool.false_eq_true, if_false, hk, false_or]

/-- relation metadata after one extension that raised no error -/
theorem applyExtension_meta (file : String) (lines : List (List Char)) (ext : TypeDef) (st : MState)
    (hR : ∀ t ∈ st.rawTypeDefs, t.md.isSome = true) (hwf : ExtWF ext) (hnd : (AList.keys ext.relations).Nodup)
    (hname : ext.name ∈ st.rawTypeDefs.map (·.name))
    (hclean : ∀ k ∈ AList.keys ext.relations, k ∉ curKeys st.rawTypeDefs ext.name) :
    ∃ st', applyExtension file lines ext st = .ok st' ∧
      ∀ n k,
        (n = ext.name ∧ k ∈ AList.keys ext.relations →
          metaNow st'.rawTypeDefs n k = (AList.find? k (relMetaOf ext)).map (withFile file)) ∧
        (¬ (n = ext.name ∧ k ∈ AList.keys ext.relations) → (valNow st'.rawTypeDefs n k).isSome = true →
          metaNow st'.rawTypeDefs n k = metaNow st.rawTypeDefs n k) := by
  unfold applyExtension
  cases hidx : st.rawTypeDefs.findIdx? (fun t => t.name == ext.name) with
  | none =>
    exact absurd hname (find?_none_not_mem _ _ (findIdx?_none_find? _ _ hidx))
  | some i =>
    obtain ⟨x, hx⟩ := findIdx?_some_get _ _ _ hidx
    simp only [hx]
    have hxmem : x ∈ st.rawTypeDefs := List.mem_of_getElem? hx
    have hfind : st.rawTypeDefs.find? (fun t => t.name == ext.name) = some x :=
      (findIdx?_set (fun t => t.name == ext.name) id _ i x hidx hx).2.2
    have hxname : x.name = ext.name := by
      obtain ⟨_, hp, _⟩ := findIdx?_set (fun t => t.name == ext.name) id _ i x hidx hx
      simpa using hp
    have hcur : curKeys st.rawTypeDefs ext.name = AList.keys x.relations := by simp [curKeys, hfind]
    by_cases hemp : x.relations.isEmpty = true
    · simp only [hemp, if_true]
      let f : TypeDef → TypeDef := fun o =>
        { o with relations := ext.relations, md := some { (o.md.getD {}) with relations := setRelFiles file (relMetaOf ext) } }
      have hset := (findIdx?_set (fun t => t.name == ext.name) f _ i x hidx hx).1
      have hf : ∀ t, t.name = ext.name → (f t).name = t.name := fun t _ => rfl
      refine ⟨_, rfl, ?_⟩
      intro n k
      show (_ → metaNow (replaceAt st.rawTypeDefs i (f x)) n k = _) ∧
        (_ → (valNow (replaceAt st.rawTypeDefs i (f x)) n k).isSome = true → metaNow (replaceAt st.rawTypeDefs i (f x)) n k = _)
      unfold replaceAt; rw [hset]
      by_cases hn : n = ext.name
      · subst hn
        have hm : metaNow (updFirst (fun t => t.name == ext.name) f st.rawTypeDefs) ext.name k =
            (AList.find? k (relMetaOf ext)).map (withFile file) := by
          unfold metaNow
          rw [find?_updFirst_same _ f hf _ x hfind]
          show AList.find? k (setRelFiles file (relMetaOf ext)) = _
          exact find?_setRelFiles file k _
        refine ⟨fun _ => hm, ?_⟩
        intro hnot hsome
        exfalso
        unfold valNow at hsome
        rw [find?_updFirst_same _ f hf _ x hfind] at hsome
        have hsome' : (AList.find? k ext.relations).isSome = true := hsome
        exact hnot ⟨rfl, (find?_isSome_iff_mem_keys k _).1 hsome'⟩
      · refine ⟨fun h => absurd h.1 hn, ?_⟩
        intro _ _
        unfold metaNow
        rw [find?_updFirst_other _ n hn f hf]
    · simp only [hemp, Bool.false_eq_true, if_false]
      have hndr : (ext.relations.map (·.1)).Nodup := hnd
      obtain ⟨orig', E, h1, h2⟩ := addRelations_meta file lines (AList.keys x.relations) ext ext.relations x []
        hwf (hR x hxmem) hndr
      obtain ⟨orig'', E', h1', _, h3, _, _⟩ := addRelations_spec file lines (AList.keys x.relations) ext ext.relations x []
        hwf (hR x hxmem)
      have heq : orig'' = orig' := by
        rw [h1] at h1'
        simp only [Except.ok.injEq, Prod.mk.injEq] at h1'
        exact h1'.1.symm
      subst heq
      rw [h1]
      simp only [List.nil_append]
      let f : TypeDef → TypeDef := fun _ => orig''
      have hset := (findIdx?_set (fun t => t.name == ext.name) f _ i x hidx hx).1
      have hf : ∀ t, t.name = ext.name → (f t).name = t.name := fun t ht => by
        show orig''.name = t.name; rw [h3, hxname, ht]
      refine ⟨_, rfl, ?_⟩
      intro n k
      show (_ → metaNow (replaceAt st.rawTypeDefs i (f x)) n k = _) ∧
        (_ → (valNow (replaceAt st.rawTypeDefs i (f x)) n k).isSome = true → metaNow (replaceAt st.rawTypeDefs i (f x)) n k = _)
      unfold replaceAt; rw [hset]
      by_cases hn : n = ext.name
      · subst hn
        have hm : metaNow (updFirst (fun t => t.name == ext.name) f st.rawTypeDefs) ext.name k =
            AList.find? k (relMetaOf orig'') := by
          unfold metaNow
          rw [find?_updFirst_same _ f hf _ x hfind]
        have hold : metaNow st.rawTypeDefs ext.name k = AList.find? k (relMetaOf x) := by
          unfold metaNow; rw [hfind]
        constructor
        · rintro ⟨_, hk⟩
          rw [hm, h2 k]
          have hk1 : k ∈ ext.relations.map (·.1) := hk
          have hk2 : k ∉ AList.keys x.relations := by rw [← hcur]; exact hclean k hk
          simp [hk1, hk2]
        · intro hnot _
          rw [hm, h2 k, hold]
          have hk1 : k ∉ ext.relations.map (·.1) := fun hk => hnot ⟨rfl, hk⟩
          simp [hk1]
      · refine ⟨fun h => absurd h.1 hn, ?_⟩
        intro _ _
        unfold metaNow
        rw [find?_updFirst_other _ n hn f hf]

/-! ### the invariant through the second loop -/

/-- where the metadata of relation `k` of type `n` may come from: a base definition in `B`, or an
    extension `e` applied under file name `file`, for a pair `(file, e)` in `P` -/
def RelSrc (B : List TypeDef) (P : List (String × TypeDef)) (n k : String) (rm' : RelMeta) : Prop :=
  (∃ d ∈ B, d.name = n ∧ AList.find? k (relMetaOf d) = some rm') ∨
  (∃ p ∈ P, p.2.name = n ∧ k ∈ AList.keys p.2.relations ∧
    ∃ rm, AList.find? k (relMetaOf p.2) = some rm ∧ rm' = withFile p.1 rm)

theorem RelSrc.mono {B : List TypeDef} {P P' : List (String × TypeDef)} (h : ∀ p ∈ P, p ∈ P') {n k : String} {rm' : RelMeta}
    (hs : RelSrc B P n k rm') : RelSrc B P' n k rm' := by
  rcases hs with hb | ⟨p, hp, rest⟩
  · exact Or.inl hb
  · exact Or.inr ⟨p, h p hp, rest⟩

/-- every relation that exists has metadata, and it comes from its declaration -/
def AttrInv (B : List TypeDef) (P : List (String × TypeDef)) (R : List TypeDef) : Prop :=
  ∀ n k, (valNow R n k).isSome = true → ∃ rm', metaNow R n k = some rm' ∧ RelSrc B P n k rm'

theorem applyExtensions_relattr (B : List TypeDef) (file : String) (lines : List (List Char)) :
    ∀ (exts : List TypeDef) (P : List (String × TypeDef)) (st : MState) (K : String → String → Prop),
      (∀ t ∈ st.rawTypeDefs, t.md.isSome = true) →
      (∀ e ∈ exts, ExtWF e ∧ (AList.keys e.relations).Nodup) →
      (∀ n k, k ∈ curKeys st.rawTypeDefs n ↔ K n k) →
      extsClean (st.rawTypeDefs.map (·.name)) exts K →
      AttrInv B P st.rawTypeDefs →
      ∃ st', applyExtensions file lines exts st = .ok st' ∧
        AttrInv B (P ++ exts.map (fun e => (file, e))) st'.rawTypeDefs
  | [], P, st, K, _, _, _, _, hinv => ⟨st, rfl, by simpa using hinv⟩
  | e :: rest, P, st, K, hR, hwf, hK, hcl, hinv => by
    simp only [extsClean] at hcl
    obtain ⟨⟨hn, hclk⟩, hrest⟩ := hcl
    have hclean : ∀ k ∈ AList.keys e.relations, k ∉ curKeys st.rawTypeDefs e.name :=
      fun k hk hc => hclk k hk ((hK _ _).1 hc)
    obtain ⟨st1, E1, h1, _, _, _, _, h6, h7, h8, h9⟩ :=
      applyExtension_spec file lines e st hR (hwf e (by simp)).1
    have hE1 : E1 = [] := h8.2 ⟨hn, hclean⟩
    obtain ⟨st1v, g1, g2⟩ := applyExtension_values file lines e st hR (hwf e (by simp)).1 (hwf e (by simp)).2 hn hclean
    obtain ⟨st1', m1, m2⟩ := applyExtension_meta file lines e st hR (hwf e (by simp)).1 (hwf e (by simp)).2 hn hclean
    have e1 : st1v = st1 := by rw [h1] at g1; simp only [Except.ok.injEq] at g1; exact g1.symm
    have e2 : st1' = st1 := by rw [h1] at m1; simp only [Except.ok.injEq] at m1; exact m1.symm
    subst e1; subst e2
    have hK1 : ∀ n k, k ∈ curKeys st1'.rawTypeDefs n ↔ (K n k ∨ (n = e.name ∧ k ∈ AList.keys e.relations)) := by
      intro n k; rw [h9 hE1 n k, hK n k]
    have hinv1 : AttrInv B (P ++ [(file, e)]) st1'.rawTypeDefs := by
      intro n k hsome
      by_cases hc : n = e.name ∧ k ∈ AList.keys e.relations
      · have hm := (m2 n k).1 hc
        have hw := (hwf e (by simp)).1
        obtain ⟨kv, hkv, hkk⟩ := List.mem_map.1 hc.2
        have hs := hw kv hkv
        rw [hkk] at hs
        obtain ⟨rm, hrm⟩ := Option.isSome_iff_exists.1 hs
        refine ⟨withFile file rm, by rw [hm, hrm]; rfl, Or.inr ⟨(file, e), by simp, hc.1.symm, hc.2, rm, hrm, rfl⟩⟩
      · have hv : valNow st1'.rawTypeDefs n k = valNow st.rawTypeDefs n k := by rw [g2 n k]; simp [hc]
        obtain ⟨rm', hrm', hsrc⟩ := hinv n k (by rw [← hv]; exact hsome)
        refine ⟨rm', by rw [(m2 n k).2 hc hsome]; exact hrm', hsrc.mono (fun p hp => by simp [hp])⟩
    obtain ⟨st2, f1, f2⟩ := applyExtensions_relattr B file lines rest (P ++ [(file, e)]) st1' _ h7
      (fun e' he' => hwf e' (by simp [he'])) hK1 (by rw [h6]; exact hrest) hinv1
    refine ⟨st2, by simp only [applyExtensions, h1, f1], ?_⟩
    simpa [List.append_assoc] using f2

theorem applyAll_relattr (B : List TypeDef) :
    ∀ (xs : List (String × List TypeDef)) (P : List (String × TypeDef)) (st : MState) (K : String → String → Prop),
      (∀ t ∈ st.rawTypeDefs, t.md.isSome = true) →
      (∀ x ∈ xs, ∀ e ∈ x.2, ExtWF e ∧ (AList.keys e.relations).Nodup) →
      (∀ n k, k ∈ curKeys st.rawTypeDefs n ↔ K n k) →
      extsClean (st.rawTypeDefs.map (·.name)) (xs.flatMap (·.2)) K →
      AttrInv B P st.rawTypeDefs →
      ∃ st', applyAll xs st = .ok st' ∧
        AttrInv B (P ++ xs.flatMap (fun x => x.2.map (fun e => (x.1, e)))) st'.rawTypeDefs
  | [], P, st, K, _, _, _, _, hinv => ⟨st, rfl, by simpa using hinv⟩
  | (file, exts) :: rest, P, st, K, hR, hwf, hK, hcl, hinv => by
    simp only [List.flatMap_cons] at hcl
    rw [extsClean_append] at hcl
    obtain ⟨st1, f1, _, f3, f4, _, _, f7⟩ := applyExtensions_values file ((AList.find? file st.moduleFiles).getD []) exts st K hR
      (fun e he => hwf (file, exts) (by simp) e he) hK hcl.1
    obtain ⟨st1', a1, a2⟩ := applyExtensions_relattr B file ((AList.find? file st.moduleFiles).getD []) exts P st K hR
      (fun e he => hwf (file, exts) (by simp) e he) hK hcl.1 hinv
    have e1 : st1' = st1 := by rw [f1] at a1; simp only [Except.ok.injEq] at a1; exact a1.symm
    subst e1
    obtain ⟨st2, g1, g2⟩ := applyAll_relattr B rest _ st1' (keysAfter exts K) f3
      (fun x hx => hwf x (by simp [hx])) f7 (by rw [f4]; exact hcl.2) a2
    refine ⟨st2, by simp only [applyAll, f1, g1], ?_⟩
    simpa [List.flatMap_cons, List.append_assoc] using g2

/-! ### which file an extension is registered under -/

theorem mem_insert {α : Type} (k : String) (v : α) : ∀ (m : List (String × α)) (x : String × α),
    x ∈ AList.insert k v m → x = (k, v) ∨ x ∈ m
  | [], x, h => by simp only [AList.insert, List.mem_singleton] at h; exact Or.inl h
  | (k', v') :: rest, x, h => by
    simp only [AList.insert] at h
    split at h
    · rcases List.mem_cons.1 h with h | h
      · exact Or.inl h
      · exact Or.inr (List.mem_cons_of_mem _ h)
    · split at h
      · rcases List.mem_cons.1 h with h | h
        · exact Or.inl h
        · exact Or.inr h
      · rcases List.mem_cons.1 h with h | h
        · exact Or.inr (by rw [h]; exact List.mem_cons_self ..)
        · rcases mem_insert k v rest x h with h | h
          · exact Or.inl h
          · exact Or.inr (List.mem_cons_of_mem _ h)

theorem find?_some_mem {α : Type} (k : String) (v : α) : ∀ (m : List (String × α)), AList.find? k m = some v → (k, v) ∈ m
  | [], h => by simp [AList.find?] at h
  | (k', v') :: rest, h => by
    simp only [AList.find?] at h
    by_cases hk : (k == k') = true
    · have : k = k' := by simpa using hk
      subst this
      simp only [beq_self_eq_true, if_true, Option.some.injEq] at h
      subst h; exact List.mem_cons_self ..
    · have hk' : (k == k') = false := by simpa using hk
      simp only [hk', Bool.false_eq_true, if_false] at h
      exact List.mem_cons_of_mem _ (find?_some_mem k v rest h)

/-- an extension definition registered under a file name was already registered under it, or is one
    of the extension definitions of the file being collected -/
theorem collectTypes_extended_src (file : String) (lines : List (List Char)) (exts : Option (List (String × Nat))) :
    ∀ (tds : List TypeDef) (i : Nat) (st : MState),
      ∀ x ∈ (collectTypes file lines exts tds i st).extended, ∀ e ∈ x.2,
        (∃ x0 ∈ st.extended, x0.1 = x.1 ∧ e ∈ x0.2) ∨ (x.1 = file ∧ e ∈ extDefs exts tds i)
  | [], i, st, x, hx, e, he => by
    simp only [collectTypes] at hx
    exact Or.inl ⟨x, hx, rfl, he⟩
  | td :: rest, i, st, x, hx, e, he => by
    simp only [collectTypes, extDefs] at hx ⊢
    by_cases hext : isExtensionAt exts td.name i = true
    · simp only [hext, Bool.not_true, Bool.and_false, Bool.false_eq_true, if_false, if_true] at hx ⊢
      rcases collectTypes_extended_src file lines exts rest (i + 1) _ x hx e he with ⟨x0, hx0, hname, hmem⟩ | ⟨h1, h2⟩
      · simp only at hx0
        rcases mem_insert file _ st.extended x0 hx0 with heq | hin
        · subst heq
          simp only at hname hmem
          rcases List.mem_append.1 hmem with hold | hnew
          · cases hfo : AList.find? file st.extended with
            | none => rw [hfo] at hold; simp at hold
            | some v =>
              rw [hfo] at hold
              simp only [Option.getD_some] at hold
              exact Or.inl ⟨(file, v), find?_some_mem file v _ hfo, hname, hold⟩
          · simp only [List.mem_singleton] at hnew
            exact Or.inr ⟨hname.symm, by rw [hnew]; exact List.mem_cons_self ..⟩
        · exact Or.inl ⟨x0, hin, hname, hmem⟩
      · exact Or.inr ⟨h1, List.mem_cons_of_mem _ h2⟩
    · have hext' : isExtensionAt exts td.name i = false := by simpa using hext
      simp only [hext', Bool.not_false, Bool.and_true, Bool.false_eq_true, if_false] at hx ⊢
      split at hx
      · exact collectTypes_extended_src file lines exts rest (i + 1) _ x hx e he
      · split at hx
        · exact collectTypes_extended_src file lines exts rest (i + 1) _ x hx e he
        · exact collectTypes_extended_src file lines exts rest (i + 1) _ x hx e he

theorem collectConds_extended (file : String) (lines : List (List Char)) :
    ∀ (cs : List (String × Condition)) (st : MState), (collectConds file lines cs st).extended = st.extended
  | [], _ => rfl
  | (name, c) :: rest, st => by
    simp only [collectConds]
    split
    · exact collectConds_extended file lines rest _
    · split
      · exact collectConds_extended file lines rest _
      · exact collectConds_extended file lines rest _

theorem collect_extended_src :
    ∀ (fs : List FileIn) (st r : MState), collect fs st = .ok r →
      ∀ x ∈ r.extended, ∀ e ∈ x.2,
        (∃ x0 ∈ st.extended, x0.1 = x.1 ∧ e ∈ x0.2) ∨ (∃ f ∈ fs, f.name = x.1 ∧ e ∈ fileExtDefs f)
  | [], st, r, h, x, hx, e, he => by
    simp only [collect, Except.ok.injEq] at h; subst h
    exact Or.inl ⟨x, hx, rfl, he⟩
  | f :: rest, st, r, h, x, hx, e, he => by
    simp only [collect] at h
    split at h
    · cases h
    · rcases collect_extended_src rest _ r h x hx e he with h1 | ⟨f', hf', r'⟩
      · exact Or.inl h1
      · exact Or.inr ⟨f', by simp [hf'], r'⟩
    · rename_i mdl exts hout
      rcases collect_extended_src rest _ r h x hx e he with ⟨x0, hx0, hn0, hm0⟩ | ⟨f', hf', r'⟩
      · rw [collectConds_extended] at hx0
        rcases collectTypes_extended_src f.name (splitLines f.contents) exts mdl.types 0 _ x0 hx0 e hm0 with
          ⟨x1, hx1, hn1, hm1⟩ | ⟨h1, h2⟩
        · exact Or.inl ⟨x1, hx1, hn1.trans hn0, hm1⟩
        · exact Or.inr ⟨f, by simp, h1.symm.trans hn0, by simp only [fileExtDefs, hout]; exact h2⟩
      · exact Or.inr ⟨f', by simp [hf'], r'⟩

end FgaVerif.Model.Merge
