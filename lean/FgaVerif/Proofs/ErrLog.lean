import FgaVerif.Model.Listener
/-! The listener's error log only ever grows: no callback removes an entry.  Hence an error raised
    anywhere in the walk — at whatever position and nesting depth — is still in the log when the
    walk ends, and the transform returns no model. -/
namespace FgaVerif.Model.Listener
open FgaVerif.Model

/-- `f` only appends to the error log -/
def Grows (f : LState → R) : Prop := ∀ st st', f st = .ok st' → ∃ l, st'.errors = st.errors ++ l

theorem grows_ok : Grows (fun st => .ok st) := by
  intro st st' h; cases h; exact ⟨[], by simp⟩

theorem notify_errors (st : LState) (msg : String) (t : Tree) :
    (notify st msg t).errors = st.errors ++ [⟨t.startPos.1, t.startPos.2, msg⟩] := by
  simp [notify]

theorem withRelation_errors (st st' : LState) (w : String) (f) (h : withRelation st w f = .ok st') :
    st'.errors = st.errors := by
  unfold withRelation at h
  split at h
  · cases h
  · cases h; rfl

/-- closing tactic: after unfolding a callback and splitting, each branch is `.ok` of a state whose
    log is the old one, possibly after a `notify` -/
macro "grows_close" : tactic =>
  `(tactic| (first
      | exact ⟨[], by simp⟩
      | exact ⟨_, rfl⟩
      | (split <;> first | exact ⟨[], by simp⟩ | exact ⟨_, rfl⟩)
      | (split <;> split <;> first | exact ⟨[], by simp⟩ | exact ⟨_, rfl⟩)))

macro "grows_tac" : tactic =>
  `(tactic| (intro st st' h; simp only [] at h;
             repeat' split at h;
             all_goals (first
               | (cases h; done)
               | (cases h; grows_close)
               | (exact ⟨[], by simp [withRelation_errors _ _ _ _ h]⟩))))

theorem grows_enterMain : Grows enterMain := by unfold enterMain; grows_tac
theorem grows_enterConditions : Grows enterConditions := by unfold enterConditions; grows_tac
theorem grows_exitModuleHeader (c) : Grows (exitModuleHeader c) := by unfold exitModuleHeader; grows_tac
theorem grows_exitModelHeader (c) : Grows (exitModelHeader c) := by unfold exitModelHeader; grows_tac
theorem grows_exitCondition : Grows exitCondition := by unfold exitCondition; grows_tac
theorem grows_enterRelationDeclaration : Grows enterRelationDeclaration := by
  unfold enterRelationDeclaration; grows_tac
theorem grows_exitRelationRecurse : Grows exitRelationRecurse := by unfold exitRelationRecurse; grows_tac
theorem grows_enterRelationRecurseNoDirect : Grows enterRelationRecurseNoDirect := by
  unfold enterRelationRecurseNoDirect; grows_tac
theorem grows_exitRelationRecurseNoDirect : Grows exitRelationRecurseNoDirect := by
  unfold exitRelationRecurseNoDirect; grows_tac
theorem grows_enterDirect : Grows enterRelationDefDirectAssignment := by
  unfold enterRelationDefDirectAssignment; grows_tac
theorem grows_exitDirect : Grows exitRelationDefDirectAssignment := by
  unfold exitRelationDefDirectAssignment; grows_tac
theorem grows_exitRestriction (c) : Grows (exitRelationDefTypeRestriction c) := by
  unfold exitRelationDefTypeRestriction; grows_tac
theorem grows_exitRewrite (c) : Grows (exitRelationDefRewrite c) := by unfold exitRelationDefRewrite; grows_tac
theorem grows_enterPartials (c) : Grows (enterRelationDefPartials c) := by unfold enterRelationDefPartials; grows_tac
theorem grows_exitConditionExpression (c) : Grows (exitConditionExpression c) := by
  unfold exitConditionExpression; grows_tac

theorem ex_or (st : LState) (b : Bool) (msg : String) (t : Tree) :
    ∃ l, (if b then notify st msg t else st).errors = st.errors ++ l := by
  cases b
  · exact ⟨[], by simp⟩
  · exact ⟨_, rfl⟩

theorem grows_enterTypeDef (c) : Grows (enterTypeDef c) := by
  intro st st' h
  unfold enterTypeDef at h
  split at h
  · cases h; exact ⟨[], by simp⟩
  · cases h
    exact ex_or st _ _ _

theorem grows_enterCondition (c) : Grows (enterCondition c) := by
  intro st st' h
  unfold enterCondition at h
  split at h
  · cases h; exact ⟨[], by simp⟩
  · cases h
    exact ex_or st _ _ _

theorem grows_exitConditionParameter (c) : Grows (exitConditionParameter c) := by
  intro st st' h
  unfold exitConditionParameter at h
  split at h
  · simp only at h
    split at h
    · cases h
    · cases h
      exact ex_or st _ _ _
  · cases h; exact ⟨[], by simp⟩

theorem grows_exitTypeDef (c) : Grows (exitTypeDef c) := by
  intro st st' h
  unfold exitTypeDef at h
  simp only at h
  repeat' split at h
  all_goals first
    | (cases h; done)
    | (cases h; first | (refine ⟨[], ?_⟩; simp; done) | exact ⟨_, rfl⟩)

theorem grows_exitRelationDeclaration (c pe) : Grows (exitRelationDeclaration c pe) := by
  intro st st' h
  unfold exitRelationDeclaration at h
  split at h
  · cases h; exact ⟨[], by simp⟩
  · split at h
    · cases h
    · split at h
      · cases h; exact ⟨[], by simp⟩
      · simp only at h
        split at h
        · cases h
        · split at h
          · cases h
          · cases h
            exact ex_or st _ _ _

theorem grows_enterRule (name : String) (c : Tree) : Grows (enterRule name c) := by
  unfold enterRule
  split
  · exact grows_enterMain
  · exact grows_enterTypeDef c
  · exact grows_enterConditions
  · exact grows_enterCondition c
  · exact grows_enterRelationDeclaration
  · exact grows_enterDirect
  · exact grows_enterRelationRecurseNoDirect
  · exact grows_enterPartials c
  · exact grows_ok

theorem grows_exitRule (name : String) (c : Tree) (pe) : Grows (exitRule name c pe) := by
  unfold exitRule
  split
  · exact grows_exitModuleHeader c
  · exact grows_exitModelHeader c
  · exact grows_exitConditionParameter c
  · exact grows_exitConditionExpression c
  · exact grows_exitCondition
  · exact grows_exitTypeDef c
  · exact grows_exitRelationDeclaration c pe
  · exact grows_exitDirect
  · exact grows_exitRestriction c
  · exact grows_exitRewrite c
  · exact grows_exitRelationRecurse
  · exact grows_exitRelationRecurseNoDirect
  · exact grows_ok

mutual
  /-- **for every tree** (any shape, including error-recovered ones): the walk only appends to the log -/
  theorem walk_grows (pe) : (t : Tree) → Grows (walk pe t)
    | .tok _ _ _ _ _ => by intro st st' h; simp only [walk] at h; cases h; exact ⟨[], by simp⟩
    | .rule name sl sc ls cs => by
      intro st st' h
      rw [walk] at h
      simp only at h
      split at h
      · cases h
      · rename_i st1 h1
        split at h
        · cases h
        · rename_i st2 h2
          obtain ⟨l1, e1⟩ := grows_enterRule name _ st st1 h1
          obtain ⟨l2, e2⟩ := walkL_grows _ cs st1 st2 h2
          obtain ⟨l3, e3⟩ := grows_exitRule name _ pe st2 st' h
          exact ⟨l1 ++ l2 ++ l3, by rw [e3, e2, e1]; simp⟩
  theorem walkL_grows (pe) : (ts : List Tree) → Grows (walkL pe ts)
    | [] => by intro st st' h; simp only [walkL] at h; cases h; exact ⟨[], by simp⟩
    | t :: ts => by
      intro st st' h
      simp only [walkL] at h
      split at h
      · cases h
      · rename_i st1 h1
        obtain ⟨l1, e1⟩ := walk_grows pe t st st1 h1
        obtain ⟨l2, e2⟩ := walkL_grows pe ts st1 st' h
        exact ⟨l1 ++ l2, by rw [e2, e1]; simp⟩
end

/-- a model is returned only if the log is empty at the end of the walk — and, since the log only
    grows, only if **no error was logged at any point of the walk** nor reported by ANTLR before it -/
theorem transform_ok_no_errors (antlrErrors : List SynErr) (t : Tree) (m : Model) (x) :
    transform antlrErrors t = .ok m x →
      antlrErrors = [] ∧ ∃ st, walk none t { errors := antlrErrors } = .ok st ∧ st.errors = [] := by
  intro h
  unfold transform at h
  split at h
  · cases h
  · rename_i st hw
    split at h
    · rename_i he
      have he' : st.errors = [] := by simpa using he
      obtain ⟨l, hl⟩ := walk_grows none t _ st hw
      rw [he'] at hl
      have : antlrErrors = [] := by
        have := congrArg List.length hl
        simp at this
        exact List.eq_nil_of_length_eq_zero (by omega)
      exact ⟨this, st, hw, he'⟩
    · cases h

end FgaVerif.Model.Listener
