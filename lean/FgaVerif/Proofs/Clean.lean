import FgaVerif.Model.Clean
/-! The comment pre-pass keeps every line a prefix of the input line with the same index and never adds
    lines: positions inside the cleaned text are positions inside the input. -/
namespace FgaVerif.Model.Clean

theorem splitLines_ne_nil (s : List Char) : splitLines s ≠ [] := by
  induction s with
  | nil => simp [splitLines]
  | cons c cs ih =>
    simp only [splitLines]
    split
    · simp
    · split <;> simp

theorem trimRight_prefix (x : Char) (s : List Char) : trimRight x s <+: s := by
  induction s with
  | nil => simp [trimRight]
  | cons c cs ih =>
    simp only [trimRight]
    split
    · split
      · exact List.nil_prefix
      · exact (List.cons_prefix_cons).2 ⟨rfl, List.nil_prefix⟩
    · rename_i r hr
      exact (List.cons_prefix_cons).2 ⟨rfl, ih⟩

theorem beforeSpaceHash_prefix (s : List Char) : beforeSpaceHash s <+: s := by
  induction s using beforeSpaceHash.induct with
  | case1 rest => simp [beforeSpaceHash]
  | case2 c cs hne ih =>
    rw [beforeSpaceHash]
    · exact (List.cons_prefix_cons).2 ⟨rfl, ih⟩
    · exact hne
  | case3 => simp [beforeSpaceHash]

theorem cleanLine_prefix (l : List Char) : cleanLine l <+: l := by
  unfold cleanLine
  split
  · exact List.nil_prefix
  · exact List.nil_prefix
  · exact (trimRight_prefix ' ' _).trans (beforeSpaceHash_prefix l)

/-- lines of a prefix: no more lines, and each one a prefix of the line with the same index -/
theorem splitLines_prefix (p j : List Char) (h : p <+: j) :
    (splitLines p).length ≤ (splitLines j).length ∧
    ∀ (i : Nat) (l : List Char), (splitLines p)[i]? = some l → ∃ l', (splitLines j)[i]? = some l' ∧ l <+: l' := by
  induction p generalizing j with
  | nil =>
    have hj := splitLines_ne_nil j
    cases hs : splitLines j with
    | nil => exact absurd hs hj
    | cons a as =>
      refine ⟨by simp [splitLines], ?_⟩
      intro i l hl
      cases i with
      | zero => simp [splitLines] at hl; subst hl; exact ⟨a, rfl, List.nil_prefix⟩
      | succ n => simp [splitLines] at hl
  | cons c p ih =>
    obtain ⟨r, rfl⟩ := h
    have ih' := ih (p ++ r) (List.prefix_append p r)
    have hp := splitLines_ne_nil p
    have hj := splitLines_ne_nil (p ++ r)
    simp only [List.cons_append, splitLines]
    cases hsp : splitLines p with
    | nil => exact absurd hsp hp
    | cons a as =>
      cases hsj : splitLines (p ++ r) with
      | nil => exact absurd hsj hj
      | cons b bs =>
        rw [hsp, hsj] at ih'
        obtain ⟨hlen, hpt⟩ := ih'
        obtain ⟨b0, hb0, hab⟩ := hpt 0 a rfl
        simp at hb0; subst hb0
        by_cases hc : c = '\n'
        · subst hc
          simp only [beq_self_eq_true, if_true, List.length_cons]
          refine ⟨by simp at hlen; omega, ?_⟩
          intro i l hl
          cases i with
          | zero => simp at hl; subst hl; exact ⟨[], rfl, List.nil_prefix⟩
          | succ n => exact hpt n l (by simpa using hl)
        · have hc' : (c == '\n') = false := by simpa using hc
          simp only [hc', Bool.false_eq_true, if_false, List.length_cons]
          refine ⟨by simpa using hlen, ?_⟩
          intro i l hl
          cases i with
          | zero =>
            simp at hl; subst hl
            exact ⟨c :: b, rfl, (List.cons_prefix_cons).2 ⟨rfl, hab⟩⟩
          | succ n =>
            obtain ⟨l', hl', hpre⟩ := hpt (n + 1) l (by simpa using hl)
            exact ⟨l', by simpa using hl', hpre⟩

theorem splitLines_no_newline (s : List Char) : ∀ l ∈ splitLines s, '\n' ∉ l := by
  induction s with
  | nil => simp [splitLines]
  | cons c cs ih =>
    have hne := splitLines_ne_nil cs
    simp only [splitLines]
    cases hs : splitLines cs with
    | nil => exact absurd hs hne
    | cons a as =>
      rw [hs] at ih
      by_cases hc : c = '\n'
      · subst hc
        simp only [beq_self_eq_true, if_true]
        intro l hl
        rcases List.mem_cons.1 hl with rfl | hl
        · simp
        · exact ih l hl
      · have hc' : (c == '\n') = false := by simpa using hc
        simp only [hc', Bool.false_eq_true, if_false]
        intro l hl
        rcases List.mem_cons.1 hl with rfl | hl
        · intro hm
          rcases List.mem_cons.1 hm with h | h
          · exact hc h.symm
          · exact ih a (by simp) h
        · exact ih l (by simp [hl])

theorem splitLines_single (l : List Char) (hl : '\n' ∉ l) : splitLines l = [l] := by
  induction l with
  | nil => simp [splitLines]
  | cons c cs ih =>
    have hc : c ≠ '\n' := fun e => hl (by simp [e])
    have hcs : '\n' ∉ cs := fun e => hl (by simp [e])
    simp [splitLines, ih hcs, hc]

theorem splitLines_line_append (l t : List Char) (hl : '\n' ∉ l) :
    splitLines (l ++ '\n' :: t) = l :: splitLines t := by
  induction l with
  | nil =>
    have hne := splitLines_ne_nil t
    cases hs : splitLines t with
    | nil => exact absurd hs hne
    | cons a as => simp [splitLines, hs]
  | cons c cs ih =>
    have hc : c ≠ '\n' := fun e => hl (by simp [e])
    have hcs : '\n' ∉ cs := fun e => hl (by simp [e])
    simp [splitLines, ih hcs, hc]

theorem splitLines_joinLines (ls : List (List Char)) (hne : ls ≠ []) (hnl : ∀ l ∈ ls, '\n' ∉ l) :
    splitLines (joinLines ls) = ls := by
  induction ls with
  | nil => exact absurd rfl hne
  | cons l rest ih =>
    have hl : '\n' ∉ l := hnl l (by simp)
    cases rest with
    | nil => simpa [joinLines] using splitLines_single l hl
    | cons l2 rest2 =>
      have ih' := ih (by simp) (fun l' hl' => hnl l' (by simp [hl']))
      simp only [joinLines]
      rw [splitLines_line_append l _ hl, ih']

end FgaVerif.Model.Clean
