import FgaVerif.Proofs.WeightsSem
/-! A walk with more hops than the graph has nodes passes twice through one node with a hop in
    between, so it can be pumped: "some walk has at least `|g|+1` hops" and "walks are unbounded" are
    the same thing.  (Pigeonhole over the sources of the hop edges.) -/
namespace FgaVerif.Spec.Weights

/-- a path between two nodes along which every node is reached by `T`, with its hop count -/
inductive Path (g : SGraph) (T : String) : String → String → Nat → Prop
  | nil (n : String) : Path g T n n 0
  | cons {n m x : String} {nd : Node} {e : Edge} {k : Nat} : nodeOf g n = some nd → HasType g T n → e ∈ nd.edges →
      e.dst = .node m → Path g T m x k → Path g T n x (k + (if e.hop then 1 else 0))

theorem Path.snoc {g : SGraph} {T n x m : String} {nd : Node} {e : Edge} {k : Nat} (hp : Path g T n x k)
    (hf : nodeOf g x = some nd) (hT : HasType g T x) (he : e ∈ nd.edges) (hd : e.dst = .node m) :
    Path g T n m (k + (if e.hop then 1 else 0)) := by
  induction hp with
  | nil n =>
    have := Path.cons hf hT he hd (Path.nil m)
    simpa using this
  | @cons n' m' x' nd' e' k' hf' hT' he' hd' _ ih =>
    have := Path.cons hf' hT' he' hd' (ih hf hT)
    have heq : k' + (if e.hop then 1 else 0) + (if e'.hop then 1 else 0) = k' + (if e'.hop then 1 else 0) + (if e.hop then 1 else 0) := by omega
    rw [heq] at this
    exact this

theorem Path.walk {g : SGraph} {T n x : String} {a b : Nat} (hp : Path g T n x a) (hw : Walk g T x b) :
    Walk g T n (b + a) := by
  induction hp with
  | nil n => simpa using hw
  | @cons n' m' x' nd' e' k' hf' hT' he' hd' _ ih =>
    have := Walk.step hf' hT' he' hd' (ih hw)
    have heq : b + k' + (if e'.hop then 1 else 0) = b + (k' + (if e'.hop then 1 else 0)) := by omega
    rw [heq] at this
    exact this

/-- `x` lies on a cycle with at least one hop, `n` reaches `x`, and `x` reaches the terminal type -/
def Pumpable (g : SGraph) (T n : String) : Prop :=
  ∃ x a c b, Path g T n x a ∧ Path g T x x c ∧ 1 ≤ c ∧ Walk g T x b

theorem pump_cycle {g : SGraph} {T x : String} {c b : Nat} (hc : Path g T x x c) (hw : Walk g T x b) :
    ∀ j : Nat, Walk g T x (b + j * c)
  | 0 => by simpa using hw
  | j+1 => by
    have := hc.walk (pump_cycle hc hw j)
    have heq : b + j * c + c = b + (j + 1) * c := by rw [Nat.add_mul]; omega
    rw [heq] at this
    exact this

theorem Pumpable.unbounded {g : SGraph} {T n : String} (h : Pumpable g T n) : ∀ K, ∃ k, K ≤ k ∧ Walk g T n k := by
  obtain ⟨x, a, c, b, hp, hc, h1, hw⟩ := h
  intro K
  refine ⟨b + K * c + a, ?_, hp.walk (pump_cycle hc hw K)⟩
  have : K ≤ K * c := Nat.le_mul_of_pos_right K h1
  omega

theorem name_mem_of_nodeOf {g : SGraph} {n : String} {nd : Node} (h : nodeOf g n = some nd) :
    n ∈ g.map (·.name) := by
  unfold nodeOf at h
  have h1 := List.mem_of_find?_eq_some h
  have h2 := List.find?_some h
  have : nd.name = n := by simpa using h2
  exact List.mem_map.2 ⟨nd, h1, this⟩

/-- pigeonhole: either the walk can be pumped, or its hops (together with the distinct hop sources
    already passed) fit into the nodes of the graph -/
theorem walk_pump_or_short (g : SGraph) (T : String) : ∀ {m : String} {k : Nat}, Walk g T m k →
    ∀ (seen : List String), seen.Nodup → (∀ s ∈ seen, s ∈ g.map (·.name)) →
      (∀ s ∈ seen, ∃ c, 1 ≤ c ∧ Path g T s m c) →
      Pumpable g T m ∨ k + seen.length ≤ g.length := by
  intro m k hw
  induction hw with
  | @last n nd e hf hT he hd =>
    intro seen hnd hsub hpaths
    by_cases hin : n ∈ seen
    · obtain ⟨c, hc1, hc⟩ := hpaths n hin
      exact Or.inl ⟨n, 0, c, 1, .nil n, hc, hc1, .last hf hT he hd⟩
    · right
      have hnd' : (n :: seen).Nodup := List.nodup_cons.2 ⟨hin, hnd⟩
      have hsub' : (n :: seen) ⊆ g.map (·.name) := by
        intro s hs
        rcases List.mem_cons.1 hs with rfl | hs
        · exact name_mem_of_nodeOf hf
        · exact hsub s hs
      have := List.Nodup.length_le_of_subset hnd' hsub'
      simp only [List.length_cons, List.length_map] at this
      omega
  | @step n m nd e k hf hT he hd hw ih =>
    intro seen hnd hsub hpaths
    cases hhop : e.hop with
    | false =>
      have hpaths' : ∀ s ∈ seen, ∃ c, 1 ≤ c ∧ Path g T s m c := by
        intro s hs
        obtain ⟨c, hc1, hc⟩ := hpaths s hs
        have := hc.snoc hf hT he hd
        rw [hhop] at this
        exact ⟨c, hc1, by simpa using this⟩
      rcases ih seen hnd hsub hpaths' with hp | hle
      · left
        obtain ⟨x, a, c, b, hpx, hcx, h1, hwx⟩ := hp
        have := Path.cons hf hT he hd hpx
        exact ⟨x, _, c, b, this, hcx, h1, hwx⟩
      · right; simpa using hle
    | true =>
      by_cases hin : n ∈ seen
      · obtain ⟨c, hc1, hc⟩ := hpaths n hin
        left
        have hwn := Walk.step hf hT he hd hw
        exact ⟨n, 0, c, _, .nil n, hc, hc1, hwn⟩
      · have hnd' : (n :: seen).Nodup := List.nodup_cons.2 ⟨hin, hnd⟩
        have hsub' : ∀ s ∈ n :: seen, s ∈ g.map (·.name) := by
          intro s hs
          rcases List.mem_cons.1 hs with rfl | hs
          · exact name_mem_of_nodeOf hf
          · exact hsub s hs
        have hpaths' : ∀ s ∈ n :: seen, ∃ c, 1 ≤ c ∧ Path g T s m c := by
          intro s hs
          rcases List.mem_cons.1 hs with rfl | hs
          · have := (Path.nil (g := g) (T := T) s).snoc hf hT he hd
            rw [hhop] at this
            exact ⟨1, Nat.le_refl _, by simpa using this⟩
          · obtain ⟨c, hc1, hc⟩ := hpaths s hs
            have := hc.snoc hf hT he hd
            rw [hhop] at this
            exact ⟨c + 1, by omega, by simpa using this⟩
        rcases ih (n :: seen) hnd' hsub' hpaths' with hp | hle
        · left
          obtain ⟨x, a, c, b, hpx, hcx, h1, hwx⟩ := hp
          have := Path.cons hf hT he hd hpx
          exact ⟨x, _, c, b, this, hcx, h1, hwx⟩
        · right
          simp only [List.length_cons, if_true] at hle ⊢
          omega

/-- **a walk with more hops than there are nodes can be pumped** -/
theorem long_walk_unbounded (g : SGraph) (T n : String) (k : Nat) (hw : Walk g T n k) (hk : g.length + 1 ≤ k) :
    ∀ K, ∃ k', K ≤ k' ∧ Walk g T n k' := by
  rcases walk_pump_or_short g T hw [] List.nodup_nil (by simp) (by simp) with hp | hle
  · exact hp.unbounded
  · simp at hle; omega

end FgaVerif.Spec.Weights
