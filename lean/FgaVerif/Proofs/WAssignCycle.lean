import FgaVerif.Model.WAssign
/-! The pre-pass of the ported `AssignWeights` (`hasRewriteOnlyCycle`, a three-colour depth-first
    search over rewrite and computed edges) is **complete**: if it answers "no cycle", no node of the
    graph lies on a cycle of rewrite/computed edges.  Hence a graph with such a cycle is rejected with
    the model-cycle error whatever the start order of the weight assignment (C05: "rewrite-only cycles
    never pass").

    Invariant: the list of finished nodes is in reverse finishing order and *topological* — every
    rewrite successor of a finished node was finished before it (`Topo`).  A topological list contains
    no node on a cycle. -/
namespace FgaVerif.Model.WAssign
open FgaVerif.Model FgaVerif.Model.WGraph

/-- one rewrite or computed edge -/
def RStep (g : G) (x y : String) : Prop := y ∈ rewriteSuccs g x

/-- a path of at least one rewrite/computed edge -/
inductive RPath (g : G) : String → String → Prop
  | one {x y : String} : RStep g x y → RPath g x y
  | cons {x y z : String} : RStep g x y → RPath g y z → RPath g x z

/-- every successor of an element occurs later in the list -/
def Topo (g : G) : List String → Prop
  | [] => True
  | x :: post => (∀ y, RStep g x y → y ∈ post) ∧ Topo g post

theorem topo_step (g : G) : ∀ (l : List String), Topo g l → ∀ x ∈ l, ∀ y, RStep g x y → y ∈ l
  | [], _, x, hx, _, _ => by cases hx
  | a :: post, h, x, hx, y, hs => by
    rcases List.mem_cons.1 hx with rfl | hx
    · exact List.mem_cons_of_mem _ (h.1 y hs)
    · exact List.mem_cons_of_mem _ (topo_step g post h.2 x hx y hs)

theorem topo_path (g : G) (l : List String) (h : Topo g l) {x y : String} (hp : RPath g x y) : x ∈ l → y ∈ l := by
  induction hp with
  | one hs => exact fun hx => topo_step g l h _ hx _ hs
  | cons hs _ ih => exact fun hx => ih (topo_step g l h _ hx _ hs)

/-- a topological list contains no node on a cycle -/
theorem topo_acyclic (g : G) : ∀ (l : List String), Topo g l → ∀ x ∈ l, ¬ RPath g x x
  | [], _, x, hx => by cases hx
  | a :: post, h, x, hx => by
    intro hcyc
    -- the cycle leaves `x` into `post` and stays there, so `x ∈ post`
    have hxpost : x ∈ post := by
      rcases List.mem_cons.1 hx with rfl | hx
      · cases hcyc with
        | one hs => exact h.1 _ hs
        | cons hs hrest => exact topo_path g post h.2 hrest (h.1 _ hs)
      · exact hx
    exact topo_acyclic g post h.2 x hxpost hcyc

/-! ### the search -/

/-- the body of the loop over the successors of a node -/
def rstep (fuel : Nat) (g : G) (inProg : List String) (acc : Bool × List String) (m : String) : Bool × List String :=
  if acc.1 then acc
  else if inProg.contains m then (true, acc.2)
  else if acc.2.contains m then acc
  else rvisit fuel g m inProg acc.2

theorem rvisit_succ (fuel : Nat) (g : G) (n : String) (inProg done : List String) :
    rvisit (fuel + 1) g n inProg done =
      (if ((rewriteSuccs g n).foldl (rstep fuel g (n :: inProg)) (false, done)).1 then
        (true, ((rewriteSuccs g n).foldl (rstep fuel g (n :: inProg)) (false, done)).2)
       else (false, n :: ((rewriteSuccs g n).foldl (rstep fuel g (n :: inProg)) (false, done)).2)) := by
  simp only [rvisit]
  rfl

theorem fold_true (fuel : Nat) (g : G) (inProg : List String) : ∀ (ms : List String) (acc : Bool × List String),
    acc.1 = true → (ms.foldl (rstep fuel g inProg) acc).1 = true
  | [], _, h => h
  | m :: ms, acc, h => by
    simp only [List.foldl_cons]
    apply fold_true fuel g inProg ms
    unfold rstep; simp [h]

/-- what a call that reports no cycle leaves behind -/
def VisitSpec (g : G) (done : List String) (r : Bool × List String) (n : String) : Prop :=
  r.1 = false → Topo g r.2 ∧ n ∈ r.2 ∧ ∀ x ∈ done, x ∈ r.2

theorem fold_spec (fuel : Nat) (g : G) (inProg : List String)
    (hrec : ∀ m done, Topo g done → VisitSpec g done (rvisit fuel g m inProg done) m) :
    ∀ (ms : List String) (acc : Bool × List String), acc.1 = false → Topo g acc.2 →
      (ms.foldl (rstep fuel g inProg) acc).1 = false →
      Topo g (ms.foldl (rstep fuel g inProg) acc).2 ∧
      (∀ x ∈ acc.2, x ∈ (ms.foldl (rstep fuel g inProg) acc).2) ∧
      (∀ m ∈ ms, m ∈ (ms.foldl (rstep fuel g inProg) acc).2)
  | [], acc, _, ht, _ => ⟨ht, fun _ h => h, fun _ h => by cases h⟩
  | m :: ms, acc, hacc, ht, hres => by
    simp only [List.foldl_cons] at hres ⊢
    -- the step on `m` did not find a cycle, otherwise the whole loop would report one
    have hstep1 : (rstep fuel g inProg acc m).1 = false := by
      cases hb : (rstep fuel g inProg acc m).1 with
      | false => rfl
      | true => rw [fold_true fuel g inProg ms _ hb] at hres; cases hres
    have hstep : Topo g (rstep fuel g inProg acc m).2 ∧ (∀ x ∈ acc.2, x ∈ (rstep fuel g inProg acc m).2) ∧
        m ∈ (rstep fuel g inProg acc m).2 := by
      unfold rstep at hstep1 ⊢
      simp only [hacc, Bool.false_eq_true, if_false] at hstep1 ⊢
      by_cases h1 : inProg.contains m = true
      · rw [if_pos h1] at hstep1; cases hstep1
      · simp only [h1, Bool.false_eq_true, if_false] at hstep1 ⊢
        by_cases h2 : acc.2.contains m = true
        · simp only [h2, if_true]
          exact ⟨ht, fun _ h => h, by simpa using h2⟩
        · simp only [h2, Bool.false_eq_true, if_false] at hstep1 ⊢
          obtain ⟨a, b, c⟩ := hrec m acc.2 ht hstep1
          exact ⟨a, c, b⟩
    obtain ⟨r1, r2, r3⟩ := fold_spec fuel g inProg hrec ms _ hstep1 hstep.1 hres
    refine ⟨r1, fun x hx => r2 x (hstep.2.1 x hx), ?_⟩
    intro m' hm'
    rcases List.mem_cons.1 hm' with rfl | hm'
    · exact r2 _ hstep.2.2
    · exact r3 m' hm'

theorem rvisit_spec : ∀ (fuel : Nat) (g : G) (n : String) (inProg done : List String), Topo g done →
    VisitSpec g done (rvisit fuel g n inProg done) n
  | 0, g, n, inProg, done, _ => by
    intro h; simp [rvisit] at h
  | fuel+1, g, n, inProg, done, ht => by
    intro hres
    rw [rvisit_succ] at hres ⊢
    by_cases hf : ((rewriteSuccs g n).foldl (rstep fuel g (n :: inProg)) (false, done)).1 = true
    · simp [hf] at hres
    · have hf' : ((rewriteSuccs g n).foldl (rstep fuel g (n :: inProg)) (false, done)).1 = false := by simpa using hf
      simp only [hf', Bool.false_eq_true, if_false]
      obtain ⟨r1, r2, r3⟩ := fold_spec fuel g (n :: inProg)
        (fun m d hd => rvisit_spec fuel g m (n :: inProg) d hd) (rewriteSuccs g n) (false, done) rfl ht hf'
      refine ⟨⟨fun y hy => r3 y hy, r1⟩, List.mem_cons_self .., fun x hx => List.mem_cons_of_mem _ (r2 x hx)⟩

/-- the outer loop over all nodes -/
def ostep (g : G) (acc : Bool × List String) (n : WNode) : Bool × List String :=
  if acc.1 then acc
  else if acc.2.contains n.uniqueLabel then acc
  else rvisit (g.nodes.length + 1) g n.uniqueLabel [] acc.2

theorem ofold_true (g : G) : ∀ (ns : List WNode) (acc : Bool × List String), acc.1 = true →
    (ns.foldl (ostep g) acc).1 = true
  | [], _, h => h
  | n :: ns, acc, h => by
    simp only [List.foldl_cons]
    apply ofold_true g ns
    unfold ostep; simp [h]

theorem ofold_spec (g : G) : ∀ (ns : List WNode) (acc : Bool × List String), acc.1 = false → Topo g acc.2 →
    (ns.foldl (ostep g) acc).1 = false →
    Topo g (ns.foldl (ostep g) acc).2 ∧ (∀ x ∈ acc.2, x ∈ (ns.foldl (ostep g) acc).2) ∧
      (∀ n ∈ ns, n.uniqueLabel ∈ (ns.foldl (ostep g) acc).2)
  | [], acc, _, ht, _ => ⟨ht, fun _ h => h, fun _ h => by cases h⟩
  | n :: ns, acc, hacc, ht, hres => by
    simp only [List.foldl_cons] at hres ⊢
    have hstep1 : (ostep g acc n).1 = false := by
      cases hb : (ostep g acc n).1 with
      | false => rfl
      | true => rw [ofold_true g ns _ hb] at hres; cases hres
    have hstep : Topo g (ostep g acc n).2 ∧ (∀ x ∈ acc.2, x ∈ (ostep g acc n).2) ∧ n.uniqueLabel ∈ (ostep g acc n).2 := by
      unfold ostep at hstep1 ⊢
      simp only [hacc, Bool.false_eq_true, if_false] at hstep1 ⊢
      by_cases h2 : acc.2.contains n.uniqueLabel = true
      · simp only [h2, if_true]
        exact ⟨ht, fun _ h => h, by simpa using h2⟩
      · simp only [h2, Bool.false_eq_true, if_false] at hstep1 ⊢
        obtain ⟨a, b, c⟩ := rvisit_spec _ g n.uniqueLabel [] acc.2 ht hstep1
        exact ⟨a, c, b⟩
    obtain ⟨r1, r2, r3⟩ := ofold_spec g ns _ hstep1 hstep.1 hres
    refine ⟨r1, fun x hx => r2 x (hstep.2.1 x hx), ?_⟩
    intro n' hn'
    rcases List.mem_cons.1 hn' with rfl | hn'
    · exact r2 _ hstep.2.2
    · exact r3 n' hn'

theorem hasRewriteOnlyCycle_eq (g : G) : hasRewriteOnlyCycle g = (g.nodes.foldl (ostep g) (false, [])).1 := rfl

/-- **completeness of the pre-pass**: "no cycle" means no node of the graph is on a rewrite-only cycle -/
theorem no_cycle_of_prepass (g : G) (h : hasRewriteOnlyCycle g = false) :
    ∀ n ∈ g.nodes, ¬ RPath g n.uniqueLabel n.uniqueLabel := by
  rw [hasRewriteOnlyCycle_eq] at h
  obtain ⟨r1, _, r3⟩ := ofold_spec g g.nodes (false, []) rfl trivial h
  intro n hn
  exact topo_acyclic g _ r1 _ (r3 n hn)

/-- **a graph with a rewrite-only cycle through one of its nodes is rejected, whatever the start
    order of the assignment** -/
theorem rewrite_cycle_rejected (g : G) (n : WNode) (hn : n ∈ g.nodes) (hc : RPath g n.uniqueLabel n.uniqueLabel)
    (order : List String) : assignWeights g order = .error .modelCycle := by
  have hpre : hasRewriteOnlyCycle g = true := by
    cases hb : hasRewriteOnlyCycle g with
    | true => rfl
    | false => exact absurd hc (no_cycle_of_prepass g hb n hn)
  unfold assignWeights
  simp [hpre]

end FgaVerif.Model.WAssign

namespace FgaVerif.Model.WAssign
open FgaVerif.Model FgaVerif.Model.WGraph

/-! ### soundness: the pre-pass only reports cycles that exist

    The nodes in progress form a chain `… → p₂ → p₁ → n`, so a successor found among them closes a
    cycle.  Running out of fuel would also answer "cycle"; it cannot happen, because the chain has no
    repetition and stays inside the nodes of the graph (hypothesis: every rewrite/computed edge ends in
    a node of the graph, which the builder guarantees), so its length is bounded by their number. -/

def labels (g : G) : List String := g.nodes.map (·.uniqueLabel)

/-- every rewrite or computed edge ends in a node of the graph -/
def RClosed (g : G) : Prop := ∀ x y, RStep g x y → y ∈ labels g

/-- reflexive-transitive reachability through rewrite/computed edges -/
def RReach (g : G) (x y : String) : Prop := x = y ∨ RPath g x y

theorem RPath.snoc {g : G} {x y z : String} (h : RPath g x y) (hs : RStep g y z) : RPath g x z := by
  induction h with
  | one h1 => exact .cons h1 (.one hs)
  | cons h1 _ ih => exact .cons h1 (ih hs)

theorem RReach.step {g : G} {x y z : String} (h : RReach g x y) (hs : RStep g y z) : RPath g x z := by
  rcases h with rfl | h
  · exact .one hs
  · exact h.snoc hs

/-- what a call that reports a cycle proves -/
def FoundSpec (g : G) (r : Bool × List String) : Prop := r.1 = true → ∃ x, RPath g x x

theorem fold_found (fuel : Nat) (g : G) (inProg : List String) (n : String)
    (hchain : ∀ p ∈ inProg, RReach g p n)
    (hrec : ∀ m done, RStep g n m → m ∉ inProg → FoundSpec g (rvisit fuel g m inProg done)) :
    ∀ (ms : List String) (acc : Bool × List String), (∀ m ∈ ms, RStep g n m) → FoundSpec g acc →
      FoundSpec g (ms.foldl (rstep fuel g inProg) acc)
  | [], acc, _, hacc => hacc
  | m :: ms, acc, hms, hacc => by
    simp only [List.foldl_cons]
    apply fold_found fuel g inProg n hchain hrec ms _ (fun m' hm' => hms m' (by simp [hm']))
    unfold rstep
    by_cases h0 : acc.1 = true
    · simp only [h0, if_true]; exact hacc
    · simp only [h0, Bool.false_eq_true, if_false]
      by_cases h1 : inProg.contains m = true
      · simp only [h1, if_true]
        intro _
        have hm : m ∈ inProg := by simpa using h1
        -- m reaches n along the chain, and n → m
        exact ⟨m, (hchain m hm).step (hms m (by simp)) |> fun (hp : RPath g m m) => hp⟩
      · simp only [h1, Bool.false_eq_true, if_false]
        by_cases h2 : acc.2.contains m = true
        · simp only [h2, if_true]; intro h; exact absurd h h0
        · simp only [h2, Bool.false_eq_true, if_false]
          exact hrec m acc.2 (hms m (by simp)) (by simpa using h1)

theorem rvisit_found (g : G) (hcl : RClosed g) : ∀ (fuel : Nat) (n : String) (inProg done : List String),
    n ∈ labels g → n ∉ inProg → inProg.Nodup → (∀ p ∈ inProg, p ∈ labels g) →
    (∀ p ∈ inProg, RReach g p n) → g.nodes.length + 1 ≤ fuel + inProg.length →
    FoundSpec g (rvisit fuel g n inProg done)
  | 0, n, inProg, done, hn, hni, hnd, hsub, _, hfuel => by
    -- impossible: the chain together with `n` would have more distinct elements than the graph has nodes
    exfalso
    have hnd' : (n :: inProg).Nodup := List.nodup_cons.2 ⟨hni, hnd⟩
    have hsub' : (n :: inProg) ⊆ labels g := by
      intro x hx
      rcases List.mem_cons.1 hx with rfl | hx
      · exact hn
      · exact hsub x hx
    have := List.Nodup.length_le_of_subset hnd' hsub'
    simp only [List.length_cons, labels, List.length_map] at this
    omega
  | fuel+1, n, inProg, done, hn, hni, hnd, hsub, hchain, hfuel => by
    intro hres
    rw [rvisit_succ] at hres
    have hnd' : (n :: inProg).Nodup := List.nodup_cons.2 ⟨hni, hnd⟩
    have hchain' : ∀ p ∈ n :: inProg, RReach g p n := by
      intro p hp
      rcases List.mem_cons.1 hp with rfl | hp
      · exact Or.inl rfl
      · exact hchain p hp
    have hfold := fold_found fuel g (n :: inProg) n hchain'
      (fun m d hs hmi => rvisit_found g hcl fuel m (n :: inProg) d (hcl n m hs) hmi hnd'
        (fun p hp => by
          rcases List.mem_cons.1 hp with rfl | hp
          · exact hn
          · exact hsub p hp)
        (fun p hp => Or.inr ((hchain' p hp).step hs))
        (by simp only [List.length_cons]; omega))
      (rewriteSuccs g n) (false, done) (fun m hm => hm) (fun h => by cases h)
    apply hfold
    by_cases hf : ((rewriteSuccs g n).foldl (rstep fuel g (n :: inProg)) (false, done)).1 = true
    · exact hf
    · simp [hf] at hres

theorem ofold_found (g : G) (hcl : RClosed g) : ∀ (ns : List WNode) (acc : Bool × List String),
    (∀ n ∈ ns, n ∈ g.nodes) → FoundSpec g acc → FoundSpec g (ns.foldl (ostep g) acc)
  | [], acc, _, hacc => hacc
  | n :: ns, acc, hns, hacc => by
    simp only [List.foldl_cons]
    apply ofold_found g hcl ns _ (fun n' hn' => hns n' (by simp [hn']))
    unfold ostep
    by_cases h0 : acc.1 = true
    · simp only [h0, if_true]; exact hacc
    · simp only [h0, Bool.false_eq_true, if_false]
      by_cases h2 : acc.2.contains n.uniqueLabel = true
      · simp only [h2, if_true]; exact hacc
      · simp only [h2, Bool.false_eq_true, if_false]
        exact rvisit_found g hcl _ n.uniqueLabel [] acc.2
          (List.mem_map.2 ⟨n, hns n (by simp), rfl⟩) (by simp) List.nodup_nil (by simp) (by simp) (by simp)

/-- **soundness of the pre-pass** on a graph whose rewrite/computed edges end in nodes of the graph -/
theorem cycle_of_prepass (g : G) (hcl : RClosed g) (h : hasRewriteOnlyCycle g = true) : ∃ x, RPath g x x := by
  rw [hasRewriteOnlyCycle_eq] at h
  exact ofold_found g hcl g.nodes (false, []) (fun _ h => h) (fun h => by cases h) h

end FgaVerif.Model.WAssign

namespace FgaVerif.Model.WAssign
open FgaVerif.Model FgaVerif.Model.WGraph

/-- executable form of `RClosed`, evaluated by the driver on every built graph (`wassign`) -/
def rclosedB (g : G) : Bool :=
  g.edges.all (fun p => p.2.all (fun e => !(e.etype == .rewrite || e.etype == .computed) || (labels g).contains e.dst))

theorem rclosedB_sound (g : G) (h : rclosedB g = true) : RClosed g := by
  intro x y hs
  unfold RStep rewriteSuccs at hs
  obtain ⟨e, he, rfl⟩ := List.mem_map.1 hs
  obtain ⟨hmem, hty⟩ := List.mem_filter.1 he
  unfold edgesOf at hmem
  split at hmem
  · rename_i k es hf
    have hp := List.mem_of_find?_eq_some hf
    have h1 := List.all_eq_true.1 h _ hp
    have h2 := List.all_eq_true.1 h1 e hmem
    simp only [hty, Bool.not_true, Bool.false_or] at h2
    simpa using h2
  · cases hmem

end FgaVerif.Model.WAssign

namespace FgaVerif.Model.WAssign
open FgaVerif.Model FgaVerif.Model.WGraph

theorem RPath.last {g : G} {x y : String} (h : RPath g x y) : ∃ z, RStep g z y := by
  induction h with
  | one hs => exact ⟨_, hs⟩
  | cons _ _ ih => exact ih

end FgaVerif.Model.WAssign
