import FgaVerif.Proofs.Listener
import FgaVerif.Proofs.Printer
/-! The image of the parser (denotations of CSTs) consists of printable rewrites: no unset userset,
    at most one direct assignment, and it sits on the first path. -/
namespace FgaVerif.Model.Cst
open FgaVerif.Model FgaVerif.Model.Listener FgaVerif.Model.Printer

theorem rw_den_props (r : Rw) : countThis r.den = 0 ∧ noNil r.den = true := by
  unfold Rw.den; split <;> simp [countThis, noNil]

theorem combine_count (op : Op) (h : opOk op = true) (x : Userset) (ys : List Userset) (hy : ys ≠ [])
    (hys : countThisL ys = 0) : countThis (combine op (x :: ys)) = countThis x := by
  cases ys with
  | nil => exact absurd rfl hy
  | cons y rest =>
    have hy0 : countThis y = 0 := by simp only [countThisL] at hys; omega
    cases op <;> simp_all [combine, countThis, countThisL, opOk]

theorem combine_noNil (op : Op) (h : opOk op = true) (x : Userset) (ys : List Userset) (hy : ys ≠ [])
    (hx : noNil x = true) (hys : noNilL ys = true) : noNil (combine op (x :: ys)) = true := by
  cases ys with
  | nil => exact absurd rfl hy
  | cons y rest =>
    simp only [noNilL, Bool.and_eq_true] at hys
    cases op <;> simp_all [combine, noNil, noNilL, opOk]

mutual
  theorem defND_props : (d : DefND) → d.wf = true → countThis (DefND.den d) = 0 ∧ noNil (DefND.den d) = true
    | .mk first none, h => by
        simp only [DefND.wf] at h
        simpa [DefND.den] using itemND_props first h
    | .mk first (some (.mk op items)), h => by
        simp only [DefND.wf, Partials.wf, Bool.and_eq_true] at h
        have hf := itemND_props first h.1
        have hi := items_props items h.2.2
        simp only [DefND.den]
        exact ⟨by rw [combine_count op h.2.1 _ _ (items_dens_ne_nil items) hi.1]; exact hf.1,
               combine_noNil op h.2.1 _ _ (items_dens_ne_nil items) hf.2 hi.2⟩
  theorem itemND_props : (i : ItemND) → i.wf = true → countThis (ItemND.den i) = 0 ∧ noNil (ItemND.den i) = true
    | .rw r, _ => by simpa [ItemND.den] using rw_den_props r
    | .paren r, h => by
        simp only [ItemND.wf] at h
        simpa [ItemND.den] using recND_props r h
  theorem recND_props : (r : RecND) → r.wf = true → countThis (RecND.den r) = 0 ∧ noNil (RecND.den r) = true
    | .ofDef _ _ d, h => by
        simp only [RecND.wf] at h
        simpa [RecND.den] using defND_props d h
    | .ofRec _ _ x, h => by
        simp only [RecND.wf] at h
        simpa [RecND.den] using recND_props x h
  theorem items_props : (is : Items) → is.wf = true → countThisL (Items.dens is) = 0 ∧ noNilL (Items.dens is) = true
    | .one _ _ i, h => by
        simp only [Items.wf] at h
        have := itemND_props i h
        simp [Items.dens, countThisL, noNilL, this.1, this.2]
    | .cons _ _ i rest, h => by
        simp only [Items.wf, Bool.and_eq_true] at h
        have h1 := itemND_props i h.1
        have h2 := items_props rest h.2
        simp [Items.dens, countThisL, noNilL, h1.1, h1.2, h2.1, h2.2]
end

theorem combine_first (op : Op) (h : opOk op = true) (x : Userset) (ys : List Userset) (hy : ys ≠ [])
    (hx : isFirstPosition x = true) : isFirstPosition (combine op (x :: ys)) = true := by
  cases ys with
  | nil => exact absurd rfl hy
  | cons y rest =>
    cases op
    · simp [opOk] at h
    · simp only [combine]
      unfold isFirstPosition
      simp only
      split
      · rfl
      · exact hx
    · simp only [combine]
      unfold isFirstPosition
      simp only
      split
      · rfl
      · exact hx
    · simp only [combine]
      cases x <;> simp_all [isFirstPosition, isThis]

mutual
  /-- the denotation of a full definition: no `nil`, at most one direct assignment, and if there is
      one the code's first-position test accepts it -/
  theorem def_props : (d : Def) → d.wf = true →
      noNil (Def.den d) = true ∧ (countThis (Def.den d) = 0 ∨ (countThis (Def.den d) = 1 ∧ isFirstPosition (Def.den d) = true))
    | .mk first none, h => by
        simp only [Def.wf] at h
        simpa [Def.den] using first_props first h
    | .mk first (some (.mk op items)), h => by
        simp only [Def.wf, Partials.wf, Bool.and_eq_true] at h
        have hf := first_props first h.1
        have hi := items_props items h.2.2
        simp only [Def.den]
        refine ⟨combine_noNil op h.2.1 _ _ (items_dens_ne_nil items) hf.1 hi.2, ?_⟩
        rw [combine_count op h.2.1 _ _ (items_dens_ne_nil items) hi.1]
        rcases hf.2 with h0 | ⟨h1, hfp⟩
        · exact Or.inl h0
        · exact Or.inr ⟨h1, combine_first op h.2.1 _ _ (items_dens_ne_nil items) hfp⟩
  theorem first_props : (f : First) → f.wf = true →
      noNil (First.den f) = true ∧ (countThis (First.den f) = 0 ∨ (countThis (First.den f) = 1 ∧ isFirstPosition (First.den f) = true))
    | .direct _, _ => by simp [First.den, noNil, countThis, isFirstPosition]
    | .rw r, _ => by
        have := rw_den_props r
        simp [First.den, this.1, this.2]
    | .recurse r, h => by
        simp only [First.wf] at h
        simpa [First.den] using rec_props r h
  theorem rec_props : (r : Rec) → r.wf = true →
      noNil (Rec.den r) = true ∧ (countThis (Rec.den r) = 0 ∨ (countThis (Rec.den r) = 1 ∧ isFirstPosition (Rec.den r) = true))
    | .ofDef _ _ d, h => by
        simp only [Rec.wf] at h
        simpa [Rec.den] using def_props d h
    | .ofRecND _ _ x, h => by
        simp only [Rec.wf] at h
        have := recND_props x h
        simp [Rec.den, this.1, this.2]
end

end FgaVerif.Model.Cst
