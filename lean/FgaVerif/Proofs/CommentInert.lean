import FgaVerif.Model.Printer
import FgaVerif.Proofs.Sort
/-!
# C14 — source-information comments are inert

`stripComments` is the reference `strip` of the test oracle (split on line breaks; a line containing
" #" is cut at its first " #" and right-trimmed of blanks; other lines are untouched; join).  The main
theorem `comments_inert` says that, for every model satisfying the decidable hypothesis `cleanB`,
`transform m true` and `transform m false` fail with the same error or both succeed, and stripping the
first output gives the second.
-/
namespace FgaVerif.Proofs.CommentInert
open FgaVerif FgaVerif.Model FgaVerif.Model.Printer

/-! ## the reference `strip`, on lists of characters -/

/-- the text starts with `#` -/
def startsHash : List Char → Bool
  | c :: _ => c == '#'
  | [] => false

/-- the text ends with a blank -/
def endsBlank (l : List Char) : Bool := l.getLast? == some ' '

/-- the text contains the substring " #" -/
def hasSH : List Char → Bool
  | [] => false
  | c :: rest => (c == ' ' && startsHash rest) || hasSH rest

/-- the text before the first " #", if there is one -/
def cutAt : List Char → Option (List Char)
  | [] => none
  | c :: rest => if c == ' ' && startsHash rest then some [] else (cutAt rest).map (c :: ·)

/-- `strings.TrimRight(·, " ")` -/
def rtrim (l : List Char) : List Char := (l.reverse.dropWhile (· == ' ')).reverse

def stripLine (l : List Char) : List Char :=
  match cutAt l with
  | none => l
  | some p => rtrim p

/-- `strings.Split(·, "\n")` -/
def splitNL : List Char → List (List Char)
  | [] => [[]]
  | c :: rest =>
    if c == '\n' then [] :: splitNL rest
    else match splitNL rest with
      | [] => [[c]]
      | l :: ls => (c :: l) :: ls

/-- `strings.Join(·, "\n")` -/
def joinNL : List (List Char) → List Char
  | [] => []
  | [l] => l
  | l :: l' :: ls => l ++ '\n' :: joinNL (l' :: ls)

def strip (l : List Char) : List Char := joinNL ((splitNL l).map stripLine)

/-- **the reference `strip`** -/
def stripComments (s : String) : String := String.ofList (strip s.toList)

example : strip "a #b\nc   #d #e\nf  \n #\n".toList = "a\nc\nf  \n\n".toList := by decide +kernel
example : strip "x  # y".toList = "x".toList := by decide +kernel
example : stripComments "" = "" := by decide +kernel

/-! ### splitting and joining -/

theorem splitNL_ne_nil (l : List Char) : splitNL l ≠ [] := by
  cases l with
  | nil => simp [splitNL]
  | cons c r =>
    simp only [splitNL]
    split
    · simp
    · split <;> simp

theorem splitNL_append_nl (a b : List Char) : splitNL (a ++ '\n' :: b) = splitNL a ++ splitNL b := by
  induction a with
  | nil => simp [splitNL]
  | cons c a ih =>
    simp only [List.cons_append, splitNL]
    split
    · simp [ih]
    · rw [ih]
      cases h : splitNL a with
      | nil => exact absurd h (splitNL_ne_nil a)
      | cons l ls => simp

theorem joinNL_append (xs ys : List (List Char)) (hx : xs ≠ []) (hy : ys ≠ []) :
    joinNL (xs ++ ys) = joinNL xs ++ '\n' :: joinNL ys := by
  induction xs with
  | nil => exact absurd rfl hx
  | cons x xs ih =>
    cases xs with
    | nil =>
      cases ys with
      | nil => exact absurd rfl hy
      | cons y ys => simp [joinNL]
    | cons x' xs =>
      have := ih (by simp)
      simp only [List.cons_append] at this ⊢
      simp [joinNL, this]

theorem strip_nl (a b : List Char) : strip (a ++ '\n' :: b) = strip a ++ '\n' :: strip b := by
  unfold strip
  rw [splitNL_append_nl, List.map_append, joinNL_append]
  · simpa using splitNL_ne_nil a
  · simpa using splitNL_ne_nil b

theorem joinNL_splitNL (l : List Char) : joinNL (splitNL l) = l := by
  induction l with
  | nil => rfl
  | cons c r ih =>
    simp only [splitNL]
    split
    · rename_i hc
      have : c = '\n' := by simpa using hc
      subst this
      cases h : splitNL r with
      | nil => exact absurd h (splitNL_ne_nil r)
      | cons l ls => rw [h] at ih; simp [joinNL, ih]
    · cases h : splitNL r with
      | nil => exact absurd h (splitNL_ne_nil r)
      | cons l ls =>
        rw [h] at ih
        cases ls with
        | nil => simpa [joinNL] using ih
        | cons l' ls => simp only [joinNL] at ih ⊢; simp [← ih]

theorem splitNL_of_noNL (l : List Char) (h : '\n' ∉ l) : splitNL l = [l] := by
  induction l with
  | nil => rfl
  | cons c r ih =>
    simp only [List.mem_cons, not_or] at h
    simp only [splitNL]
    have hc : (c == '\n') = false := by simpa using fun h' => h.1 h'.symm
    simp [hc, ih h.2]

theorem strip_nil : strip [] = [] := by decide

theorem strip_nl_cons (b : List Char) : strip ('\n' :: b) = '\n' :: strip b := by
  simpa [strip_nil] using strip_nl [] b

/-- a text that is empty or starts with a line break -/
def NLstart (b : List Char) : Prop := b = [] ∨ ∃ b', b = '\n' :: b'

theorem strip_append_of_NLstart (a b : List Char) (h : NLstart b) : strip (a ++ b) = strip a ++ strip b := by
  rcases h with rfl | ⟨b', rfl⟩
  · simp [strip_nil]
  · rw [strip_nl, strip_nl_cons]

theorem strip_append_of_NLend (a b : List Char) : strip (a ++ '\n' :: [] ++ b) = strip (a ++ '\n' :: []) ++ strip b := by
  have : a ++ '\n' :: [] ++ b = a ++ '\n' :: b := by simp
  rw [this, strip_nl, strip_nl, strip_nil]; simp

/-! ### texts without " #" -/

theorem startsHash_append (a b : List Char) :
    startsHash (a ++ b) = if a = [] then startsHash b else startsHash a := by
  cases a <;> simp [startsHash]

theorem startsHash_head_splitNL (r l : List Char) (ls : List (List Char)) (h : splitNL r = l :: ls) :
    startsHash l = startsHash r := by
  cases r with
  | nil => simp [splitNL] at h; rw [← h.1]
  | cons c r =>
    simp only [splitNL] at h
    split at h
    · rename_i hc
      have : c = '\n' := by simpa using hc
      subst this
      simp at h; rw [h.1]; simp [startsHash]
    · split at h <;> (simp at h; rw [← h.1]; simp [startsHash])

theorem hasSH_lines (l : List Char) (h : hasSH l = false) : ∀ x ∈ splitNL l, hasSH x = false := by
  induction l with
  | nil => simp [splitNL, hasSH]
  | cons c r ih =>
    simp only [hasSH, Bool.or_eq_false_iff] at h
    simp only [splitNL]
    split
    · intro x hx
      rcases List.mem_cons.1 hx with rfl | hx
      · rfl
      · exact ih h.2 x hx
    · cases hs : splitNL r with
      | nil => exact absurd hs (splitNL_ne_nil r)
      | cons l ls =>
        intro x hx
        rcases List.mem_cons.1 hx with rfl | hx
        · simp only [hasSH, Bool.or_eq_false_iff]
          refine ⟨?_, ih h.2 l (by simp [hs])⟩
          rw [startsHash_head_splitNL r l ls hs]; exact h.1
        · exact ih h.2 x (by simp [hs, hx])

theorem cutAt_of_noSH (l : List Char) (h : hasSH l = false) : cutAt l = none := by
  induction l with
  | nil => rfl
  | cons c r ih =>
    simp only [hasSH, Bool.or_eq_false_iff] at h
    simp [cutAt, h.1, ih h.2]

theorem stripLine_of_noSH (l : List Char) (h : hasSH l = false) : stripLine l = l := by
  simp [stripLine, cutAt_of_noSH l h]

/-- a text (of any number of lines) without " #" is left alone -/
theorem strip_of_noSH (l : List Char) (h : hasSH l = false) : strip l = l := by
  unfold strip
  have : (splitNL l).map stripLine = splitNL l := by
    conv => rhs; rw [← List.map_id (splitNL l)]
    exact List.map_congr_left (fun x hx => stripLine_of_noSH x (hasSH_lines l h x hx))
  rw [this, joinNL_splitNL]

theorem endsBlank_cons_cons (c d : Char) (a : List Char) : endsBlank (c :: d :: a) = endsBlank (d :: a) := by
  simp [endsBlank, List.getLast?_cons_cons]

theorem hasSH_append (a b : List Char) :
    hasSH (a ++ b) = (hasSH a || hasSH b || (endsBlank a && startsHash b)) := by
  induction a with
  | nil => simp [hasSH, endsBlank]
  | cons c a ih =>
    cases a with
    | nil =>
      simp only [List.cons_append, List.nil_append, hasSH]
      have : endsBlank [c] = (c == ' ') := by simp [endsBlank]
      rw [this]
      cases (c == ' ') <;> cases startsHash b <;> cases hasSH b <;> rfl
    | cons d a =>
      have e1 : hasSH (c :: d :: a ++ b) = ((c == ' ' && startsHash (d :: a ++ b)) || hasSH (d :: a ++ b)) := rfl
      have e2 : hasSH (c :: d :: a) = ((c == ' ' && startsHash (d :: a)) || hasSH (d :: a)) := rfl
      have e3 : startsHash (d :: a ++ b) = startsHash (d :: a) := rfl
      rw [e1, e2, e3, ih, endsBlank_cons_cons]
      cases (c == ' ') <;> cases startsHash (d :: a) <;> cases hasSH (d :: a) <;> cases hasSH b <;>
        cases endsBlank (d :: a) <;> cases startsHash b <;> rfl

/-! ### a line with a comment appended -/

theorem cutAt_comment (l c : List Char) (h : hasSH l = false) : cutAt (l ++ ' ' :: '#' :: c) = some l := by
  induction l with
  | nil => simp [cutAt, startsHash]
  | cons x l ih =>
    simp only [hasSH, Bool.or_eq_false_iff] at h
    have hs : (x == ' ' && startsHash (l ++ ' ' :: '#' :: c)) = false := by
      rw [startsHash_append]
      split
      · simp [startsHash]
      · exact h.1
    simp only [List.cons_append, cutAt, hs, ih h.2]
    simp

theorem rtrim_of_not_endsBlank (l : List Char) (h : endsBlank l = false) : rtrim l = l := by
  unfold rtrim
  cases hr : l.reverse with
  | nil => simp at hr; simp [hr]
  | cons x r =>
    have hl : l = r.reverse ++ [x] := by
      have := congrArg List.reverse hr
      simpa using this
    have hx : (x == ' ') = false := by
      rw [hl] at h
      simpa [endsBlank] using h
    rw [List.dropWhile_cons, hx]
    simp [hl]

theorem strip_comment_line (b c : List Char) (h : hasSH b = false) (he : endsBlank b = false)
    (hb : '\n' ∉ b) (hc : '\n' ∉ c) : strip (b ++ ' ' :: '#' :: c) = b := by
  unfold strip
  rw [splitNL_of_noNL]
  · simp [joinNL, stripLine, cutAt_comment b c h, rtrim_of_not_endsBlank b he]
  · simp [hb, hc]

theorem last_line (l : List Char) : ∃ a b, '\n' ∉ b ∧ (l = b ∨ l = a ++ '\n' :: b) := by
  induction l with
  | nil => exact ⟨[], [], by simp, Or.inl rfl⟩
  | cons x l ih =>
    obtain ⟨a, b, hb, h | h⟩ := ih
    · by_cases hx : x = '\n'
      · exact ⟨[], b, hb, Or.inr (by simp [hx, h])⟩
      · refine ⟨[], x :: b, ?_, Or.inl (by rw [h])⟩
        simp only [List.mem_cons, not_or]; exact ⟨fun h' => hx h'.symm, hb⟩
    · exact ⟨x :: a, b, hb, Or.inr (by simp [h])⟩

/-- **appending a one-line comment " #…" to the last line of a text without " #" that does not end in a
    blank is undone by `strip`** -/
theorem strip_comment (l c : List Char) (h : hasSH l = false) (he : endsBlank l = false) (hc : '\n' ∉ c) :
    strip (l ++ ' ' :: '#' :: c) = l := by
  obtain ⟨a, b, hb, rfl | rfl⟩ := last_line l
  · exact strip_comment_line l c h he hb hc
  · rw [hasSH_append] at h
    simp only [Bool.or_eq_false_iff] at h
    have hb' : hasSH b = false := by
      have := h.1.2; simp only [hasSH, Bool.or_eq_false_iff] at this; exact this.2
    have heb : endsBlank b = false := by
      cases b with
      | nil => rfl
      | cons y b =>
        have : endsBlank (a ++ '\n' :: y :: b) = endsBlank (y :: b) := by
          simp only [endsBlank, List.getLast?_append, List.getLast?_cons_cons]
          cases hg : (y :: b).getLast? with
          | none => simp at hg
          | some z => simp
        rw [← this]; exact he
    have : a ++ '\n' :: b ++ ' ' :: '#' :: c = a ++ '\n' :: (b ++ ' ' :: '#' :: c) := by simp
    rw [this, strip_nl, strip_of_noSH a h.1.1, strip_comment_line b c hb' heb hb hc]

/-! ## hypotheses on the printed pieces -/

/-- no " #" inside and no `#` in front: such pieces can be concatenated freely -/
def pOK (l : List Char) : Bool := !hasSH l && !startsHash l
/-- not empty and not ending in a blank -/
def eOK (l : List Char) : Bool :=
  match l.getLast? with
  | some c => c != ' '
  | none => false

/-- the string contains no " #" and does not start with `#` -/
def P (s : String) : Bool := pOK s.toList
/-- the string is not empty and does not end in a blank -/
def E (s : String) : Bool := eOK s.toList
/-- `P`, and `E` when a comment will follow (`e = true`) -/
def G (e : Bool) (s : String) : Bool := P s && (!e || E s)

theorem pOK_iff (l : List Char) : pOK l = true ↔ hasSH l = false ∧ startsHash l = false := by
  simp [pOK]

theorem pOK_append (a b : List Char) (ha : pOK a = true) (hb : pOK b = true) : pOK (a ++ b) = true := by
  rw [pOK_iff] at *
  rw [hasSH_append, startsHash_append]
  refine ⟨by simp [ha.1, hb.1, hb.2], ?_⟩
  split
  · exact hb.2
  · exact ha.2

theorem eOK_append (a b : List Char) (hb : eOK b = true) : eOK (a ++ b) = true := by
  unfold eOK at *
  rw [List.getLast?_append]
  cases h : b.getLast? with
  | none => simp [h] at hb
  | some z => simpa [h] using hb

theorem eOK_not_endsBlank (l : List Char) (h : eOK l = true) : endsBlank l = false := by
  unfold eOK at h
  unfold endsBlank
  cases hl : l.getLast? with
  | none => simp
  | some z => simp [hl] at h; simpa using h

theorem eOK_ne_nil (l : List Char) (h : eOK l = true) : l ≠ [] := by
  intro hl; subst hl; simp [eOK] at h

theorem pOK_hash (a b : List Char) (ha : pOK a = true) (he : eOK a = true) (hb : hasSH b = false) :
    pOK (a ++ '#' :: b) = true := by
  rw [pOK_iff] at *
  rw [hasSH_append, startsHash_append, eOK_not_endsBlank a he]
  refine ⟨by simp [ha.1, hasSH, hb], ?_⟩
  simp [eOK_ne_nil a he, ha.2]

theorem P_append {a b : String} (ha : P a = true) (hb : P b = true) : P (a ++ b) = true := by
  simp only [P, String.toList_append]; exact pOK_append _ _ ha hb

theorem E_append {a b : String} (hb : E b = true) : E (a ++ b) = true := by
  simp only [E, String.toList_append]; exact eOK_append _ _ hb

theorem P_hash {a b : String} (ha : P a = true) (he : E a = true) (hb : hasSH b.toList = false) :
    P (a ++ "#" ++ b) = true := by
  have : (a ++ "#" ++ b).toList = a.toList ++ '#' :: b.toList := by simp [String.toList_append]
  simp only [P, this]; exact pOK_hash _ _ ha he hb

theorem P_noSH {a : String} (ha : P a = true) : hasSH a.toList = false := ((pOK_iff _).1 ha).1

theorem G_iff (e : Bool) (s : String) : G e s = true ↔ P s = true ∧ (e = true → E s = true) := by
  cases e <;> simp [G]

theorem G_append {e : Bool} {a b : String} (ha : P a = true) (hb : G e b = true) : G e (a ++ b) = true := by
  rw [G_iff] at *
  exact ⟨P_append ha hb.1, fun h => E_append (hb.2 h)⟩

theorem P_intercalate (sep : String) (hs : P sep = true) :
    (l : List String) → (∀ x ∈ l, P x = true) → P (sep.intercalate l) = true
  | [], _ => by rw [String.intercalate_nil]; decide
  | [t], h => by simpa using h t (by simp)
  | t :: u :: l, h => by
      rw [String.intercalate_cons_cons]
      exact P_append (P_append (h t (by simp)) hs)
        (P_intercalate sep hs (u :: l) (fun x hx => h x (List.mem_cons_of_mem _ hx)))

theorem E_intercalate (sep : String) :
    (l : List String) → l ≠ [] → (∀ x ∈ l, E x = true) → E (sep.intercalate l) = true
  | [], hne, _ => absurd rfl hne
  | [t], _, h => by simpa using h t (by simp)
  | t :: u :: l, _, h => by
      rw [String.intercalate_cons_cons]
      exact E_append (E_intercalate sep (u :: l) (by simp) (fun x hx => h x (List.mem_cons_of_mem _ hx)))

theorem G_intercalate (e : Bool) (sep : String) (hs : P sep = true) (l : List String) (hne : l ≠ [])
    (h : ∀ x ∈ l, G e x = true) : G e (sep.intercalate l) = true := by
  rw [G_iff]
  exact ⟨P_intercalate sep hs l (fun x hx => ((G_iff e x).1 (h x hx)).1),
    fun he => E_intercalate sep l hne (fun x hx => ((G_iff e x).1 (h x hx)).2 he)⟩

/-! ## the hypothesis `cleanB` -/

/-- a type restriction `type[:*][#rel][ with cond]` prints without " #" -/
def restrOK (r : RelRef) : Bool :=
  P r.type && (r.rel == "" || ((r.wildcard || E r.type) && !hasSH r.rel.toList)) && P r.cond

mutual
  /-- the operands of a relation definition; `e = true` when the printed text ends the line and a comment
      follows it (operands inside parentheses are never in that position) -/
  def subOK (rs : List RelRef) : Bool → Userset → Bool
    | _, .this => rs.all restrOK
    | e, .computed r => G e r
    | e, .ttu ts cu => P cu && G e ts
    | _, .union cs => allOK rs false cs
    | _, .inter cs => allOK rs false cs
    | _, .diff b s => subOK rs false b && subOK rs false s
    | _, .nil => true
  def allOK (rs : List RelRef) : Bool → List Userset → Bool
    | _, [] => true
    | e, c :: cs => subOK rs e c && allOK rs e cs
end

def topOK (rs : List RelRef) (e : Bool) : Userset → Bool
  | .diff b s => subOK rs false b && subOK rs e s
  | .union cs => allOK rs e cs
  | .inter cs => allOK rs e cs
  | u => subOK rs e u

/-- a comment is written for this module / file pair -/
def hasCmt (module file : String) : Bool := !(module == "" && file == "")

def relOK (md : Option TypeMeta) (ru : String × Userset) : Bool :=
  P ru.1 && topOK (relMetaOf md ru.1).restr (hasCmt (relMetaOf md ru.1).module (relMetaOf md ru.1).file) ru.2

def typeOK (t : TypeDef) : Bool :=
  P t.name && (!hasCmt (t.md.getD {}).module (t.md.getD {}).file || E t.name) && t.relations.all (relOK t.md)

def paramOK (np : String × CondParam) : Bool :=
  P np.1 && P np.2.typeName &&
    (if np.2.typeName == "list" || np.2.typeName == "map" then
       match np.2.generics with
       | [] => true
       | g :: _ => P g
     else true)

def condOK (kc : String × Condition) : Bool :=
  P kc.2.name && kc.2.params.all paramOK && P kc.2.expr

/-- **the hypothesis of `comments_inert`**.  With `P s` = "`s` contains no \" #\" and does not start with `#`" and
    `E s` = "`s` is not empty and does not end in a blank":

    * `P` of the schema version, of every type name, relation name, condition name, condition expression,
      parameter name, parameter type name (and of the first generic of a `list` / `map` parameter), of the type
      and condition of every type restriction, of every computed-relation and tupleset name;
    * a type restriction with a relation has a type satisfying `E` (or is a wildcard), and its relation
      contains no " #" (it may start with `#`);
    * when a comment is written after a type header (module or file not empty): `E` of the type name;
    * when a comment is written after a relation definition: `E` of the top-level operands that are relation
      names (`x`, and the tupleset of `x from y`).

    Nothing is asked of module and file names.  Blanks, `#` and line breaks inside the other strings are
    allowed as long as no " #" arises.  The counterexamples at the end of this file show that the conditions
    on the condition expression, on the type name (both `P` and `E`) and on restrictions cannot be dropped.
    The predicate is stronger than necessary in three places, for the sake of a uniform definition: (1) `P`
    forbids a leading `#` also for pieces that are never printed after a blank (e.g. a relation name right
    after "(" or a generic after "<"); (2) `E` is asked of every top-level operand, although only the one
    printed last (after the direct assignment has been hoisted) is followed by the comment; (3) entries that
    are never printed (a shadowed duplicate key, the parameters of a condition whose key differs from its
    name, anything in a model whose printing fails) are checked too. -/
def cleanB (m : Model) : Bool := P m.schema && m.types.all typeOK && m.conds.all condOK

/-! ## the text of a relation definition -/

theorem restr_P (r : RelRef) (h : restrOK r = true) : P (parseTypeRestriction r) = true := by
  simp only [restrOK, Bool.and_eq_true, Bool.or_eq_true] at h
  obtain ⟨⟨ht, hr⟩, hc⟩ := h
  have h1 : P (if r.wildcard = true then r.type ++ ":*" else r.type) = true := by
    split
    · exact P_append ht (by decide)
    · exact ht
  have h2 : P (if (r.rel != "") = true then (if r.wildcard = true then r.type ++ ":*" else r.type) ++ "#" ++ r.rel
      else (if r.wildcard = true then r.type ++ ":*" else r.type)) = true := by
    split
    · rename_i hne
      rcases hr with hr | hr
      · simp at hne hr; exact absurd hr hne
      · simp only [Bool.not_eq_true'] at hr
        refine P_hash h1 ?_ hr.2
        split
        · exact E_append (by decide)
        · rename_i hw
          rcases hr.1 with hw' | he
          · exact absurd hw' hw
          · exact he
    · exact h1
  simp only [parseTypeRestriction]
  split
  · exact P_append (P_append h2 (by decide)) hc
  · exact h2

theorem parseThis_G (rs : List RelRef) (e : Bool) (h : rs.all restrOK = true) : G e (parseThis rs) = true := by
  rw [G_iff]
  unfold parseThis
  refine ⟨P_append (P_append (by decide) (P_intercalate _ (by decide) _ ?_)) (by decide), fun _ => E_append (by decide)⟩
  intro x hx
  obtain ⟨r, hr, rfl⟩ := List.mem_map.1 hx
  exact restr_P r (List.all_eq_true.1 h r hr)

theorem paren_G (e : Bool) (x : String) (hx : P x = true) : G e ("(" ++ x ++ ")") = true := by
  rw [G_iff]
  exact ⟨P_append (P_append (by decide) hx) (by decide), fun _ => E_append (by decide)⟩

theorem moveToFront_mem (i : Nat) (xs : List α) (x : α) (h : x ∈ moveToFront i xs) : x ∈ xs := by
  unfold moveToFront at h
  simp only [List.mem_append, Option.mem_toList] at h
  rcases h with (h | h) | h
  · exact List.mem_of_mem_drop (List.mem_of_mem_head? h)
  · exact List.mem_of_mem_take h
  · exact List.mem_of_mem_drop h

theorem moveToFront_ne_nil (i : Nat) (xs : List α) (h : xs ≠ []) : moveToFront i xs ≠ [] := by
  cases xs with
  | nil => exact absurd rfl h
  | cons x xs => cases i <;> simp [moveToFront]

theorem hoist_mem (us : List Userset) (parts : List String) (x : String) (h : x ∈ hoistParts us parts) : x ∈ parts := by
  unfold hoistParts at h
  split at h
  · exact h
  · exact moveToFront_mem _ _ _ h

theorem hoist_ne_nil (us : List Userset) (parts : List String) (h : parts ≠ []) : hoistParts us parts ≠ [] := by
  unfold hoistParts
  split
  · exact h
  · exact moveToFront_ne_nil _ _ h

mutual
  theorem sub_G (ty rel : String) (rs : List RelRef) : (u : Userset) → (e : Bool) → (n : Nat) → (s : String) → (n' : Nat) →
      parseSubRelation ty rel rs u n = .ok (s, n') → subOK rs e u = true → G e s = true
    | .this, e, n, s, n', h, hu => by
        simp [parseSubRelation] at h; simp only [subOK] at hu; rw [← h.1]; exact parseThis_G rs e hu
    | .computed r, e, n, s, n', h, hu => by
        simp [parseSubRelation] at h; simp only [subOK] at hu; rw [← h.1]; exact hu
    | .ttu ts cu, e, n, s, n', h, hu => by
        simp [parseSubRelation] at h; simp only [subOK, Bool.and_eq_true] at hu; rw [← h.1]
        exact G_append (P_append hu.1 (by decide)) hu.2
    | .nil, e, n, s, n', h, hu => by simp [parseSubRelation] at h
    | .union cs, e, n, s, n', h, hu => by
        simp only [parseSubRelation] at h
        simp only [subOK] at hu
        split at h
        · cases h
        · split at h
          · rename_i parts n'' hc
            cases h
            have hp := (children_G ty rel rs cs false n parts _ hc hu).1
            exact paren_G e _ (P_intercalate _ (by decide) _
              (fun x hx => ((G_iff false x).1 (hp x (hoist_mem _ _ _ hx))).1))
          · cases h
    | .inter cs, e, n, s, n', h, hu => by
        simp only [parseSubRelation] at h
        simp only [subOK] at hu
        split at h
        · cases h
        · split at h
          · rename_i parts n'' hc
            cases h
            have hp := (children_G ty rel rs cs false n parts _ hc hu).1
            exact paren_G e _ (P_intercalate _ (by decide) _
              (fun x hx => ((G_iff false x).1 (hp x (hoist_mem _ _ _ hx))).1))
          · cases h
    | .diff b s', e, n, s, n', h, hu => by
        simp only [parseSubRelation] at h
        simp only [subOK, Bool.and_eq_true] at hu
        split at h
        · cases h
        · rename_i bs n1 hb
          split at h
          · cases h
          · rename_i ss n2 hs
            cases h
            have h1 := ((G_iff _ _).1 (sub_G ty rel rs b false n bs n1 hb hu.1)).1
            have h2 := ((G_iff _ _).1 (sub_G ty rel rs s' false n1 ss _ hs hu.2)).1
            have : "(" ++ bs ++ " but not " ++ ss ++ ")" = "(" ++ (bs ++ " but not " ++ ss) ++ ")" := by
              simp [String.append_assoc]
            rw [this]
            exact paren_G e _ (P_append (P_append h1 (by decide)) h2)
  theorem children_G (ty rel : String) (rs : List RelRef) : (cs : List Userset) → (e : Bool) → (n : Nat) →
      (parts : List String) → (n' : Nat) →
      parseChildren ty rel rs cs n = .ok (parts, n') → allOK rs e cs = true →
      (∀ x ∈ parts, G e x = true) ∧ parts.length = cs.length
    | [], e, n, parts, n', h, hu => by simp [parseChildren] at h; obtain ⟨rfl, _⟩ := h; simp
    | c :: cs, e, n, parts, n', h, hu => by
        simp only [parseChildren] at h
        simp only [allOK, Bool.and_eq_true] at hu
        split at h
        · cases h
        · rename_i s n1 hc
          split at h
          · cases h
          · rename_i ss n2 hs
            cases h
            have h1 := sub_G ty rel rs c e n s n1 hc hu.1
            have h2 := children_G ty rel rs cs e n1 ss _ hs hu.2
            refine ⟨?_, by simp [h2.2]⟩
            intro x hx
            rcases List.mem_cons.1 hx with rfl | hx
            · exact h1
            · exact h2.1 x hx
end

theorem top_G (ty rel : String) (rs : List RelRef) (u : Userset) (e : Bool) (s : String) (n : Nat)
    (h : parseTop ty rel rs u = .ok (s, n)) (hu : topOK rs e u = true) : G e s = true := by
  cases u with
  | this => exact sub_G ty rel rs _ e 0 s n (by simpa [parseTop] using h) (by simpa [topOK] using hu)
  | computed r => exact sub_G ty rel rs _ e 0 s n (by simpa [parseTop] using h) (by simpa [topOK] using hu)
  | ttu a b => exact sub_G ty rel rs _ e 0 s n (by simpa [parseTop] using h) (by simpa [topOK] using hu)
  | nil => exact sub_G ty rel rs _ e 0 s n (by simpa [parseTop] using h) (by simpa [topOK] using hu)
  | union cs =>
    simp only [parseTop] at h
    simp only [topOK] at hu
    split at h
    · cases h
    · rename_i hne
      split at h
      · rename_i parts n'' hc
        cases h
        have hp := children_G ty rel rs cs e 0 parts _ hc hu
        have hne' : parts ≠ [] := by
          intro hp0; rw [hp0] at hp; have := hp.2
          cases cs with
          | nil => simp at hne
          | cons => simp at this
        exact G_intercalate e _ (by decide) _ (hoist_ne_nil _ _ hne') (fun x hx => hp.1 x (hoist_mem _ _ _ hx))
      · cases h
  | inter cs =>
    simp only [parseTop] at h
    simp only [topOK] at hu
    split at h
    · cases h
    · rename_i hne
      split at h
      · rename_i parts n'' hc
        cases h
        have hp := children_G ty rel rs cs e 0 parts _ hc hu
        have hne' : parts ≠ [] := by
          intro hp0; rw [hp0] at hp; have := hp.2
          cases cs with
          | nil => simp at hne
          | cons => simp at this
        exact G_intercalate e _ (by decide) _ (hoist_ne_nil _ _ hne') (fun x hx => hp.1 x (hoist_mem _ _ _ hx))
      · cases h
  | diff b s' =>
    simp only [parseTop] at h
    simp only [topOK, Bool.and_eq_true] at hu
    split at h
    · cases h
    · rename_i bs n1 hb
      split at h
      · cases h
      · rename_i ss n2 hs
        cases h
        have h1 := ((G_iff _ _).1 (sub_G ty rel rs b false 0 bs n1 hb hu.1)).1
        have h2 := sub_G ty rel rs s' e n1 ss _ hs hu.2
        exact G_append (P_append h1 (by decide)) h2

/-! ## the comment -/

theorem cmt_false (m f l : String) : constructSourceComment m f l false = "" := by
  simp [constructSourceComment]

theorem cmt_none (m f l : String) (h : hasCmt m f = false) : constructSourceComment m f l true = "" := by
  simp only [hasCmt, Bool.not_eq_false'] at h
  simp [constructSourceComment, h]

theorem oneLine_noNL (s : String) : '\n' ∉ (oneLine s).toList := by
  unfold oneLine
  rw [String.toList_map]
  intro h
  obtain ⟨c, _, hc⟩ := List.mem_map.1 h
  split at hc
  · exact absurd hc (by decide)
  · rename_i hn; subst hc; simp at hn

theorem cmt_some (m f l : String) (h : hasCmt m f = true) (hl : '\n' ∉ l.toList) :
    ∃ c, (constructSourceComment m f l true).toList = ' ' :: '#' :: c ∧ '\n' ∉ c := by
  simp only [hasCmt, Bool.not_eq_true'] at h
  refine ⟨l.toList ++ " module: ".toList ++ (oneLine m).toList ++ ", file: ".toList ++ (oneLine f).toList, ?_, ?_⟩
  · simp [constructSourceComment, h, String.toList_append]
  · simp only [List.mem_append, not_or]
    exact ⟨⟨⟨⟨hl, by decide⟩, oneLine_noNL m⟩, by decide⟩, oneLine_noNL f⟩

/-- `d` strips to `p` -/
def SS (d p : String) : Prop := strip d.toList = p.toList

theorem SS_iff (d p : String) : SS d p ↔ stripComments d = p := by
  unfold SS stripComments
  constructor
  · intro h; rw [h, String.ofList_toList]
  · intro h; rw [← h, String.toList_ofList]

theorem SS_refl (s : String) (h : hasSH s.toList = false) : SS s s := strip_of_noSH _ h

theorem SS_empty : SS "" "" := by unfold SS; decide

theorem SS_nl {d1 p1 d2 p2 : String} (h1 : SS d1 p1) (h2 : SS d2 p2) : SS (d1 ++ "\n" ++ d2) (p1 ++ "\n" ++ p2) := by
  unfold SS at *
  have e : ∀ a b : String, (a ++ "\n" ++ b).toList = a.toList ++ '\n' :: b.toList := by
    intro a b; simp [String.toList_append]
  rw [e, e, strip_nl, h1, h2]

theorem SS_nl_left {d p : String} (h : SS d p) : SS ("\n" ++ d) ("\n" ++ p) := by
  have := SS_nl SS_empty h
  simpa using this

theorem SS_append {d1 p1 d2 p2 : String} (h1 : SS d1 p1) (h2 : SS d2 p2) (hs : NLstart d2.toList) :
    SS (d1 ++ d2) (p1 ++ p2) := by
  unfold SS at *
  rw [String.toList_append, String.toList_append, strip_append_of_NLstart _ _ hs, h1, h2]

/-- a line followed by its comment -/
theorem line_cmt (l m f lead : String) (hl : hasSH l.toList = false) (he : hasCmt m f = true → E l = true)
    (hlead : '\n' ∉ lead.toList) : SS (l ++ constructSourceComment m f lead true) l := by
  cases h : hasCmt m f with
  | false => rw [cmt_none m f lead h, String.append_empty]; exact SS_refl l hl
  | true =>
    obtain ⟨c, hc, hn⟩ := cmt_some m f lead h hlead
    unfold SS
    rw [String.toList_append, hc]
    exact strip_comment _ _ hl (eOK_not_endsBlank _ (he h)) hn

/-! ## function by function

Each lemma has the shape `Inert R f`: the two runs fail with the same error, or both succeed with texts
related by `R`.  The verdict part needs no hypothesis (the option only reaches `constructSourceComment`),
so the hypotheses of the text part are kept inside `R`. -/

/-- same error for both option values, or two successes related by `R` -/
def Inert (R : String → String → Prop) (f : Bool → Except PrintErr String) : Prop :=
  (∃ e, f true = .error e ∧ f false = .error e) ∨ (∃ d p, f true = .ok d ∧ f false = .ok p ∧ R d p)

theorem parseRelation_inert (ty rel : String) (u : Userset) (md : RelMeta) :
    Inert (fun d p => P rel = true → topOK md.restr (hasCmt md.module md.file) u = true → SS d p)
      (parseRelation ty rel u md) := by
  unfold Inert parseRelation
  cases h : parseTop ty rel md.restr u with
  | error e => exact Or.inl ⟨e, rfl, rfl⟩
  | ok so =>
    obtain ⟨s, occ⟩ := so
    simp only []
    by_cases hc : (occ == 0 || (occ == 1 && isFirstPosition u)) = true
    · simp only [hc, if_true]
      refine Or.inr ⟨_, _, rfl, rfl, ?_⟩
      intro hr hu
      rw [cmt_false, String.append_empty]
      have hG := (G_iff _ _).1 (top_G ty rel md.restr u _ s occ h hu)
      have hP : P ("    define " ++ rel ++ ": " ++ s) = true :=
        P_append (P_append (P_append (by decide) hr) (by decide)) hG.1
      exact line_cmt _ _ _ _ (P_noSH hP) (fun hcm => E_append (hG.2 hcm)) (by decide)
    · simp only [hc]
      exact Or.inl ⟨_, rfl, rfl⟩

theorem find?_mem (k : String) (v : α) : (l : List (String × α)) → AList.find? k l = some v → (k, v) ∈ l
  | [], h => by simp [AList.find?] at h
  | (k', v') :: rest, h => by
      simp only [AList.find?] at h
      split at h
      · rename_i hk
        have : k = k' := by simpa using hk
        cases h; subst this; simp
      · exact List.mem_cons_of_mem _ (find?_mem k v rest h)

theorem parseRelations_inert (ty : String) (rels : List (String × Userset)) (md : Option TypeMeta) :
    (names : List String) →
      Inert (fun d p => (∀ ru ∈ rels, relOK md ru = true) → SS d p ∧ NLstart d.toList)
        (fun src => parseRelations ty rels md src names)
  | [] => Or.inr ⟨"", "", rfl, rfl, fun _ => ⟨SS_empty, Or.inl (by simp)⟩⟩
  | r :: rest => by
      have ih := parseRelations_inert ty rels md rest
      unfold Inert at *
      simp only [parseRelations]
      cases hf : AList.find? r rels with
      | none => exact ih
      | some u =>
        simp only []
        rcases parseRelation_inert ty r u (relMetaOf md r) with ⟨e, h1, h2⟩ | ⟨d, p, h1, h2, hdp⟩
        · exact Or.inl ⟨e, by simp [h1], by simp [h2]⟩
        · rcases ih with ⟨e, i1, i2⟩ | ⟨d', p', i1, i2, hdp'⟩
          · exact Or.inl ⟨e, by simp [h1, i1], by simp [h2, i2]⟩
          · refine Or.inr ⟨"\n" ++ d ++ d', "\n" ++ p ++ p', by simp [h1, i1], by simp [h2, i2], ?_⟩
            intro hrel
            have hro := hrel (r, u) (find?_mem r u rels hf)
            simp only [relOK, Bool.and_eq_true] at hro
            refine ⟨?_, Or.inr ⟨_, by simp [String.toList_append]; rfl⟩⟩
            rw [String.append_assoc, String.append_assoc]
            exact SS_nl_left (SS_append (hdp hro.1 hro.2) (hdp' hrel).1 (hdp' hrel).2)

theorem parseType_inert (t : TypeDef) (isModular : Bool) :
    Inert (fun d p => typeOK t = true → SS d p) (parseType t isModular) := by
  have hhead : typeOK t = true →
      SS ("type " ++ t.name ++ constructSourceComment (t.md.getD {}).module (t.md.getD {}).file "" true)
        ("type " ++ t.name) := by
    intro ht
    simp only [typeOK, Bool.and_eq_true, Bool.or_eq_true, Bool.not_eq_true'] at ht
    obtain ⟨⟨hn, he⟩, _⟩ := ht
    refine line_cmt _ _ _ _ (P_noSH (P_append (by decide) hn)) (fun hc => E_append ?_) (by decide)
    rcases he with he | he
    · rw [he] at hc; cases hc
    · exact he
  have key : ∀ names, Inert (fun d p => typeOK t = true → SS d p) (fun src =>
      match parseRelations t.name t.relations t.md src names with
      | .error e => .error e
      | .ok body => .ok ("type " ++ t.name ++ constructSourceComment (t.md.getD {}).module (t.md.getD {}).file "" src
          ++ "\n  relations" ++ body)) := by
    intro names
    rcases parseRelations_inert t.name t.relations t.md names with ⟨e, h1, h2⟩ | ⟨d, p, h1, h2, hdp⟩
    · exact Or.inl ⟨e, by simp [h1], by simp [h2]⟩
    · refine Or.inr ⟨"type " ++ t.name ++ constructSourceComment (t.md.getD {}).module (t.md.getD {}).file "" true
          ++ "\n  relations" ++ d, "type " ++ t.name ++ constructSourceComment (t.md.getD {}).module (t.md.getD {}).file "" false
          ++ "\n  relations" ++ p, by simp only [h1], by simp only [h2], ?_⟩
      intro ht
      have hrels : t.relations.all (relOK t.md) = true := by
        simp only [typeOK, Bool.and_eq_true] at ht; exact ht.2
      have hdp' := hdp (fun ru h => List.all_eq_true.1 hrels ru h)
      rw [cmt_false, String.append_empty]
      have e1 : ∀ a b : String, a ++ "\n  relations" ++ b = a ++ "\n" ++ ("  relations" ++ b) := by
        intro a b
        have : ("\n  relations" : String) = "\n" ++ "  relations" := by decide
        rw [this]; simp only [String.append_assoc]
      rw [e1, e1]
      exact SS_nl (hhead ht) (SS_append (SS_refl _ (by decide)) hdp'.1 hdp'.2)
  unfold parseType
  simp only []
  by_cases hemp : t.relations.isEmpty = true
  · simp only [hemp, if_true]
    refine Or.inr ⟨_, _, rfl, rfl, ?_⟩
    intro ht
    rw [cmt_false, String.append_empty]
    exact hhead ht
  · simp only [hemp]
    exact key _

/-- what `transform` makes of the list of printed type definitions -/
def fin (tds : List String) : String := "\n".intercalate tds ++ (if tds.isEmpty then "" else "\n")

theorem fin_cons (x : String) (more : List String) : fin (x :: more) = x ++ "\n" ++ fin more := by
  cases more with
  | nil => simp [fin]
  | cons y more => simp [fin, String.append_assoc]

theorem parseTypes_inert (isModular : Bool) :
    (ts : List TypeDef) →
    (∃ e, parseTypes isModular true ts = .error e ∧ parseTypes isModular false ts = .error e) ∨
    (∃ ds ps, parseTypes isModular true ts = .ok ds ∧ parseTypes isModular false ts = .ok ps ∧
      ((∀ t ∈ ts, typeOK t = true) → SS (fin ds) (fin ps)))
  | [] => Or.inr ⟨[], [], rfl, rfl, fun _ => by unfold SS; decide⟩
  | t :: rest => by
      have ih := parseTypes_inert isModular rest
      simp only [parseTypes]
      rcases parseType_inert t isModular with ⟨e, h1, h2⟩ | ⟨d, p, h1, h2, hdp⟩
      · exact Or.inl ⟨e, by simp [h1], by simp [h2]⟩
      · rcases ih with ⟨e, i1, i2⟩ | ⟨ds, ps, i1, i2, hdps⟩
        · exact Or.inl ⟨e, by simp [h1, i1], by simp [h2, i2]⟩
        · refine Or.inr ⟨("\n" ++ d) :: ds, ("\n" ++ p) :: ps, by simp [h1, i1], by simp [h2, i2], ?_⟩
          intro h
          rw [fin_cons, fin_cons]
          exact SS_nl (SS_nl_left (hdp (h t (by simp)))) (hdps (fun t ht => h t (List.mem_cons_of_mem _ ht)))

/-! ## conditions -/

theorem params_P : (ps : List (String × CondParam)) → (l : List String) → parseConditionParams ps = .ok l →
    (∀ x ∈ ps, paramOK x = true) → ∀ s ∈ l, P s = true
  | [], l, h, _ => by simp [parseConditionParams] at h; subst h; simp
  | (name, p) :: rest, l, h, hp => by
      simp only [parseConditionParams] at h
      have hpo := hp (name, p) (by simp)
      simp only [paramOK, Bool.and_eq_true] at hpo
      split at h
      · cases h
      · rename_i t ht
        have hPt : P t = true := by
          split at ht
          · rename_i hlm
            rw [if_pos hlm] at hpo
            split at ht
            · cases ht
            · rename_i g gs hg
              cases ht
              rw [hg] at hpo
              exact P_append (P_append (P_append hpo.1.2 (by decide)) hpo.2) (by decide)
          · cases ht; exact hpo.1.2
        split at h
        · cases h
        · rename_i more hm
          cases h
          intro s hs
          rcases List.mem_cons.1 hs with rfl | hs
          · exact P_append (P_append hpo.1.1 (by decide)) hPt
          · exact params_P rest more hm (fun x hx => hp x (List.mem_cons_of_mem _ hx)) s hs

theorem mem_insertionSort {α : Type} (le : α → α → Bool) (xs : List α) (x : α) (h : x ∈ insertionSort le xs) : x ∈ xs :=
  (insertionSort_perm le xs).mem_iff.1 h

theorem parseCondition_inert (key : String) (c : Condition) :
    Inert (fun d p => condOK (key, c) = true → SS d p) (parseCondition key c) := by
  unfold Inert parseCondition
  by_cases hk : (key != c.name) = true
  · simp only [hk, if_true]
    exact Or.inl ⟨_, rfl, rfl⟩
  · simp only [hk]
    cases hp : parseConditionParams (insertionSort (fun a b => decide (a.1 ≤ b.1)) c.params) with
    | error e => exact Or.inl ⟨e, rfl, rfl⟩
    | ok ps =>
      refine Or.inr ⟨_, _, rfl, rfl, ?_⟩
      intro hc
      simp only [condOK, Bool.and_eq_true] at hc
      obtain ⟨⟨hn, hps⟩, hx⟩ := hc
      rw [cmt_false]
      have hP : ∀ s ∈ ps, P s = true := params_P _ ps hp
        (fun x hx => List.all_eq_true.1 hps x (mem_insertionSort _ _ _ hx))
      have hA : P ("condition " ++ c.name ++ "(" ++ ", ".intercalate ps ++ ") {\n  " ++ c.expr) = true :=
        P_append (P_append (P_append (P_append (P_append (by decide) hn) (by decide))
          (P_intercalate _ (by decide) _ hP)) (by decide)) hx
      have e1 : ∀ a b : String, a ++ "\n}" ++ b ++ "\n" = a ++ "\n" ++ ("}" ++ b) ++ "\n" ++ "" := by
        intro a b
        have : ("\n}" : String) = "\n" ++ "}" := by decide
        rw [this]; simp only [String.append_assoc, String.append_empty]
      rw [e1, e1]
      refine SS_nl (SS_nl (SS_refl _ (P_noSH hA)) ?_) SS_empty
      have := line_cmt "}" (c.md.getD {}).module (c.md.getD {}).file "" (by decide) (fun _ => by decide) (by decide)
      simpa using this

theorem parseConditionList_inert :
    (conds : List (String × Condition)) →
      Inert (fun d p => (∀ kc ∈ conds, condOK kc = true) → SS d p ∧ NLstart d.toList)
        (fun src => parseConditionList src conds)
  | [] => Or.inr ⟨"", "", rfl, rfl, fun _ => ⟨SS_empty, Or.inl (by simp)⟩⟩
  | (k, c) :: rest => by
      have ih := parseConditionList_inert rest
      unfold Inert at *
      simp only [parseConditionList]
      rcases parseCondition_inert k c with ⟨e, h1, h2⟩ | ⟨d, p, h1, h2, hdp⟩
      · exact Or.inl ⟨e, by simp [h1], by simp [h2]⟩
      · rcases ih with ⟨e, i1, i2⟩ | ⟨d', p', i1, i2, hdp'⟩
        · exact Or.inl ⟨e, by simp [h1, i1], by simp [h2, i2]⟩
        · refine Or.inr ⟨"\n" ++ d ++ d', "\n" ++ p ++ p', by simp [h1, i1], by simp [h2, i2], ?_⟩
          intro h
          have hr := hdp' (fun kc hkc => h kc (List.mem_cons_of_mem _ hkc))
          refine ⟨?_, Or.inr ⟨_, by simp [String.toList_append]; rfl⟩⟩
          rw [String.append_assoc, String.append_assoc]
          exact SS_nl_left (SS_append (hdp (h (k, c) (by simp))) hr.1 hr.2)

/-! ## the main theorem -/

theorem mem_orderedTypes (m : Model) (t : TypeDef) (h : t ∈ orderedTypes m) : t ∈ m.types := by
  unfold orderedTypes at h
  split at h
  · exact mem_insertionSort _ _ _ h
  · exact h

/-- The verdict never depends on the option (no hypothesis); the texts are related by `strip` when the
    model is clean. -/
theorem comments_inert_aux (m : Model) :
    (∃ e, transform m true = .error e ∧ transform m false = .error e) ∨
    (∃ s p, transform m true = .ok s ∧ transform m false = .ok p ∧ (cleanB m = true → stripComments s = p)) := by
  have hfold : ∀ tds : List String, "\n".intercalate tds ++ (if tds.isEmpty then "" else "\n") = fin tds := fun _ => rfl
  unfold transform
  simp only [hfold]
  rcases parseTypes_inert (m.types.any (fun t => typeModule t != "")) (orderedTypes m) with
    ⟨e, h1, h2⟩ | ⟨ds, ps, h1, h2, hdp⟩
  · exact Or.inl ⟨e, by simp [h1], by simp [h2]⟩
  · have hcl := parseConditionList_inert
      (insertionSort (fun (a b : String × Condition) =>
        sortByModuleLe a.1 b.1 (a.2.md.getD {}).module (b.2.md.getD {}).module (a.2.md.getD {}).file (b.2.md.getD {}).file) m.conds)
    rcases hcl with ⟨e, c1, c2⟩ | ⟨cd, cp, c1, c2, hcs⟩
    · exact Or.inl ⟨e, by simp [h1, parseConditions, c1], by simp [h2, parseConditions, c2]⟩
    · refine Or.inr ⟨"model\n  schema " ++ m.schema ++ "\n" ++ fin ds ++ cd, "model\n  schema " ++ m.schema ++ "\n" ++ fin ps ++ cp,
        by simp [h1, parseConditions, c1], by simp [h2, parseConditions, c2], ?_⟩
      intro h
      simp only [cleanB, Bool.and_eq_true] at h
      obtain ⟨⟨hs, ht⟩, hc⟩ := h
      have hdp' := hdp (fun t h' => List.all_eq_true.1 ht t (mem_orderedTypes m t h'))
      have hcs' := hcs (fun kc hkc => List.all_eq_true.1 hc kc (mem_insertionSort _ _ _ hkc))
      rw [← SS_iff]
      rw [String.append_assoc (s₃ := cd), String.append_assoc (s₃ := cp)]
      exact SS_nl (SS_refl _ (P_noSH (P_append (by decide) hs))) (SS_append hdp' hcs'.1 hcs'.2)

/-- **Source-information comments are inert.**  For a model satisfying `cleanB`, printing with and without
    source information fails with the same error, or both succeed and stripping the comments from the
    former gives the latter. -/
theorem comments_inert (m : Model) (h : cleanB m = true) :
    (∃ e, transform m true = .error e ∧ transform m false = .error e) ∨
    (∃ s p, transform m true = .ok s ∧ transform m false = .ok p ∧ stripComments s = p) := by
  rcases comments_inert_aux m with h' | ⟨s, p, h1, h2, h3⟩
  · exact Or.inl h'
  · exact Or.inr ⟨s, p, h1, h2, h3 h⟩

/-- **The verdict does not depend on the option**, for every model (no hypothesis): the same error, or two
    successes. -/
theorem same_verdict (m : Model) :
    (∃ e, transform m true = .error e ∧ transform m false = .error e) ∨
    (∃ s p, transform m true = .ok s ∧ transform m false = .ok p) := by
  rcases comments_inert_aux m with h' | ⟨s, p, h1, h2, _⟩
  · exact Or.inl h'
  · exact Or.inr ⟨s, p, h1, h2⟩

/-- the same, as a function of the successful output -/
theorem plain_eq_strip (m : Model) (h : cleanB m = true) (s : String) (hs : transform m true = .ok s) :
    transform m false = .ok (stripComments s) := by
  rcases comments_inert m h with ⟨e, h1, _⟩ | ⟨s', p, h1, h2, h3⟩
  · rw [h1] at hs; cases hs
  · rw [h1] at hs; cases hs; rw [h2, h3]

/-! ## the hypothesis is needed: inputs outside `cleanB` for which the statement is false

(`decide +kernel` because `String.map`, used by `oneLine`, is defined by well-founded recursion, which
`decide` does not unfold; no axiom beyond the three standard ones is involved.) -/

theorem ok_of_toOption {x : Except PrintErr String} {s : String} (h : x.toOption = some s) : x = .ok s := by
  cases x with
  | error e => simp [Except.toOption] at h
  | ok a => simp [Except.toOption] at h; rw [h]

theorem stripComments_ne {s p : String} (h : strip s.toList ≠ p.toList) : stripComments s ≠ p :=
  fun h' => h ((SS_iff s p).2 h')

/-- what "the statement is false for `m`" means: both runs succeed and `strip` of the first is not the second -/
def Refutes (m : Model) (s p : String) : Prop :=
  transform m true = .ok s ∧ transform m false = .ok p ∧ stripComments s ≠ p

/-- a condition expression containing " #": the plain output itself is cut by `strip` -/
def cexExpr : Model :=
  { schema := "1.1", conds := [("c", { name := "c", expr := "x #y", md := some { module := "m", file := "f" } })] }
example : cleanB cexExpr = false := by decide +kernel
example : Refutes cexExpr
    "model\n  schema 1.1\n\ncondition c() {\n  x #y\n} # module: m, file: f\n"
    "model\n  schema 1.1\n\ncondition c() {\n  x #y\n}\n" :=
  ⟨ok_of_toOption (by decide +kernel), ok_of_toOption (by decide +kernel), stripComments_ne (by decide +kernel)⟩
example : strip "model\n  schema 1.1\n\ncondition c() {\n  x #y\n} # module: m, file: f\n".toList =
    "model\n  schema 1.1\n\ncondition c() {\n  x\n}\n".toList := by decide +kernel

/-- a type name ending in a blank, with source information: the blank is trimmed together with the comment -/
def cexBlank : Model := { schema := "1.1", types := [{ name := "a ", md := some { module := "m", file := "f" } }] }
example : cleanB cexBlank = false := by decide +kernel
example : Refutes cexBlank "model\n  schema 1.1\n\ntype a  # module: m, file: f\n" "model\n  schema 1.1\n\ntype a \n" :=
  ⟨ok_of_toOption (by decide +kernel), ok_of_toOption (by decide +kernel), stripComments_ne (by decide +kernel)⟩

/-- … the same with an empty type name ("type " ends in a blank) -/
def cexEmpty : Model := { schema := "1.1", types := [{ name := "", md := some { module := "m", file := "f" } }] }
example : cleanB cexEmpty = false := by decide +kernel
example : Refutes cexEmpty "model\n  schema 1.1\n\ntype  # module: m, file: f\n" "model\n  schema 1.1\n\ntype \n" :=
  ⟨ok_of_toOption (by decide +kernel), ok_of_toOption (by decide +kernel), stripComments_ne (by decide +kernel)⟩

/-- a name starting with `#`, without any source information: the two outputs are *equal* and `strip` still
    changes them -/
def cexHash : Model := { schema := "1.1", types := [{ name := "#a" }] }
example : cleanB cexHash = false := by decide +kernel
example : Refutes cexHash "model\n  schema 1.1\n\ntype #a\n" "model\n  schema 1.1\n\ntype #a\n" :=
  ⟨ok_of_toOption (by decide +kernel), ok_of_toOption (by decide +kernel), stripComments_ne (by decide +kernel)⟩

/-- a type restriction with an empty type and a relation, after another restriction: ", #member" -/
def cexRestr : Model :=
  { schema := "1.1",
    types := [{ name := "doc", relations := [("viewer", .this)],
                md := some { relations := [("viewer", { restr := [⟨"user", "", false, ""⟩, ⟨"", "member", false, ""⟩] })] } }] }
example : cleanB cexRestr = false := by decide +kernel
example : Refutes cexRestr
    "model\n  schema 1.1\n\ntype doc\n  relations\n    define viewer: [user, #member]\n"
    "model\n  schema 1.1\n\ntype doc\n  relations\n    define viewer: [user, #member]\n" :=
  ⟨ok_of_toOption (by decide +kernel), ok_of_toOption (by decide +kernel), stripComments_ne (by decide +kernel)⟩

/-! ## the hypothesis is weak: blanks, `#`, line breaks and " #" where they do no harm

Names with blanks, `#` and line breaks inside, module and file names containing " #" and line breaks, a
multi-line condition expression ending in a blank, operands ending in a blank inside parentheses, empty
tupleset / computed names: all accepted by `cleanB`, and the conclusion is checked by evaluation. -/
def odd : Model :=
  { schema := "1.1 ",
    types := [{ name := "a#b c\nd",
                relations := [("el", .union [.this, .computed "x y", .inter [.computed "z ", .ttu "" ""]])],
                md := some { module := "mod #1\nx", file := "f #",
                             relations := [("el", { restr := [⟨"u", "#m", false, ""⟩, ⟨"", "q", true, "c d "⟩],
                                                    module := " #", file := "" })] } }],
    conds := [("c", { name := "c", expr := "x\n  && y# z ",
                      params := [("p", { typeName := "list", generics := ["t# t"] })],
                      md := some { module := "m #" } })] }
example : cleanB odd = true := by decide +kernel
example : (transform odd true).toOption = some
    "model\n  schema 1.1 \n\ntype a#b c\nd # module: mod #1 x, file: f #\n  relations\n    define el: [u##m, :*#q with c d ] or x y or (z  and  from ) # extended by: module:  #, file: \n\ncondition c(p: list<t# t>) {\n  x\n  && y# z \n} # module: m #, file: \n" := by
  decide +kernel
example : (transform odd false).toOption = some
    "model\n  schema 1.1 \n\ntype a#b c\nd\n  relations\n    define el: [u##m, :*#q with c d ] or x y or (z  and  from )\n\ncondition c(p: list<t# t>) {\n  x\n  && y# z \n}\n" := by
  decide +kernel

/-- the failure branch is inhabited too: an unset userset fails the same way for both option values -/
def failing : Model := { schema := "1.1", types := [{ name := "t", relations := [("r", .nil)], md := some { module := "m" } }] }
example : cleanB failing = true := by decide +kernel
example : transform failing true = .error (.nesting "t" "r") ∧ transform failing false = .error (.nesting "t" "r") :=
  ⟨by rfl, by rfl⟩

end FgaVerif.Proofs.CommentInert
