import FgaVerif.Spec.WeightsSem
import FgaVerif.Proofs.WeightsPoint
/-! The computed weights are the ones `Spec/WeightsSem.lean` describes.

    * Soundness (no hypothesis on convergence): every key/value that the iteration ever writes is
      witnessed by a walk — an invariant of `stepState`, carried through both phases of `weights`.
    * Completeness (at a fixed point): every terminal type that reaches a node is a key of its map, and
      the value dominates the hop count of every walk (saturating). -/
namespace FgaVerif.Spec.Weights

/-! ### one edge -/
def shiftVal (cap : Nat) (hop : Bool) (v : Nat) : Nat :=
  if hop then (if v ≥ infinite then infinite else Nat.min (v + 1) cap) else v

theorem lookupW_shift (cap : Nat) (hop : Bool) (w : WMap) (k : String) :
    lookupW k (shift cap hop w) = (lookupW k w).map (shiftVal cap hop) := by
  unfold shift shiftVal
  cases hop with
  | false => simp
  | true =>
    simp only [if_true]
    rw [lookupW_map] <;> first | rfl | (intro p; rfl)

/-- the value an edge contributes for key `T` -/
def edgeVal (cap : Nat) (st : State) (T : String) (e : Edge) : Option Nat :=
  match e.dst with
  | .type t => if T == t then some 1 else none
  | .wildcard t => if T == t then some 1 else none
  | .node m => (lookupW T (stateGet st m)).map (shiftVal cap e.hop)

theorem lookupW_contribution (cap : Nat) (st : State) (T : String) (e : Edge) :
    lookupW T (contribution cap st e) = edgeVal cap st T e := by
  unfold contribution edgeVal
  cases e.dst <;> simp [lookupW, lookupW_shift]

/-! ### one node -/
def KeyCond (Q : Edge → Prop) (nd : Node) : Prop :=
  match nd.kind with
  | .inter => nd.edges ≠ [] ∧ ∀ e ∈ nd.edges, Q e
  | .diff => 2 ≤ nd.edges.length ∧ ∃ e ∈ nd.edges.dropLast, Q e
  | _ => ∃ e ∈ nd.edges, Q e

theorem KeyCond.mono {Q Q' : Edge → Prop} {nd : Node} (h : ∀ e ∈ nd.edges, Q e → Q' e) (hk : KeyCond Q nd) :
    KeyCond Q' nd := by
  unfold KeyCond at *
  cases hkind : nd.kind <;> simp only [hkind] at hk ⊢
  · obtain ⟨e, he, hq⟩ := hk; exact ⟨e, he, h e he hq⟩
  · obtain ⟨e, he, hq⟩ := hk; exact ⟨e, he, h e he hq⟩
  · exact ⟨hk.1, fun e he => h e he (hk.2 e he)⟩
  · obtain ⟨h2, e, he, hq⟩ := hk; exact ⟨h2, e, he, h e (List.dropLast_subset _ he) hq⟩
  · obtain ⟨e, he, hq⟩ := hk; exact ⟨e, he, h e he hq⟩

theorem contributions_sorted (cap : Nat) (st : State) (hst : StateSorted st) (nd : Node) :
    ∀ c ∈ nd.edges.map (contribution cap st), SortedW c := by
  intro c hc
  obtain ⟨e, _, rfl⟩ := List.mem_map.1 hc
  exact sortedW_contribution cap st hst e

theorem union_extract (cap : Nat) (st : State) (hst : StateSorted st) (nd : Node) (T : String) (v : Nat)
    (h : lookupW T ((nd.edges.map (contribution cap st)).foldl unionMax []) = some v) :
    ∃ e ∈ nd.edges, edgeVal cap st T e = some v := by
  rw [lookupW_unionAll T _ (contributions_sorted cap st hst nd)] at h
  obtain ⟨c, hc, hv⟩ := lookups_extract T _ v h
  obtain ⟨e, he, rfl⟩ := List.mem_map.1 hc
  rw [lookupW_contribution] at hv
  exact ⟨e, he, hv⟩

theorem nodeWeights_extract (cap : Nat) (st : State) (hst : StateSorted st) (nd : Node) (T : String) (v : Nat)
    (h : lookupW T (nodeWeights cap st nd) = some v) :
    KeyCond (fun e => (edgeVal cap st T e).isSome = true) nd ∧ ∃ e ∈ nd.edges, edgeVal cap st T e = some v := by
  have hs := contributions_sorted cap st hst nd
  unfold nodeWeights at h
  simp only at h
  unfold KeyCond
  cases hk : nd.kind <;> rw [hk] at h <;> simp only at h ⊢
  · obtain ⟨e, he, hv⟩ := union_extract cap st hst nd T v h
    exact ⟨⟨e, he, by simp [hv]⟩, e, he, hv⟩
  · obtain ⟨e, he, hv⟩ := union_extract cap st hst nd T v h
    exact ⟨⟨e, he, by simp [hv]⟩, e, he, hv⟩
  · obtain ⟨hne, hall, c, hc, hv⟩ := interCombine_extract T _ v h
    obtain ⟨e, he, rfl⟩ := List.mem_map.1 hc
    rw [lookupW_contribution] at hv
    refine ⟨⟨?_, ?_⟩, e, he, hv⟩
    · intro hnil; apply hne; simp [hnil]
    · intro e' he'
      have := hall _ (List.mem_map_of_mem he')
      rwa [lookupW_contribution] at this
  · obtain ⟨h2, ⟨cb, hcb, hsome⟩, c, hc, hv⟩ := diffCombine_extract T _ hs v h
    obtain ⟨e, he, rfl⟩ := List.mem_map.1 hc
    rw [lookupW_contribution] at hv
    rw [← List.map_dropLast] at hcb
    obtain ⟨eb, heb, rfl⟩ := List.mem_map.1 hcb
    rw [lookupW_contribution] at hsome
    refine ⟨⟨?_, eb, heb, hsome⟩, e, he, hv⟩
    simpa using h2
  · obtain ⟨e, he, hv⟩ := union_extract cap st hst nd T v h
    exact ⟨⟨e, he, by simp [hv]⟩, e, he, hv⟩

theorem union_dominate (cap : Nat) (st : State) (hst : StateSorted st) (nd : Node) (T : String)
    (hk : ∃ e ∈ nd.edges, (edgeVal cap st T e).isSome = true) :
    ∃ v, lookupW T ((nd.edges.map (contribution cap st)).foldl unionMax []) = some v ∧
      ∀ e ∈ nd.edges, ∀ u, edgeVal cap st T e = some u → u ≤ v := by
  rw [lookupW_unionAll T _ (contributions_sorted cap st hst nd)]
  obtain ⟨e0, he0, hs0⟩ := hk
  obtain ⟨u0, hu0⟩ := Option.isSome_iff_exists.1 hs0
  obtain ⟨v, hv, _⟩ := lookups_dominate T (nd.edges.map (contribution cap st)) (contribution cap st e0) u0
    (List.mem_map_of_mem he0) (by rw [lookupW_contribution]; exact hu0)
  refine ⟨v, hv, ?_⟩
  intro e he u hu
  obtain ⟨v', hv', hle⟩ := lookups_dominate T (nd.edges.map (contribution cap st)) (contribution cap st e) u
    (List.mem_map_of_mem he) (by rw [lookupW_contribution]; exact hu)
  rw [hv] at hv'; cases hv'; exact hle

theorem nodeWeights_dominate (cap : Nat) (st : State) (hst : StateSorted st) (nd : Node) (T : String)
    (hk : KeyCond (fun e => (edgeVal cap st T e).isSome = true) nd) :
    ∃ v, lookupW T (nodeWeights cap st nd) = some v ∧ ∀ e ∈ nd.edges, ∀ u, edgeVal cap st T e = some u → u ≤ v := by
  have hs := contributions_sorted cap st hst nd
  unfold nodeWeights
  simp only
  unfold KeyCond at hk
  cases hkind : nd.kind <;> rw [hkind] at hk <;> simp only at hk ⊢
  · exact union_dominate cap st hst nd T hk
  · exact union_dominate cap st hst nd T hk
  · obtain ⟨hne, hall⟩ := hk
    obtain ⟨v, hv, hdom⟩ := interCombine_dominate T (nd.edges.map (contribution cap st)) (by simpa using hne)
      (by
        intro c hc
        obtain ⟨e, he, rfl⟩ := List.mem_map.1 hc
        rw [lookupW_contribution]; exact hall e he)
    refine ⟨v, hv, ?_⟩
    intro e he u hu
    exact hdom _ (List.mem_map_of_mem he) u (by rw [lookupW_contribution]; exact hu)
  · obtain ⟨h2, eb, heb, hsome⟩ := hk
    obtain ⟨v, hv, hdom⟩ := diffCombine_dominate T (nd.edges.map (contribution cap st)) hs (by simpa using h2)
      ⟨contribution cap st eb, by rw [← List.map_dropLast]; exact List.mem_map_of_mem heb,
        by rw [lookupW_contribution]; exact hsome⟩
    refine ⟨v, hv, ?_⟩
    intro e he u hu
    exact hdom _ (List.mem_map_of_mem he) u (by rw [lookupW_contribution]; exact hu)
  · exact union_dominate cap st hst nd T hk

/-! ### the state after one round -/
theorem stateGet_mapNodes (f : Node → WMap) (n : String) : ∀ (g : SGraph),
    stateGet (g.map (fun nd => (nd.name, f nd))) n = match nodeOf g n with | some nd => f nd | none => []
  | [] => rfl
  | a :: rest => by
    have ih := stateGet_mapNodes f n rest
    unfold stateGet nodeOf at *
    simp only [List.map_cons, List.find?_cons]
    by_cases h : (a.name == n) = true
    · simp [h]
    · have h' : (a.name == n) = false := by simpa using h
      simp only [h']
      exact ih

theorem stateGet_stepState (cap : Nat) (g : SGraph) (st : State) (n : String) :
    stateGet (stepState cap g st) n = match nodeOf g n with | some nd => nodeWeights cap st nd | none => [] :=
  stateGet_mapNodes (nodeWeights cap st) n g

theorem stateGet_mapValues (f : WMap → WMap) (hf : f [] = []) (n : String) : ∀ (st : State),
    stateGet (st.map (fun p => (p.1, f p.2))) n = f (stateGet st n)
  | [] => by simp [stateGet, hf]
  | a :: rest => by
    have ih := stateGet_mapValues f hf n rest
    unfold stateGet at *
    simp only [List.map_cons, List.find?_cons]
    by_cases h : (a.1 == n) = true
    · simp [h]
    · have h' : (a.1 == n) = false := by simpa using h
      simp only [h']
      exact ih

/-! ### `HasType` as a key condition -/
theorem hasType_iff (g : SGraph) (T n : String) :
    HasType g T n ↔ ∃ nd, nodeOf g n = some nd ∧ KeyCond (EdgeHas g T) nd := by
  constructor
  · intro h
    cases h with
    | @any _ nd e hf h1 h2 he hh =>
      refine ⟨nd, hf, ?_⟩
      unfold KeyCond
      cases hk : nd.kind <;> simp only
      · exact ⟨e, he, hh⟩
      · exact ⟨e, he, hh⟩
      · exact absurd hk h1
      · exact absurd hk h2
      · exact ⟨e, he, hh⟩
    | @all _ nd hf hk hne hall =>
      exact ⟨nd, hf, by unfold KeyCond; rw [hk]; exact ⟨hne, hall⟩⟩
    | @base _ nd e hf hk h2 he hh =>
      exact ⟨nd, hf, by unfold KeyCond; rw [hk]; exact ⟨h2, e, he, hh⟩⟩
  · rintro ⟨nd, hf, hk⟩
    unfold KeyCond at hk
    cases hkind : nd.kind <;> rw [hkind] at hk <;> simp only at hk
    · obtain ⟨e, he, hh⟩ := hk; exact .any hf (by simp [hkind]) (by simp [hkind]) he hh
    · obtain ⟨e, he, hh⟩ := hk; exact .any hf (by simp [hkind]) (by simp [hkind]) he hh
    · exact .all hf hkind hk.1 hk.2
    · obtain ⟨h2, e, he, hh⟩ := hk; exact .base hf hkind h2 he hh
    · obtain ⟨e, he, hh⟩ := hk; exact .any hf (by simp [hkind]) (by simp [hkind]) he hh

theorem Walk.hasType {g : SGraph} {T n : String} {k : Nat} (h : Walk g T n k) : HasType g T n := by
  cases h with
  | last _ h _ _ => exact h
  | step _ h _ _ _ => exact h

theorem Walk.pos {g : SGraph} {T n : String} {k : Nat} (h : Walk g T n k) : 1 ≤ k := by
  induction h with
  | last _ _ _ _ => exact Nat.le_refl _
  | step _ _ _ _ _ ih => omega

/-! ### soundness: an invariant of the iteration -/

/-- every value in the state satisfies `P` -/
def StInv (P : String → String → Nat → Prop) (st : State) : Prop :=
  ∀ n T v, lookupW T (stateGet st n) = some v → P n T v

/-- `P` is closed under the contribution of one edge -/
structure EdgeClosed (g : SGraph) (cap : Nat) (P : String → String → Nat → Prop) : Prop where
  hasType : ∀ n T v, P n T v → HasType g T n
  last : ∀ n nd e T, nodeOf g n = some nd → HasType g T n → e ∈ nd.edges →
    (e.dst = .type T ∨ e.dst = .wildcard T) → P n T 1
  step : ∀ n nd e m T v, nodeOf g n = some nd → HasType g T n → e ∈ nd.edges → e.dst = .node m →
    P m T v → P n T (shiftVal cap e.hop v)

theorem edgeHas_of_edgeVal (g : SGraph) (cap : Nat) (P : String → String → Nat → Prop) (hP : EdgeClosed g cap P)
    (st : State) (hinv : StInv P st) (T : String) (e : Edge) (h : (edgeVal cap st T e).isSome = true) :
    EdgeHas g T e := by
  unfold edgeVal at h
  split at h
  · rename_i t hd
    by_cases ht : (T == t) = true
    · have : T = t := by simpa using ht
      subst this; exact .type hd
    · simp [ht] at h
  · rename_i t hd
    by_cases ht : (T == t) = true
    · have : T = t := by simpa using ht
      subst this; exact .wildcard hd
    · simp [ht] at h
  · rename_i m hd
    cases hl : lookupW T (stateGet st m) with
    | none => simp [hl] at h
    | some v0 => exact .node hd (hP.hasType m T v0 (hinv m T v0 hl))

theorem stInv_stepState (g : SGraph) (cap : Nat) (P : String → String → Nat → Prop) (hP : EdgeClosed g cap P)
    (st : State) (hst : StateSorted st) (hinv : StInv P st) : StInv P (stepState cap g st) := by
  intro n T v h
  rw [stateGet_stepState] at h
  cases hf : nodeOf g n with
  | none => rw [hf] at h; simp [lookupW] at h
  | some nd =>
    rw [hf] at h
    simp only at h
    obtain ⟨hk, e, he, hv⟩ := nodeWeights_extract cap st hst nd T v h
    have hT : HasType g T n :=
      (hasType_iff g T n).2 ⟨nd, hf, hk.mono (fun e _ hq => edgeHas_of_edgeVal g cap P hP st hinv T e hq)⟩
    unfold edgeVal at hv
    split at hv
    · rename_i t hd
      by_cases ht : (T == t) = true
      · have : T = t := by simpa using ht
        subst this
        simp only [beq_self_eq_true, if_true, Option.some.injEq] at hv
        subst hv
        exact hP.last n nd e T hf hT he (Or.inl hd)
      · simp [ht] at hv
    · rename_i t hd
      by_cases ht : (T == t) = true
      · have : T = t := by simpa using ht
        subst this
        simp only [beq_self_eq_true, if_true, Option.some.injEq] at hv
        subst hv
        exact hP.last n nd e T hf hT he (Or.inr hd)
      · simp [ht] at hv
    · rename_i m hd
      cases hl : lookupW T (stateGet st m) with
      | none => simp [hl] at hv
      | some v0 =>
        simp only [hl, Option.map_some, Option.some.injEq] at hv
        subst hv
        exact hP.step n nd e m T v0 hf hT he hd (hinv m T v0 hl)

theorem stInv_iterate (g : SGraph) (cap : Nat) (P : String → String → Nat → Prop) (hP : EdgeClosed g cap P) :
    ∀ (fuel : Nat) (st : State), (∀ p ∈ st, SortedW p.2) → StInv P st → StInv P (iterate cap g fuel st)
  | 0, st, _, h => by simpa [iterate] using h
  | fuel+1, st, hs, h => by
    simp only [iterate]
    split
    · exact h
    · exact stInv_iterate g cap P hP fuel _ (all_sorted_stepState cap g st (stateSorted_of_all st hs))
        (stInv_stepState g cap P hP st (stateSorted_of_all st hs) h)

/-- phase 1 (saturating count): a value is the hop count of a walk, cut at `cap` -/
def P1 (g : SGraph) (cap : Nat) (n T : String) (v : Nat) : Prop := ∃ k, Walk g T n k ∧ v = Nat.min k cap

/-- phase 2: saturated values have become `Infinite` -/
def P2 (g : SGraph) (cap : Nat) (n T : String) (v : Nat) : Prop :=
  ∃ k, Walk g T n k ∧ ((v = infinite ∧ cap - 1 ≤ k) ∨ v = Nat.min k cap)

theorem closed_P1 (g : SGraph) (cap : Nat) (hc : cap < infinite) (hc2 : 1 ≤ cap) : EdgeClosed g cap (P1 g cap) where
  hasType := fun _ _ _ ⟨_, hw, _⟩ => hw.hasType
  last := fun n nd e T hf hT he hd => ⟨1, .last hf hT he hd, by show 1 = min 1 cap; omega⟩
  step := by
    rintro n nd e m T v hf hT he hd ⟨k, hw, rfl⟩
    refine ⟨_, .step hf hT he hd hw, ?_⟩
    unfold shiftVal
    cases e.hop with
    | false => simp
    | true =>
      have h1 : ¬ (Nat.min k cap ≥ infinite) := by
        have : min k cap ≤ cap := Nat.min_le_right _ _
        show ¬ (min k cap ≥ infinite); omega
      simp only [if_true, h1, if_false]
      show min (min k cap + 1) cap = min (k + 1) cap
      omega

theorem closed_P2 (g : SGraph) (cap : Nat) (hc : cap < infinite) (hc2 : 1 ≤ cap) : EdgeClosed g cap (P2 g cap) where
  hasType := fun _ _ _ ⟨_, hw, _⟩ => hw.hasType
  last := fun n nd e T hf hT he hd => ⟨1, .last hf hT he hd, Or.inr (by show 1 = min 1 cap; omega)⟩
  step := by
    rintro n nd e m T v hf hT he hd ⟨k, hw, hv⟩
    refine ⟨_, .step hf hT he hd hw, ?_⟩
    unfold shiftVal
    cases e.hop with
    | false => simpa using hv
    | true =>
      simp only [if_true]
      rcases hv with ⟨rfl, hk⟩ | rfl
      · left; simp only [ge_iff_le, Nat.le_refl, if_true, true_and]; omega
      · right
        have h1 : ¬ (Nat.min k cap ≥ infinite) := by
          have : min k cap ≤ cap := Nat.min_le_right _ _
          show ¬ (min k cap ≥ infinite); omega
        simp only [h1, if_false]
        show min (min k cap + 1) cap = min (k + 1) cap
        omega

theorem stateGet_init (g : SGraph) (n : String) : stateGet (g.map (fun nd => (nd.name, ([] : WMap)))) n = [] := by
  rw [stateGet_mapNodes (fun _ => []) n g]
  split <;> rfl

/-- **every value of the result is witnessed by a walk** -/
theorem weights_sound (g : SGraph) (hc : g.length + 2 < infinite) : StInv (P2 g (g.length + 2)) (weights g) := by
  unfold weights
  simp only
  have hsorted0 : ∀ p ∈ g.map (fun nd => (nd.name, ([] : WMap))), SortedW p.2 := by
    intro p hp; obtain ⟨m, _, rfl⟩ := List.mem_map.1 hp; exact sortedW_nil
  have h1 : StInv (P1 g (g.length + 2)) (iterate (g.length + 2) g ((g.length + 3) * (g.length + 3)) (g.map (fun n => (n.name, [])))) := by
    apply stInv_iterate g _ _ (closed_P1 g _ hc (by omega)) _ _ hsorted0
    intro n T v h
    rw [stateGet_init] at h
    simp [lookupW] at h
  have hs1 := all_sorted_iterate (g.length + 2) g ((g.length + 3) * (g.length + 3)) (g.map (fun n => (n.name, []))) hsorted0
  apply stInv_iterate g _ _ (closed_P2 g _ hc (by omega))
  · intro p hp
    obtain ⟨q, hq, rfl⟩ := List.mem_map.1 hp
    obtain ⟨n, w⟩ := q
    exact sortedW_map_values (fun _ v => if v ≥ g.length + 2 - 1 then infinite else v) w (hs1 (n, w) hq)
  · intro n T v h
    have := stateGet_mapValues (fun w => w.map (fun (k, v) => (k, if v ≥ g.length + 2 - 1 then infinite else v))) rfl n
      (iterate (g.length + 2) g ((g.length + 3) * (g.length + 3)) (g.map (fun n => (n.name, []))))
    rw [this] at h
    rw [lookupW_map] at h
    · cases hl : lookupW T (stateGet (iterate (g.length + 2) g ((g.length + 3) * (g.length + 3)) (g.map (fun n => (n.name, [])))) n) with
      | none => rw [hl] at h; cases h
      | some v0 =>
        rw [hl] at h
        simp only [Option.map_some, Option.some.injEq] at h
        obtain ⟨k, hw, hv0⟩ := h1 n T v0 hl
        refine ⟨k, hw, ?_⟩
        by_cases hge : v0 ≥ g.length + 2 - 1
        · left
          simp only [hge, if_true] at h
          refine ⟨h.symm, ?_⟩
          have : v0 ≤ k := by rw [hv0]; exact Nat.min_le_left _ _
          omega
        · right
          simp only [hge, if_false] at h
          rw [← h]; exact hv0
    · intro p; rfl

/-! ### completeness at a fixed point -/

theorem fixpoint_get (g : SGraph) (st : State) (h : isFixpoint g st = true) (n : String) :
    stateGet st n = match nodeOf g n with | some nd => nodeWeights (g.length + 2) st nd | none => [] := by
  have heq : stepState (g.length + 2) g st = st := eq_of_beq h
  rw [← stateGet_stepState, heq]

theorem keys_complete (g : SGraph) (st : State) (hst : StateSorted st) (hfix : isFixpoint g st = true) (T : String) :
    (∀ n, HasType g T n → (lookupW T (stateGet st n)).isSome = true) ∧
    (∀ e, EdgeHas g T e → (edgeVal (g.length + 2) st T e).isSome = true) := by
  have key1 : ∀ (n : String) (h : HasType g T n), (lookupW T (stateGet st n)).isSome = true := by
    intro n h
    refine HasType.rec (g := g) (T := T)
      (motive_1 := fun n _ => (lookupW T (stateGet st n)).isSome = true)
      (motive_2 := fun e _ => (edgeVal (g.length + 2) st T e).isSome = true)
      ?_ ?_ ?_ ?_ ?_ ?_ h
    · intro n nd e hf h1 h2 he _ ih
      rw [fixpoint_get g st hfix n, hf]
      have hk : KeyCond (fun e => (edgeVal (g.length + 2) st T e).isSome = true) nd := by
        unfold KeyCond
        cases hkind : nd.kind <;> simp only
        · exact ⟨e, he, ih⟩
        · exact ⟨e, he, ih⟩
        · exact absurd hkind h1
        · exact absurd hkind h2
        · exact ⟨e, he, ih⟩
      obtain ⟨v, hv, _⟩ := nodeWeights_dominate _ st hst nd T hk
      simp [hv]
    · intro n nd hf hkind hne _ ih
      rw [fixpoint_get g st hfix n, hf]
      have hk : KeyCond (fun e => (edgeVal (g.length + 2) st T e).isSome = true) nd := by
        unfold KeyCond; rw [hkind]; exact ⟨hne, ih⟩
      obtain ⟨v, hv, _⟩ := nodeWeights_dominate _ st hst nd T hk
      simp [hv]
    · intro n nd e hf hkind h2 he _ ih
      rw [fixpoint_get g st hfix n, hf]
      have hk : KeyCond (fun e => (edgeVal (g.length + 2) st T e).isSome = true) nd := by
        unfold KeyCond; rw [hkind]; exact ⟨h2, e, he, ih⟩
      obtain ⟨v, hv, _⟩ := nodeWeights_dominate _ st hst nd T hk
      simp [hv]
    · intro e hd
      unfold edgeVal; rw [hd]; simp
    · intro e hd
      unfold edgeVal; rw [hd]; simp
    · intro e m hd _ ih
      unfold edgeVal; rw [hd]
      simp only
      cases hl : lookupW T (stateGet st m) with
      | none => rw [hl] at ih; cases ih
      | some v => simp
  refine ⟨key1, ?_⟩
  intro e he
  cases he with
  | type hd => unfold edgeVal; rw [hd]; simp
  | wildcard hd => unfold edgeVal; rw [hd]; simp
  | node hd hm =>
    unfold edgeVal; rw [hd]
    simp only
    have := key1 _ hm
    cases hl : lookupW T (stateGet st _) with
    | none => rw [hl] at this; cases this
    | some v => simp

theorem keyCond_of_hasType (g : SGraph) (st : State) (hst : StateSorted st) (hfix : isFixpoint g st = true)
    (T n : String) (nd : Node) (hf : nodeOf g n = some nd) (h : HasType g T n) :
    KeyCond (fun e => (edgeVal (g.length + 2) st T e).isSome = true) nd := by
  obtain ⟨nd', hf', hk⟩ := (hasType_iff g T n).1 h
  rw [hf] at hf'; cases hf'
  exact hk.mono (fun e _ hq => (keys_complete g st hst hfix T).2 e hq)

/-- **the value at a fixed point dominates every walk** (saturating at `cap`) -/
theorem walk_dominated (g : SGraph) (st : State) (hst : StateSorted st) (hfix : isFixpoint g st = true)
    (hc : g.length + 2 < infinite) (T n : String) (k : Nat) (hw : Walk g T n k) :
    ∃ v, lookupW T (stateGet st n) = some v ∧ Nat.min k (g.length + 2) ≤ v := by
  induction hw with
  | @last n nd e hf hT he hd =>
    rw [fixpoint_get g st hfix n, hf]
    obtain ⟨v, hv, hdom⟩ := nodeWeights_dominate _ st hst nd T (keyCond_of_hasType g st hst hfix T n nd hf hT)
    refine ⟨v, hv, ?_⟩
    have : edgeVal (g.length + 2) st T e = some 1 := by
      unfold edgeVal; rcases hd with hd | hd <;> rw [hd] <;> simp
    have := hdom e he 1 this
    show min 1 (g.length + 2) ≤ v
    omega
  | @step n m nd e k hf hT he hd _ ih =>
    obtain ⟨v0, hv0, hle0⟩ := ih
    rw [fixpoint_get g st hfix n, hf]
    obtain ⟨v, hv, hdom⟩ := nodeWeights_dominate _ st hst nd T (keyCond_of_hasType g st hst hfix T n nd hf hT)
    refine ⟨v, hv, ?_⟩
    have : edgeVal (g.length + 2) st T e = some (shiftVal (g.length + 2) e.hop v0) := by
      unfold edgeVal; rw [hd]; simp [hv0]
    have hle := hdom e he _ this
    refine Nat.le_trans ?_ hle
    unfold shiftVal
    cases e.hop with
    | false => simpa using hle0
    | true =>
      simp only [if_true]
      have hle0' : min k (g.length + 2) ≤ v0 := hle0
      by_cases hinf : v0 ≥ infinite
      · simp only [hinf, if_true]
        show min (k + 1) (g.length + 2) ≤ infinite
        omega
      · simp only [hinf, if_false]
        show min (k + 1) (g.length + 2) ≤ min (v0 + 1) (g.length + 2)
        omega

/-! ### the run-time hypothesis `normalB` -/
theorem lookupW_mem (k : String) (v : Nat) : ∀ (w : WMap), lookupW k w = some v → (k, v) ∈ w
  | [], h => by simp [lookupW] at h
  | (k', v') :: rest, h => by
    simp only [lookupW] at h
    by_cases hk : (k == k') = true
    · have : k = k' := by simpa using hk
      subst this
      simp only [beq_self_eq_true, if_true, Option.some.injEq] at h
      subst h; simp
    · have hk' : (k == k') = false := by simpa using hk
      simp only [hk', Bool.false_eq_true, if_false] at h
      exact List.mem_cons_of_mem _ (lookupW_mem k v rest h)

theorem normal_values (g : SGraph) (st : State) (h : normalB g st = true) :
    g.length + 2 < infinite ∧ ∀ n T v, lookupW T (stateGet st n) = some v → v = infinite ∨ v < g.length + 1 := by
  unfold normalB at h
  simp only [Bool.and_eq_true, decide_eq_true_eq, List.all_eq_true, Bool.or_eq_true, beq_iff_eq] at h
  refine ⟨h.1, ?_⟩
  intro n T v hl
  rcases stateGet_mem st n with h0 | ⟨p, hp, he⟩
  · rw [h0] at hl; simp [lookupW] at hl
  · rw [he] at hl
    exact h.2 p hp (T, v) (lookupW_mem T v p.2 hl)

end FgaVerif.Spec.Weights
