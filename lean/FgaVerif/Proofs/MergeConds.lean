import FgaVerif.Proofs.MergeValues
/-! Conservation of conditions through the first loop of the merger: every declared condition is in
    the result, unchanged except for the file recorded in its metadata. -/
namespace FgaVerif.Model.Merge
open FgaVerif.Model FgaVerif.Model.Listener

/-- the condition as the merger stores it -/
def condIn (file : String) (c : Condition) : Condition :=
  match c.md with
  | some m => { c with md := some { m with file := file } }
  | none => c

/-- bindings after collecting the conditions of one file (no error raised) -/
theorem collectConds_values (file : String) (lines : List (List Char)) :
    ∀ (cs : List (String × Condition)) (st : MState) (seen : List String),
      (∀ x, AList.contains x st.conditions = seen.contains x) → condsClean cs seen = true →
      ∀ k, AList.find? k (collectConds file lines cs st).conditions =
        match cs.find? (fun kv => kv.1 == k) with
        | some kv => some (condIn file kv.2)
        | none => AList.find? k st.conditions
  | [], st, seen, _, _, k => by simp [collectConds]
  | (name, c) :: rest, st, seen, hs, hcl, k => by
    simp only [condsClean, Bool.and_eq_true, Bool.not_eq_true'] at hcl
    obtain ⟨⟨hns, hmd⟩, hrest⟩ := hcl
    have hc : AList.contains name st.conditions = false := by rw [hs]; exact hns
    simp only [collectConds, hc, Bool.false_eq_true, if_false]
    cases hm : c.md with
    | none => simp [hm] at hmd
    | some m =>
      simp only
      have hs' : ∀ x, AList.contains x (AList.insert name { c with md := some { m with file := file } } st.conditions) =
          (seen ++ [name]).contains x := by
        intro x
        rw [AList.contains_insert, hs x]
        by_cases hx : x = name <;> simp [hx]
      rw [collectConds_values file lines rest _ (seen ++ [name]) hs' hrest k]
      simp only [List.find?_cons]
      by_cases hk : (name == k) = true
      · have hkn : name = k := by simpa using hk
        subst hkn
        -- `name` does not occur again in `rest` (clean), so the later lookup falls through to the insert
        have hnot : rest.find? (fun kv => kv.1 == name) = none := by
          rw [List.find?_eq_none]
          intro kv hkv
          have := (condsClean_iff rest (seen ++ [name])).1 hrest
          have hn := this.2.1 kv.1 (List.mem_map.2 ⟨kv, hkv, rfl⟩)
          simp only [List.mem_append, List.mem_singleton, not_or] at hn
          simpa using hn.2
        simp [hnot, find?_insert, condIn, hm]
      · have hk' : (name == k) = false := by simpa using hk
        have hkn : (k == name) = false := by
          have : name ≠ k := by simpa using hk'
          simpa using fun e => this e.symm
        simp only [hk']
        cases rest.find? (fun kv => kv.1 == k) with
        | some kv => rfl
        | none => simp [find?_insert, hkn]


/-- the condition named `k` as the first file that declares it gives it, with that file's name -/
def declaredCond : List FileIn → String → Option Condition
  | [], _ => none
  | f :: rest, k =>
    match f.outcome with
    | .ok m _ =>
      match m.conds.find? (fun kv => kv.1 == k) with
      | some kv => some (condIn f.name kv.2)
      | none => declaredCond rest k
    | _ => declaredCond rest k

theorem collect_conds :
    ∀ (fs : List FileIn) (st r : MState) (seen : List String),
      (∀ x, AList.contains x st.conditions = seen.contains x) →
      collect fs st = .ok r → filesClean fs st.types seen = true →
      ∀ k, AList.find? k r.conditions =
        match declaredCond fs k with
        | some c => some c
        | none => AList.find? k st.conditions
  | [], st, r, seen, _, h, _, k => by
    simp only [collect, Except.ok.injEq] at h; subst h; simp [declaredCond]
  | f :: rest, st, r, seen, hs, h, hc, k => by
    simp only [collect] at h
    simp only [filesClean] at hc
    split at h
    · cases h
    · rename_i es hout
      rw [hout] at hc
      simp only [Bool.and_eq_true] at hc
      have := collect_conds rest
        { st with moduleFiles := AList.insert f.name (splitLines f.contents) st.moduleFiles,
                  errors := st.errors ++ es.map .syn } r seen hs h hc.2 k
      rw [this]
      simp [declaredCond, hout]
    · rename_i mdl exts hout
      rw [hout] at hc
      simp only [Bool.and_eq_true] at hc
      obtain ⟨⟨hcT, hcC⟩, hcR⟩ := hc
      let st0 : MState := { st with moduleFiles := AList.insert f.name (splitLines f.contents) st.moduleFiles }
      obtain ⟨_, ht1, hcond1, _⟩ := collectTypes_spec f.name (splitLines f.contents) exts mdl.types 0 st0
      have hs1 : ∀ x, AList.contains x (collectTypes f.name (splitLines f.contents) exts mdl.types 0 st0).conditions = seen.contains x := by
        intro x; rw [hcond1]; exact hs x
      obtain ⟨_, hk2, hty2, _, _, _⟩ := collectConds_spec f.name (splitLines f.contents) mdl.conds
        (collectTypes f.name (splitLines f.contents) exts mdl.types 0 st0) seen hs1
      have htypes : (collectConds f.name (splitLines f.contents) mdl.conds
          (collectTypes f.name (splitLines f.contents) exts mdl.types 0 st0)).types =
            st.types ++ (baseDefs exts mdl.types 0).map (·.name) := by
        rw [hty2]; exact (ht1 hcT).1
      have hrec := collect_conds rest _ r _ (hk2 hcC) h (by rw [htypes]; exact hcR) k
      rw [hrec, collectConds_values f.name (splitLines f.contents) mdl.conds _ seen hs1 hcC k, hcond1]
      simp only [declaredCond, hout]
      cases hfind : mdl.conds.find? (fun kv => kv.1 == k) with
      | none => simp [st0]
      | some kv =>
        simp only
        -- a later file cannot declare `k` again (clean), so the first declaration stands
        have hlater : declaredCond rest k = none := by
          have hclr := (filesClean_iff rest _ _).1 hcR
          have hnot : k ∉ rest.flatMap fileCondNames := by
            intro hm
            have := hclr.2.2.2.1 k hm
            have hk : k ∈ mdl.conds.map (·.1) := by
              have h1 := List.mem_of_find?_eq_some hfind
              have h2 : kv.1 = k := by simpa using List.find?_some hfind
              exact List.mem_map.2 ⟨kv, h1, h2⟩
            exact this (List.mem_append.2 (Or.inr hk))
          clear hrec hclr hcR h
          induction rest with
          | nil => rfl
          | cons g gs ih =>
            simp only [List.flatMap_cons, List.mem_append, not_or] at hnot
            simp only [declaredCond]
            cases hg : g.outcome with
            | ok gm ge =>
              simp only
              have hgn : k ∉ gm.conds.map (·.1) := by
                have := hnot.1
                simpa [fileCondNames, hg] using this
              have : gm.conds.find? (fun kv => kv.1 == k) = none := by
                rw [List.find?_eq_none]
                intro kv' hkv'
                have : kv'.1 ≠ k := fun e => hgn (List.mem_map.2 ⟨kv', hkv', e⟩)
                simpa using this
              simp only [this]
              exact ih hnot.2
            | errors es => simp only; exact ih hnot.2
            | panic p => simp only; exact ih hnot.2
        simp [hlater]

end FgaVerif.Model.Merge
