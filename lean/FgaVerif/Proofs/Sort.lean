import FgaVerif.Engine.Sort
/-! The structural insertion sort returns a sorted permutation; under a total, transitive order that is
    antisymmetric on the elements present, the sorted permutation is unique, so sorting is invariant
    under permutation of the input. -/
namespace FgaVerif

variable {α : Type}

theorem insertSortedL_perm (le : α → α → Bool) (x : α) (ys : List α) :
    (insertionSort.insertSortedL le x ys).Perm (x :: ys) := by
  induction ys with
  | nil => simp [insertionSort.insertSortedL]
  | cons y ys ih =>
    simp only [insertionSort.insertSortedL]
    split
    · exact List.Perm.refl _
    · exact (List.Perm.cons y ih).trans (List.Perm.swap x y ys)

theorem insertionSort_perm (le : α → α → Bool) (xs : List α) : (insertionSort le xs).Perm xs := by
  induction xs with
  | nil => simp [insertionSort]
  | cons x xs ih =>
    simp only [insertionSort]
    exact (insertSortedL_perm le x _).trans (List.Perm.cons x ih)

theorem insertSortedL_sorted (le : α → α → Bool)
    (total : ∀ a b, le a b = true ∨ le b a = true) (trans : ∀ a b c, le a b = true → le b c = true → le a c = true)
    (x : α) (ys : List α) (h : List.Pairwise (fun a b => le a b = true) ys) :
    List.Pairwise (fun a b => le a b = true) (insertionSort.insertSortedL le x ys) := by
  induction ys with
  | nil => simp [insertionSort.insertSortedL]
  | cons y ys ih =>
    simp only [insertionSort.insertSortedL]
    rw [List.pairwise_cons] at h
    split
    · rename_i hxy
      rw [List.pairwise_cons]
      refine ⟨?_, List.pairwise_cons.2 h⟩
      intro b hb
      rcases List.mem_cons.1 hb with rfl | hb
      · exact hxy
      · exact trans _ _ _ hxy (h.1 b hb)
    · rename_i hxy
      have hyx : le y x = true := by
        rcases total x y with h1 | h1
        · exact absurd h1 hxy
        · exact h1
      rw [List.pairwise_cons]
      refine ⟨?_, ih h.2⟩
      intro b hb
      have := (insertSortedL_perm le x ys).mem_iff.1 hb
      rcases List.mem_cons.1 this with rfl | hb'
      · exact hyx
      · exact h.1 b hb'

theorem insertionSort_sorted (le : α → α → Bool)
    (total : ∀ a b, le a b = true ∨ le b a = true) (trans : ∀ a b c, le a b = true → le b c = true → le a c = true)
    (xs : List α) : List.Pairwise (fun a b => le a b = true) (insertionSort le xs) := by
  induction xs with
  | nil => simp [insertionSort]
  | cons x xs ih =>
    simp only [insertionSort]
    exact insertSortedL_sorted le total trans x _ ih

/-- **sorting is a function of the multiset** when the order is antisymmetric on the elements present -/
theorem insertionSort_perm_invariant (le : α → α → Bool)
    (total : ∀ a b, le a b = true ∨ le b a = true) (trans : ∀ a b c, le a b = true → le b c = true → le a c = true)
    (xs ys : List α) (hp : xs.Perm ys)
    (antisymm : ∀ a b, a ∈ xs → b ∈ xs → le a b = true → le b a = true → a = b) :
    insertionSort le xs = insertionSort le ys := by
  apply List.Perm.eq_of_pairwise (le := fun a b => le a b = true)
  · intro a b ha hb hab hba
    have ha' := (insertionSort_perm le xs).mem_iff.1 ha
    have hb' := hp.mem_iff.2 ((insertionSort_perm le ys).mem_iff.1 hb)
    exact antisymm a b ha' hb' hab hba
  · exact insertionSort_sorted le total trans xs
  · exact insertionSort_sorted le total trans ys
  · exact (insertionSort_perm le xs).trans (hp.trans (insertionSort_perm le ys).symm)

end FgaVerif
