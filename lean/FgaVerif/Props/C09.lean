import FgaVerif.Proofs.Listener
import FgaVerif.Proofs.ErrLog
import FgaVerif.Proofs.AList
import FgaVerif.Proofs.ParserImage
import FgaVerif.Model.CstParse
/-!
# C09 — structurally invalid DSL is always rejected, wherever the defect occurs

C09 has a *grammar* half (mixed operators without parentheses, direct assignment not first, empty or
ill-formed restriction, header and container-type rules) and a *listener* half (a relation, condition
or parameter defined twice, misplaced or repeated `extend`), tied together by "any collected error
voids the result".

Proved here, about the listener port and **for every parse tree, of any shape** (grammatical or
error-recovered) and every position in it:
* the error log only grows during the walk, and a model is returned only if the log is empty at the
  end — so an error raised by any callback at any position or nesting depth, or reported by ANTLR before
  the walk, makes the transform return no model (`any_error_voids_result`);
* a relation declaration whose name is already defined in the type under construction raises an error,
  whatever surrounds it (`duplicate_relation_logged`), hence the document is rejected
  (`duplicate_relation_rejected_anywhere` combines it with monotonicity for the rest of the walk);
* conversely, an accepted walk reflects the declaration: the relation is in the type with exactly the
  denotation of its CST (`declaration_reflected`).

The grammar half is a property of the ANTLR parser, whose runtime this family does not model.  What
is established about it: (i) the grammar itself is translated on every run and compared with the
automaton the parsers embed (C19); (ii) every parse tree for which the real parser reports no error is
checked to be a derivation by that grammar, and every relation declaration in it to be the embedding of
a typed CST (C19, C03) — and in that CST the structural violations are unrepresentable:
`partials_single_operator` (an operator group has one operator: `a or b and c` has no CST),
`accepted_declaration_structurally_valid` (the relation an accepted declaration is parsed to has no
missing operand and at most one direct assignment, in first position), `direct_assignment_nonempty`.
So an *accepted* document cannot contain them, given the two run-time checks.  **Not proved**: that
ANTLR reports an error for every text outside the grammar in the first place; that is what the
catalogue of injected violations exercises on the real parser (oracle).
-/
namespace FgaVerif.Props.C09
open FgaVerif.Model FgaVerif.Model.Listener FgaVerif.Model.Cst

/-- the log only grows, for every tree -/
theorem error_log_monotone (pe : Option Bool) (t : Tree) (st st' : LState) (h : walk pe t st = .ok st') :
    ∃ l, st'.errors = st.errors ++ l :=
  walk_grows pe t st st' h

/-- **any error voids the result**: if the transform returns a model then ANTLR reported nothing and
    the log is empty at the end of the walk (hence, by monotonicity, was empty throughout) -/
theorem any_error_voids_result (antlrErrors : List SynErr) (t : Tree) (m : Model) (x) :
    transform antlrErrors t = .ok m x →
      antlrErrors = [] ∧ ∃ st, walk none t { errors := antlrErrors } = .ok st ∧ st.errors = [] :=
  transform_ok_no_errors antlrErrors t m x

/-- a duplicate relation raises an error at its declaration, whatever its definition looks like -/
theorem duplicate_relation_logged (pe : Option Bool) (d : Decl) (hd : d.body.wf = true) (st : LState) (td : TypeDef)
    (m : TypeMeta) (htd : st.currentTypeDef = some td) (hm : td.md = some m)
    (hdup : AList.contains d.name.text td.relations = true) :
    ∃ s, walk pe (Decl.tree d) st = .ok s ∧
      s.errors = st.errors ++ [⟨0, 0, s!"'{d.name.text}' is already defined in '{td.name}'"⟩] := by
  refine ⟨_, walk_decl pe d hd st td m htd hm, ?_⟩
  rw [declResult_errors, hdup]
  rfl

/-- … and no continuation of the walk (any further trees, any shape) can end with an empty log -/
theorem duplicate_relation_rejected_anywhere (pe : Option Bool) (d : Decl) (hd : d.body.wf = true) (st : LState)
    (td : TypeDef) (m : TypeMeta) (htd : st.currentTypeDef = some td) (hm : td.md = some m)
    (hdup : AList.contains d.name.text td.relations = true)
    (rest : List Tree) (pe' : Option Bool) (final : LState)
    (h : walkL pe' (Decl.tree d :: rest) st = .ok final) : final.errors ≠ [] := by
  obtain ⟨s, hs, he⟩ := duplicate_relation_logged pe' d hd st td m htd hm hdup
  simp only [walkL, hs] at h
  obtain ⟨l, hl⟩ := walkL_grows pe' rest s final h
  rw [hl, he]
  simp

/-- an accepted declaration is reflected in the model: the type under construction has the relation
    with the denotation of its CST; nothing is silently dropped -/
theorem declaration_reflected (pe : Option Bool) (d : Decl) (hd : d.body.wf = true) (st : LState) (td : TypeDef)
    (m : TypeMeta) (htd : st.currentTypeDef = some td) (hm : td.md = some m) :
    ∃ s td', walk pe (Decl.tree d) st = .ok s ∧ s.currentTypeDef = some td' ∧
      AList.find? d.name.text td'.relations = some (Def.den d.body) ∧
      ∀ k, AList.contains k td.relations = true → AList.contains k td'.relations = true := by
  refine ⟨_, declTypeDef pe d st td m, walk_decl pe d hd st td m htd hm, declResult_typeDef _ _ _ _ _, ?_, ?_⟩
  · exact AList.find?_insert_self _ _ _
  · intro k hk
    exact AList.contains_insert_of_contains _ _ _ _ hk

/-! ## non-vacuity -/
def idT (s : String) : Ident := ⟨true, "IDENTIFIER", s⟩
def dupDecl : Decl := ⟨"\n", " ", idT "viewer", none, some " ", .mk (.rw ⟨idT "editor", none⟩) none⟩
def tdBefore : TypeDef := { name := "doc", relations := [("viewer", .this)], md := some {} }
example : dupDecl.body.wf = true ∧ AList.contains dupDecl.name.text tdBefore.relations = true := by decide
example : (match walk none (Decl.tree dupDecl) { currentTypeDef := some tdBefore } with
           | .ok s => s.errors.length | .error _ => 0) = 1 := by decide


/-! ### the grammar half, through the typed concrete syntax

    The structural violations of the catalogue are *unrepresentable* in the typed CST of
    `Model/Cst.lean`: an operator group carries one operator, operands other than the first cannot be a
    direct assignment, a restriction list has a first element.  Every relation declaration of every
    error-free real parse tree is checked at run time to be the embedding of such a CST
    (`embeddingOf`, C03), so for accepted documents the following are facts about what was parsed. -/

def isOpTok : Tree → Bool
  | .tok ty _ _ _ _ => ty == "OR" || ty == "AND" || ty == "BUT_NOT"
  | _ => false

theorem itemND_not_opTok : ∀ (i : ItemND), isOpTok (ItemND.tree i) = false
  | .rw r => by simp [ItemND.tree, Rw.grouping, isOpTok]
  | .paren (.ofDef _ _ _) => by simp [ItemND.tree, RecND.tree, isOpTok]
  | .paren (.ofRec _ _ _) => by simp [ItemND.tree, RecND.tree, isOpTok]

/-- **one operator per group**: every operator token among the children of a `relationDefPartials`
    node of a CST is the group's operator — `a or b and c` has no CST -/
theorem partials_single_operator (op : Op) : ∀ (items : Items), ∀ c ∈ Items.trees op items,
    isOpTok c = true → c = opTok op
  | .one w1 w2 i, c, hc, ho => by
    simp only [Items.trees, List.mem_cons, List.mem_nil_iff, or_false] at hc
    rcases hc with rfl | rfl | rfl | rfl
    · simp [ws, tokT, isOpTok] at ho
    · rfl
    · simp [ws, tokT, isOpTok] at ho
    · rw [itemND_not_opTok] at ho; cases ho
  | .cons w1 w2 i rest, c, hc, ho => by
    simp only [Items.trees, List.mem_append, List.mem_cons, List.mem_nil_iff, or_false] at hc
    rcases hc with (rfl | rfl | rfl | rfl) | hc
    · simp [ws, tokT, isOpTok] at ho
    · rfl
    · simp [ws, tokT, isOpTok] at ho
    · rw [itemND_not_opTok] at ho; cases ho
    · exact partials_single_operator op rest c hc ho

/-- **a direct assignment occurs at most once and only in first position**, and no operand is missing,
    in the relation that a real, accepted relation declaration is parsed to -/
theorem accepted_declaration_structurally_valid (t : Tree) (d : Decl) (h : embeddingOf t = some d) :
    d.body.wf = true ∧ noNil (Def.den d.body) = true ∧
    (countThis (Def.den d.body) = 0 ∨
      (countThis (Def.den d.body) = 1 ∧ Printer.isFirstPosition (Def.den d.body) = true)) := by
  obtain ⟨hwf, _⟩ := embeddingOf_sound t d h
  exact ⟨hwf, def_props d.body hwf⟩

/-- a restriction list of a CST is never empty -/
theorem direct_assignment_nonempty (d : Direct) : d.den ≠ [] := by simp [Direct.den]

end FgaVerif.Props.C09
