import FgaVerif.Proofs.Listener
import FgaVerif.Proofs.ErrLog
import FgaVerif.Proofs.AList
/-!
# C09 — structurally invalid DSL is always rejected, wherever the defect occurs

C09 has a *grammar* half (mixed operators without parentheses, direct assignment not first, empty or
ill-formed restriction, header and container-type rules) and a *listener* half (a relation, condition
or parameter defined twice, misplaced or repeated `extend`), tied together by "any collected error
voids the result".

Proved here, about the listener port and **for every parse tree, of any shape** (grammatical or
error-recovered) and every position in it:
* the error log only grows during the walk, and a model is returned only if the log is empty at the
  end — so an error raised by any callback at any position or nesting depth, or reported by ANTLR before
  the walk, makes the transform return no model (`any_error_voids_result`);
* a relation declaration whose name is already defined in the type under construction raises an error,
  whatever surrounds it (`duplicate_relation_logged`), hence the document is rejected
  (`duplicate_relation_rejected_anywhere` combines it with monotonicity for the rest of the walk);
* conversely, an accepted walk reflects the declaration: the relation is in the type with exactly the
  denotation of its CST (`declaration_reflected`).

The grammar half is a property of the ANTLR parser, which this family does not model (no `.g4`→Lean
recogniser was built); it is covered by the catalogue of injected violations on the real parser (oracle)
and by C19's automaton equalities, and is **not proved**.
-/
namespace FgaVerif.Props.C09
open FgaVerif.Model FgaVerif.Model.Listener FgaVerif.Model.Cst

/-- the log only grows, for every tree -/
theorem error_log_monotone (pe : Option Bool) (t : Tree) (st st' : LState) (h : walk pe t st = .ok st') :
    ∃ l, st'.errors = st.errors ++ l :=
  walk_grows pe t st st' h

/-- **any error voids the result**: if the transform returns a model then ANTLR reported nothing and
    the log is empty at the end of the walk (hence, by monotonicity, was empty throughout) -/
theorem any_error_voids_result (antlrErrors : List SynErr) (t : Tree) (m : Model) (x) :
    transform antlrErrors t = .ok m x →
      antlrErrors = [] ∧ ∃ st, walk none t { errors := antlrErrors } = .ok st ∧ st.errors = [] :=
  transform_ok_no_errors antlrErrors t m x

/-- a duplicate relation raises an error at its declaration, whatever its definition looks like -/
theorem duplicate_relation_logged (pe : Option Bool) (d : Decl) (hd : d.body.wf = true) (st : LState) (td : TypeDef)
    (m : TypeMeta) (htd : st.currentTypeDef = some td) (hm : td.md = some m)
    (hdup : AList.contains d.name.text td.relations = true) :
    ∃ s, walk pe (Decl.tree d) st = .ok s ∧
      s.errors = st.errors ++ [⟨0, 0, s!"'{d.name.text}' is already defined in '{td.name}'"⟩] := by
  refine ⟨_, walk_decl pe d hd st td m htd hm, ?_⟩
  rw [declResult_errors, hdup]
  rfl

/-- … and no continuation of the walk (any further trees, any shape) can end with an empty log -/
theorem duplicate_relation_rejected_anywhere (pe : Option Bool) (d : Decl) (hd : d.body.wf = true) (st : LState)
    (td : TypeDef) (m : TypeMeta) (htd : st.currentTypeDef = some td) (hm : td.md = some m)
    (hdup : AList.contains d.name.text td.relations = true)
    (rest : List Tree) (pe' : Option Bool) (final : LState)
    (h : walkL pe' (Decl.tree d :: rest) st = .ok final) : final.errors ≠ [] := by
  obtain ⟨s, hs, he⟩ := duplicate_relation_logged pe' d hd st td m htd hm hdup
  simp only [walkL, hs] at h
  obtain ⟨l, hl⟩ := walkL_grows pe' rest s final h
  rw [hl, he]
  simp

/-- an accepted declaration is reflected in the model: the type under construction has the relation
    with the denotation of its CST; nothing is silently dropped -/
theorem declaration_reflected (pe : Option Bool) (d : Decl) (hd : d.body.wf = true) (st : LState) (td : TypeDef)
    (m : TypeMeta) (htd : st.currentTypeDef = some td) (hm : td.md = some m) :
    ∃ s td', walk pe (Decl.tree d) st = .ok s ∧ s.currentTypeDef = some td' ∧
      AList.find? d.name.text td'.relations = some (Def.den d.body) ∧
      ∀ k, AList.contains k td.relations = true → AList.contains k td'.relations = true := by
  refine ⟨_, declTypeDef pe d st td m, walk_decl pe d hd st td m htd hm, declResult_typeDef _ _ _ _ _, ?_, ?_⟩
  · exact AList.find?_insert_self _ _ _
  · intro k hk
    exact AList.contains_insert_of_contains _ _ _ _ hk

/-! ## non-vacuity -/
def idT (s : String) : Ident := ⟨true, "IDENTIFIER", s⟩
def dupDecl : Decl := ⟨"\n", " ", idT "viewer", none, some " ", .mk (.rw ⟨idT "editor", none⟩) none⟩
def tdBefore : TypeDef := { name := "doc", relations := [("viewer", .this)], md := some {} }
example : dupDecl.body.wf = true ∧ AList.contains dupDecl.name.text tdBefore.relations = true := by decide
example : (match walk none (Decl.tree dupDecl) { currentTypeDef := some tdBefore } with
           | .ok s => s.errors.length | .error _ => 0) = 1 := by decide

end FgaVerif.Props.C09
