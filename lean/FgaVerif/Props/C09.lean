import FgaVerif.Proofs.Listener
import FgaVerif.Proofs.ErrLog
import FgaVerif.Proofs.ListenerErrors
import FgaVerif.Proofs.AList
import FgaVerif.Proofs.ParserImage
import FgaVerif.Model.CstParse
/-!
# C09 — structurally invalid DSL is always rejected, wherever the defect occurs

C09 has a *grammar* half (mixed operators without parentheses, direct assignment not first, empty or
ill-formed restriction, header and container-type rules) and a *listener* half (a relation, condition
or parameter defined twice, misplaced or repeated `extend`), tied together by "any collected error
voids the result".

Proved here, about the listener port and **for every parse tree, of any shape** (grammatical or
error-recovered) and every position in it:
* the error log only grows during the walk, and a model is returned only if the log is empty at the
  end — so an error raised by any callback at any position or nesting depth, or reported by ANTLR before
  the walk, makes the transform return no model (`any_error_voids_result`);
* a relation declaration whose name is already defined in the type under construction raises an error,
  whatever surrounds it (`duplicate_relation_logged`), hence the document is rejected
  (`duplicate_relation_rejected_anywhere` combines it with monotonicity for the rest of the walk);
* conversely, an accepted walk reflects the declaration: the relation is in the type with exactly the
  denotation of its CST (`declaration_reflected`).

The grammar half is a property of the ANTLR parser, whose runtime this family does not model.  What
is established about it: (i) the grammar itself is translated on every run and compared with the
automaton the parsers embed (C19); (ii) every parse tree for which the real parser reports no error is
checked to be a derivation by that grammar, and every relation declaration in it to be the embedding of
a typed CST (C19, C03) — and in that CST the structural violations are unrepresentable:
`partials_single_operator` (an operator group has one operator: `a or b and c` has no CST),
`accepted_declaration_structurally_valid` (the relation an accepted declaration is parsed to has no
missing operand and at most one direct assignment, in first position), `direct_assignment_nonempty`.
So an *accepted* document cannot contain them, given the two run-time checks.  **Not proved**: that
ANTLR reports an error for every text outside the grammar in the first place; that is what the
catalogue of injected violations exercises on the real parser (oracle).
-/
namespace FgaVerif.Props.C09
open FgaVerif.Model FgaVerif.Model.Listener FgaVerif.Model.Cst

/-- the log only grows, for every tree -/
theorem error_log_monotone (pe : Option Bool) (t : Tree) (st st' : LState) (h : walk pe t st = .ok st') :
    ∃ l, st'.errors = st.errors ++ l :=
  walk_grows pe t st st' h

/-- **any error voids the result**: if the transform returns a model then ANTLR reported nothing and
    the log is empty at the end of the walk (hence, by monotonicity, was empty throughout) -/
theorem any_error_voids_result (antlrErrors : List SynErr) (t : Tree) (m : Model) (x) :
    transform antlrErrors t = .ok m x →
      antlrErrors = [] ∧ ∃ st, walk none t { errors := antlrErrors } = .ok st ∧ st.errors = [] :=
  transform_ok_no_errors antlrErrors t m x

/-- a duplicate relation raises an error at its declaration, whatever its definition looks like -/
theorem duplicate_relation_logged (pe : Option Bool) (d : Decl) (hd : d.body.wf = true) (st : LState) (td : TypeDef)
    (m : TypeMeta) (htd : st.currentTypeDef = some td) (hm : td.md = some m)
    (hdup : AList.contains d.name.text td.relations = true) :
    ∃ s, walk pe (Decl.tree d) st = .ok s ∧
      s.errors = st.errors ++ [⟨0, 0, s!"'{d.name.text}' is already defined in '{td.name}'"⟩] := by
  refine ⟨_, walk_decl pe d hd st td m htd hm, ?_⟩
  rw [declResult_errors, hdup]
  rfl

/-- … and no continuation of the walk (any further trees, any shape) can end with an empty log -/
theorem duplicate_relation_rejected_anywhere (pe : Option Bool) (d : Decl) (hd : d.body.wf = true) (st : LState)
    (td : TypeDef) (m : TypeMeta) (htd : st.currentTypeDef = some td) (hm : td.md = some m)
    (hdup : AList.contains d.name.text td.relations = true)
    (rest : List Tree) (pe' : Option Bool) (final : LState)
    (h : walkL pe' (Decl.tree d :: rest) st = .ok final) : final.errors ≠ [] := by
  obtain ⟨s, hs, he⟩ := duplicate_relation_logged pe' d hd st td m htd hm hdup
  simp only [walkL, hs] at h
  obtain ⟨l, hl⟩ := walkL_grows pe' rest s final h
  rw [hl, he]
  simp

/-- an accepted declaration is reflected in the model: the type under construction has the relation
    with the denotation of its CST; nothing is silently dropped -/
theorem declaration_reflected (pe : Option Bool) (d : Decl) (hd : d.body.wf = true) (st : LState) (td : TypeDef)
    (m : TypeMeta) (htd : st.currentTypeDef = some td) (hm : td.md = some m) :
    ∃ s td', walk pe (Decl.tree d) st = .ok s ∧ s.currentTypeDef = some td' ∧
      AList.find? d.name.text td'.relations = some (Def.den d.body) ∧
      ∀ k, AList.contains k td.relations = true → AList.contains k td'.relations = true := by
  refine ⟨_, declTypeDef pe d st td m, walk_decl pe d hd st td m htd hm, declResult_typeDef _ _ _ _ _, ?_, ?_⟩
  · exact AList.find?_insert_self _ _ _
  · intro k hk
    exact AList.contains_insert_of_contains _ _ _ _ hk

/-! ## non-vacuity -/
def idT (s : String) : Ident := ⟨true, "IDENTIFIER", s⟩
def dupDecl : Decl := ⟨"\n", " ", idT "viewer", none, some " ", .mk (.rw ⟨idT "editor", none⟩) none⟩
def tdBefore : TypeDef := { name := "doc", relations := [("viewer", .this)], md := some {} }
example : dupDecl.body.wf = true ∧ AList.contains dupDecl.name.text tdBefore.relations = true := by decide
example : (match walk none (Decl.tree dupDecl) { currentTypeDef := some tdBefore } with
           | .ok s => s.errors.length | .error _ => 0) = 1 := by decide


/-! ### the grammar half, through the typed concrete syntax

    The structural violations of the catalogue are *unrepresentable* in the typed CST of
    `Model/Cst.lean`: an operator group carries one operator, operands other than the first cannot be a
    direct assignment, a restriction list has a first element.  Every relation declaration of every
    error-free real parse tree is checked at run time to be the embedding of such a CST
    (`embeddingOf`, C03), so for accepted documents the following are facts about what was parsed. -/

def isOpTok : Tree → Bool
  | .tok ty _ _ _ _ => ty == "OR" || ty == "AND" || ty == "BUT_NOT"
  | _ => false

theorem itemND_not_opTok : ∀ (i : ItemND), isOpTok (ItemND.tree i) = false
  | .rw r => by simp [ItemND.tree, Rw.grouping, isOpTok]
  | .paren (.ofDef _ _ _) => by simp [ItemND.tree, RecND.tree, isOpTok]
  | .paren (.ofRec _ _ _) => by simp [ItemND.tree, RecND.tree, isOpTok]

/-- **one operator per group**: every operator token among the children of a `relationDefPartials`
    node of a CST is the group's operator — `a or b and c` has no CST -/
theorem partials_single_operator (op : Op) : ∀ (items : Items), ∀ c ∈ Items.trees op items,
    isOpTok c = true → c = opTok op
  | .one w1 w2 i, c, hc, ho => by
    simp only [Items.trees, List.mem_cons, List.mem_nil_iff, or_false] at hc
    rcases hc with rfl | rfl | rfl | rfl
    · simp [ws, tokT, isOpTok] at ho
    · rfl
    · simp [ws, tokT, isOpTok] at ho
    · rw [itemND_not_opTok] at ho; cases ho
  | .cons w1 w2 i rest, c, hc, ho => by
    simp only [Items.trees, List.mem_append, List.mem_cons, List.mem_nil_iff, or_false] at hc
    rcases hc with (rfl | rfl | rfl | rfl) | hc
    · simp [ws, tokT, isOpTok] at ho
    · rfl
    · simp [ws, tokT, isOpTok] at ho
    · rw [itemND_not_opTok] at ho; cases ho
    · exact partials_single_operator op rest c hc ho

/-- **a direct assignment occurs at most once and only in first position**, and no operand is missing,
    in the relation that a real, accepted relation declaration is parsed to -/
theorem accepted_declaration_structurally_valid (t : Tree) (d : Decl) (h : embeddingOf t = some d) :
    d.body.wf = true ∧ noNil (Def.den d.body) = true ∧
    (countThis (Def.den d.body) = 0 ∨
      (countThis (Def.den d.body) = 1 ∧ Printer.isFirstPosition (Def.den d.body) = true)) := by
  obtain ⟨hwf, _⟩ := embeddingOf_sound t d h
  exact ⟨hwf, def_props d.body hwf⟩

/-- a restriction list of a CST is never empty -/
theorem direct_assignment_nonempty (d : Direct) : d.den ≠ [] := by simp [Direct.den]

/-! ## the listener half, continued: the other errors the listener raises

    A condition defined twice, a condition parameter defined twice, `extend` outside a module, the same
    type extended twice in one file (`Proofs/ListenerErrors.lean`).  Each statement is about a rule node
    **whose children are arbitrary** (or arbitrary up to the exclusion of a nested node of the very kind
    under consideration — something no grammatical and no error-recovered tree of this grammar has), in
    an arbitrary listener state meeting the stated condition, and comes in three strengths:

    * `…_logged`: every successful walk of the node appends the error, with the position of the
      offending name, to the log;
    * `…_rejected_anywhere`: whatever follows the node among its siblings, the error is in the log —
      which is therefore not empty — at the end;
    * `…_voids_transform`: wherever in the document's tree the node sits — any sibling rank, any nesting
      depth (`Reaches`: the path from the root, with the callbacks run on the way) — `transform`
      returns no model.

    `Reaches pe ts st pe' t s` reads: the walk of the forest `ts` from state `st` arrives at the node
    `t` (a member of `ts`, or a descendant at any depth) and walks it from state `s`; it is generated by
    `here` (the head of the forest), `skip` (walk the head, go on in the tail) and `down` (run the head's
    enter callback, go on among its children). -/

/-- **any error, anywhere**: if the walk of the document's tree reaches, at whatever position and
    depth, a node whose walk cannot end with an empty log, the transform returns no model -/
theorem listener_error_voids_transform (antlrErrors : List SynErr) (T : Tree) (pe' : Option Bool) (t : Tree)
    (s : LState) (hr : Reaches none [T] { errors := antlrErrors } pe' t s)
    (hne : ∀ mid, walk pe' t s = .ok mid → mid.errors ≠ []) (m : Model) (x) :
    transform antlrErrors T ≠ .ok m x :=
  Listener.listener_error_voids_transform antlrErrors T pe' t s hr hne m x

/-- the position `Reaches` describes is really visited: if the whole walk succeeds, so does the walk of
    the node reached, from the state given, and whatever it logs is still in the log at the end -/
theorem reached_node_is_walked (pe : Option Bool) (ts : List Tree) (st : LState) (pe' : Option Bool) (t : Tree)
    (s final : LState) (hr : Reaches pe ts st pe' t s) (h : walkL pe ts st = .ok final) :
    ∃ mid, walk pe' t s = .ok mid ∧ ∃ l, final.errors = mid.errors ++ l :=
  (hr.grows final h).2

/-! ### a condition defined twice -/

/-- a `condition` node (any children) whose name is already among the conditions collected: every
    successful walk logs the error at the position of the name -/
theorem duplicate_condition_logged (pe : Option Bool) (sl sc : Nat) (ls) (cs : List Tree) (cn : Tree) (st st' : LState)
    (hcn : (Tree.rule "condition" sl sc ls cs).childRule? "conditionName" = some cn)
    (hdup : AList.contains cn.text st.conds = true)
    (h : walk pe (.rule "condition" sl sc ls cs) st = .ok st') :
    ∃ l, st'.errors = st.errors ++
      (⟨cn.startPos.1, cn.startPos.2, s!"condition '{cn.text}' is already defined in the model"⟩ :: l) :=
  Listener.duplicate_condition_logged pe sl sc ls cs cn st st' hcn hdup h

/-- … and no continuation of the walk can end with an empty log -/
theorem duplicate_condition_rejected_anywhere (pe' : Option Bool) (sl sc : Nat) (ls) (cs : List Tree) (cn : Tree)
    (st : LState) (hcn : (Tree.rule "condition" sl sc ls cs).childRule? "conditionName" = some cn)
    (hdup : AList.contains cn.text st.conds = true) (rest : List Tree) (final : LState)
    (h : walkL pe' (.rule "condition" sl sc ls cs :: rest) st = .ok final) : final.errors ≠ [] :=
  (Listener.duplicate_condition_rejected_anywhere pe' sl sc ls cs cn st hcn hdup rest final h).2

/-- … at whatever position and depth of the document -/
theorem duplicate_condition_voids_transform (antlrErrors : List SynErr) (T : Tree) (pe' : Option Bool)
    (sl sc : Nat) (ls) (cs : List Tree) (cn : Tree) (s : LState)
    (hr : Reaches none [T] { errors := antlrErrors } pe' (.rule "condition" sl sc ls cs) s)
    (hcn : (Tree.rule "condition" sl sc ls cs).childRule? "conditionName" = some cn)
    (hdup : AList.contains cn.text s.conds = true) (m : Model) (x) :
    transform antlrErrors T ≠ .ok m x :=
  Listener.duplicate_condition_voids_transform antlrErrors T pe' sl sc ls cs cn s hr hcn hdup m x

/-! ### a condition parameter defined twice -/

/-- callback level, for every context node and state: a parameter whose name the condition under
    construction already has is logged at the position of the name -/
theorem duplicate_parameter_logged_by_callback (ctx pn pt : Tree) (st : LState) (c : Condition)
    (hpn : ctx.childRule? "parameterName" = some pn) (hpt : ctx.childRule? "parameterType" = some pt)
    (hc : st.currentCondition = some c) (hdup : AList.contains pn.text c.params = true) :
    ∃ st', exitConditionParameter ctx st = .ok st' ∧
      st'.errors = st.errors ++
        [⟨pn.startPos.1, pn.startPos.2, s!"parameter '{pn.text}' is already defined in the condition '{c.name}'"⟩] :=
  exitConditionParameter_duplicate ctx pn pt st c hpn hpt hc hdup

/-- whole `conditionParameter` node whose children are subtrees the listener has no callback for (tokens,
    error nodes, `parameterName` / `parameterType` nodes over such — `inertL`; walking them leaves the state
    as it is, `walkL_inert`): the walk succeeds and logs exactly this error -/
theorem duplicate_parameter_logged (pe : Option Bool) (sl sc : Nat) (ls) (cs : List Tree) (pn pt : Tree)
    (st : LState) (c : Condition) (hin : inertL cs = true)
    (hpn : (Tree.rule "conditionParameter" sl sc ls cs).childRule? "parameterName" = some pn)
    (hpt : (Tree.rule "conditionParameter" sl sc ls cs).childRule? "parameterType" = some pt)
    (hc : st.currentCondition = some c) (hdup : AList.contains pn.text c.params = true) :
    ∃ st', walk pe (.rule "conditionParameter" sl sc ls cs) st = .ok st' ∧
      st'.errors = st.errors ++
        [⟨pn.startPos.1, pn.startPos.2, s!"parameter '{pn.text}' is already defined in the condition '{c.name}'"⟩] :=
  Listener.duplicate_parameter_logged pe sl sc ls cs pn pt st c hin hpn hpt hc hdup

/-- whole node, children of any shape provided no `condition` / `conditionParameter` node is nested in
    them (only those touch the name and the parameters of the condition under construction,
    `keeps_cond`): every successful walk ends with the error as the last entry of the log -/
theorem duplicate_parameter_logged_general (pe : Option Bool) (sl sc : Nat) (ls) (cs : List Tree) (pn pt : Tree)
    (st st' : LState) (c : Condition) (hav : avoidsL condBad cs = true)
    (hpn : (Tree.rule "conditionParameter" sl sc ls cs).childRule? "parameterName" = some pn)
    (hpt : (Tree.rule "conditionParameter" sl sc ls cs).childRule? "parameterType" = some pt)
    (hc : st.currentCondition = some c) (hdup : AList.contains pn.text c.params = true)
    (h : walk pe (.rule "conditionParameter" sl sc ls cs) st = .ok st') :
    ∃ l, st'.errors = st.errors ++ l ++
      [⟨pn.startPos.1, pn.startPos.2, s!"parameter '{pn.text}' is already defined in the condition '{c.name}'"⟩] :=
  Listener.duplicate_parameter_logged_general pe sl sc ls cs pn pt st st' c hav hpn hpt hc hdup h

theorem duplicate_parameter_rejected_anywhere (pe' : Option Bool) (sl sc : Nat) (ls) (cs : List Tree) (pn pt : Tree)
    (st : LState) (c : Condition) (hav : avoidsL condBad cs = true)
    (hpn : (Tree.rule "conditionParameter" sl sc ls cs).childRule? "parameterName" = some pn)
    (hpt : (Tree.rule "conditionParameter" sl sc ls cs).childRule? "parameterType" = some pt)
    (hc : st.currentCondition = some c) (hdup : AList.contains pn.text c.params = true)
    (rest : List Tree) (final : LState)
    (h : walkL pe' (.rule "conditionParameter" sl sc ls cs :: rest) st = .ok final) : final.errors ≠ [] :=
  (Listener.duplicate_parameter_rejected_anywhere pe' sl sc ls cs pn pt st c hav hpn hpt hc hdup rest final h).2

theorem duplicate_parameter_voids_transform (antlrErrors : List SynErr) (T : Tree) (pe' : Option Bool)
    (sl sc : Nat) (ls) (cs : List Tree) (pn pt : Tree) (s : LState) (c : Condition)
    (hr : Reaches none [T] { errors := antlrErrors } pe' (.rule "conditionParameter" sl sc ls cs) s)
    (hav : avoidsL condBad cs = true)
    (hpn : (Tree.rule "conditionParameter" sl sc ls cs).childRule? "parameterName" = some pn)
    (hpt : (Tree.rule "conditionParameter" sl sc ls cs).childRule? "parameterType" = some pt)
    (hc : s.currentCondition = some c) (hdup : AList.contains pn.text c.params = true) (m : Model) (x) :
    transform antlrErrors T ≠ .ok m x :=
  Listener.duplicate_parameter_voids_transform antlrErrors T pe' sl sc ls cs pn pt s c hr hav hpn hpt hc hdup m x

/-! ### `extend` in a model that is not modular -/

/-- a `typeDef` node (any children) with an EXTEND token, met while the file is not a module: every
    successful walk logs the error at the position of the type name -/
theorem extend_nonmodular_logged (pe : Option Bool) (sl sc : Nat) (ls) (cs : List Tree) (tn : Tree) (st st' : LState)
    (htn : (Tree.rule "typeDef" sl sc ls cs).label? "typeName" = some tn)
    (hext : ((Tree.rule "typeDef" sl sc ls cs).childTok? "EXTEND").isSome = true)
    (hmod : st.isModular = false)
    (h : walk pe (.rule "typeDef" sl sc ls cs) st = .ok st') :
    ∃ l, st'.errors = st.errors ++
      (⟨tn.startPos.1, tn.startPos.2, "extend can only be used in a modular model"⟩ :: l) :=
  Listener.extend_nonmodular_logged pe sl sc ls cs tn st st' htn hext hmod h

theorem extend_nonmodular_rejected_anywhere (pe' : Option Bool) (sl sc : Nat) (ls) (cs : List Tree) (tn : Tree)
    (st : LState) (htn : (Tree.rule "typeDef" sl sc ls cs).label? "typeName" = some tn)
    (hext : ((Tree.rule "typeDef" sl sc ls cs).childTok? "EXTEND").isSome = true)
    (hmod : st.isModular = false) (rest : List Tree) (final : LState)
    (h : walkL pe' (.rule "typeDef" sl sc ls cs :: rest) st = .ok final) : final.errors ≠ [] :=
  (Listener.extend_nonmodular_rejected_anywhere pe' sl sc ls cs tn st htn hext hmod rest final h).2

theorem extend_nonmodular_voids_transform (antlrErrors : List SynErr) (T : Tree) (pe' : Option Bool)
    (sl sc : Nat) (ls) (cs : List Tree) (tn : Tree) (s : LState)
    (hr : Reaches none [T] { errors := antlrErrors } pe' (.rule "typeDef" sl sc ls cs) s)
    (htn : (Tree.rule "typeDef" sl sc ls cs).label? "typeName" = some tn)
    (hext : ((Tree.rule "typeDef" sl sc ls cs).childTok? "EXTEND").isSome = true)
    (hmod : s.isModular = false) (m : Model) (x) :
    transform antlrErrors T ≠ .ok m x :=
  Listener.extend_nonmodular_voids_transform antlrErrors T pe' sl sc ls cs tn s hr htn hext hmod m x

/-! ### the same type extended twice in one file -/

/-- callback level, for every context node and state: leaving an `extend type` node of a module whose
    extension map already has the type under construction — if the callback returns (Go dereferences
    the node's `typeName` field on this path), the field is there and the error is logged at it -/
theorem extended_twice_logged_by_callback (ctx : Tree) (st st' : LState) (td : TypeDef) (exts : List (String × Nat))
    (hext : (ctx.childTok? "EXTEND").isSome = true) (hmod : st.isModular = true)
    (hexts : st.typeDefExtensions = some exts) (htd : st.currentTypeDef = some td) (hname : td.name ≠ "")
    (hdup : AList.contains td.name exts = true) (h : exitTypeDef ctx st = .ok st') :
    ∃ tn, ctx.label? "typeName" = some tn ∧
      st'.errors = st.errors ++ [⟨tn.startPos.1, tn.startPos.2, s!"'{td.name}' is already extended in file."⟩] :=
  exitTypeDef_extended_twice ctx st st' td exts hext hmod hexts htd hname hdup h

/-- whole node, arbitrary children, in terms of the state the children leave behind -/
theorem extended_twice_logged_after_children (pe : Option Bool) (sl sc : Nat) (ls) (cs : List Tree)
    (st st1 st2 st' : LState) (td : TypeDef) (exts : List (String × Nat))
    (hext : ((Tree.rule "typeDef" sl sc ls cs).childTok? "EXTEND").isSome = true)
    (h1 : enterTypeDef (.rule "typeDef" sl sc ls cs) st = .ok st1)
    (h2 : walkL (some true) cs st1 = .ok st2)
    (hmod : st2.isModular = true) (hexts : st2.typeDefExtensions = some exts)
    (htd : st2.currentTypeDef = some td) (hname : td.name ≠ "") (hdup : AList.contains td.name exts = true)
    (h : walk pe (.rule "typeDef" sl sc ls cs) st = .ok st') :
    ∃ tn l, (Tree.rule "typeDef" sl sc ls cs).label? "typeName" = some tn ∧
      st'.errors = st.errors ++ l ++
        [⟨tn.startPos.1, tn.startPos.2, s!"'{td.name}' is already extended in file."⟩] :=
  Listener.extended_twice_logged_after_children pe sl sc ls cs st st1 st2 st' td exts hext h1 h2 hmod hexts htd
    hname hdup h

/-- whole node in terms of the state *before* it: an `extend type X` node — children of any shape
    provided no `typeDef` / `moduleHeader` node is nested in them (only those touch the modular flag, the
    extension map and the name of the type under construction, `keeps_type`) — met in a module whose
    extension map already has `X`: every successful walk ends with the error, at the position of the
    type name, as the last entry of the log -/
theorem extended_twice_logged (pe : Option Bool) (sl sc : Nat) (ls) (cs : List Tree) (tn : Tree) (st st' : LState)
    (exts : List (String × Nat))
    (htn : (Tree.rule "typeDef" sl sc ls cs).label? "typeName" = some tn) (hne : tn.text ≠ "")
    (hext : ((Tree.rule "typeDef" sl sc ls cs).childTok? "EXTEND").isSome = true)
    (hmod : st.isModular = true) (hexts : st.typeDefExtensions = some exts)
    (hdup : AList.contains tn.text exts = true) (hav : avoidsL typeBad cs = true)
    (h : walk pe (.rule "typeDef" sl sc ls cs) st = .ok st') :
    ∃ l, st'.errors = st.errors ++ l ++
      [⟨tn.startPos.1, tn.startPos.2, s!"'{tn.text}' is already extended in file."⟩] :=
  Listener.extended_twice_logged pe sl sc ls cs tn st st' exts htn hne hext hmod hexts hdup hav h

/-- **two `extend type X` nodes in one file**: with anything but a module header between them (other
    types, other extensions, conditions, error nodes) and anything at all after them, a successful walk
    ends with a non-empty log — "'X' is already extended in file." at the second node's type name is in it.
    (The first node puts `X` into the extension map, `extend_registers`; what follows keeps it there,
    `preserves_extended`.) -/
theorem same_type_extended_twice (pe : Option Bool)
    (sl1 sc1 : Nat) (ls1) (cs1 : List Tree) (tn1 : Tree) (mid : List Tree)
    (sl2 sc2 : Nat) (ls2) (cs2 : List Tree) (tn2 : Tree) (rest : List Tree)
    (st final : LState) (exts : List (String × Nat))
    (htn1 : (Tree.rule "typeDef" sl1 sc1 ls1 cs1).label? "typeName" = some tn1)
    (htn2 : (Tree.rule "typeDef" sl2 sc2 ls2 cs2).label? "typeName" = some tn2)
    (hsame : tn2.text = tn1.text) (hne : tn1.text ≠ "")
    (hext1 : ((Tree.rule "typeDef" sl1 sc1 ls1 cs1).childTok? "EXTEND").isSome = true)
    (hext2 : ((Tree.rule "typeDef" sl2 sc2 ls2 cs2).childTok? "EXTEND").isSome = true)
    (hmod : st.isModular = true) (hexts : st.typeDefExtensions = some exts)
    (hav1 : avoidsL typeBad cs1 = true) (hav2 : avoidsL typeBad cs2 = true)
    (hmid : avoidsL isModuleHeader mid = true)
    (h : walkL pe (.rule "typeDef" sl1 sc1 ls1 cs1 :: (mid ++ .rule "typeDef" sl2 sc2 ls2 cs2 :: rest)) st = .ok final) :
    (⟨tn2.startPos.1, tn2.startPos.2, s!"'{tn2.text}' is already extended in file."⟩ : SynErr) ∈ final.errors ∧
      final.errors ≠ [] :=
  Listener.same_type_extended_twice pe sl1 sc1 ls1 cs1 tn1 mid sl2 sc2 ls2 cs2 tn2 rest st final exts htn1 htn2 hsame hne
    hext1 hext2 hmod hexts hav1 hav2 hmid h

theorem extended_twice_voids_transform (antlrErrors : List SynErr) (T : Tree) (pe' : Option Bool)
    (sl sc : Nat) (ls) (cs : List Tree) (tn : Tree) (s : LState) (exts : List (String × Nat))
    (hr : Reaches none [T] { errors := antlrErrors } pe' (.rule "typeDef" sl sc ls cs) s)
    (htn : (Tree.rule "typeDef" sl sc ls cs).label? "typeName" = some tn) (hne : tn.text ≠ "")
    (hext : ((Tree.rule "typeDef" sl sc ls cs).childTok? "EXTEND").isSome = true)
    (hmod : s.isModular = true) (hexts : s.typeDefExtensions = some exts)
    (hdup : AList.contains tn.text exts = true) (hav : avoidsL typeBad cs = true) (m : Model) (x) :
    transform antlrErrors T ≠ .ok m x :=
  Listener.extended_twice_voids_transform antlrErrors T pe' sl sc ls cs tn s exts hr htn hne hext hmod hexts hdup hav m x

/-! ### non-vacuity: concrete nodes and states that meet the hypotheses; the walk succeeds and logs
    exactly the one error -/

def tkn (ty text : String) (l c : Nat) : Tree := .tok ty text l c false

/-- `x: int` on line 5 -/
def paramNode : Tree :=
  .rule "conditionParameter" 5 13 [] [
    .rule "parameterName" 5 13 [] [tkn "IDENTIFIER" "x" 5 13], tkn "COLON" ":" 5 14, tkn "WHITESPACE" " " 5 15,
    .rule "parameterType" 5 16 [] [tkn "CONDITION_PARAM_TYPE" "int" 5 16]]

/-- `condition c1(x: int) {x < 1}` on line 5 -/
def condNode : Tree :=
  .rule "condition" 4 30 [] [
    tkn "NEWLINE" "\n" 4 30, tkn "CONDITION" "condition" 5 0, tkn "WHITESPACE" " " 5 9,
    .rule "conditionName" 5 10 [] [tkn "IDENTIFIER" "c1" 5 10],
    tkn "LPAREN" "(" 5 12, paramNode, tkn "RPAREN" ")" 5 19, tkn "WHITESPACE" " " 5 20, tkn "LBRACE" "{" 5 21,
    .rule "conditionExpression" 5 22 [] [tkn "IDENTIFIER" "x" 5 22, tkn "WHITESPACE" " " 5 23, tkn "LESS" "<" 5 24,
      tkn "WHITESPACE" " " 5 25, tkn "NUM_INT" "1" 5 26],
    tkn "RBRACE" "}" 5 27]

/-- a state in which a condition `c1` has been collected -/
def stWithC1 : LState := { conds := [("c1", { name := "c1" })] }

example : condNode.childRule? "conditionName" = some (.rule "conditionName" 5 10 [] [tkn "IDENTIFIER" "c1" 5 10]) := rfl
example : AList.contains "c1" stWithC1.conds = true := by decide
example : (match walk none condNode stWithC1 with | .ok s => s.errors | .error _ => []) =
    [⟨4, 10, "condition 'c1' is already defined in the model"⟩] := by decide

/-- a state inside condition `c1`, which has a parameter `x` already -/
def stInC1 : LState := { currentCondition := some { name := "c1", params := [("x", { typeName := "string" })] } }

example : inertL paramNode.children = true ∧ avoidsL condBad paramNode.children = true := by decide
example : paramNode.childRule? "parameterName" = some (.rule "parameterName" 5 13 [] [tkn "IDENTIFIER" "x" 5 13]) := rfl
example : paramNode.childRule? "parameterType" =
    some (.rule "parameterType" 5 16 [] [tkn "CONDITION_PARAM_TYPE" "int" 5 16]) := rfl
example : (match walk none paramNode stInC1 with | .ok s => s.errors | .error _ => []) =
    [⟨4, 13, "parameter 'x' is already defined in the condition 'c1'"⟩] := by decide

def typeNameNode (l : Nat) : Tree := .rule "extended_identifier" l 12 [] [tkn "IDENTIFIER" "doc" l 12]

/-- `extend type doc` on line `l` (the node starts with the NEWLINE that ends the line before) -/
def extendNode (l : Nat) : Tree :=
  .rule "typeDef" (l - 1) 20 [("typeName", 5)] [
    tkn "NEWLINE" "\n" (l - 1) 20, tkn "EXTEND" "extend" l 0, tkn "WHITESPACE" " " l 6, tkn "TYPE" "type" l 7,
    tkn "WHITESPACE" " " l 11, typeNameNode l]

/-- a model (not a module) with `extend type doc` on line 4 -/
def modelFile : Tree :=
  .rule "main" 1 0 [] [
    .rule "modelHeader" 1 0 [("schemaVersion", 4)] [tkn "MODEL" "model" 1 0, tkn "NEWLINE" "\n" 1 5,
      tkn "SCHEMA" "schema" 2 2, tkn "WHITESPACE" " " 2 8, tkn "SCHEMA_VERSION" "1.1" 2 9],
    .rule "typeDefs" 2 12 [] [extendNode 4],
    .rule "conditions" 4 15 [] [],
    tkn "EOF" "<EOF>" 4 15]

/-- a module with `extend type doc` on lines 3 and 4 -/
def moduleFile : Tree :=
  .rule "main" 1 0 [] [
    .rule "moduleHeader" 1 0 [("moduleName", 2)] [tkn "MODULE" "module" 1 0, tkn "WHITESPACE" " " 1 6,
      .rule "identifier" 1 7 [] [tkn "IDENTIFIER" "m" 1 7]],
    .rule "typeDefs" 2 0 [] [extendNode 3, extendNode 4],
    .rule "conditions" 4 15 [] [],
    tkn "EOF" "<EOF>" 4 15]

example : (extendNode 4).label? "typeName" = some (typeNameNode 4) := rfl
example : ((extendNode 4).childTok? "EXTEND").isSome = true ∧ (typeNameNode 4).text ≠ "" := by decide
example : (match walk none (extendNode 4) {} with | .ok s => s.errors | .error _ => []) =
    [⟨3, 12, "extend can only be used in a modular model"⟩] := by decide
example : (match transform [] modelFile with | .errors es => es | _ => []) =
    [⟨3, 12, "extend can only be used in a modular model"⟩] := by decide +kernel

/-- a module state in which `doc` has been extended -/
def stExtended : LState := { isModular := true, typeDefExtensions := some [("doc", 0)] }

example : avoidsL typeBad (extendNode 4).children = true := by decide
example : (match walk none (extendNode 4) stExtended with | .ok s => s.errors | .error _ => []) =
    [⟨3, 12, "'doc' is already extended in file."⟩] := by decide
example : (match transform [] moduleFile with | .errors es => es | _ => []) =
    [⟨3, 12, "'doc' is already extended in file."⟩] := by decide +kernel

/-- `Reaches` is inhabited where it should be: the walk of the module file arrives at the second
    `extend type doc` — two levels down, second sibling — in a state in which `doc` is in the extension map
    (the hypotheses of `extended_twice_voids_transform`) -/
example : ∃ s, Reaches none [moduleFile] {} none (extendNode 4) s ∧ Extended "doc" s := by
  refine ⟨?s, ?h1, ?h2⟩
  case h1 =>
    refine Reaches.down _ _ _ _ _ _ _ _ _ _ _ _ rfl ?_
    refine Reaches.skip _ _ _ _ _ _ _ _ rfl ?_
    refine Reaches.down _ _ _ _ _ _ _ _ _ _ _ _ rfl ?_
    refine Reaches.skip _ _ _ _ _ _ _ _ rfl ?_
    exact Reaches.here _ _ _ _
  case h2 => exact ⟨rfl, _, rfl, by decide⟩

end FgaVerif.Props.C09
