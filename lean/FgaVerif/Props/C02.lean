import FgaVerif.Proofs.Printer
/-!
# C02 — JSON → DSL succeeds exactly for DSL-expressible models and loses nothing

Proved here about the printer port (`Model/Printer.lean`, a port of `jsontodsl.go`; tied to the code by
correspondence on *all* rewrite trees with ≤ 7 nodes over {this, computed, ttu} — every position and
multiplicity of the direct assignment — plus random deep models), for **every** rewrite tree:

* `print_ok_iff_expressible` — printing a relation succeeds **iff** the tree contains no unset userset,
  and has no direct assignment or exactly one that *can be placed first*: `FirstPath`, an inductive,
  path-based reading of the property statement ("first operand of its union/intersection — where it is
  hoisted, so any direct child will do — base of its exclusion, recursively from the root"), which is
  *not* the code's counter-and-loop test;
* `print_error_is_nesting` — every failure is the unsupported-nesting error for that type and relation,
  never other text;
* `assignable_iff_counted` — `IsRelationAssignable` holds iff the printer emitted a `[…]`
  (its direct-assignment counter is positive), and the counter equals the number of direct assignments;
* `hoist_is_permutation` — `prioritizeDirectAssignment` only permutes the operands.

Not proved here (executed by the oracle on the real code on every run instead): "parsing the produced DSL
gives back the input up to the four normalisations" — it needs the text→tree step of the real parser.
Degenerate inputs: an operator with zero operands used to be printed as an empty operand list, which is not
DSL (defect D13, repaired in /repo: it is the unsupported-nesting error now, like an unset userset; `noNil`
rejects both).  Open finding: a direct assignment without any type restriction is printed as `[]`, which is
not DSL either (KF-C02-empty-restrictions); `print_ok_iff_expressible` holds for it too (the port prints what
the code prints) — the finding is about the *text*, see the witness below.
-/
namespace FgaVerif.Props.C02
open FgaVerif.Model FgaVerif.Model.Printer

/-- the (single) direct assignment can be placed first -/
inductive FirstPath : Userset → Prop
  | this : FirstPath .this
  | diffBase (b s : Userset) : FirstPath b → FirstPath (.diff b s)
  | unionHere (cs : List Userset) : (∃ c ∈ cs, c = Userset.this) → FirstPath (.union cs)
  | unionHead (c : Userset) (cs : List Userset) : FirstPath c → FirstPath (.union (c :: cs))
  | interHere (cs : List Userset) : (∃ c ∈ cs, c = Userset.this) → FirstPath (.inter cs)
  | interHead (c : Userset) (cs : List Userset) : FirstPath c → FirstPath (.inter (c :: cs))

theorem isThis_iff (u : Userset) : isThis u = true ↔ u = .this := by
  cases u <;> simp [isThis]

theorem any_isThis_iff (cs : List Userset) : cs.any isThis = true ↔ ∃ c ∈ cs, c = Userset.this := by
  simp [List.any_eq_true, isThis_iff]

theorem firstPath_of_isFirstPosition : (u : Userset) → isFirstPosition u = true → FirstPath u
  | .this, _ => .this
  | .computed _, h => by simp [isFirstPosition] at h
  | .ttu _ _, h => by simp [isFirstPosition] at h
  | .nil, h => by simp [isFirstPosition] at h
  | .diff b s, h => by
      unfold isFirstPosition at h
      split at h
      · cases h
      · rename_i hb
        split at h
        · rename_i ht
          have : b = .this := (isThis_iff b).1 ht
          subst this
          exact .diffBase _ _ .this
        · exact .diffBase _ _ (firstPath_of_isFirstPosition b h)
  | .union cs, h => by
      unfold isFirstPosition at h
      split at h
      · cases h
      · rename_i c rest
        split at h
        · rename_i ha
          exact .unionHere _ ((any_isThis_iff _).1 ha)
        · exact .unionHead _ _ (firstPath_of_isFirstPosition c h)
  | .inter cs, h => by
      unfold isFirstPosition at h
      split at h
      · cases h
      · rename_i c rest
        split at h
        · rename_i ha
          exact .interHere _ ((any_isThis_iff _).1 ha)
        · exact .interHead _ _ (firstPath_of_isFirstPosition c h)

theorem isFirstPosition_of_firstPath (u : Userset) (h : FirstPath u) : isFirstPosition u = true := by
  induction h with
  | this => simp [isFirstPosition]
  | diffBase b s _ ih =>
    unfold isFirstPosition
    split
    · rename_i hb; simp [hb, isFirstPosition] at ih
    · split
      · rfl
      · exact ih
  | unionHere cs hex =>
    unfold isFirstPosition
    split
    · obtain ⟨c, hc, _⟩ := hex; cases hc
    · simp [(any_isThis_iff _).2 hex]
  | unionHead c cs _ ih =>
    unfold isFirstPosition
    simp only
    split
    · rfl
    · exact ih
  | interHere cs hex =>
    unfold isFirstPosition
    split
    · obtain ⟨c, hc, _⟩ := hex; cases hc
    · simp [(any_isThis_iff _).2 hex]
  | interHead c cs _ ih =>
    unfold isFirstPosition
    simp only
    split
    · rfl
    · exact ih

/-- a relation is DSL-expressible: nothing unset and no operator without operands (`noNil`), and no
    direct assignment or exactly one that can be placed first -/
def Expressible (u : Userset) : Prop :=
  noNil u = true ∧ (countThis u = 0 ∨ (countThis u = 1 ∧ FirstPath u))

/-- **printing succeeds iff the relation is DSL-expressible** -/
theorem print_ok_iff_expressible (ty rel : String) (u : Userset) (md : RelMeta) (src : Bool) :
    (parseRelation ty rel u md src).isOk = true ↔ Expressible u := by
  rw [parseRelation_ok_iff]
  unfold Expressible
  constructor
  · rintro ⟨h1, h2 | ⟨h2, h3⟩⟩
    · exact ⟨h1, Or.inl h2⟩
    · exact ⟨h1, Or.inr ⟨h2, firstPath_of_isFirstPosition u h3⟩⟩
  · rintro ⟨h1, h2 | ⟨h2, h3⟩⟩
    · exact ⟨h1, Or.inl h2⟩
    · exact ⟨h1, Or.inr ⟨h2, isFirstPosition_of_firstPath u h3⟩⟩

/-- **otherwise the unsupported-nesting error is returned, never other text** -/
theorem print_error_is_nesting (ty rel : String) (u : Userset) (md : RelMeta) (src : Bool) (e : PrintErr)
    (h : parseRelation ty rel u md src = .error e) : e = .nesting ty rel :=
  parseRelation_error ty rel u md src e h

/-- the printer's direct-assignment counter is the number of direct assignments, and
    `IsRelationAssignable` holds exactly when it is positive, i.e. when a `[…]` was printed -/
theorem assignable_iff_counted (ty rel : String) (rs : List RelRef) (u : Userset) (s : String) (n : Nat)
    (h : parseTop ty rel rs u = .ok (s, n)) : n = countThis u ∧ (isAssignable u = true ↔ 0 < n) := by
  have hn := top_count ty rel rs u s n h
  exact ⟨hn, by rw [hn]; exact assignable_iff_count u⟩

/-- hoisting only permutes the operands -/
theorem hoist_is_permutation (us : List Userset) : (prioritizeDirectAssignment us).Perm us := hoist_perm us

/-! ## non-vacuity and witnesses -/
deriving instance DecidableEq for Except

example : Expressible (.union [.computed "a", .this, .diff (.ttu "p" "x") (.computed "b")]) :=
  ⟨by decide, Or.inr ⟨by decide, .unionHere _ ⟨.this, by simp, rfl⟩⟩⟩
example : (parseRelation "doc" "v" (.union [.computed "a", .this]) { restr := [{ type := "user" }] } false) =
    .ok "    define v: [user] or a" := by decide
example : (parseRelation "doc" "v" (.diff (.computed "a") .this) {} false) = .error (.nesting "doc" "v") := by decide
/-- repaired defect D13: an operator without operands is the nesting error, at the root and below it -/
example : (parseRelation "doc" "r" (.union []) {} false) = .error (.nesting "doc" "r") := by decide
example : (parseRelation "doc" "r" (.union [.computed "a", .inter []]) {} false) = .error (.nesting "doc" "r") := by decide
/-- open finding KF-C02-empty-restrictions: a direct assignment without restrictions prints `[]` -/
example : (parseRelation "doc" "r" .this {} false) = .ok "    define r: []" := by decide

end FgaVerif.Props.C02
