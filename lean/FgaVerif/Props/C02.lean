import FgaVerif.Proofs.Printer
import FgaVerif.Proofs.PrintCst
/-!
# C02 — JSON → DSL succeeds exactly for DSL-expressible models and loses nothing

Proved here about the printer port (`Model/Printer.lean`, a port of `jsontodsl.go`; tied to the code by
correspondence on *all* rewrite trees with ≤ 7 nodes over {this, computed, ttu} — every position and
multiplicity of the direct assignment — plus random deep models), for **every** rewrite tree:

* `print_ok_iff_expressible` — printing a relation succeeds **iff** the tree contains no unset userset,
  and has no direct assignment or exactly one that *can be placed first*: `FirstPath`, an inductive,
  path-based reading of the property statement ("first operand of its union/intersection — where it is
  hoisted, so any direct child will do — base of its exclusion, recursively from the root"), which is
  *not* the code's counter-and-loop test;
* `print_error_is_nesting` — every failure is the unsupported-nesting error for that type and relation,
  never other text;
* `assignable_iff_counted` — `IsRelationAssignable` holds iff the printer emitted a `[…]`
  (its direct-assignment counter is positive), and the counter equals the number of direct assignments;
* `hoist_is_permutation` — `prioritizeDirectAssignment` only permutes the operands.

"Parsing the produced DSL gives back the input up to the normalisations" — the printer half is proved here,
without any parser (`Proofs/PrintCst.lean`):

* `printed_text_is_cst_of_normal_form` — whenever printing a relation succeeds, the printed body is *literally*
  the source text (concatenation of the token texts) of a well-formed concrete syntax tree `toCst rs u`
  (`Model/Cst.lean`: the grammar's relationDef with its layout), and that tree denotes `norm u`: the direct
  assignment hoisted to first position in its union/intersection (`norm_hoists_like_the_code`), one-operand
  unions/intersections collapsed (printed with redundant parentheses below the root), recursively; it declares
  the restrictions unchanged if the relation has a direct assignment and none otherwise (restrictions of a
  relation without direct assignment are dropped).  Side conditions, both necessary (witnesses below): if
  there is a direct assignment the restriction list is non-empty (KF-C02-empty-restrictions) and no restriction
  has wildcard and relation both set (`type:*#rel` is printed for such a proto);
* `printed_relation_is_declaration` — the whole `define` line is the text of a relationDeclaration tree with
  that body, on which the listener theorem (`Props/C03`, `walk_decl`) says the listener records `norm u`.

Not proved (checked on every run instead, by correspondence with the real parser and with the Lean lexer and
parser models, which read the text of these trees back as these trees): that lexer + parser turn the text of a
concrete syntax tree back into that tree — in particular that every printed name is lexically a name; the tree
types put no lexical constraint on identifier texts.
Degenerate inputs: an operator with zero operands used to be printed as an empty operand list, which is not
DSL (defect D13, repaired in /repo: it is the unsupported-nesting error now, like an unset userset; `noNil`
rejects both).  Open finding: a direct assignment without any type restriction is printed as `[]`, which is
not DSL either (KF-C02-empty-restrictions); `print_ok_iff_expressible` holds for it too (the port prints what
the code prints) — the finding is about the *text*, see the witness below.
-/
namespace FgaVerif.Props.C02
open FgaVerif.Model FgaVerif.Model.Printer

/-- the (single) direct assignment can be placed first -/
inductive FirstPath : Userset → Prop
  | this : FirstPath .this
  | diffBase (b s : Userset) : FirstPath b → FirstPath (.diff b s)
  | unionHere (cs : List Userset) : (∃ c ∈ cs, c = Userset.this) → FirstPath (.union cs)
  | unionHead (c : Userset) (cs : List Userset) : FirstPath c → FirstPath (.union (c :: cs))
  | interHere (cs : List Userset) : (∃ c ∈ cs, c = Userset.this) → FirstPath (.inter cs)
  | interHead (c : Userset) (cs : List Userset) : FirstPath c → FirstPath (.inter (c :: cs))

theorem isThis_iff (u : Userset) : isThis u = true ↔ u = .this := by
  cases u <;> simp [isThis]

theorem any_isThis_iff (cs : List Userset) : cs.any isThis = true ↔ ∃ c ∈ cs, c = Userset.this := by
  simp [List.any_eq_true, isThis_iff]

theorem firstPath_of_isFirstPosition : (u : Userset) → isFirstPosition u = true → FirstPath u
  | .this, _ => .this
  | .computed _, h => by simp [isFirstPosition] at h
  | .ttu _ _, h => by simp [isFirstPosition] at h
  | .nil, h => by simp [isFirstPosition] at h
  | .diff b s, h => by
      unfold isFirstPosition at h
      split at h
      · cases h
      · rename_i hb
        split at h
        · rename_i ht
          have : b = .this := (isThis_iff b).1 ht
          subst this
          exact .diffBase _ _ .this
        · exact .diffBase _ _ (firstPath_of_isFirstPosition b h)
  | .union cs, h => by
      unfold isFirstPosition at h
      split at h
      · cases h
      · rename_i c rest
        split at h
        · rename_i ha
          exact .unionHere _ ((any_isThis_iff _).1 ha)
        · exact .unionHead _ _ (firstPath_of_isFirstPosition c h)
  | .inter cs, h => by
      unfold isFirstPosition at h
      split at h
      · cases h
      · rename_i c rest
        split at h
        · rename_i ha
          exact .interHere _ ((any_isThis_iff _).1 ha)
        · exact .interHead _ _ (firstPath_of_isFirstPosition c h)

theorem isFirstPosition_of_firstPath (u : Userset) (h : FirstPath u) : isFirstPosition u = true := by
  induction h with
  | this => simp [isFirstPosition]
  | diffBase b s _ ih =>
    unfold isFirstPosition
    split
    · rename_i hb; simp [hb, isFirstPosition] at ih
    · split
      · rfl
      · exact ih
  | unionHere cs hex =>
    unfold isFirstPosition
    split
    · obtain ⟨c, hc, _⟩ := hex; cases hc
    · simp [(any_isThis_iff _).2 hex]
  | unionHead c cs _ ih =>
    unfold isFirstPosition
    simp only
    split
    · rfl
    · exact ih
  | interHere cs hex =>
    unfold isFirstPosition
    split
    · obtain ⟨c, hc, _⟩ := hex; cases hc
    · simp [(any_isThis_iff _).2 hex]
  | interHead c cs _ ih =>
    unfold isFirstPosition
    simp only
    split
    · rfl
    · exact ih

/-- a relation is DSL-expressible: nothing unset and no operator without operands (`noNil`), and no
    direct assignment or exactly one that can be placed first -/
def Expressible (u : Userset) : Prop :=
  noNil u = true ∧ (countThis u = 0 ∨ (countThis u = 1 ∧ FirstPath u))

/-- **printing succeeds iff the relation is DSL-expressible** -/
theorem print_ok_iff_expressible (ty rel : String) (u : Userset) (md : RelMeta) (src : Bool) :
    (parseRelation ty rel u md src).isOk = true ↔ Expressible u := by
  rw [parseRelation_ok_iff]
  unfold Expressible
  constructor
  · rintro ⟨h1, h2 | ⟨h2, h3⟩⟩
    · exact ⟨h1, Or.inl h2⟩
    · exact ⟨h1, Or.inr ⟨h2, firstPath_of_isFirstPosition u h3⟩⟩
  · rintro ⟨h1, h2 | ⟨h2, h3⟩⟩
    · exact ⟨h1, Or.inl h2⟩
    · exact ⟨h1, Or.inr ⟨h2, isFirstPosition_of_firstPath u h3⟩⟩

/-- **otherwise the unsupported-nesting error is returned, never other text** -/
theorem print_error_is_nesting (ty rel : String) (u : Userset) (md : RelMeta) (src : Bool) (e : PrintErr)
    (h : parseRelation ty rel u md src = .error e) : e = .nesting ty rel :=
  parseRelation_error ty rel u md src e h

/-- the printer's direct-assignment counter is the number of direct assignments, and
    `IsRelationAssignable` holds exactly when it is positive, i.e. when a `[…]` was printed -/
theorem assignable_iff_counted (ty rel : String) (rs : List RelRef) (u : Userset) (s : String) (n : Nat)
    (h : parseTop ty rel rs u = .ok (s, n)) : n = countThis u ∧ (isAssignable u = true ↔ 0 < n) := by
  have hn := top_count ty rel rs u s n h
  exact ⟨hn, by rw [hn]; exact assignable_iff_count u⟩

/-- hoisting only permutes the operands -/
theorem hoist_is_permutation (us : List Userset) : (prioritizeDirectAssignment us).Perm us := hoist_perm us

/-! ## non-vacuity and witnesses -/
deriving instance DecidableEq for Except

example : Expressible (.union [.computed "a", .this, .diff (.ttu "p" "x") (.computed "b")]) :=
  ⟨by decide, Or.inr ⟨by decide, .unionHere _ ⟨.this, by simp, rfl⟩⟩⟩
example : (parseRelation "doc" "v" (.union [.computed "a", .this]) { restr := [{ type := "user" }] } false) =
    .ok "    define v: [user] or a" := by decide
example : (parseRelation "doc" "v" (.diff (.computed "a") .this) {} false) = .error (.nesting "doc" "v") := by decide
/-- repaired defect D13: an operator without operands is the nesting error, at the root and below it -/
example : (parseRelation "doc" "r" (.union []) {} false) = .error (.nesting "doc" "r") := by decide
example : (parseRelation "doc" "r" (.union [.computed "a", .inter []]) {} false) = .error (.nesting "doc" "r") := by decide
/-- open finding KF-C02-empty-restrictions: a direct assignment without restrictions prints `[]` -/
example : (parseRelation "doc" "r" .this {} false) = .ok "    define r: []" := by decide

/-! ## the printed text is the text of a syntax tree that denotes the normal form -/
section PrintedText
open FgaVerif.Model.Cst FgaVerif.Model.PrintCst

/-- the normalisation hoists exactly as the code does (`prioritizeDirectAssignment` on the operands), then
    normalises the operands, then drops an operator left with one operand -/
theorem norm_hoists_like_the_code (cs : List Userset) :
    norm (.union cs) = collapse .union ((prioritizeDirectAssignment cs).map norm) ∧
    norm (.inter cs) = collapse .inter ((prioritizeDirectAssignment cs).map norm) :=
  ⟨norm_union cs, norm_inter cs⟩

/-- a restriction has a tree iff wildcard and relation are not both set, and the tree denotes the restriction
    itself; a restriction list has a direct-assignment tree iff it is non-empty and all are well formed -/
theorem restriction_trees (r : RelRef) (rs : List RelRef) :
    (toRestr r).isSome = refOk r ∧ (∀ x, toRestr r = some x → x.tree.text = parseTypeRestriction r ∧ x.den = r) ∧
    (toDirect rs).isSome = rsOk rs ∧ (∀ d, toDirect rs = some d → d.tree.text = parseThis rs ∧ d.den = rs) :=
  ⟨toRestr_isSome r, restr_ok r, toDirect_isSome rs, direct_ok rs⟩

/-- **The printed body of a relation is the source text of a well-formed concrete syntax tree denoting the
    normalised input** (`occ` is the printer's direct-assignment counter; the second hypothesis is the check
    `parseRelation` makes; the third is vacuous for relations without direct assignment). -/
theorem printed_text_is_cst_of_normal_form (ty rel : String) (rs : List RelRef) (u : Userset) (s : String) (occ : Nat)
    (h : parseTop ty rel rs u = .ok (s, occ))
    (hocc : occ = 0 ∨ (occ = 1 ∧ isFirstPosition u = true))
    (hrs : countThis u = 0 ∨ rsOk rs = true) :
    ∃ d : Def, toCst rs u = some d ∧ d.wf = true ∧ (Def.tree d).text = s ∧ Def.den d = norm u ∧
      Def.restr d = if countThis u = 0 then none else some rs :=
  PrintCst.printed_text_is_cst_of_normal_form ty rel rs u s occ h hocc hrs

/-- **A printed relation line is the source text of a relation declaration** whose body is that tree: NEWLINE
    token `"\n    "` (line break and indentation), one blank after `define` and after the colon, none before
    it.  By `Cst.walk_decl` the listener, walking this tree, records `norm u` for the relation. -/
theorem printed_relation_is_declaration (ty rel : String) (u : Userset) (md : RelMeta) (line : String)
    (h : parseRelation ty rel u md false = .ok line)
    (hrs : countThis u = 0 ∨ rsOk md.restr = true) :
    ∃ d : Decl, d.nl0 = "\n    " ∧ d.w1 = " " ∧ d.w2 = none ∧ d.w3 = some " " ∧ d.name = mkIdent rel ∧
      toCst md.restr u = some d.body ∧
      (Decl.tree d).text = "\n" ++ line ∧ d.body.wf = true ∧ Def.den d.body = norm u ∧
      Def.restr d.body = if countThis u = 0 then none else some md.restr :=
  PrintCst.printed_relation_is_declaration ty rel u md line h hrs

/-! ### non-vacuity -/
def exU : Userset := .union [.computed "a", .this, .inter [.computed "b", .ttu "p" "c"]]
def exRs : List RelRef := [{ type := "user" }, { type := "group", rel := "member", cond := "c" }]

example : (toCst exRs exU).isSome = true := by rfl
/-- the tree's text is the printer's output, literally -/
example : (toCst exRs exU).map (fun d => (Def.tree d).text) = some "[user, group#member with c] or a or (b and c from p)" := by rfl
example : parseTop "doc" "v" exRs exU = .ok ("[user, group#member with c] or a or (b and c from p)", 1) := by decide
example : (toCst exRs exU).map (fun d => d.wf) = some true := by rfl
/-- it denotes the normal form, which is not the input: the direct assignment has moved -/
example : (toCst exRs exU).map Def.den = some (norm exU) := by rfl
example : norm exU = .union [.this, .computed "a", .inter [.computed "b", .ttu "p" "c"]] := by rfl
example : norm exU ≠ exU := by
  intro h
  have h' : Userset.union [.this, .computed "a", .inter [.computed "b", .ttu "p" "c"]] = exU := h
  simp [exU] at h'
example : (toCst exRs exU).map Def.restr = some (some exRs) := by rfl
/-- the hypotheses of the theorem hold for it -/
example : parseRelation "doc" "v" exU { restr := exRs } false =
    .ok "    define v: [user, group#member with c] or a or (b and c from p)" ∧
    (countThis exU = 0 ∨ rsOk exRs = true) := by decide

/-- one-operand operators: redundant parentheses below the root, none at the root; both collapse -/
example : parseTop "doc" "v" exRs (.inter [.union [.this], .computed "x"]) = .ok ("([user, group#member with c]) and x", 1) ∧
    (toCst exRs (.inter [.union [.this], .computed "x"])).map (fun d => (Def.tree d).text) = some "([user, group#member with c]) and x" ∧
    norm (.inter [.union [.this], .computed "x"]) = .inter [.this, .computed "x"] ∧
    (toCst exRs (.inter [.union [.this], .computed "x"])).map Def.den = some (.inter [.this, .computed "x"]) :=
  ⟨by decide, by rfl, by rfl, by rfl⟩
example : parseTop "doc" "v" [] (.union [.diff (.computed "a") (.union [.computed "b"])]) = .ok ("(a but not (b))", 0) ∧
    norm (.union [.diff (.computed "a") (.union [.computed "b"])]) = .diff (.computed "a") (.computed "b") ∧
    (toCst [] (.union [.diff (.computed "a") (.union [.computed "b"])])).map Def.den = some (.diff (.computed "a") (.computed "b")) ∧
    (toCst [] (.union [.diff (.computed "a") (.union [.computed "b"])])).map Def.restr = some none :=
  ⟨by decide, by rfl, by rfl, by rfl⟩

/-! ### the side conditions are necessary -/
/-- KF-C02-empty-restrictions: `[]` is printed; a direct assignment tree has at least one restriction -/
example : parseTop "doc" "r" [] .this = .ok ("[]", 1) ∧ toCst [] .this = none := ⟨by decide, by rfl⟩
/-- wildcard and relation both set: `user:*#member` is printed; a restriction tree is plain, wildcard *or* userset -/
example : parseTop "doc" "r" [{ type := "user", rel := "member", wildcard := true }] .this = .ok ("[user:*#member]", 1) ∧
    toCst [{ type := "user", rel := "member", wildcard := true }] .this = none := ⟨by decide, by rfl⟩
/-- without `parseRelation`'s check: printed by `parseTop`, but the grammar has no direct assignment there -/
example : parseTop "doc" "r" [{ type := "user" }] (.diff (.computed "a") .this) = .ok ("a but not [user]", 1) ∧
    toCst [{ type := "user" }] (.diff (.computed "a") .this) = none := ⟨by decide, by rfl⟩

end PrintedText

end FgaVerif.Props.C02
