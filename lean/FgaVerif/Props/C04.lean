import FgaVerif.Proofs.Weights
import FgaVerif.Proofs.WeightsPump
/-! # C04 — weights equal the true maximum tuple-hop depth (specification side)

    `Spec/Weights.lean` is a *specification*, not a port: the Go weight assignment (`AssignWeights`,
    an order-dependent depth-first search with cycle placeholders) is ported separately
    (`Model/WAssign.lean`, compared with the code per forced order) but not proved equal to it; the real result
    is compared with the specification on every generated model under forced traversal orders.  The
    theorems below are therefore about the specification only: they show that what the code is compared
    with really has the shape the property states.

    Proved, for every specification graph whose node names are distinct and on which the iteration
    reached a fixed point (both evaluated by the driver on every input; an input outside them is
    reported as not covered):
    * `weights_satisfy_equations` — the weight map of every node is its strategy applied to its edges:
      the contribution of an edge is `{T ↦ 1}` into a terminal type or `T:*`, and otherwise the weights
      of its target, plus one (saturating; Infinite stays Infinite) if the edge is a direct or TTU hop;
      a relation, union or operand group takes the pointwise maximum over the union of keys;
      an intersection keeps the keys common to all operands with the maximum; an exclusion keeps the keys
      of the base with the maximum over base and subtract operand (`union_rule`, `intersection_rule`,
      `exclusion_rule`, `edge_rule`).
    * `accepted_has_no_empty_weights` — an accepted (well-founded) graph has no node with an empty
      weight map.

    And, independently of how the weights are computed, that they **mean** what the property says
    (`Spec/WeightsSem.lean`: `HasType g T n` — terminal type `T` reaches `n` through any operand of a
    relation/union/group, every operand of an intersection, the base of an exclusion; `Walk g T n k` —
    a walk from `n` to a terminal `T` through nodes that `T` reaches, using `k` tuple hops).  Under the
    run-time hypotheses `isFixpoint` and `normalB` (every value is `Infinite` or below the saturation
    threshold `|g|+1`; both evaluated by the driver on every input):
    * `weight_keys_exact` — a node carries a weight for `T` **iff** `T` reaches it;
    * `finite_weight_is_max_hops` — a finite weight `v` is attained by a walk with exactly `v` hops and
      no walk has more;
    * `infinite_weight_iff_unbounded` — the weight is `Infinite` **iff** the hop counts of the walks
      are unbounded (pigeonhole + pumping, `Proofs/WeightsPump.lean`), iff some walk has more hops than
      the graph has nodes;
    * `every_weight_witnessed` needs no hypothesis at all: whatever the iteration writes is witnessed
      by a walk, so the result never over-approximates (this is what makes the fixed point the least one).

    Not proved: that the fuel of the iteration always suffices (checked per input: `isFixpoint`,
    `normalB`), and anything about the Go algorithm.  -/
namespace FgaVerif.Props.C04
open FgaVerif.Spec.Weights

theorem weights_satisfy_equations (g : SGraph) (hn : (g.map (·.name)).Nodup)
    (h : isFixpoint g (weights g) = true) :
    ∀ n ∈ g, stateGet (weights g) n.name = nodeWeights (g.length + 2) (weights g) n :=
  fixpoint_equations g (weights g) hn h

/-- an edge contributes its target's weights, plus one if it is a hop; `{T ↦ 1}` into a terminal -/
theorem edge_rule (cap : Nat) (st : State) (e : Edge) :
    contribution cap st e =
      match e.dst with
      | .type t => [(t, 1)]
      | .wildcard t => [(t, 1)]
      | .node n => shift cap e.hop (stateGet st n) := rfl

theorem hop_adds_one (cap : Nat) (w : WMap) :
    shift cap true w = w.map (fun (k, v) => (k, if v ≥ infinite then infinite else Nat.min (v + 1) cap)) ∧
    shift cap false w = w := ⟨rfl, rfl⟩

theorem union_rule (cap : Nat) (st : State) (n : Node) (h : n.kind = .rel ∨ n.kind = .union ∨ n.kind = .group) :
    nodeWeights cap st n = (n.edges.map (contribution cap st)).foldl unionMax [] := by
  unfold nodeWeights
  rcases h with h | h | h <;> simp [h]

theorem intersection_rule (cap : Nat) (st : State) (n : Node) (h : n.kind = .inter) :
    nodeWeights cap st n = interCombine (n.edges.map (contribution cap st)) := by
  unfold nodeWeights; simp [h]

theorem exclusion_rule (cap : Nat) (st : State) (n : Node) (h : n.kind = .diff) :
    nodeWeights cap st n = diffCombine (n.edges.map (contribution cap st)) := by
  unfold nodeWeights; simp [h]

theorem accepted_has_no_empty_weights (g : SGraph) (h : wellFounded g = true) :
    ∀ n ∈ g, (stateGet (weights g) n.name).isEmpty = false := by
  intro n hn
  unfold wellFounded rejects at h
  simp only [List.isEmpty_iff, List.append_eq_nil_iff, List.map_eq_nil_iff, List.filter_eq_nil_iff] at h
  have := h.2 n hn
  simpa using this

/-! ### what the weights mean -/

/-- whatever the specification writes is witnessed by a walk (no convergence hypothesis) -/
theorem every_weight_witnessed (g : SGraph) (hc : g.length + 2 < infinite) (n T : String) (v : Nat)
    (h : lookupW T (stateGet (weights g) n) = some v) :
    ∃ k, Walk g T n k ∧ ((v = infinite ∧ g.length + 1 ≤ k) ∨ v = Nat.min k (g.length + 2)) := by
  obtain ⟨k, hw, hv⟩ := weights_sound g hc n T v h
  exact ⟨k, hw, by simpa using hv⟩

/-- **a node carries a weight for exactly the terminal types that reach it** -/
theorem weight_keys_exact (g : SGraph) (hfix : isFixpoint g (weights g) = true) (hc : g.length + 2 < infinite)
    (n T : String) : (lookupW T (stateGet (weights g) n)).isSome = true ↔ HasType g T n := by
  constructor
  · intro h
    obtain ⟨v, hv⟩ := Option.isSome_iff_exists.1 h
    obtain ⟨k, hw, _⟩ := weights_sound g hc n T v hv
    exact hw.hasType
  · exact (keys_complete g (weights g) (stateSorted_weights g) hfix T).1 n

/-- **a finite weight is the largest number of tuple hops on any walk to that type** -/
theorem finite_weight_is_max_hops (g : SGraph) (hfix : isFixpoint g (weights g) = true)
    (hnorm : normalB g (weights g) = true) (n T : String) (v : Nat)
    (h : lookupW T (stateGet (weights g) n) = some v) (hv : v ≠ infinite) :
    Walk g T n v ∧ ∀ k, Walk g T n k → k ≤ v := by
  obtain ⟨hc, hnv⟩ := normal_values g (weights g) hnorm
  have hlt : v < g.length + 1 := by
    rcases hnv n T v h with h1 | h1
    · exact absurd h1 hv
    · exact h1
  constructor
  · obtain ⟨k, hw, hk⟩ := weights_sound g hc n T v h
    rcases hk with ⟨h1, _⟩ | h1
    · exact absurd h1 hv
    · have h1' : v = min k (g.length + 2) := h1
      have : v = k := by omega
      rw [this]; exact hw
  · intro k hw
    obtain ⟨v', hv', hle⟩ := walk_dominated g (weights g) (stateSorted_weights g) hfix hc T n k hw
    rw [h] at hv'; cases hv'
    have hle' : min k (g.length + 2) ≤ v := hle
    omega

/-- the weight is `Infinite` iff some walk has more hops than the graph has nodes -/
theorem infinite_weight_iff_long_walk (g : SGraph) (hfix : isFixpoint g (weights g) = true)
    (hnorm : normalB g (weights g) = true) (n T : String) :
    lookupW T (stateGet (weights g) n) = some infinite ↔ ∃ k, g.length + 1 ≤ k ∧ Walk g T n k := by
  obtain ⟨hc, hnv⟩ := normal_values g (weights g) hnorm
  constructor
  · intro h
    obtain ⟨k, hw, hk⟩ := weights_sound g hc n T infinite h
    rcases hk with ⟨_, h1⟩ | h1
    · exact ⟨k, by omega, hw⟩
    · have h1' : infinite = min k (g.length + 2) := h1
      omega
  · rintro ⟨k, hk, hw⟩
    obtain ⟨v, hv, hle⟩ := walk_dominated g (weights g) (stateSorted_weights g) hfix hc T n k hw
    have hle' : min k (g.length + 2) ≤ v := hle
    rcases hnv n T v hv with h1 | h1
    · rw [hv, h1]
    · omega

/-- **Infinite exactly when such walks are unbounded** -/
theorem infinite_weight_iff_unbounded (g : SGraph) (hfix : isFixpoint g (weights g) = true)
    (hnorm : normalB g (weights g) = true) (n T : String) :
    lookupW T (stateGet (weights g) n) = some infinite ↔ ∀ K, ∃ k, K ≤ k ∧ Walk g T n k := by
  rw [infinite_weight_iff_long_walk g hfix hnorm n T]
  constructor
  · rintro ⟨k, hk, hw⟩
    exact long_walk_unbounded g T n k hw hk
  · intro h
    exact h (g.length + 1)

/-! ### non-vacuity: `define a: [user] or a from p`, `define p: [doc]` — a tuple cycle through a TTU -/
def demo : SGraph := [
  ⟨"doc#a", .rel, [⟨.node "doc#a@0", false, ""⟩]⟩,
  ⟨"doc#a@0", .union, [⟨.type "user", true, ""⟩, ⟨.node "doc#a", true, "doc#p"⟩]⟩,
  ⟨"doc#p", .rel, [⟨.type "doc", true, ""⟩]⟩]

example : isFixpoint demo (weights demo) = true ∧ (demo.map (·.name)).Nodup := by decide
example : stateGet (weights demo) "doc#a" = [("user", infinite)] := by decide
example : wellFounded demo = true := by decide
example : normalB demo (weights demo) = true := by decide
/-- a finite one: `define p: [doc]` has weight 1 for `doc` -/
example : lookupW "doc" (stateGet (weights demo) "doc#p") = some 1 := by decide

end FgaVerif.Props.C04
