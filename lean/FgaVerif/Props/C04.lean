import FgaVerif.Proofs.Weights
import FgaVerif.Proofs.WeightsPump
import FgaVerif.Proofs.WAssignPost
import FgaVerif.Proofs.WAssignNode
import FgaVerif.Proofs.WAssignMax
/-! # C04 — weights equal the true maximum tuple-hop depth (specification side)

    `Spec/Weights.lean` is a *specification*, not a port: the Go weight assignment (`AssignWeights`,
    an order-dependent depth-first search with cycle placeholders) is ported separately
    (`Model/WAssign.lean`, compared with the code per forced order) but not proved equal to it; the real result
    is compared with the specification on every generated model under forced traversal orders.  The
    theorems below are therefore about the specification only: they show that what the code is compared
    with really has the shape the property states.

    Proved, for every specification graph whose node names are distinct and on which the iteration
    reached a fixed point (both evaluated by the driver on every input; an input outside them is
    reported as not covered):
    * `weights_satisfy_equations` — the weight map of every node is its strategy applied to its edges:
      the contribution of an edge is `{T ↦ 1}` into a terminal type or `T:*`, and otherwise the weights
      of its target, plus one (saturating; Infinite stays Infinite) if the edge is a direct or TTU hop;
      a relation, union or operand group takes the pointwise maximum over the union of keys;
      an intersection keeps the keys common to all operands with the maximum; an exclusion keeps the keys
      of the base with the maximum over base and subtract operand (`union_rule`, `intersection_rule`,
      `exclusion_rule`, `edge_rule`).
    * `accepted_has_no_empty_weights` — an accepted (well-founded) graph has no node with an empty
      weight map.

    And, independently of how the weights are computed, that they **mean** what the property says
    (`Spec/WeightsSem.lean`: `HasType g T n` — terminal type `T` reaches `n` through any operand of a
    relation/union/group, every operand of an intersection, the base of an exclusion; `Walk g T n k` —
    a walk from `n` to a terminal `T` through nodes that `T` reaches, using `k` tuple hops).  Under the
    run-time hypotheses `isFixpoint` and `normalB` (every value is `Infinite` or below the saturation
    threshold `|g|+1`; both evaluated by the driver on every input):
    * `weight_keys_exact` — a node carries a weight for `T` **iff** `T` reaches it;
    * `finite_weight_is_max_hops` — a finite weight `v` is attained by a walk with exactly `v` hops and
      no walk has more;
    * `infinite_weight_iff_unbounded` — the weight is `Infinite` **iff** the hop counts of the walks
      are unbounded (pigeonhole + pumping, `Proofs/WeightsPump.lean`), iff some walk has more hops than
      the graph has nodes;
    * `every_weight_witnessed` needs no hypothesis at all: whatever the iteration writes is witnessed
      by a walk, so the result never over-approximates (this is what makes the fixed point the least one).

    And clauses about the **algorithm itself** (the port `Model/WAssign.lean` of `AssignWeights`, tied to the
    code per forced start order by the stream `corr:wassign`), each a post-condition of a successful run
    for **every** graph and **every** start order (`Proofs/WAssignPost.lean`):
    * `algorithm_all_nodes_visited` — every non-terminal node of the graph has been visited (once).
    * `algorithm_no_placeholder_on_success` — no unresolved cycle placeholder (`R#…` key) is left in the
      weight map of any node or edge, and no dependency on one is pending; the invariant behind it: every
      placeholder key of an edge is recorded in `tupleCycleDependencies` of the node it names, every
      placeholder key of a node comes from one of its own edges, and every placeholder that a call of
      `calculateNodeWeight` leaves behind names a node of the list it returns — so the empty list the top
      level insists on means none is left.  Hypothesis (decidable, `noPHTypesB`): no terminal type is itself
      named `R#…` (`placeholder_named_type_is_visible` shows it is needed).
    * `algorithm_no_empty_weights_on_success` — no relation, union or intersection, and no exclusion with at
      least two edges, is left with an empty weight map (`lonely_exclusion_has_empty_weights`: an
      exclusion with a single edge that nothing refers to is).
    * `algorithm_weights_positive`, `algorithm_weights_only_for_nodes` — every weight is at least one;
      weights exist only for visited nodes of the graph.
    * `algorithm_edge_rule_on_success` — **every edge weight equals its target's weight plus one if the edge
      is a hop**: after a successful run every edge of every visited node carries `{T ↦ 1}` if it ends in a
      terminal type `T` or `T:*`, and otherwise, type by type, the *final* weight of its target node, plus
      one (Infinite stays Infinite) if it is a direct or TTU edge; all maps are key-sorted, so they are
      determined by their lookups.  The invariant: an edge with weights satisfies the rule or holds just
      the placeholder of its (unfinished) target; both dependency fix-ups rewrite a map `m` to
      `(m without R#n) ⊔ (weights of n, if m had R#n)`, a substitution that commutes with "plus one"
      because the weights of a resolved reference node are all Infinite; and an edge that violates the
      rule after a call violated it before or targets a node of the returned list.

    * `algorithm_node_rule_on_success` (`Proofs/WAssignNode.lean`) — **every node weight is its strategy applied to
      the final weights of its edges**: the pointwise maximum over the edges that have the key for a relation or a
      union; for an intersection the keys common to **every edge** (not every operand: KF-C04-operand-grouping)
      with the maximum; for an exclusion the keys of all edges but the last with the maximum over all edges.
      The relation survives a cycle resolution because the simultaneous substitution of the resolved placeholder
      in node and edges commutes with the maximum, and never reaches an intersection or an exclusion (their edges
      hold no placeholder: they are only computed when no cycle reference is open).
    * `algorithm_weights_witnessed`, `algorithm_keys_reachable` — the port never invents a type or a depth: every
      key of a final weight map is the type of a terminal node reachable from the node along edges of the graph,
      a finite weight is the number of hops of such a path, every weight is at most Infinite, and an Infinite weight
      comes with a reachable cycle from which the type is reachable (or a path with at least Infinite hops).
      With the edge rule and the node rule the weights are a witnessed fixed point of the equations.

    * **exactness of the algorithm's result** (`Proofs/WAssignMax.lean`; `HasT g v T` — `T` reaches `v` through some edge of
      a relation/union, every edge of an intersection, a base edge of an exclusion; `WalkT g v T k` — a walk of `k` hops
      on which every node is reached by `T`; per edge, as the code computes it: KF-C04-operand-grouping):
      `algorithm_keys_exact` — **a visited node carries a weight for exactly the types that reach it** (completeness
      `algorithm_keys_complete` from the edge and node rules; soundness `algorithm_keys_sound` by a sixth pass over the
      computation, in which a placeholder `R#n` on an edge or node stands for "every type that reaches `n` gets here");
      `algorithm_weight_dominates_walks` — the weight dominates the hop count of every walk, saturating at Infinite;
      `algorithm_finite_weight_is_max_hops` — **a finite weight is attained by a walk and no walk has more hops**;
      `algorithm_infinite_iff_unbounded` — **the weight is Infinite exactly when the hop counts of the walks are
      unbounded** (for a graph with fewer than 2^31-1 nodes, `decide`d per input; without that hypothesis
      `algorithm_infinite_iff`: … or some walk has at least Infinite hops); `algorithm_cycles_have_hops` — the cycle
      behind an Infinite weight contains a direct/TTU edge, because the pre-pass rejects all others.

    Not proved: that the fuel of the iteration always suffices (checked per input: `isFixpoint`,
    `normalB`), and that the port equals the specification.  -/
namespace FgaVerif.Props.C04
open FgaVerif.Spec.Weights

theorem weights_satisfy_equations (g : SGraph) (hn : (g.map (·.name)).Nodup)
    (h : isFixpoint g (weights g) = true) :
    ∀ n ∈ g, stateGet (weights g) n.name = nodeWeights (g.length + 2) (weights g) n :=
  fixpoint_equations g (weights g) hn h

/-- an edge contributes its target's weights, plus one if it is a hop; `{T ↦ 1}` into a terminal -/
theorem edge_rule (cap : Nat) (st : State) (e : Edge) :
    contribution cap st e =
      match e.dst with
      | .type t => [(t, 1)]
      | .wildcard t => [(t, 1)]
      | .node n => shift cap e.hop (stateGet st n) := rfl

theorem hop_adds_one (cap : Nat) (w : WMap) :
    shift cap true w = w.map (fun (k, v) => (k, if v ≥ infinite then infinite else Nat.min (v + 1) cap)) ∧
    shift cap false w = w := ⟨rfl, rfl⟩

theorem union_rule (cap : Nat) (st : State) (n : Node) (h : n.kind = .rel ∨ n.kind = .union ∨ n.kind = .group) :
    nodeWeights cap st n = (n.edges.map (contribution cap st)).foldl unionMax [] := by
  unfold nodeWeights
  rcases h with h | h | h <;> simp [h]

theorem intersection_rule (cap : Nat) (st : State) (n : Node) (h : n.kind = .inter) :
    nodeWeights cap st n = interCombine (n.edges.map (contribution cap st)) := by
  unfold nodeWeights; simp [h]

theorem exclusion_rule (cap : Nat) (st : State) (n : Node) (h : n.kind = .diff) :
    nodeWeights cap st n = diffCombine (n.edges.map (contribution cap st)) := by
  unfold nodeWeights; simp [h]

theorem accepted_has_no_empty_weights (g : SGraph) (h : wellFounded g = true) :
    ∀ n ∈ g, (stateGet (weights g) n.name).isEmpty = false := by
  intro n hn
  unfold wellFounded rejects at h
  simp only [List.isEmpty_iff, List.append_eq_nil_iff, List.map_eq_nil_iff, List.filter_eq_nil_iff] at h
  have := h.2 n hn
  simpa using this

/-! ### what the weights mean -/

/-- whatever the specification writes is witnessed by a walk (no convergence hypothesis) -/
theorem every_weight_witnessed (g : SGraph) (hc : g.length + 2 < infinite) (n T : String) (v : Nat)
    (h : lookupW T (stateGet (weights g) n) = some v) :
    ∃ k, Walk g T n k ∧ ((v = infinite ∧ g.length + 1 ≤ k) ∨ v = Nat.min k (g.length + 2)) := by
  obtain ⟨k, hw, hv⟩ := weights_sound g hc n T v h
  exact ⟨k, hw, by simpa using hv⟩

/-- **a node carries a weight for exactly the terminal types that reach it** -/
theorem weight_keys_exact (g : SGraph) (hfix : isFixpoint g (weights g) = true) (hc : g.length + 2 < infinite)
    (n T : String) : (lookupW T (stateGet (weights g) n)).isSome = true ↔ HasType g T n := by
  constructor
  · intro h
    obtain ⟨v, hv⟩ := Option.isSome_iff_exists.1 h
    obtain ⟨k, hw, _⟩ := weights_sound g hc n T v hv
    exact hw.hasType
  · exact (keys_complete g (weights g) (stateSorted_weights g) hfix T).1 n

/-- **a finite weight is the largest number of tuple hops on any walk to that type** -/
theorem finite_weight_is_max_hops (g : SGraph) (hfix : isFixpoint g (weights g) = true)
    (hnorm : normalB g (weights g) = true) (n T : String) (v : Nat)
    (h : lookupW T (stateGet (weights g) n) = some v) (hv : v ≠ infinite) :
    Walk g T n v ∧ ∀ k, Walk g T n k → k ≤ v := by
  obtain ⟨hc, hnv⟩ := normal_values g (weights g) hnorm
  have hlt : v < g.length + 1 := by
    rcases hnv n T v h with h1 | h1
    · exact absurd h1 hv
    · exact h1
  constructor
  · obtain ⟨k, hw, hk⟩ := weights_sound g hc n T v h
    rcases hk with ⟨h1, _⟩ | h1
    · exact absurd h1 hv
    · have h1' : v = min k (g.length + 2) := h1
      have : v = k := by omega
      rw [this]; exact hw
  · intro k hw
    obtain ⟨v', hv', hle⟩ := walk_dominated g (weights g) (stateSorted_weights g) hfix hc T n k hw
    rw [h] at hv'; cases hv'
    have hle' : min k (g.length + 2) ≤ v := hle
    omega

/-- the weight is `Infinite` iff some walk has more hops than the graph has nodes -/
theorem infinite_weight_iff_long_walk (g : SGraph) (hfix : isFixpoint g (weights g) = true)
    (hnorm : normalB g (weights g) = true) (n T : String) :
    lookupW T (stateGet (weights g) n) = some infinite ↔ ∃ k, g.length + 1 ≤ k ∧ Walk g T n k := by
  obtain ⟨hc, hnv⟩ := normal_values g (weights g) hnorm
  constructor
  · intro h
    obtain ⟨k, hw, hk⟩ := weights_sound g hc n T infinite h
    rcases hk with ⟨_, h1⟩ | h1
    · exact ⟨k, by omega, hw⟩
    · have h1' : infinite = min k (g.length + 2) := h1
      omega
  · rintro ⟨k, hk, hw⟩
    obtain ⟨v, hv, hle⟩ := walk_dominated g (weights g) (stateSorted_weights g) hfix hc T n k hw
    have hle' : min k (g.length + 2) ≤ v := hle
    rcases hnv n T v hv with h1 | h1
    · rw [hv, h1]
    · omega

/-- **Infinite exactly when such walks are unbounded** -/
theorem infinite_weight_iff_unbounded (g : SGraph) (hfix : isFixpoint g (weights g) = true)
    (hnorm : normalB g (weights g) = true) (n T : String) :
    lookupW T (stateGet (weights g) n) = some infinite ↔ ∀ K, ∃ k, K ≤ k ∧ Walk g T n k := by
  rw [infinite_weight_iff_long_walk g hfix hnorm n T]
  constructor
  · rintro ⟨k, hk, hw⟩
    exact long_walk_unbounded g T n k hw hk
  · intro h
    exact h (g.length + 1)

/-! ### non-vacuity: `define a: [user] or a from p`, `define p: [doc]` — a tuple cycle through a TTU -/
def demo : SGraph := [
  ⟨"doc#a", .rel, [⟨.node "doc#a@0", false, ""⟩]⟩,
  ⟨"doc#a@0", .union, [⟨.type "user", true, ""⟩, ⟨.node "doc#a", true, "doc#p"⟩]⟩,
  ⟨"doc#p", .rel, [⟨.type "doc", true, ""⟩]⟩]

example : isFixpoint demo (weights demo) = true ∧ (demo.map (·.name)).Nodup := by decide
example : stateGet (weights demo) "doc#a" = [("user", infinite)] := by decide
example : wellFounded demo = true := by decide
example : normalB demo (weights demo) = true := by decide
/-- a finite one: `define p: [doc]` has weight 1 for `doc` -/
example : lookupW "doc" (stateGet (weights demo) "doc#p") = some 1 := by decide

/-! ### the algorithm (port of `AssignWeights`): post-conditions of success -/
section algorithm
open FgaVerif.Model.WGraph FgaVerif.Model.WAssign

/-- A. every non-terminal node has been visited, once, and nothing else has -/
theorem algorithm_all_nodes_visited (g : G) (order : List String) (st : AState) (h : assignWeights g order = .ok st) :
    (∀ n ∈ g.nodes, isTerminal (nodeType g n.uniqueLabel) = false → n.uniqueLabel ∈ st.visited) ∧
    st.visited.Nodup ∧ (∀ v ∈ st.visited, isTerminal (nodeType g v) = false) :=
  assignWeights_visited g order st h

/-- B. **no unresolved cycle placeholder is ever visible**: no key `R#…` in any node or edge weight map, and
    no pending tuple-cycle dependency -/
theorem algorithm_no_placeholder_on_success (g : G) (hn : noPHTypesB g = true) (order : List String) (st : AState)
    (h : assignWeights g order = .ok st) :
    (∀ (n k : String) (v : Nat), (k, v) ∈ aget n st.nodeW → k.startsWith "R#" = false) ∧
    (∀ (r : ERef) (k : String) (v : Nat), (k, v) ∈ aget r st.edgeW → k.startsWith "R#" = false) ∧
    st.deps = [] := by
  have hc := assignWeights_clean g (noPHTypesB_sound g hn) order st h
  exact ⟨fun n k v hk => hc.node n k ⟨v, hk⟩, fun r k v hk => hc.edge r k ⟨v, hk⟩, hc.deps⟩

/-- C. **no relation is left with an empty weight map** (nor a union, an intersection, or an exclusion that has
    a base and a subtracted operand) -/
theorem algorithm_no_empty_weights_on_success (g : G) (order : List String) (st : AState)
    (h : assignWeights g order = .ok st) (n : WNode) (hn : n ∈ g.nodes)
    (hk : nodeType g n.uniqueLabel = .typeAndRelation ∨
      (nodeType g n.uniqueLabel = .operator ∧ (nodeLabel g n.uniqueLabel = "union" ∨ nodeLabel g n.uniqueLabel = "intersection" ∨
        (nodeLabel g n.uniqueLabel = "exclusion" ∧ 2 ≤ (edgesOf g n.uniqueLabel).length)))) :
    aget n.uniqueLabel st.nodeW ≠ [] :=
  (assignWeights_nonempty g order st h).1 n hn hk

/-- E. every weight is at least one -/
theorem algorithm_weights_positive (g : G) (order : List String) (st : AState) (h : assignWeights g order = .ok st) :
    (∀ (n : String) p, p ∈ aget n st.nodeW → 1 ≤ p.2) ∧ (∀ (r : ERef) p, p ∈ aget r st.edgeW → 1 ≤ p.2) :=
  ⟨(assignWeights_nonempty g order st h).2.1, (assignWeights_nonempty g order st h).2.2.1⟩

/-- D. **every edge weight equals its target's weight plus one if the edge is a hop** (`bumpE e w` is `w + 1`,
    or `w` if `w` is `Infinite`, on a direct or TTU edge `e`, and `w` on a rewrite or computed edge; `termKey` is the
    type `T` of a terminal node `T` or `T:*`) -/
theorem algorithm_edge_rule_on_success (g : G) (hn : noPHTypesB g = true) (order : List String) (st : AState)
    (h : assignWeights g order = .ok st) (v : String) (hv : v ∈ st.visited) (i : Nat) (e : WEdge)
    (he : (edgesOf g v)[i]? = some e) :
    (isTerminal (nodeType g e.dst) = true → aget (v, i) st.edgeW = [(termKey g e.dst, 1)]) ∧
    (isTerminal (nodeType g e.dst) = false →
      ∀ T, wget T (aget (v, i) st.edgeW) = (wget T (aget e.dst st.nodeW)).map (bumpE e)) := by
  have hr : (v, i) ∈ edgeRefs g v := by
    unfold edgeRefs
    refine List.mem_map.2 ⟨i, ?_, rfl⟩
    rw [List.mem_range]
    exact (List.getElem?_eq_some_iff.1 he).1
  exact (assignWeights_edge_rule g (noPHTypesB_sound g hn) order st h).1 v hv (v, i) hr e he

/-- all weight maps of the result are strictly sorted by key, so they are determined by their lookups -/
theorem algorithm_maps_sorted (g : G) (hn : noPHTypesB g = true) (order : List String) (st : AState)
    (h : assignWeights g order = .ok st) :
    (∀ r : ERef, (aget r st.edgeW).Pairwise (fun a b => a.1 < b.1)) ∧
    (∀ n : String, (aget n st.nodeW).Pairwise (fun a b => a.1 < b.1)) :=
  (assignWeights_edge_rule g (noPHTypesB_sound g hn) order st h).2

/-- E. weights exist only for visited nodes, which are nodes of the graph -/
theorem algorithm_weights_only_for_nodes (g : G) (hn : noPHTypesB g = true) (order : List String) (st : AState)
    (h : assignWeights g order = .ok st) :
    (∀ n, aget n st.nodeW ≠ [] → n ∈ st.visited ∧ (g.node? n).isSome = true) ∧
    (∀ r : ERef, aget r st.edgeW ≠ [] → r.1 ∈ st.visited ∧ (g.node? r.1).isSome = true) :=
  assignWeights_support g (noPHTypesB_sound g hn) order st h

/-! non-vacuity: `define a: [user:*, doc#b]`, `define b: [bot:*, doc#a]` — a tuple cycle; started from `doc#b`
    the assignment succeeds, and the conclusions are evaluated on the result -/
def algoCycle : G := {
  nodes := [⟨"doc#a", "doc#a", .typeAndRelation⟩, ⟨"user:*", "user:*", .wildcard⟩,
            ⟨"doc#b", "doc#b", .typeAndRelation⟩, ⟨"bot:*", "bot:*", .wildcard⟩],
  edges := [("doc#a", [⟨"doc#a", "user:*", .direct, "", ["none"]⟩, ⟨"doc#a", "doc#b", .direct, "", ["none"]⟩]),
            ("doc#b", [⟨"doc#b", "bot:*", .direct, "", ["none"]⟩, ⟨"doc#b", "doc#a", .direct, "", ["none"]⟩])] }

example : noPHTypesB algoCycle = true := by decide +kernel
example : (match assignWeights algoCycle ["doc#b"] with
    | .ok st => (st.visited, aget "doc#a" st.nodeW, aget "doc#b" st.nodeW, aget ("doc#b", 1) st.edgeW, st.deps.isEmpty)
    | .error _ => ([], [], [], [], false)) =
    (["doc#a", "doc#b"], [("bot", 2147483647), ("user", 2147483647)], [("bot", 2147483647), ("user", 2147483647)],
      [("bot", 2147483647), ("user", 2147483647)], true) := by decide +kernel
/-- the hypotheses of C hold for both relations of the example -/
example : nodeType algoCycle "doc#a" = .typeAndRelation ∧ nodeType algoCycle "doc#b" = .typeAndRelation := by decide

/-- `define a: [user]`, `define b: [doc#a, user:*]`, `define c: a`: the hop `doc#b → doc#a` adds one, the computed
    edge `doc#c → doc#a` does not -/
def hopDemo : G := {
  nodes := [⟨"doc#a", "doc#a", .typeAndRelation⟩, ⟨"user", "user", .specificType⟩, ⟨"doc#b", "doc#b", .typeAndRelation⟩,
            ⟨"user:*", "user:*", .wildcard⟩, ⟨"doc#c", "doc#c", .typeAndRelation⟩],
  edges := [("doc#a", [⟨"doc#a", "user", .direct, "", ["none"]⟩]),
            ("doc#b", [⟨"doc#b", "doc#a", .direct, "", ["none"]⟩, ⟨"doc#b", "user:*", .direct, "", ["none"]⟩]),
            ("doc#c", [⟨"doc#c", "doc#a", .computed, "", ["none"]⟩])] }
example : noPHTypesB hopDemo = true := by decide +kernel
example : (match assignWeights hopDemo ["doc#c", "doc#b"] with
    | .ok st => (st.visited, aget "doc#a" st.nodeW, aget "doc#b" st.nodeW)
    | .error _ => ([], [], [])) = (["doc#b", "doc#a", "doc#c"], [("user", 1)], [("user", 2)]) := by
  decide +kernel
example : (match assignWeights hopDemo ["doc#c", "doc#b"] with
    | .ok st => (aget ("doc#b", 0) st.edgeW, aget ("doc#b", 1) st.edgeW, aget ("doc#c", 0) st.edgeW)
    | .error _ => ([], [], [])) = ([("user", 2)], [("user", 1)], [("user", 1)]) := by
  decide +kernel

/-- B needs its hypothesis: a terminal type named `R#x` is a visible key that looks like a placeholder -/
def phNamed : G := {
  nodes := [⟨"doc#a", "doc#a", .typeAndRelation⟩, ⟨"R#x", "R#x", .specificType⟩],
  edges := [("doc#a", [⟨"doc#a", "R#x", .direct, "", ["none"]⟩])] }
theorem placeholder_named_type_is_visible :
    noPHTypesB phNamed = false ∧
    (match assignWeights phNamed [] with | .ok st => aget "doc#a" st.nodeW | .error _ => []) = [("R#x", 1)] := by
  decide +kernel

/-- C needs its hypothesis on exclusions (and on operator labels): an exclusion with a single edge, which nothing
    refers to, is accepted with an empty weight map -/
def lonelyExclusion : G := {
  nodes := [⟨"exclusion:0", "exclusion", .operator⟩, ⟨"user", "user", .specificType⟩],
  edges := [("exclusion:0", [⟨"exclusion:0", "user", .direct, "", ["none"]⟩])] }
theorem lonely_exclusion_has_empty_weights :
    (match assignWeights lonelyExclusion [] with
      | .ok st => (st.visited, aget "exclusion:0" st.nodeW) | .error _ => ([], [("", 0)])) = (["exclusion:0"], []) := by
  decide +kernel

/-! ### N. the node rule -/

/-- what the maximum `unionL ms T` over a list of weight maps is: present iff some map has the key, then the value
    of one of them, which dominates all the others -/
theorem max_strategy_is_max (ms : List FgaVerif.Model.WAssign.WMap) (T : String) :
    ((unionL ms T).isSome = true ↔ ∃ m ∈ ms, (wget T m).isSome = true) ∧
    (∀ x, unionL ms T = some x → (∃ m ∈ ms, wget T m = some x) ∧ ∀ m ∈ ms, ∀ y, wget T m = some y → y ≤ x) := by
  refine ⟨?_, fun x hx => ⟨unionL_attained ms T x hx, unionL_upper ms T x hx⟩⟩
  rw [unionL_isSome, List.any_eq_true]

/-- N. **every node weight is its strategy applied to the final weights of its edges** (`edgeMaps g v st` are the
    final weight maps of the edges of `v`, in edge order; `unionL` is the pointwise maximum, `max_strategy_is_max`) -/
theorem algorithm_node_rule_on_success (g : G) (hn : noPHTypesB g = true) (order : List String) (st : AState)
    (h : assignWeights g order = .ok st) (v : String) (hv : v ∈ st.visited) :
    (nodeType g v ≠ .operator ∨ nodeLabel g v = "union" →
      ∀ T, wget T (aget v st.nodeW) = unionL (edgeMaps g v st) T) ∧
    (nodeType g v = .operator ∧ nodeLabel g v = "intersection" →
      ∀ T, wget T (aget v st.nodeW) =
        if (edgeMaps g v st).all (fun m => (wget T m).isSome) = true then unionL (edgeMaps g v st) T else none) ∧
    (nodeType g v = .operator ∧ nodeLabel g v = "exclusion" →
      ∀ T, wget T (aget v st.nodeW) =
        if (edgeMaps g v st).dropLast.any (fun m => (wget T m).isSome) = true then unionL (edgeMaps g v st) T else none) := by
  have hok := assignWeights_node_rule g (noPHTypesB_sound g hn) order st h v hv
  refine ⟨?_, ?_, ?_⟩
  · intro hk T
    have hm : isMaxNode g v = true := by
      unfold isMaxNode
      rcases hk with hk | hk
      · cases hnt : nodeType g v with
        | operator => exact absurd hnt hk
        | _ => rfl
      · rw [hk]; simp
    rw [hok T]; unfold stratL; rw [if_pos hm]
  · intro ⟨hop, hl⟩ T
    have hm : isMaxNode g v = false := by unfold isMaxNode; rw [hop, hl]; decide
    rw [hok T]; unfold stratL
    rw [hm, if_neg (by simp), if_pos (by rw [hl]; rfl), interL_spec]
  · intro ⟨hop, hl⟩ T
    have hm : isMaxNode g v = false := by unfold isMaxNode; rw [hop, hl]; decide
    rw [hok T]; unfold stratL
    rw [hm, if_neg (by simp), if_neg (by rw [hl]; decide), if_pos (by rw [hl]; rfl), mixedL_spec]

/-! ### W. every weight is witnessed -/

/-- W. **the port never invents a type or a depth**: every entry `T ↦ w` of a final node weight map has
    `w ≤ Infinite`; some path of the graph leads from the node to a terminal node of type `T` (`ReachN`, through
    relation and operator nodes; for an intersection through any of its edges); if `w` is finite, `w` is the number
    of hops (direct/TTU edges, the edge into the terminal node counting one) of such a path; if `w` is Infinite, a
    cycle from which `T` is reachable is reachable from the node, or some such path has at least Infinite hops -/
theorem algorithm_weights_witnessed (g : G) (hn : noPHTypesB g = true) (order : List String) (st : AState)
    (h : assignWeights g order = .ok st) (v T : String) (w : Nat) (hw : wget T (aget v st.nodeW) = some w) :
    w ≤ FgaVerif.Model.WAssign.infinite ∧ (∃ j, ReachN g v T j) ∧ (w < FgaVerif.Model.WAssign.infinite → ReachN g v T w) ∧
    (w = FgaVerif.Model.WAssign.infinite → (∃ m, (v = m ∨ Conn g v m) ∧ Conn g m m ∧ ∃ k, ReachN g m T k) ∨ ∃ k, FgaVerif.Model.WAssign.infinite ≤ k ∧ ReachN g v T k) :=
  (assignWeights_witnessed g (noPHTypesB_sound g hn) order st h).1 v T w hw

/-- the key part of W: every key of a final weight map is the type of a terminal node reachable from the node -/
theorem algorithm_keys_reachable (g : G) (hn : noPHTypesB g = true) (order : List String) (st : AState)
    (h : assignWeights g order = .ok st) (v T : String) (hk : (wget T (aget v st.nodeW)).isSome = true) :
    ∃ j, ReachN g v T j := by
  obtain ⟨w, hw⟩ := Option.isSome_iff_exists.1 hk
  exact (algorithm_weights_witnessed g hn order st h v T w hw).2.1

/-! non-vacuity of N and W.  On the tuple cycle `algoCycle` (started from `doc#b`) the rule is evaluated at `doc#a`, a
    node that was rewritten by a cycle resolution: key by key the node weight and the maximum over the final edge
    weights (`{user:1}` and `{bot:∞, user:∞}`) agree; `zzz` is absent from both -/
example : (match assignWeights algoCycle ["doc#b"] with
    | .ok st => (decide ("doc#a" ∈ st.visited), edgeMaps algoCycle "doc#a" st,
        ["bot", "user", "zzz"].map (fun T => (wget T (aget "doc#a" st.nodeW), unionL (edgeMaps algoCycle "doc#a" st) T)))
    | .error _ => (false, [], [])) =
    (true, [[("user", 1)], [("bot", 2147483647), ("user", 2147483647)]],
      [(some 2147483647, some 2147483647), (some 2147483647, some 2147483647), (none, none)]) := by decide +kernel

/-- `define v: a and c`, `define w: a but not b`, `define a: [user, bot]`, `define b: [user, doc#a]`,
    `define c: [doc#b, doc#c]`: an intersection with the edges `→ doc#a` (`{bot:1, user:1}`) and `→ doc#c` (on a tuple
    cycle: `{bot:∞, user:∞}`), and an exclusion with the edges `→ doc#a` and `→ doc#b` (`{bot:2, user:2}`) -/
def opDemo : G := {
  nodes := [⟨"doc#v", "doc#v", .typeAndRelation⟩, ⟨"intersection:0", "intersection", .operator⟩,
            ⟨"doc#w", "doc#w", .typeAndRelation⟩, ⟨"exclusion:1", "exclusion", .operator⟩,
            ⟨"doc#a", "doc#a", .typeAndRelation⟩, ⟨"doc#b", "doc#b", .typeAndRelation⟩,
            ⟨"doc#c", "doc#c", .typeAndRelation⟩,
            ⟨"user", "user", .specificType⟩, ⟨"bot", "bot", .specificType⟩],
  edges := [("doc#v", [⟨"doc#v", "intersection:0", .rewrite, "", ["none"]⟩]),
            ("intersection:0", [⟨"intersection:0", "doc#a", .rewrite, "", ["none"]⟩, ⟨"intersection:0", "doc#c", .rewrite, "", ["none"]⟩]),
            ("doc#w", [⟨"doc#w", "exclusion:1", .rewrite, "", ["none"]⟩]),
            ("exclusion:1", [⟨"exclusion:1", "doc#a", .rewrite, "", ["none"]⟩, ⟨"exclusion:1", "doc#b", .rewrite, "", ["none"]⟩]),
            ("doc#a", [⟨"doc#a", "user", .direct, "", ["none"]⟩, ⟨"doc#a", "bot", .direct, "", ["none"]⟩]),
            ("doc#b", [⟨"doc#b", "user", .direct, "", ["none"]⟩, ⟨"doc#b", "doc#a", .direct, "", ["none"]⟩]),
            ("doc#c", [⟨"doc#c", "doc#b", .direct, "", ["none"]⟩, ⟨"doc#c", "doc#c", .direct, "", ["none"]⟩])] }
example : noPHTypesB opDemo = true := by decide +kernel
/-- the hypotheses of the intersection and exclusion clauses of N hold, and the conclusions evaluate as stated:
    the intersection keeps the keys common to both edges with the maximum (`doc#c` is on a tuple cycle: Infinite),
    the exclusion the keys of its base with the maximum over base and subtracted operand -/
example : (match assignWeights opDemo [] with
    | .ok st => (decide ("intersection:0" ∈ st.visited), edgeMaps opDemo "intersection:0" st, aget "intersection:0" st.nodeW)
    | .error _ => (false, [], [])) =
    (true, [[("bot", 1), ("user", 1)], [("bot", 2147483647), ("user", 2147483647)]],
      [("bot", 2147483647), ("user", 2147483647)]) := by decide +kernel
example : (match assignWeights opDemo [] with
    | .ok st => (decide ("exclusion:1" ∈ st.visited), edgeMaps opDemo "exclusion:1" st, aget "exclusion:1" st.nodeW)
    | .error _ => (false, [], [])) =
    (true, [[("bot", 1), ("user", 1)], [("bot", 2), ("user", 2)]], [("bot", 2), ("user", 2)]) := by decide +kernel
example : nodeType opDemo "intersection:0" = .operator ∧ nodeLabel opDemo "intersection:0" = "intersection" ∧
    nodeType opDemo "exclusion:1" = .operator ∧ nodeLabel opDemo "exclusion:1" = "exclusion" := by decide

/-- W on `hopDemo`: the weight `user ↦ 2` of `doc#b` (a finite weight: the premise of the hop-count clause holds) is
    the hop count of the path `doc#b → doc#a → user` -/
example : (match assignWeights hopDemo ["doc#c", "doc#b"] with
    | .ok st => wget "user" (aget "doc#b" st.nodeW) | .error _ => none) = some 2 := by decide +kernel
example : ReachN hopDemo "doc#b" "user" 2 :=
  ReachN.step ⟨"doc#b", "doc#a", .direct, "", ["none"]⟩
    (List.mem_of_getElem? (l := edgesOf hopDemo "doc#b") (i := 0) (by decide)) (by decide)
    (ReachN.term ⟨"doc#a", "user", .direct, "", ["none"]⟩
      (List.mem_of_getElem? (l := edgesOf hopDemo "doc#a") (i := 0) (by decide)) (by decide))
/-- … and on `algoCycle` the premise of the Infinite clause holds (`user ↦ ∞` at `doc#a`), witnessed by the cycle
    `doc#a → doc#b → doc#a` -/
example : (match assignWeights algoCycle ["doc#b"] with
    | .ok st => wget "user" (aget "doc#a" st.nodeW) | .error _ => none) = some FgaVerif.Model.WAssign.infinite := by decide +kernel
example : Conn algoCycle "doc#a" "doc#a" :=
  Conn.step ⟨"doc#a", "doc#b", .direct, "", ["none"]⟩
    (List.mem_of_getElem? (l := edgesOf algoCycle "doc#a") (i := 1) (by decide)) (by decide)
    (Conn.edge ⟨"doc#b", "doc#a", .direct, "", ["none"]⟩
      (List.mem_of_getElem? (l := edgesOf algoCycle "doc#b") (i := 1) (by decide)) (by decide))

/-! ### M. completeness and maximality (`Proofs/WAssignMax.lean`) -/

/-- M1. **completeness of the keys**: a visited node carries a weight for every terminal type that reaches it
    (`HasT`: through some edge of a relation or union, every edge of an intersection, a base edge of an exclusion).
    No closedness hypothesis on the edges is needed: a label that is not a node of the graph counts as a specific
    type (`nonterminal_in_graph`) -/
theorem algorithm_keys_complete (g : G) (hn : noPHTypesB g = true) (order : List String) (st : AState)
    (h : assignWeights g order = .ok st) (v T : String) (hv : v ∈ st.visited) (hT : HasT g v T) :
    (wget T (aget v st.nodeW)).isSome = true :=
  assignWeights_keys_complete g (noPHTypesB_sound g hn) order st h v T hv hT

/-- M2. **maximality**: the weight for `T` dominates the number of hops of every walk to `T` (inside the semantics:
    every node of the walk is reached by `T`), saturating at `Infinite` -/
theorem algorithm_weight_dominates_walks (g : G) (hn : noPHTypesB g = true) (order : List String) (st : AState)
    (h : assignWeights g order = .ok st) (v T : String) (k : Nat) (hv : v ∈ st.visited) (hw : WalkT g v T k) :
    ∃ w, wget T (aget v st.nodeW) = some w ∧ min k FgaVerif.Model.WAssign.infinite ≤ w :=
  assignWeights_dominates_walks g (noPHTypesB_sound g hn) order st h v T k hv hw

/-- M3. **a finite weight is the largest number of tuple hops on any walk to that type**: the type reaches the node,
    some walk has exactly `w` hops, and no walk has more -/
theorem algorithm_finite_weight_is_max_hops (g : G) (hn : noPHTypesB g = true) (order : List String) (st : AState)
    (h : assignWeights g order = .ok st) (v T : String) (w : Nat) (hv : v ∈ st.visited)
    (hw : wget T (aget v st.nodeW) = some w) (hlt : w < FgaVerif.Model.WAssign.infinite) :
    HasT g v T ∧ WalkT g v T w ∧ ∀ k, WalkT g v T k → k ≤ w :=
  assignWeights_finite_max g (noPHTypesB_sound g hn) order st h v T w hv hw hlt

/-- M4. **unbounded walks give `Infinite`** -/
theorem algorithm_unbounded_walks_give_infinite (g : G) (hn : noPHTypesB g = true) (order : List String) (st : AState)
    (h : assignWeights g order = .ok st) (v T : String) (hv : v ∈ st.visited)
    (hu : ∀ n, ∃ k, n ≤ k ∧ WalkT g v T k) : wget T (aget v st.nodeW) = some FgaVerif.Model.WAssign.infinite :=
  assignWeights_unbounded_infinite g (noPHTypesB_sound g hn) order st h v T hv hu

/-- M5. **the cycle behind an `Infinite` weight contains a direct or TTU edge** (the pre-pass rejects every cycle of
    rewrite/computed edges), so the paths of the graph from the node to the type have unboundedly many hops — or one
    of them has at least `Infinite` hops (`W` sharpened, for paths through any edges; M7 is the statement inside the
    semantics) -/
theorem algorithm_cycles_have_hops (g : G) (hn : noPHTypesB g = true) (order : List String) (st : AState)
    (h : assignWeights g order = .ok st) (v T : String)
    (hw : wget T (aget v st.nodeW) = some FgaVerif.Model.WAssign.infinite) :
    (∀ n, ∃ k, n ≤ k ∧ ReachN g v T k) ∨ ∃ k, FgaVerif.Model.WAssign.infinite ≤ k ∧ ReachN g v T k :=
  assignWeights_infinite_paths g (noPHTypesB_sound g hn) order st h v T hw

/-- M6. **soundness of the keys**: every key of a final node weight map is a type that reaches the node (and every
    key of an edge is carried by the edge) -/
theorem algorithm_keys_sound (g : G) (hn : noPHTypesB g = true) (order : List String) (st : AState)
    (h : assignWeights g order = .ok st) (v T : String) (hk : (wget T (aget v st.nodeW)).isSome = true) : HasT g v T :=
  (assignWeights_keys_sound g (noPHTypesB_sound g hn) order st h).1 v T hk

/-- M6'. **a node carries a weight for exactly the terminal types that reach it** -/
theorem algorithm_keys_exact (g : G) (hn : noPHTypesB g = true) (order : List String) (st : AState)
    (h : assignWeights g order = .ok st) (v T : String) (hv : v ∈ st.visited) :
    (wget T (aget v st.nodeW)).isSome = true ↔ HasT g v T :=
  assignWeights_keys_exact g (noPHTypesB_sound g hn) order st h v T hv

/-- M7. **`Infinite` exactly when the walks are unbounded** — or one of them has at least `Infinite` hops (the
    saturation of the count, impossible in a graph with fewer than `Infinite` nodes: M7') -/
theorem algorithm_infinite_iff (g : G) (hn : noPHTypesB g = true) (order : List String) (st : AState)
    (h : assignWeights g order = .ok st) (v T : String) (hv : v ∈ st.visited) :
    wget T (aget v st.nodeW) = some FgaVerif.Model.WAssign.infinite ↔
      ((∀ n, ∃ k, n ≤ k ∧ WalkT g v T k) ∨ ∃ k, FgaVerif.Model.WAssign.infinite ≤ k ∧ WalkT g v T k) :=
  assignWeights_infinite_iff g (noPHTypesB_sound g hn) order st h v T hv

/-- M7'. **the weight is `Infinite` exactly when such walks are unbounded** (pigeonhole: a walk with more hops than
    the graph has nodes passes a cycle with a hop and can be pumped) -/
theorem algorithm_infinite_iff_unbounded (g : G) (hn : noPHTypesB g = true)
    (hsz : g.nodes.length < FgaVerif.Model.WAssign.infinite) (order : List String) (st : AState)
    (h : assignWeights g order = .ok st) (v T : String) (hv : v ∈ st.visited) :
    wget T (aget v st.nodeW) = some FgaVerif.Model.WAssign.infinite ↔ ∀ n, ∃ k, n ≤ k ∧ WalkT g v T k :=
  assignWeights_infinite_iff_unbounded g (noPHTypesB_sound g hn) order st h hsz v T hv

/-! non-vacuity of M.  `hopDemo`: `user` reaches `doc#b` along a walk with two hops, the weight is 2 (above), so by M3
    no walk has more -/
theorem hopDemo_walk : WalkT hopDemo "doc#b" "user" 2 := by
  have ea : (⟨"doc#a", "user", .direct, "", ["none"]⟩ : WEdge) ∈ edgesOf hopDemo "doc#a" :=
    List.mem_of_getElem? (l := edgesOf hopDemo "doc#a") (i := 0) (by decide)
  have eb : (⟨"doc#b", "doc#a", .direct, "", ["none"]⟩ : WEdge) ∈ edgesOf hopDemo "doc#b" :=
    List.mem_of_getElem? (l := edgesOf hopDemo "doc#b") (i := 0) (by decide)
  have ha : HasT hopDemo "doc#a" "user" := HasT.rel _ (by decide) ea (EdgeHasT.term (by decide) (by decide))
  have hb : HasT hopDemo "doc#b" "user" := HasT.rel _ (by decide) eb (EdgeHasT.step (by decide) ha)
  exact WalkT.step (k := 1) _ hb eb (by decide)
    (WalkT.last (v := "doc#a") ⟨"doc#a", "user", .direct, "", ["none"]⟩ ha ea (by decide))

example (st : AState) (h : assignWeights hopDemo ["doc#c", "doc#b"] = .ok st) :
    ∀ k, WalkT hopDemo "doc#b" "user" k → k ≤ 2 := by
  have h1 : (match assignWeights hopDemo ["doc#c", "doc#b"] with
    | .ok st => (decide ("doc#b" ∈ st.visited), wget "user" (aget "doc#b" st.nodeW)) | .error _ => (false, none)) =
      (true, some 2) := by decide +kernel
  rw [h] at h1
  simp only [Prod.mk.injEq, decide_eq_true_eq] at h1
  exact (algorithm_finite_weight_is_max_hops hopDemo (by decide +kernel) _ st h "doc#b" "user" 2 h1.1 h1.2 (by decide)).2.2
/-- the runs of the examples succeed, so the statements about `st` are not vacuous -/
example : (assignWeights hopDemo ["doc#c", "doc#b"]).toBool = true ∧ (assignWeights algoCycle ["doc#b"]).toBool = true ∧
    (assignWeights opDemo []).toBool = true := by decide +kernel

/-- `opDemo`: `user` reaches the intersection through **both** edges (`doc#a` directly, `doc#c` through `doc#b`), and
    the exclusion through its base edge -/
theorem opDemo_hasT : HasT opDemo "intersection:0" "user" ∧ HasT opDemo "exclusion:1" "user" := by
  have ea : (⟨"doc#a", "user", .direct, "", ["none"]⟩ : WEdge) ∈ edgesOf opDemo "doc#a" :=
    List.mem_of_getElem? (l := edgesOf opDemo "doc#a") (i := 0) (by decide)
  have eb : (⟨"doc#b", "user", .direct, "", ["none"]⟩ : WEdge) ∈ edgesOf opDemo "doc#b" :=
    List.mem_of_getElem? (l := edgesOf opDemo "doc#b") (i := 0) (by decide)
  have ec : (⟨"doc#c", "doc#b", .direct, "", ["none"]⟩ : WEdge) ∈ edgesOf opDemo "doc#c" :=
    List.mem_of_getElem? (l := edgesOf opDemo "doc#c") (i := 0) (by decide)
  have ha : HasT opDemo "doc#a" "user" := HasT.rel _ (by decide) ea (EdgeHasT.term (by decide) (by decide))
  have hb : HasT opDemo "doc#b" "user" := HasT.rel _ (by decide) eb (EdgeHasT.term (by decide) (by decide))
  have hc : HasT opDemo "doc#c" "user" := HasT.rel _ (by decide) ec (EdgeHasT.step (by decide) hb)
  have hes : edgesOf opDemo "intersection:0" =
      [⟨"intersection:0", "doc#a", .rewrite, "", ["none"]⟩, ⟨"intersection:0", "doc#c", .rewrite, "", ["none"]⟩] := by decide
  refine ⟨HasT.inter (by decide) (by decide) (by rw [hes]; exact List.cons_ne_nil _ _) ?_,
    HasT.excl ⟨"exclusion:1", "doc#a", .rewrite, "", ["none"]⟩ (by decide) (by decide)
      ((mem_dropLast_iff _ _).2 ⟨0, by decide, by decide⟩) (EdgeHasT.step (by decide) ha)⟩
  intro e he
  rw [hes] at he
  rcases List.mem_cons.1 he with rfl | he
  · exact EdgeHasT.step (by decide) ha
  · rcases List.mem_cons.1 he with rfl | he
    · exact EdgeHasT.step (by decide) hc
    · cases he
/-- … so by M1 both carry a weight for `user` (as evaluated above: `∞` and `2`) -/
example (st : AState) (h : assignWeights opDemo [] = .ok st) :
    (wget "user" (aget "intersection:0" st.nodeW)).isSome = true := by
  have h1 : (match assignWeights opDemo [] with
    | .ok st => decide ("intersection:0" ∈ st.visited) | .error _ => false) = true := by decide +kernel
  rw [h] at h1
  exact algorithm_keys_complete opDemo (by decide +kernel) _ st h _ _ (by simpa using h1) opDemo_hasT.1

/-- `define v: a and b`, `define a: [user, bot]`, `define b: [user]`: the intersection has no weight for `bot`, so by
    M1 `bot` does not reach it (one operand is not enough) -/
def interDemo : G := {
  nodes := [⟨"doc#v", "doc#v", .typeAndRelation⟩, ⟨"intersection:0", "intersection", .operator⟩,
            ⟨"doc#a", "doc#a", .typeAndRelation⟩, ⟨"doc#b", "doc#b", .typeAndRelation⟩,
            ⟨"user", "user", .specificType⟩, ⟨"bot", "bot", .specificType⟩],
  edges := [("doc#v", [⟨"doc#v", "intersection:0", .rewrite, "", ["none"]⟩]),
            ("intersection:0", [⟨"intersection:0", "doc#a", .rewrite, "", ["none"]⟩, ⟨"intersection:0", "doc#b", .rewrite, "", ["none"]⟩]),
            ("doc#a", [⟨"doc#a", "user", .direct, "", ["none"]⟩, ⟨"doc#a", "bot", .direct, "", ["none"]⟩]),
            ("doc#b", [⟨"doc#b", "user", .direct, "", ["none"]⟩])] }
example (st : AState) (h : assignWeights interDemo [] = .ok st) : ¬ HasT interDemo "intersection:0" "bot" := by
  have h1 : (match assignWeights interDemo [] with
    | .ok st => (decide ("intersection:0" ∈ st.visited), aget "intersection:0" st.nodeW) | .error _ => (false, [])) =
      (true, [("user", 1)]) := by decide +kernel
  rw [h] at h1
  simp only [Prod.mk.injEq, decide_eq_true_eq] at h1
  intro hT
  have := algorithm_keys_complete interDemo (by decide +kernel) _ st h _ _ h1.1 hT
  rw [h1.2] at this
  exact absurd this (by decide)
example : (assignWeights interDemo []).toBool = true := by decide +kernel

/-- `algoCycle`: the weight of `user` at `doc#a` is `Infinite` (above), so by M7' the walks from `doc#a` to `user`
    have unboundedly many hops; and `opDemo`: the same for the intersection, whose second edge leads to the tuple
    cycle at `doc#c` -/
example (st : AState) (h : assignWeights algoCycle ["doc#b"] = .ok st) :
    ∀ n, ∃ k, n ≤ k ∧ WalkT algoCycle "doc#a" "user" k := by
  have h1 : (match assignWeights algoCycle ["doc#b"] with
    | .ok st => (decide ("doc#a" ∈ st.visited), wget "user" (aget "doc#a" st.nodeW)) | .error _ => (false, none)) =
      (true, some FgaVerif.Model.WAssign.infinite) := by decide +kernel
  rw [h] at h1
  simp only [Prod.mk.injEq, decide_eq_true_eq] at h1
  exact (algorithm_infinite_iff_unbounded algoCycle (by decide +kernel) (by decide) _ st h _ _ h1.1).1 h1.2
example (st : AState) (h : assignWeights opDemo [] = .ok st) :
    ∀ n, ∃ k, n ≤ k ∧ WalkT opDemo "intersection:0" "user" k := by
  have h1 : (match assignWeights opDemo [] with
    | .ok st => (decide ("intersection:0" ∈ st.visited), wget "user" (aget "intersection:0" st.nodeW))
    | .error _ => (false, none)) = (true, some FgaVerif.Model.WAssign.infinite) := by decide +kernel
  rw [h] at h1
  simp only [Prod.mk.injEq, decide_eq_true_eq] at h1
  exact (algorithm_infinite_iff_unbounded opDemo (by decide +kernel) (by decide) _ st h _ _ h1.1).1 h1.2
/-- … while the exclusion of `opDemo` has the finite weight 2 for `user`: by M3 some walk has two hops (through the
    subtracted edge `doc#b`: the weight of an exclusion is the maximum over all its edges) and none has more -/
example (st : AState) (h : assignWeights opDemo [] = .ok st) :
    WalkT opDemo "exclusion:1" "user" 2 ∧ ∀ k, WalkT opDemo "exclusion:1" "user" k → k ≤ 2 := by
  have h1 : (match assignWeights opDemo [] with
    | .ok st => (decide ("exclusion:1" ∈ st.visited), wget "user" (aget "exclusion:1" st.nodeW))
    | .error _ => (false, none)) = (true, some 2) := by decide +kernel
  rw [h] at h1
  simp only [Prod.mk.injEq, decide_eq_true_eq] at h1
  exact (algorithm_finite_weight_is_max_hops opDemo (by decide +kernel) _ st h _ _ 2 h1.1 h1.2 (by decide)).2

/-- why a walk may leave an exclusion through the subtracted edge: restricted to the base edge (`→ doc#a`) no walk from
    `exclusion:1` to `user` would have more than one hop (M3 at `doc#a`, weight 1), yet the weight is 2 -/
example (st : AState) (h : assignWeights opDemo [] = .ok st) :
    (∀ k, WalkT opDemo "doc#a" "user" k → k ≤ 1) ∧ wget "user" (aget "exclusion:1" st.nodeW) = some 2 := by
  have h1 : (match assignWeights opDemo [] with
    | .ok st => (decide ("doc#a" ∈ st.visited), wget "user" (aget "doc#a" st.nodeW), wget "user" (aget "exclusion:1" st.nodeW))
    | .error _ => (false, none, none)) = (true, some 1, some 2) := by decide +kernel
  rw [h] at h1
  simp only [Prod.mk.injEq, decide_eq_true_eq] at h1
  exact ⟨(algorithm_finite_weight_is_max_hops opDemo (by decide +kernel) _ st h _ _ 1 h1.1 h1.2.1 (by decide)).2.2, h1.2.2⟩

end algorithm

end FgaVerif.Props.C04
