import FgaVerif.Proofs.Weights
/-! # C04 — weights equal the true maximum tuple-hop depth (specification side)

    `Spec/Weights.lean` is a *specification*, not a port: the Go weight assignment (`AssignWeights`,
    an order-dependent depth-first search with cycle placeholders) is not modelled, and the real result
    is compared with the specification on every generated model under forced traversal orders.  The
    theorems below are therefore about the specification only: they show that what the code is compared
    with really has the shape the property states.

    Proved, for every specification graph whose node names are distinct and on which the iteration
    reached a fixed point (both evaluated by the driver on every input; an input outside them is
    reported as not covered):
    * `weights_satisfy_equations` — the weight map of every node is its strategy applied to its edges:
      the contribution of an edge is `{T ↦ 1}` into a terminal type or `T:*`, and otherwise the weights
      of its target, plus one (saturating; Infinite stays Infinite) if the edge is a direct or TTU hop;
      a relation, union or operand group takes the pointwise maximum over the union of keys;
      an intersection keeps the keys common to all operands with the maximum; an exclusion keeps the keys
      of the base with the maximum over base and subtract operand (`union_rule`, `intersection_rule`,
      `exclusion_rule`, `edge_rule`).
    * `accepted_has_no_empty_weights` — an accepted (well-founded) graph has no node with an empty
      weight map.

    Not proved: that the fuel of the iteration always suffices (checked per input), that the fixed
    point reached is the least one, and anything about the Go algorithm.  -/
namespace FgaVerif.Props.C04
open FgaVerif.Spec.Weights

theorem weights_satisfy_equations (g : SGraph) (hn : (g.map (·.name)).Nodup)
    (h : isFixpoint g (weights g) = true) :
    ∀ n ∈ g, stateGet (weights g) n.name = nodeWeights (g.length + 2) (weights g) n :=
  fixpoint_equations g (weights g) hn h

/-- an edge contributes its target's weights, plus one if it is a hop; `{T ↦ 1}` into a terminal -/
theorem edge_rule (cap : Nat) (st : State) (e : Edge) :
    contribution cap st e =
      match e.dst with
      | .type t => [(t, 1)]
      | .wildcard t => [(t, 1)]
      | .node n => shift cap e.hop (stateGet st n) := rfl

theorem hop_adds_one (cap : Nat) (w : WMap) :
    shift cap true w = w.map (fun (k, v) => (k, if v ≥ infinite then infinite else Nat.min (v + 1) cap)) ∧
    shift cap false w = w := ⟨rfl, rfl⟩

theorem union_rule (cap : Nat) (st : State) (n : Node) (h : n.kind = .rel ∨ n.kind = .union ∨ n.kind = .group) :
    nodeWeights cap st n = (n.edges.map (contribution cap st)).foldl unionMax [] := by
  unfold nodeWeights
  rcases h with h | h | h <;> simp [h]

theorem intersection_rule (cap : Nat) (st : State) (n : Node) (h : n.kind = .inter) :
    nodeWeights cap st n = interCombine (n.edges.map (contribution cap st)) := by
  unfold nodeWeights; simp [h]

theorem exclusion_rule (cap : Nat) (st : State) (n : Node) (h : n.kind = .diff) :
    nodeWeights cap st n = diffCombine (n.edges.map (contribution cap st)) := by
  unfold nodeWeights; simp [h]

theorem accepted_has_no_empty_weights (g : SGraph) (h : wellFounded g = true) :
    ∀ n ∈ g, (stateGet (weights g) n.name).isEmpty = false := by
  intro n hn
  unfold wellFounded rejects at h
  simp only [List.isEmpty_iff, List.append_eq_nil_iff, List.map_eq_nil_iff, List.filter_eq_nil_iff] at h
  have := h.2 n hn
  simpa using this

/-! ### non-vacuity: `define a: [user] or a from p`, `define p: [doc]` — a tuple cycle through a TTU -/
def demo : SGraph := [
  ⟨"doc#a", .rel, [⟨.node "doc#a@0", false, ""⟩]⟩,
  ⟨"doc#a@0", .union, [⟨.type "user", true, ""⟩, ⟨.node "doc#a", true, "doc#p"⟩]⟩,
  ⟨"doc#p", .rel, [⟨.type "doc", true, ""⟩]⟩]

example : isFixpoint demo (weights demo) = true ∧ (demo.map (·.name)).Nodup := by decide
example : stateGet (weights demo) "doc#a" = [("user", infinite)] := by decide
example : wellFounded demo = true := by decide

end FgaVerif.Props.C04
