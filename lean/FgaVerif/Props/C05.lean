import FgaVerif.Proofs.Weights
import FgaVerif.Proofs.ReachComplete
import FgaVerif.Proofs.WeightsCongr
import FgaVerif.Proofs.WAssignCycle
import FgaVerif.Proofs.WGraphDst
import FgaVerif.Proofs.WAssignPost
import FgaVerif.Proofs.WAssignSound
import FgaVerif.Proofs.WAssignErr
import FgaVerif.Proofs.WGraphHop
/-! # C05 — a model is accepted iff it is well-founded (specification side)

    As for C04, `Spec/Weights.lean` is a specification the real verdict is compared with under every
    forced traversal order; the Go algorithm is ported separately (`Model/WAssign.lean`) and not proved equal to it.  The theorems state that the
    specification's verdict is the one the property describes.

    Proved for every specification graph:
    * `accepted_iff_no_reject` and `accepted_means` — a graph is accepted iff no node lies on a cycle of
      rewrite (tuple-free) edges, no intersection or exclusion lies on any cycle, and every node reaches
      a terminal user type (non-empty weight map, which also covers an intersection whose operands
      share no type and a TTU over an unrestricted tupleset).
    * `rewrite_only_cycle_never_passes` — a graph that contains a node on a rewrite-only cycle is
      rejected, whatever else it contains.
    * `cycle_flag_sound` — the cycle test never reports a cycle that is not there: if it fires there is
      a walk of at least one edge from the node back to itself (through rewrite edges only when hops are
      excluded).

    * `cycle_flag_exact`, `rewrite_cycle_rejected_iff_exists` — on a graph in which every referenced
      node exists (`Closed`; evaluated by the driver on every input) the cycle test is also complete:
      it fires **iff** there is a walk of at least one edge from the node back to itself, so a graph is
      rejected for a rewrite cycle iff one exists.

    * `no_terminal_iff_unreached`, `accepted_iff_well_founded` — with the semantic reading of the
      weights (`Spec/WeightsSem.lean`, Props/C04) the third clause no longer mentions the computed
      weights at all: on a closed graph whose iteration converged (both evaluated per input), a graph
      is accepted **iff** no node lies on a tuple-free cycle, no intersection or exclusion lies on any
      cycle, and every node is reached by some terminal user type (`HasType`: through any operand of a
      relation/union, every operand of an intersection, the base of an exclusion).

    And one clause about the **algorithm itself** (the port `Model/WAssign.lean` of `AssignWeights`, tied
    to the code per forced start order by the stream `corr:wassign`):
    * `algorithm_rejects_rewrite_cycles` — if some node of the built graph lies on a cycle of rewrite
      and computed edges, the assignment returns the model-cycle error **for every start order**: the
      three-colour depth-first pre-pass is complete (`Proofs/WAssignCycle.lean`: the finished nodes form
      a topological list, and a topological list contains no node on a cycle);
      `algorithm_prepass_complete` is the contrapositive, and `algorithm_prepass_sound` the converse on
      graphs whose rewrite/computed edges end in nodes of the graph (`rclosedB`, evaluated by the driver on
      every built graph): the pre-pass fires only if a cycle
      exists (the chain of nodes in progress closes it), so it decides the question exactly;
      `built_graph_closed` shows every graph that comes out of the (ported) construction is closed
      (`Proofs/WGraphDst.lean`, an invariant through `GetOrAddNode`/`AddEdge`/`UpsertEdge` and the
      recursion over the rewrite), hence `algorithm_prepass_exact_on_built_graphs` with no hypothesis.

    * `algorithm_accepted_relations_reach_a_type` — the contrapositive of "a relation that can reach no
      terminal user type at all is rejected", for the port and every start order: if the assignment
      succeeds, every relation of the graph carries at least one weight entry, and (no terminal type being
      named `R#…`) that entry is keyed by something that is not a cycle placeholder
      (`Proofs/WAssignPost.lean`; that the key is a terminal type the relation reaches is not proved).

    * `algorithm_accepts_only_well_founded` — the **soundness half for the port, every graph and every start
      order: whatever the port accepts is well-founded** (`Proofs/WAssignSound.lean`).  If the assignment succeeds,
      (1) no node lies on a cycle of rewrite/computed edges (`algorithm_accepted_no_rewrite_cycle`), (2) no
      intersection, exclusion or other non-union operator node lies on **any** cycle of the graph
      (`algorithm_accepted_no_operator_on_cycle`: a sixth pass over the depth-first computation — such a node is only
      computed when its edges returned no open cycle reference; then its edges hold no placeholder, so their targets
      have final weights, and the nodes with weights and no placeholder are closed under the edges of the graph while
      the operator itself has no weights yet), (3) every intersection has a terminal type present on every one of its
      edges (`algorithm_accepted_intersections_have_common_type`), (4) every relation reaches a terminal node by a
      path of the graph (`algorithm_accepted_relations_reach_a_terminal_type`).

    * `algorithm_rejects_only_ill_founded`, `algorithm_accepts_iff_well_founded` — the **completeness half for the port:
      every error it returns is justified, so every well-founded graph is accepted**, for every start order
      (`Proofs/WAssignErr.lean`, a seventh pass over the runs that end in an error; hygiene of the graph — `noPHTypesB`,
      `rclosedB`, `srcOKB`: an edge is stored under its source, `hopOKB`: a direct edge does not end in an operator — is
      decidable and true of built graphs).  Per error class: `algorithm_model_cycle_is_justified` (a cycle of
      rewrite/computed edges exists — or, a **finding**, the target of an edge is an exclusion with a single edge or an
      operator with an unknown label, which never gets a weight: `oneEdgeExclusion`),
      `algorithm_invalid_model_is_justified` (some relation/operator node is reached by no terminal type: `HasT` fails
      for every type), `algorithm_tuple_cycle_is_justified` (an operator other than a union lies on a cycle of the graph;
      the test for unresolved references after the top-level call is dead code: `algorithm_top_level_check_never_fires`),
      `algorithm_fuel_suffices` (the fuel of the port never runs out, unconditionally).

    * `built_graph_hopOK`, `built_graph_termSink`, `built_graph_noPHTypes`, `built_graph_srcOK_edges`
      (`Proofs/WGraphHop.lean`) — **the hygiene hypotheses are theorems for the graphs that come out of the (ported)
      construction `WGraph.build`**, under decidable hypotheses on the *names* of the model only (`NamesOkW`: no target
      of a type restriction is spelled like an operator label `union:…`, `intersection:…`, `exclusion:…`, `:…`;
      `TermNamesOkW`: no type name is spelled like an operator label or contains `#`; `PHNamesOkW`: no type name starts
      with `R#`).  The node type is stored in the node record, but `GetOrAddNode` hands back whatever node already carries
      the label, so each hypothesis is necessary: `hopNameClash`, `termNameClash`, `phNameClash`.  Hence
      `algorithm_rejects_only_ill_founded_on_built_graphs`, `algorithm_rejected_not_well_founded_on_built_graphs` (only
      `NamesOkW m`, `PHNamesOkW m` left) and `algorithm_accepts_iff_well_founded_on_built_graphs` (`allGoodB g` left: it
      is false of the built graph of `thisButNotThis`).

    Not proved: that the port's verdict equals the specification's (`Spec/Weights.lean`) in general. -/
namespace FgaVerif.Props.C05
open FgaVerif.Spec.Weights

theorem accepted_iff_no_reject (g : SGraph) : wellFounded g = true ↔ rejects g = [] := by
  unfold wellFounded; simp

theorem accepted_means (g : SGraph) :
    wellFounded g = true ↔
      (∀ n ∈ g, onCycle g false n.name = false) ∧
      (∀ n ∈ g, (n.kind = .inter ∨ n.kind = .diff) → onCycle g true n.name = false) ∧
      (∀ n ∈ g, (stateGet (weights g) n.name).isEmpty = false) := by
  unfold wellFounded rejects
  simp only [List.isEmpty_iff, List.append_eq_nil_iff, List.map_eq_nil_iff, List.filter_eq_nil_iff]
  constructor
  · rintro ⟨⟨h1, h2⟩, h3⟩
    refine ⟨fun n hn => by simpa using h1 n hn, ?_, fun n hn => by simpa using h3 n hn⟩
    intro n hn hk
    have := h2 n hn
    rcases hk with hk | hk <;> simpa [hk] using this
  · rintro ⟨h1, h2, h3⟩
    refine ⟨⟨fun n hn => by simp [h1 n hn], ?_⟩, fun n hn => by simpa using h3 n hn⟩
    intro n hn
    by_cases hk : n.kind = .inter ∨ n.kind = .diff
    · simp [h2 n hn hk]
    · have h1' : (n.kind == Kind.inter) = false := by simpa using fun e => hk (Or.inl e)
      have h2' : (n.kind == Kind.diff) = false := by simpa using fun e => hk (Or.inr e)
      simp [h1', h2']

theorem rewrite_only_cycle_never_passes (g : SGraph) (n : Node) (hn : n ∈ g)
    (hc : onCycle g false n.name = true) : wellFounded g = false := by
  cases h : wellFounded g with
  | false => rfl
  | true =>
    have := ((accepted_means g).1 h).1 n hn
    rw [hc] at this; cases this

theorem operator_on_cycle_never_passes (g : SGraph) (n : Node) (hn : n ∈ g)
    (hk : n.kind = .inter ∨ n.kind = .diff) (hc : onCycle g true n.name = true) : wellFounded g = false := by
  cases h : wellFounded g with
  | false => rfl
  | true =>
    have := ((accepted_means g).1 h).2.1 n hn hk
    rw [hc] at this; cases this

theorem cycle_flag_sound (g : SGraph) (hopOk : Bool) (n : String) (h : onCycle g hopOk n = true) :
    ∃ s, Succ g hopOk n s ∧ Reach g hopOk s n := onCycle_sound g hopOk n h

theorem cycle_flag_exact (g : SGraph) (hc : Closed g) (hopOk : Bool) (n : String) :
    onCycle g hopOk n = true ↔ ∃ s, Succ g hopOk n s ∧ Reach g hopOk s n :=
  ⟨onCycle_sound g hopOk n, fun ⟨s, hs, hr⟩ => onCycle_complete g hc hopOk n s hs hr⟩

/-- a closed graph with a tuple-free cycle through one of its nodes is never accepted -/
theorem rewrite_cycle_rejected_iff_exists (g : SGraph) (hc : Closed g) (n : Node) (hn : n ∈ g)
    (s : String) (hs : Succ g false n.name s) (hr : Reach g false s n.name) : wellFounded g = false :=
  rewrite_only_cycle_never_passes g n hn (onCycle_complete g hc false n.name s hs hr)

theorem isEmpty_iff_no_key (w : WMap) : w.isEmpty = true ↔ ∀ T, lookupW T w = none := by
  cases w with
  | nil => simp [lookupW]
  | cons kv rest =>
    obtain ⟨k, v⟩ := kv
    simp only [List.isEmpty_cons, Bool.false_eq_true, false_iff]
    intro h
    have := h k
    simp [lookupW] at this

/-- a node is rejected for reaching no terminal type iff no terminal type reaches it -/
theorem no_terminal_iff_unreached (g : SGraph) (hg : Converged g) (n : String) :
    (stateGet (weights g) n).isEmpty = true ↔ ∀ T, ¬ HasType g T n := by
  rw [isEmpty_iff_no_key]
  constructor
  · intro h T hT
    have := (lookup_some_iff g hg n T).2 hT
    rw [h T] at this; cases this
  · intro h T
    cases hl : lookupW T (stateGet (weights g) n) with
    | none => rfl
    | some v => exact absurd ((lookup_some_iff g hg n T).1 (by simp [hl])) (h T)

/-- **accepted iff well-founded**, with no reference to the computation -/
theorem accepted_iff_well_founded (g : SGraph) (hc : Closed g) (hg : Converged g) :
    wellFounded g = true ↔
      (∀ n ∈ g, ¬ ∃ s, Succ g false n.name s ∧ Reach g false s n.name) ∧
      (∀ n ∈ g, (n.kind = .inter ∨ n.kind = .diff) → ¬ ∃ s, Succ g true n.name s ∧ Reach g true s n.name) ∧
      (∀ n ∈ g, ∃ T, HasType g T n.name) := by
  rw [accepted_means]
  constructor
  · rintro ⟨h1, h2, h3⟩
    refine ⟨?_, ?_, ?_⟩
    · intro n hn hex
      have := (cycle_flag_exact g hc false n.name).2 hex
      rw [h1 n hn] at this; cases this
    · intro n hn hk hex
      have := (cycle_flag_exact g hc true n.name).2 hex
      rw [h2 n hn hk] at this; cases this
    · intro n hn
      have hne := h3 n hn
      cases hw : stateGet (weights g) n.name with
      | nil => rw [hw] at hne; cases hne
      | cons kv rest =>
        refine ⟨kv.1, (lookup_some_iff g hg n.name kv.1).1 ?_⟩
        rw [hw]; simp [lookupW]
  · rintro ⟨h1, h2, h3⟩
    refine ⟨?_, ?_, ?_⟩
    · intro n hn
      cases hcyc : onCycle g false n.name with
      | false => rfl
      | true => exact absurd ((cycle_flag_exact g hc false n.name).1 hcyc) (h1 n hn)
    · intro n hn hk
      cases hcyc : onCycle g true n.name with
      | false => rfl
      | true => exact absurd ((cycle_flag_exact g hc true n.name).1 hcyc) (h2 n hn hk)
    · intro n hn
      cases he : (stateGet (weights g) n.name).isEmpty with
      | false => rfl
      | true =>
        obtain ⟨T, hT⟩ := h3 n hn
        exact absurd hT ((no_terminal_iff_unreached g hg n.name).1 he T)

/-- the ported pre-pass is complete: "no cycle" means no node of the graph is on a rewrite-only cycle -/
theorem algorithm_prepass_complete (g : FgaVerif.Model.WGraph.G)
    (h : FgaVerif.Model.WAssign.hasRewriteOnlyCycle g = false) :
    ∀ n ∈ g.nodes, ¬ FgaVerif.Model.WAssign.RPath g n.uniqueLabel n.uniqueLabel :=
  FgaVerif.Model.WAssign.no_cycle_of_prepass g h

/-- the ported pre-pass is sound on a graph whose rewrite/computed edges end in nodes of the graph (what
    the builder produces): it reports a cycle only if one exists (fuel cannot run out: the chain of nodes
    in progress has no repetition and stays inside the graph) -/
theorem algorithm_prepass_sound (g : FgaVerif.Model.WGraph.G) (hcl : FgaVerif.Model.WAssign.rclosedB g = true)
    (h : FgaVerif.Model.WAssign.hasRewriteOnlyCycle g = true) : ∃ x, FgaVerif.Model.WAssign.RPath g x x :=
  FgaVerif.Model.WAssign.cycle_of_prepass g (FgaVerif.Model.WAssign.rclosedB_sound g hcl) h

/-- a built graph is closed: every edge ends in one of its nodes (an invariant of the construction,
    `Proofs/WGraphDst.lean`), so no run-time hypothesis is needed for graphs that come out of `build` -/
theorem built_graph_closed (m : FgaVerif.Model.Model) (g : FgaVerif.Model.WGraph.G)
    (h : FgaVerif.Model.WGraph.build m = .ok g) : FgaVerif.Model.WAssign.RClosed g := by
  intro x y hs
  unfold FgaVerif.Model.WAssign.RStep FgaVerif.Model.WAssign.rewriteSuccs at hs
  obtain ⟨e, he, rfl⟩ := List.mem_map.1 hs
  exact FgaVerif.Model.WGraph.build_dst m g h x e (List.mem_filter.1 he).1

/-- **on every graph the builder produces, the pre-pass decides exactly whether a node lies on a cycle
    of rewrite and computed edges** — independently of any order -/
theorem algorithm_prepass_exact_on_built_graphs (m : FgaVerif.Model.Model) (g : FgaVerif.Model.WGraph.G)
    (h : FgaVerif.Model.WGraph.build m = .ok g) :
    FgaVerif.Model.WAssign.hasRewriteOnlyCycle g = true ↔
      ∃ n ∈ g.nodes, FgaVerif.Model.WAssign.RPath g n.uniqueLabel n.uniqueLabel := by
  constructor
  · intro hp
    obtain ⟨x, hx⟩ := FgaVerif.Model.WAssign.cycle_of_prepass g (built_graph_closed m g h) hp
    obtain ⟨z, hz⟩ := hx.last
    have hxl := built_graph_closed m g h z x hz
    obtain ⟨n, hn, rfl⟩ := List.mem_map.1 hxl
    exact ⟨n, hn, hx⟩
  · rintro ⟨n, hn, hc⟩
    cases hb : FgaVerif.Model.WAssign.hasRewriteOnlyCycle g with
    | true => rfl
    | false => exact absurd hc (FgaVerif.Model.WAssign.no_cycle_of_prepass g hb n hn)

/-- **rewrite-only cycles never pass the (ported) algorithm, whatever the start order** -/
theorem algorithm_rejects_rewrite_cycles (g : FgaVerif.Model.WGraph.G) (n : FgaVerif.Model.WGraph.WNode)
    (hn : n ∈ g.nodes) (hc : FgaVerif.Model.WAssign.RPath g n.uniqueLabel n.uniqueLabel) (order : List String) :
    FgaVerif.Model.WAssign.assignWeights g order = .error .modelCycle :=
  FgaVerif.Model.WAssign.rewrite_cycle_rejected g n hn hc order

/-! ### non-vacuity: `define a: b`, `define b: a or [user]` is rejected; without the back edge accepted -/
def cyc : SGraph := [
  ⟨"doc#a", .rel, [⟨.node "doc#b", false, ""⟩]⟩,
  ⟨"doc#b", .rel, [⟨.node "doc#b@0", false, ""⟩]⟩,
  ⟨"doc#b@0", .union, [⟨.node "doc#a", false, ""⟩, ⟨.type "user", true, ""⟩]⟩]
def acyc : SGraph := [
  ⟨"doc#a", .rel, [⟨.node "doc#b", false, ""⟩]⟩,
  ⟨"doc#b", .rel, [⟨.type "user", true, ""⟩]⟩]

example : onCycle cyc false "doc#a" = true ∧ wellFounded cyc = false := by decide
example : wellFounded acyc = true := by decide
example : Converged acyc ∧ Converged cyc ∧ closedB acyc = true ∧ closedB cyc = true := by unfold Converged; decide

/-- `define a: b`, `define b: a or [user]` as a built graph: `doc#a → doc#b → union → doc#a` is a cycle of
    computed and rewrite edges -/
def cycG : FgaVerif.Model.WGraph.G := {
  nodes := [⟨"doc#a", "doc#a", .typeAndRelation⟩, ⟨"doc#b", "doc#b", .typeAndRelation⟩, ⟨"union:0", "union", .operator⟩,
            ⟨"user", "user", .specificType⟩],
  edges := [("doc#a", [⟨"doc#a", "doc#b", .computed, "", ["none"]⟩]),
            ("doc#b", [⟨"doc#b", "union:0", .rewrite, "", ["none"]⟩]),
            ("union:0", [⟨"union:0", "doc#a", .computed, "", ["none"]⟩, ⟨"union:0", "user", .direct, "", ["none"]⟩])] }

example : FgaVerif.Model.WAssign.RPath cycG "doc#a" "doc#a" :=
  .cons (y := "doc#b") (by unfold FgaVerif.Model.WAssign.RStep; decide)
    (.cons (y := "union:0") (by unfold FgaVerif.Model.WAssign.RStep; decide)
      (.one (by unfold FgaVerif.Model.WAssign.RStep; decide)))
example : (match FgaVerif.Model.WAssign.assignWeights cycG ["union:0"] with
    | .error e => e == .modelCycle | .ok _ => false) = true := by decide +kernel

/-- **a relation that reaches no terminal type never passes the (ported) algorithm**: after a successful
    assignment, whatever the start order, every relation has a weight entry whose key is not a placeholder -/
theorem algorithm_accepted_relations_reach_a_type (g : FgaVerif.Model.WGraph.G)
    (hn : FgaVerif.Model.WAssign.noPHTypesB g = true) (order : List String) (st : FgaVerif.Model.WAssign.AState)
    (h : FgaVerif.Model.WAssign.assignWeights g order = .ok st) (n : FgaVerif.Model.WGraph.WNode) (hmem : n ∈ g.nodes)
    (hk : FgaVerif.Model.WAssign.nodeType g n.uniqueLabel = .typeAndRelation) :
    ∃ k v, (k, v) ∈ FgaVerif.Model.WAssign.aget n.uniqueLabel st.nodeW ∧ k.startsWith "R#" = false ∧ 1 ≤ v := by
  have hne := (FgaVerif.Model.WAssign.assignWeights_nonempty g order st h).1 n hmem (Or.inl hk)
  have hc := FgaVerif.Model.WAssign.assignWeights_clean g (FgaVerif.Model.WAssign.noPHTypesB_sound g hn) order st h
  have hp := (FgaVerif.Model.WAssign.assignWeights_nonempty g order st h).2.1
  cases hw : FgaVerif.Model.WAssign.aget n.uniqueLabel st.nodeW with
  | nil => exact absurd hw hne
  | cons p rest =>
    have hmem' : p ∈ FgaVerif.Model.WAssign.aget n.uniqueLabel st.nodeW := by rw [hw]; exact List.mem_cons_self ..
    exact ⟨p.1, p.2, List.mem_cons_self .., hc.node n.uniqueLabel p.1 ⟨p.2, hmem'⟩, hp _ p hmem'⟩

/-- non-vacuity: `define a: [doc#a]` (a cycle that leads nowhere) is rejected; `define a: [user, doc#a]` is accepted -/
def nowhere : FgaVerif.Model.WGraph.G := {
  nodes := [⟨"doc#a", "doc#a", .typeAndRelation⟩],
  edges := [("doc#a", [⟨"doc#a", "doc#a", .direct, "", ["none"]⟩])] }
def somewhere : FgaVerif.Model.WGraph.G := {
  nodes := [⟨"doc#a", "doc#a", .typeAndRelation⟩, ⟨"user", "user", .specificType⟩],
  edges := [("doc#a", [⟨"doc#a", "user", .direct, "", ["none"]⟩, ⟨"doc#a", "doc#a", .direct, "", ["none"]⟩])] }
example : (match FgaVerif.Model.WAssign.assignWeights nowhere [] with
    | .error e => e == .invalidModel | .ok _ => false) = true := by decide +kernel
example : FgaVerif.Model.WAssign.noPHTypesB somewhere = true ∧
    (match FgaVerif.Model.WAssign.assignWeights somewhere [] with
      | .ok st => FgaVerif.Model.WAssign.aget "doc#a" st.nodeW | .error _ => []) = [("user", 2147483647)] := by
  decide +kernel

/-! ### the algorithm (port of `AssignWeights`) accepts only well-founded graphs -/
section soundness
open FgaVerif.Model.WGraph FgaVerif.Model.WAssign

/-- 1. **an accepted graph has no cycle of rewrites that needs no tuple**: no node lies on a cycle of rewrite and
    computed edges (through union/intersection/exclusion operators or a self reference as well: these are rewrite
    edges); on a graph whose rewrite/computed edges end in nodes of the graph (`rclosedB`, true of every built graph:
    `built_graph_closed`) no label at all does -/
theorem algorithm_accepted_no_rewrite_cycle (g : G) (order : List String) (st : AState)
    (h : assignWeights g order = .ok st) :
    (∀ n ∈ g.nodes, ¬ RPath g n.uniqueLabel n.uniqueLabel) ∧ (rclosedB g = true → ∀ x, ¬ RPath g x x) :=
  ⟨accepted_no_rewrite_cycle g order st h,
    fun hcl => accepted_no_rewrite_cycle_closed g (rclosedB_sound g hcl) order st h⟩

/-- 2. **no intersection or exclusion of an accepted graph lies on a cycle** — of any kind of edges, tuple hops
    included (`Conn g v v`: a path of at least one edge from `v` back to `v` through relation and operator nodes);
    the same holds for an operator node with any label other than `union` -/
theorem algorithm_accepted_no_operator_on_cycle (g : G) (hn : noPHTypesB g = true) (order : List String) (st : AState)
    (h : assignWeights g order = .ok st) (n : WNode) (hmem : n ∈ g.nodes) (hop : nodeType g n.uniqueLabel = .operator)
    (hlbl : nodeLabel g n.uniqueLabel = "intersection" ∨ nodeLabel g n.uniqueLabel = "exclusion" ∨
      nodeLabel g n.uniqueLabel ≠ "union") : ¬ Conn g n.uniqueLabel n.uniqueLabel := by
  apply accepted_no_operator_on_cycle g (noPHTypesB_sound g hn) order st h n hmem hop
  rcases hlbl with e | e | e
  · rw [e]; decide
  · rw [e]; decide
  · exact e

/-- the same for every visited node: a node on a cycle is a relation or a union -/
theorem algorithm_accepted_cycles_through_relations_and_unions_only (g : G) (hn : noPHTypesB g = true)
    (order : List String) (st : AState) (h : assignWeights g order = .ok st) (v : String) (hv : v ∈ st.visited)
    (hc : Conn g v v) : nodeType g v ≠ .operator ∨ nodeLabel g v = "union" := by
  cases hm : isMaxNode g v with
  | false => exact absurd hc (accepted_no_nonmax_on_cycle g (noPHTypesB_sound g hn) order st h v hv hm)
  | true =>
    unfold isMaxNode at hm
    cases hnt : nodeType g v with
    | operator =>
      rw [hnt] at hm
      have hf : (NodeType.operator != NodeType.operator) = false := by decide
      rw [hf, Bool.false_or] at hm
      exact Or.inr (by simpa using hm)
    | specificType => exact Or.inl (by decide)
    | typeAndRelation => exact Or.inl (by decide)
    | wildcard => exact Or.inl (by decide)

/-- 3. **every intersection of an accepted graph has a user type common to all its operands**: some terminal type
    `T`, reachable from the intersection, has a weight on every one of its edges -/
theorem algorithm_accepted_intersections_have_common_type (g : G) (hn : noPHTypesB g = true) (order : List String)
    (st : AState) (h : assignWeights g order = .ok st) (n : WNode) (hmem : n ∈ g.nodes)
    (hop : nodeType g n.uniqueLabel = .operator) (hlbl : nodeLabel g n.uniqueLabel = "intersection") :
    ∃ T, (∃ j, ReachN g n.uniqueLabel T j) ∧ T.startsWith "R#" = false ∧
      ∀ i e, (edgesOf g n.uniqueLabel)[i]? = some e → (wget T (aget (n.uniqueLabel, i) st.edgeW)).isSome = true :=
  accepted_intersection_common_type g (noPHTypesB_sound g hn) order st h n hmem hop hlbl

/-- 4. **every relation of an accepted graph reaches a terminal user type**: a path of the graph leads from it to a
    terminal node (`T` or `T:*`) of type `T` -/
theorem algorithm_accepted_relations_reach_a_terminal_type (g : G) (hn : noPHTypesB g = true) (order : List String)
    (st : AState) (h : assignWeights g order = .ok st) (n : WNode) (hmem : n ∈ g.nodes)
    (hk : nodeType g n.uniqueLabel = .typeAndRelation) : ∃ T j, ReachN g n.uniqueLabel T j :=
  accepted_relation_reaches_terminal g (noPHTypesB_sound g hn) order st h n hmem hk

/-- 5. **whatever the (ported) algorithm accepts is well-founded**, for every graph (no terminal type named `R#…`:
    `noPHTypesB`, evaluated by the driver on every built graph) and every start order.  The conjuncts are the
    negations of the rejection clauses of the property:
    * first — "some cycle of rewrites needs no tuple to be traversed (also through union/intersection/exclusion
      operators or a self reference)": no node of the graph lies on a cycle of rewrite/computed edges;
    * second — "an intersection or exclusion lies on a cycle": no operator node other than a union lies on any cycle
      of the graph (`Conn`, tuple hops included);
    * third — "an intersection has no user type common to all operands": every intersection has a terminal type,
      reachable from it, that has a weight on every one of its edges;
    * fourth — "a relation can reach no terminal user type at all": every relation has a path to a terminal node.
    Together with `algorithm_rejects_rewrite_cycles` ("a model containing a tuple-free rewrite cycle is never
    accepted, whatever else the model contains") this is the "accepted ⇒ well-founded" direction for the port; the
    converse ("every well-founded model is accepted") is proved for the specification only
    (`accepted_iff_well_founded`). -/
theorem algorithm_accepts_only_well_founded (g : G) (hn : noPHTypesB g = true) (order : List String) (st : AState)
    (h : assignWeights g order = .ok st) :
    (∀ n ∈ g.nodes, ¬ RPath g n.uniqueLabel n.uniqueLabel) ∧
    (∀ n ∈ g.nodes, nodeType g n.uniqueLabel = .operator → nodeLabel g n.uniqueLabel ≠ "union" →
      ¬ Conn g n.uniqueLabel n.uniqueLabel) ∧
    (∀ n ∈ g.nodes, nodeType g n.uniqueLabel = .operator → nodeLabel g n.uniqueLabel = "intersection" →
      ∃ T, (∃ j, ReachN g n.uniqueLabel T j) ∧ T.startsWith "R#" = false ∧
        ∀ i e, (edgesOf g n.uniqueLabel)[i]? = some e → (wget T (aget (n.uniqueLabel, i) st.edgeW)).isSome = true) ∧
    (∀ n ∈ g.nodes, nodeType g n.uniqueLabel = .typeAndRelation → ∃ T j, ReachN g n.uniqueLabel T j) :=
  accepts_only_well_founded g (noPHTypesB_sound g hn) order st h

/-! non-vacuity.  An accepted graph with an intersection, an exclusion and a tuple cycle (through relations only):
    `define v: a and c`, `define w: a but not b`, `define a: [user, bot]`, `define b: [user, doc#a]`,
    `define c: [doc#b, doc#c]` -/
def soundDemo : G := {
  nodes := [⟨"doc#v", "doc#v", .typeAndRelation⟩, ⟨"intersection:0", "intersection", .operator⟩,
            ⟨"doc#w", "doc#w", .typeAndRelation⟩, ⟨"exclusion:1", "exclusion", .operator⟩,
            ⟨"doc#a", "doc#a", .typeAndRelation⟩, ⟨"doc#b", "doc#b", .typeAndRelation⟩,
            ⟨"doc#c", "doc#c", .typeAndRelation⟩,
            ⟨"user", "user", .specificType⟩, ⟨"bot", "bot", .specificType⟩],
  edges := [("doc#v", [⟨"doc#v", "intersection:0", .rewrite, "", ["none"]⟩]),
            ("intersection:0", [⟨"intersection:0", "doc#a", .rewrite, "", ["none"]⟩, ⟨"intersection:0", "doc#c", .rewrite, "", ["none"]⟩]),
            ("doc#w", [⟨"doc#w", "exclusion:1", .rewrite, "", ["none"]⟩]),
            ("exclusion:1", [⟨"exclusion:1", "doc#a", .rewrite, "", ["none"]⟩, ⟨"exclusion:1", "doc#b", .rewrite, "", ["none"]⟩]),
            ("doc#a", [⟨"doc#a", "user", .direct, "", ["none"]⟩, ⟨"doc#a", "bot", .direct, "", ["none"]⟩]),
            ("doc#b", [⟨"doc#b", "user", .direct, "", ["none"]⟩, ⟨"doc#b", "doc#a", .direct, "", ["none"]⟩]),
            ("doc#c", [⟨"doc#c", "doc#b", .direct, "", ["none"]⟩, ⟨"doc#c", "doc#c", .direct, "", ["none"]⟩])] }

/-- all start orders over a list of nodes -/
def allOrders : List String → List (List String)
  | [] => [[]]
  | x :: xs => (allOrders xs).flatMap (fun p => (List.range (p.length + 1)).map (fun i => p.take i ++ [x] ++ p.drop i))

def verdict (g : G) (o : List String) : Option AErr :=
  match assignWeights g o with | .ok _ => none | .error e => some e

/-- the hypotheses of the bundle hold on `soundDemo` (for two start orders), and the common types of its intersection
    are `bot` and `user` -/
example : noPHTypesB soundDemo = true ∧ rclosedB soundDemo = true ∧ verdict soundDemo [] = none ∧
    verdict soundDemo ["doc#c", "doc#w"] = none ∧
    (match assignWeights soundDemo [] with
      | .ok st => edgeMaps soundDemo "intersection:0" st | .error _ => []) =
      [[("bot", 1), ("user", 1)], [("bot", 2147483647), ("user", 2147483647)]] := by decide +kernel

/-- clause 2 violated, intersection: `define a: b and [doc#a]`, `define b: [user]` — the intersection lies on the
    tuple cycle `intersection → doc#a → intersection`; every start order ends in the tuple-cycle error (Go:
    "operands AND or BUT NOT cannot be involved in a cycle") -/
def interCycle : G := {
  nodes := [⟨"doc#a", "doc#a", .typeAndRelation⟩, ⟨"intersection:0", "intersection", .operator⟩,
            ⟨"doc#b", "doc#b", .typeAndRelation⟩, ⟨"user", "user", .specificType⟩],
  edges := [("doc#a", [⟨"doc#a", "intersection:0", .rewrite, "", ["none"]⟩]),
            ("intersection:0", [⟨"intersection:0", "doc#b", .rewrite, "", ["none"]⟩, ⟨"intersection:0", "doc#a", .direct, "", ["none"]⟩]),
            ("doc#b", [⟨"doc#b", "user", .direct, "", ["none"]⟩])] }
example : Conn interCycle "intersection:0" "intersection:0" :=
  Conn.step ⟨"intersection:0", "doc#a", .direct, "", ["none"]⟩
    (List.mem_of_getElem? (l := edgesOf interCycle "intersection:0") (i := 1) (by decide)) (by decide)
    (Conn.edge ⟨"doc#a", "intersection:0", .rewrite, "", ["none"]⟩
      (List.mem_of_getElem? (l := edgesOf interCycle "doc#a") (i := 0) (by decide)) (by decide))
example : noPHTypesB interCycle = true ∧ hasRewriteOnlyCycle interCycle = false ∧
    (allOrders ["doc#a", "intersection:0", "doc#b"]).all (fun o => verdict interCycle o == some .tupleCycle) = true := by
  decide +kernel

/-- clause 2 violated, exclusion: `define a: [user] but not b`, `define b: [doc#a]` — the exclusion lies on the cycle
    `exclusion → doc#b → doc#a → exclusion` (one tuple hop) -/
def exclCycle : G := {
  nodes := [⟨"doc#a", "doc#a", .typeAndRelation⟩, ⟨"exclusion:0", "exclusion", .operator⟩,
            ⟨"doc#b", "doc#b", .typeAndRelation⟩, ⟨"user", "user", .specificType⟩],
  edges := [("doc#a", [⟨"doc#a", "exclusion:0", .rewrite, "", ["none"]⟩]),
            ("exclusion:0", [⟨"exclusion:0", "user", .direct, "", ["none"]⟩, ⟨"exclusion:0", "doc#b", .rewrite, "", ["none"]⟩]),
            ("doc#b", [⟨"doc#b", "doc#a", .direct, "", ["none"]⟩])] }
example : Conn exclCycle "exclusion:0" "exclusion:0" :=
  Conn.step ⟨"exclusion:0", "doc#b", .rewrite, "", ["none"]⟩
    (List.mem_of_getElem? (l := edgesOf exclCycle "exclusion:0") (i := 1) (by decide)) (by decide)
    (Conn.step ⟨"doc#b", "doc#a", .direct, "", ["none"]⟩
      (List.mem_of_getElem? (l := edgesOf exclCycle "doc#b") (i := 0) (by decide)) (by decide)
      (Conn.edge ⟨"doc#a", "exclusion:0", .rewrite, "", ["none"]⟩
        (List.mem_of_getElem? (l := edgesOf exclCycle "doc#a") (i := 0) (by decide)) (by decide)))
example : noPHTypesB exclCycle = true ∧ hasRewriteOnlyCycle exclCycle = false ∧
    (allOrders ["doc#a", "exclusion:0", "doc#b"]).all (fun o => verdict exclCycle o == some .tupleCycle) = true := by
  decide +kernel

/-- clause 3 violated: `define v: a and b`, `define a: [user]`, `define b: [bot]` — no common type; every start order
    ends in the invalid-model error (Go: "not all paths return the same type for the node") -/
def interNoCommon : G := {
  nodes := [⟨"doc#v", "doc#v", .typeAndRelation⟩, ⟨"intersection:0", "intersection", .operator⟩,
            ⟨"doc#a", "doc#a", .typeAndRelation⟩, ⟨"doc#b", "doc#b", .typeAndRelation⟩,
            ⟨"user", "user", .specificType⟩, ⟨"bot", "bot", .specificType⟩],
  edges := [("doc#v", [⟨"doc#v", "intersection:0", .rewrite, "", ["none"]⟩]),
            ("intersection:0", [⟨"intersection:0", "doc#a", .rewrite, "", ["none"]⟩, ⟨"intersection:0", "doc#b", .rewrite, "", ["none"]⟩]),
            ("doc#a", [⟨"doc#a", "user", .direct, "", ["none"]⟩]),
            ("doc#b", [⟨"doc#b", "bot", .direct, "", ["none"]⟩])] }
example : noPHTypesB interNoCommon = true ∧
    (allOrders ["doc#v", "intersection:0", "doc#a", "doc#b"]).all
      (fun o => verdict interNoCommon o == some .invalidModel) = true := by decide +kernel

/-- clauses 1 and 4 violated: `cycG` (rewrite cycle: model-cycle error) and `nowhere` (a relation that reaches no
    terminal type: invalid-model error), for every start order -/
example : (allOrders ["doc#a", "doc#b", "union:0"]).all (fun o => verdict cycG o == some .modelCycle) = true ∧
    verdict nowhere [] = some .invalidModel ∧ verdict nowhere ["doc#a"] = some .invalidModel := by decide +kernel

end soundness

/-! ### the algorithm (port of `AssignWeights`) rejects only graphs that are not well-founded -/
section completeness
open FgaVerif.Model.WGraph FgaVerif.Model.WAssign

theorem verdict_error {g : G} {o : List String} {e : AErr} (h : verdict g o = some e) : assignWeights g o = .error e := by
  unfold verdict at h
  split at h
  · cases h
  · rename_i e' heq
    cases h
    exact heq

/-- 1. **the model-cycle error is justified**: if the port returns it, a cycle of rewrite/computed edges exists (then the
    pre-pass raised it: `algorithm_prepass_sound`) — or (raised by `calculateEdgeWeight`: the target of an edge came back
    without weights and no tuple hop leads back to it) the graph contains an exclusion with fewer than two edges or an
    operator with an unknown label, a node that never gets a weight (`BadOp`; see `oneEdgeExclusion` below).  On a graph
    all of whose operators are unions, intersections and two-edged exclusions (`allGoodB`) the error is raised exactly
    for a cycle of rewrite/computed edges. -/
theorem algorithm_model_cycle_is_justified (g : G) (hn : noPHTypesB g = true) (hcl : rclosedB g = true)
    (hsrc : srcOKB g = true) (hhop : hopOKB g = true) (order : List String)
    (h : assignWeights g order = .error .modelCycle) :
    (∃ x, RPath g x x) ∨ ∃ v, isTerminal (nodeType g v) = false ∧ ¬ GoodNode g v :=
  assignWeights_error_justified g (noPHTypesB_sound g hn) (rclosedB_sound g hcl) (srcOKB_edges g hsrc)
    (hopOKB_sound g hhop) order .modelCycle h

theorem algorithm_model_cycle_iff (g : G) (hn : noPHTypesB g = true) (hcl : rclosedB g = true)
    (hsrc : srcOKB g = true) (hhop : hopOKB g = true) (hgood : allGoodB g = true) (order : List String) :
    assignWeights g order = .error .modelCycle ↔ ∃ x, RPath g x x := by
  constructor
  · intro h
    rcases algorithm_model_cycle_is_justified g hn hcl hsrc hhop order h with hx | ⟨v, hv, hb⟩
    · exact hx
    · exact absurd (allGoodB_sound g hgood v hv) hb
  · rintro ⟨x, hx⟩
    obtain ⟨z, hz⟩ := hx.last
    obtain ⟨nd, hnd, rfl⟩ := List.mem_map.1 (rclosedB_sound g hcl z x hz)
    exact rewrite_cycle_rejected g nd hnd hx order

/-- 2. **the invalid-model error is justified**: if the port returns it, some relation or operator node of the graph is
    reached by no terminal type at all — `HasT g v T` (through some edge of a relation or union, through every edge of
    an intersection, through a base edge of an exclusion) fails for every `T`: a relation that reaches no terminal
    type, an intersection without a type common to all its edges, an exclusion whose base reaches nothing, a node
    without edges. -/
theorem algorithm_invalid_model_is_justified (g : G) (hn : noPHTypesB g = true) (hcl : rclosedB g = true)
    (hsrc : srcOKB g = true) (hhop : hopOKB g = true) (order : List String)
    (h : assignWeights g order = .error .invalidModel) :
    ∃ v, isTerminal (nodeType g v) = false ∧ ∀ T, ¬ HasT g v T :=
  assignWeights_error_justified g (noPHTypesB_sound g hn) (rclosedB_sound g hcl) (srcOKB_edges g hsrc)
    (hopOKB_sound g hhop) order .invalidModel h

/-- 3. **the tuple-cycle error is justified**: if the port returns it, an intersection, an exclusion (or an operator
    with any label other than `union`) lies on a cycle of the graph -/
theorem algorithm_tuple_cycle_is_justified (g : G) (hn : noPHTypesB g = true) (hcl : rclosedB g = true)
    (hsrc : srcOKB g = true) (hhop : hopOKB g = true) (order : List String)
    (h : assignWeights g order = .error .tupleCycle) : ∃ v, isMaxNode g v = false ∧ Conn g v v :=
  assignWeights_error_justified g (noPHTypesB_sound g hn) (rclosedB_sound g hcl) (srcOKB_edges g hsrc)
    (hopOKB_sound g hhop) order .tupleCycle h

/-- … and the other source of that error, the test `len(tupleCycles) > 0` after each top-level call of
    `calculateNodeWeight`, **never fires**: the port equals the port without the test (the references that come back
    only name nodes whose visit is in progress, and at top level there are none) -/
theorem algorithm_top_level_check_never_fires (g : G) (hn : noPHTypesB g = true) (hsrc : srcOKB g = true)
    (hhop : hopOKB g = true) (order : List String) : assignWeights g order = assignWeightsNoTopCheck g order :=
  assignWeights_eq_noTopCheck g (noPHTypesB_sound g hn) (srcOKB_edges g hsrc) (hopOKB_sound g hhop) order

/-- 4. **the fuel of the port never runs out**, for every graph and every start order (no hypothesis): the nested calls
    of `calculateNodeWeight` are made for distinct nodes of the graph, and the fuel is their number plus one -/
theorem algorithm_fuel_suffices (g : G) (order : List String) : assignWeights g order ≠ .error .fuel :=
  assignWeights_fuel_suffices g order

/-- 5. **the port rejects only graphs that are not well-founded**: whatever error it returns (out of fuel is impossible:
    `algorithm_fuel_suffices`), for whatever start order, one of the clauses of `algorithm_accepts_only_well_founded`
    is violated — first: a node of the graph lies on a cycle of rewrite/computed edges; second: an operator of the graph
    other than a union lies on a cycle; third and fourth, in their semantic form (an intersection without a common
    type, a relation that reaches no terminal type, …): a relation/operator node of the graph is reached by no terminal
    type. -/
theorem algorithm_rejects_only_ill_founded (g : G) (hn : noPHTypesB g = true) (hcl : rclosedB g = true)
    (hsrc : srcOKB g = true) (hhop : hopOKB g = true) (order : List String) (e : AErr)
    (h : assignWeights g order = .error e) :
    (∃ n ∈ g.nodes, RPath g n.uniqueLabel n.uniqueLabel) ∨
    (∃ n ∈ g.nodes, nodeType g n.uniqueLabel = .operator ∧ nodeLabel g n.uniqueLabel ≠ "union" ∧
      Conn g n.uniqueLabel n.uniqueLabel) ∨
    (∃ n ∈ g.nodes, isTerminal (nodeType g n.uniqueLabel) = false ∧ ∀ T, ¬ HasT g n.uniqueLabel T) :=
  rejected_ill_founded g (noPHTypesB_sound g hn) (rclosedB_sound g hcl) (srcOKB_edges g hsrc) (hopOKB_sound g hhop) order e h

/-- the same, against the predicate `WellFoundedG` (no cycle of rewrite/computed edges, no operator other than a union
    on a cycle, every relation/operator node reached by some terminal type) -/
theorem algorithm_rejected_not_well_founded (g : G) (hn : noPHTypesB g = true) (hcl : rclosedB g = true)
    (hsrc : srcOKB g = true) (hhop : hopOKB g = true) (order : List String) (e : AErr)
    (h : assignWeights g order = .error e) : ¬ WellFoundedG g :=
  not_wellFounded_of_just (fun he => assignWeights_fuel_suffices g order (he ▸ h))
    (assignWeights_error_justified g (noPHTypesB_sound g hn) (rclosedB_sound g hcl) (srcOKB_edges g hsrc)
      (hopOKB_sound g hhop) order e h)

/-- **accepted iff well-founded, for the port and every start order** (on a graph whose operators are unions,
    intersections and two-edged exclusions: `allGoodB`; without it "accepted ⇒ well-founded" holds for those nodes
    only, `algorithm_accepts_only_well_founded`).  In particular the verdict does not depend on the start order. -/
theorem algorithm_accepts_iff_well_founded (g : G) (hn : noPHTypesB g = true) (hcl : rclosedB g = true)
    (hsrc : srcOKB g = true) (hhop : hopOKB g = true) (hgood : allGoodB g = true) (order : List String) :
    (∃ st, assignWeights g order = .ok st) ↔ WellFoundedG g :=
  accepted_iff_wellFoundedG g (noPHTypesB_sound g hn) (rclosedB_sound g hcl) (srcOKB_edges g hsrc) (hopOKB_sound g hhop)
    (allGoodB_sound g hgood) order

theorem algorithm_verdict_order_independent (g : G) (hn : noPHTypesB g = true) (hcl : rclosedB g = true)
    (hsrc : srcOKB g = true) (hhop : hopOKB g = true) (hgood : allGoodB g = true) (o1 o2 : List String) :
    (∃ st, assignWeights g o1 = .ok st) ↔ (∃ st, assignWeights g o2 = .ok st) :=
  (algorithm_accepts_iff_well_founded g hn hcl hsrc hhop hgood o1).trans
    (algorithm_accepts_iff_well_founded g hn hcl hsrc hhop hgood o2).symm

/-! non-vacuity: the hygiene hypotheses hold on the example graphs, each error class occurs, and the theorems yield the
    witnesses -/
example : [cycG, interCycle, exclCycle, interNoCommon, nowhere, soundDemo].all
    (fun g => noPHTypesB g && rclosedB g && srcOKB g && hopOKB g && allGoodB g) = true := by decide +kernel

/-- `cycG`: the model-cycle error, and the cycle it is justified by -/
example : ∃ x, RPath cycG x x :=
  (algorithm_model_cycle_iff cycG (by decide +kernel) (by decide +kernel) (by decide +kernel) (by decide +kernel)
    (by decide +kernel) ["union:0"]).1 (verdict_error (by decide +kernel))

/-- `interCycle`, `exclCycle`: the tuple-cycle error; the theorem yields an operator on a cycle -/
example : ∃ v, isMaxNode interCycle v = false ∧ Conn interCycle v v :=
  algorithm_tuple_cycle_is_justified interCycle (by decide +kernel) (by decide +kernel) (by decide +kernel)
    (by decide +kernel) ["doc#b"] (verdict_error (by decide +kernel))
example : ∃ v, isMaxNode exclCycle v = false ∧ Conn exclCycle v v :=
  algorithm_tuple_cycle_is_justified exclCycle (by decide +kernel) (by decide +kernel) (by decide +kernel)
    (by decide +kernel) [] (verdict_error (by decide +kernel))

/-- `interNoCommon`, `nowhere`: the invalid-model error; the theorem yields a node that no terminal type reaches -/
example : ∃ v, isTerminal (nodeType interNoCommon v) = false ∧ ∀ T, ¬ HasT interNoCommon v T :=
  algorithm_invalid_model_is_justified interNoCommon (by decide +kernel) (by decide +kernel) (by decide +kernel)
    (by decide +kernel) [] (verdict_error (by decide +kernel))
example : ∃ v, isTerminal (nodeType nowhere v) = false ∧ ∀ T, ¬ HasT nowhere v T :=
  algorithm_invalid_model_is_justified nowhere (by decide +kernel) (by decide +kernel) (by decide +kernel)
    (by decide +kernel) ["doc#a"] (verdict_error (by decide +kernel))

/-- `soundDemo` is accepted, hence well-founded; the rejected examples are not -/
example : WellFoundedG soundDemo :=
  (algorithm_accepts_iff_well_founded soundDemo (by decide +kernel) (by decide +kernel) (by decide +kernel)
    (by decide +kernel) (by decide +kernel) []).1
    (by cases h : assignWeights soundDemo [] with
        | ok st => exact ⟨st, rfl⟩
        | error e => exact absurd (show verdict soundDemo [] = none by decide +kernel) (by unfold verdict; rw [h]; simp))
example : ¬ WellFoundedG interNoCommon :=
  algorithm_rejected_not_well_founded interNoCommon (by decide +kernel) (by decide +kernel) (by decide +kernel)
    (by decide +kernel) [] .invalidModel (verdict_error (by decide +kernel))

/-- **Finding** (the model-cycle error is also raised without any cycle).  `define a: [user] but not [user]` in the JSON
    form (`difference {base: this, subtract: this}`): `UpsertEdge` merges the two identical direct edges, the exclusion
    has a single edge, the mixed strategy skips the last (= only) edge, the exclusion gets an empty weight map without
    an error, and `calculateEdgeWeight` of `doc#a → exclusion` reports a *model cycle* — for every start order — although
    the graph has no cycle of any kind.  (The graph is not well-founded in the sense of `HasT` — an exclusion with one
    edge has no base edge — so the rejection is covered by `algorithm_rejects_only_ill_founded`; only the class of the
    error is off, and `allGoodB` fails.)  The same happens for `define a: [] but not b` (empty restriction list). -/
def thisButNotThis : FgaVerif.Model.Model := { schema := "1.1", types := [
  { name := "user" },
  { name := "doc", relations := [("a", .diff .this .this)],
    md := some { relations := [("a", { restr := [{ type := "user" }] })] } }] }
def oneEdgeExclusion : G := {
  nodes := [⟨"doc", "doc", .specificType⟩, ⟨"doc#a", "doc#a", .typeAndRelation⟩,
            ⟨"exclusion:0", "exclusion", .operator⟩, ⟨"user", "user", .specificType⟩],
  edges := [("doc#a", [⟨"doc#a", "exclusion:0", .rewrite, "", ["none"]⟩]),
            ("exclusion:0", [⟨"exclusion:0", "user", .direct, "", ["none"]⟩])],
  opCount := 1 }
example : (match build thisButNotThis with | .ok g => g == oneEdgeExclusion | .error _ => false) = true := by
  decide +kernel
example : noPHTypesB oneEdgeExclusion = true ∧ rclosedB oneEdgeExclusion = true ∧ srcOKB oneEdgeExclusion = true ∧
    hopOKB oneEdgeExclusion = true ∧ allGoodB oneEdgeExclusion = false ∧ hasRewriteOnlyCycle oneEdgeExclusion = false ∧
    (allOrders ["doc#a", "exclusion:0"]).all (fun o => verdict oneEdgeExclusion o == some .modelCycle) = true := by
  decide +kernel
/-- … and there is no cycle of rewrite/computed edges in it: the first alternative of
    `algorithm_model_cycle_is_justified` fails, the second holds -/
example : ¬ ∃ x, RPath oneEdgeExclusion x x := by
  rintro ⟨x, hx⟩
  obtain ⟨z, hz⟩ := hx.last
  obtain ⟨nd, hnd, rfl⟩ := List.mem_map.1 (rclosedB_sound oneEdgeExclusion (by decide +kernel) z x hz)
  exact no_cycle_of_prepass oneEdgeExclusion (by decide +kernel) nd hnd hx
example : ∃ v, isTerminal (nodeType oneEdgeExclusion v) = false ∧ ¬ GoodNode oneEdgeExclusion v :=
  (algorithm_model_cycle_is_justified oneEdgeExclusion (by decide +kernel) (by decide +kernel) (by decide +kernel)
    (by decide +kernel) [] (verdict_error (by decide +kernel))).resolve_left (by
      rintro ⟨x, hx⟩
      obtain ⟨z, hz⟩ := hx.last
      obtain ⟨nd, hnd, rfl⟩ := List.mem_map.1 (rclosedB_sound oneEdgeExclusion (by decide +kernel) z x hz)
      exact no_cycle_of_prepass oneEdgeExclusion (by decide +kernel) nd hnd hx)

/-- the hygiene hypotheses are needed.  A self-loop test on the `src` field of an edge stored under another node
    (`srcOKB` fails): the tuple-cycle error without any operator in the graph. -/
def wrongSrc : G := {
  nodes := [⟨"doc#r0", "doc#r0", .typeAndRelation⟩, ⟨"doc#r1", "doc#r1", .typeAndRelation⟩],
  edges := [("doc#r1", [⟨"doc#r0", "doc#r0", .rewrite, "", ["none"]⟩])] }
example : srcOKB wrongSrc = false ∧ verdict wrongSrc ["doc#r1", "doc#r0"] = some .tupleCycle ∧
    wrongSrc.nodes.all (fun n => isMaxNode wrongSrc n.uniqueLabel) = true := by decide +kernel

/-- a direct edge into an operator (`hopOKB` fails; the builder never makes one): `isTupleCycle` does not count it as a
    tuple hop, and the cycle `doc#a → union → doc#a`, which is not a cycle of rewrite/computed edges, is reported as a
    model cycle -/
def directToOp : G := {
  nodes := [⟨"doc#a", "doc#a", .typeAndRelation⟩, ⟨"union:0", "union", .operator⟩, ⟨"user", "user", .specificType⟩],
  edges := [("doc#a", [⟨"doc#a", "union:0", .direct, "", ["none"]⟩]),
            ("union:0", [⟨"union:0", "doc#a", .rewrite, "", ["none"]⟩, ⟨"union:0", "user", .direct, "", ["none"]⟩])] }
example : hopOKB directToOp = false ∧ srcOKB directToOp = true ∧ rclosedB directToOp = true ∧ allGoodB directToOp = true ∧
    hasRewriteOnlyCycle directToOp = false ∧
    (allOrders ["doc#a", "union:0"]).all (fun o => verdict directToOp o == some .modelCycle) = true := by decide +kernel

end completeness

/-! ### the hygiene hypotheses are theorems for built graphs (`Proofs/WGraphHop.lean`) -/
section built
open FgaVerif.Model.WGraph FgaVerif.Model.WAssign

/-- **a direct edge of a built graph ends in a type, a wildcard or a relation node, never in an operator** — provided no
    target of a type restriction (`T`, `T:*`, `T#r`) is spelled like the unique label of an operator node (`NamesOkW`:
    does not start with `union:`, `intersection:`, `exclusion:` or `:`).  The node type is stored in the node record,
    but `GetOrAddNode` hands back whatever node already carries the label: the hypothesis is needed
    (`hopNameClash`). -/
theorem built_graph_hopOK (m : FgaVerif.Model.Model) (g : G) (h : build m = .ok g) (hn : NamesOkW m = true) :
    hopOKB g = true :=
  hop_build_hopOKB m g h hn

/-- **terminal type and wildcard nodes of a built graph have no outgoing edges** — provided no type name and no `T`,
    `T:*` of a restriction is spelled like an operator label or contains `#` (`TermNamesOkW`; needed: `termNameClash`) -/
theorem built_graph_termSink (m : FgaVerif.Model.Model) (g : G) (h : build m = .ok g) (hn : TermNamesOkW m = true) :
    termSinkB g = true :=
  hop_build_termSinkB m g h hn

/-- **no terminal type of a built graph is named like a cycle placeholder** — provided no type name and no `T` of a
    restriction `T` / `T:*` starts with `R#` (`PHNamesOkW`; needed: `phNameClash`) -/
theorem built_graph_noPHTypes (m : FgaVerif.Model.Model) (g : G) (h : build m = .ok g) (hn : PHNamesOkW m = true) :
    noPHTypesB g = true :=
  hop_build_noPHTypesB m g h hn

/-- every edge of a built graph is stored under its own source, in the form the completeness theorems use -/
theorem built_graph_srcOK_edges (m : FgaVerif.Model.Model) (g : G) (h : build m = .ok g) :
    ∀ n, ∀ e ∈ edgesOf g n, e.src = n :=
  fun n e he => ((build_inv m g h).edges n).src_eq e he

/-- **`algorithm_rejects_only_ill_founded` for built graphs: only hypotheses on the model are left** (two decidable
    conditions on its names).  Whatever error the port of `AssignWeights` returns on the graph built from `m`, for
    whatever start order, the graph is not well-founded. -/
theorem algorithm_rejects_only_ill_founded_on_built_graphs (m : FgaVerif.Model.Model) (g : G) (hb : build m = .ok g)
    (hnames : NamesOkW m = true) (hph : PHNamesOkW m = true) (order : List String) (e : AErr)
    (h : assignWeights g order = .error e) :
    (∃ n ∈ g.nodes, RPath g n.uniqueLabel n.uniqueLabel) ∨
    (∃ n ∈ g.nodes, nodeType g n.uniqueLabel = .operator ∧ nodeLabel g n.uniqueLabel ≠ "union" ∧
      Conn g n.uniqueLabel n.uniqueLabel) ∨
    (∃ n ∈ g.nodes, isTerminal (nodeType g n.uniqueLabel) = false ∧ ∀ T, ¬ HasT g n.uniqueLabel T) :=
  rejected_ill_founded g (noPHTypesB_sound g (built_graph_noPHTypes m g hb hph)) (built_graph_closed m g hb)
    (built_graph_srcOK_edges m g hb) (hopOKB_sound g (built_graph_hopOK m g hb hnames)) order e h

theorem algorithm_rejected_not_well_founded_on_built_graphs (m : FgaVerif.Model.Model) (g : G) (hb : build m = .ok g)
    (hnames : NamesOkW m = true) (hph : PHNamesOkW m = true) (order : List String) (e : AErr)
    (h : assignWeights g order = .error e) : ¬ WellFoundedG g :=
  not_wellFounded_of_just (fun he => assignWeights_fuel_suffices g order (he ▸ h))
    (assignWeights_error_justified g (noPHTypesB_sound g (built_graph_noPHTypes m g hb hph)) (built_graph_closed m g hb)
      (built_graph_srcOK_edges m g hb) (hopOKB_sound g (built_graph_hopOK m g hb hnames)) order e h)

/-- **accepted iff well-founded on built graphs**; the one hypothesis on the graph that is left is `allGoodB` (every
    operator is a union, an intersection or an exclusion with two edges), which is *not* a theorem for built graphs:
    `thisButNotThis` builds `oneEdgeExclusion`. -/
theorem algorithm_accepts_iff_well_founded_on_built_graphs (m : FgaVerif.Model.Model) (g : G) (hb : build m = .ok g)
    (hnames : NamesOkW m = true) (hph : PHNamesOkW m = true) (hgood : allGoodB g = true) (order : List String) :
    (∃ st, assignWeights g order = .ok st) ↔ WellFoundedG g :=
  accepted_iff_wellFoundedG g (noPHTypesB_sound g (built_graph_noPHTypes m g hb hph)) (built_graph_closed m g hb)
    (built_graph_srcOK_edges m g hb) (hopOKB_sound g (built_graph_hopOK m g hb hnames)) (allGoodB_sound g hgood) order

/-! non-vacuity: `thisButNotThis` (`define a: [user] but not [user]`) satisfies the three hypotheses on names, it builds,
    the port rejects the built graph, and the corollary yields that it is not well-founded -/
example : NamesOkW thisButNotThis = true ∧ TermNamesOkW thisButNotThis = true ∧ PHNamesOkW thisButNotThis = true := by
  decide +kernel
theorem thisButNotThis_builds : build thisButNotThis = .ok oneEdgeExclusion :=
  hop_built_of_check _ _ (by decide +kernel)
example : ¬ WellFoundedG oneEdgeExclusion :=
  algorithm_rejected_not_well_founded_on_built_graphs thisButNotThis oneEdgeExclusion thisButNotThis_builds
    (by decide +kernel) (by decide +kernel) [] .modelCycle (verdict_error (by decide +kernel))
example : hopOKB oneEdgeExclusion = true ∧ termSinkB oneEdgeExclusion = true ∧ noPHTypesB oneEdgeExclusion = true :=
  ⟨built_graph_hopOK thisButNotThis _ thisButNotThis_builds (by decide +kernel),
   built_graph_termSink thisButNotThis _ thisButNotThis_builds (by decide +kernel),
   built_graph_noPHTypes thisButNotThis _ thisButNotThis_builds (by decide +kernel)⟩

/-- the hypothesis of `built_graph_hopOK` is needed.  `define a: [union:0] or …` (a restriction on a type spelled
    `union:0`, reachable through the JSON form only): the operator node `union:0` exists when the restriction is read,
    `GetOrAddNode` returns it, and the direct edge `union:0 → union:0` ends in an operator. -/
def hopNameClash : FgaVerif.Model.Model := { schema := "1.1", types := [
  { name := "doc", relations := [("a", .union [.this])],
    md := some { relations := [("a", { restr := [{ type := "union:0" }] })] } }] }
example : NamesOkW hopNameClash = false ∧ TermNamesOkW hopNameClash = false ∧ PHNamesOkW hopNameClash = true ∧
    (match build hopNameClash with | .ok g => hopOKB g | .error _ => true) = false := by decide +kernel

/-- the hypothesis of `built_graph_termSink` is needed: a restriction on a type spelled `a#b`, read before the relation
    `b` of type `a` is defined, makes `a#b` a type node — with the outgoing edges of the relation -/
def termNameClash : FgaVerif.Model.Model := { schema := "1.1", types := [
  { name := "a", relations := [("0", .this), ("b", .this)],
    md := some { relations := [("0", { restr := [{ type := "a#b" }] }), ("b", { restr := [{ type := "user" }] })] } },
  { name := "user" }] }
example : TermNamesOkW termNameClash = false ∧ NamesOkW termNameClash = true ∧ PHNamesOkW termNameClash = true ∧
    (match build termNameClash with | .ok g => termSinkB g | .error _ => true) = false := by decide +kernel

/-- the hypothesis of `built_graph_noPHTypes` is needed: a type spelled `R#x` -/
def phNameClash : FgaVerif.Model.Model := { schema := "1.1", types := [
  { name := "R#x" },
  { name := "doc", relations := [("a", .this)],
    md := some { relations := [("a", { restr := [{ type := "R#x" }] })] } }] }
example : PHNamesOkW phNameClash = false ∧ NamesOkW phNameClash = true ∧
    (match build phNameClash with | .ok g => noPHTypesB g | .error _ => true) = false := by decide +kernel

end built

end FgaVerif.Props.C05
