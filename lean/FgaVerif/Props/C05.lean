import FgaVerif.Proofs.Weights
import FgaVerif.Proofs.ReachComplete
import FgaVerif.Proofs.WeightsCongr
import FgaVerif.Proofs.WAssignCycle
import FgaVerif.Proofs.WGraphDst
import FgaVerif.Proofs.WAssignPost
/-! # C05 — a model is accepted iff it is well-founded (specification side)

    As for C04, `Spec/Weights.lean` is a specification the real verdict is compared with under every
    forced traversal order; the Go algorithm is ported separately (`Model/WAssign.lean`) and not proved equal to it.  The theorems state that the
    specification's verdict is the one the property describes.

    Proved for every specification graph:
    * `accepted_iff_no_reject` and `accepted_means` — a graph is accepted iff no node lies on a cycle of
      rewrite (tuple-free) edges, no intersection or exclusion lies on any cycle, and every node reaches
      a terminal user type (non-empty weight map, which also covers an intersection whose operands
      share no type and a TTU over an unrestricted tupleset).
    * `rewrite_only_cycle_never_passes` — a graph that contains a node on a rewrite-only cycle is
      rejected, whatever else it contains.
    * `cycle_flag_sound` — the cycle test never reports a cycle that is not there: if it fires there is
      a walk of at least one edge from the node back to itself (through rewrite edges only when hops are
      excluded).

    * `cycle_flag_exact`, `rewrite_cycle_rejected_iff_exists` — on a graph in which every referenced
      node exists (`Closed`; evaluated by the driver on every input) the cycle test is also complete:
      it fires **iff** there is a walk of at least one edge from the node back to itself, so a graph is
      rejected for a rewrite cycle iff one exists.

    * `no_terminal_iff_unreached`, `accepted_iff_well_founded` — with the semantic reading of the
      weights (`Spec/WeightsSem.lean`, Props/C04) the third clause no longer mentions the computed
      weights at all: on a closed graph whose iteration converged (both evaluated per input), a graph
      is accepted **iff** no node lies on a tuple-free cycle, no intersection or exclusion lies on any
      cycle, and every node is reached by some terminal user type (`HasType`: through any operand of a
      relation/union, every operand of an intersection, the base of an exclusion).

    And one clause about the **algorithm itself** (the port `Model/WAssign.lean` of `AssignWeights`, tied
    to the code per forced start order by the stream `corr:wassign`):
    * `algorithm_rejects_rewrite_cycles` — if some node of the built graph lies on a cycle of rewrite
      and computed edges, the assignment returns the model-cycle error **for every start order**: the
      three-colour depth-first pre-pass is complete (`Proofs/WAssignCycle.lean`: the finished nodes form
      a topological list, and a topological list contains no node on a cycle);
      `algorithm_prepass_complete` is the contrapositive, and `algorithm_prepass_sound` the converse on
      graphs whose rewrite/computed edges end in nodes of the graph (`rclosedB`, evaluated by the driver on
      every built graph): the pre-pass fires only if a cycle
      exists (the chain of nodes in progress closes it), so it decides the question exactly;
      `built_graph_closed` shows every graph that comes out of the (ported) construction is closed
      (`Proofs/WGraphDst.lean`, an invariant through `GetOrAddNode`/`AddEdge`/`UpsertEdge` and the
      recursion over the rewrite), hence `algorithm_prepass_exact_on_built_graphs` with no hypothesis.

    * `algorithm_accepted_relations_reach_a_type` — the contrapositive of "a relation that can reach no
      terminal user type at all is rejected", for the port and every start order: if the assignment
      succeeds, every relation of the graph carries at least one weight entry, and (no terminal type being
      named `R#…`) that entry is keyed by something that is not a cycle placeholder
      (`Proofs/WAssignPost.lean`; that the key is a terminal type the relation reaches is not proved).

    Not proved: that the port's verdict equals the specification's in general. -/
namespace FgaVerif.Props.C05
open FgaVerif.Spec.Weights

theorem accepted_iff_no_reject (g : SGraph) : wellFounded g = true ↔ rejects g = [] := by
  unfold wellFounded; simp

theorem accepted_means (g : SGraph) :
    wellFounded g = true ↔
      (∀ n ∈ g, onCycle g false n.name = false) ∧
      (∀ n ∈ g, (n.kind = .inter ∨ n.kind = .diff) → onCycle g true n.name = false) ∧
      (∀ n ∈ g, (stateGet (weights g) n.name).isEmpty = false) := by
  unfold wellFounded rejects
  simp only [List.isEmpty_iff, List.append_eq_nil_iff, List.map_eq_nil_iff, List.filter_eq_nil_iff]
  constructor
  · rintro ⟨⟨h1, h2⟩, h3⟩
    refine ⟨fun n hn => by simpa using h1 n hn, ?_, fun n hn => by simpa using h3 n hn⟩
    intro n hn hk
    have := h2 n hn
    rcases hk with hk | hk <;> simpa [hk] using this
  · rintro ⟨h1, h2, h3⟩
    refine ⟨⟨fun n hn => by simp [h1 n hn], ?_⟩, fun n hn => by simpa using h3 n hn⟩
    intro n hn
    by_cases hk : n.kind = .inter ∨ n.kind = .diff
    · simp [h2 n hn hk]
    · have h1' : (n.kind == Kind.inter) = false := by simpa using fun e => hk (Or.inl e)
      have h2' : (n.kind == Kind.diff) = false := by simpa using fun e => hk (Or.inr e)
      simp [h1', h2']

theorem rewrite_only_cycle_never_passes (g : SGraph) (n : Node) (hn : n ∈ g)
    (hc : onCycle g false n.name = true) : wellFounded g = false := by
  cases h : wellFounded g with
  | false => rfl
  | true =>
    have := ((accepted_means g).1 h).1 n hn
    rw [hc] at this; cases this

theorem operator_on_cycle_never_passes (g : SGraph) (n : Node) (hn : n ∈ g)
    (hk : n.kind = .inter ∨ n.kind = .diff) (hc : onCycle g true n.name = true) : wellFounded g = false := by
  cases h : wellFounded g with
  | false => rfl
  | true =>
    have := ((accepted_means g).1 h).2.1 n hn hk
    rw [hc] at this; cases this

theorem cycle_flag_sound (g : SGraph) (hopOk : Bool) (n : String) (h : onCycle g hopOk n = true) :
    ∃ s, Succ g hopOk n s ∧ Reach g hopOk s n := onCycle_sound g hopOk n h

theorem cycle_flag_exact (g : SGraph) (hc : Closed g) (hopOk : Bool) (n : String) :
    onCycle g hopOk n = true ↔ ∃ s, Succ g hopOk n s ∧ Reach g hopOk s n :=
  ⟨onCycle_sound g hopOk n, fun ⟨s, hs, hr⟩ => onCycle_complete g hc hopOk n s hs hr⟩

/-- a closed graph with a tuple-free cycle through one of its nodes is never accepted -/
theorem rewrite_cycle_rejected_iff_exists (g : SGraph) (hc : Closed g) (n : Node) (hn : n ∈ g)
    (s : String) (hs : Succ g false n.name s) (hr : Reach g false s n.name) : wellFounded g = false :=
  rewrite_only_cycle_never_passes g n hn (onCycle_complete g hc false n.name s hs hr)

theorem isEmpty_iff_no_key (w : WMap) : w.isEmpty = true ↔ ∀ T, lookupW T w = none := by
  cases w with
  | nil => simp [lookupW]
  | cons kv rest =>
    obtain ⟨k, v⟩ := kv
    simp only [List.isEmpty_cons, Bool.false_eq_true, false_iff]
    intro h
    have := h k
    simp [lookupW] at this

/-- a node is rejected for reaching no terminal type iff no terminal type reaches it -/
theorem no_terminal_iff_unreached (g : SGraph) (hg : Converged g) (n : String) :
    (stateGet (weights g) n).isEmpty = true ↔ ∀ T, ¬ HasType g T n := by
  rw [isEmpty_iff_no_key]
  constructor
  · intro h T hT
    have := (lookup_some_iff g hg n T).2 hT
    rw [h T] at this; cases this
  · intro h T
    cases hl : lookupW T (stateGet (weights g) n) with
    | none => rfl
    | some v => exact absurd ((lookup_some_iff g hg n T).1 (by simp [hl])) (h T)

/-- **accepted iff well-founded**, with no reference to the computation -/
theorem accepted_iff_well_founded (g : SGraph) (hc : Closed g) (hg : Converged g) :
    wellFounded g = true ↔
      (∀ n ∈ g, ¬ ∃ s, Succ g false n.name s ∧ Reach g false s n.name) ∧
      (∀ n ∈ g, (n.kind = .inter ∨ n.kind = .diff) → ¬ ∃ s, Succ g true n.name s ∧ Reach g true s n.name) ∧
      (∀ n ∈ g, ∃ T, HasType g T n.name) := by
  rw [accepted_means]
  constructor
  · rintro ⟨h1, h2, h3⟩
    refine ⟨?_, ?_, ?_⟩
    · intro n hn hex
      have := (cycle_flag_exact g hc false n.name).2 hex
      rw [h1 n hn] at this; cases this
    · intro n hn hk hex
      have := (cycle_flag_exact g hc true n.name).2 hex
      rw [h2 n hn hk] at this; cases this
    · intro n hn
      have hne := h3 n hn
      cases hw : stateGet (weights g) n.name with
      | nil => rw [hw] at hne; cases hne
      | cons kv rest =>
        refine ⟨kv.1, (lookup_some_iff g hg n.name kv.1).1 ?_⟩
        rw [hw]; simp [lookupW]
  · rintro ⟨h1, h2, h3⟩
    refine ⟨?_, ?_, ?_⟩
    · intro n hn
      cases hcyc : onCycle g false n.name with
      | false => rfl
      | true => exact absurd ((cycle_flag_exact g hc false n.name).1 hcyc) (h1 n hn)
    · intro n hn hk
      cases hcyc : onCycle g true n.name with
      | false => rfl
      | true => exact absurd ((cycle_flag_exact g hc true n.name).1 hcyc) (h2 n hn hk)
    · intro n hn
      cases he : (stateGet (weights g) n.name).isEmpty with
      | false => rfl
      | true =>
        obtain ⟨T, hT⟩ := h3 n hn
        exact absurd hT ((no_terminal_iff_unreached g hg n.name).1 he T)

/-- the ported pre-pass is complete: "no cycle" means no node of the graph is on a rewrite-only cycle -/
theorem algorithm_prepass_complete (g : FgaVerif.Model.WGraph.G)
    (h : FgaVerif.Model.WAssign.hasRewriteOnlyCycle g = false) :
    ∀ n ∈ g.nodes, ¬ FgaVerif.Model.WAssign.RPath g n.uniqueLabel n.uniqueLabel :=
  FgaVerif.Model.WAssign.no_cycle_of_prepass g h

/-- the ported pre-pass is sound on a graph whose rewrite/computed edges end in nodes of the graph (what
    the builder produces): it reports a cycle only if one exists (fuel cannot run out: the chain of nodes
    in progress has no repetition and stays inside the graph) -/
theorem algorithm_prepass_sound (g : FgaVerif.Model.WGraph.G) (hcl : FgaVerif.Model.WAssign.rclosedB g = true)
    (h : FgaVerif.Model.WAssign.hasRewriteOnlyCycle g = true) : ∃ x, FgaVerif.Model.WAssign.RPath g x x :=
  FgaVerif.Model.WAssign.cycle_of_prepass g (FgaVerif.Model.WAssign.rclosedB_sound g hcl) h

/-- a built graph is closed: every edge ends in one of its nodes (an invariant of the construction,
    `Proofs/WGraphDst.lean`), so no run-time hypothesis is needed for graphs that come out of `build` -/
theorem built_graph_closed (m : FgaVerif.Model.Model) (g : FgaVerif.Model.WGraph.G)
    (h : FgaVerif.Model.WGraph.build m = .ok g) : FgaVerif.Model.WAssign.RClosed g := by
  intro x y hs
  unfold FgaVerif.Model.WAssign.RStep FgaVerif.Model.WAssign.rewriteSuccs at hs
  obtain ⟨e, he, rfl⟩ := List.mem_map.1 hs
  exact FgaVerif.Model.WGraph.build_dst m g h x e (List.mem_filter.1 he).1

/-- **on every graph the builder produces, the pre-pass decides exactly whether a node lies on a cycle
    of rewrite and computed edges** — independently of any order -/
theorem algorithm_prepass_exact_on_built_graphs (m : FgaVerif.Model.Model) (g : FgaVerif.Model.WGraph.G)
    (h : FgaVerif.Model.WGraph.build m = .ok g) :
    FgaVerif.Model.WAssign.hasRewriteOnlyCycle g = true ↔
      ∃ n ∈ g.nodes, FgaVerif.Model.WAssign.RPath g n.uniqueLabel n.uniqueLabel := by
  constructor
  · intro hp
    obtain ⟨x, hx⟩ := FgaVerif.Model.WAssign.cycle_of_prepass g (built_graph_closed m g h) hp
    obtain ⟨z, hz⟩ := hx.last
    have hxl := built_graph_closed m g h z x hz
    obtain ⟨n, hn, rfl⟩ := List.mem_map.1 hxl
    exact ⟨n, hn, hx⟩
  · rintro ⟨n, hn, hc⟩
    cases hb : FgaVerif.Model.WAssign.hasRewriteOnlyCycle g with
    | true => rfl
    | false => exact absurd hc (FgaVerif.Model.WAssign.no_cycle_of_prepass g hb n hn)

/-- **rewrite-only cycles never pass the (ported) algorithm, whatever the start order** -/
theorem algorithm_rejects_rewrite_cycles (g : FgaVerif.Model.WGraph.G) (n : FgaVerif.Model.WGraph.WNode)
    (hn : n ∈ g.nodes) (hc : FgaVerif.Model.WAssign.RPath g n.uniqueLabel n.uniqueLabel) (order : List String) :
    FgaVerif.Model.WAssign.assignWeights g order = .error .modelCycle :=
  FgaVerif.Model.WAssign.rewrite_cycle_rejected g n hn hc order

/-! ### non-vacuity: `define a: b`, `define b: a or [user]` is rejected; without the back edge accepted -/
def cyc : SGraph := [
  ⟨"doc#a", .rel, [⟨.node "doc#b", false, ""⟩]⟩,
  ⟨"doc#b", .rel, [⟨.node "doc#b@0", false, ""⟩]⟩,
  ⟨"doc#b@0", .union, [⟨.node "doc#a", false, ""⟩, ⟨.type "user", true, ""⟩]⟩]
def acyc : SGraph := [
  ⟨"doc#a", .rel, [⟨.node "doc#b", false, ""⟩]⟩,
  ⟨"doc#b", .rel, [⟨.type "user", true, ""⟩]⟩]

example : onCycle cyc false "doc#a" = true ∧ wellFounded cyc = false := by decide
example : wellFounded acyc = true := by decide
example : Converged acyc ∧ Converged cyc ∧ closedB acyc = true ∧ closedB cyc = true := by unfold Converged; decide

/-- `define a: b`, `define b: a or [user]` as a built graph: `doc#a → doc#b → union → doc#a` is a cycle of
    computed and rewrite edges -/
def cycG : FgaVerif.Model.WGraph.G := {
  nodes := [⟨"doc#a", "doc#a", .typeAndRelation⟩, ⟨"doc#b", "doc#b", .typeAndRelation⟩, ⟨"union:0", "union", .operator⟩,
            ⟨"user", "user", .specificType⟩],
  edges := [("doc#a", [⟨"doc#a", "doc#b", .computed, "", ["none"]⟩]),
            ("doc#b", [⟨"doc#b", "union:0", .rewrite, "", ["none"]⟩]),
            ("union:0", [⟨"union:0", "doc#a", .computed, "", ["none"]⟩, ⟨"union:0", "user", .direct, "", ["none"]⟩])] }

example : FgaVerif.Model.WAssign.RPath cycG "doc#a" "doc#a" :=
  .cons (y := "doc#b") (by unfold FgaVerif.Model.WAssign.RStep; decide)
    (.cons (y := "union:0") (by unfold FgaVerif.Model.WAssign.RStep; decide)
      (.one (by unfold FgaVerif.Model.WAssign.RStep; decide)))
example : (match FgaVerif.Model.WAssign.assignWeights cycG ["union:0"] with
    | .error e => e == .modelCycle | .ok _ => false) = true := by decide +kernel

/-- **a relation that reaches no terminal type never passes the (ported) algorithm**: after a successful
    assignment, whatever the start order, every relation has a weight entry whose key is not a placeholder -/
theorem algorithm_accepted_relations_reach_a_type (g : FgaVerif.Model.WGraph.G)
    (hn : FgaVerif.Model.WAssign.noPHTypesB g = true) (order : List String) (st : FgaVerif.Model.WAssign.AState)
    (h : FgaVerif.Model.WAssign.assignWeights g order = .ok st) (n : FgaVerif.Model.WGraph.WNode) (hmem : n ∈ g.nodes)
    (hk : FgaVerif.Model.WAssign.nodeType g n.uniqueLabel = .typeAndRelation) :
    ∃ k v, (k, v) ∈ FgaVerif.Model.WAssign.aget n.uniqueLabel st.nodeW ∧ k.startsWith "R#" = false ∧ 1 ≤ v := by
  have hne := (FgaVerif.Model.WAssign.assignWeights_nonempty g order st h).1 n hmem (Or.inl hk)
  have hc := FgaVerif.Model.WAssign.assignWeights_clean g (FgaVerif.Model.WAssign.noPHTypesB_sound g hn) order st h
  have hp := (FgaVerif.Model.WAssign.assignWeights_nonempty g order st h).2.1
  cases hw : FgaVerif.Model.WAssign.aget n.uniqueLabel st.nodeW with
  | nil => exact absurd hw hne
  | cons p rest =>
    have hmem' : p ∈ FgaVerif.Model.WAssign.aget n.uniqueLabel st.nodeW := by rw [hw]; exact List.mem_cons_self ..
    exact ⟨p.1, p.2, List.mem_cons_self .., hc.node n.uniqueLabel p.1 ⟨p.2, hmem'⟩, hp _ p hmem'⟩

/-- non-vacuity: `define a: [doc#a]` (a cycle that leads nowhere) is rejected; `define a: [user, doc#a]` is accepted -/
def nowhere : FgaVerif.Model.WGraph.G := {
  nodes := [⟨"doc#a", "doc#a", .typeAndRelation⟩],
  edges := [("doc#a", [⟨"doc#a", "doc#a", .direct, "", ["none"]⟩])] }
def somewhere : FgaVerif.Model.WGraph.G := {
  nodes := [⟨"doc#a", "doc#a", .typeAndRelation⟩, ⟨"user", "user", .specificType⟩],
  edges := [("doc#a", [⟨"doc#a", "user", .direct, "", ["none"]⟩, ⟨"doc#a", "doc#a", .direct, "", ["none"]⟩])] }
example : (match FgaVerif.Model.WAssign.assignWeights nowhere [] with
    | .error e => e == .invalidModel | .ok _ => false) = true := by decide +kernel
example : FgaVerif.Model.WAssign.noPHTypesB somewhere = true ∧
    (match FgaVerif.Model.WAssign.assignWeights somewhere [] with
      | .ok st => FgaVerif.Model.WAssign.aget "doc#a" st.nodeW | .error _ => []) = [("user", 2147483647)] := by
  decide +kernel

end FgaVerif.Props.C05
