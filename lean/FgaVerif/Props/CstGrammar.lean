import FgaVerif.Proofs.CstDerives
import FgaVerif.Props.Front
import FgaVerif.Props.C03Doc
/-!
# The typed concrete syntax trees are sound for the grammar of this run

## What is tied together

* `Model/Cst.lean` and `Model/CstDoc.lean` are **hand-written**: typed concrete syntax trees (`Ident`, `Restr`,
  `Direct`, `Rw`, `DefND`/`ItemND`/`RecND`/`Partials`/`Items`, `Def`/`First`/`Rec`, `Decl`, `TypeDefCst`,
  `ParamCst`, `CondCst`, `HeaderCst`, `DocCst`) meant to mirror the rules of `OpenFGAParser.g4` with every
  layout choice, and their `.tree` functions, meant to be the parse trees ANTLR builds (children in grammar
  order, label fields `relationDefTypeRestrictionType`, `…Wildcard`, `…Relation`, `rewriteComputedusersetName`,
  `rewriteTuplesetName`, `typeName`, `schemaVersion`, `moduleName` as child indices).  The theorems of C02/C03
  (`Props/C03Doc.lean`: the listener returns exactly the denoted model for every layout) quantify over
  these trees.  Nothing there says that they are trees of the grammar.
* `Gen/Grammar.lean` is **regenerated from `OpenFGAParser.g4` on every run**, and `Proofs/GParseSound.lean` gives
  rule bodies a declarative meaning: `Derives rules toks n t p q` — `t` is a derivation tree of rule `n` for
  the tokens `p, …, q-1` of `toks` (children, label fields and start position included).

Here: **every grammatical CST is a derivation tree, by the regenerated grammar, of exactly its own token
sequence** (`toksOf`: the terminals of the tree in order), for the rules extended_identifier, identifier,
relationDefTypeRestrictionBase, relationDefTypeRestriction, conditionName, relationDefDirectAssignment,
relationDefRewrite, relationDefGrouping, relationRecurseNoDirect, relationDefNoDirect, relationDefPartials,
relationRecurse, relationDef, relationName, relationDeclaration, typeDef, typeDefs, parameterName,
parameterType, conditionParameter, conditionExpression, condition, conditions, modelHeader, moduleHeader and
main (`Proofs/CstDerives.lean`, one lemma per rule, by structural induction on the CST; the rule bodies are
the closed terms `Gen.Grammar.r_*`, looked up in `Gen.Grammar.rules` by computation).  The proofs construct the
derivation alternative by alternative and label by label, so a change of the `.g4` that moves, adds or removes
an element of one of these rules, reorders alternatives that the proofs select by position, or renames a label
breaks them: the statement is re-checked against whatever the grammar says on this run.

"Grammatical" is the decidable side condition `gramWfDecl` / `gramWfDoc`; the CST types are more permissive
than the grammar in exactly these places:

* `Ident.tokenType` is an arbitrary string: it must be one of MODEL, SCHEMA, TYPE, RELATION, IDENTIFIER,
  MODULE, EXTEND when the token goes through rule `identifier` (`viaIdentifier`, and the module name of a
  module header), and EXTENDED_IDENTIFIER when it stands directly under `extended_identifier`;
* `Partials` allows any number of operands for every operator: `but not` takes exactly one (`or`/`and`: one
  or more); the pseudo-operator `Op.none` prints OR tokens and is harmless for the grammar (it is excluded by
  `Def.wf`, which the listener theorems need — `Def.wf` does *not* restrict `but not` to one operand);
* the expression of a condition is an arbitrary list of `(token type, text)`: no token may be RBRACE or EOF
  (`conditionExpression` is `(… | ~RBRACE)*` and a `~` set never matches EOF).

These conditions are **exactly** what is needed (`decl_derives_gramWf`, `doc_derives_gramWf`,
`doc_tree_derives_iff`): a CST whose tree is a derivation tree — over any token array, at any span — satisfies
them.  (Proof: every rule context inside a derivation tree is itself a derivation tree, `derives_allDer`; the
bodies of `identifier`, `extended_identifier`, `conditionExpression` and `relationDefPartials` are inverted.)

Token *texts* are not constrained (the parser grammar only sees token types), so e.g. empty white space
strings are fine.  **No mismatch** between the `.tree` functions and the grammar was found: under the side
condition every child order, optional element and label index of the hand-written trees is what the rule
bodies prescribe.

With the completeness of the parser model (`Props/Front.lean`) this gives `doc_tokens_accepted`: the token
sequence of every grammatical document, in every layout the CST can express, is accepted by the parser model
(it never answers `noParse`) — C03's "every grammatical layout parses", at token level.

## What is not said

* That the tree the parser (model or ANTLR) *returns* for these tokens is this very tree.  The grammar is
  ambiguous in places — `( x )` is a `relationRecurse` whose content is a `relationDef` or a
  `relationRecurseNoDirect`; a NEWLINE before `}` can belong to `conditionExpression` or to `condition`; a
  trailing NEWLINE can be attached at several points of `main` — and the CST can express several of the
  derivations of one token sequence.  Which one ANTLR picks is checked by running it (`Driver.lean`).
* That the lexer produces these tokens from the text of the document (`Props/C16.lean`, `Model/LexSim.lean`).
* Anything about the `multiLineComment` options of the rules: the CST leaves them out (comments are removed by
  a pre-pass), the derivations constructed here always take the empty option.
-/
namespace FgaVerif.Props.CstGrammar
open FgaVerif.Model FgaVerif.Model.Conform FgaVerif.Model.GParse FgaVerif.Model.Cst
open FgaVerif.Proofs.GParseSound
open FgaVerif.Proofs.CstDerives (toksOf toksOfL gramWfDecl gramWfDoc gwfTypeDef gwfCond gwfIdent gwfDef gwfHeader
  identTys)

/-- the side condition on a relation declaration, spelled out: the name and the body are grammatical -/
theorem gramWfDecl_eq (d : Decl) : gramWfDecl d = (gwfIdent d.name && gwfDef d.body) := rfl

/-- the side condition on a document, spelled out -/
theorem gramWfDoc_eq (d : DocCst) :
    gramWfDoc d = (gwfHeader d.header && d.types.all gwfTypeDef && d.conds.all gwfCond) := rfl

theorem gwfTypeDef_eq (t : TypeDefCst) : gwfTypeDef t = (gwfIdent t.name && t.decls.all gramWfDecl) := rfl

theorem gwfCond_eq (c : CondCst) : gwfCond c = c.expr.all (fun x => x.1 != "RBRACE" && x.1 != "EOF") := rfl

theorem gwfIdent_eq (i : Ident) :
    gwfIdent i = (if i.viaIdentifier then
        ["MODEL", "SCHEMA", "TYPE", "RELATION", "IDENTIFIER", "MODULE", "EXTEND"].contains i.tokenType
      else i.tokenType == "EXTENDED_IDENTIFIER") := rfl

/-- **every grammatical relation-declaration CST is a derivation tree of `relationDeclaration`** by the
    grammar of this run: wherever the tokens of `Decl.tree d` stand in a token array (`pre ++ tokens ++ post`,
    any `pre`, `post`), the tree derives them. -/
theorem decl_tree_derives (d : Decl) (h : gramWfDecl d = true) (toks : Array Tok) (p : Nat)
    (hslice : (toks.toList.drop p).take (toksOf (Decl.tree d)).length = toksOf (Decl.tree d)) :
    Derives FgaVerif.Gen.Grammar.rules toks "relationDeclaration" (Decl.tree d) p
      (p + (toksOf (Decl.tree d)).length) :=
  FgaVerif.Proofs.CstDerives.decl_tree_derives d h toks p hslice

/-- every grammatical type-definition CST is a derivation tree of `typeDef` -/
theorem typeDef_tree_derives (t : TypeDefCst) (h : gwfTypeDef t = true) (toks : Array Tok) (p : Nat)
    (hslice : (toks.toList.drop p).take (toksOf t.tree).length = toksOf t.tree) :
    Derives FgaVerif.Gen.Grammar.rules toks "typeDef" t.tree p (p + (toksOf t.tree).length) :=
  FgaVerif.Proofs.CstDerives.typeDef_tree_derives t h toks p hslice

/-- every grammatical condition CST is a derivation tree of `condition` -/
theorem cond_tree_derives (c : CondCst) (h : gwfCond c = true) (toks : Array Tok) (p : Nat)
    (hslice : (toks.toList.drop p).take (toksOf c.tree).length = toksOf c.tree) :
    Derives FgaVerif.Gen.Grammar.rules toks "condition" c.tree p (p + (toksOf c.tree).length) :=
  FgaVerif.Proofs.CstDerives.cond_tree_derives c h toks p hslice

/-- **every grammatical document CST is a derivation tree of `main`** over exactly its own tokens -/
theorem doc_tree_derives (d : DocCst) (h : gramWfDoc d = true) :
    Derives FgaVerif.Gen.Grammar.rules (toksOf (DocCst.tree d)).toArray "main" (DocCst.tree d) 0
      (toksOf (DocCst.tree d)).length :=
  FgaVerif.Proofs.CstDerives.doc_tree_derives d h

/-- **the side condition is necessary** (relation declarations): if the tree of a CST is a derivation tree of
    `relationDeclaration`, over any token array and span, the CST is grammatical -/
theorem decl_derives_gramWf (d : Decl) (toks : Array Tok) (p q : Nat)
    (h : Derives FgaVerif.Gen.Grammar.rules toks "relationDeclaration" (Decl.tree d) p q) : gramWfDecl d = true :=
  FgaVerif.Proofs.CstDerives.decl_derives_gramWf d toks p q h

/-- **the side condition is necessary** (documents) -/
theorem doc_derives_gramWf (d : DocCst) (toks : Array Tok) (p q : Nat)
    (h : Derives FgaVerif.Gen.Grammar.rules toks "main" (DocCst.tree d) p q) : gramWfDoc d = true :=
  FgaVerif.Proofs.CstDerives.doc_derives_gramWf d toks p q h

/-- **`gramWfDoc` is exactly the condition under which the hand-written tree is a tree of the grammar** -/
theorem doc_tree_derives_iff (d : DocCst) :
    gramWfDoc d = true ↔
      Derives FgaVerif.Gen.Grammar.rules (toksOf (DocCst.tree d)).toArray "main" (DocCst.tree d) 0
        (toksOf (DocCst.tree d)).length :=
  FgaVerif.Proofs.CstDerives.doc_tree_derives_iff d

/-- the same for relation declarations -/
theorem decl_tree_derives_iff (d : Decl) :
    gramWfDecl d = true ↔
      Derives FgaVerif.Gen.Grammar.rules (toksOf (Decl.tree d)).toArray "relationDeclaration" (Decl.tree d) 0
        (toksOf (Decl.tree d)).length :=
  FgaVerif.Proofs.CstDerives.decl_tree_derives_iff d

/-- **the tokens of every grammatical document, in every layout, are accepted by the parser model**: it does
    not answer `noParse` (it returns a derivation tree, or says `outOfFuel`) -/
theorem doc_tokens_accepted (d : DocCst) (h : gramWfDoc d = true) :
    parse FgaVerif.Gen.Grammar.rules "main" (toksOf (DocCst.tree d)).toArray ≠ .noParse := by
  apply FgaVerif.Props.Front.parse_complete _ _ _ (DocCst.tree d) (FgaVerif.Props.Front.grammar_plusProgress _)
  simpa using doc_tree_derives d h

/-- … so it returns a tree, which is a derivation of `main` over the same tokens, or says `outOfFuel` -/
theorem doc_tokens_parse (d : DocCst) (h : gramWfDoc d = true) :
    (∃ t, parse FgaVerif.Gen.Grammar.rules "main" (toksOf (DocCst.tree d)).toArray = .tree t ∧
        Derives FgaVerif.Gen.Grammar.rules (toksOf (DocCst.tree d)).toArray "main" t 0
          (toksOf (DocCst.tree d)).toArray.size) ∨
      parse FgaVerif.Gen.Grammar.rules "main" (toksOf (DocCst.tree d)).toArray = .outOfFuel := by
  rcases FgaVerif.Props.Front.parse_cases FgaVerif.Gen.Grammar.rules "main" (toksOf (DocCst.tree d)).toArray
    (FgaVerif.Props.Front.grammar_plusProgress _) with h1 | h2 | h3
  · exact Or.inl h1
  · exact Or.inr h2
  · exact absurd h3.1 (doc_tokens_accepted d h)

/-- the leaves of a CST tree are its tokens: consistent with `derives_yield` -/
theorem doc_tree_leaves (d : DocCst) (h : gramWfDoc d = true) :
    leaves (DocCst.tree d) = (toksOf (DocCst.tree d)).map tokTree := by
  have := (doc_tree_derives d h).yield.2
  simpa [slice] using this

/-! ### the theorems are not vacuous

The concrete documents of `Props/C03Doc.lean` — `doc1` (canonical layout), `doc2` (the same model with CRLF
line ends, blank lines, redundant parentheses, line breaks inside a restriction list, …) and `modDoc` (a module
file with an `extend`ed type) — are grammatical, hence derivation trees of `main` by the grammar of this run, and
their tokens are accepted by the parser model. -/

open FgaVerif.Props.C03Doc (doc1 doc2 modDoc)

example : gramWfDoc doc1 = true := by decide
example : gramWfDoc doc2 = true := by decide
example : gramWfDoc modDoc = true := by decide

example : Derives FgaVerif.Gen.Grammar.rules (toksOf (DocCst.tree doc1)).toArray "main" (DocCst.tree doc1) 0
    (toksOf (DocCst.tree doc1)).length := doc_tree_derives doc1 (by decide)
example : Derives FgaVerif.Gen.Grammar.rules (toksOf (DocCst.tree doc2)).toArray "main" (DocCst.tree doc2) 0
    (toksOf (DocCst.tree doc2)).length := doc_tree_derives doc2 (by decide)
example : Derives FgaVerif.Gen.Grammar.rules (toksOf (DocCst.tree modDoc)).toArray "main" (DocCst.tree modDoc) 0
    (toksOf (DocCst.tree modDoc)).length := doc_tree_derives modDoc (by decide)

example : parse FgaVerif.Gen.Grammar.rules "main" (toksOf (DocCst.tree doc2)).toArray ≠ .noParse :=
  doc_tokens_accepted doc2 (by decide)

/-- the token sequence of `modDoc`, for the record -/
example : (toksOf (DocCst.tree modDoc)).map (·.ty) =
    ["MODULE", "WHITESPACE", "IDENTIFIER",
     "NEWLINE", "EXTEND", "WHITESPACE", "TYPE", "WHITESPACE", "IDENTIFIER",
     "NEWLINE", "RELATIONS",
     "NEWLINE", "DEFINE", "WHITESPACE", "IDENTIFIER", "COLON", "WHITESPACE", "LBRACKET", "IDENTIFIER", "RPRACKET",
     "NEWLINE", "TYPE", "WHITESPACE", "IDENTIFIER",
     "NEWLINE", "EOF"] := by decide

/-! the side conditions do exclude something: `a but not b but not c`, an identifier token of type `DEFINE`,
    an `RBRACE` inside a condition expression -/

/-- `define r: a but not b but not c` as a CST -/
def butNotTwice : Decl := ⟨"\n", " ", C03Doc.idT "r", none, some " ",
    .mk (.rw ⟨C03Doc.idT "a", none⟩) (some (.mk .butNot
      (.cons " " " " (.rw ⟨C03Doc.idT "b", none⟩) (.one " " " " (.rw ⟨C03Doc.idT "c", none⟩)))))⟩

example : gramWfDecl butNotTwice = false := by decide

/-- … and its tree is not a derivation tree of `relationDeclaration`, over any tokens -/
example (toks : Array Tok) (p q : Nat) :
    ¬ Derives FgaVerif.Gen.Grammar.rules toks "relationDeclaration" (Decl.tree butNotTwice) p q :=
  fun h => absurd (decl_derives_gramWf _ toks p q h) (by decide)

example : gramWfDecl ⟨"\n", " ", ⟨true, "DEFINE", "define"⟩, none, some " ",
    .mk (.rw ⟨C03Doc.idT "a", none⟩) none⟩ = false := by decide

example : gramWfDoc { doc1 with conds := doc1.conds.map (fun c => { c with expr := [("RBRACE", "}")] }) } = false := by
  decide

end FgaVerif.Props.CstGrammar
