import FgaVerif.Model.PGraph
import FgaVerif.Proofs.PGraphBuild
import FgaVerif.Proofs.PGraphCycles
import FgaVerif.Proofs.PGraphFaithful
/-!
# C17 — plain model graph: faithful, reversible, stable DOT, sound path queries, label lookup

About the port of the plain graph (`Model/PGraph.lean`; gonum's multigraph is modelled by its observable
content: nodes with ids in creation order, lines with per-(from,to) ids in creation order; tied to the
code by correspondence on the node list, the line list in DOT order, the reversal, the double reversal,
the all-pairs reachability matrix and the two cycle flags).  Proved for **every** graph value:

* `reversed_flips` — reversing keeps the nodes, flips source and target of every line, keeps its id,
  kind and tupleset label, and toggles the drawing direction; nothing else changes;
* `reversed_involutive` — reversing twice gives back the identical graph, hence the identical list of
  lines in DOT order (`double_reversal_same_dot_lines`): the DOT text, a function of that content, is
  restored.  (This was false of the code before the `fix:` commit that re-adds the lines in id order.)
* `path_duality` — a path from a to b exists in the graph iff one exists from b to a in the reversed
  graph, for the declarative path relation `Path`.

* `built_graph_lines_valid` — every line of a graph built from a model connects nodes that exist (ids
  below the number of nodes): the builder only draws lines between nodes it has created;
* `path_query_exact`, `path_query_exact_reversed` — on such a graph the port's path query
  (`pathExistsIds`, a fuelled breadth-first search) answers true **iff** a path exists (`Path`), and
  likewise on the reversed graph: the search is sound, and complete because its fuel covers the potential
  `|work| + |nodes| − |seen|`, which decreases by one per step.

* cycle flags (`Proofs/PGraphCycles.lean`; `IsCycle g c`: `c = [s, x₁, …, xₖ, s]`, consecutive nodes joined
  by a line in the direction source → target, `s, x₁, …, xₖ` pairwise distinct; `k = 0` is a self loop,
  `c.length > 2` a cycle over two or more nodes; `IsMinCycle`: moreover `s` is the smallest node):
  - `cycles_listed_sound` — every cycle the port's enumeration (`allCycles`, the stand-in for gonum's
    `topo.DirectedCyclesIn`) lists is a simple cycle of the graph written from its smallest node;
  - `cycles_listed_complete`, `cycles_listed_exact`, `proper_cycle_iff_listed` — on a graph whose lines
    connect existing nodes (`LinesValid`, true of every built graph) every simple cycle, written from any of
    its nodes, is listed in the rotation that starts at its smallest node (the fuel `|nodes| + 1` suffices: a
    duplicate-free list of numbers below n has at most n elements); the list is exactly the set of
    `IsMinCycle`s;
  - `no_cycle_no_flags`, `acyclic_no_flags`, `acyclic_model_no_flags` — no self loop and no simple cycle over
    two or more nodes: both flags false (`some (false, false)`); `no_flags_no_cycle` is the converse.  With a
    self loop the port's flags are undefined (`cycle_flags_undefined_iff`: `none` iff a self loop exists —
    gonum's answer on self loops is outside the model);
  - `computed_cycle_flagged`, `computed_cycle_model_flagged` — if some simple cycle over two or more nodes is
    such that **every line of the graph between two of its nodes** is a computed line, the compile-time flag
    is set.  The hypothesis is about all lines among the cycle's nodes and not only the lines of the cycle
    because the classification (`nodeListHasNonComputedEdge`, as in the code) inspects every line from an
    earlier to a later position of the node list, parallel lines and chords included
    (`classification_exact`); `chord_defeats_compile_flag` below is a graph with a pure computed 3-cycle and
    a direct chord whose compile-time flag is false;
  - `flags_exact` — exact meaning of both flags on a `LinesValid` graph; `compile_flag_sound`,
    `compile_flag_computed_walk` — the compile-time flag is only set when a simple cycle over two or more
    nodes runs along computed lines only (no hypothesis on the graph).

* label lookup and faithfulness of the lines to the model (`Proofs/PGraphFaithful.lean`; `G.find?` is the port of
  `GetNodeByLabel`, a lookup by *unique* label).  For **every** model:
  - `built_graph_labels_unique`, `label_lookup_is_function` — unique labels are pairwise distinct and ids are
    positions, so a label finds `n` iff `n` is the node registered under it.
  For every model whose type names and restriction types contain no `#` and no `:` (`NamesOk`, decidable; needed:
  `mBad`, `mBadOp` below):
  - `label_lookup_finds_types_relations_wildcards` — every type name finds a type node, every defined `T#r` a
    relation node, every wildcard restriction `T:*` of a relation with a direct assignment a wildcard node;
  - `label_lookup_sound`, `label_lookup_plain_is_type`, `built_graph_nodes_from_model` — conversely a found node
    has the kind its label's syntax dictates, non-operators are displayed by that label and come from the model
    (`Prov`), operators are only found under `<operator>:<ordinal>`, never under their display label;
  - `direct_restriction_has_line`, `computed_operand_has_line`, `ttu_has_line`, `operator_has_line`,
    `built_graph_draws_every_type` — every occurrence (`Occ`) of a construct in the rewrite of `T#r` has its
    line(s): direct lines from each restriction's node, a computed (top level) or rewrite (under an operator) line
    from `T#x`, TTU lines labelled `T#ts` from `P#x` for each tupleset restriction type `P` that defines `x`
    (others are skipped), a rewrite line from each operator's own node; each to the node the construct hangs off
    (`ParentOf`: the relation node, or an operator node joined to it by a chain of rewrite lines).  These are
    existence statements: repeated restrictions share one direct / TTU line (`mDup`);
  - `computed_lines_count` — the rewrite/computed lines out of relation nodes are exactly as many as the
    computed-userset leaves of all rewrites;
  - `built_line_typed`, `lines_point_to_relations_or_operators` — conversely every line has the end-node kinds and
    tupleset label its kind dictates, and points to a relation or operator node (type and wildcard nodes are
    sources only: the graph is drawn from user types towards relations).
  Not proved: for each single line, *which* occurrence of which rewrite it stems from (only its typing and, for
  nodes, `Prov`); the count of direct and TTU lines (de-duplicated by design).

That gonum's `topo.PathExistsIn` gives the same answers as the port's search is validated by the
all-pairs correspondence, **not proved** (gonum is a parameter).  Likewise that gonum's
`topo.DirectedCyclesIn` (Johnson) yields, up to order and rotation, the cycles the port lists is validated by
the correspondence on the two flags, **not proved**; what is proved is that the port's list is the set of
simple cycles.  That a *model* whose relations form a cycle of computed usersets yields such a graph cycle is
shown on an example only (it needs well-formedness of the model: distinct type names without `#`, …).  DOT
text stability across builds is oracle/correspondence only (gonum's DOT writer is a parameter).
-/
namespace FgaVerif.Props.C17
open FgaVerif.Model.PGraph

theorem reversed_flips (g : G) :
    (reversed g).nodes = g.nodes ∧ (reversed g).listObjects = !g.listObjects ∧
    (reversed g).lines = g.lines.map (fun l => { l with src := l.dst, dst := l.src }) ∧
    (reversed g).lines.length = g.lines.length := by
  simp [reversed]

theorem reversed_involutive (g : G) : reversed (reversed g) = g := by
  cases g with
  | mk nodes lines lo oc =>
    simp only [reversed, List.map_map, Bool.not_not, G.mk.injEq, true_and, and_true]
    conv => rhs; rw [← List.map_id lines]
    apply List.map_congr_left
    intro l _
    cases l; rfl

theorem double_reversal_same_dot_lines (g : G) : dotLines (reversed (reversed g)) = dotLines g := by
  rw [reversed_involutive]

/-- there is a path (possibly empty) from `a` to `b` along lines -/
inductive Path (g : G) : Nat → Nat → Prop
  | refl (a : Nat) : Path g a a
  | step (a b c : Nat) : (∃ l ∈ g.lines, l.src = a ∧ l.dst = b) → Path g b c → Path g a c

theorem Path.trans {g : G} {a b c : Nat} (h1 : Path g a b) (h2 : Path g b c) : Path g a c := by
  induction h1 with
  | refl => exact h2
  | step a b _ hl _ ih => exact .step a b c hl (ih h2)

theorem Path.snoc {g : G} {a b c : Nat} (h1 : Path g a b) (hl : ∃ l ∈ g.lines, l.src = b ∧ l.dst = c) : Path g a c :=
  h1.trans (.step b c c hl (.refl c))

theorem line_reversed (g : G) (a b : Nat) :
    (∃ l ∈ (reversed g).lines, l.src = a ∧ l.dst = b) ↔ (∃ l ∈ g.lines, l.src = b ∧ l.dst = a) := by
  simp only [reversed, List.mem_map]
  constructor
  · rintro ⟨l, ⟨l0, hl0, rfl⟩, h1, h2⟩
    exact ⟨l0, hl0, h2, h1⟩
  · rintro ⟨l, hl, h1, h2⟩
    exact ⟨{ l with src := l.dst, dst := l.src }, ⟨l, hl, rfl⟩, h2, h1⟩

theorem path_reversed_of_path (g : G) (a b : Nat) (h : Path g a b) : Path (reversed g) b a := by
  induction h with
  | refl a => exact .refl a
  | step a b c hl _ ih => exact ih.snoc ((line_reversed g b a).2 hl)

/-- **path duality** -/
theorem path_duality (g : G) (a b : Nat) : Path g a b ↔ Path (reversed g) b a := by
  constructor
  · exact path_reversed_of_path g a b
  · intro h
    have := path_reversed_of_path (reversed g) b a h
    rwa [reversed_involutive] at this

/-! ## non-vacuity: a graph with two parallel lines of different kinds between the same nodes -/
def g0 : G :=
  { nodes := [⟨0, "doc", .specificType, "doc"⟩, ⟨1, "doc#a", .typeAndRelation, "doc#a"⟩],
    lines := [⟨0, 1, 0, .direct, ""⟩, ⟨0, 1, 1, .ttu, "doc#p"⟩] }
example : (reversed g0).lines = [⟨1, 0, 0, .direct, ""⟩, ⟨1, 0, 1, .ttu, "doc#p"⟩] := by decide
example : Path g0 0 1 := .step 0 1 1 ⟨⟨0, 1, 0, .direct, ""⟩, by simp [g0], rfl, rfl⟩ (.refl 1)
example : pathExistsIds g0 0 1 = true ∧ pathExistsIds (reversed g0) 1 0 = true ∧ pathExistsIds g0 1 0 = false := by
  decide

/-! ### the path query decides the path relation -/

theorem path_iff_reach (g : G) (a b : Nat) : Path g a b ↔ Reach g a b := by
  constructor
  · intro h
    induction h with
    | refl a => exact Reach.refl a
    | step a b c hl _ ih =>
      -- prepend one line to a reachability proof
      have hs : Succ g a b := (succ_iff_line g a b).2 hl
      have pre : ∀ {x y : Nat}, Reach g x y → ∀ w, Succ g w x → Reach g w y := by
        intro x y hxy
        induction hxy with
        | refl => intro w hw; exact Reach.step (Reach.refl w) hw
        | step _ hs2 ih2 => intro w hw; exact Reach.step (ih2 w hw) hs2
      exact pre ih a hs
  · intro h
    induction h with
    | refl => exact Path.refl _
    | step _ hs ih => exact Path.snoc ih ((succ_iff_line g _ _).1 hs)

theorem built_graph_lines_valid (m : FgaVerif.Model.Model) :
    ∀ l ∈ (build m).lines, l.src < (build m).nodes.length ∧ l.dst < (build m).nodes.length :=
  (build_lines_valid m).1

/-- **the path query of a built graph answers true iff a path exists** -/
theorem path_query_exact (m : FgaVerif.Model.Model) (a b : Nat) (ha : a < (build m).nodes.length) :
    pathExistsIds (build m) a b = true ↔ Path (build m) a b := by
  rw [pathExistsIds_iff (build m) (build_lines_valid m).1 a b ha, path_iff_reach]

theorem reversed_lines_valid (g : G) (h : LinesValid g) : LinesValid (reversed g) := by
  intro l hl
  unfold reversed at hl
  obtain ⟨l0, hl0, rfl⟩ := List.mem_map.1 hl
  have := h l0 hl0
  exact ⟨this.2, this.1⟩

/-- the same on the reversed graph -/
theorem path_query_exact_reversed (m : FgaVerif.Model.Model) (a b : Nat) (ha : a < (build m).nodes.length) :
    pathExistsIds (reversed (build m)) a b = true ↔ Path (reversed (build m)) a b := by
  rw [pathExistsIds_iff (reversed (build m)) (reversed_lines_valid _ (build_lines_valid m).1) a b (by simpa [reversed] using ha),
    path_iff_reach]

/-! ## cycle flags -/

/-- **soundness of the enumeration** -/
theorem cycles_listed_sound (g : G) (c : List Nat) (h : c ∈ allCycles g) :
    IsCycle g c ∧ IsMinCycle g c ∧ ∃ s, c.head? = some s ∧ s < g.nodes.length :=
  ⟨allCycles_sound g c h, allCycles_sound_min g c h⟩

/-- **completeness of the enumeration** (any rotation) -/
theorem cycles_listed_complete (g : G) (hv : LinesValid g) (c : List Nat) (h : IsCycle g c) :
    ∃ c' ∈ allCycles g, IsMinCycle g c' ∧
      (∃ pre post, c.dropLast = pre ++ post ∧ c'.dropLast = post ++ pre) ∧
      c'.length = c.length ∧ ∀ x, x ∈ c' ↔ x ∈ c :=
  allCycles_complete g hv c h

theorem cycles_listed_exact (g : G) (hv : LinesValid g) (c : List Nat) : c ∈ allCycles g ↔ IsMinCycle g c :=
  mem_allCycles_iff g hv c

theorem proper_cycle_iff_listed (g : G) (hv : LinesValid g) :
    (∃ c, IsCycle g c ∧ c.length > 2) ↔ ∃ c' ∈ allCycles g, c'.length > 2 :=
  FgaVerif.Model.PGraph.proper_cycle_iff_listed g hv

theorem cycle_nodes_exist (g : G) (hv : LinesValid g) (c : List Nat) (h : IsCycle g c) :
    ∀ x ∈ c, x < g.nodes.length :=
  cycle_nodes_lt g hv c h

/-- the flags are undefined exactly when some line is a self loop -/
theorem cycle_flags_undefined_iff (g : G) : cycleFlags g = none ↔ ∃ a, ∃ l ∈ g.lines, l.src = a ∧ l.dst = a := by
  rw [cycleFlags_none_iff, hasSelfLoop_iff]; rfl

/-- the classification of a listed cycle: "compile time" iff every line from an earlier to a later
    position of the node list is a computed line -/
theorem classification_exact (g : G) (c : List Nat) :
    nodeListHasNonComputedEdge g c = false ↔
      c.Pairwise (fun a b => ∀ l ∈ g.lines, l.src = a → l.dst = b → l.etype = .computed) :=
  nodeList_eq_false g c

/-- **an acyclic graph reports no cycle** -/
theorem no_cycle_no_flags (g : G) (hs : hasSelfLoop g = false) (h : ¬ ∃ c, IsCycle g c ∧ c.length > 2) :
    cycleFlags g = some (false, false) :=
  FgaVerif.Model.PGraph.no_cycle_no_flags g hs h

theorem acyclic_no_flags (g : G) (h : ∀ c, ¬ IsCycle g c) : cycleFlags g = some (false, false) :=
  FgaVerif.Model.PGraph.acyclic_no_flags g h

theorem acyclic_model_no_flags (m : FgaVerif.Model.Model) (h : ∀ c, ¬ IsCycle (build m) c) :
    cycleFlags (build m) = some (false, false) :=
  FgaVerif.Model.PGraph.acyclic_no_flags _ h

theorem no_flags_no_cycle (g : G) (hv : LinesValid g) (h : cycleFlags g = some (false, false)) :
    ¬ ∃ c, IsCycle g c ∧ c.length > 2 :=
  FgaVerif.Model.PGraph.no_flags_no_cycle g hv h

/-- **a cycle of pure computed usersets is reported as a compile-time cycle** -/
theorem computed_cycle_flagged (g : G) (hv : LinesValid g) (hs : hasSelfLoop g = false) (c : List Nat)
    (hc : IsCycle g c) (hl : c.length > 2)
    (hcomp : ∀ l ∈ g.lines, l.src ∈ c → l.dst ∈ c → l.etype = .computed) :
    ∃ r, cycleFlags g = some (true, r) :=
  FgaVerif.Model.PGraph.computed_cycle_flagged g hv hs c hc hl hcomp

/-- the same for the graph of a model (its lines always connect existing nodes) -/
theorem computed_cycle_model_flagged (m : FgaVerif.Model.Model) (hs : hasSelfLoop (build m) = false) (c : List Nat)
    (hc : IsCycle (build m) c) (hl : c.length > 2)
    (hcomp : ∀ l ∈ (build m).lines, l.src ∈ c → l.dst ∈ c → l.etype = .computed) :
    ∃ r, cycleFlags (build m) = some (true, r) :=
  FgaVerif.Model.PGraph.computed_cycle_flagged _ (build_lines_valid m).1 hs c hc hl hcomp

/-- exact meaning of both flags -/
theorem flags_exact (g : G) (hv : LinesValid g) (t r : Bool) (h : cycleFlags g = some (t, r)) :
    (t = true ↔ ∃ c, IsMinCycle g c ∧ c.length > 2 ∧ c.Pairwise (OnlyComputed g)) ∧
    (r = true ↔ ∃ c, IsMinCycle g c ∧ c.length > 2 ∧ ¬ c.Pairwise (OnlyComputed g)) :=
  FgaVerif.Model.PGraph.flags_exact g hv t r h

/-- converse of `computed_cycle_flagged`, for every graph -/
theorem compile_flag_sound (g : G) (r : Bool) (h : cycleFlags g = some (true, r)) :
    ∃ c, IsMinCycle g c ∧ c.length > 2 ∧ c.Pairwise (OnlyComputed g) :=
  FgaVerif.Model.PGraph.compile_flag_sound g r h

theorem compile_flag_computed_walk (g : G) (r : Bool) (h : cycleFlags g = some (true, r)) :
    ∃ s mid, mid ≠ [] ∧ (s :: mid).Nodup ∧ ComputedWalk g s (mid ++ [s]) :=
  FgaVerif.Model.PGraph.compile_flag_computed_walk g r h

/-! ### non-vacuity -/

/-- `type doc  relations  define a: b  define b: a` -/
def mAB : FgaVerif.Model.Model :=
  { schema := "1.1", types := [{ name := "doc", relations := [("a", .computed "b"), ("b", .computed "a")] }] }
def gAB : G :=
  { nodes := [⟨0, "doc", .specificType, "doc"⟩, ⟨1, "doc#a", .typeAndRelation, "doc#a"⟩,
              ⟨2, "doc#b", .typeAndRelation, "doc#b"⟩],
    lines := [⟨2, 1, 0, .computed, ""⟩, ⟨1, 2, 0, .computed, ""⟩] }
theorem build_mAB : build mAB = gAB := by rfl

/-- the hypotheses of `computed_cycle_model_flagged` hold of the two-relation cycle … -/
example : ∃ r, cycleFlags (build mAB) = some (true, r) :=
  computed_cycle_model_flagged mAB (by rw [build_mAB]; decide) [1, 2, 1]
    ⟨1, [2], rfl, by decide, by rw [build_mAB]; simp [Walk, Line, gAB]⟩ (by decide) (by rw [build_mAB]; decide)
/-- … also written from its other node … -/
example : IsCycle (build mAB) [2, 1, 2] :=
  ⟨2, [1], rfl, by decide, by rw [build_mAB]; simp [Walk, Line, gAB]⟩
/-- … and the flags evaluate to (compile time, not runtime) -/
example : cycleFlags (build mAB) = some (true, false) := by
  rw [build_mAB]
  simp [cycleFlags, hasSelfLoop, allCycles, gAB, cyclesFrom, cyclesVia, succSet, succs, List.range, List.range.loop,
    List.eraseDups_cons, nodeListHasNonComputedEdge, hasNonComputedBetween]
  decide
example : allCycles (build mAB) = [[1, 2, 1]] := by
  rw [build_mAB]
  simp [allCycles, gAB, cyclesFrom, cyclesVia, succSet, succs, List.range, List.range.loop, List.eraseDups_cons]

/-- `type doc  relations  define a: b  define b: c or d` — acyclic -/
def mAcyc : FgaVerif.Model.Model :=
  { schema := "1.1",
    types := [{ name := "doc", relations := [("a", .computed "b"), ("b", .union [.computed "c", .computed "d"])] }] }
def gAcyc : G :=
  { nodes := [⟨0, "doc", .specificType, "doc"⟩, ⟨1, "doc#a", .typeAndRelation, "doc#a"⟩,
              ⟨2, "doc#b", .typeAndRelation, "doc#b"⟩, ⟨3, "union", .operator, "union:0"⟩,
              ⟨4, "doc#c", .typeAndRelation, "doc#c"⟩, ⟨5, "doc#d", .typeAndRelation, "doc#d"⟩],
    lines := [⟨2, 1, 0, .computed, ""⟩, ⟨3, 2, 0, .rewrite, ""⟩, ⟨4, 3, 0, .rewrite, ""⟩, ⟨5, 3, 0, .rewrite, ""⟩],
    opCount := 1 }
theorem build_mAcyc : build mAcyc = gAcyc := by rfl

/-- the hypothesis of `acyclic_model_no_flags` holds (every line goes from a larger to a smaller id) … -/
example : ∀ c, ¬ IsCycle (build mAcyc) c :=
  no_cycle_of_rank _ id (by rw [build_mAcyc]; decide)
example : cycleFlags (build mAcyc) = some (false, false) :=
  acyclic_model_no_flags mAcyc (no_cycle_of_rank _ id (by rw [build_mAcyc]; decide))
/-- … and the flags evaluate to "none reported" -/
example : cycleFlags (build mAcyc) = some (false, false) := by
  rw [build_mAcyc]
  simp [cycleFlags, hasSelfLoop, allCycles, gAcyc, cyclesFrom, cyclesVia, succSet, succs, List.range, List.range.loop,
    List.eraseDups_cons]

/-- why `computed_cycle_flagged` asks about all lines among the nodes of the cycle: a pure computed cycle
    0 → 1 → 2 → 0 with a direct chord 0 → 2 is not reported at compile time (both listed cycles,
    `[0, 1, 2, 0]` and `[0, 2, 0]`, see the direct line) -/
def gChord : G :=
  { nodes := [⟨0, "t#a", .typeAndRelation, "t#a"⟩, ⟨1, "t#b", .typeAndRelation, "t#b"⟩,
              ⟨2, "t#c", .typeAndRelation, "t#c"⟩],
    lines := [⟨0, 1, 0, .computed, ""⟩, ⟨1, 2, 0, .computed, ""⟩, ⟨2, 0, 0, .computed, ""⟩, ⟨0, 2, 0, .direct, ""⟩] }
theorem chord_defeats_compile_flag :
    ComputedWalk gChord 0 [1, 2, 0] ∧ cycleFlags gChord = some (false, true) := by
  constructor
  · simp [ComputedWalk, Line, OnlyComputed, gChord]
  · simp [cycleFlags, hasSelfLoop, allCycles, gChord, cyclesFrom, cyclesVia, succSet, succs, List.range,
      List.range.loop, List.eraseDups_cons, nodeListHasNonComputedEdge, hasNonComputedBetween]
    decide

/-- a self loop: the flags are undefined -/
example : cycleFlags { nodes := [⟨0, "t#a", .typeAndRelation, "t#a"⟩], lines := [⟨0, 0, 0, .computed, ""⟩] } = none := by
  decide

/-! ## label lookup and faithfulness of the lines (`Proofs/PGraphFaithful.lean`)

`G.find?` is the port of `GetNodeByLabel`: a lookup in the map from *unique* labels to nodes (`getOrAddNode`
registers every node under its unique label; for a type, relation or wildcard node that is the display label, for
an operator node it is `<operator>:<ordinal>`, the stand-in for `<operator>:<ULID>`). -/

open FgaVerif.Model in
/-- **A(i)** the unique labels of a built graph are pairwise distinct, and ids are positions — for every model -/
theorem built_graph_labels_unique (m : Model) :
    (build m).nodes.Pairwise (fun a b => a.uniqueLabel ≠ b.uniqueLabel) ∧
    ∀ (i : Nat) (h : i < (build m).nodes.length), ((build m).nodes[i]).id = i :=
  ⟨(build_wf m).uniq, (build_wf m).ids⟩

open FgaVerif.Model in
/-- hence lookup is a function from labels onto the nodes: a label finds `n` iff `n` is the node of the graph
    registered under it -/
theorem label_lookup_is_function (m : Model) (l : String) (n : PNode) :
    (build m).find? l = some n ↔ n ∈ (build m).nodes ∧ n.uniqueLabel = l :=
  find?_iff (build m) (build_wf m) l n

open FgaVerif.Model in
/-- **A(ii)** for a model whose type names and restriction types contain no `#` and no `:` (`NamesOk`): every
    type name finds a type node, every `type#relation` of a defined relation finds a relation node, every
    wildcard restriction `T:*` of a relation whose rewrite contains a direct assignment finds a wildcard node;
    each is labelled by the label it was looked up under -/
theorem label_lookup_finds_types_relations_wildcards (m : Model) (hm : NamesOk m = true) (td : TypeDef)
    (htd : td ∈ m.types) :
    (∃ n, (build m).find? td.name = some n ∧ n.ntype = .specificType ∧ n.label = td.name) ∧
    (∀ rel u, (rel, u) ∈ td.relations →
      ∃ n, (build m).find? (td.name ++ "#" ++ rel) = some n ∧ n.ntype = .typeAndRelation ∧
        n.label = td.name ++ "#" ++ rel) ∧
    (∀ rel u top, (rel, u) ∈ td.relations → Occ u .this top → ∀ r ∈ restrOf td rel, r.wildcard = true → r.rel = "" →
      ∃ n, (build m).find? (r.type ++ ":*") = some n ∧ n.ntype = .wildcard ∧ n.label = r.type ++ ":*") := by
  refine ⟨build_lookup_type m hm td htd, fun rel u hr => build_lookup_relation m hm td htd rel u hr, ?_⟩
  intro rel u top hr ho r hmem hw hrel
  obtain ⟨_, _, h⟩ := build_direct m hm td htd rel u hr top ho
  obtain ⟨n, a, b, c, _⟩ := h r hmem
  have e1 : refLabel r = r.type ++ ":*" := by simp [refLabel, hw, hrel]
  have e2 : refKind r = .wildcard := by simp [refKind, hw, hrel]
  rw [e1] at a c; rw [e2] at b
  exact ⟨n, a, b, c⟩

open FgaVerif.Model in
/-- **A(iii)** conversely (same hypothesis): a node found under label `l` is registered under `l`; its kind is the
    syntactic kind of `l` (`classify`: contains `#` before any `:` — relation; `T:*` — wildcard; another `:` —
    operator; neither — type); if it is not an operator it is displayed as `l` and `l` comes from the model
    (`Prov`: a type name or the type of a plain restriction; `T:*` of a wildcard restriction; `T#r` of a defined
    relation, of a userset restriction, or of a computed-userset leaf of a rewrite of `T`); if it is an operator,
    `l` is `<its display label>:<k>` with `k` below the number of operators created -/
theorem label_lookup_sound (m : Model) (hm : NamesOk m = true) (l : String) (n : PNode)
    (h : (build m).find? l = some n) :
    n.uniqueLabel = l ∧ n.ntype = classify l ∧
    (n.ntype ≠ .operator → n.label = l ∧ Prov m l n.ntype) ∧
    (n.ntype = .operator → ∃ k, k < (build m).opCount ∧ n.label ∈ opNames ∧ l = n.label ++ ":" ++ toString k) :=
  build_lookup_sound m hm l n h

open FgaVerif.Model in
/-- so a display label without `#` and `:` (such as `union`) never finds an operator node -/
theorem label_lookup_plain_is_type (m : Model) (hm : NamesOk m = true) (l : String) (hl : plain l = true) (n : PNode)
    (h : (build m).find? l = some n) : n.ntype = .specificType ∧ n.label = l :=
  build_lookup_plain m hm l hl n h

open FgaVerif.Model in
/-- the whole graph of a type: its node, and for every relation its node with the rewrite drawn below it
    (`Drawn`, by recursion on the rewrite) -/
theorem built_graph_draws_every_type (m : Model) (hm : NamesOk m = true) (td : TypeDef) (htd : td ∈ m.types) :
    TypeDrawn m (build m) td :=
  (build_spec m hm).2 td htd

/-! `Occ u v top`: the construct `v` occurs in the rewrite `u`, at top level iff `top`.  `ParentOf g td rel top q`:
    the relation node `p` is found under `td.name#rel`, is a relation node, and `q` is `p` itself (`top`) or an
    operator node from which a chain of rewrite lines leads up to `p`.  `HasLine g s d k ts`: some line of `g` goes
    from node `s` to node `d` with kind `k` and tupleset label `ts`. -/

open FgaVerif.Model in
/-- **B(i)** a direct assignment in the rewrite of `T#rel` draws, for every restriction of the relation's
    metadata, a direct line from the node of the restriction (type, `type:*` or `type#rel`) to the node the
    assignment hangs off.  Repeated restrictions (the same type with different conditions) share one line. -/
theorem direct_restriction_has_line (m : Model) (hm : NamesOk m = true) (td : TypeDef) (htd : td ∈ m.types)
    (rel : String) (u : Userset) (hr : (rel, u) ∈ td.relations) (top : Bool) (ho : Occ u .this top) :
    ∃ q, ParentOf (build m) td rel top q ∧ ∀ r ∈ restrOf td rel,
      ∃ n, (build m).find? (refLabel r) = some n ∧ n.ntype = refKind r ∧ n.label = refLabel r ∧
        HasLine (build m) n q .direct "" :=
  build_direct m hm td htd rel u hr top ho

open FgaVerif.Model in
/-- **B(ii)** a computed userset `x` in the rewrite of `T#rel` draws a line from `T#x`: a computed line to the
    relation node at top level, a rewrite line to the operator node otherwise -/
theorem computed_operand_has_line (m : Model) (hm : NamesOk m = true) (td : TypeDef) (htd : td ∈ m.types)
    (rel : String) (u : Userset) (hr : (rel, u) ∈ td.relations) (x : String) (top : Bool)
    (ho : Occ u (.computed x) top) :
    ∃ q n, ParentOf (build m) td rel top q ∧ (build m).find? (td.name ++ "#" ++ x) = some n ∧
      n.ntype = .typeAndRelation ∧ HasLine (build m) n q (if top then .computed else .rewrite) "" :=
  build_computed m hm td htd rel u hr x top ho

open FgaVerif.Model in
/-- **B(iii)** a tuple-to-userset `x from ts` draws, for every restriction of the tupleset whose type `P` defines
    `x` (`typeAndRelationExists`; other restriction types are skipped, as in the code), a TTU line from `P#x`
    labelled `T#ts`.  Restrictions with the same type share one line. -/
theorem ttu_has_line (m : Model) (hm : NamesOk m = true) (td : TypeDef) (htd : td ∈ m.types)
    (rel : String) (u : Userset) (hr : (rel, u) ∈ td.relations) (ts x : String) (top : Bool)
    (ho : Occ u (.ttu ts x) top) :
    ∃ q, ParentOf (build m) td rel top q ∧ ∀ r ∈ restrOf td ts, typeAndRelationExists m r.type x = true →
      ∃ n, (build m).find? (r.type ++ "#" ++ x) = some n ∧ n.ntype = .typeAndRelation ∧
        HasLine (build m) n q .ttu (td.name ++ "#" ++ ts) :=
  build_ttu m hm td htd rel u hr ts x top ho

open FgaVerif.Model in
/-- **B(iv)** every operator occurrence (union, intersection, exclusion, and the unset rewrite, whose operator
    label is empty) has its own operator node with a rewrite line to its parent -/
theorem operator_has_line (m : Model) (hm : NamesOk m = true) (td : TypeDef) (htd : td ∈ m.types)
    (rel : String) (u : Userset) (hr : (rel, u) ∈ td.relations) (v : Userset) (hv : isOperator v = true) (top : Bool)
    (ho : Occ u v top) :
    ∃ q o, ParentOf (build m) td rel top q ∧ OpNode (build m) o (opLabel v) ∧ HasLine (build m) o q .rewrite "" :=
  build_operator m hm td htd rel u hr v hv top ho


open FgaVerif.Model in
/-- **B(v)** multiplicity: the number of rewrite or computed lines whose source is a relation node (`relRC`) is
    the number of computed-userset leaves of all rewrites of the model (`modelLeaves`): `parseComputed` adds its
    line unconditionally, no other construct draws such a line.  (Direct and TTU lines are de-duplicated, so no
    such count holds of them: `mDup` below.) -/
theorem computed_lines_count (m : Model) (hm : NamesOk m = true) : relRC (build m) = modelLeaves m :=
  build_relRC m hm

open FgaVerif.Model in
/-- conversely to B(i)–(iv), **every line is typed as its kind dictates** (`KindOk`): its end nodes exist, and
    a direct line has an empty tupleset label, a non-operator source and a relation or operator target; a computed
    line joins two relation nodes; a rewrite line goes from an operator node to a relation or operator node or
    from a relation node to an operator node; a TTU line goes from a relation node to a relation or operator node
    and is labelled `T#ts` for a type `T` of the model -/
theorem built_line_typed (m : Model) (hm : NamesOk m = true) (l : PLine) (hl : l ∈ (build m).lines) :
    ∃ s d, (build m).nodes[l.src]? = some s ∧ (build m).nodes[l.dst]? = some d ∧
      KindOk m l.etype l.tupleset s.ntype d.ntype :=
  build_LT m hm l hl

open FgaVerif.Model in
/-- **drawn from user types towards relations**: every line points to a relation node or an operator node; type
    nodes and wildcard nodes have no incoming line -/
theorem lines_point_to_relations_or_operators (m : Model) (hm : NamesOk m = true) (l : PLine)
    (hl : l ∈ (build m).lines) (d : PNode) (hd : d ∈ (build m).nodes) (hid : d.id = l.dst) :
    d.ntype = .typeAndRelation ∨ d.ntype = .operator := by
  obtain ⟨s, d', _, hd', hk⟩ := build_LT m hm l hl
  have := wf_getElem? (build m) (build_wf m) d hd
  rw [hid, hd'] at this
  cases this
  cases he : l.etype <;> rw [he] at hk
  · exact hk.2.2
  · rcases hk.2 with h | h
    · exact h.2
    · exact Or.inr h.2
  · exact hk.2.1
  · exact Or.inl hk.2.2

open FgaVerif.Model in
/-- every node of a built graph satisfies the node invariant (`Good`: kind = syntactic kind of the unique label;
    non-operators are displayed by their unique label and come from the model; operators are `<op>:<k>`) -/
theorem built_graph_nodes_from_model (m : Model) (hm : NamesOk m = true) (n : PNode) (hn : n ∈ (build m).nodes) :
    Good m (build m).opCount n :=
  (build_spec m hm).1 n hn

section FaithfulExamples
open FgaVerif.Model

/-! ### non-vacuity of the faithfulness theorems -/

def tdUser : TypeDef := { name := "user" }
/-- `type group  relations  define member: [user, user:*, group#member]` -/
def tdGroup : TypeDef :=
  { name := "group", relations := [("member", .this)],
    md := some { relations := [("member", { restr := [{ type := "user" }, { type := "user", wildcard := true },
                                                      { type := "group", rel := "member" }] })] } }
/-- `type doc  relations  define editor: viewer  define parent: [group, user]
     define viewer: [user] and member from parent` -/
def tdDoc : TypeDef :=
  { name := "doc",
    relations := [("editor", .computed "viewer"), ("parent", .this),
                  ("viewer", .inter [.this, .ttu "parent" "member"])],
    md := some { relations := [("parent", { restr := [{ type := "group" }, { type := "user" }] }),
                               ("viewer", { restr := [{ type := "user" }] })] } }
def mEx : Model := { schema := "1.1", types := [tdUser, tdGroup, tdDoc] }
def gEx : G :=
  { nodes := [⟨0, "doc", .specificType, "doc"⟩, ⟨1, "doc#editor", .typeAndRelation, "doc#editor"⟩,
              ⟨2, "doc#viewer", .typeAndRelation, "doc#viewer"⟩, ⟨3, "doc#parent", .typeAndRelation, "doc#parent"⟩,
              ⟨4, "group", .specificType, "group"⟩, ⟨5, "user", .specificType, "user"⟩,
              ⟨6, "intersection", .operator, "intersection:0"⟩,
              ⟨7, "group#member", .typeAndRelation, "group#member"⟩, ⟨8, "user:*", .wildcard, "user:*"⟩],
    lines := [⟨2, 1, 0, .computed, ""⟩, ⟨4, 3, 0, .direct, ""⟩, ⟨5, 3, 0, .direct, ""⟩, ⟨6, 2, 0, .rewrite, ""⟩,
              ⟨5, 6, 0, .direct, ""⟩, ⟨7, 6, 0, .ttu, "doc#parent"⟩, ⟨5, 7, 0, .direct, ""⟩, ⟨8, 7, 0, .direct, ""⟩,
              ⟨7, 7, 0, .direct, ""⟩],
    opCount := 1 }
theorem build_mEx : build mEx = gEx := by rfl
theorem namesOk_mEx : NamesOk mEx = true := by decide

theorem tdDoc_mem : tdDoc ∈ mEx.types := by simp [mEx]
theorem tdGroup_mem : tdGroup ∈ mEx.types := by simp [mEx]

/-- the hypotheses of the lookup theorem hold of `group`, and the nodes it promises are there -/
example : ∃ n, (build mEx).find? "user:*" = some n ∧ n.ntype = .wildcard ∧ n.label = "user:*" :=
  (label_lookup_finds_types_relations_wildcards mEx namesOk_mEx tdGroup tdGroup_mem).2.2 "member" .this true
    (by simp [tdGroup]) (.here _) { type := "user", wildcard := true } (by simp [restrOf, relMeta, tdGroup, AList.find?]) rfl rfl
example : (build mEx).find? "user:*" = some ⟨8, "user:*", .wildcard, "user:*"⟩ ∧
    (build mEx).find? "doc" = some ⟨0, "doc", .specificType, "doc"⟩ ∧
    (build mEx).find? "doc#viewer" = some ⟨2, "doc#viewer", .typeAndRelation, "doc#viewer"⟩ ∧
    (build mEx).find? "intersection:0" = some ⟨6, "intersection", .operator, "intersection:0"⟩ ∧
    (build mEx).find? "intersection" = none := by
  rw [build_mEx]; decide

/-- B(ii) at top level: `define editor: viewer` -/
example : ∃ q n, ParentOf (build mEx) tdDoc "editor" true q ∧ (build mEx).find? "doc#viewer" = some n ∧
    n.ntype = .typeAndRelation ∧ HasLine (build mEx) n q .computed "" :=
  computed_operand_has_line mEx namesOk_mEx tdDoc tdDoc_mem "editor" (.computed "viewer") (by simp [tdDoc]) "viewer" true
    (.here _)
/-- B(i), B(iii), B(iv) under the intersection of `define viewer: [user] and member from parent` -/
example : ∃ q, ParentOf (build mEx) tdDoc "viewer" false q ∧ ∀ r ∈ restrOf tdDoc "viewer",
    ∃ n, (build mEx).find? (refLabel r) = some n ∧ n.ntype = refKind r ∧ n.label = refLabel r ∧
      HasLine (build mEx) n q .direct "" :=
  direct_restriction_has_line mEx namesOk_mEx tdDoc tdDoc_mem "viewer" (.inter [.this, .ttu "parent" "member"])
    (by simp [tdDoc]) false (.inter (c := .this) (by simp) (.here _))
example : restrOf tdDoc "viewer" = [{ type := "user" }] ∧ restrOf tdDoc "parent" = [{ type := "group" }, { type := "user" }] := by
  decide
example : ∃ q, ParentOf (build mEx) tdDoc "viewer" false q ∧ ∀ r ∈ restrOf tdDoc "parent",
    typeAndRelationExists mEx r.type "member" = true →
    ∃ n, (build mEx).find? (r.type ++ "#" ++ "member") = some n ∧ n.ntype = .typeAndRelation ∧
      HasLine (build mEx) n q .ttu "doc#parent" :=
  ttu_has_line mEx namesOk_mEx tdDoc tdDoc_mem "viewer" (.inter [.this, .ttu "parent" "member"]) (by simp [tdDoc])
    "parent" "member" false
    (.inter (c := .ttu "parent" "member") (by simp) (.here _))
example : ∃ q o, ParentOf (build mEx) tdDoc "viewer" true q ∧ OpNode (build mEx) o "intersection" ∧
    HasLine (build mEx) o q .rewrite "" :=
  operator_has_line mEx namesOk_mEx tdDoc tdDoc_mem "viewer" (.inter [.this, .ttu "parent" "member"]) (by simp [tdDoc])
    _ rfl true (.here _)

/-- what `ttu_has_line` does not promise: `user` is a restriction of `parent` but does not define `member`, so no
    `user#member` node exists and the only TTU line comes from `group#member` -/
example : typeAndRelationExists mEx "user" "member" = false ∧ typeAndRelationExists mEx "group" "member" = true ∧
    (build mEx).find? "user#member" = none ∧
    (build mEx).lines.filter (fun l => l.etype == .ttu) = [⟨7, 6, 0, .ttu, "doc#parent"⟩] := by
  rw [build_mEx]; decide

/-- B(v): one computed-userset leaf, one computed line out of a relation node (the rewrite line out of the
    intersection node is not counted) -/
example : relRC (build mEx) = 1 ∧ modelLeaves mEx = 1 := by rw [build_mEx]; decide
example : relRC (build mAcyc) = 3 ∧ modelLeaves mAcyc = 3 := by rw [build_mAcyc]; decide
example : relRC (build mEx) = modelLeaves mEx := computed_lines_count mEx namesOk_mEx

/-- repeated restrictions share a line: `define r: [user, user with c]` draws one direct line, so the number of
    direct lines is not the number of restrictions -/
def mDup : Model :=
  { schema := "1.1",
    types := [{ name := "doc", relations := [("r", .this)],
                md := some { relations := [("r", { restr := [{ type := "user" }, { type := "user", cond := "c" }] })] } }] }
example : (build mDup).lines = [⟨2, 1, 0, .direct, ""⟩] := by decide

/-- why `NamesOk` is asked for.  A type named like a relation node: `a#b` finds the relation node of `a`, not a
    type node (true of the code as well, for a hand-built model; the DSL and the validator exclude such names) … -/
def mBad : Model :=
  { schema := "1.1", types := [{ name := "a", relations := [("b", .computed "c")] }, { name := "a#b" }] }
example : NamesOk mBad = false ∧
    (build mBad).find? "a#b" = some ⟨1, "a#b", .typeAndRelation, "a#b"⟩ ∧ (build mBad).nodes.length = 3 := by decide
/-- … and a type named like the port's stand-in for an operator's unique label (the code uses a fresh ULID there,
    so this clash is an artefact of the port) -/
def mBadOp : Model :=
  { schema := "1.1", types := [{ name := "a", relations := [("b", .union [])] }, { name := "union:0" }] }
example : NamesOk mBadOp = false ∧
    (build mBadOp).find? "union:0" = some ⟨2, "union", .operator, "union:0"⟩ := by decide

/-- the line typing theorem on the example, and what it says there: all targets are relation or operator nodes -/
example : ∀ l ∈ (build mEx).lines, ∃ s d, (build mEx).nodes[l.src]? = some s ∧ (build mEx).nodes[l.dst]? = some d ∧
    KindOk mEx l.etype l.tupleset s.ntype d.ntype :=
  fun l hl => built_line_typed mEx namesOk_mEx l hl
example : (build mEx).lines.map (·.dst) = [1, 3, 3, 2, 6, 6, 7, 7, 7] ∧
    ((build mEx).nodes.filter (fun n => n.ntype == .typeAndRelation || n.ntype == .operator)).map (·.id) = [1, 2, 3, 6, 7] := by
  rw [build_mEx]; decide

end FaithfulExamples

end FgaVerif.Props.C17
