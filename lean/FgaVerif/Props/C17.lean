import FgaVerif.Model.PGraph
/-!
# C17 — plain model graph: faithful, reversible, stable DOT, sound path queries

About the port of the plain graph (`Model/PGraph.lean`; gonum's multigraph is modelled by its observable
content: nodes with ids in creation order, lines with per-(from,to) ids in creation order; tied to the
code by correspondence on the node list, the line list in DOT order, the reversal, the double reversal,
the all-pairs reachability matrix and the two cycle flags).  Proved for **every** graph value:

* `reversed_flips` — reversing keeps the nodes, flips source and target of every line, keeps its id,
  kind and tupleset label, and toggles the drawing direction; nothing else changes;
* `reversed_involutive` — reversing twice gives back the identical graph, hence the identical list of
  lines in DOT order (`double_reversal_same_dot_lines`): the DOT text, a function of that content, is
  restored.  (This was false of the code before the `fix:` commit that re-adds the lines in id order.)
* `path_duality` — a path from a to b exists in the graph iff one exists from b to a in the reversed
  graph, for the declarative path relation `Path`.

`path_duality` is about `Path`; that gonum's `topo.PathExistsIn` (and the port's fuelled search
`pathExistsIds`) decide `Path` is validated by the all-pairs correspondence, **not proved**.  The cycle-flag
clause and DOT text stability across builds are oracle/correspondence only (gonum's Johnson cycles and DOT
writer are parameters).
-/
namespace FgaVerif.Props.C17
open FgaVerif.Model.PGraph

theorem reversed_flips (g : G) :
    (reversed g).nodes = g.nodes ∧ (reversed g).listObjects = !g.listObjects ∧
    (reversed g).lines = g.lines.map (fun l => { l with src := l.dst, dst := l.src }) ∧
    (reversed g).lines.length = g.lines.length := by
  simp [reversed]

theorem reversed_involutive (g : G) : reversed (reversed g) = g := by
  cases g with
  | mk nodes lines lo oc =>
    simp only [reversed, List.map_map, Bool.not_not, G.mk.injEq, true_and, and_true]
    conv => rhs; rw [← List.map_id lines]
    apply List.map_congr_left
    intro l _
    cases l; rfl

theorem double_reversal_same_dot_lines (g : G) : dotLines (reversed (reversed g)) = dotLines g := by
  rw [reversed_involutive]

/-- there is a path (possibly empty) from `a` to `b` along lines -/
inductive Path (g : G) : Nat → Nat → Prop
  | refl (a : Nat) : Path g a a
  | step (a b c : Nat) : (∃ l ∈ g.lines, l.src = a ∧ l.dst = b) → Path g b c → Path g a c

theorem Path.trans {g : G} {a b c : Nat} (h1 : Path g a b) (h2 : Path g b c) : Path g a c := by
  induction h1 with
  | refl => exact h2
  | step a b _ hl _ ih => exact .step a b c hl (ih h2)

theorem Path.snoc {g : G} {a b c : Nat} (h1 : Path g a b) (hl : ∃ l ∈ g.lines, l.src = b ∧ l.dst = c) : Path g a c :=
  h1.trans (.step b c c hl (.refl c))

theorem line_reversed (g : G) (a b : Nat) :
    (∃ l ∈ (reversed g).lines, l.src = a ∧ l.dst = b) ↔ (∃ l ∈ g.lines, l.src = b ∧ l.dst = a) := by
  simp only [reversed, List.mem_map]
  constructor
  · rintro ⟨l, ⟨l0, hl0, rfl⟩, h1, h2⟩
    exact ⟨l0, hl0, h2, h1⟩
  · rintro ⟨l, hl, h1, h2⟩
    exact ⟨{ l with src := l.dst, dst := l.src }, ⟨l, hl, rfl⟩, h2, h1⟩

theorem path_reversed_of_path (g : G) (a b : Nat) (h : Path g a b) : Path (reversed g) b a := by
  induction h with
  | refl a => exact .refl a
  | step a b c hl _ ih => exact ih.snoc ((line_reversed g b a).2 hl)

/-- **path duality** -/
theorem path_duality (g : G) (a b : Nat) : Path g a b ↔ Path (reversed g) b a := by
  constructor
  · exact path_reversed_of_path g a b
  · intro h
    have := path_reversed_of_path (reversed g) b a h
    rwa [reversed_involutive] at this

/-! ## non-vacuity: a graph with two parallel lines of different kinds between the same nodes -/
def g0 : G :=
  { nodes := [⟨0, "doc", .specificType, "doc"⟩, ⟨1, "doc#a", .typeAndRelation, "doc#a"⟩],
    lines := [⟨0, 1, 0, .direct, ""⟩, ⟨0, 1, 1, .ttu, "doc#p"⟩] }
example : (reversed g0).lines = [⟨1, 0, 0, .direct, ""⟩, ⟨1, 0, 1, .ttu, "doc#p"⟩] := by decide
example : Path g0 0 1 := .step 0 1 1 ⟨⟨0, 1, 0, .direct, ""⟩, by simp [g0], rfl, rfl⟩ (.refl 1)
example : pathExistsIds g0 0 1 = true ∧ pathExistsIds (reversed g0) 1 0 = true ∧ pathExistsIds g0 1 0 = false := by
  decide

end FgaVerif.Props.C17
