import FgaVerif.Model.PGraph
import FgaVerif.Proofs.PGraphBuild
/-!
# C17 — plain model graph: faithful, reversible, stable DOT, sound path queries

About the port of the plain graph (`Model/PGraph.lean`; gonum's multigraph is modelled by its observable
content: nodes with ids in creation order, lines with per-(from,to) ids in creation order; tied to the
code by correspondence on the node list, the line list in DOT order, the reversal, the double reversal,
the all-pairs reachability matrix and the two cycle flags).  Proved for **every** graph value:

* `reversed_flips` — reversing keeps the nodes, flips source and target of every line, keeps its id,
  kind and tupleset label, and toggles the drawing direction; nothing else changes;
* `reversed_involutive` — reversing twice gives back the identical graph, hence the identical list of
  lines in DOT order (`double_reversal_same_dot_lines`): the DOT text, a function of that content, is
  restored.  (This was false of the code before the `fix:` commit that re-adds the lines in id order.)
* `path_duality` — a path from a to b exists in the graph iff one exists from b to a in the reversed
  graph, for the declarative path relation `Path`.

* `built_graph_lines_valid` — every line of a graph built from a model connects nodes that exist (ids
  below the number of nodes): the builder only draws lines between nodes it has created;
* `path_query_exact`, `path_query_exact_reversed` — on such a graph the port's path query
  (`pathExistsIds`, a fuelled breadth-first search) answers true **iff** a path exists (`Path`), and
  likewise on the reversed graph: the search is sound, and complete because its fuel covers the potential
  `|work| + |nodes| − |seen|`, which decreases by one per step.

That gonum's `topo.PathExistsIn` gives the same answers as the port's search is validated by the
all-pairs correspondence, **not proved** (gonum is a parameter).  The cycle-flag
clause and DOT text stability across builds are oracle/correspondence only (gonum's Johnson cycles and DOT
writer are parameters).
-/
namespace FgaVerif.Props.C17
open FgaVerif.Model.PGraph

theorem reversed_flips (g : G) :
    (reversed g).nodes = g.nodes ∧ (reversed g).listObjects = !g.listObjects ∧
    (reversed g).lines = g.lines.map (fun l => { l with src := l.dst, dst := l.src }) ∧
    (reversed g).lines.length = g.lines.length := by
  simp [reversed]

theorem reversed_involutive (g : G) : reversed (reversed g) = g := by
  cases g with
  | mk nodes lines lo oc =>
    simp only [reversed, List.map_map, Bool.not_not, G.mk.injEq, true_and, and_true]
    conv => rhs; rw [← List.map_id lines]
    apply List.map_congr_left
    intro l _
    cases l; rfl

theorem double_reversal_same_dot_lines (g : G) : dotLines (reversed (reversed g)) = dotLines g := by
  rw [reversed_involutive]

/-- there is a path (possibly empty) from `a` to `b` along lines -/
inductive Path (g : G) : Nat → Nat → Prop
  | refl (a : Nat) : Path g a a
  | step (a b c : Nat) : (∃ l ∈ g.lines, l.src = a ∧ l.dst = b) → Path g b c → Path g a c

theorem Path.trans {g : G} {a b c : Nat} (h1 : Path g a b) (h2 : Path g b c) : Path g a c := by
  induction h1 with
  | refl => exact h2
  | step a b _ hl _ ih => exact .step a b c hl (ih h2)

theorem Path.snoc {g : G} {a b c : Nat} (h1 : Path g a b) (hl : ∃ l ∈ g.lines, l.src = b ∧ l.dst = c) : Path g a c :=
  h1.trans (.step b c c hl (.refl c))

theorem line_reversed (g : G) (a b : Nat) :
    (∃ l ∈ (reversed g).lines, l.src = a ∧ l.dst = b) ↔ (∃ l ∈ g.lines, l.src = b ∧ l.dst = a) := by
  simp only [reversed, List.mem_map]
  constructor
  · rintro ⟨l, ⟨l0, hl0, rfl⟩, h1, h2⟩
    exact ⟨l0, hl0, h2, h1⟩
  · rintro ⟨l, hl, h1, h2⟩
    exact ⟨{ l with src := l.dst, dst := l.src }, ⟨l, hl, rfl⟩, h2, h1⟩

theorem path_reversed_of_path (g : G) (a b : Nat) (h : Path g a b) : Path (reversed g) b a := by
  induction h with
  | refl a => exact .refl a
  | step a b c hl _ ih => exact ih.snoc ((line_reversed g b a).2 hl)

/-- **path duality** -/
theorem path_duality (g : G) (a b : Nat) : Path g a b ↔ Path (reversed g) b a := by
  constructor
  · exact path_reversed_of_path g a b
  · intro h
    have := path_reversed_of_path (reversed g) b a h
    rwa [reversed_involutive] at this

/-! ## non-vacuity: a graph with two parallel lines of different kinds between the same nodes -/
def g0 : G :=
  { nodes := [⟨0, "doc", .specificType, "doc"⟩, ⟨1, "doc#a", .typeAndRelation, "doc#a"⟩],
    lines := [⟨0, 1, 0, .direct, ""⟩, ⟨0, 1, 1, .ttu, "doc#p"⟩] }
example : (reversed g0).lines = [⟨1, 0, 0, .direct, ""⟩, ⟨1, 0, 1, .ttu, "doc#p"⟩] := by decide
example : Path g0 0 1 := .step 0 1 1 ⟨⟨0, 1, 0, .direct, ""⟩, by simp [g0], rfl, rfl⟩ (.refl 1)
example : pathExistsIds g0 0 1 = true ∧ pathExistsIds (reversed g0) 1 0 = true ∧ pathExistsIds g0 1 0 = false := by
  decide

/-! ### the path query decides the path relation -/

theorem path_iff_reach (g : G) (a b : Nat) : Path g a b ↔ Reach g a b := by
  constructor
  · intro h
    induction h with
    | refl a => exact Reach.refl a
    | step a b c hl _ ih =>
      -- prepend one line to a reachability proof
      have hs : Succ g a b := (succ_iff_line g a b).2 hl
      have pre : ∀ {x y : Nat}, Reach g x y → ∀ w, Succ g w x → Reach g w y := by
        intro x y hxy
        induction hxy with
        | refl => intro w hw; exact Reach.step (Reach.refl w) hw
        | step _ hs2 ih2 => intro w hw; exact Reach.step (ih2 w hw) hs2
      exact pre ih a hs
  · intro h
    induction h with
    | refl => exact Path.refl _
    | step _ hs ih => exact Path.snoc ih ((succ_iff_line g _ _).1 hs)

theorem built_graph_lines_valid (m : FgaVerif.Model.Model) :
    ∀ l ∈ (build m).lines, l.src < (build m).nodes.length ∧ l.dst < (build m).nodes.length :=
  (build_lines_valid m).1

/-- **the path query of a built graph answers true iff a path exists** -/
theorem path_query_exact (m : FgaVerif.Model.Model) (a b : Nat) (ha : a < (build m).nodes.length) :
    pathExistsIds (build m) a b = true ↔ Path (build m) a b := by
  rw [pathExistsIds_iff (build m) (build_lines_valid m).1 a b ha, path_iff_reach]

theorem reversed_lines_valid (g : G) (h : LinesValid g) : LinesValid (reversed g) := by
  intro l hl
  unfold reversed at hl
  obtain ⟨l0, hl0, rfl⟩ := List.mem_map.1 hl
  have := h l0 hl0
  exact ⟨this.2, this.1⟩

/-- the same on the reversed graph -/
theorem path_query_exact_reversed (m : FgaVerif.Model.Model) (a b : Nat) (ha : a < (build m).nodes.length) :
    pathExistsIds (reversed (build m)) a b = true ↔ Path (reversed (build m)) a b := by
  rw [pathExistsIds_iff (reversed (build m)) (reversed_lines_valid _ (build_lines_valid m).1) a b (by simpa [reversed] using ha),
    path_iff_reach]

end FgaVerif.Props.C17
